import RimeModel.C06.Table
import RimeModel.C06.Source
/-! helper lemmas for C06 (free to change) -/
namespace RimeModel.C06

/-! ### strict orders -/

theorem natLt_strict : StrictTotal natLt where
  irrefl a := by simp [natLt]
  trans a b c := by simp [natLt]; omega
  tri a b := by simp [natLt]; omega

theorem bytesLt_irrefl : ∀ a, bytesLt a a = false
  | [] => rfl
  | a :: as => by simp [bytesLt, bytesLt_irrefl as]

theorem bytesLt_trans : ∀ a b c, bytesLt a b = true → bytesLt b c = true → bytesLt a c = true
  | [], [], _, h, _ => by simp [bytesLt] at h
  | [], _ :: _, [], _, h => by simp [bytesLt] at h
  | [], _ :: _, _ :: _, _, _ => rfl
  | _ :: _, [], _, h, _ => by simp [bytesLt] at h
  | _ :: _, _ :: _, [], _, h => by simp [bytesLt] at h
  | a :: as, b :: bs, c :: cs, h1, h2 => by
    simp only [bytesLt] at h1 h2 ⊢
    by_cases hab : a < b
    · by_cases hbc : b < c
      · have : a < c := UInt8.lt_trans hab hbc
        simp [this]
      · by_cases hcb : c < b
        · simp [hbc, hcb] at h2
        · have : b = c := by
            apply UInt8.le_antisymm <;> simp [UInt8.not_lt] at hbc hcb <;> assumption
          subst this; simp [hab]
    · by_cases hba : b < a
      · simp [hab, hba] at h1
      · have : a = b := by
          apply UInt8.le_antisymm <;> simp [UInt8.not_lt] at hab hba <;> assumption
        subst this
        simp only [hab, if_false] at h1
        by_cases hac : a < c
        · simp [hac]
        · simp only [hac, if_false] at h2 ⊢
          by_cases hca : c < a
          · simp [hca] at h2
          · simp only [hca, if_false] at h2 ⊢
            exact bytesLt_trans as bs cs h1 h2

theorem bytesLt_tri : ∀ a b, bytesLt a b = false → bytesLt b a = false → a = b
  | [], [], _, _ => rfl
  | [], _ :: _, h, _ => by simp [bytesLt] at h
  | _ :: _, [], _, h => by simp [bytesLt] at h
  | a :: as, b :: bs, h1, h2 => by
    simp only [bytesLt] at h1 h2
    by_cases hab : a < b
    · simp [hab] at h1
    · by_cases hba : b < a
      · simp [hba] at h2
      · have : a = b := by
          apply UInt8.le_antisymm <;> simp [UInt8.not_lt] at hab hba <;> assumption
        subst this
        simp only [hab, if_false] at h1 h2
        rw [bytesLt_tri as bs h1 h2]

theorem bytesLt_strict : StrictTotal bytesLt := ⟨bytesLt_irrefl, bytesLt_trans, bytesLt_tri⟩

/-! ### sorted sets -/

section SortedSet
variable {α : Type} {lt : α → α → Bool}

def Ascending (lt : α → α → Bool) (l : List α) : Prop := l.Pairwise (fun a b => lt a b = true)

theorem mem_insertSet (h : StrictTotal lt) (x z : α) : ∀ l, z ∈ insertSet lt x l ↔ z = x ∨ z ∈ l
  | [] => by simp [insertSet]
  | y :: ys => by
    simp only [insertSet]
    by_cases h1 : lt x y = true
    · simp [h1]
    · by_cases h2 : lt y x = true
      · simp [h1, h2, mem_insertSet h x z ys]
        constructor
        · rintro (a | a | a) <;> simp [a]
        · rintro (a | a | a) <;> simp [a]
      · have : x = y := h.tri x y (by simpa using h1) (by simpa using h2)
        subst this
        simp [h1]

theorem ascending_insertSet (h : StrictTotal lt) (x : α) : ∀ l, Ascending lt l → Ascending lt (insertSet lt x l)
  | [], _ => by simp [insertSet, Ascending]
  | y :: ys, hl => by
    simp only [insertSet]
    have hl' := List.pairwise_cons.mp hl
    by_cases h1 : lt x y = true
    · simp only [h1, if_true]
      refine List.pairwise_cons.mpr ⟨?_, hl⟩
      intro a ha
      rcases List.mem_cons.mp ha with rfl | ha
      · exact h1
      · exact h.trans _ _ _ h1 (hl'.1 a ha)
    · by_cases h2 : lt y x = true
      · simp only [h1, h2, if_true, if_false]
        refine List.pairwise_cons.mpr ⟨?_, ascending_insertSet h x ys hl'.2⟩
        intro a ha
        rcases (mem_insertSet h x a ys).mp ha with rfl | ha
        · exact h2
        · exact hl'.1 a ha
      · simp only [h1, h2, if_false]; exact hl

theorem foldl_insertSet_mem (h : StrictTotal lt) (z : α) : ∀ (l acc : List α),
    z ∈ l.foldl (fun acc x => insertSet lt x acc) acc ↔ z ∈ l ∨ z ∈ acc
  | [], acc => by simp
  | x :: xs, acc => by
    simp only [List.foldl_cons, foldl_insertSet_mem h z xs, mem_insertSet h, List.mem_cons]
    constructor
    · rintro (a | a | a) <;> simp [a]
    · rintro ((a | a) | a) <;> simp [a]

theorem foldl_insertSet_asc (h : StrictTotal lt) : ∀ (l acc : List α), Ascending lt acc →
    Ascending lt (l.foldl (fun acc x => insertSet lt x acc) acc)
  | [], _, ha => ha
  | x :: xs, acc, ha => foldl_insertSet_asc h xs _ (ascending_insertSet h x acc ha)

theorem mem_sortDedup (h : StrictTotal lt) (z : α) (l : List α) : z ∈ sortDedup lt l ↔ z ∈ l := by
  simp [sortDedup, foldl_insertSet_mem h]

theorem ascending_sortDedup (h : StrictTotal lt) (l : List α) : Ascending lt (sortDedup lt l) :=
  foldl_insertSet_asc h l [] List.Pairwise.nil

theorem Ascending.nodup (h : StrictTotal lt) {l : List α} (hl : Ascending lt l) : l.Nodup := by
  unfold Ascending at hl
  refine List.Pairwise.imp ?_ hl
  intro a b hab heq
  subst heq
  simp [h.irrefl] at hab

theorem nodup_sortDedup (h : StrictTotal lt) (l : List α) : (sortDedup lt l).Nodup :=
  (ascending_sortDedup h l).nodup h

end SortedSet

end RimeModel.C06
