import RimeModel.C06.TreeLemmas
/-! C06: what the walk shows of one code is its page, in page order (helper lemmas; free to change) -/
namespace RimeModel.C06

section Order
variable {W : Type}

/-- the entries of the enumeration that carry code `c`, in enumeration order -/
def filterCode (c : List Nat) (l : List (CRow W)) : List (CRow W) := l.filter (fun r => r.code == c)

/-- the vocabulary page all rows of code `c` are filed in -/
def pageOf (c : List Nat) (rs : List (CRow W)) : List (CRow W) :=
  if c.length ≤ indexDepth then pageAt c rs else pageBelow (c.take indexDepth) rs

theorem filterCode_nil {c : List Nat} {l : List (CRow W)} (h : ∀ r ∈ l, r.code ≠ c) : filterCode c l = [] := by
  unfold filterCode
  rw [List.filter_eq_nil_iff]
  intro r hr
  simpa using h r hr

theorem filterCode_append (c : List Nat) (a b : List (CRow W)) :
    filterCode c (a ++ b) = filterCode c a ++ filterCode c b := by
  simp [filterCode]

theorem mem_enumD (S : List (CRow W) → List (CRow W)) (hS : ∀ l, (S l).Perm l) (rs : List (CRow W))
    (d : Nat) (p : List Nat) {r : CRow W} (h : r ∈ enumD S d p rs) : p <+: r.code ∧ r ∈ rs := by
  have := (enumD_perm S hS rs d p).mem_iff.mp h
  simp only [pageUnder, List.mem_filter, List.isPrefixOf_iff_prefix] at this
  exact ⟨this.2, this.1⟩

theorem prefix_len_eq {p c : List Nat} (h : p <+: c) (hl : p.length = c.length) : p = c := by
  obtain ⟨t, rfl⟩ := h
  cases t with
  | nil => simp
  | cons a t => simp at hl

theorem prefix_ne_len {p c : List Nat} (h : p <+: c) (hne : c ≠ p) : p.length < c.length := by
  obtain ⟨t, rfl⟩ := h
  cases t with
  | nil => simp at hne
  | cons a t => simp

theorem enumD_filterCode (S : List (CRow W) → List (CRow W)) (hS : ∀ l, (S l).Perm l) (rs : List (CRow W))
    (c : List Nat) : ∀ (d : Nat) (p : List Nat), p.length + d = indexDepth → p <+: c →
    filterCode c (enumD S d p rs) = filterCode c (S (pageOf c rs))
  | 0, p, hlen, hpc => by
    have hp3 : p.length = indexDepth := by omega
    unfold enumD
    rw [filterCode_append]
    by_cases hc : c = p
    · subst hc
      have h2 : filterCode c (S (pageBelow c rs)) = [] := by
        apply filterCode_nil
        intro r hr
        have := (mem_S S hS).mp hr
        simp only [pageBelow, List.mem_filter, Bool.and_eq_true, decide_eq_true_eq] at this
        intro e; rw [e] at this; omega
      simp [h2, pageOf, hp3]
    · have hlt := prefix_ne_len hpc hc
      have h1 : filterCode c (S (pageAt p rs)) = [] := by
        apply filterCode_nil
        intro r hr
        have := (mem_S S hS).mp hr
        simp only [pageAt, List.mem_filter, beq_iff_eq] at this
        intro e; exact hc (e ▸ this.2)
      have hpt : c.take indexDepth = p := by
        rw [← hp3]; exact (List.prefix_iff_eq_take.mp hpc).symm
      have : ¬ c.length ≤ indexDepth := by omega
      simp [h1, pageOf, this, hpt]
  | d + 1, p, hlen, hpc => by
    unfold enumD
    rw [filterCode_append]
    by_cases hc : c = p
    · subst hc
      have h2 : filterCode c ((childKeys c rs).flatMap fun k => enumD S d (c ++ [k]) rs) = [] := by
        apply filterCode_nil
        intro r hr
        obtain ⟨k, _, hk⟩ := List.mem_flatMap.mp hr
        have := (mem_enumD S hS rs d (c ++ [k]) hk).1
        intro e
        rw [e] at this
        have := this.length_le
        simp at this
        omega
      have : c.length ≤ indexDepth := by omega
      simp [h2, pageOf, this]
    · have hlt := prefix_ne_len hpc hc
      have h1 : filterCode c (S (pageAt p rs)) = [] := by
        apply filterCode_nil
        intro r hr
        have := (mem_S S hS).mp hr
        simp only [pageAt, List.mem_filter, beq_iff_eq] at this
        intro e; exact hc (e ▸ this.2)
      rw [h1, List.nil_append]
      unfold filterCode
      rw [List.filter_flatMap]
      have hsingle := flatMap_single
        (fun k => List.filter (fun r : CRow W => r.code == c) (enumD S d (p ++ [k]) rs)) (c.getD p.length 0)
        (childKeys p rs) (nodup_sortDedup natLt_strict _)
        (by
          intro k _ hne
          apply filterCode_nil
          intro r hr e
          have := (mem_enumD S hS rs d (p ++ [k]) hr).1
          rw [e, prefix_snoc_iff] at this
          exact hne this.2.2.symm)
      rw [hsingle]
      by_cases hk : c.getD p.length 0 ∈ childKeys p rs
      · simp only [hk, if_true]
        exact enumD_filterCode S hS rs c d (p ++ [c.getD p.length 0]) (by simp; omega)
          ((prefix_snoc_iff p c _).mpr ⟨hpc, hlt, rfl⟩)
      · simp only [hk, if_false]
        symm
        apply filterCode_nil
        intro r hr e
        apply hk
        unfold childKeys
        rw [mem_sortDedup natLt_strict]
        have hr' := (mem_S S hS).mp hr
        have hrs : r ∈ rs := by
          unfold pageOf at hr'
          split at hr'
          · exact (List.mem_filter.mp hr').1
          · exact (List.mem_filter.mp hr').1
        refine List.mem_map.mpr ⟨r, ?_, by rw [e]⟩
        simp only [pageBelow, List.mem_filter, Bool.and_eq_true, decide_eq_true_eq, List.isPrefixOf_iff_prefix]
        exact ⟨hrs, by rw [e]; exact hpc, by rw [e]; exact hlt⟩

/-- what the whole enumeration shows of code `c` -/
theorem enumerate_filterCode (S : List (CRow W) → List (CRow W)) (hS : ∀ l, (S l).Perm l) (n : Nat)
    (rs : List (CRow W)) (c : List Nat) (hc : c ≠ []) (hn : c.getD 0 0 < n) :
    filterCode c (enumerate (build S n rs)) = filterCode c (S (pageOf c rs)) := by
  rw [rows_enumerate S hS]
  unfold filterCode
  rw [List.filter_flatMap]
  have hsingle := flatMap_single
    (fun s => List.filter (fun r : CRow W => r.code == c) (enumD S 2 [s] rs)) (c.getD 0 0)
    (List.range n) List.nodup_range
    (by
      intro k _ hne
      apply filterCode_nil
      intro r hr e
      have := (mem_enumD S hS rs 2 [k] hr).1
      rw [e] at this
      obtain ⟨t, rfl⟩ := this
      simp at hne)
  rw [hsingle]
  simp only [List.mem_range, hn, if_true]
  apply enumD_filterCode S hS rs c 2 [c.getD 0 0] (by simp [indexDepth])
  cases c with
  | nil => exact absurd rfl hc
  | cons a t => exact ⟨t, by simp⟩

theorem filterCode_pageOf (c : List Nat) (rs : List (CRow W)) :
    filterCode c (pageOf c rs) = filterCode c rs := by
  unfold filterCode pageOf
  split
  · unfold pageAt; rw [List.filter_filter]; simp
  · rename_i h
    unfold pageBelow; rw [List.filter_filter]
    apply List.filter_congr
    intro r _
    by_cases e : r.code = c
    · have : indexDepth < c.length := by omega
      simp [e, List.take_prefix, this, List.length_take]
      omega
    · simp [e]

end Order
end RimeModel.C06
