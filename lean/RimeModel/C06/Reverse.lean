import RimeModel.C06.Table
/-!
# C06 — the reverse-lookup table  (`ReverseDb::Build`, reverse_lookup_dictionary.cc:86-101)

For every syllable (in syllabary order, with its id) the *first-level* vocabulary page of that id is read:
its `entries` are the rows whose code is exactly that one syllable.  `rev_table[text].insert(syllable)`
collects, per text, a `std::set<string>`; the stored value is the set joined by single spaces.
(The `stems` map — filled only when the source has a `stem` column — is outside this model.)
-/
namespace RimeModel.C06

/-- `rev_table[text].insert(syl)` on an association list text ↦ ascending set -/
def revInsert (text syl : Bytes) : List (Bytes × List Bytes) → List (Bytes × List Bytes)
  | [] => [(text, [syl])]
  | (t, set) :: m =>
    if t == text then (t, insertSet bytesLt syl set) :: m else (t, set) :: revInsert text syl m

/-- the set stored for `text` (empty = no key) -/
def revSet (m : List (Bytes × List Bytes)) (text : Bytes) : List Bytes :=
  match m.find? (fun kv => kv.1 == text) with
  | some kv => kv.2
  | none => []

section
variable {W : Type}

/-- the (text, syllable) insertions in the order `Build` performs them -/
def revPairs (syl : List Bytes) (rs : List (CRow W)) : List (Bytes × Bytes) :=
  syl.zipIdx.flatMap fun si => (pageAt [si.2] rs).map fun r => (r.text, si.1)

def reverseTable (syl : List Bytes) (rs : List (CRow W)) : List (Bytes × List Bytes) :=
  (revPairs syl rs).foldl (fun m p => revInsert p.1 p.2 m) []

end

/-- `boost::algorithm::join(set, " ")` -/
def joinSp : List Bytes → Bytes
  | [] => []
  | [a] => a
  | a :: b :: rest => a ++ 32 :: joinSp (b :: rest)

end RimeModel.C06
