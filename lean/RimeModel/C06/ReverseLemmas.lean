import RimeModel.C06.Lemmas
import RimeModel.C06.Reverse
/-! C06: the reverse table holds, per text, exactly its one-syllable codes (helper lemmas; free to change) -/
namespace RimeModel.C06

theorem revSet_cons (t : Bytes) (set : List Bytes) (m : List (Bytes × List Bytes)) (text : Bytes) :
    revSet ((t, set) :: m) text = if t == text then set else revSet m text := by
  unfold revSet
  rw [List.find?_cons]
  by_cases h : (t == text) = true
  · simp [h]
  · have : (t == text) = false := by simpa using h
    simp [this]

theorem mem_revSet_revInsert (t y : Bytes) (text s : Bytes) : ∀ (m : List (Bytes × List Bytes)),
    s ∈ revSet (revInsert t y m) text ↔ ((t = text ∧ s = y) ∨ s ∈ revSet m text)
  | [] => by
    simp only [revInsert, revSet_cons]
    by_cases h : t = text
    · simp [h, revSet]
    · have : (t == text) = false := by simpa using h
      simp [this, h, revSet]
  | (t', set) :: m => by
    simp only [revInsert]
    by_cases h1 : t' = t
    · subst h1
      simp only [beq_self_eq_true, if_true, revSet_cons]
      by_cases h2 : t' = text
      · subst h2
        simp [mem_insertSet bytesLt_strict]
      · have : (t' == text) = false := by simpa using h2
        simp [this, h2]
    · have h1' : (t' == t) = false := by simpa using h1
      simp only [h1', Bool.false_eq_true, if_false, revSet_cons]
      by_cases h2 : t' = text
      · subst h2
        have : ¬ t = t' := fun e => h1 e.symm
        simp [this]
      · have : (t' == text) = false := by simpa using h2
        simp only [this, Bool.false_eq_true, if_false]
        exact mem_revSet_revInsert t y text s m

theorem mem_revSet_foldl (text s : Bytes) : ∀ (ps : List (Bytes × Bytes)) (m : List (Bytes × List Bytes)),
    s ∈ revSet (ps.foldl (fun m p => revInsert p.1 p.2 m) m) text ↔ ((text, s) ∈ ps ∨ s ∈ revSet m text)
  | [], m => by simp
  | p :: ps, m => by
    simp only [List.foldl_cons, mem_revSet_foldl text s ps, mem_revSet_revInsert, List.mem_cons]
    constructor
    · rintro (h | ⟨h1, h2⟩ | h)
      · exact Or.inl (Or.inr h)
      · exact Or.inl (Or.inl (by cases p; simp_all))
      · exact Or.inr h
    · rintro ((h | h) | h)
      · exact Or.inr (Or.inl (by cases p; simp_all))
      · exact Or.inl h
      · exact Or.inr (Or.inr h)

def SetsAscending (m : List (Bytes × List Bytes)) : Prop := ∀ kv ∈ m, Ascending bytesLt kv.2

theorem setsAscending_revInsert (t y : Bytes) : ∀ (m : List (Bytes × List Bytes)), SetsAscending m →
    SetsAscending (revInsert t y m)
  | [], _ => by
    intro kv hkv
    simp [revInsert] at hkv
    subst hkv
    simp [Ascending]
  | (t', set) :: m, h => by
    simp only [revInsert]
    split
    · intro kv hkv
      rcases List.mem_cons.mp hkv with rfl | hkv
      · exact ascending_insertSet bytesLt_strict y set (h (t', set) (by simp))
      · exact h kv (by simp [hkv])
    · intro kv hkv
      rcases List.mem_cons.mp hkv with rfl | hkv
      · exact h (t', set) (by simp)
      · exact setsAscending_revInsert t y m (fun kv hkv => h kv (by simp [hkv])) kv hkv

theorem setsAscending_foldl : ∀ (ps : List (Bytes × Bytes)) (m : List (Bytes × List Bytes)), SetsAscending m →
    SetsAscending (ps.foldl (fun m p => revInsert p.1 p.2 m) m)
  | [], _, h => h
  | p :: ps, m, h => setsAscending_foldl ps _ (setsAscending_revInsert p.1 p.2 m h)

theorem revSet_ascending (m : List (Bytes × List Bytes)) (h : SetsAscending m) (text : Bytes) :
    Ascending bytesLt (revSet m text) := by
  unfold revSet
  split
  · rename_i kv hf
    exact h kv (List.mem_of_find?_eq_some hf)
  · simp [Ascending]

theorem mem_revPairs {W : Type} (syl : List Bytes) (rs : List (CRow W)) (text s : Bytes) :
    (text, s) ∈ revPairs syl rs ↔ ∃ i, syl[i]? = some s ∧ ∃ r ∈ rs, r.code = [i] ∧ r.text = text := by
  unfold revPairs
  simp only [List.mem_flatMap, List.mem_map, pageAt, List.mem_filter, beq_iff_eq, Prod.mk.injEq]
  constructor
  · rintro ⟨⟨s', i⟩, hsi, r, ⟨hr, hc⟩, ht, hs⟩
    have := List.mem_zipIdx_iff_getElem?.mp hsi
    simp only at this hs hc
    subst hs
    exact ⟨i, this, r, hr, hc, ht⟩
  · rintro ⟨i, hi, r, hr, hc, ht⟩
    exact ⟨(s, i), List.mem_zipIdx_iff_getElem?.mpr hi, r, ⟨hr, hc⟩, ht, rfl⟩

end RimeModel.C06
