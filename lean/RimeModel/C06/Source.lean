import RimeModel.C06.Basic
/-!
# C06 — the dictionary source as `EntryCollector` reads it  (src/rime/dict/entry_collector.cc)

`EntryCollector::Collect(path)` (lines 57-132) and `CreateEntry` (161-221), `RawCode::FromString`
(algo/encoder.cc:22), `strings::split` (algo/strings.cc).  The YAML header is *not* parsed here: what
`DictSettings` makes of it (column map, `sort`) is an input (`Cols`), as is the list of files in the order
`DictSettings::GetTables` yields them (the dictionary itself, then `import_tables`).
Rows without a code go to the phrase encoder (`encode_queue`), which is outside this property: they are
counted in `needEncoder` and the driver refuses such sources.
-/
namespace RimeModel.C06

/-- `std::isspace` in the classic locale (what `boost::algorithm::trim_right` tests) -/
def isSpace (b : UInt8) : Bool := b == 32 || (9 ≤ b && b ≤ 13)

/-- `boost::algorithm::trim_right` -/
def trimRight (l : Bytes) : Bytes := (l.reverse.dropWhile isSpace).reverse

/-- `strings::split(str, delim)` with `KeepToken` for a one-byte delimiter: always at least one token -/
def splitBy (d : UInt8) : Bytes → List Bytes
  | [] => [[]]
  | c :: cs =>
    if c == d then [] :: splitBy d cs
    else match splitBy d cs with
      | [] => [[c]]
      | t :: ts => (c :: t) :: ts

/-- `RawCode::FromString` = `strings::split(code, " ", SkipToken)`: the maximal runs of non-space bytes -/
def tokens (l : Bytes) : List Bytes := (splitBy 32 l).filter (fun t => !t.isEmpty)

/-- successive `getline`s (a last line without newline counts; an empty rest is an empty line, skipped anyway) -/
def splitLines (body : Bytes) : List Bytes := splitBy 10 body

/-- column map of one file: `DictSettings::GetColumnIndex("text" | "code" | "weight")`, `none` = -1 -/
structure Cols where
  text : Option Nat
  code : Option Nat
  weight : Option Nat
deriving Repr

/-- the three strings `Collect` hands to `CreateEntry` / the encode queue -/
structure RawRow where
  text : Bytes
  codeStr : Bytes
  weightStr : Bytes
deriving Repr, BEq, DecidableEq

/-- `col = -1 || num_columns <= col || row[col].empty() ? "" : row[col]` -/
def column (row : List Bytes) (c : Option Nat) : Bytes :=
  match c with
  | none => []
  | some i => row.getD i []

def noCommentLine : Bytes := "# no comment".toUTF8.toList

/-- one iteration of the `while (getline(fin, line))` loop: new `enable_comment`, and the row if any -/
def parseLine (cols : Cols) (textCol : Nat) (enableComment : Bool) (line0 : Bytes) : Bool × Option RawRow :=
  let line := trimRight line0
  if line.isEmpty then (enableComment, none)
  else if enableComment && line.head? == some 35 then
    (if line == noCommentLine then false else enableComment, none)
  else
    let row := splitBy 9 line
    let text := row.getD textCol []
    if text.isEmpty then (enableComment, none)
    else (enableComment, some { text := text, codeStr := column row cols.code, weightStr := column row cols.weight })

def parseLines (cols : Cols) (textCol : Nat) : Bool → List Bytes → List RawRow
  | _, [] => []
  | ec, l :: ls =>
    let r := parseLine cols textCol ec l
    match r.2 with
    | none => parseLines cols textCol r.1 ls
    | some row => row :: parseLines cols textCol r.1 ls

/-- all rows of one file body (the bytes after the `...` line); a file without a text column gives nothing -/
def parseFile (cols : Cols) (body : Bytes) : List RawRow :=
  match cols.text with
  | none => []
  | some tc => parseLines cols tc true (splitLines body)

/-- a collected entry: `RawDictEntry` (text, raw_code, weight still as the source string) -/
structure SRow where
  text : Bytes
  code : List Bytes
  weightStr : Bytes
deriving Repr, BEq, DecidableEq

/-- the collector state that matters here -/
structure Collector where
  syllabary : List Bytes            -- std::set<string>, ascending
  words : List (Bytes × Bytes)      -- (text, code_str) of the one-syllable rows kept so far
  entries : List SRow               -- `entries`, in push order
  needEncoder : Nat                 -- rows without a code (encode_queue)
deriving Repr

def Collector.empty : Collector := { syllabary := [], words := [], entries := [], needEncoder := 0 }

def learn (syl : List Bytes) (code : List Bytes) : List Bytes :=
  code.foldl (fun s x => insertSet bytesLt x s) syl

/-- `EntryCollector::CreateEntry` with `build_syllabary = true` and no preset vocabulary -/
def createEntry (c : Collector) (r : RawRow) : Collector :=
  let code := tokens r.codeStr
  let syl := learn c.syllabary code
  if code.length == 1 then
    if c.words.contains (r.text, r.codeStr) then { c with syllabary := syl }
    else { c with syllabary := syl, words := (r.text, r.codeStr) :: c.words,
                  entries := c.entries ++ [{ text := r.text, code := code, weightStr := r.weightStr }] }
  else { c with syllabary := syl,
                entries := c.entries ++ [{ text := r.text, code := code, weightStr := r.weightStr }] }

def collectRow (c : Collector) (r : RawRow) : Collector :=
  if r.codeStr.isEmpty then { c with needEncoder := c.needEncoder + 1 } else createEntry c r

/-- `EntryCollector::Collect(dict_files)` on already parsed rows (all files, in order) -/
def collect (rows : List RawRow) : Collector := rows.foldl collectRow Collector.empty

def toSRow (r : RawRow) : SRow := { text := r.text, code := tokens r.codeStr, weightStr := r.weightStr }

/-- The collector's treatment of the rows as a specification: rows without a code are set aside (encoder);
a row whose code is ONE syllable is kept only the first time its (text, code column) pair occurs — the
comparison is on the raw code column, as `CreateEntry` does it; every other row is kept. `seen` = pairs so far. -/
def treatRaw : List (Bytes × Bytes) → List RawRow → List RawRow
  | _, [] => []
  | seen, r :: rs =>
    if r.codeStr.isEmpty then treatRaw seen rs
    else if (tokens r.codeStr).length == 1 then
      if seen.contains (r.text, r.codeStr) then treatRaw seen rs
      else r :: treatRaw ((r.text, r.codeStr) :: seen) rs
    else r :: treatRaw seen rs

/-- the rows a pack's collector looks at: `EntryCollector(std::move(syllabary))` has `build_syllabary = false`, and `CreateEntry`
returns at the first syllable outside the fixed syllabary (entry_collector.cc:194-203) — before the word list, the entries or the
entry count are touched.  Rows without a code never get there (they wait for the encoder). -/
def packRows (syl : List Bytes) (rows : List RawRow) : List RawRow :=
  rows.filter (fun r => r.codeStr.isEmpty || (tokens r.codeStr).all (fun s => syl.contains s))

/-- `EntryCollector::Collect` of a pack (dict_compiler.cc:199-207): the collector starts from the primary table's syllabary -/
def collectPack (syl : List Bytes) (rows : List RawRow) : Collector :=
  (packRows syl rows).foldl collectRow { Collector.empty with syllabary := syl }

/-- `syllable_to_id` of `DictCompiler::BuildTable`: the rank in the ascending syllabary -/
def syllableId (syl : List Bytes) (s : Bytes) : Nat := syl.idxOf s

/-- `Table::GetSyllableById` -/
def syllableById (syl : List Bytes) (i : Nat) : Option Bytes := syl[i]?

end RimeModel.C06
