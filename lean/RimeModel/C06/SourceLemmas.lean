import RimeModel.C06.Lemmas
import RimeModel.C06.Compile
/-! C06: collector invariants, id ↔ syllable round trip (helper lemmas; free to change) -/
namespace RimeModel.C06

theorem mem_learn (z : Bytes) (syl code : List Bytes) : z ∈ learn syl code ↔ (z ∈ code ∨ z ∈ syl) :=
  foldl_insertSet_mem bytesLt_strict z code syl

theorem ascending_learn (syl code : List Bytes) (h : Ascending bytesLt syl) : Ascending bytesLt (learn syl code) :=
  foldl_insertSet_asc bytesLt_strict code syl h

/-- what the collector maintains -/
def CollInv (c : Collector) : Prop :=
  Ascending bytesLt c.syllabary ∧ ∀ e ∈ c.entries, ∀ s ∈ e.code, s ∈ c.syllabary

theorem collInv_empty : CollInv Collector.empty := by
  simp [CollInv, Collector.empty, Ascending]

theorem collInv_createEntry (c : Collector) (r : RawRow) (h : CollInv c) : CollInv (createEntry c r) := by
  obtain ⟨ha, hm⟩ := h
  have hold : ∀ e ∈ c.entries, ∀ s ∈ e.code, s ∈ learn c.syllabary (tokens r.codeStr) :=
    fun e he s hs => (mem_learn s _ _).mpr (Or.inr (hm e he s hs))
  have hnew : ∀ s ∈ tokens r.codeStr, s ∈ learn c.syllabary (tokens r.codeStr) :=
    fun s hs => (mem_learn s _ _).mpr (Or.inl hs)
  unfold createEntry
  simp only
  split
  · split
    · exact ⟨ascending_learn _ _ ha, hold⟩
    · refine ⟨ascending_learn _ _ ha, ?_⟩
      intro e he
      rcases List.mem_append.mp he with he | he
      · exact hold e he
      · simp at he; subst he; exact hnew
  · refine ⟨ascending_learn _ _ ha, ?_⟩
    intro e he
    rcases List.mem_append.mp he with he | he
    · exact hold e he
    · simp at he; subst he; exact hnew

theorem collInv_collectRow (c : Collector) (r : RawRow) (h : CollInv c) : CollInv (collectRow c r) := by
  unfold collectRow
  split
  · exact h
  · exact collInv_createEntry c r h

theorem collInv_foldl : ∀ (rows : List RawRow) (c : Collector), CollInv c → CollInv (rows.foldl collectRow c)
  | [], _, h => h
  | r :: rs, c, h => collInv_foldl rs _ (collInv_collectRow c r h)

theorem collInv_collect (rows : List RawRow) : CollInv (collect rows) :=
  collInv_foldl rows _ collInv_empty

/-! ### packs: a fixed syllabary learns nothing -/

theorem insertSet_of_mem {α : Type} {lt : α → α → Bool} (h : StrictTotal lt) (x : α) :
    ∀ l, Ascending lt l → x ∈ l → insertSet lt x l = l
  | [], _, hx => by simp at hx
  | y :: ys, ha, hx => by
    have hp := List.pairwise_cons.mp ha
    simp only [insertSet]
    rcases List.mem_cons.mp hx with rfl | hin
    · simp [h.irrefl]
    · have hyx : lt y x = true := hp.1 x hin
      have hxy : lt x y = false := by
        cases hc : lt x y with
        | false => rfl
        | true => have := h.trans x y x hc hyx; rw [h.irrefl] at this; cases this
      simp only [hxy, Bool.false_eq_true, if_false, hyx, if_true]
      rw [insertSet_of_mem h x ys hp.2 hin]

theorem learn_of_subset (syl : List Bytes) (h : Ascending bytesLt syl) :
    ∀ (code : List Bytes), (∀ s ∈ code, s ∈ syl) → learn syl code = syl
  | [], _ => rfl
  | x :: xs, hc => by
    have hx : insertSet bytesLt x syl = syl := insertSet_of_mem bytesLt_strict x syl h (hc x (by simp))
    have := learn_of_subset syl h xs (fun s hs => hc s (by simp [hs]))
    simpa [learn, List.foldl_cons, hx] using this

theorem createEntry_syllabary (c : Collector) (r : RawRow) :
    (createEntry c r).syllabary = learn c.syllabary (tokens r.codeStr) := by
  unfold createEntry
  simp only
  split
  · split <;> rfl
  · rfl

theorem foldl_collectRow_fixed (syl : List Bytes) (h : Ascending bytesLt syl) :
    ∀ (rows : List RawRow) (c : Collector), c.syllabary = syl →
      (∀ r ∈ rows, r.codeStr.isEmpty = true ∨ ∀ s ∈ tokens r.codeStr, s ∈ syl) →
      (rows.foldl collectRow c).syllabary = syl
  | [], _, hc, _ => hc
  | r :: rs, c, hc, hr => by
    simp only [List.foldl_cons]
    apply foldl_collectRow_fixed syl h rs
    · unfold collectRow
      split
      · exact hc
      · next hne =>
        rw [createEntry_syllabary, hc]
        rcases hr r (by simp) with h0 | h1
        · exact absurd h0 hne
        · exact learn_of_subset syl h _ h1
    · intro r' hr'
      exact hr r' (by simp [hr'])

theorem packRows_ok (syl : List Bytes) (rows : List RawRow) :
    ∀ r ∈ packRows syl rows, r.codeStr.isEmpty = true ∨ ∀ s ∈ tokens r.codeStr, s ∈ syl := by
  intro r hr
  have := (List.mem_filter.mp hr).2
  simp only [Bool.or_eq_true, List.all_eq_true] at this
  rcases this with h0 | h1
  · exact Or.inl h0
  · exact Or.inr (fun s hs => by simpa using h1 s hs)

theorem collInv_collectPack (syl : List Bytes) (h : Ascending bytesLt syl) (rows : List RawRow) :
    CollInv (collectPack syl rows) :=
  collInv_foldl _ _ ⟨h, by simp [Collector.empty]⟩

theorem syllableId_lt {syl : List Bytes} {s : Bytes} (h : s ∈ syl) : syllableId syl s < syl.length :=
  List.idxOf_lt_length_iff.mpr h

theorem syllable_roundtrip {syl : List Bytes} {s : Bytes} (h : s ∈ syl) :
    syl.getD (syllableId syl s) [] = s := by
  have hl := syllableId_lt h
  unfold syllableId at *
  simp [List.getD, List.getElem?_eq_getElem hl, List.getElem_idxOf hl]

theorem syllableId_inj {syl : List Bytes} {s t : Bytes} (hs : s ∈ syl) (ht : t ∈ syl)
    (h : syllableId syl s = syllableId syl t) : s = t := by
  rw [← syllable_roundtrip hs, ← syllable_roundtrip ht, h]

end RimeModel.C06

namespace RimeModel.C06

theorem treatRaw_cons (seen : List (Bytes × Bytes)) (r : RawRow) (rs : List RawRow) :
    treatRaw seen (r :: rs) =
      if r.codeStr.isEmpty then treatRaw seen rs
      else if (tokens r.codeStr).length == 1 then
        if seen.contains (r.text, r.codeStr) then treatRaw seen rs
        else r :: treatRaw ((r.text, r.codeStr) :: seen) rs
      else r :: treatRaw seen rs := by
  rw [treatRaw]

theorem foldl_collectRow_entries : ∀ (rows : List RawRow) (c : Collector),
    (rows.foldl collectRow c).entries = c.entries ++ (treatRaw c.words rows).map toSRow
  | [], c => by simp [treatRaw]
  | r :: rs, c => by
    simp only [List.foldl_cons]
    rw [foldl_collectRow_entries rs, treatRaw_cons]
    unfold collectRow
    by_cases h0 : r.codeStr.isEmpty = true
    · simp only [h0, if_true]
    · simp only [h0, Bool.false_eq_true, if_false]
      unfold createEntry
      simp only
      by_cases h1 : ((tokens r.codeStr).length == 1) = true
      · simp only [h1, if_true]
        by_cases h2 : c.words.contains (r.text, r.codeStr) = true
        · simp only [h2, if_true]
        · simp only [h2, Bool.false_eq_true, if_false, List.map_cons, toSRow, List.append_assoc, List.singleton_append]
      · simp only [h1, Bool.false_eq_true, if_false, List.map_cons, toSRow, List.append_assoc, List.singleton_append]

theorem collect_entries (rows : List RawRow) : (collect rows).entries = (treatRaw [] rows).map toSRow := by
  simp [collect, foldl_collectRow_entries, Collector.empty]

theorem treatRaw_sublist : ∀ (seen : List (Bytes × Bytes)) (rows : List RawRow), (treatRaw seen rows).Sublist rows
  | _, [] => by simp [treatRaw]
  | seen, r :: rs => by
    rw [treatRaw_cons]
    split
    · exact (treatRaw_sublist seen rs).cons _
    · split
      · split
        · exact (treatRaw_sublist seen rs).cons _
        · exact (treatRaw_sublist _ rs).cons₂ _
      · exact (treatRaw_sublist seen rs).cons₂ _

/-- rows whose code is not a single syllable are all kept, in order -/
theorem treatRaw_keeps_phrases : ∀ (seen : List (Bytes × Bytes)) (rows : List RawRow),
    (treatRaw seen rows).filter (fun r => (tokens r.codeStr).length != 1)
      = rows.filter (fun r => !r.codeStr.isEmpty && (tokens r.codeStr).length != 1)
  | _, [] => by simp [treatRaw]
  | seen, r :: rs => by
    rw [treatRaw_cons, List.filter_cons (x := r) (xs := rs)]
    by_cases h0 : r.codeStr.isEmpty = true
    · simp only [h0, if_true, Bool.not_true, Bool.false_and, Bool.false_eq_true, if_false]
      exact treatRaw_keeps_phrases seen rs
    · simp only [h0, Bool.false_eq_true, if_false, Bool.not_false, Bool.true_and]
      by_cases h1 : ((tokens r.codeStr).length == 1) = true
      · have h1' : ((tokens r.codeStr).length != 1) = false := by simp [bne, h1]
        simp only [h1, if_true, h1', Bool.false_eq_true, if_false]
        by_cases h2 : seen.contains (r.text, r.codeStr) = true
        · simp only [h2, if_true]
          exact treatRaw_keeps_phrases seen rs
        · simp only [h2, Bool.false_eq_true, if_false]
          rw [List.filter_cons]
          simp only [h1', Bool.false_eq_true, if_false]
          exact treatRaw_keeps_phrases _ rs
      · have h1' : ((tokens r.codeStr).length != 1) = true := by simp [bne, h1]
        simp only [h1, Bool.false_eq_true, if_false, h1', if_true]
        rw [List.filter_cons]
        simp only [h1', if_true]
        rw [treatRaw_keeps_phrases seen rs]

/-- a one-syllable (text, code column) pair is kept exactly once — the first time — unless seen before -/
theorem treatRaw_word_once (t cs : Bytes) (hcs : cs.isEmpty = false) (h1 : ((tokens cs).length == 1) = true) :
    ∀ (seen : List (Bytes × Bytes)) (rows : List RawRow),
    ((treatRaw seen rows).filter (fun r => r.text == t && r.codeStr == cs)).length
      = if seen.contains (t, cs) = true then 0
        else if rows.any (fun r => r.text == t && r.codeStr == cs) = true then 1 else 0
  | seen, [] => by simp [treatRaw]
  | seen, r :: rs => by
    rw [treatRaw_cons]
    by_cases hr : r.text = t ∧ r.codeStr = cs
    · obtain ⟨rfl, rfl⟩ := hr
      simp only [hcs, Bool.false_eq_true, if_false, h1, if_true]
      by_cases h2 : seen.contains (r.text, r.codeStr) = true
      · simp only [h2, if_true]
        rw [treatRaw_word_once r.text r.codeStr hcs h1 seen rs]
        simp only [h2, if_true]
      · simp only [h2, Bool.false_eq_true, if_false]
        rw [List.filter_cons]
        simp only [beq_self_eq_true, Bool.and_self, if_true, List.length_cons]
        rw [treatRaw_word_once r.text r.codeStr hcs h1 _ rs]
        have : ((r.text, r.codeStr) :: seen).contains (r.text, r.codeStr) = true := by
          simp [List.contains_cons]
        simp only [this, if_true, List.any_cons, beq_self_eq_true, Bool.and_self, Bool.true_or]
    · have hr' : (r.text == t && r.codeStr == cs) = false := by
        rw [Bool.and_eq_false_iff]
        by_cases ht : r.text = t
        · right; simpa using fun e => hr ⟨ht, e⟩
        · left; simpa using ht
      have hany : (r :: rs).any (fun r => r.text == t && r.codeStr == cs) = rs.any (fun r => r.text == t && r.codeStr == cs) := by
        simp only [List.any_cons, hr', Bool.false_or]
      rw [hany]
      by_cases h0 : r.codeStr.isEmpty = true
      · simp only [h0, if_true]
        exact treatRaw_word_once t cs hcs h1 seen rs
      · simp only [h0, Bool.false_eq_true, if_false]
        by_cases h3 : ((tokens r.codeStr).length == 1) = true
        · simp only [h3, if_true]
          by_cases h2 : seen.contains (r.text, r.codeStr) = true
          · simp only [h2, if_true]
            exact treatRaw_word_once t cs hcs h1 seen rs
          · simp only [h2, Bool.false_eq_true, if_false]
            rw [List.filter_cons]
            simp only [hr', Bool.false_eq_true, if_false]
            rw [treatRaw_word_once t cs hcs h1 _ rs]
            have : ((r.text, r.codeStr) :: seen).contains (t, cs) = seen.contains (t, cs) := by
              rw [List.contains_cons]
              have : ((t, cs) == (r.text, r.codeStr)) = false := by
                simp only [beq_eq_false_iff_ne, ne_eq, Prod.mk.injEq]
                exact fun e => hr ⟨e.1.symm, e.2.symm⟩
              simp only [this, Bool.false_or]
            rw [this]
        · simp only [h3, Bool.false_eq_true, if_false]
          rw [List.filter_cons]
          simp only [hr', Bool.false_eq_true, if_false]
          exact treatRaw_word_once t cs hcs h1 seen rs

end RimeModel.C06
