import RimeModel.C06.Basic
/-!
# C06 — vocabulary, the four-level index, its enumeration and `find_node`

* `Vocabulary::LocateEntries` (vocabulary.cc:126-145), `SortHomophones` (147-154)
* `Table::BuildHeadIndex / BuildTrunkIndex / BuildTailIndex / BuildEntryList` (table.cc:382-505)
* walking the index as `tools/rime_table_decompiler.cc` does (head node, trunk nodes, tail entries;
  `TableAccessor::code()` = index code ++ extra code)
* `find_node` (table.cc:129-136): `std::lower_bound` on the key-sorted trunk array

The vocabulary is kept as the list of rows in insertion order together with the page each row is filed
under (`locate`): the nested `map<int, VocabularyPage>` of the C++ code is the trie of these page paths,
its iteration order is ascending key order at every level, the tail page has key -1.
The index is the fixed-depth structure `Tree`; offsets / bytes are M-arena's business (Arena.lean).
-/
namespace RimeModel.C06

/-- a `ShortDictEntry` with its code as syllable ids -/
structure CRow (W : Type) where
  code : List Nat
  text : Bytes
  weight : W
deriving Repr, BEq, DecidableEq

/-- `Code::kIndexCodeMaxLength` -/
def indexDepth : Nat := 3

/-- `Vocabulary::LocateEntries`, the loop as written.  Result: the map keys walked from the root down to the
page whose `entries` is returned; `none` = `NULL` (empty code).  `fuel` counts the remaining iterations. -/
def locateLoop (code : List Nat) : Nat → Nat → List Int → Option (List Int)
  | _, 0, _ => none
  | i, fuel + 1, path =>
    let key : Int := if i < indexDepth then Int.ofNat (code.getD i 0) else -1
    if i == code.length - 1 || i == indexDepth then some (path ++ [key])
    else locateLoop code (i + 1) fuel (path ++ [key])

def locate (code : List Nat) : Option (List Int) := locateLoop code 0 code.length []

/-- the page of a code in closed form: the first three syllables, then key -1 for anything longer -/
def pagePath (code : List Nat) : List Int :=
  (code.take indexDepth).map Int.ofNat ++ (if indexDepth < code.length then [-1] else [])

/-! ## pages of the vocabulary (rows in insertion order) -/

section Pages
variable {W : Type}

/-- `entries` of the page reached by the keys `p` (|p| ≤ 3): rows whose code is exactly `p` -/
def pageAt (p : List Nat) (rs : List (CRow W)) : List (CRow W) := rs.filter (fun r => r.code == p)

/-- rows filed strictly below the page `p`; for |p| = 3 this is the tail page `p ++ [-1]` -/
def pageBelow (p : List Nat) (rs : List (CRow W)) : List (CRow W) :=
  rs.filter (fun r => p.isPrefixOf r.code && decide (p.length < r.code.length))

/-- rows whose code starts with `p` -/
def pageUnder (p : List Nat) (rs : List (CRow W)) : List (CRow W) := rs.filter (fun r => p.isPrefixOf r.code)

/-- keys of `next_level` of page `p`, in `std::map` order -/
def childKeys (p : List Nat) (rs : List (CRow W)) : List Nat :=
  sortDedup natLt ((pageBelow p rs).map (fun r => r.code.getD p.length 0))

end Pages

/-! ## the index -/

structure Entry (W : Type) where
  text : Bytes
  weight : W
deriving Repr

/-- `table::LongEntry` -/
structure LongEntry (W : Type) where
  extra : List Nat
  entry : Entry W
deriving Repr

/-- third-level `TrunkIndexNode`; `next_level` is a `TailIndex` -/
structure Node3 (W : Type) where
  key : Nat
  entries : List (Entry W)
  tail : Option (List (LongEntry W))
deriving Repr

/-- second-level `TrunkIndexNode` -/
structure Node2 (W : Type) where
  key : Nat
  entries : List (Entry W)
  next : Option (List (Node3 W))
deriving Repr

/-- `HeadIndexNode` (position in the array = syllable id) -/
structure Node1 (W : Type) where
  entries : List (Entry W)
  next : Option (List (Node2 W))
deriving Repr

structure Tree (W : Type) where
  head : List (Node1 W)
deriving Repr

section Build
variable {W : Type}

def toEntry (r : CRow W) : Entry W := { text := r.text, weight := r.weight }

/-- `BuildTailIndex`: `extra_code` = `code[kIndexCodeMaxLength ..]` -/
def toLong (r : CRow W) : LongEntry W := { extra := r.code.drop indexDepth, entry := toEntry r }

/-- `BuildTrunkIndex` at `code.size() = 3` (next level is the tail page).  `S` is what `SortHomophones` did
to a page (identity for `sort: original`). -/
def build3 (S : List (CRow W) → List (CRow W)) (p : List Nat) (rs : List (CRow W)) : List (Node3 W) :=
  (childKeys p rs).map fun k =>
    { key := k
      entries := (S (pageAt (p ++ [k]) rs)).map toEntry
      tail := if (pageBelow (p ++ [k]) rs).isEmpty then none
              else some ((S (pageBelow (p ++ [k]) rs)).map toLong) }

def build2 (S : List (CRow W) → List (CRow W)) (p : List Nat) (rs : List (CRow W)) : List (Node2 W) :=
  (childKeys p rs).map fun k =>
    { key := k
      entries := (S (pageAt (p ++ [k]) rs)).map toEntry
      next := if (pageBelow (p ++ [k]) rs).isEmpty then none else some (build3 S (p ++ [k]) rs) }

/-- `BuildHeadIndex`: one node per syllable id, filled for the ids that occur as a first syllable -/
def build (S : List (CRow W) → List (CRow W)) (numSyll : Nat) (rs : List (CRow W)) : Tree W :=
  { head := (List.range numSyll).map fun s =>
      { entries := (S (pageAt [s] rs)).map toEntry
        next := if (pageBelow [s] rs).isEmpty then none else some (build2 S [s] rs) } }

/-! ## enumeration (raw walk; the decompiler visits the same lists in the same order) -/

/-- one enumerated entry: the index code of the list it sits in, its extra code, text, weight -/
structure Item (W : Type) where
  index : List Nat
  extra : List Nat
  text : Bytes
  weight : W
deriving Repr

/-- `TableAccessor::code()` -/
def Item.code (i : Item W) : List Nat := i.index ++ i.extra

def Item.row (i : Item W) : CRow W := { code := i.code, text := i.text, weight := i.weight }

def itemsOf (p : List Nat) (es : List (Entry W)) : List (Item W) :=
  es.map fun e => { index := p, extra := [], text := e.text, weight := e.weight }

def longItemsOf (p : List Nat) (es : List (LongEntry W)) : List (Item W) :=
  es.map fun e => { index := p, extra := e.extra, text := e.entry.text, weight := e.entry.weight }

def enum3 (p : List Nat) (ns : List (Node3 W)) : List (Item W) :=
  ns.flatMap fun n => itemsOf (p ++ [n.key]) n.entries ++
    (match n.tail with | none => [] | some t => longItemsOf (p ++ [n.key]) t)

def enum2 (p : List Nat) (ns : List (Node2 W)) : List (Item W) :=
  ns.flatMap fun n => itemsOf (p ++ [n.key]) n.entries ++
    (match n.next with | none => [] | some t => enum3 (p ++ [n.key]) t)

def enumNode1 (s : Nat) (n : Node1 W) : List (Item W) :=
  itemsOf [s] n.entries ++ (match n.next with | none => [] | some t => enum2 [s] t)

def enumHead : Nat → List (Node1 W) → List (Item W)
  | _, [] => []
  | s, n :: ns => enumNode1 s n ++ enumHead (s + 1) ns

/-- full enumeration of the table -/
def enumerateRaw (t : Tree W) : List (Item W) := enumHead 0 t.head

def enumerate (t : Tree W) : List (CRow W) := (enumerateRaw t).map Item.row

end Build

/-! ## `find_node`: binary search on a key-sorted trunk array -/

/-- `std::lower_bound(first, last, key)` on the keys `ks`: first index in `[lo, lo+len)` whose key is not
less than `key`.  Structural on `fuel` (≥ len suffices; the halving loop runs ⌈log₂⌉ times). -/
def lowerBound (ks : List Nat) (key : Nat) : Nat → Nat → Nat → Nat
  | 0, lo, _ => lo
  | fuel + 1, lo, len =>
    if len == 0 then lo
    else
      let half := len / 2
      let mid := lo + half
      if ks.getD mid 0 < key then lowerBound ks key fuel (mid + 1) (len - half - 1)
      else lowerBound ks key fuel lo half

/-- `find_node(first, last, key)`: index of the node with that key, `none` = `last` -/
def findNode (ks : List Nat) (key : Nat) : Option Nat :=
  let i := lowerBound ks key ks.length 0 ks.length
  if i == ks.length || key < ks.getD i 0 then none else some i

end RimeModel.C06
