import RimeModel.C06.EnumLemmas
/-! C06: the enumeration of the built `Tree` is `enumD` (helper lemmas; free to change) -/
namespace RimeModel.C06

section TreeEnum
variable {W : Type}

theorem childKeys_nil_of_below_nil (p : List Nat) (rs : List (CRow W)) (h : pageBelow p rs = []) :
    childKeys p rs = [] := by
  simp [childKeys, h, sortDedup]

theorem S_nil (S : List (CRow W) → List (CRow W)) (hS : ∀ l, (S l).Perm l) : S [] = [] :=
  List.Perm.eq_nil (hS [])

theorem mem_S (S : List (CRow W) → List (CRow W)) (hS : ∀ l, (S l).Perm l) {r : CRow W} {l : List (CRow W)} :
    r ∈ S l ↔ r ∈ l := (hS l).mem_iff

theorem rows_itemsOf (S : List (CRow W) → List (CRow W)) (hS : ∀ l, (S l).Perm l) (p : List Nat)
    (rs : List (CRow W)) :
    (itemsOf p ((S (pageAt p rs)).map toEntry)).map Item.row = S (pageAt p rs) := by
  simp only [itemsOf, List.map_map]
  conv => rhs; rw [← List.map_id (S (pageAt p rs))]
  apply List.map_congr_left
  intro r hr
  have hr' := (mem_S S hS).mp hr
  simp only [pageAt, List.mem_filter, beq_iff_eq] at hr'
  cases r with
  | mk code text weight =>
    simp at hr'
    simp [Item.row, Item.code, toEntry, hr'.2]

theorem rows_longItemsOf (S : List (CRow W) → List (CRow W)) (hS : ∀ l, (S l).Perm l) (p : List Nat)
    (hp : p.length = indexDepth) (rs : List (CRow W)) :
    (longItemsOf p ((S (pageBelow p rs)).map toLong)).map Item.row = S (pageBelow p rs) := by
  simp only [longItemsOf, List.map_map]
  conv => rhs; rw [← List.map_id (S (pageBelow p rs))]
  apply List.map_congr_left
  intro r hr
  have hr' := (mem_S S hS).mp hr
  simp only [pageBelow, List.mem_filter, Bool.and_eq_true, List.isPrefixOf_iff_prefix] at hr'
  cases r with
  | mk code text weight =>
    obtain ⟨_, ⟨t, ht⟩, _⟩ := hr'
    simp only at ht
    subst ht
    simp [Item.row, Item.code, toLong, toEntry, ← hp]

theorem rows_enum3 (S : List (CRow W) → List (CRow W)) (hS : ∀ l, (S l).Perm l) (p : List Nat)
    (hp : p.length + 1 = indexDepth) (rs : List (CRow W)) :
    (enum3 p (build3 S p rs)).map Item.row = (childKeys p rs).flatMap (fun k => enumD S 0 (p ++ [k]) rs) := by
  simp only [enum3, build3, List.flatMap_map, List.map_flatMap]
  apply flatMap_congr'
  intro k _
  simp only [enumD, List.map_append, rows_itemsOf S hS]
  congr 1
  by_cases he : (pageBelow (p ++ [k]) rs).isEmpty = true
  · have : pageBelow (p ++ [k]) rs = [] := by simpa using he
    simp [this, S_nil S hS]
  · simp only [he]
    exact rows_longItemsOf S hS (p ++ [k]) (by simp [hp]) rs

theorem rows_enum2 (S : List (CRow W) → List (CRow W)) (hS : ∀ l, (S l).Perm l) (p : List Nat)
    (hp : p.length + 2 = indexDepth) (rs : List (CRow W)) :
    (enum2 p (build2 S p rs)).map Item.row = (childKeys p rs).flatMap (fun k => enumD S 1 (p ++ [k]) rs) := by
  simp only [enum2, build2, List.flatMap_map, List.map_flatMap]
  apply flatMap_congr'
  intro k _
  simp only [enumD, List.map_append, rows_itemsOf S hS]
  congr 1
  by_cases he : (pageBelow (p ++ [k]) rs).isEmpty = true
  · have : pageBelow (p ++ [k]) rs = [] := by simpa using he
    simp [he, childKeys_nil_of_below_nil _ _ this]
  · simp only [he]
    exact rows_enum3 S hS (p ++ [k]) (by simp; omega) rs

theorem enumHead_range' (f : Nat → Node1 W) : ∀ (n a : Nat),
    enumHead a ((List.range' a n).map f) = (List.range' a n).flatMap (fun s => enumNode1 s (f s))
  | 0, a => by simp [enumHead]
  | n + 1, a => by
    simp only [List.range'_succ, List.map_cons, enumHead, List.flatMap_cons]
    rw [enumHead_range' f n (a + 1)]

theorem rows_enumerate (S : List (CRow W) → List (CRow W)) (hS : ∀ l, (S l).Perm l) (n : Nat)
    (rs : List (CRow W)) :
    enumerate (build S n rs) = (List.range n).flatMap (fun s => enumD S 2 [s] rs) := by
  simp only [enumerate, enumerateRaw, build, List.range_eq_range', enumHead_range', List.map_flatMap]
  apply flatMap_congr'
  intro s _
  simp only [enumNode1, enumD, List.map_append, rows_itemsOf S hS]
  congr 1
  by_cases he : (pageBelow [s] rs).isEmpty = true
  · have : pageBelow [s] rs = [] := by simpa using he
    simp [he, childKeys_nil_of_below_nil _ _ this]
  · simp only [he]
    exact rows_enum2 S hS [s] (by simp [indexDepth]) rs

end TreeEnum
end RimeModel.C06
