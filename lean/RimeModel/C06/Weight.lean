import RimeModel.C06.Source
/-!
# C06 — weights: the value `CreateEntry` gets from the weight column, kept exact

`std::stod` (decimal subset of `strtod` in the "C" locale, prefix semantics, `invalid_argument` /
`out_of_range` caught → 0.0), the `%` form (without a preset vocabulary: 0.0 × anything), and
`DictCompiler::BuildTable`'s `log(w > 0 ? w : DBL_EPSILON)`.  The model keeps the *argument* of the
logarithm as an exact decimal (`Wt`); `double` rounding, `log` and the cast to `float` are the monotone cast
the theorems are parametric in (the check applies that cast to the model's `Wt` with the same libm).
Outside the model (the driver prints `unsupported`): hexadecimal floats, `nan(...)`.
-/
namespace RimeModel.C06

/-- the positive value whose logarithm is stored -/
inductive Wt where
  | eps                       -- DBL_EPSILON = 2^-52 (weight ≤ 0, NaN, unparsable, out of range, `%` form)
  | pos (m : Nat) (e : Int)   -- m · 10^e, m > 0, inside the normal double range
  | inf
deriving Repr, BEq, DecidableEq

/-- (numerator, denominator) of a finite `Wt` -/
def Wt.frac : Wt → Nat × Nat
  | .eps => (1, 2 ^ 52)
  | .pos m e => if 0 ≤ e then (m * 10 ^ e.toNat, 1) else (m, 10 ^ (-e).toNat)
  | .inf => (1, 0)

/-- `a ≤ b` as exact values (`inf` on top) -/
def Wt.le (a b : Wt) : Bool :=
  match a, b with
  | _, .inf => true
  | .inf, _ => false
  | a, b => a.frac.1 * b.frac.2 ≤ b.frac.1 * a.frac.2

def isDigit (b : UInt8) : Bool := 48 ≤ b && b ≤ 57
def isHexDigit (b : UInt8) : Bool := isDigit b || (97 ≤ b && b ≤ 102) || (65 ≤ b && b ≤ 70)
def lower (b : UInt8) : UInt8 := if 65 ≤ b && b ≤ 90 then b + 32 else b
def digitsVal (ds : Bytes) : Nat := ds.foldl (fun acc d => acc * 10 + (d.toNat - 48)) 0

def startsWithCI (s : Bytes) (lit : String) : Bool :=
  let l := lit.toUTF8.toList
  (s.take l.length).map lower == l

inductive Stod where
  | invalid                       -- no conversion: std::invalid_argument
  | num (neg : Bool) (m : Nat) (e : Int)
  | inf (neg : Bool)
  | nan
  | unsupported                   -- outside the model
deriving Repr, BEq

/-- optional exponent part: consumed only if at least one digit follows -/
def parseExp (s : Bytes) : Int :=
  match s with
  | c :: rest =>
    if c == 101 || c == 69 then
      let (neg, rest) := match rest with
        | 43 :: r => (false, r)
        | 45 :: r => (true, r)
        | r => (false, r)
      let ds := rest.takeWhile isDigit
      if ds.isEmpty then 0 else if neg then - Int.ofNat (digitsVal ds) else Int.ofNat (digitsVal ds)
    else 0
  | [] => 0

def parseStod (s0 : Bytes) : Stod :=
  let s := s0.dropWhile isSpace
  let (neg, s) := match s with
    | 43 :: r => (false, r)
    | 45 :: r => (true, r)
    | r => (false, r)
  if startsWithCI s "inf" then .inf neg
  else if startsWithCI s "nan" then (if (s.drop 3).head? == some 40 then .unsupported else .nan)
  else
    let hex := match s with
      | 48 :: x :: h :: rest => (x == 120 || x == 88) && (isHexDigit h || (h == 46 && (rest.head?.map isHexDigit).getD false))
      | _ => false
    if hex then .unsupported
    else
      let d1 := s.takeWhile isDigit
      let r1 := s.dropWhile isDigit
      let (d2, r2) := match r1 with
        | 46 :: r => (r.takeWhile isDigit, r.dropWhile isDigit)
        | r => ([], r)
      if d1.isEmpty && d2.isEmpty then .invalid
      else .num neg (digitsVal (d1 ++ d2)) (parseExp r2 - Int.ofNat d2.length)

/-- 2^1024 - 2^970: decimal values from here on round to infinity (`ERANGE`) -/
def overflowBound : Nat := 2 ^ 1024 - 2 ^ 970

/-- `m·10^e ≥ overflowBound` -/
def overflows (m : Nat) (e : Int) : Bool :=
  if 0 ≤ e then decide (overflowBound ≤ m * 10 ^ e.toNat) else decide (overflowBound * 10 ^ (-e).toNat ≤ m)

/-- `0 < m·10^e < 2^-1022` (subnormal or zero result: `ERANGE`) -/
def underflows (m : Nat) (e : Int) : Bool :=
  if 0 ≤ e then false else decide (m * 2 ^ 1022 < 10 ^ (-e).toNat)

/-- the value of the weight column as `BuildTable` takes its logarithm; `none` = outside the model -/
def effectiveWeight (w : Bytes) : Option Wt :=
  if w.isEmpty then some .eps
  else if w.getLast? == some 37 then some .eps          -- "…%": 0.0 * percentage / 100
  else match parseStod w with
    | .invalid => some .eps
    | .nan => some .eps
    | .inf neg => some (if neg then .eps else .inf)
    | .unsupported => none
    | .num neg m e =>
      if neg || m == 0 then some .eps
      else if overflows m e || underflows m e then some .eps
      else some (.pos m e)

def Wt.show : Wt → String
  | .eps => "z"
  | .inf => "inf"
  | .pos m e => s!"{m}e{e}"

end RimeModel.C06
