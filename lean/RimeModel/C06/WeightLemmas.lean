import RimeModel.C06.Weight
/-! C06: the exact order on weights is a total preorder (helper lemmas; free to change) -/
namespace RimeModel.C06

theorem Wt.frac_den_pos (a : Wt) (h : a ≠ .inf) : 0 < a.frac.2 := by
  cases a with
  | eps => simp [Wt.frac]
  | inf => exact absurd rfl h
  | pos m e =>
    simp only [Wt.frac]
    split
    · simp
    · exact Nat.pow_pos (by omega)

theorem Wt.le_total (a b : Wt) : (Wt.le a b || Wt.le b a) = true := by
  cases a <;> cases b <;> simp [Wt.le] <;> omega

theorem frac_le_trans (n1 d1 n2 d2 n3 d3 : Nat) (h2 : 0 < d2)
    (h12 : n1 * d2 ≤ n2 * d1) (h23 : n2 * d3 ≤ n3 * d2) : n1 * d3 ≤ n3 * d1 := by
  apply Nat.le_of_mul_le_mul_right (c := d2) _ h2
  calc n1 * d3 * d2 = n1 * d2 * d3 := by rw [Nat.mul_assoc, Nat.mul_comm d3 d2, ← Nat.mul_assoc]
    _ ≤ n2 * d1 * d3 := Nat.mul_le_mul_right _ h12
    _ = n2 * d3 * d1 := by rw [Nat.mul_assoc, Nat.mul_comm d1 d3, ← Nat.mul_assoc]
    _ ≤ n3 * d2 * d1 := Nat.mul_le_mul_right _ h23
    _ = n3 * d1 * d2 := by rw [Nat.mul_assoc, Nat.mul_comm d2 d1, ← Nat.mul_assoc]

theorem Wt.le_fin (a b : Wt) (ha : a ≠ .inf) (hb : b ≠ .inf) :
    Wt.le a b = decide (a.frac.1 * b.frac.2 ≤ b.frac.1 * a.frac.2) := by
  cases a <;> cases b <;> simp_all [Wt.le]

theorem Wt.le_trans (a b c : Wt) (h1 : Wt.le a b = true) (h2 : Wt.le b c = true) : Wt.le a c = true := by
  by_cases hc : c = .inf
  · subst hc; cases a <;> rfl
  · by_cases hb : b = .inf
    · subst hb; cases c <;> simp_all [Wt.le]
    · by_cases ha : a = .inf
      · subst ha; cases b <;> simp_all [Wt.le]
      · rw [Wt.le_fin a b ha hb] at h1
        rw [Wt.le_fin b c hb hc] at h2
        rw [Wt.le_fin a c ha hc]
        simp only [decide_eq_true_eq] at *
        exact frac_le_trans _ _ _ _ _ _ (Wt.frac_den_pos b hb) h1 h2

end RimeModel.C06
