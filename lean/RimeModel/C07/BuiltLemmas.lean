import RimeModel.C07.CompleteLemmas
import RimeModel.C06.FindLemmas
import RimeModel.C06.TreeLemmas
/-! C07 on a table built by C06's `build`: the cursor can follow every row's code and finds its page
(helper lemmas; free to change) -/
namespace RimeModel.C07
open RimeModel.C06

def node2Of (S : List (CRow Dy) → List (CRow Dy)) (p : List Nat) (rs : List (CRow Dy)) (k : Nat) : Node2 Dy :=
  { key := k
    entries := (S (pageAt (p ++ [k]) rs)).map toEntry
    next := if (pageBelow (p ++ [k]) rs).isEmpty then none else some (build3 S (p ++ [k]) rs) }

def node3Of (S : List (CRow Dy) → List (CRow Dy)) (p : List Nat) (rs : List (CRow Dy)) (k : Nat) : Node3 Dy :=
  { key := k
    entries := (S (pageAt (p ++ [k]) rs)).map toEntry
    tail := if (pageBelow (p ++ [k]) rs).isEmpty then none else some ((S (pageBelow (p ++ [k]) rs)).map toLong) }

theorem build2_eq (S : List (CRow Dy) → List (CRow Dy)) (p : List Nat) (rs : List (CRow Dy)) :
    build2 S p rs = (childKeys p rs).map (node2Of S p rs) := rfl

theorem build3_eq (S : List (CRow Dy) → List (CRow Dy)) (p : List Nat) (rs : List (CRow Dy)) :
    build3 S p rs = (childKeys p rs).map (node3Of S p rs) := rfl

theorem findNode_of_mem {ks : List Nat} (hs : Ascending natLt ks) {k : Nat} (hk : k ∈ ks) :
    ∃ i, findNode ks k = some i ∧ ks[i]? = some k := by
  obtain ⟨i, hi⟩ := List.mem_iff_getElem?.mp hk
  have hl : i < ks.length := by
    rcases Nat.lt_or_ge i ks.length with h | h
    · exact h
    · rw [List.getElem?_eq_none h] at hi; simp at hi
  exact ⟨i, (findNode_iff ks k hs i).mpr ⟨hl, by simp [List.getD, hi]⟩, hi⟩

theorem findIn2_build2 (S : List (CRow Dy) → List (CRow Dy)) (p : List Nat) (rs : List (CRow Dy)) (k : Nat)
    (hk : k ∈ childKeys p rs) : findIn2 (build2 S p rs) k = some (node2Of S p rs k) := by
  have hkeys : (build2 S p rs).map (·.key) = childKeys p rs := by
    simp [build2_eq, node2Of, Function.comp_def]
  have hasc : Ascending natLt (childKeys p rs) := ascending_sortDedup natLt_strict _
  obtain ⟨i, hf, hi⟩ := findNode_of_mem hasc hk
  unfold findIn2
  rw [hkeys, hf]
  simp [build2_eq, hi]

theorem findIn3_build3 (S : List (CRow Dy) → List (CRow Dy)) (p : List Nat) (rs : List (CRow Dy)) (k : Nat)
    (hk : k ∈ childKeys p rs) : findIn3 (build3 S p rs) k = some (node3Of S p rs k) := by
  have hkeys : (build3 S p rs).map (·.key) = childKeys p rs := by
    simp [build3_eq, node3Of, Function.comp_def]
  have hasc : Ascending natLt (childKeys p rs) := ascending_sortDedup natLt_strict _
  obtain ⟨i, hf, hi⟩ := findNode_of_mem hasc hk
  unfold findIn3
  rw [hkeys, hf]
  simp [build3_eq, hi]

theorem head_build (S : List (CRow Dy) → List (CRow Dy)) (n : Nat) (rs : List (CRow Dy)) (a : Nat) (ha : a < n) :
    (build S n rs).head[a]? = some { entries := (S (pageAt [a] rs)).map toEntry,
                                     next := if (pageBelow [a] rs).isEmpty then none else some (build2 S [a] rs) } := by
  simp [build, ha]

/-- a row whose code properly extends `p` by `k`: `k` is a child key of `p` and the page below `p` is not empty -/
theorem child_of_row (rs : List (CRow Dy)) (r : CRow Dy) (hr : r ∈ rs) (p : List Nat) (k : Nat) (t : List Nat)
    (hc : r.code = p ++ k :: t) : k ∈ childKeys p rs ∧ (pageBelow p rs).isEmpty = false := by
  have hb : r ∈ pageBelow p rs := by
    simp only [pageBelow, List.mem_filter, Bool.and_eq_true, decide_eq_true_eq, List.isPrefixOf_iff_prefix]
    exact ⟨hr, ⟨k :: t, hc.symm⟩, by rw [hc]; simp⟩
  constructor
  · unfold childKeys
    rw [mem_sortDedup natLt_strict]
    refine List.mem_map.mpr ⟨r, hb, ?_⟩
    rw [hc]
    simp [List.getD, List.getElem?_append_right]
  · cases h : pageBelow p rs with
    | nil => rw [h] at hb; simp at hb
    | cons x xs => rfl

theorem page_nonempty (S : List (CRow Dy) → List (CRow Dy)) (hS : ∀ l, (S l).Perm l) (rs : List (CRow Dy)) (r : CRow Dy)
    (hr : r ∈ rs) : ((S (pageAt r.code rs)).map toEntry).isEmpty = false := by
  have hm : r ∈ S (pageAt r.code rs) := (hS _).mem_iff.mpr (by simp [pageAt, hr])
  cases h : S (pageAt r.code rs) with
  | nil => rw [h] at hm; simp at hm
  | cons x xs => simp

/-- what the cursor finds for a row of the built table whose code has one to three syllables -/
def Finds (t : Table) (c : List Nat) (y : Nat) (es : List (Entry Dy)) : Prop :=
  Followable t c ∧ ∀ q : TQ, q.indexCode = c → ∃ acc, access t q y = some acc ∧ acc.exhausted = false ∧ acc.span = .entries es

theorem finds1 (S : List (CRow Dy) → List (CRow Dy)) (hS : ∀ l, (S l).Perm l) (n : Nat) (rs : List (CRow Dy)) (r : CRow Dy)
    (hr : r ∈ rs) (a : Nat) (hc : r.code = [a]) (ha : a < n) :
    Finds (build S n rs) [] a ((S (pageAt r.code rs)).map toEntry) := by
  refine ⟨fun k hk => by simp at hk, ?_⟩
  intro q hq
  have hne := page_nonempty S hS rs r hr
  refine ⟨⟨[a], .entries ((S (pageAt [a] rs)).map toEntry), q.back⟩, ?_, ?_, by rw [hc]⟩
  · simp [access, hq, head_build S n rs a ha]
  · rw [hc] at hne; simpa [Accessor.exhausted] using hne

theorem trunk2_build (S : List (CRow Dy) → List (CRow Dy)) (n : Nat) (rs : List (CRow Dy)) (a : Nat) (ha : a < n)
    (hb : (pageBelow [a] rs).isEmpty = false) : trunk2 (build S n rs) a = some (build2 S [a] rs) := by
  simp [trunk2, head_build S n rs a ha, hb]

theorem finds2 (S : List (CRow Dy) → List (CRow Dy)) (hS : ∀ l, (S l).Perm l) (n : Nat) (rs : List (CRow Dy)) (r : CRow Dy)
    (hr : r ∈ rs) (a b : Nat) (hc : r.code = [a, b]) (ha : a < n) :
    Finds (build S n rs) [a] b ((S (pageAt r.code rs)).map toEntry) := by
  obtain ⟨hk, hb⟩ := child_of_row rs r hr [a] b [] (by simpa using hc)
  have ht2 := trunk2_build S n rs a ha hb
  refine ⟨?_, ?_⟩
  · intro k hk'
    have : k = 0 := by simp at hk'; omega
    subst this
    simp [canAdvance, ht2]
  · intro q hq
    have hne := page_nonempty S hS rs r hr
    refine ⟨⟨[a, b], .entries ((S (pageAt [a, b] rs)).map toEntry), q.back⟩, ?_, ?_, by rw [hc]⟩
    · simp [access, hq, ht2, findIn2_build2 S [a] rs b hk, node2Of]
    · rw [hc] at hne; simpa [Accessor.exhausted] using hne

theorem trunk3_build (S : List (CRow Dy) → List (CRow Dy)) (n : Nat) (rs : List (CRow Dy)) (a b : Nat) (ha : a < n)
    (hb1 : (pageBelow [a] rs).isEmpty = false) (hk : b ∈ childKeys [a] rs) (hb2 : (pageBelow [a, b] rs).isEmpty = false) :
    trunk3 (build S n rs) a b = some (build3 S [a, b] rs) := by
  simp [trunk3, trunk2_build S n rs a ha hb1, findIn2_build2 S [a] rs b hk, node2Of, hb2]

theorem finds3 (S : List (CRow Dy) → List (CRow Dy)) (hS : ∀ l, (S l).Perm l) (n : Nat) (rs : List (CRow Dy)) (r : CRow Dy)
    (hr : r ∈ rs) (a b c : Nat) (hc : r.code = [a, b, c]) (ha : a < n) :
    Finds (build S n rs) [a, b] c ((S (pageAt r.code rs)).map toEntry) := by
  obtain ⟨hk1, hb1⟩ := child_of_row rs r hr [a] b [c] (by simpa using hc)
  obtain ⟨hk2, hb2⟩ := child_of_row rs r hr [a, b] c [] (by simpa using hc)
  have ht2 := trunk2_build S n rs a ha hb1
  have ht3 := trunk3_build S n rs a b ha hb1 hk1 hb2
  refine ⟨?_, ?_⟩
  · intro k hk'
    have : k = 0 ∨ k = 1 := by simp at hk'; omega
    rcases this with rfl | rfl
    · simp [canAdvance, ht2]
    · simp [canAdvance, ht3]
  · intro q hq
    have hne := page_nonempty S hS rs r hr
    refine ⟨⟨[a, b, c], .entries ((S (pageAt [a, b, c] rs)).map toEntry), q.back⟩, ?_, ?_, by rw [hc]⟩
    · simp [access, hq, ht3, findIn3_build3 S [a, b] rs c hk2, node3Of]
    · rw [hc] at hne; simpa [Accessor.exhausted] using hne

end RimeModel.C07
