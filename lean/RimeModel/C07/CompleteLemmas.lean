import RimeModel.C07.QueryLemmas
/-! C07: `Table::Query` reports every code the graph spells and the table can follow (helper lemmas; free to change) -/
namespace RimeModel.C07
open RimeModel.C06

/-- the queue content processed in round `k` -/
def roundInput (t : Table) (g : Graph) (start : Nat) : Nat → List (Nat × TQ)
  | 0 => [(start, TQ.init)]
  | k + 1 => (round t g (roundInput t g start k)).2

/-- the table has a next level along every step of `c` (`TableQuery::Advance` succeeds) -/
def Followable (t : Table) (c : List Nat) : Prop := ∀ k, k < c.length → canAdvance t (c.take k) (c.getD k 0) = true

theorem spells_snoc_inv {g : Graph} : ∀ (c : List Nat) (y s e : Nat), Spells g (c ++ [y]) s e →
    ∃ m, Spells g c s m ∧ m < g.interpLen ∧ g.hasEdge m y e
  | [], y, s, e, h => by
    cases h with
    | cons h1 h2 h3 => cases h3; exact ⟨s, Spells.nil _, h1, h2⟩
  | x :: c, y, s, e, h => by
    cases h with
    | cons h1 h2 h3 =>
      obtain ⟨m, hm, hl, he⟩ := spells_snoc_inv c y _ e h3
      exact ⟨m, Spells.cons h1 h2 hm, hl, he⟩

theorem mem_of_lookupSyll {idx : List (Nat × List Edge)} {y : Nat} {props : List Edge} (h : lookupSyll idx y = some props) :
    (y, props) ∈ idx := by
  unfold lookupSyll at h
  cases hf : idx.find? (fun kv => kv.1 == y) with
  | none => simp [hf] at h
  | some kv =>
    simp only [hf, Option.map_some, Option.some.injEq] at h
    have hm := List.mem_of_find?_eq_some hf
    have hk := List.find?_some hf
    simp only [beq_iff_eq] at hk
    cases kv with
    | mk a b => simp only at hk h; subst hk; subst h; exact hm

theorem followable_snoc (t : Table) (c : List Nat) (z : Nat) (h : Followable t (c ++ [z])) :
    Followable t c ∧ canAdvance t c z = true := by
  constructor
  · intro k hk
    have := h k (by simp; omega)
    rw [List.take_append_of_le_length (by omega)] at this
    simpa [List.getD, List.getElem?_append_left hk] using this
  · have := h c.length (by simp)
    simpa [List.getD] using this

/-- a child state is enqueued for every edge the table can follow -/
theorem child_mem (t : Table) (g : Graph) (st : Nat × TQ) (y m : Nat) (hlev : st.2.indexCode.length < indexDepth)
    (he : g.hasEdge st.1 y m) (hm : m < g.interpLen) (hc : canAdvance t st.2.indexCode y = true) :
    ∃ q', (m, q') ∈ (expand t g st).2 ∧ q'.indexCode = st.2.indexCode ++ [y] := by
  obtain ⟨idx, props, p, hi, hl, hp, hpe⟩ := he
  subst hpe
  unfold expand
  have hne : (st.2.level == indexDepth) = false := by
    simp only [TQ.level, beq_eq_false_iff_ne, ne_eq]; omega
  simp only [hi, hne, Bool.false_eq_true, if_false]
  refine ⟨advance st.2 y p.cred, ?_, by simp [advance]⟩
  simp only [List.mem_flatMap, List.mem_map]
  refine ⟨_, ⟨(y, props), mem_of_lookupSyll hl, rfl⟩, ?_⟩
  simp only [List.mem_filterMap]
  refine ⟨p, hp, ?_⟩
  simp [hm, hc]

theorem reach (t : Table) (g : Graph) (start : Nat) : ∀ (n : Nat) (c : List Nat) (m : Nat), c.length = n →
    Spells g c start m → m < g.interpLen → c.length ≤ indexDepth → Followable t c →
    ∃ q, (m, q) ∈ roundInput t g start c.length ∧ q.indexCode = c
  | 0, c, m, hn, hs, _, _, _ => by
    have : c = [] := List.length_eq_zero_iff.mp hn
    subst this
    cases hs
    exact ⟨TQ.init, by simp [roundInput], rfl⟩
  | n + 1, c, m, hn, hs, hm, hlen, hf => by
    rcases List.eq_nil_or_concat c with rfl | ⟨c0, z, rfl⟩
    · simp at hn
    · simp only [List.concat_eq_append] at *
      obtain ⟨m0, hs0, hm0, he⟩ := spells_snoc_inv c0 z start m hs
      obtain ⟨hf0, hcz⟩ := followable_snoc t c0 z hf
      have hl0 : c0.length = n := by simp at hn; omega
      obtain ⟨q0, hq0, hc0⟩ := reach t g start n c0 m0 hl0 hs0 hm0 (by simp at hlen; omega) hf0
      have hlev : q0.indexCode.length < indexDepth := by rw [hc0]; simp at hlen; omega
      obtain ⟨q', hq', hcq⟩ := child_mem t g (m0, q0) z m hlev (by simpa using he) hm (by rw [hc0]; exact hcz)
      refine ⟨q', ?_, by rw [hcq, hc0]⟩
      simp only [List.length_append, List.length_cons, List.length_nil, Nat.zero_add]
      rw [hl0] at hq0
      simp only [roundInput, round, List.mem_flatMap, List.mem_map]
      rw [hl0]
      exact ⟨_, ⟨(m0, q0), hq0, rfl⟩, hq'⟩

/-- the results pushed while round `k` is processed -/
def roundOutput (t : Table) (g : Graph) (start k : Nat) : List Emission := (round t g (roundInput t g start k)).1

theorem query_emissions (t : Table) (g : Graph) (start : Nat) (ems : List Emission) (h : query t g start = some ems) :
    ems = roundOutput t g start 0 ++ roundOutput t g start 1 ++ roundOutput t g start 2 ++ roundOutput t g start 3 := by
  unfold query at h
  split at h
  · simp at h
  · simp only at h
    split at h
    · simp at h
    · simp only [Option.some.injEq] at h
      rw [← h]
      rfl

theorem query_some_of_mem (t : Table) (g : Graph) (start : Nat) (hs : start < g.interpLen) (k : Nat) (hk : k ≤ 3)
    (em : Emission) (hem : em ∈ roundOutput t g start k) : ∃ ems, query t g start = some ems ∧ em ∈ ems := by
  have hall : em ∈ roundOutput t g start 0 ++ roundOutput t g start 1 ++ roundOutput t g start 2 ++ roundOutput t g start 3 := by
    simp only [List.mem_append]
    have : k = 0 ∨ k = 1 ∨ k = 2 ∨ k = 3 := by omega
    rcases this with rfl | rfl | rfl | rfl <;> simp [hem]
  unfold query
  have hns : ¬ g.interpLen ≤ start := by omega
  simp only [hns, if_false]
  refine ⟨_, ?_, hall⟩
  have hne : (roundOutput t g start 0 ++ roundOutput t g start 1 ++ roundOutput t g start 2 ++ roundOutput t g start 3).isEmpty = false := by
    cases hx : (roundOutput t g start 0 ++ roundOutput t g start 1 ++ roundOutput t g start 2 ++ roundOutput t g start 3) with
    | nil => rw [hx] at hall; simp at hall
    | cons a b => rfl
  show (if (roundOutput t g start 0 ++ roundOutput t g start 1 ++ roundOutput t g start 2 ++ roundOutput t g start 3).isEmpty = true
        then none else some _) = some _
  simp only [hne, Bool.false_eq_true, if_false]
  rfl

/-- a state with an index code shorter than 3 reports the entries of every syllable leaving its position -/
theorem emission_mem (t : Table) (g : Graph) (st : Nat × TQ) (y e : Nat) (hlev : st.2.indexCode.length < indexDepth)
    (he : g.hasEdge st.1 y e) (acc : Accessor) (ha : access t st.2 y = some acc) (hx : acc.exhausted = false) :
    (e, acc) ∈ (expand t g st).1 := by
  obtain ⟨idx, props, p, hi, hl, hp, hpe⟩ := he
  subst hpe
  unfold expand
  have hne : (st.2.level == indexDepth) = false := by
    simp only [TQ.level, beq_eq_false_iff_ne, ne_eq]; omega
  simp only [hi, hne, Bool.false_eq_true, if_false]
  simp only [List.mem_flatMap, List.mem_map]
  refine ⟨_, ⟨(y, props), mem_of_lookupSyll hl, rfl⟩, ?_⟩
  simp only [ha, hx, Bool.false_eq_true, if_false, List.mem_map]
  exact ⟨p, hp, rfl⟩

end RimeModel.C07
