import RimeModel.C07.Model
/-! C07: the exact order on dyadic numbers is a strict weak order (helper lemmas; free to change) -/
namespace RimeModel.C07

/-- `a` scaled to exponent `e0 ≤ a.e` -/
def Dy.scaled (a : Dy) (e0 : Int) : Int := a.m * 2 ^ (a.e - e0).toNat

theorem two_pow_pos (n : Nat) : (0 : Int) < 2 ^ n := Int.pow_pos (by omega)

theorem Dy.scaled_shift (a : Dy) (e e0 : Int) (h1 : e0 ≤ e) (h2 : e ≤ a.e) :
    a.scaled e0 = a.scaled e * 2 ^ (e - e0).toNat := by
  unfold Dy.scaled
  have : (a.e - e0).toNat = (a.e - e).toNat + (e - e0).toNat := by omega
  rw [this, Int.pow_add, Int.mul_assoc]

/-- comparison at the common exponent equals comparison at any smaller exponent -/
theorem Dy.lt_iff_scaled (a b : Dy) (e0 : Int) (ha : e0 ≤ a.e) (hb : e0 ≤ b.e) :
    Dy.lt a b = true ↔ a.scaled e0 < b.scaled e0 := by
  have hmin1 : min a.e b.e ≤ a.e := Int.min_le_left _ _
  have hmin2 : min a.e b.e ≤ b.e := Int.min_le_right _ _
  have hmin0 : e0 ≤ min a.e b.e := by omega
  rw [Dy.scaled_shift a (min a.e b.e) e0 hmin0 hmin1, Dy.scaled_shift b (min a.e b.e) e0 hmin0 hmin2]
  simp only [Dy.lt, decide_eq_true_eq]
  have hp := two_pow_pos (min a.e b.e - e0).toNat
  constructor
  · intro h; exact Int.mul_lt_mul_of_pos_right h hp
  · intro h; exact Int.lt_of_mul_lt_mul_right h (Int.le_of_lt hp)

def min3 (a b c : Dy) : Int := min a.e (min b.e c.e)

theorem Dy.lt_irrefl (a : Dy) : Dy.lt a a = false := by
  simp [Dy.lt]

theorem Dy.lt_trans (a b c : Dy) (h1 : Dy.lt a b = true) (h2 : Dy.lt b c = true) : Dy.lt a c = true := by
  have ha : min3 a b c ≤ a.e := by unfold min3; omega
  have hb : min3 a b c ≤ b.e := by unfold min3; omega
  have hc : min3 a b c ≤ c.e := by unfold min3; omega
  rw [Dy.lt_iff_scaled a b _ ha hb] at h1
  rw [Dy.lt_iff_scaled b c _ hb hc] at h2
  rw [Dy.lt_iff_scaled a c _ ha hc]
  omega

/-- negative transitivity: not (x < y) and not (y < z) give not (x < z) -/
theorem Dy.not_lt_trans (a b c : Dy) (h1 : Dy.lt a b = false) (h2 : Dy.lt b c = false) : Dy.lt a c = false := by
  have ha : min3 a b c ≤ a.e := by unfold min3; omega
  have hb : min3 a b c ≤ b.e := by unfold min3; omega
  have hc : min3 a b c ≤ c.e := by unfold min3; omega
  have n1 : ¬ (Dy.lt a b = true) := by simp [h1]
  have n2 : ¬ (Dy.lt b c = true) := by simp [h2]
  rw [Dy.lt_iff_scaled a b _ ha hb] at n1
  rw [Dy.lt_iff_scaled b c _ hb hc] at n2
  have : ¬ (Dy.lt a c = true) := by
    rw [Dy.lt_iff_scaled a c _ ha hc]
    omega
  simpa using this

end RimeModel.C07
