import RimeModel.C07.DyLemmas
/-! C07: the chunk iterator yields every entry once, always from a best chunk (helper lemmas; free to change) -/
namespace RimeModel.C07
open RimeModel.C06

/-! ### `better` is a strict weak order on heads -/

theorem keyBetter_nt (x f0 f : Bool × Nat × Dy) (h1 : keyBetter x f0 = false) (h2 : keyBetter f f0 = true) :
    keyBetter x f = false := by
  obtain ⟨xa, xr, xk⟩ := x
  obtain ⟨ga, gr, gk⟩ := f0
  obtain ⟨fa, fr, fk⟩ := f
  unfold keyBetter at *
  simp only at *
  cases xa <;> cases ga <;> cases fa <;> simp at h1 h2 ⊢
  all_goals
    by_cases e1 : xr = gr <;> by_cases e2 : fr = gr <;> by_cases e3 : xr = fr <;> simp_all
  all_goals first
    | omega
    | (cases h : fk.lt xk
       · rfl
       · exfalso
         have := Dy.lt_trans gk fk xk (by assumption) h
         simp_all)

theorem Dy.lt_asymm (a b : Dy) (h : Dy.lt a b = true) : Dy.lt b a = false := by
  cases h2 : Dy.lt b a
  · rfl
  · have := Dy.lt_trans a b a h h2
    simp [Dy.lt_irrefl] at this

theorem keyBetter_asymm (a b : Bool × Nat × Dy) (h : keyBetter a b = true) : keyBetter b a = false := by
  obtain ⟨xa, xr, xk⟩ := a
  obtain ⟨ga, gr, gk⟩ := b
  unfold keyBetter at *
  simp only at *
  cases xa <;> cases ga <;> simp at h ⊢
  all_goals
    by_cases e1 : xr = gr <;> simp_all
  all_goals first
    | omega
    | exact Dy.lt_asymm _ _ (by assumption)
    | (split <;> omega)

theorem keyBetter_trans (a b c : Bool × Nat × Dy) (h1 : keyBetter a b = true) (h2 : keyBetter b c = true) :
    keyBetter a c = true := by
  obtain ⟨xa, xr, xk⟩ := a
  obtain ⟨ga, gr, gk⟩ := b
  obtain ⟨fa, fr, fk⟩ := c
  unfold keyBetter at *
  simp only at *
  cases xa <;> cases ga <;> cases fa <;> simp at h1 h2 ⊢
  all_goals
    by_cases e1 : xr = gr <;> by_cases e2 : gr = fr <;> by_cases e3 : xr = fr <;> simp_all
  all_goals first
    | omega
    | exact Dy.lt_trans _ _ _ (by assumption) (by assumption)

theorem better_nt (x f0 f : Chunk) (h1 : better x f0 = false) (h2 : better f f0 = true) : better x f = false := by
  unfold better at *
  cases hx : x.headKey with
  | none => simp
  | some kx =>
    cases hf0 : f0.headKey with
    | none => simp [hx, hf0] at h1
    | some k0 =>
      cases hf : f.headKey with
      | none => simp [hf] at h2
      | some kf =>
        simp only [hx, hf0, hf] at h1 h2 ⊢
        exact keyBetter_nt kx k0 kf h1 h2

theorem better_asymm (a b : Chunk) (h : better a b = true) : better b a = false := by
  unfold better at *
  cases ha : a.headKey with
  | none => simp [ha] at h
  | some ka =>
    cases hb : b.headKey with
    | none => simp
    | some kb =>
      simp only [ha, hb] at h ⊢
      exact keyBetter_asymm ka kb h

theorem better_trans (a b c : Chunk) (h1 : better a b = true) (h2 : better b c = true) : better a c = true := by
  unfold better at *
  cases ha : a.headKey with
  | none => simp [ha] at h1
  | some ka =>
    cases hb : b.headKey with
    | none => simp [hb] at h2
    | some kb =>
      cases hc : c.headKey with
      | none => simp
      | some kc =>
        simp only [ha, hb, hc] at h1 h2 ⊢
        exact keyBetter_trans ka kb kc h1 h2

/-! ### `selectBest` (the libstdc++ `partial_sort(first, first+1, last)`) -/

theorem selectBest_perm : ∀ (f : Chunk) (cs : List Chunk),
    ((selectBest f cs).1 :: (selectBest f cs).2).Perm (f :: cs)
  | _, [] => by simp [selectBest]
  | f, c :: cs => by
    unfold selectBest
    split
    · have ih := selectBest_perm c cs
      simp only
      -- r.1 :: f :: r.2  ~  f :: r.1 :: r.2  ~  f :: c :: cs
      exact List.Perm.trans (List.Perm.swap _ _ _) (List.Perm.cons f ih)
    · have ih := selectBest_perm f cs
      simp only
      -- r.1 :: c :: r.2  ~  c :: r.1 :: r.2  ~  c :: f :: cs  ~  f :: c :: cs
      exact List.Perm.trans (List.Perm.swap _ _ _) (List.Perm.trans (List.Perm.cons c ih) (List.Perm.swap _ _ _))

theorem selectBest_spec : ∀ (f : Chunk) (cs : List Chunk),
    ((selectBest f cs).1 = f ∨ better (selectBest f cs).1 f = true) ∧
    ∀ x ∈ (selectBest f cs).2, better x (selectBest f cs).1 = false
  | _, [] => by simp [selectBest]
  | f, c :: cs => by
    unfold selectBest
    split
    · rename_i hb
      obtain ⟨h1, h2⟩ := selectBest_spec c cs
      simp only
      have hbf : better (selectBest c cs).1 f = true := by
        rcases h1 with h | h
        · rw [h]; exact hb
        · exact better_trans _ _ _ h hb
      refine ⟨Or.inr hbf, ?_⟩
      intro x hx
      rcases List.mem_cons.mp hx with rfl | hx
      · exact better_asymm _ _ hbf
      · exact h2 x hx
    · rename_i hb
      obtain ⟨h1, h2⟩ := selectBest_spec f cs
      simp only
      refine ⟨h1, ?_⟩
      intro x hx
      rcases List.mem_cons.mp hx with rfl | hx
      · have hcf : better x f = false := by simpa using hb
        rcases h1 with h | h
        · rw [h]; exact hcf
        · exact better_nt _ _ _ hcf h
      · exact h2 x hx

/-! ### the iterator -/

def NoEmpty (cs : List Chunk) : Prop := ∀ c ∈ cs, c.entries ≠ []

/-- the chunk at `chunk_index_` is not beaten by any other remaining chunk -/
def HeadBest (cs : List Chunk) : Prop :=
  match cs with
  | [] => True
  | c :: rest => ∀ x ∈ rest, better x c = false

def allEntries (cs : List Chunk) : List (Entry Dy) := cs.flatMap (·.entries)

theorem sort_rest_perm (it : Iter) : it.sort.rest.Perm it.rest := by
  unfold Iter.sort
  split
  · rename_i h; simp [h]
  · rename_i c cs h
    simp only [h]
    exact selectBest_perm c cs

theorem sort_headBest (it : Iter) : HeadBest it.sort.rest := by
  unfold Iter.sort
  split
  · rename_i h; simp [h, HeadBest]
  · rename_i c cs h
    simp only [HeadBest]
    exact (selectBest_spec c cs).2

theorem sort_done (it : Iter) : it.sort.done = it.done := by
  unfold Iter.sort
  split <;> rfl

theorem noEmpty_perm {a b : List Chunk} (h : a.Perm b) (hb : NoEmpty b) : NoEmpty a :=
  fun c hc => hb c (h.mem_iff.mp hc)

theorem allEntries_perm {a b : List Chunk} (h : a.Perm b) : (allEntries a).Perm (allEntries b) :=
  List.Perm.flatMap_right _ h

theorem totalEntries_perm {a b : List Chunk} (h : a.Perm b) : totalEntries a = totalEntries b := by
  unfold totalEntries
  exact List.Perm.sum_nat (List.Perm.map _ h)

/-- what `next` leaves: a permutation of the old chunks with the head entry removed -/
theorem next_rest (it : Iter) (c : Chunk) (cs : List Chunk) (e : Entry Dy) (es : List (Entry Dy))
    (hr : it.rest = c :: cs) (he : c.entries = e :: es) :
    it.next.rest.Perm (if es.isEmpty then cs else { c with entries := es } :: cs) := by
  unfold Iter.next
  simp only [hr, he, List.drop_one, List.tail_cons]
  by_cases hes : es.isEmpty = true
  · simp only [hes, if_true]
    split
    · rename_i hx
      simp only [Iter.exhausted, List.isEmpty_iff] at hx
      simp [hx]
    · exact sort_rest_perm _
  · simp only [hes, Bool.false_eq_true, if_false]
    exact sort_rest_perm _

theorem next_headBest (it : Iter) : HeadBest it.next.rest := by
  unfold Iter.next
  split
  · rename_i h; simp [h, HeadBest]
  · rename_i c cs h
    simp only
    split
    · split
      · rename_i hx
        simp only [Iter.exhausted, List.isEmpty_iff] at hx
        simp [hx, HeadBest]
      · exact sort_headBest _
    · exact sort_headBest _

theorem next_noEmpty (it : Iter) (h : NoEmpty it.rest) : NoEmpty it.next.rest := by
  cases hr : it.rest with
  | nil => simp [Iter.next, hr, NoEmpty]
  | cons c cs =>
    cases he : c.entries with
    | nil => exact absurd he (h c (by simp [hr]))
    | cons e es =>
      refine noEmpty_perm (next_rest it c cs e es hr he) ?_
      have hcs : NoEmpty cs := fun x hx => h x (by simp [hr, hx])
      by_cases hes : es.isEmpty = true
      · simp [hes]; exact hcs
      · simp only [hes, Bool.false_eq_true, if_false]
        intro x hx
        rcases List.mem_cons.mp hx with rfl | hx
        · simpa using hes
        · exact hcs x hx

theorem total_pos_of_noEmpty (c : Chunk) (cs : List Chunk) (h : NoEmpty (c :: cs)) : 0 < totalEntries (c :: cs) := by
  have := h c (by simp)
  cases he : c.entries with
  | nil => exact absurd he this
  | cons e es => simp [totalEntries, he]; omega

theorem drain_perm : ∀ (fuel : Nat) (it : Iter), NoEmpty it.rest → totalEntries it.rest ≤ fuel →
    ((Iter.drain fuel it).map (·.2)).Perm (allEntries it.rest)
  | 0, it, hne, hf => by
    cases hr : it.rest with
    | nil => simp [Iter.drain, allEntries]
    | cons c cs =>
      have := total_pos_of_noEmpty c cs (hr ▸ hne)
      rw [hr] at hf; omega
  | fuel + 1, it, hne, hf => by
    cases hr : it.rest with
    | nil => simp [Iter.drain, Iter.peek, hr, allEntries]
    | cons c cs =>
      cases he : c.entries with
      | nil => exact absurd he (hne c (by simp [hr]))
      | cons e es =>
        have hp := next_rest it c cs e es hr he
        have hne' := next_noEmpty it hne
        have htot : totalEntries it.next.rest ≤ fuel := by
          rw [totalEntries_perm hp]
          rw [hr] at hf
          by_cases hes : es.isEmpty = true
          · simp only [hes, if_true]
            simp [totalEntries, he] at hf ⊢; omega
          · simp only [hes, Bool.false_eq_true, if_false]
            simp [totalEntries, he] at hf ⊢; omega
        have ih := drain_perm fuel it.next hne' htot
        simp only [Iter.drain, Iter.peek, hr, he, List.map_cons]
        have hall : (allEntries it.next.rest).Perm (es ++ allEntries cs) := by
          refine List.Perm.trans (allEntries_perm hp) ?_
          by_cases hes : es.isEmpty = true
          · have : es = [] := by simpa using hes
            simp [hes, this]
          · simp [hes, allEntries]
        simp only [allEntries, List.flatMap_cons, he, List.cons_append]
        exact List.Perm.cons e (List.Perm.trans ih hall)

/-! ### order of what the iterator yields -/

/-- the part of the chunk order that does not depend on weights: exact before predictive, then shorter
remaining code -/
def staticBetter (a b : Chunk) : Bool :=
  if a.isExact != b.isExact then a.isExact else decide (a.remaining.length < b.remaining.length)

/-- same chunk up to how far it has been consumed -/
def SameChunk (a b : Chunk) : Prop :=
  a.code = b.code ∧ a.matching = b.matching ∧ a.remaining = b.remaining ∧ a.cred = b.cred

theorem SameChunk.refl (a : Chunk) : SameChunk a a := ⟨rfl, rfl, rfl, rfl⟩

theorem staticBetter_congr_left {a a' : Chunk} (h : SameChunk a a') (b : Chunk) : staticBetter a b = staticBetter a' b := by
  obtain ⟨h1, h2, h3, _⟩ := h
  simp [staticBetter, Chunk.isExact, h1, h2, h3]

theorem staticBetter_congr_right (a : Chunk) {b b' : Chunk} (h : SameChunk b b') : staticBetter a b = staticBetter a b' := by
  obtain ⟨h1, h2, h3, _⟩ := h
  simp [staticBetter, Chunk.isExact, h1, h2, h3]

theorem staticBetter_irrefl (a : Chunk) : staticBetter a a = false := by simp [staticBetter]

theorem static_of_not_better (x c : Chunk) (hx : x.entries ≠ []) (hc : c.entries ≠ []) (h : better x c = false) :
    staticBetter x c = false := by
  unfold better at h
  cases ex : x.entries with
  | nil => exact absurd ex hx
  | cons e1 r1 =>
    cases ec : c.entries with
    | nil => exact absurd ec hc
    | cons e2 r2 =>
      simp only [Chunk.headKey, ex, ec, keyBetter] at h
      unfold staticBetter
      by_cases h1 : (x.isExact != c.isExact) = true
      · simp only [h1, if_true] at h ⊢; exact h
      · simp only [h1, Bool.false_eq_true, if_false] at h ⊢
        by_cases h2 : (x.remaining.length != c.remaining.length) = true
        · simp only [h2, if_true] at h; exact h
        · have : x.remaining.length = c.remaining.length := by simpa using h2
          simp [this]

theorem drain_mem_same : ∀ (fuel : Nat) (it : Iter) (ce : Chunk × Entry Dy), NoEmpty it.rest →
    ce ∈ Iter.drain fuel it → ∃ x ∈ it.rest, SameChunk ce.1 x
  | 0, _, _, _, h => by simp [Iter.drain] at h
  | fuel + 1, it, ce, hne, h => by
    cases hr : it.rest with
    | nil => simp [Iter.drain, Iter.peek, hr] at h
    | cons c cs =>
      cases he : c.entries with
      | nil => exact absurd he (hne c (by simp [hr]))
      | cons e es =>
        simp only [Iter.drain, Iter.peek, hr, he, List.mem_cons] at h
        rcases h with rfl | h
        · exact ⟨c, by simp, SameChunk.refl c⟩
        · obtain ⟨x, hx, hs⟩ := drain_mem_same fuel it.next ce (next_noEmpty it hne) h
          have hx' := (next_rest it c cs e es hr he).mem_iff.mp hx
          by_cases hes : es.isEmpty = true
          · simp only [hes, if_true] at hx'
            exact ⟨x, by simp [hx'], hs⟩
          · simp only [hes, Bool.false_eq_true, if_false] at hx'
            rcases List.mem_cons.mp hx' with rfl | hx'
            · exact ⟨c, by simp, ⟨hs.1, hs.2.1, hs.2.2.1, hs.2.2.2⟩⟩
            · exact ⟨x, by simp [hx'], hs⟩

theorem drain_static_order : ∀ (fuel : Nat) (it : Iter), NoEmpty it.rest → HeadBest it.rest →
    (Iter.drain fuel it).Pairwise (fun a b => staticBetter b.1 a.1 = false)
  | 0, _, _, _ => by simp [Iter.drain]
  | fuel + 1, it, hne, hb => by
    cases hr : it.rest with
    | nil => simp [Iter.drain, Iter.peek, hr]
    | cons c cs =>
      cases he : c.entries with
      | nil => exact absurd he (hne c (by simp [hr]))
      | cons e es =>
        simp only [Iter.drain, Iter.peek, hr, he]
        refine List.pairwise_cons.mpr ⟨?_, drain_static_order fuel it.next (next_noEmpty it hne) (next_headBest it)⟩
        intro ce hce
        obtain ⟨x, hx, hs⟩ := drain_mem_same fuel it.next ce (next_noEmpty it hne) hce
        have hx' := (next_rest it c cs e es hr he).mem_iff.mp hx
        rw [staticBetter_congr_left hs]
        have hcs : ∀ y ∈ cs, staticBetter y c = false := by
          intro y hy
          have hyb : better y c = false := by
            have := hb; rw [hr] at this; exact this y hy
          exact static_of_not_better y c (hne y (by simp [hr, hy])) (hne c (by simp [hr])) hyb
        by_cases hes : es.isEmpty = true
        · simp only [hes, if_true] at hx'
          exact hcs x hx'
        · simp only [hes, Bool.false_eq_true, if_false] at hx'
          rcases List.mem_cons.mp hx' with rfl | hx'
          · rw [staticBetter_congr_left (⟨rfl, rfl, rfl, rfl⟩ : SameChunk { c with entries := es } c)]
            exact staticBetter_irrefl c
          · exact hcs x hx'

end RimeModel.C07
