import RimeModel.C07.CompleteLemmas
import RimeModel.C06.Lemmas
/-! C07: a long-code entry is listed at its farthest match (helper lemmas; free to change) -/
namespace RimeModel.C07
open RimeModel.C06

theorem tail_emission (t : Table) (g : Graph) (st : Nat × TQ) (a b c : Nat) (hc : st.2.indexCode = [a, b, c])
    (idx : List (Nat × List Edge)) (hi : g.indexAt st.1 = some idx)
    (es : List (LongEntry Dy)) (ht : tailOf t a b c = some es) (hne : es ≠ []) :
    (st.1, (⟨[a, b, c], .tail es, st.2.back⟩ : Accessor)) ∈ (expand t g st).1 := by
  unfold expand
  have hl : (st.2.level == indexDepth) = true := by simp [TQ.level, hc, indexDepth]
  simp only [hi, hl, if_true]
  have ha : access t st.2 0 = some ⟨[a, b, c], .tail es, st.2.back⟩ := by
    simp [access, hc, ht]
  simp only [ha]
  have hx : (⟨[a, b, c], .tail es, st.2.back⟩ : Accessor).exhausted = false := by
    cases es with
    | nil => exact absurd rfl hne
    | cons x xs => simp [Accessor.exhausted]
  simp [hx]

theorem mem_keysOf {α : Type} (l : List (Nat × α)) (kv : Nat × α) (h : kv ∈ l) : kv.1 ∈ keysOf l := by
  unfold keysOf
  rw [mem_sortDedup natLt_strict]
  exact List.mem_map_of_mem h

theorem mem_valuesAt {α : Type} (l : List (Nat × α)) (kv : Nat × α) (h : kv ∈ l) : kv.2 ∈ valuesAt l kv.1 := by
  unfold valuesAt
  refine List.mem_map.mpr ⟨kv, ?_, rfl⟩
  simp [List.mem_filter, h]

/-- what `lookup_table` makes of a tail accessor found at `m`: every long entry whose extra code the graph spells
from `m` becomes a one-entry chunk keyed by an end position at least as far as that path -/
theorem long_chunk (t : Table) (g : Graph) (hfw : g.Forward) (start : Nat) (ic : Dy) (ems : List Emission)
    (hq : query t g start = some ems) (m : Nat) (a b c : Nat) (es : List (LongEntry Dy)) (cr : Dy)
    (hem : (m, (⟨[a, b, c], .tail es, cr⟩ : Accessor)) ∈ ems) (le : LongEntry Dy) (hle : le ∈ es) (e' : Nat)
    (hs : Spells g le.extra m e') :
    ∃ kc ∈ lookupTable t g start false ic, kc.2.code = [a, b, c] ++ le.extra ∧ kc.2.entries = [le.entry] ∧
      kc.2.matching = kc.2.code.length ∧ e' ≤ kc.1 := by
  obtain ⟨d, e, hm, hle'⟩ := matchExtra_farthest g hfw le.extra 0 m e' hs
  have hd := (matchExtra_sound g le.extra 0 m d e hm).1
  unfold lookupTable
  simp only [hq]
  refine ⟨(e, { code := [a, b, c] ++ le.extra, entries := [le.entry], remaining := [], matching := 3 + d, cred := Dy.add ic cr }), ?_, rfl, rfl, ?_, hle'⟩
  · simp only [List.mem_flatMap]
    refine ⟨m, mem_keysOf ems _ hem, _, mem_valuesAt ems _ hem, ?_⟩
    simp only [chunksOf, List.mem_filterMap]
    exact ⟨le, hle, by simp [hm]⟩
  · simp only [List.length_append, List.length_cons, List.length_nil]
    omega

end RimeModel.C07
