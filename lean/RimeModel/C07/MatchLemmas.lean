import RimeModel.C07.Spells
/-! C07: `match_extra_code` is sound and finds the farthest match (helper lemmas; free to change) -/
namespace RimeModel.C07

theorem matchExtra_cons (g : Graph) (predict : Bool) (s : Nat) (rest : List Nat) (depth pos : Nat) :
    matchExtra g predict (s :: rest) depth pos =
      if g.interpLen ≤ pos then (if predict then some (depth, g.interpLen) else none)
      else match g.indexAt pos with
        | none => none
        | some idx =>
          match lookupSyll idx s with
          | none => none
          | some props => props.foldl (bestStep (fun p => matchExtra g predict rest (depth + 1) p.endPos)) none := by
  rw [matchExtra]
  rfl

theorem foldl_best_some (f : Edge → Option (Nat × Nat)) : ∀ (props : List Edge) (best : Option (Nat × Nat)) (m : Nat × Nat),
    props.foldl (bestStep f) best = some m → best = some m ∨ ∃ p ∈ props, f p = some m
  | [], best, m, h => Or.inl h
  | p :: ps, best, m, h => by
    simp only [List.foldl_cons] at h
    rcases foldl_best_some f ps _ m h with h1 | ⟨q, hq, hf⟩
    · unfold bestStep at h1
      cases hfp : f p with
      | none => simp only [hfp] at h1; exact Or.inl h1
      | some m' =>
        simp only [hfp] at h1
        split at h1
        · exact Or.inr ⟨p, by simp, by rw [hfp]; exact h1⟩
        · exact Or.inl h1
    · exact Or.inr ⟨q, by simp [hq], hf⟩

/-- end position of the running best (0 for "failed") -/
def bestEnd (b : Option (Nat × Nat)) : Nat := (b.map (·.2)).getD 0

theorem bestStep_end_ge (f : Edge → Option (Nat × Nat)) (best : Option (Nat × Nat)) (p : Edge) :
    bestEnd best ≤ bestEnd (bestStep f best p) ∧ (∀ m, f p = some m → m.2 ≤ bestEnd (bestStep f best p)) := by
  unfold bestStep
  cases hfp : f p with
  | none => simp
  | some m' =>
    simp only
    by_cases h : (best.map (·.2)).getD 0 < m'.2
    · simp only [h, if_true]
      constructor
      · simp only [bestEnd, Option.map_some, Option.getD_some]; unfold bestEnd at *; omega
      · intro m hm; simp only [Option.some.injEq] at hm; subst hm; simp [bestEnd]
    · simp only [h, if_false]
      constructor
      · exact Nat.le_refl _
      · intro m hm; simp only [Option.some.injEq] at hm; subst hm; unfold bestEnd; omega

theorem foldl_best_end : ∀ (f : Edge → Option (Nat × Nat)) (props : List Edge) (best : Option (Nat × Nat)),
    bestEnd best ≤ bestEnd (props.foldl (bestStep f) best) ∧
    ∀ p ∈ props, ∀ m, f p = some m → m.2 ≤ bestEnd (props.foldl (bestStep f) best)
  | _, [], best => by simp
  | f, p :: ps, best => by
    simp only [List.foldl_cons]
    have h1 := bestStep_end_ge f best p
    have h2 := foldl_best_end f ps (bestStep f best p)
    refine ⟨Nat.le_trans h1.1 h2.1, ?_⟩
    intro q hq m hm
    rcases List.mem_cons.mp hq with rfl | hq
    · exact Nat.le_trans (h1.2 m hm) h2.1
    · exact h2.2 q hq m hm

theorem spells_le {g : Graph} (hf : g.Forward) : ∀ {code : List Nat} {s e : Nat}, Spells g code s e → s ≤ e
  | _, _, _, .nil _ => Nat.le_refl _
  | _, _, _, .cons _ he hs => Nat.le_trans (Nat.le_of_lt (hf _ _ _ he)) (spells_le hf hs)

/-- a successful non-predictive match consumed the whole extra code along a path of the graph -/
theorem matchExtra_sound (g : Graph) : ∀ (extra : List Nat) (depth pos d e : Nat),
    matchExtra g false extra depth pos = some (d, e) → d = depth + extra.length ∧ Spells g extra pos e
  | [], depth, pos, d, e, h => by
    simp only [matchExtra, Option.some.injEq, Prod.mk.injEq] at h
    obtain ⟨rfl, rfl⟩ := h
    exact ⟨by simp, Spells.nil _⟩
  | s :: rest, depth, pos, d, e, h => by
    rw [matchExtra_cons] at h
    by_cases hp : g.interpLen ≤ pos
    · simp [hp] at h
    · simp only [hp, if_false] at h
      cases hi : g.indexAt pos with
      | none => simp [hi] at h
      | some idx =>
        simp only [hi] at h
        cases hl : lookupSyll idx s with
        | none => simp [hl] at h
        | some props =>
          simp only [hl] at h
          rcases foldl_best_some _ props none (d, e) h with h0 | ⟨p, hp', hf⟩
          · simp at h0
          · obtain ⟨hd, hs⟩ := matchExtra_sound g rest (depth + 1) p.endPos d e hf
            refine ⟨by simp only [List.length_cons]; omega, ?_⟩
            exact Spells.cons (by omega) ⟨idx, props, p, hi, hl, hp', rfl⟩ hs

/-- the match returned ends at least as far as any path that carries the extra code -/
theorem matchExtra_farthest (g : Graph) (hfw : g.Forward) : ∀ (extra : List Nat) (depth pos e' : Nat),
    Spells g extra pos e' → ∃ d e, matchExtra g false extra depth pos = some (d, e) ∧ e' ≤ e
  | [], depth, pos, e', h => by
    cases h
    exact ⟨depth, pos, by simp [matchExtra], Nat.le_refl _⟩
  | s :: rest, depth, pos, e', h => by
    cases h with
    | cons hlt hedge hrest =>
      rename_i m
      obtain ⟨idx, props, p, hi, hl, hp, hpe⟩ := hedge
      subst hpe
      obtain ⟨d1, e1, hm, hle⟩ := matchExtra_farthest g hfw rest (depth + 1) p.endPos e' hrest
      rw [matchExtra_cons]
      have hnp : ¬ g.interpLen ≤ pos := by omega
      simp only [hnp, if_false, hi, hl]
      have hend := (foldl_best_end (fun p => matchExtra g false rest (depth + 1) p.endPos) props none).2 p hp (d1, e1) hm
      simp only at hend
      have hpos : 0 < e1 := by
        have h1 : pos < p.endPos := hfw pos s p.endPos ⟨idx, props, p, hi, hl, hp, rfl⟩
        have h2 := spells_le hfw hrest
        omega
      cases hr : props.foldl (bestStep (fun p => matchExtra g false rest (depth + 1) p.endPos)) none with
      | none => simp [hr, bestEnd] at hend; omega
      | some r =>
        refine ⟨r.1, r.2, rfl, ?_⟩
        simp [hr, bestEnd] at hend
        omega

end RimeModel.C07
