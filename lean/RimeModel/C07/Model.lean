import RimeModel.C06.Table
/-!
# C07 — from the syllable graph and the table to the dictionary's lookup result

* `Table::Query` (table.cc:552-593): breadth-first walk of the syllable graph with `TableQuery`
  `Access / Advance / Backdate`.  Every `Advance` raises the level by one and the level never exceeds 3, so the
  FIFO queue processes all level-0 states, then all level-1 states, … : the walk is modelled as four rounds,
  each expanding the states of the previous one in order (same visiting order, same order of results).
* `match_extra_code` (dictionary.cc:84-115), `lookup_table` (231-261), `Dictionary::Lookup` (263-283)
* `compare_chunk_by_head_element` (65-76), `DictEntryIterator::Sort / Peek / Next` (127-194); `Sort` is
  `std::partial_sort(first, first+1, last)`, which in libstdc++ is "swap into the front whatever is strictly
  better than the front, left to right".

The syllable graph is DATA here (recorded from the real `Syllabifier`; its own model is C08's).  The table is
the C06 `Tree` with weights as exact dyadic numbers (the stored floats), credibilities are the graph's doubles;
sums and comparisons are exact (the code rounds the sum to double: same order except within one ulp).
-/
namespace RimeModel.C07
open RimeModel.C06

/-- a dyadic number `m · 2^e` (every finite float/double is one) -/
structure Dy where
  m : Int
  e : Int
deriving Repr, BEq, DecidableEq

def Dy.zero : Dy := ⟨0, 0⟩

def Dy.add (a b : Dy) : Dy :=
  let e := min a.e b.e
  ⟨a.m * 2 ^ (a.e - e).toNat + b.m * 2 ^ (b.e - e).toNat, e⟩

def Dy.lt (a b : Dy) : Bool :=
  let e := min a.e b.e
  decide (a.m * 2 ^ (a.e - e).toNat < b.m * 2 ^ (b.e - e).toNat)

/-- the value of an IEEE-754 binary64 bit pattern (finite) -/
def Dy.ofBits (b : Nat) : Dy :=
  let sign : Nat := b / 2 ^ 63
  let ex : Nat := (b / 2 ^ 52) % 2048
  let fr : Nat := b % 2 ^ 52
  let m : Nat := if ex = 0 then fr else fr + 2 ^ 52
  ⟨if sign = 1 then - Int.ofNat m else Int.ofNat m, Int.ofNat (if ex = 0 then 1 else ex) - 1075⟩

/-- one `SpellingProperties` of the transposed graph: `indices[start][syllable]` holds a list of these -/
structure Edge where
  endPos : Nat
  type : Nat
  cred : Dy
deriving Repr

/-- the part of `SyllableGraph` the dictionary reads -/
structure Graph where
  inputLen : Nat
  interpLen : Nat
  /-- `indices`: start ↦ (syllable id ↦ properties), keys ascending as in the `std::map`s -/
  indices : List (Nat × List (Nat × List Edge))
  /-- `edges.size()` (ScriptTranslation: "has at least two syllables") -/
  edgeStarts : Nat
deriving Repr

def Graph.indexAt (g : Graph) (pos : Nat) : Option (List (Nat × List Edge)) :=
  (g.indices.find? (fun kv => kv.1 == pos)).map (·.2)

def lookupSyll (idx : List (Nat × List Edge)) (s : Nat) : Option (List Edge) :=
  (idx.find? (fun kv => kv.1 == s)).map (·.2)

/-! ## `TableQuery` on the C06 tree -/

abbrev Table := Tree Dy

/-- the cursor of `TableQuery`: `level_`, `index_code_`, `credibility_` (the lvN pointers follow `index_code_`) -/
structure TQ where
  indexCode : List Nat
  cred : List Dy          -- stack, last element = `back()`
deriving Repr

def TQ.level (q : TQ) : Nat := q.indexCode.length
def TQ.back (q : TQ) : Dy := q.cred.getLast?.getD Dy.zero
def TQ.init : TQ := { indexCode := [], cred := [Dy.zero] }

/-- `lv2_index_` after walking `[a]` -/
def trunk2 (t : Table) (a : Nat) : Option (List (Node2 Dy)) := (t.head[a]?).bind (·.next)

def findIn2 (ns : List (Node2 Dy)) (k : Nat) : Option (Node2 Dy) :=
  (findNode (ns.map (·.key)) k).bind (fun i => ns[i]?)

def findIn3 (ns : List (Node3 Dy)) (k : Nat) : Option (Node3 Dy) :=
  (findNode (ns.map (·.key)) k).bind (fun i => ns[i]?)

/-- `lv3_index_` after walking `[a, b]` -/
def trunk3 (t : Table) (a b : Nat) : Option (List (Node3 Dy)) :=
  (trunk2 t a).bind (fun ns => (findIn2 ns b).bind (·.next))

/-- `lv4_index_` after walking `[a, b, c]` -/
def tailOf (t : Table) (a b c : Nat) : Option (List (LongEntry Dy)) :=
  (trunk3 t a b).bind (fun ns => (findIn3 ns c).bind (·.tail))

/-- `TableQuery::Walk`: can the cursor go down by `s`? (the next level must exist) -/
def canAdvance (t : Table) (code : List Nat) (s : Nat) : Bool :=
  match code with
  | [] => (trunk2 t s).isSome
  | [a] => (trunk3 t a s).isSome
  | [a, b] => (tailOf t a b s).isSome
  | _ => false

/-- what a `TableAccessor` ranges over -/
inductive Span where
  | entries (es : List (Entry Dy))
  | tail (es : List (LongEntry Dy))
deriving Repr

structure Accessor where
  indexCode : List Nat
  span : Span
  cred : Dy
deriving Repr

def Accessor.exhausted (a : Accessor) : Bool :=
  match a.span with
  | .entries es => es.isEmpty
  | .tail es => es.isEmpty

/-- `TableQuery::Access(syllable_id)` (default credibility 0 → `credibility_.back()`); `none` = empty accessor -/
def access (t : Table) (q : TQ) (s : Nat) : Option Accessor :=
  match q.indexCode with
  | [] => (t.head[s]?).map (fun n => ⟨[s], .entries n.entries, q.back⟩)
  | [a] => (trunk2 t a).bind (fun ns => (findIn2 ns s).map (fun n => ⟨[a, s], .entries n.entries, q.back⟩))
  | [a, b] => (trunk3 t a b).bind (fun ns => (findIn3 ns s).map (fun n => ⟨[a, b, s], .entries n.entries, q.back⟩))
  | [a, b, c] => (tailOf t a b c).map (fun es => ⟨[a, b, c], .tail es, q.back⟩)
  | _ => none

/-- `Advance`: push the syllable and the accumulated credibility -/
def advance (q : TQ) (s : Nat) (cred : Dy) : TQ :=
  { indexCode := q.indexCode ++ [s], cred := q.cred ++ [Dy.add q.back cred] }

/-- one result of the walk: `(*result)[endPos].push_back(accessor)` -/
abbrev Emission := Nat × Accessor

/-- what the loop body does with one dequeued state: results pushed, states enqueued (in order) -/
def expand (t : Table) (g : Graph) (st : Nat × TQ) : List Emission × List (Nat × TQ) :=
  match g.indexAt st.1 with
  | none => ([], [])
  | some idx =>
    if st.2.level == indexDepth then
      match access t st.2 0 with
      | some acc => (if acc.exhausted then [] else [(st.1, acc)], [])
      | none => ([], [])
    else
      let per := idx.map fun (sp : Nat × List Edge) =>
        let acc := access t st.2 sp.1
        let ems : List Emission := match acc with
          | some a => if a.exhausted then [] else sp.2.map (fun p => (p.endPos, a))
          | none => []
        let nxt : List (Nat × TQ) := sp.2.filterMap fun p =>
          if p.endPos < g.interpLen && canAdvance t st.2.indexCode sp.1 then some (p.endPos, advance st.2 sp.1 p.cred)
          else none
        (ems, nxt)
      (per.flatMap (·.1), per.flatMap (·.2))

def round (t : Table) (g : Graph) (sts : List (Nat × TQ)) : List Emission × List (Nat × TQ) :=
  let r := sts.map (expand t g)
  (r.flatMap (·.1), r.flatMap (·.2))

/-- `Table::Query(graph, start)`: all results in the order they are pushed; `none` = returns false -/
def query (t : Table) (g : Graph) (start : Nat) : Option (List Emission) :=
  if g.interpLen ≤ start then none
  else
    let r0 := round t g [(start, TQ.init)]
    let r1 := round t g r0.2
    let r2 := round t g r1.2
    let r3 := round t g r2.2
    let all := r0.1 ++ r1.1 ++ r2.1 ++ r3.1
    if all.isEmpty then none else some all

/-- keys of a `std::map<int, …>` built by `m[k]…` insertions -/
def keysOf {α : Type} (l : List (Nat × α)) : List Nat := sortDedup natLt (l.map (·.1))

def valuesAt {α : Type} (l : List (Nat × α)) (k : Nat) : List α := (l.filter (fun kv => kv.1 == k)).map (·.2)

/-! ## `match_extra_code`, chunks, `lookup_table` -/

/-- `match_extra_code(extra_code, depth, graph, current_pos, predict_word)` on the remaining extra code;
`none` = `kFailed`, `some (depth, end_pos)` otherwise.  Among the alternatives of one syllable the match with
the strictly largest end position wins (first one on ties), starting from `end_pos = 0`. -/
def matchExtra (g : Graph) (predict : Bool) : List Nat → Nat → Nat → Option (Nat × Nat)
  | [], depth, pos => some (depth, pos)
  | s :: rest, depth, pos =>
    if g.interpLen ≤ pos then (if predict then some (depth, g.interpLen) else none)
    else match g.indexAt pos with
      | none => none
      | some idx =>
        match lookupSyll idx s with
        | none => none
        | some props =>
          props.foldl (fun (best : Option (Nat × Nat)) p =>
            match matchExtra g predict rest (depth + 1) p.endPos with
            | none => best
            | some m => if (best.map (·.2)).getD 0 < m.2 then some m else best) none

/-- `dictionary::Chunk` -/
structure Chunk where
  code : List Nat
  entries : List (Entry Dy)     -- from the cursor on (`entries + cursor`, `size - cursor`)
  remaining : List UInt8        -- remaining_code (predictive word lookups)
  matching : Nat                -- matching_code_size
  cred : Dy
deriving Repr

def Chunk.exhausted (c : Chunk) : Bool := c.entries.isEmpty
def Chunk.isExact (c : Chunk) : Bool := c.matching == c.code.length

/-- what `compare_chunk_by_head_element` looks at: exact match?, length of the remaining code, credibility + weight
of the head entry; `none` = nothing left (`!entries || cursor >= size`) -/
def Chunk.headKey (c : Chunk) : Option (Bool × Nat × Dy) :=
  match c.entries with
  | [] => none
  | e :: _ => some (c.isExact, c.remaining.length, Dy.add c.cred e.weight)

/-- exact before predictive, then shorter remaining code, then larger credibility + weight -/
def keyBetter (a b : Bool × Nat × Dy) : Bool :=
  if a.1 != b.1 then a.1
  else if a.2.1 != b.2.1 then decide (a.2.1 < b.2.1)
  else Dy.lt b.2.2 a.2.2

/-- `compare_chunk_by_head_element(a, b)`: is `a`'s head strictly better than `b`'s? -/
def better (a b : Chunk) : Bool :=
  match a.headKey, b.headKey with
  | none, _ => false
  | some _, none => true
  | some ka, some kb => keyBetter ka kb

/-- the chunks `lookup_table` adds for one accessor found at `endPos`: (collector key, chunk) in order -/
def chunksOf (g : Graph) (predict : Bool) (initCred : Dy) (endPos : Nat) (a : Accessor) : List (Nat × Chunk) :=
  let cr := Dy.add initCred a.cred
  match a.span with
  | .entries es => [(endPos, { code := a.indexCode, entries := es, remaining := [], matching := a.indexCode.length, cred := cr })]
  | .tail es => es.filterMap fun le =>
      match matchExtra g predict le.extra 0 endPos with
      | none => none
      | some m => some (m.2, { code := a.indexCode ++ le.extra, entries := [le.entry], remaining := [],
                               matching := a.indexCode.length + m.1, cred := cr })

/-- `lookup_table`: results by ascending end position, accessors in push order -/
def lookupTable (t : Table) (g : Graph) (start : Nat) (predict : Bool) (initCred : Dy) : List (Nat × Chunk) :=
  match query t g start with
  | none => []
  | some ems => (keysOf ems).flatMap fun e => (valuesAt ems e).flatMap (chunksOf g predict initCred e)

/-! ## `DictEntryIterator` -/

structure Iter where
  done : List Chunk     -- chunks before `chunk_index_` (exhausted)
  rest : List Chunk     -- chunks from `chunk_index_` on
deriving Repr

/-- `std::partial_sort(first, first + 1, last, cmp)` as libstdc++ does it: heap of one element; every later
element strictly better than the current front is swapped with it -/
def selectBest : Chunk → List Chunk → Chunk × List Chunk
  | front, [] => (front, [])
  | front, c :: cs =>
    if better c front then
      let r := selectBest c cs
      (r.1, front :: r.2)
    else
      let r := selectBest front cs
      (r.1, c :: r.2)

def Iter.sort (it : Iter) : Iter :=
  match it.rest with
  | [] => it
  | c :: cs => let r := selectBest c cs; { it with rest := r.1 :: r.2 }

def Iter.exhausted (it : Iter) : Bool := it.rest.isEmpty

/-- what `Peek` builds an entry from: the chunk at `chunk_index_` and its head -/
def Iter.peek (it : Iter) : Option (Chunk × Entry Dy) :=
  match it.rest with
  | [] => none
  | c :: _ => match c.entries with
    | [] => none
    | e :: _ => some (c, e)

/-- `FindNextEntry`: advance the cursor, step over the chunk when it is used up, re-sort -/
def Iter.next (it : Iter) : Iter :=
  match it.rest with
  | [] => it
  | c :: cs =>
    let c' := { c with entries := c.entries.drop 1 }
    if c'.entries.isEmpty then
      let it' : Iter := { done := it.done ++ [c'], rest := cs }
      if it'.exhausted then it' else it'.sort
    else Iter.sort { it with rest := c' :: cs }

/-- everything the iterator yields from here on; `fuel` ≥ number of entries left -/
def Iter.drain : Nat → Iter → List (Chunk × Entry Dy)
  | 0, _ => []
  | fuel + 1, it =>
    match it.peek with
    | none => []
    | some ce => ce :: Iter.drain fuel it.next

def totalEntries (cs : List Chunk) : Nat := (cs.map (·.entries.length)).sum

/-- `Dictionary::Lookup`: per end position an iterator over its chunks, sorted once -/
def lookup (t : Table) (g : Graph) (start : Nat) (predict : Bool) (initCred : Dy) : List (Nat × Iter) :=
  let cs := lookupTable t g start predict initCred
  (keysOf cs).map fun e => (e, Iter.sort { done := [], rest := valuesAt cs e })

end RimeModel.C07
