import RimeModel.C07.Model
/-!
# C07 — the sentence maker (`Poet`, gear/poet.cc) without a grammar plugin

Port of `Poet::MakeSentenceWithStrategy<DynamicProgramming>` (poet.cc:190-243; `Poet::MakeSentence` picks this
strategy whenever `grammar_` is null, which is always the case in this build: no component named "grammar" is
registered), `Line`, `Line::components`, `Line::word_lengths`, `Poet::CompareWeight`, `Poet::LeftAssociateCompare`,
`Grammar::Evaluate` (grammar.h: `entry_weight + kPenalty` without a grammar) and `Sentence::Extend`
(translator_commons.cc:94-106).

* Weights are values of any type `W` with the operations of `WOps` (the drivers use IEEE doubles = Lean `Float`,
  the translators' models the exact dyadic numbers `Dy`); the additions are performed in the code's order
  (`candidate.weight + (entry->weight + kPenalty)`).
* `WordGraph = map<int, map<int, DictEntryList>>`: association lists in the maps' iteration order.  The theorems
  that need the order ask for `Sorted` (start positions strictly increasing, as a `std::map` iterates) and `Forward`
  (every edge ends after its start — true for both callers: a word has at least one byte / one syllable).
* `states` (`std::map<int, Line>`) is an association list position ↦ line.  A `Line` of the code holds a pointer to
  its predecessor line, which for this strategy is the map slot of the start position itself.  Here a line carries
  the whole chain instead (`Line W` = the non-empty lines reached through `predecessor`, LAST word first).  The two
  agree as long as a slot is never written after a successor was built from it: positions are visited in
  increasing order and edges go forward, so a slot is final when it is read (`PoetPtr.lean` ports the pointer
  version and proves that it computes the same lines under `Sorted` and `Forward`).  With an edge that does not go
  forward the code would build a line that is its own predecessor (`components()` never ends): outside the model.
* Quirk kept: `auto& target_state = states[end_pos]` creates the slot even when the edge carries no entry at all; the
  slot then holds an EMPTY line, the start position `end_pos` is not skipped and lines built from it begin there
  (their `components()` stop at the empty line).  `TableTranslator::MakeSentence` does produce edges without entries
  (`same_start_pos[end_pos]` is touched before the lookup).  `Origin` below names the positions where a line may begin.
-/
namespace RimeModel.C07
open RimeModel.C06

/-- what the poet does with weights -/
structure WOps (W : Type) where
  add : W → W → W
  lt : W → W → Bool
  eq : W → W → Bool
  zero : W          -- `0.0` of `Line::kEmpty` and of a value-initialised `Line`
  penalty : W       -- `kPenalty = -18.420680743952367`

/-- the part of a `DictEntry` the poet and `Sentence::Extend` read -/
structure PEntry (W : Type) where
  text : Bytes
  code : List Nat
  weight : W
deriving Repr

/-- `WordGraph`: start ↦ (end ↦ entries) -/
abbrev PGraph (W : Type) := List (Nat × List (Nat × List (PEntry W)))

def PGraph.Sorted {W : Type} (g : PGraph W) : Prop := g.Pairwise (fun a b => a.1 < b.1)

def PGraph.Forward {W : Type} (g : PGraph W) : Prop := ∀ sv ∈ g, ∀ ev ∈ sv.2, sv.1 < ev.1

instance {W : Type} (g : PGraph W) : Decidable g.Sorted := by unfold PGraph.Sorted; infer_instance

instance {W : Type} (g : PGraph W) : Decidable g.Forward := by unfold PGraph.Forward; infer_instance

/-- one non-empty `Line` object: `entry`, `end_pos`, `weight` (the weight of the whole line up to here) -/
structure Comp (W : Type) where
  entry : PEntry W
  endPos : Nat
  weight : W
deriving Repr

/-- a `Line` with its chain of predecessors, last word first; `[]` = an empty line (`!predecessor && !entry`) -/
abbrev Line (W : Type) := List (Comp W)

variable {W : Type}

/-- `line.weight` -/
def lineWeight (ops : WOps W) : Line W → W
  | [] => ops.zero
  | c :: _ => c.weight

/-- `line.end_pos` (0 for an empty line) -/
def lineEnd : Line W → Nat
  | [] => 0
  | c :: _ => c.endPos

/-- the loop of `Line::word_lengths` over the components in order -/
def wordLengthsFrom : Nat → List (Comp W) → List Nat
  | _, [] => []
  | last, c :: cs => (c.endPos - last) :: wordLengthsFrom c.endPos cs

/-- `Line::word_lengths()` -/
def wordLengths (l : Line W) : List Nat := wordLengthsFrom 0 l.reverse

/-- `std::lexicographical_compare` on `vector<size_t>` -/
def lexLt : List Nat → List Nat → Bool
  | _, [] => false
  | [], _ :: _ => true
  | a :: as, b :: bs => if a < b then true else if b < a then false else lexLt as bs

/-- `Poet::CompareWeight` -/
def compareWeight (ops : WOps W) (one other : Line W) : Bool :=
  ops.lt (lineWeight ops one) (lineWeight ops other)

/-- what `LeftAssociateCompare` does on equal weights: more words lose, then `lexicographical_compare` -/
def tieLess (one other : Line W) : Bool :=
  if (wordLengths other).length < (wordLengths one).length then true
  else if (wordLengths one).length == (wordLengths other).length then lexLt (wordLengths one) (wordLengths other)
  else false

/-- `Poet::LeftAssociateCompare` ("returns true if one is less than other") -/
def leftAssociateCompare (ops : WOps W) (one other : Line W) : Bool :=
  if ops.lt (lineWeight ops one) (lineWeight ops other) then true
  else if ops.eq (lineWeight ops one) (lineWeight ops other) then tieLess one other
  else false

/-- `Grammar::Evaluate(context, text, entry_weight, is_rear, nullptr)` -/
def evaluate (ops : WOps W) (w : W) : W := ops.add w ops.penalty

/-- `Line new_line{&candidate, entry.get(), end_pos, candidate.weight + Evaluate(...)}` -/
def extendLine (ops : WOps W) (cand : Line W) (e : PEntry W) (endPos : Nat) : Line W :=
  ⟨e, endPos, ops.add (lineWeight ops cand) (evaluate ops e.weight)⟩ :: cand

/-- the body of `for (const auto& entry : entries)`: `if (best.empty() || compare_(best, new_line)) best = new_line` -/
def relax (ops : WOps W) (cmp : Line W → Line W → Bool) (cand : Line W) (endPos : Nat) (best : Line W) (e : PEntry W) : Line W :=
  if best.isEmpty || cmp best (extendLine ops cand e endPos) then extendLine ops cand e endPos else best

abbrev States (W : Type) := List (Nat × Line W)

/-- `states.find(pos)` -/
def stFind (st : States W) (p : Nat) : Option (Line W) := (st.find? (fun kv => kv.1 == p)).map (·.2)

/-- `states[pos] = line` -/
def stSet : States W → Nat → Line W → States W
  | [], p, l => [(p, l)]
  | kv :: rest, p, l => if kv.1 == p then (p, l) :: rest else kv :: stSet rest p l

/-- the body of `for (const auto& ev : sv.second)` -/
def processEdge (ops : WOps W) (cmp : Line W → Line W → Bool) (total start : Nat) (cand : Line W) (st : States W)
    (ev : Nat × List (PEntry W)) : States W :=
  if start == 0 && ev.1 == total then st                     -- "exclude single word from the result"
  else stSet st ev.1 (ev.2.foldl (relax ops cmp cand ev.1) ((stFind st ev.1).getD []))

/-- the body of `for (const auto& sv : graph)`: a start position without a state is skipped -/
def processStart (ops : WOps W) (cmp : Line W → Line W → Bool) (total : Nat) (st : States W)
    (sv : Nat × List (Nat × List (PEntry W))) : States W :=
  match stFind st sv.1 with
  | none => st
  | some cand => sv.2.foldl (processEdge ops cmp total sv.1 cand) st

/-- `states` after the loop over the graph (`Initiate(states[0])`: position 0 holds the empty line) -/
def poetStates (ops : WOps W) (cmp : Line W → Line W → Bool) (g : PGraph W) (total : Nat) : States W :=
  g.foldl (processStart ops cmp total) [(0, [])]

/-- `found = states.find(total_length); if (found == end || found->second.empty()) return nullptr` -/
def poetLine (ops : WOps W) (cmp : Line W → Line W → Bool) (g : PGraph W) (total : Nat) : Option (Line W) :=
  match stFind (poetStates ops cmp g total) total with
  | none => none
  | some l => if l.isEmpty then none else some l

/-- `best.components()`: the non-empty lines of the chain, first word first — what `Sentence::Extend` receives
(`c->entry`, `c->end_pos`, `c->weight`) -/
def poetComponents (ops : WOps W) (cmp : Line W → Line W → Bool) (g : PGraph W) (total : Nat) : Option (List (Comp W)) :=
  (poetLine ops cmp g total).map List.reverse

/-- the fields of a `Sentence` that `Extend` writes -/
structure Sentence (W : Type) where
  text : Bytes
  code : List Nat
  weight : W
  components : List (PEntry W)
  wordLengths : List Nat
  endPos : Nat
deriving Repr

/-- `Sentence::Extend(another, end_pos, new_weight)` -/
def Sentence.extend (s : Sentence W) (c : Comp W) : Sentence W :=
  { text := s.text ++ c.entry.text, code := s.code ++ c.entry.code, weight := c.weight,
    components := s.components ++ [c.entry], wordLengths := s.wordLengths ++ [c.endPos - s.endPos], endPos := c.endPos }

/-- `New<Sentence>(language_)`: an empty `DictEntry` (weight 0.0), start = end = 0 -/
def Sentence.init (ops : WOps W) : Sentence W :=
  { text := [], code := [], weight := ops.zero, components := [], wordLengths := [], endPos := 0 }

/-- `Poet::MakeSentence(graph, total_length, preceding_text)` without a grammar -/
def makeSentence (ops : WOps W) (cmp : Line W → Line W → Bool) (g : PGraph W) (total : Nat) : Option (Sentence W) :=
  (poetComponents ops cmp g total).map fun cs => cs.foldl Sentence.extend (Sentence.init ops)

/-! ## reference notions the theorems are stated with -/

/-- the graph has an edge `[s, e)` that carries the entry `x` -/
def EdgeHas (g : PGraph W) (s e : Nat) (x : PEntry W) : Prop :=
  ∃ evs es, (s, evs) ∈ g ∧ (e, es) ∈ evs ∧ x ∈ es

/-- a position where a line may begin: 0, or the end of an edge that carries no entry (see the quirk above) -/
def Origin (g : PGraph W) (o : Nat) : Prop :=
  o = 0 ∨ ∃ s evs, (s, evs) ∈ g ∧ (o, []) ∈ evs

/-- `IsPath ops g total w p cs`: the components `cs` (first word first) are consecutive edges of the graph beginning at
`p`, each with an entry of its edge, none of them the edge `[0, total)`; the weights are the running sums the code
computes, starting from `w` -/
def IsPath (ops : WOps W) (g : PGraph W) (total : Nat) : W → Nat → List (Comp W) → Prop
  | _, _, [] => True
  | w, p, c :: cs => EdgeHas g p c.endPos c.entry ∧ ¬ (p = 0 ∧ c.endPos = total) ∧
      c.weight = ops.add w (evaluate ops c.entry.weight) ∧ IsPath ops g total c.weight c.endPos cs

/-- end of the last component (`p` when there is none) -/
def pathEnd : Nat → List (Comp W) → Nat
  | p, [] => p
  | _, c :: cs => pathEnd c.endPos cs

/-- weight of the last component (`w` when there is none) -/
def pathWeight : W → List (Comp W) → W
  | w, [] => w
  | _, c :: cs => pathWeight c.weight cs

/-- the text `t` is a concatenation of pieces, consecutive from position `s` to position `e`, each piece accepted by `Ok` -/
inductive Concat (Ok : Nat → Nat → Bytes → Prop) : Nat → Nat → Bytes → Prop
  | nil (p : Nat) : Concat Ok p p []
  | cons {s m e : Nat} {t1 t2 : Bytes} : Ok s m t1 → Concat Ok m e t2 → Concat Ok s e (t1 ++ t2)

/-- the poet gives position `p` a state: 0, or the end of an edge (other than `[0, total)`) from such a position -/
inductive Visited (g : PGraph W) (total : Nat) : Nat → Prop
  | zero : Visited g total 0
  | step {s e : Nat} {evs : List (Nat × List (PEntry W))} {es : List (PEntry W)} :
      Visited g total s → (s, evs) ∈ g → (e, es) ∈ evs → ¬ (s = 0 ∧ e = total) → Visited g total e

/-- the state of position `e` is a non-empty line: some edge into it from a visited position carries an entry -/
def Live (g : PGraph W) (total e : Nat) : Prop :=
  ∃ s evs es, Visited g total s ∧ (s, evs) ∈ g ∧ (e, es) ∈ evs ∧ ¬ (s = 0 ∧ e = total) ∧ es ≠ []

/-- no edge without entries (then lines begin at 0 only) -/
def NoEmptyEdge (g : PGraph W) : Prop := ∀ sv ∈ g, ∀ ev ∈ sv.2, ev.2 ≠ []

instance (g : PGraph W) : Decidable (NoEmptyEdge g) :=
  decidable_of_iff ((g.all fun sv => sv.2.all fun ev => !ev.2.isEmpty) = true) (by
    simp only [NoEmptyEdge, List.all_eq_true, Bool.not_eq_true', List.isEmpty_eq_false_iff])

/-! ## weight structures used by the drivers and the translators' models -/

/-- `-18.420680743952367` = `log(1e-8)`, exactly the double the compiler reads -/
def poetPenaltyDy : Dy := ⟨-(Dy.ofBits 0x40326bb1bbb55516).m, (Dy.ofBits 0x40326bb1bbb55516).e⟩

/-- exact arithmetic on dyadic numbers (the code rounds every sum to double) -/
def dyOps : WOps Dy :=
  { add := Dy.add, lt := Dy.lt, eq := fun a b => !Dy.lt a b && !Dy.lt b a, zero := Dy.zero, penalty := poetPenaltyDy }

/-- integer weights (for the order-theoretic statements) -/
def intOps (penalty : Int) : WOps Int :=
  { add := (· + ·), lt := fun a b => decide (a < b), eq := fun a b => decide (a = b), zero := 0, penalty := penalty }

end RimeModel.C07
