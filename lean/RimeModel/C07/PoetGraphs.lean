import RimeModel.C07.PoetOrders
import RimeModel.C07.SentenceLemmas
import RimeModel.C07.QueryLemmas
/-!
# C07 — the word graphs the two translators hand to the poet, and the sentences they show

* `ScriptTranslation::MakeSentence` (script_translator.cc:568-591, `EnrollEntries` 551-566): for every start position
  of the syllable graph the dictionary's `Lookup(graph, start)` (no word completion, initial credibility 0); per end
  position the first entry of its iterator (`max_homophones` = 1, the default).  `Poet` with `CompareWeight`.
* `TableTranslator::MakeSentence` (table_translator.cc:547-690, static-dictionary branch): the edges of `wordGraph`;
  per edge the first entry (`max_homographs` = 1) of the iterator `LookupWords` filled for the first key (longest
  first) that ends there and has words — NOT sorted (`collect_entries` peeks the iterator as `LookupWords` left it).
  `Poet` with `LeftAssociateCompare`.  Edges the code creates without entries (`same_start_pos[end_pos]` touched, lookup
  empty) are left out here: every start position of this graph other than 0 is the end of an edge WITH entries from an
  earlier start position, so its slot is never empty when it is read and the empty edges change nothing.
* a `DictEntry` the iterator builds has weight `e.weight - kS + chunk.credibility` (dictionary.cc:155).
-/
namespace RimeModel.C07
open RimeModel.C06

/-- the `DictEntry` `DictEntryIterator::Peek` builds -/
def peekEntry (ce : Chunk × Entry Dy) : PEntry Dy :=
  { text := ce.2.text, code := ce.1.code, weight := Dy.add (Dy.add ce.2.weight poetPenaltyDy) ce.1.cred }

def sentenceCand {W : Type} (start : Nat) (s : Sentence W) : Cand :=
  { type := "sentence", start := start, endPos := start + s.endPos, text := s.text }

/-! ## script translator -/

/-- the word graph with the entries' weights computed by `pk` (the model: `peekEntry`, exact; the driver also runs it
with IEEE doubles) -/
def scriptPoetGraphW {W : Type} (pk : Chunk × Entry Dy → PEntry W) (t : Table) (g : Graph) : PGraph W :=
  g.indices.map fun sv =>
    (sv.1, (lookup t g sv.1 false Dy.zero).map fun kv => (kv.1, kv.2.peek.toList.map pk))

def scriptPoetGraph (t : Table) (g : Graph) : PGraph Dy := scriptPoetGraphW peekEntry t g

/-- `ScriptTranslation::MakeSentence` (then `Offset(start_)`) -/
def scriptSentence (t : Table) (g : Graph) (start : Nat) : Option Cand :=
  (makeSentence dyOps (compareWeight dyOps) (scriptPoetGraph t g) g.interpLen).map (sentenceCand start)

/-- `scriptTranslation` with the sentence computed by the port of the poet instead of being given -/
def scriptTranslationP (t : Table) (g : Graph) (start endOfInput : Nat) (wordCompletion : Bool) : List Cand :=
  scriptTranslation t g start endOfInput wordCompletion (scriptSentence t g start)

theorem spells_append {g : Graph} : ∀ {c1 c2 : List Nat} {s m e : Nat}, Spells g c1 s m → Spells g c2 m e → Spells g (c1 ++ c2) s e
  | _, _, _, _, _, Spells.nil _, h2 => h2
  | _, _, _, _, _, Spells.cons h1 h2 h3, h4 => Spells.cons h1 h2 (spells_append h3 h4)

theorem mem_valuesAt_iff {α : Type} (l : List (Nat × α)) (k : Nat) (v : α) : v ∈ valuesAt l k ↔ (k, v) ∈ l := by
  simp only [valuesAt, List.mem_map, List.mem_filter]
  constructor
  · rintro ⟨kv, ⟨h1, h2⟩, rfl⟩
    have : kv.1 = k := by simpa using h2
    rw [← this]; exact h1
  · intro h; exact ⟨(k, v), ⟨h, by simp⟩, rfl⟩

/-- every chunk of `lookup_table` carries a code the graph spells from `start` to the position it is filed under -/
theorem lookupTable_sound (t : Table) (g : Graph) (hk : g.KeysNodup) (start : Nat) (ic : Dy) :
    ∀ kc ∈ lookupTable t g start false ic, Spells g kc.2.code start kc.1 := by
  intro kc hkc
  unfold lookupTable at hkc
  cases hq : query t g start with
  | none => simp [hq] at hkc
  | some ems =>
    simp only [hq, List.mem_flatMap] at hkc
    obtain ⟨e, _, a, ha, hc⟩ := hkc
    have hem : (e, a) ∈ ems := (mem_valuesAt_iff ems e a).mp ha
    have hsp := query_sound' t g hk start ems hq (e, a) hem
    unfold chunksOf at hc
    cases hspan : a.span with
    | entries es =>
      simp only [hspan, List.mem_singleton] at hc
      subst hc
      exact hsp
    | tail es =>
      simp only [hspan, List.mem_filterMap] at hc
      obtain ⟨le, _, hm⟩ := hc
      cases hmm : matchExtra g false le.extra 0 e with
      | none => simp [hmm] at hm
      | some m =>
        simp only [hmm, Option.some.injEq] at hm
        subst hm
        obtain ⟨_, hs2⟩ := matchExtra_sound g le.extra 0 e m.1 m.2 (by simpa using hmm)
        exact spells_append hsp hs2

theorem peek_sort_mem (cs : List Chunk) (ce : Chunk × Entry Dy) (h : (Iter.sort { done := [], rest := cs }).peek = some ce) :
    ce.1 ∈ cs ∧ ce.2 ∈ ce.1.entries := by
  have hp := sort_rest_perm { done := [], rest := cs }
  unfold Iter.peek at h
  split at h
  · simp at h
  · rename_i c rest hr
    split at h
    · simp at h
    · rename_i en ens hen
      simp only [Option.some.injEq] at h
      subst h
      refine ⟨hp.mem_iff.mp (by rw [hr]; simp), by simp [hen]⟩

/-- what an edge of the script translator's word graph stands for: an entry of a chunk the dictionary's lookup from
`s` files under `e` -/
theorem scriptPoetGraph_edge (t : Table) (g : Graph) (s e : Nat) (x : PEntry Dy) (h : EdgeHas (scriptPoetGraph t g) s e x) :
    ∃ c en, (e, c) ∈ lookupTable t g s false Dy.zero ∧ en ∈ c.entries ∧ x = peekEntry (c, en) := by
  obtain ⟨evs, es, h1, h2, h3⟩ := h
  simp only [scriptPoetGraph, scriptPoetGraphW, List.mem_map] at h1
  obtain ⟨sv, _, hsv⟩ := h1
  simp only [Prod.mk.injEq] at hsv
  obtain ⟨rfl, rfl⟩ := hsv
  simp only [List.mem_map] at h2
  obtain ⟨kv, hkv, hkv2⟩ := h2
  simp only [Prod.mk.injEq] at hkv2
  obtain ⟨rfl, rfl⟩ := hkv2
  simp only [List.mem_map, Option.mem_toList] at h3
  obtain ⟨ce, hce, rfl⟩ := h3
  simp only [lookup, List.mem_map] at hkv
  obtain ⟨k, _, rfl⟩ := hkv
  obtain ⟨hc, hen⟩ := peek_sort_mem _ ce hce
  exact ⟨ce.1, ce.2, (mem_valuesAt_iff _ _ _).mp hc, hen, rfl⟩

/-- `Table::Query` reports non-exhausted accessors only -/
theorem expand_live (t : Table) (g : Graph) (st : Nat × TQ) : ∀ em ∈ (expand t g st).1, em.2.exhausted = false := by
  intro em hem
  unfold expand at hem
  cases hi : g.indexAt st.1 with
  | none => simp [hi] at hem
  | some idx =>
    simp only [hi] at hem
    split at hem
    · cases ha : access t st.2 0 with
      | none => simp [ha] at hem
      | some acc =>
        simp only [ha] at hem
        by_cases hx : acc.exhausted = true
        · simp [hx] at hem
        · simp only [hx, Bool.false_eq_true, if_false, List.mem_singleton] at hem
          subst hem; simpa using hx
    · simp only [List.mem_flatMap, List.mem_map] at hem
      obtain ⟨pr, ⟨sp, _, rfl⟩, hem⟩ := hem
      simp only at hem
      cases ha : access t st.2 sp.1 with
      | none => simp [ha] at hem
      | some a =>
        simp only [ha] at hem
        by_cases hx : a.exhausted = true
        · simp [hx] at hem
        · simp only [hx, Bool.false_eq_true, if_false, List.mem_map] at hem
          obtain ⟨_, _, rfl⟩ := hem
          simpa using hx

theorem round_live (t : Table) (g : Graph) (sts : List (Nat × TQ)) : ∀ em ∈ (round t g sts).1, em.2.exhausted = false := by
  intro em hem
  simp only [round, List.mem_flatMap, List.mem_map] at hem
  obtain ⟨_, ⟨st, _, rfl⟩, hem⟩ := hem
  exact expand_live t g st em hem

theorem query_live (t : Table) (g : Graph) (start : Nat) (ems : List Emission) (h : query t g start = some ems) :
    ∀ em ∈ ems, em.2.exhausted = false := by
  unfold query at h
  split at h
  · simp at h
  · simp only at h
    split at h
    · simp at h
    · simp only [Option.some.injEq] at h
      subst h
      intro em hem
      simp only [List.mem_append] at hem
      rcases hem with ((hem | hem) | hem) | hem <;> exact round_live t g _ em hem

theorem lookupTable_noEmpty (t : Table) (g : Graph) (start : Nat) (ic : Dy) :
    ∀ kc ∈ lookupTable t g start false ic, kc.2.entries ≠ [] := by
  intro kc hkc
  unfold lookupTable at hkc
  cases hq : query t g start with
  | none => simp [hq] at hkc
  | some ems =>
    simp only [hq, List.mem_flatMap] at hkc
    obtain ⟨e, _, a, ha, hc⟩ := hkc
    have hem : (e, a) ∈ ems := (mem_valuesAt_iff ems e a).mp ha
    have hx := query_live t g start ems hq (e, a) hem
    unfold chunksOf at hc
    cases hspan : a.span with
    | entries es =>
      simp only [hspan, List.mem_singleton] at hc
      subst hc
      simp only [Accessor.exhausted, hspan] at hx
      intro h0; simp only at h0; simp [h0] at hx
    | tail es =>
      simp only [hspan, List.mem_filterMap] at hc
      obtain ⟨le, _, hm⟩ := hc
      cases hmm : matchExtra g false le.extra 0 e with
      | none => simp [hmm] at hm
      | some m =>
        simp only [hmm, Option.some.injEq] at hm
        subst hm
        simp

theorem scriptPoetGraph_noEmptyEdge (t : Table) (g : Graph) : NoEmptyEdge (scriptPoetGraph t g) := by
  intro sv hsv ev hev
  simp only [scriptPoetGraph, scriptPoetGraphW, List.mem_map] at hsv
  obtain ⟨sv', _, rfl⟩ := hsv
  simp only [List.mem_map] at hev
  obtain ⟨kv, hkv, rfl⟩ := hev
  simp only [lookup, List.mem_map] at hkv
  obtain ⟨k, hk, rfl⟩ := hkv
  simp only
  unfold keysOf at hk
  rw [mem_sortDedup natLt_strict] at hk
  simp only [List.mem_map] at hk
  obtain ⟨kc, hkc, rfl⟩ := hk
  have hne := lookupTable_noEmpty t g sv'.1 Dy.zero
  have hperm := sort_rest_perm { done := [], rest := valuesAt (lookupTable t g sv'.1 false Dy.zero) kc.1 }
  have hin : kc.2 ∈ valuesAt (lookupTable t g sv'.1 false Dy.zero) kc.1 := (mem_valuesAt_iff _ _ _).mpr hkc
  cases hr : (Iter.sort { done := [], rest := valuesAt (lookupTable t g sv'.1 false Dy.zero) kc.1 }).rest with
  | nil =>
    rw [hr] at hperm
    have := hperm.symm.mem_iff.mp hin
    simp at this
  | cons c rest =>
    have hc : c ∈ valuesAt (lookupTable t g sv'.1 false Dy.zero) kc.1 := hperm.mem_iff.mp (by rw [hr]; simp)
    have hce := hne (kc.1, c) ((mem_valuesAt_iff _ _ _).mp hc)
    cases hen : c.entries with
    | nil => exact absurd hen hce
    | cons en ens => simp [Iter.peek, hr, hen]

/-! ## table translator -/

/-- the entry `collect_entries` puts on the edge `[s, e)`: the first key (longest first) that ends at `e` with its
delimiters and has words; the head of the iterator as `LookupWords` left it -/
def edgeWord (t : Table) (syl : List Bytes) (delims input : Bytes) (cps : Nat → List PrismKey) (s e : Nat) : Option (Chunk × Entry Dy) :=
  ((cps s).reverse.filterMap fun m =>
    if m.length == 0 then none
    else if s + consumeDelims delims (input.drop s) m.length == e then Iter.peek { done := [], rest := lookupWords t syl m.length [m] }
    else none).head?

def tablePoetGraphW {W : Type} (pk : Chunk × Entry Dy → PEntry W) (t : Table) (syl : List Bytes) (delims input : Bytes)
    (cps : Nat → List PrismKey) : PGraph W :=
  (sortDedup natLt ((wordGraph t syl delims input cps).edges.map (·.1))).map fun s =>
    (s, (sortDedup natLt (((wordGraph t syl delims input cps).edges.filter (fun e => e.1 == s)).map (·.2))).filterMap fun e =>
      (edgeWord t syl delims input cps s e).map fun ce => (e, [pk ce]))

def tablePoetGraph (t : Table) (syl : List Bytes) (delims input : Bytes) (cps : Nat → List PrismKey) : PGraph Dy :=
  tablePoetGraphW peekEntry t syl delims input cps

/-- `TableTranslator::MakeSentence`'s sentence (then `Offset(start)`) -/
def tableSentence (t : Table) (syl : List Bytes) (delims input : Bytes) (cps : Nat → List PrismKey) (start : Nat) : Option Cand :=
  (makeSentence dyOps (leftAssociateCompare dyOps) (tablePoetGraph t syl delims input cps) input.length).map (sentenceCand start)

/-- `tableQuery` with the sentence computed by the port of the poet instead of being given -/
def tableQueryP (t : Table) (syl : List Bytes) (delims input : Bytes) (start : Nat) (completion enableSentence : Bool)
    (exactKey : Option PrismKey) (expansion : List PrismKey) (cps : Nat → List PrismKey) : List Cand :=
  tableQuery t syl delims input start completion enableSentence exactKey expansion cps (tableSentence t syl delims input cps start)

/-- `TableTranslator::Query` with `sentence_over_completion` too (table_translator.cc:297-304): when the plain translation
is not replaced by the sentence translation and begins with a completion, `MakeSentence(input, start)` — without the prefix
phrases, so the sentence alone — is put in front of it -/
def tableQueryS (t : Table) (syl : List Bytes) (delims input : Bytes) (start : Nat) (completion enableSentence soc : Bool)
    (exactKey : Option PrismKey) (expansion : List PrismKey) (cps : Nat → List PrismKey) (sentence : Option Cand) : List Cand :=
  let plain := tableTranslation t syl delims input start completion exactKey expansion
  if plain.isEmpty && enableSentence then
    sentenceTranslation (wordGraph t syl delims input cps) start input.length sentence
  else if soc && (match plain.head? with | some c => c.type == "completion" | none => false) then
    sentence.toList ++ plain
  else plain

/-- without `sentence_over_completion` it is `tableQuery` -/
theorem tableQueryS_false (t : Table) (syl : List Bytes) (delims input : Bytes) (start : Nat) (completion enableSentence : Bool)
    (exactKey : Option PrismKey) (expansion : List PrismKey) (cps : Nat → List PrismKey) (sentence : Option Cand) :
    tableQueryS t syl delims input start completion enableSentence false exactKey expansion cps sentence
      = tableQuery t syl delims input start completion enableSentence exactKey expansion cps sentence := by
  unfold tableQueryS tableQuery
  cases h1 : (tableTranslation t syl delims input start completion exactKey expansion).isEmpty <;> cases enableSentence <;> simp [h1]

theorem edgeWord_some (t : Table) (syl : List Bytes) (delims input : Bytes) (cps : Nat → List PrismKey) (s e : Nat)
    (ce : Chunk × Entry Dy) (h : edgeWord t syl delims input cps s e = some ce) :
    ∃ m ∈ cps s, m.length ≠ 0 ∧ e = s + consumeDelims delims (input.drop s) m.length ∧
      ce.1 ∈ lookupWords t syl m.length [m] ∧ ce.2 ∈ ce.1.entries := by
  unfold edgeWord at h
  have hm := List.mem_of_mem_head? h
  simp only [List.mem_filterMap, List.mem_reverse] at hm
  obtain ⟨m, hm1, hm2⟩ := hm
  split at hm2
  · simp at hm2
  · rename_i h0
    split at hm2
    · rename_i he
      have he' : s + consumeDelims delims (input.drop s) m.length = e := by simpa using he
      refine ⟨m, hm1, by simpa using h0, he'.symm, ?_⟩
      unfold Iter.peek at hm2
      split at hm2
      · simp at hm2
      · rename_i c rest hr
        split at hm2
        · simp at hm2
        · rename_i en ens hen
          simp only [Option.some.injEq] at hm2
          subst hm2
          simp only at hr
          exact ⟨by rw [hr]; simp, by simp [hen]⟩
    · simp at hm2

theorem tablePoetGraph_edge (t : Table) (syl : List Bytes) (delims input : Bytes) (cps : Nat → List PrismKey) (s e : Nat)
    (x : PEntry Dy) (h : EdgeHas (tablePoetGraph t syl delims input cps) s e x) :
    (s, e) ∈ (wordGraph t syl delims input cps).edges ∧ ∃ ce, edgeWord t syl delims input cps s e = some ce ∧ x = peekEntry ce := by
  obtain ⟨evs, es, h1, h2, h3⟩ := h
  simp only [tablePoetGraph, tablePoetGraphW, List.mem_map] at h1
  obtain ⟨s', _, hs'⟩ := h1
  simp only [Prod.mk.injEq] at hs'
  obtain ⟨rfl, rfl⟩ := hs'
  simp only [List.mem_filterMap, Option.map_eq_some_iff] at h2
  obtain ⟨e', he', ce, hce, hpair⟩ := h2
  simp only [Prod.mk.injEq] at hpair
  obtain ⟨rfl, rfl⟩ := hpair
  rw [mem_sortDedup natLt_strict] at he'
  simp only [List.mem_map, List.mem_filter] at he'
  obtain ⟨p, ⟨hp1, hp2⟩, rfl⟩ := he'
  have : p.1 = s' := by simpa using hp2
  subst this
  simp only [List.mem_singleton] at h3
  exact ⟨hp1, ce, hce, h3⟩

theorem tablePoetGraph_noEmptyEdge (t : Table) (syl : List Bytes) (delims input : Bytes) (cps : Nat → List PrismKey) :
    NoEmptyEdge (tablePoetGraph t syl delims input cps) := by
  intro sv hsv ev hev
  simp only [tablePoetGraph, tablePoetGraphW, List.mem_map] at hsv
  obtain ⟨s, _, rfl⟩ := hsv
  simp only [List.mem_filterMap, Option.map_eq_some_iff] at hev
  obtain ⟨e, _, ce, _, rfl⟩ := hev
  simp

theorem tablePoetGraph_sorted (t : Table) (syl : List Bytes) (delims input : Bytes) (cps : Nat → List PrismKey) :
    (tablePoetGraph t syl delims input cps).Sorted := by
  unfold PGraph.Sorted tablePoetGraph tablePoetGraphW
  rw [List.pairwise_map]
  have := ascending_sortDedup natLt_strict ((wordGraph t syl delims input cps).edges.map (·.1))
  unfold Ascending at this
  exact List.Pairwise.imp (fun h => by simpa [natLt] using h) this

/-- a word of a table-style sentence: `[s, e)` is an edge of the word graph, i.e. a key `m` the prism finds at `s`
followed by exactly the delimiters that come after it, and `txt` is the text of a word entry stored for that key -/
def TableWord (t : Table) (syl : List Bytes) (delims input : Bytes) (cps : Nat → List PrismKey) (s e : Nat) (txt : Bytes) : Prop :=
  (s, e) ∈ (wordGraph t syl delims input cps).edges ∧
  ∃ m ∈ cps s, m.length ≠ 0 ∧ e = s + consumeDelims delims (input.drop s) m.length ∧
    ∃ ch ∈ lookupWords t syl m.length [m], ∃ en ∈ ch.entries, en.text = txt

/-- a word of a script-style sentence: an entry of a chunk the dictionary's lookup from `s` files under `e`; its code is
spelled by the syllable graph from `s` to `e` -/
def ScriptWord (t : Table) (g : Graph) (s e : Nat) (txt : Bytes) : Prop :=
  ∃ ch en, (e, ch) ∈ lookupTable t g s false Dy.zero ∧ en ∈ ch.entries ∧ en.text = txt ∧ Spells g ch.code s e

end RimeModel.C07
