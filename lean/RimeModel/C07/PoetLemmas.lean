import RimeModel.C07.Poet
/-! C07: the sentence maker — helper lemmas (free to change) -/
namespace RimeModel.C07
open RimeModel.C06

variable {W : Type}

/-! ## the `states` map -/

theorem stFind_stSet (st : States W) (p q : Nat) (l : Line W) :
    stFind (stSet st p l) q = if q = p then some l else stFind st q := by
  induction st with
  | nil =>
    by_cases h : q = p
    · subst h; simp [stSet, stFind]
    · have : (p == q) = false := by simpa using fun e => h e.symm
      simp [stSet, stFind, h, this]
  | cons kv rest ih =>
    unfold stSet
    by_cases hk : kv.1 = p
    · subst hk
      by_cases h : q = kv.1
      · subst h; simp [stFind]
      · have : (kv.1 == q) = false := by simpa using fun e => h e.symm
        simp [stFind, h, this]
    · have hk' : (kv.1 == p) = false := by simpa using hk
      simp only [hk', Bool.false_eq_true, if_false]
      by_cases h : q = p
      · subst h
        have : stFind (kv :: stSet rest q l) q = stFind (stSet rest q l) q := by
          simp [stFind, hk']
        rw [this, ih]; simp
      · by_cases hq : kv.1 = q
        · have hq' : (kv.1 == q) = true := by simpa using hq
          simp [stFind, hq', h]
        · have hq' : (kv.1 == q) = false := by simpa using hq
          have e1 : stFind (kv :: stSet rest p l) q = stFind (stSet rest p l) q := by
            simp [stFind, hq']
          have e2 : stFind (kv :: rest) q = stFind rest q := by
            simp [stFind, hq']
          rw [e1, e2, ih]

theorem stFind_stSet_self (st : States W) (p : Nat) (l : Line W) : stFind (stSet st p l) p = some l := by
  rw [stFind_stSet]; simp

theorem stFind_stSet_ne (st : States W) (p q : Nat) (l : Line W) (h : q ≠ p) : stFind (stSet st p l) q = stFind st q := by
  rw [stFind_stSet]; simp [h]

/-! ## lines -/

theorem lineWeight_extend (ops : WOps W) (cand : Line W) (x : PEntry W) (e : Nat) :
    lineWeight ops (extendLine ops cand x e) = ops.add (lineWeight ops cand) (evaluate ops x.weight) := rfl

theorem lineEnd_extend (ops : WOps W) (cand : Line W) (x : PEntry W) (e : Nat) :
    lineEnd (extendLine ops cand x e) = e := rfl

theorem extend_ne_nil (ops : WOps W) (cand : Line W) (x : PEntry W) (e : Nat) : extendLine ops cand x e ≠ [] := by
  simp [extendLine]

/-- the result of the loop over the entries of one edge -/
theorem relax_fold_cases (ops : WOps W) (cmp : Line W → Line W → Bool) (cand : Line W) (e : Nat) :
    ∀ (es : List (PEntry W)) (target : Line W),
      (es.foldl (relax ops cmp cand e) target = target ∨ ∃ x ∈ es, es.foldl (relax ops cmp cand e) target = extendLine ops cand x e) ∧
      (es ≠ [] → es.foldl (relax ops cmp cand e) target ≠ []) ∧
      (target ≠ [] → es.foldl (relax ops cmp cand e) target ≠ [])
  | [], target => by simp
  | x :: es, target => by
    simp only [List.foldl_cons]
    have ih := relax_fold_cases ops cmp cand e es (relax ops cmp cand e target x)
    have hne : relax ops cmp cand e target x ≠ [] ∨ (target = [] ∧ False) ∨ True := Or.inr (Or.inr trivial)
    have hr : relax ops cmp cand e target x = target ∧ target ≠ [] ∨ relax ops cmp cand e target x = extendLine ops cand x e := by
      unfold relax
      cases target with
      | nil => right; simp
      | cons c cs =>
        by_cases hc : cmp (c :: cs) (extendLine ops cand x e) = true
        · right; simp [hc]
        · left; simp [hc]
    have hrne : relax ops cmp cand e target x ≠ [] := by
      rcases hr with ⟨h1, h2⟩ | h
      · rw [h1]; exact h2
      · rw [h]; exact extend_ne_nil ops cand x e
    refine ⟨?_, fun _ => ih.2.2 hrne, fun _ => ih.2.2 hrne⟩
    rcases ih.1 with h | ⟨y, hy, h⟩
    · rcases hr with ⟨h1, _⟩ | h2
      · left; rw [h, h1]
      · right; exact ⟨x, by simp, by rw [h, h2]⟩
    · right; exact ⟨y, by simp [hy], h⟩

/-! ## a property of every slot is kept by the loop -/

section slot
variable (ops : WOps W) (cmp : Line W → Line W → Bool) (g : PGraph W) (total : Nat) (P : Nat → Line W → Prop)

/-- what a slot property must satisfy to be an invariant of the loop -/
structure SlotInv : Prop where
  /-- a line built on a line with the property has it -/
  ext : ∀ s evs, (s, evs) ∈ g → ∀ cand, P s cand → ∀ e es, (e, es) ∈ evs → ¬ (s = 0 ∧ e = total) → ∀ x ∈ es,
    P e (extendLine ops cand x e)
  /-- the empty line a slot is created with when the edge has no entries -/
  empty : ∀ s evs, (s, evs) ∈ g → ∀ cand, P s cand → ∀ e, (e, []) ∈ evs → ¬ (s = 0 ∧ e = total) → P e []

def AllSlots (st : States W) : Prop := ∀ p l, stFind st p = some l → P p l

theorem processEdge_allSlots (h : SlotInv ops g total P) (s : Nat) (evs : List (Nat × List (PEntry W))) (hs : (s, evs) ∈ g)
    (cand : Line W) (hc : P s cand) (st : States W) (hst : AllSlots P st) (ev : Nat × List (PEntry W)) (hev : ev ∈ evs) :
    AllSlots P (processEdge ops cmp total s cand st ev) := by
  unfold processEdge
  split
  · exact hst
  · rename_i hx
    have hx' : ¬ (s = 0 ∧ ev.1 = total) := by
      intro ⟨a, b⟩; apply hx; simp [a, b]
    intro p l hp
    rw [stFind_stSet] at hp
    split at hp
    · rename_i hpe
      subst hpe
      have hl := Option.some.inj hp
      have cases := relax_fold_cases ops cmp cand ev.1 ev.2 ((stFind st ev.1).getD [])
      rw [hl] at cases
      rcases cases.1 with h1 | ⟨x, hx1, h1⟩
      · cases hf : stFind st ev.1 with
        | some t =>
          rw [hf] at h1; simp only [Option.getD_some] at h1
          rw [h1]; exact hst _ _ hf
        | none =>
          rw [hf] at h1; simp only [Option.getD_none] at h1
          have hes : ev.2 = [] := by
            by_cases hes : ev.2 = []
            · exact hes
            · exact absurd h1 (cases.2.1 hes)
          rw [h1]
          exact h.empty s evs hs cand hc ev.1 (by rw [← hes]; exact hev) hx'
      · rw [h1]; exact h.ext s evs hs cand hc ev.1 ev.2 hev hx' x hx1
    · exact hst _ _ hp

theorem foldl_processEdge_allSlots (h : SlotInv ops g total P) (s : Nat) (evs : List (Nat × List (PEntry W))) (hs : (s, evs) ∈ g)
    (cand : Line W) (hc : P s cand) : ∀ (l : List (Nat × List (PEntry W))) (st : States W), (∀ ev ∈ l, ev ∈ evs) → AllSlots P st →
    AllSlots P (l.foldl (processEdge ops cmp total s cand) st)
  | [], _, _, hst => hst
  | ev :: l, st, hl, hst => by
    simp only [List.foldl_cons]
    exact foldl_processEdge_allSlots h s evs hs cand hc l _ (fun x hx => hl x (by simp [hx]))
      (processEdge_allSlots ops cmp g total P h s evs hs cand hc st hst ev (hl ev (by simp)))

theorem processStart_allSlots (h : SlotInv ops g total P) (sv : Nat × List (Nat × List (PEntry W))) (hs : sv ∈ g)
    (st : States W) (hst : AllSlots P st) : AllSlots P (processStart ops cmp total st sv) := by
  unfold processStart
  split
  · exact hst
  · rename_i cand hf
    exact foldl_processEdge_allSlots ops cmp g total P h sv.1 sv.2 hs cand (hst _ _ hf) sv.2 st (fun _ h => h) hst

theorem foldl_processStart_allSlots (h : SlotInv ops g total P) : ∀ (l : PGraph W) (st : States W), (∀ sv ∈ l, sv ∈ g) →
    AllSlots P st → AllSlots P (l.foldl (processStart ops cmp total) st)
  | [], _, _, hst => hst
  | sv :: l, st, hl, hst => by
    simp only [List.foldl_cons]
    exact foldl_processStart_allSlots h l _ (fun x hx => hl x (by simp [hx]))
      (processStart_allSlots ops cmp g total P h sv (hl sv (by simp)) st hst)

theorem poetStates_allSlots (h : SlotInv ops g total P) (h0 : P 0 []) : AllSlots P (poetStates ops cmp g total) := by
  unfold poetStates
  refine foldl_processStart_allSlots ops cmp g total P h g _ (fun _ h => h) ?_
  intro p l hp
  simp only [stFind, List.find?_cons] at hp
  split at hp
  · rename_i hh
    simp only [Option.map_some, Option.some.injEq] at hp
    have : p = 0 := by
      have h0 : 0 = p := by simpa using hh
      exact h0.symm
    rw [this, ← hp]; exact h0
  · simp at hp

end slot

/-! ## paths, written last word first (as the lines are) -/

/-- `RPath ops g total o l p`: the line `l` (last word first) is a chain of edges of `g` from `o` to `p`, with the
running weights of the code -/
def RPath (ops : WOps W) (g : PGraph W) (total o : Nat) : Line W → Nat → Prop
  | [], p => p = o
  | c :: cs, p => c.endPos = p ∧ c.weight = ops.add (lineWeight ops cs) (evaluate ops c.entry.weight) ∧
      ∃ s, RPath ops g total o cs s ∧ EdgeHas g s p c.entry ∧ ¬ (s = 0 ∧ p = total)

theorem pathEnd_append (p : Nat) (as bs : List (Comp W)) : pathEnd p (as ++ bs) = pathEnd (pathEnd p as) bs := by
  induction as generalizing p with
  | nil => rfl
  | cons a as ih => simp [pathEnd, ih]

/-- last word first → first word first -/
theorem rpath_isPath (ops : WOps W) (g : PGraph W) (total o : Nat) : ∀ (l : Line W) (p : Nat), RPath ops g total o l p →
    ∀ tail, IsPath ops g total (lineWeight ops l) p tail →
      IsPath ops g total ops.zero o (l.reverse ++ tail) ∧ pathEnd o (l.reverse ++ tail) = pathEnd p tail
  | [], p, h, tail, ht => by
    simp only [RPath] at h
    subst h
    exact ⟨ht, rfl⟩
  | c :: cs, p, h, tail, ht => by
    obtain ⟨h1, h2, s, h3, h4, h5⟩ := h
    have := rpath_isPath ops g total o cs s h3 (c :: tail) (by
      refine ⟨by rw [h1]; exact h4, by rw [h1]; exact h5, h2, ?_⟩
      rw [h1]; exact ht)
    simp only [List.reverse_cons, List.append_assoc, List.singleton_append]
    refine ⟨this.1, ?_⟩
    rw [this.2]; simp [pathEnd, h1]

/-- first word first → last word first -/
theorem isPath_rpath (ops : WOps W) (g : PGraph W) (total o : Nat) : ∀ (cs : List (Comp W)) (acc : Line W) (p : Nat) (w : W),
    RPath ops g total o acc p → lineWeight ops acc = w → IsPath ops g total w p cs →
    RPath ops g total o (cs.reverse ++ acc) (pathEnd p cs)
  | [], acc, p, _, h, _, _ => by simpa [pathEnd] using h
  | c :: cs, acc, p, w, h, hw, hp => by
    obtain ⟨h1, h2, h3, h4⟩ := hp
    have hacc : RPath ops g total o (c :: acc) c.endPos := ⟨rfl, by rw [hw]; exact h3, p, h, h1, h2⟩
    have := isPath_rpath ops g total o cs (c :: acc) c.endPos c.weight hacc rfl h4
    simpa [pathEnd] using this

theorem rpath_end (ops : WOps W) (g : PGraph W) (total o : Nat) (l : Line W) (p : Nat) (h : RPath ops g total o l p)
    (hne : l ≠ []) : lineEnd l = p := by
  cases l with
  | nil => exact absurd rfl hne
  | cons c cs => exact h.1

theorem edgeHas_mono {g g' : PGraph W} (h : ∀ sv ∈ g, sv ∈ g') {s e : Nat} {x : PEntry W} (he : EdgeHas g s e x) : EdgeHas g' s e x := by
  obtain ⟨evs, es, a, b, c⟩ := he
  exact ⟨evs, es, h _ a, b, c⟩

theorem rpath_mono (ops : WOps W) {g g' : PGraph W} (total o : Nat) (h : ∀ sv ∈ g, sv ∈ g') :
    ∀ (l : Line W) (p : Nat), RPath ops g total o l p → RPath ops g' total o l p
  | [], _, hp => hp
  | c :: cs, p, hp => by
    obtain ⟨h1, h2, s, h3, h4, h5⟩ := hp
    exact ⟨h1, h2, s, rpath_mono ops total o h cs s h3, edgeHas_mono h h4, h5⟩

/-! ## soundness: every slot holds a chain of edges from an origin -/

theorem slotInv_rpath (ops : WOps W) (g : PGraph W) (total : Nat) :
    SlotInv ops g total (fun p l => ∃ o, Origin g o ∧ RPath ops g total o l p) where
  ext := by
    intro s evs hs cand ⟨o, ho, hc⟩ e es hev hx x hxs
    exact ⟨o, ho, rfl, rfl, s, hc, ⟨evs, es, hs, hev, hxs⟩, hx⟩
  empty := by
    intro s evs hs cand _ e hev _
    exact ⟨e, Or.inr ⟨s, evs, hs, hev⟩, rfl⟩

theorem slotInv_end (ops : WOps W) (g : PGraph W) (total : Nat) :
    SlotInv ops g total (fun p l => l ≠ [] → lineEnd l = p) where
  ext := by intros; rfl
  empty := by intro _ _ _ _ _ _ _ _ h; exact absurd rfl h

theorem slotInv_visited (ops : WOps W) (g : PGraph W) (total : Nat) :
    SlotInv ops g total (fun p l => Visited g total p ∧ (l ≠ [] → Live g total p)) where
  ext := by
    intro s evs hs cand ⟨hv, _⟩ e es hev hx x hxs
    refine ⟨Visited.step hv hs hev hx, fun _ => ⟨s, evs, es, hv, hs, hev, hx, ?_⟩⟩
    intro h; rw [h] at hxs; simp at hxs
  empty := by
    intro s evs hs cand ⟨hv, _⟩ e hev hx
    exact ⟨Visited.step hv hs hev hx, fun h => absurd rfl h⟩

theorem poetLine_some (ops : WOps W) (cmp : Line W → Line W → Bool) (g : PGraph W) (total : Nat) (l : Line W) :
    poetLine ops cmp g total = some l ↔ stFind (poetStates ops cmp g total) total = some l ∧ l ≠ [] := by
  unfold poetLine
  cases h : stFind (poetStates ops cmp g total) total with
  | none => simp
  | some t =>
    cases t with
    | nil => simp
    | cons c cs =>
      simp only [List.isEmpty_cons, Bool.false_eq_true, if_false, Option.some.injEq]
      constructor
      · intro h; exact ⟨h, by rw [← h]; simp⟩
      · intro h; exact h.1

theorem poetLine_none (ops : WOps W) (cmp : Line W → Line W → Bool) (g : PGraph W) (total : Nat) :
    poetLine ops cmp g total = none ↔ ∀ l, stFind (poetStates ops cmp g total) total = some l → l = [] := by
  unfold poetLine
  cases h : stFind (poetStates ops cmp g total) total with
  | none => simp
  | some t =>
    cases t with
    | nil => simp
    | cons c cs => simp

/-! ## a slot only gets better; an edge from a position with a state leaves its mark -/

/-- what the comparison function must be like for a relation `R` ("is at least as good as") to be maintained -/
structure PoetOrder (ops : WOps W) (cmp : Line W → Line W → Bool) (R : Line W → Line W → Prop) : Prop where
  refl : ∀ l, R l l
  trans : ∀ a b c, R a b → R b c → R a c
  yes : ∀ a b, cmp a b = true → R b a
  no : ∀ a b, cmp a b = false → R a b
  ext : ∀ a b x e, lineEnd a = lineEnd b → R a b → R (extendLine ops a x e) (extendLine ops b x e)

theorem poetOrder_true (ops : WOps W) (cmp : Line W → Line W → Bool) : PoetOrder ops cmp (fun _ _ => True) :=
  ⟨fun _ => trivial, fun _ _ _ _ _ => trivial, fun _ _ _ => trivial, fun _ _ _ => trivial, fun _ _ _ _ _ _ => trivial⟩

def Improves (R : Line W → Line W → Prop) (l' l : Line W) : Prop := l ≠ [] → l' ≠ [] ∧ R l' l

section order
variable {ops : WOps W} {cmp : Line W → Line W → Bool} {R : Line W → Line W → Prop} (hR : PoetOrder ops cmp R)
include hR

theorem improves_refl (l : Line W) : Improves R l l := fun h => ⟨h, hR.refl l⟩

theorem improves_trans {a b c : Line W} (h1 : Improves R a b) (h2 : Improves R b c) : Improves R a c := by
  intro hc
  obtain ⟨hb, hbc⟩ := h2 hc
  obtain ⟨ha, hab⟩ := h1 hb
  exact ⟨ha, hR.trans _ _ _ hab hbc⟩

theorem relax_fold_R (cand : Line W) (e : Nat) : ∀ (es : List (PEntry W)) (target : Line W),
    (target ≠ [] → R (es.foldl (relax ops cmp cand e) target) target) ∧
    ∀ x ∈ es, R (es.foldl (relax ops cmp cand e) target) (extendLine ops cand x e)
  | [], target => ⟨fun _ => hR.refl _, by simp⟩
  | x :: es, target => by
    simp only [List.foldl_cons]
    have ih := relax_fold_R cand e es (relax ops cmp cand e target x)
    have facts : relax ops cmp cand e target x ≠ [] ∧ (target ≠ [] → R (relax ops cmp cand e target x) target) ∧
        R (relax ops cmp cand e target x) (extendLine ops cand x e) := by
      unfold relax
      cases target with
      | nil => simp only [List.isEmpty_nil, Bool.true_or, if_true]; exact ⟨extend_ne_nil _ _ _ _, fun h => absurd rfl h, hR.refl _⟩
      | cons c cs =>
        by_cases hc : cmp (c :: cs) (extendLine ops cand x e) = true
        · simp only [hc, Bool.or_true, if_true]
          exact ⟨extend_ne_nil _ _ _ _, fun _ => hR.yes _ _ hc, hR.refl _⟩
        · have hc' : cmp (c :: cs) (extendLine ops cand x e) = false := by simpa using hc
          simp only [hc', List.isEmpty_cons, Bool.or_self, Bool.false_eq_true, if_false]
          exact ⟨by simp, fun _ => hR.refl _, hR.no _ _ hc'⟩
    have h1 := ih.1 facts.1
    refine ⟨fun ht => hR.trans _ _ _ h1 (facts.2.1 ht), ?_⟩
    intro y hy
    rcases List.mem_cons.mp hy with rfl | hy
    · exact hR.trans _ _ _ h1 facts.2.2
    · exact ih.2 y hy

theorem processEdge_mono (total s : Nat) (cand : Line W) (st : States W) (ev : Nat × List (PEntry W)) (p : Nat) (l : Line W)
    (h : stFind st p = some l) : ∃ l', stFind (processEdge ops cmp total s cand st ev) p = some l' ∧ Improves R l' l := by
  unfold processEdge
  split
  · exact ⟨l, h, improves_refl hR l⟩
  · by_cases hp : p = ev.1
    · subst hp
      refine ⟨_, stFind_stSet_self _ _ _, ?_⟩
      rw [h]; simp only [Option.getD_some]
      intro hl
      exact ⟨(relax_fold_cases ops cmp cand ev.1 ev.2 l).2.2 hl, (relax_fold_R hR cand ev.1 ev.2 l).1 hl⟩
    · exact ⟨l, by rw [stFind_stSet_ne _ _ _ _ hp]; exact h, improves_refl hR l⟩

theorem foldl_processEdge_mono (total s : Nat) (cand : Line W) : ∀ (evs : List (Nat × List (PEntry W))) (st : States W) (p : Nat) (l : Line W),
    stFind st p = some l → ∃ l', stFind (evs.foldl (processEdge ops cmp total s cand) st) p = some l' ∧ Improves R l' l
  | [], _, _, l, h => ⟨l, h, improves_refl hR l⟩
  | ev :: evs, st, p, l, h => by
    simp only [List.foldl_cons]
    obtain ⟨l1, h1, i1⟩ := processEdge_mono hR total s cand st ev p l h
    obtain ⟨l2, h2, i2⟩ := foldl_processEdge_mono total s cand evs _ p l1 h1
    exact ⟨l2, h2, improves_trans hR i2 i1⟩

theorem processStart_mono (total : Nat) (st : States W) (sv : Nat × List (Nat × List (PEntry W))) (p : Nat) (l : Line W)
    (h : stFind st p = some l) : ∃ l', stFind (processStart ops cmp total st sv) p = some l' ∧ Improves R l' l := by
  unfold processStart
  split
  · exact ⟨l, h, improves_refl hR l⟩
  · exact foldl_processEdge_mono hR total sv.1 _ sv.2 st p l h

theorem foldl_processStart_mono (total : Nat) : ∀ (gs : PGraph W) (st : States W) (p : Nat) (l : Line W),
    stFind st p = some l → ∃ l', stFind (gs.foldl (processStart ops cmp total) st) p = some l' ∧ Improves R l' l
  | [], _, _, l, h => ⟨l, h, improves_refl hR l⟩
  | sv :: gs, st, p, l, h => by
    simp only [List.foldl_cons]
    obtain ⟨l1, h1, i1⟩ := processStart_mono hR total st sv p l h
    obtain ⟨l2, h2, i2⟩ := foldl_processStart_mono total gs _ p l1 h1
    exact ⟨l2, h2, improves_trans hR i2 i1⟩

/-- an edge that is not skipped: its end has a slot afterwards, non-empty if the edge has entries, at least as good
as every line the edge offers -/
def Hit (ops : WOps W) (R : Line W → Line W → Prop) (cand : Line W) (st : States W) (ev : Nat × List (PEntry W)) : Prop :=
  ∃ l', stFind st ev.1 = some l' ∧ (ev.2 ≠ [] → l' ≠ []) ∧ ∀ x ∈ ev.2, R l' (extendLine ops cand x ev.1)

theorem hit_mono {cand : Line W} {st st' : States W} {ev : Nat × List (PEntry W)} (h : Hit ops R cand st ev)
    (hm : ∀ p l, stFind st p = some l → ∃ l', stFind st' p = some l' ∧ Improves R l' l) : Hit ops R cand st' ev := by
  obtain ⟨l1, h1, hne, hx⟩ := h
  obtain ⟨l2, h2, i2⟩ := hm _ _ h1
  refine ⟨l2, h2, fun he => (i2 (hne he)).1, fun x hxs => ?_⟩
  have hne2 : ev.2 ≠ [] := by intro h; rw [h] at hxs; simp at hxs
  exact hR.trans _ _ _ (i2 (hne hne2)).2 (hx x hxs)

theorem processEdge_hit (total s : Nat) (cand : Line W) (st : States W) (ev : Nat × List (PEntry W))
    (hx : ¬ (s = 0 ∧ ev.1 = total)) : Hit ops R cand (processEdge ops cmp total s cand st ev) ev := by
  unfold processEdge
  have : (s == 0 && ev.1 == total) = false := by
    cases h : (s == 0 && ev.1 == total) with
    | false => rfl
    | true => simp at h; exact absurd h hx
  simp only [this, Bool.false_eq_true, if_false]
  exact ⟨_, stFind_stSet_self _ _ _, (relax_fold_cases ops cmp cand ev.1 ev.2 _).2.1, (relax_fold_R hR cand ev.1 ev.2 _).2⟩

theorem foldl_processEdge_hit (total s : Nat) (cand : Line W) (ev : Nat × List (PEntry W)) (hx : ¬ (s = 0 ∧ ev.1 = total)) :
    ∀ (evs : List (Nat × List (PEntry W))) (st : States W), ev ∈ evs →
      Hit ops R cand (evs.foldl (processEdge ops cmp total s cand) st) ev
  | [], _, h => by simp at h
  | ev' :: evs, st, h => by
    simp only [List.foldl_cons]
    rcases List.mem_cons.mp h with rfl | h
    · exact hit_mono hR (processEdge_hit hR total s cand st ev hx) (fun p l hp => foldl_processEdge_mono hR total s cand evs _ p l hp)
    · exact foldl_processEdge_hit total s cand ev hx evs _ h

theorem processStart_hit (total : Nat) (st : States W) (sv : Nat × List (Nat × List (PEntry W))) (cand : Line W)
    (hc : stFind st sv.1 = some cand) (ev : Nat × List (PEntry W)) (hev : ev ∈ sv.2) (hx : ¬ (sv.1 = 0 ∧ ev.1 = total)) :
    Hit ops R cand (processStart ops cmp total st sv) ev := by
  unfold processStart
  rw [hc]
  exact foldl_processEdge_hit hR total sv.1 cand ev hx sv.2 st hev

end order

/-- a slot no edge of this start position ends at is not touched -/
theorem processStart_untouched (ops : WOps W) (cmp : Line W → Line W → Bool) (total : Nat) (sv : Nat × List (Nat × List (PEntry W)))
    (q : Nat) (hq : ∀ ev ∈ sv.2, ev.1 ≠ q) (st : States W) : stFind (processStart ops cmp total st sv) q = stFind st q := by
  unfold processStart
  split
  · rfl
  · rename_i cand _
    have : ∀ (evs : List (Nat × List (PEntry W))) (st : States W), (∀ ev ∈ evs, ev.1 ≠ q) →
        stFind (evs.foldl (processEdge ops cmp total sv.1 cand) st) q = stFind st q := by
      intro evs
      induction evs with
      | nil => intros; rfl
      | cons ev evs ih =>
        intro st h
        simp only [List.foldl_cons]
        rw [ih _ (fun x hx => h x (by simp [hx]))]
        unfold processEdge
        split
        · rfl
        · exact stFind_stSet_ne _ _ _ _ (fun e => h ev (by simp) e.symm)
    exact this sv.2 st hq

/-! ## the order of the loop: positions are final when they are read -/

/-- in a sorted graph split as `pre ++ sv :: post`, a start position smaller than `sv`'s lies in `pre` -/
theorem mem_pre_of_lt (pre post : PGraph W) (sv : Nat × List (Nat × List (PEntry W))) (hs : PGraph.Sorted (pre ++ sv :: post))
    (x : Nat × List (Nat × List (PEntry W))) (hx : x ∈ pre ++ sv :: post) (hlt : x.1 < sv.1) : x ∈ pre := by
  rcases List.mem_append.mp hx with h | h
  · exact h
  · exfalso
    have hp := (List.pairwise_append.mp hs).2.1
    rcases List.mem_cons.mp h with rfl | h
    · omega
    · have := (List.pairwise_cons.mp hp).1 x h
      omega

theorem pre_lt (pre post : PGraph W) (sv : Nat × List (Nat × List (PEntry W))) (hs : PGraph.Sorted (pre ++ sv :: post))
    (x : Nat × List (Nat × List (PEntry W))) (hx : x ∈ pre) : x.1 < sv.1 :=
  (List.pairwise_append.mp hs).2.2 x hx sv (by simp)

section complete
variable (ops : WOps W) (cmp : Line W → Line W → Bool) (g : PGraph W) (total : Nat)

/-- after the start positions of `pre`: every edge of `pre` from a visited position has left its mark -/
def CInv (pre : PGraph W) (st : States W) : Prop :=
  stFind st 0 = some [] ∧
  ∀ sv ∈ pre, ∀ ev ∈ sv.2, Visited g total sv.1 → ¬ (sv.1 = 0 ∧ ev.1 = total) →
    ∃ l, stFind st ev.1 = some l ∧ (ev.2 ≠ [] → l ≠ [])

theorem cinv_fold (hs : g.Sorted) (hf : g.Forward) : ∀ (post pre : PGraph W) (st : States W), g = pre ++ post →
    CInv g total pre st → CInv g total g (post.foldl (processStart ops cmp total) st)
  | [], pre, st, hg, h => by
    simp only [List.append_nil] at hg
    simpa [← hg] using h
  | sv :: post, pre, st, hg, h => by
    simp only [List.foldl_cons]
    refine cinv_fold hs hf post (pre ++ [sv]) _ (by simp [hg]) ?_
    have hsv : sv ∈ g := by rw [hg]; simp
    have hTrue := poetOrder_true ops cmp
    refine ⟨?_, ?_⟩
    · rw [processStart_untouched ops cmp total sv 0 (fun ev hev => by have := hf sv hsv ev hev; omega)]
      exact h.1
    · intro sv' hsv' ev hev hv hx
      rcases List.mem_append.mp hsv' with hin | hin
      · obtain ⟨l, hl, hne⟩ := h.2 sv' hin ev hev hv hx
        obtain ⟨l', hl', hi⟩ := processStart_mono hTrue total st sv ev.1 l hl
        exact ⟨l', hl', fun he => (hi (hne he)).1⟩
      · have : sv' = sv := by simpa using hin
        subst this
        -- the start position has a state
        have hcand : ∃ cand, stFind st sv'.1 = some cand := by
          generalize hq : sv'.1 = q at hv
          cases hv with
          | zero => exact ⟨[], h.1⟩
          | @step s' e evs' es' hv' hs' he' hx' =>
            have hlt : s' < sv'.1 := by rw [hq]; exact hf (s', evs') hs' (q, es') he'
            have hpre : (s', evs') ∈ pre := mem_pre_of_lt pre post sv' (hg ▸ hs) (s', evs') (hg ▸ hs') hlt
            obtain ⟨l, hl, _⟩ := h.2 (s', evs') hpre (q, es') he' hv' hx'
            exact ⟨l, hl⟩
        obtain ⟨cand, hc⟩ := hcand
        obtain ⟨l', hl', hne, _⟩ := processStart_hit hTrue total st sv' cand hc ev hev hx
        exact ⟨l', hl', hne⟩

theorem cinv_final (hs : g.Sorted) (hf : g.Forward) : CInv g total g (poetStates ops cmp g total) := by
  unfold poetStates
  refine cinv_fold ops cmp g total hs hf g [] _ (by simp) ⟨by simp [stFind], ?_⟩
  intro sv h; simp at h

end complete

section optimal
variable (ops : WOps W) (cmp : Line W → Line W → Bool) (g : PGraph W) (total : Nat) (R : Line W → Line W → Prop)

/-- a path whose last edge starts at or before `s` uses start positions before `s` only, up to that edge -/
theorem rpath_restrict (pre : PGraph W) (sv : Nat × List (Nat × List (PEntry W))) (hf : PGraph.Forward (pre ++ [sv])) :
    ∀ (l : Line W) (p : Nat), p ≤ sv.1 → RPath ops (pre ++ [sv]) total 0 l p → RPath ops pre total 0 l p
  | [], _, _, h => h
  | c :: cs, p, hp, h => by
    obtain ⟨h1, h2, s, h3, ⟨evs, es, ha, hb, hc⟩, h5⟩ := h
    have hlt : s < p := hf (s, evs) ha (p, es) hb
    have hpre : (s, evs) ∈ pre := by
      rcases List.mem_append.mp ha with h | h
      · exact h
      · have : (s, evs) = sv := by simpa using h
        rw [← this] at hp; simp at hp; omega
    exact ⟨h1, h2, s, rpath_restrict pre sv hf cs s (by omega) h3, ⟨evs, es, hpre, hb, hc⟩, h5⟩

/-- after the start positions of `pre`: the slot of `p` is at least as good as every path from 0 to `p` along edges of `pre` -/
def OInv (pre : PGraph W) (st : States W) : Prop :=
  stFind st 0 = some [] ∧ AllSlots (fun p l => l ≠ [] → lineEnd l = p) st ∧
  ∀ (P : Line W) (p : Nat), P ≠ [] → RPath ops pre total 0 P p → ∃ l, stFind st p = some l ∧ l ≠ [] ∧ R l P

theorem oinv_fold (hR : PoetOrder ops cmp R) (hs : g.Sorted) (hf : g.Forward) : ∀ (post pre : PGraph W) (st : States W), g = pre ++ post →
    OInv ops total R pre st → OInv ops total R g (post.foldl (processStart ops cmp total) st)
  | [], pre, st, hg, h => by
    simp only [List.append_nil] at hg
    simpa [← hg] using h
  | sv :: post, pre, st, hg, h => by
    simp only [List.foldl_cons]
    refine oinv_fold hR hs hf post (pre ++ [sv]) _ (by simp [hg]) ?_
    have hsv : sv ∈ g := by rw [hg]; simp
    have hfp : PGraph.Forward (pre ++ [sv]) := fun x hx => hf x (by
      rw [hg]; rcases List.mem_append.mp hx with h | h
      · exact List.mem_append_left _ h
      · exact List.mem_append_right _ (by have : x = sv := by simpa using h
                                          simp [this]))
    refine ⟨?_, ?_, ?_⟩
    · rw [processStart_untouched ops cmp total sv 0 (fun ev hev => by have := hf sv hsv ev hev; omega)]
      exact h.1
    · exact processStart_allSlots ops cmp g total _ (slotInv_end ops g total) sv hsv st h.2.1
    · intro P p hP hpath
      cases P with
      | nil => exact absurd rfl hP
      | cons c cs =>
        obtain ⟨h1, h2, s, h3, ⟨evs, es, ha, hb, hc⟩, h5⟩ := hpath
        have hlt : s < p := hfp (s, evs) ha (p, es) hb
        rcases List.mem_append.mp ha with hin | hin
        · -- the last edge is an edge of `pre`
          have hsl : s < sv.1 := pre_lt pre post sv (hg ▸ hs) (s, evs) hin
          have hcs := rpath_restrict ops total pre sv hfp cs s (by omega) h3
          obtain ⟨l, hl, hne, hr⟩ := h.2.2 (c :: cs) p (by simp) ⟨h1, h2, s, hcs, ⟨evs, es, hin, hb, hc⟩, h5⟩
          obtain ⟨l', hl', hi⟩ := processStart_mono hR total st sv p l hl
          exact ⟨l', hl', (hi hne).1, hR.trans _ _ _ (hi hne).2 hr⟩
        · -- the last edge starts at `sv`'s position
          have hsv' : (s, evs) = sv := by simpa using hin
          have hcs := rpath_restrict ops total pre sv hfp cs s (by rw [← hsv']; exact Nat.le_refl _) h3
          -- the line this start position is read with
          have hcand : ∃ cand, stFind st s = some cand ∧ R cand cs ∧ lineEnd cand = lineEnd cs := by
            cases cs with
            | nil =>
              have : s = 0 := hcs
              subst this
              exact ⟨[], h.1, hR.refl _, rfl⟩
            | cons d ds =>
              obtain ⟨l, hl, hne, hr⟩ := h.2.2 (d :: ds) s (by simp) hcs
              exact ⟨l, hl, hr, by rw [h.2.1 s l hl hne]; exact (hcs.1).symm⟩
          obtain ⟨cand, hc1, hc2, hc3⟩ := hcand
          have hx : ¬ (sv.1 = 0 ∧ ((p, es) : Nat × List (PEntry W)).1 = total) := by rw [← hsv']; exact h5
          obtain ⟨l', hl', hne, hbest⟩ := processStart_hit hR total st sv cand (by rw [← hsv']; exact hc1) (p, es)
            (by rw [← hsv']; exact hb) hx
          have hes : es ≠ [] := by intro h; rw [h] at hc; simp at hc
          refine ⟨l', hl', hne hes, ?_⟩
          have hP : c :: cs = extendLine ops cs c.entry p := by
            unfold extendLine
            cases c with
            | mk en ep w => simp only at h1 h2; subst h1; rw [h2]
          rw [hP]
          exact hR.trans _ _ _ (hbest c.entry hc) (hR.ext _ _ c.entry p hc3 hc2)

theorem oinv_final (hR : PoetOrder ops cmp R) (hs : g.Sorted) (hf : g.Forward) : OInv ops total R g (poetStates ops cmp g total) := by
  unfold poetStates
  refine oinv_fold ops cmp g total R hR hs hf g [] _ (by simp) ⟨by simp [stFind], ?_, ?_⟩
  · intro p l hp
    simp only [stFind, List.find?_cons] at hp
    split at hp
    · simp only [Option.map_some, Option.some.injEq] at hp
      intro h; exact absurd hp.symm h
    · simp at hp
  · intro P p hP hpath
    cases P with
    | nil => exact absurd rfl hP
    | cons c cs =>
      obtain ⟨_, _, s, _, ⟨evs, es, ha, _, _⟩, _⟩ := hpath
      simp at ha

end optimal

/-! ## what the results say -/

theorem pathWeight_append (w : W) (as bs : List (Comp W)) : pathWeight w (as ++ bs) = pathWeight (pathWeight w as) bs := by
  induction as generalizing w with
  | nil => rfl
  | cons a as ih => simp [pathWeight, ih]

theorem pathWeight_reverse (ops : WOps W) (l : Line W) : pathWeight ops.zero l.reverse = lineWeight ops l := by
  cases l with
  | nil => rfl
  | cons c cs => simp [pathWeight_append, pathWeight, lineWeight]

/-- the line the poet returns is at least as good (`R`) as every path from 0 to `total` -/
theorem poetLine_unbeaten (ops : WOps W) (cmp : Line W → Line W → Bool) (g : PGraph W) (total : Nat) (R : Line W → Line W → Prop)
    (hR : PoetOrder ops cmp R) (hs : g.Sorted) (hf : g.Forward) (cs : List (Comp W)) (hne : cs ≠ [])
    (hp : IsPath ops g total ops.zero 0 cs) (he : pathEnd 0 cs = total) :
    ∃ l, poetLine ops cmp g total = some l ∧ R l cs.reverse := by
  have h1 := isPath_rpath ops g total 0 cs [] 0 ops.zero rfl rfl hp
  rw [he, List.append_nil] at h1
  obtain ⟨l, hl, hn, hr⟩ := (oinv_final ops cmp g total R hR hs hf).2.2 cs.reverse total (by simpa using hne) h1
  exact ⟨l, (poetLine_some ops cmp g total l).mpr ⟨hl, hn⟩, hr⟩

theorem poetComponents_some (ops : WOps W) (cmp : Line W → Line W → Bool) (g : PGraph W) (total : Nat) (cs : List (Comp W)) :
    poetComponents ops cmp g total = some cs ↔ poetLine ops cmp g total = some cs.reverse := by
  unfold poetComponents
  cases poetLine ops cmp g total with
  | none => simp
  | some l =>
    simp only [Option.map_some, Option.some.injEq]
    constructor
    · intro h; rw [← h]; simp
    · intro h; rw [h]; simp

/-- what `Extend` accumulates -/
theorem foldl_extend (cs : List (Comp W)) : ∀ (s : Sentence W),
    (cs.foldl Sentence.extend s).text = s.text ++ cs.flatMap (·.entry.text) ∧
    (cs.foldl Sentence.extend s).code = s.code ++ cs.flatMap (·.entry.code) ∧
    (cs.foldl Sentence.extend s).components = s.components ++ cs.map (·.entry) ∧
    (cs.foldl Sentence.extend s).wordLengths = s.wordLengths ++ wordLengthsFrom s.endPos cs ∧
    (cs.foldl Sentence.extend s).endPos = pathEnd s.endPos cs ∧
    (cs.foldl Sentence.extend s).weight = pathWeight s.weight cs := by
  induction cs with
  | nil => intro s; simp [wordLengthsFrom, pathEnd, pathWeight]
  | cons c cs ih =>
    intro s
    simp only [List.foldl_cons]
    obtain ⟨h1, h2, h3, h4, h5, h6⟩ := ih (s.extend c)
    refine ⟨?_, ?_, ?_, ?_, ?_, ?_⟩
    · rw [h1]; simp [Sentence.extend]
    · rw [h2]; simp [Sentence.extend]
    · rw [h3]; simp [Sentence.extend]
    · rw [h4]; simp [Sentence.extend, wordLengthsFrom]
    · rw [h5]; simp [Sentence.extend, pathEnd]
    · rw [h6]; simp [Sentence.extend, pathWeight]

/-- a path whose edges all stand for accepted pieces spells a concatenation -/
theorem isPath_concat (ops : WOps W) (g : PGraph W) (total : Nat) (Ok : Nat → Nat → Bytes → Prop)
    (hok : ∀ s e x, EdgeHas g s e x → Ok s e x.text) : ∀ (cs : List (Comp W)) (w : W) (p : Nat), IsPath ops g total w p cs →
    Concat Ok p (pathEnd p cs) (cs.flatMap (·.entry.text))
  | [], _, p, _ => Concat.nil p
  | c :: cs, _, p, h => by
    simp only [List.flatMap_cons, pathEnd]
    exact Concat.cons (hok _ _ _ h.1) (isPath_concat ops g total Ok hok cs c.weight c.endPos h.2.2.2)

theorem origin_zero_of_noEmptyEdge (g : PGraph W) (h : NoEmptyEdge g) (o : Nat) (ho : Origin g o) : o = 0 := by
  rcases ho with h0 | ⟨s, evs, hs, he⟩
  · exact h0
  · exact absurd rfl (h (s, evs) hs (o, []) he)

end RimeModel.C07
