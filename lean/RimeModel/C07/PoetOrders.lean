import RimeModel.C07.PoetLemmas
/-! C07: the two comparison functions of the poet are orders the loop maintains (helper lemmas; free to change) -/
namespace RimeModel.C07
open RimeModel.C06

variable {W : Type}

/-- what `CompareWeight` needs from the weights: `<` is a strict weak order and adding the same number on the right
never reverses it (true of IEEE doubles without NaN, of integers, of exact dyadic numbers) -/
structure WLaws (ops : WOps W) : Prop where
  irrefl : ∀ a, ops.lt a a = false
  asymm : ∀ a b, ops.lt a b = true → ops.lt b a = false
  negtrans : ∀ a b c, ops.lt a b = false → ops.lt b c = false → ops.lt a c = false
  add_mono : ∀ a b k, ops.lt a b = false → ops.lt (ops.add a k) (ops.add b k) = false

theorem poetOrder_compareWeight (ops : WOps W) (h : WLaws ops) :
    PoetOrder ops (compareWeight ops) (fun a b => compareWeight ops a b = false) where
  refl := fun l => h.irrefl _
  trans := fun a b c hab hbc => h.negtrans _ _ _ hab hbc
  yes := fun a b hab => h.asymm _ _ hab
  no := fun _ _ h => h
  ext := fun a b x e _ hab => by
    unfold compareWeight at *
    rw [lineWeight_extend, lineWeight_extend]
    exact h.add_mono _ _ _ hab

theorem wlaws_int (k : Int) : WLaws (intOps k) where
  irrefl := by intro a; simp [intOps]
  asymm := by intro a b; simp [intOps]; omega
  negtrans := by intro a b c; simp [intOps]; omega
  add_mono := by intro a b c; simp [intOps]

/-! ## `LeftAssociateCompare` with integer weights -/

theorem lexLt_nil_right (a : List Nat) : lexLt a [] = false := by cases a <;> rfl

theorem lexLt_irrefl : ∀ l : List Nat, lexLt l l = false
  | [] => rfl
  | a :: as => by simp [lexLt, lexLt_irrefl as]

theorem lexLt_asymm : ∀ a b : List Nat, lexLt a b = true → lexLt b a = false
  | _, [], h => by rw [lexLt_nil_right] at h; exact absurd h (by simp)
  | [], _ :: _, _ => rfl
  | a :: as, b :: bs, h => by
    simp only [lexLt] at h ⊢
    by_cases h1 : a < b
    · have h2 : ¬ b < a := by omega
      simp [h1, h2]
    · by_cases h2 : b < a
      · simp [h1, h2] at h
      · simp only [h1, h2, if_false] at h ⊢
        exact lexLt_asymm as bs h

theorem lexLt_negtrans : ∀ a b c : List Nat, lexLt a b = false → lexLt b c = false → lexLt a c = false
  | a, _, [], _, _ => lexLt_nil_right a
  | _, [], _ :: _, _, hbc => by simp [lexLt] at hbc
  | [], _ :: _, _ :: _, hab, _ => by simp [lexLt] at hab
  | a :: as, b :: bs, c :: cs, hab, hbc => by
    simp only [lexLt] at hab hbc ⊢
    by_cases h1 : a < b
    · simp [h1] at hab
    · by_cases h2 : b < a
      · by_cases h3 : b < c
        · simp [h3] at hbc
        · by_cases h4 : c < b
          · have h5 : c < a := by omega
            have h6 : ¬ a < c := by omega
            simp [h5, h6]
          · have : b = c := by omega
            subst this; simp [h1, h2]
      · have : a = b := by omega
        subst this
        simp only [h1, if_false] at hab
        by_cases h3 : a < c
        · simp [h3] at hbc
        · by_cases h4 : c < a
          · simp [h3, h4]
          · simp only [h3, h4, if_false] at hbc ⊢
            exact lexLt_negtrans as bs cs hab hbc

theorem lexLt_append_same : ∀ (a b t : List Nat), a.length = b.length → lexLt (a ++ t) (b ++ t) = lexLt a b
  | [], [], t, _ => by simp [lexLt_irrefl, lexLt]
  | [], _ :: _, _, h => by simp at h
  | _ :: _, [], _, h => by simp at h
  | a :: as, b :: bs, t, h => by
    simp only [List.cons_append, lexLt]
    rw [lexLt_append_same as bs t (by simpa using h)]

theorem wordLengthsFrom_snoc (p : Nat) (cs : List (Comp W)) (c : Comp W) :
    wordLengthsFrom p (cs ++ [c]) = wordLengthsFrom p cs ++ [c.endPos - pathEnd p cs] := by
  induction cs generalizing p with
  | nil => rfl
  | cons d ds ih => simp [wordLengthsFrom, pathEnd, ih]

theorem pathEnd_reverse (l : Line W) : pathEnd 0 l.reverse = lineEnd l := by
  cases l with
  | nil => rfl
  | cons c cs => simp [pathEnd_append, pathEnd, lineEnd]

theorem wordLengths_cons (c : Comp W) (l : Line W) : wordLengths (c :: l) = wordLengths l ++ [c.endPos - lineEnd l] := by
  unfold wordLengths
  rw [List.reverse_cons, wordLengthsFrom_snoc, pathEnd_reverse]

/-- `LeftAssociateCompare(a, b)` is false exactly when `b` is not heavier and, on equal weight, `a` has no more
words and, with as many words, its word lengths are not lexicographically smaller -/
theorem leftAssociate_false_iff (k : Int) (a b : Line Int) :
    leftAssociateCompare (intOps k) a b = false ↔
      lineWeight (intOps k) b ≤ lineWeight (intOps k) a ∧
      (lineWeight (intOps k) a = lineWeight (intOps k) b →
        (wordLengths a).length ≤ (wordLengths b).length ∧
        ((wordLengths a).length = (wordLengths b).length → lexLt (wordLengths a) (wordLengths b) = false)) := by
  unfold leftAssociateCompare tieLess
  generalize lineWeight (intOps k) a = wa
  generalize lineWeight (intOps k) b = wb
  generalize wordLengths a = la
  generalize wordLengths b = lb
  simp only [intOps]
  by_cases h1 : wa < wb
  · simp [h1]; omega
  · by_cases h2 : wa = wb
    · subst h2
      by_cases h3 : lb.length < la.length
      · simp [h3]; intro h; omega
      · by_cases h4 : la.length = lb.length
        · simp [h4]
        · simp [h3, h4]; omega
    · simp [h1, h2]; omega

theorem poetOrder_leftAssociate (k : Int) :
    PoetOrder (intOps k) (leftAssociateCompare (intOps k)) (fun a b => leftAssociateCompare (intOps k) a b = false) where
  refl := fun l => by rw [leftAssociate_false_iff]; exact ⟨Int.le_refl _, fun _ => ⟨Nat.le_refl _, fun _ => lexLt_irrefl _⟩⟩
  trans := fun a b c hab hbc => by
    rw [leftAssociate_false_iff] at *
    obtain ⟨h1, h2⟩ := hab
    obtain ⟨h3, h4⟩ := hbc
    refine ⟨by omega, fun he => ?_⟩
    have e1 : lineWeight (intOps k) a = lineWeight (intOps k) b := by omega
    have e2 : lineWeight (intOps k) b = lineWeight (intOps k) c := by omega
    obtain ⟨n1, l1⟩ := h2 e1
    obtain ⟨n2, l2⟩ := h4 e2
    refine ⟨by omega, fun hn => ?_⟩
    exact lexLt_negtrans _ _ _ (l1 (by omega)) (l2 (by omega))
  yes := fun a b hab => by
    rw [leftAssociate_false_iff]
    have hnot : ¬ leftAssociateCompare (intOps k) a b = false := by simp [hab]
    rw [leftAssociate_false_iff] at hnot
    by_cases hw : lineWeight (intOps k) a < lineWeight (intOps k) b
    · exact ⟨by omega, fun h => by omega⟩
    · refine ⟨?_, fun he => ?_⟩
      · apply Classical.byContradiction
        intro hc
        exact hnot ⟨by omega, fun h => by omega⟩
      · apply Classical.byContradiction
        intro hc
        apply hnot
        refine ⟨by omega, fun _ => ?_⟩
        by_cases hn : (wordLengths a).length < (wordLengths b).length
        · exact ⟨by omega, fun h => by omega⟩
        · by_cases hn2 : (wordLengths a).length = (wordLengths b).length
          · refine ⟨by omega, fun _ => ?_⟩
            cases hl : lexLt (wordLengths a) (wordLengths b) with
            | false => rfl
            | true =>
              exfalso; apply hc
              refine ⟨by omega, fun _ => ?_⟩
              cases hl2 : lexLt (wordLengths b) (wordLengths a) with
              | false => rfl
              | true => rw [lexLt_asymm _ _ hl2] at hl; exact absurd hl (by simp)
          · exfalso; apply hc
            exact ⟨by omega, fun h => by omega⟩
  no := fun _ _ h => h
  ext := fun a b x e hend hab => by
    rw [leftAssociate_false_iff] at *
    obtain ⟨h1, h2⟩ := hab
    have ea : lineWeight (intOps k) (extendLine (intOps k) a x e) = lineWeight (intOps k) a + (x.weight + k) := rfl
    have eb : lineWeight (intOps k) (extendLine (intOps k) b x e) = lineWeight (intOps k) b + (x.weight + k) := rfl
    have la : wordLengths (extendLine (intOps k) a x e) = wordLengths a ++ [e - lineEnd a] := wordLengths_cons _ _
    have lb : wordLengths (extendLine (intOps k) b x e) = wordLengths b ++ [e - lineEnd b] := wordLengths_cons _ _
    rw [ea, eb, la, lb]
    simp only [List.length_append, List.length_cons, List.length_nil]
    refine ⟨by omega, fun he => ?_⟩
    obtain ⟨n1, l1⟩ := h2 (by omega)
    refine ⟨by omega, fun hn => ?_⟩
    rw [hend, lexLt_append_same _ _ _ (by omega)]
    exact l1 (by omega)

end RimeModel.C07
