import RimeModel.C07.PoetLemmas
/-!
# C07 — the poet with `predecessor` POINTERS, and why the immutable lines of `Poet.lean` lose nothing

In poet.cc a `Line` holds `const Line* predecessor`; with the `DynamicProgramming` strategy that pointer is the address
of the map slot `states[start_pos]` (`update(state)` passes the slot itself, `new_line{&candidate, …}`).  A line's
components are found by following the pointers through the map AS IT IS WHEN THEY ARE FOLLOWED (`compare_` with
`LeftAssociateCompare` does it during the loop, `MakeSentenceWithStrategy` at the end).  If a slot were overwritten after
a successor had been built on it, the successor's components would silently change.

`PLine` is the `Line` object as stored (`pred` = the position whose slot `predecessor` points at), `resolve` follows the
pointers, `pPoetStates` is the loop on such objects.  `pointer_poet_agrees`: on a graph whose start positions increase
(`std::map` order) and whose edges go forward, every slot of the pointer version resolves — at the end and at every
comparison on the way — to exactly the line the immutable version holds: a slot is written only by edges from smaller
start positions, all of which are done when the slot is first read.
-/
namespace RimeModel.C07
open RimeModel.C06

variable {W : Type}

/-- a `Line` object as the code stores it: `predecessor` (as the position of the slot it points at), `entry`, `end_pos`,
`weight` -/
structure PLine (W : Type) where
  pred : Option Nat
  entry : Option (PEntry W)
  endPos : Nat
  weight : W

/-- `Line::empty()`: `!predecessor && !entry` -/
def PLine.isEmpty (l : PLine W) : Bool := l.pred.isNone && l.entry.isNone

/-- `Line::kEmpty` / a value-initialised `Line` -/
def PLine.nil (ops : WOps W) : PLine W := ⟨none, none, 0, ops.zero⟩

abbrev PStates (W : Type) := List (Nat × PLine W)

def pFind (st : PStates W) (p : Nat) : Option (PLine W) := (st.find? (fun kv => kv.1 == p)).map (·.2)

def pSet : PStates W → Nat → PLine W → PStates W
  | [], p, l => [(p, l)]
  | kv :: rest, p, l => if kv.1 == p then (p, l) :: rest else kv :: pSet rest p l

/-- `Line::components()`: follow `predecessor` through the map until an empty line; `fuel` bounds the number of hops.
The result is the chain, last word first. -/
def resolve (st : PStates W) : Nat → PLine W → Line W
  | 0, _ => []
  | fuel + 1, l =>
    match l.entry, l.pred with
    | some e, some p =>
      ⟨e, l.endPos, l.weight⟩ :: (match pFind st p with
        | some l' => resolve st fuel l'
        | none => [])
    | _, _ => []

/-- the loop body on stored objects; `compare_` looks at the lines through the map `st` -/
def pRelax (ops : WOps W) (cmp : Line W → Line W → Bool) (st : PStates W) (fuel start : Nat) (candWeight : W) (endPos : Nat)
    (best : PLine W) (e : PEntry W) : PLine W :=
  if best.isEmpty || cmp (resolve st fuel best) (resolve st fuel ⟨some start, some e, endPos, ops.add candWeight (evaluate ops e.weight)⟩)
  then ⟨some start, some e, endPos, ops.add candWeight (evaluate ops e.weight)⟩ else best

def pProcessEdge (ops : WOps W) (cmp : Line W → Line W → Bool) (total fuel start : Nat) (st : PStates W)
    (ev : Nat × List (PEntry W)) : PStates W :=
  if start == 0 && ev.1 == total then st
  else
    match pFind st start with            -- `candidate` is a reference to the slot of the start position
    | none => st
    | some cand =>
      pSet st ev.1 (ev.2.foldl (pRelax ops cmp st fuel start cand.weight ev.1) ((pFind st ev.1).getD (PLine.nil ops)))

def pProcessStart (ops : WOps W) (cmp : Line W → Line W → Bool) (total fuel : Nat) (st : PStates W)
    (sv : Nat × List (Nat × List (PEntry W))) : PStates W :=
  match pFind st sv.1 with
  | none => st
  | some _ => sv.2.foldl (pProcessEdge ops cmp total fuel sv.1) st

def pPoetStates (ops : WOps W) (cmp : Line W → Line W → Bool) (g : PGraph W) (total fuel : Nat) : PStates W :=
  g.foldl (pProcessStart ops cmp total fuel) [(0, PLine.nil ops)]

/-- the line `MakeSentenceWithStrategy` reads the components of -/
def pPoetLine (ops : WOps W) (cmp : Line W → Line W → Bool) (g : PGraph W) (total fuel : Nat) : Option (Line W) :=
  match pFind (pPoetStates ops cmp g total fuel) total with
  | none => none
  | some l => if l.isEmpty then none else some (resolve (pPoetStates ops cmp g total fuel) fuel l)

/-! ## the map -/

theorem pFind_pSet (st : PStates W) (p q : Nat) (l : PLine W) :
    pFind (pSet st p l) q = if q = p then some l else pFind st q := by
  induction st with
  | nil =>
    by_cases h : q = p
    · subst h; simp [pSet, pFind]
    · have : (p == q) = false := by simpa using fun e => h e.symm
      simp [pSet, pFind, h, this]
  | cons kv rest ih =>
    unfold pSet
    by_cases hk : kv.1 = p
    · subst hk
      by_cases h : q = kv.1
      · subst h; simp [pFind]
      · have : (kv.1 == q) = false := by simpa using fun e => h e.symm
        simp [pFind, h, this]
    · have hk' : (kv.1 == p) = false := by simpa using hk
      simp only [hk', Bool.false_eq_true, if_false]
      by_cases h : q = p
      · subst h
        have : pFind (kv :: pSet rest q l) q = pFind (pSet rest q l) q := by
          simp [pFind, hk']
        rw [this, ih]; simp
      · by_cases hq : kv.1 = q
        · have hq' : (kv.1 == q) = true := by simpa using hq
          simp [pFind, hq', h]
        · have hq' : (kv.1 == q) = false := by simpa using hq
          have e1 : pFind (kv :: pSet rest p l) q = pFind (pSet rest p l) q := by
            simp [pFind, hq']
          have e2 : pFind (kv :: rest) q = pFind rest q := by
            simp [pFind, hq']
          rw [e1, e2, ih]

/-! ## well-formed maps: a non-empty line points at a smaller position that has a slot -/

/-- the slot `l` of position `p`, when every start position processed so far is `≤ b` -/
def SlotWF (ops : WOps W) (st : PStates W) (fuel b p : Nat) (l : PLine W) : Prop :=
  p < fuel ∧ (l = PLine.nil ops ∨ ∃ e s, l.entry = some e ∧ l.pred = some s ∧ l.endPos = p ∧ s < p ∧ s ≤ b ∧ (pFind st s).isSome)

def MapWF (ops : WOps W) (st : PStates W) (fuel b : Nat) : Prop := ∀ p l, pFind st p = some l → SlotWF ops st fuel b p l

theorem resolve_nil (ops : WOps W) (st : PStates W) (fuel : Nat) : resolve st fuel (PLine.nil ops) = [] := by
  cases fuel <;> simp [resolve, PLine.nil]

/-- enough fuel is enough: the chain from a line that points at `s < n` has at most `n` hops -/
theorem resolve_fuel (ops : WOps W) (st : PStates W) (fuel b : Nat) (hwf : MapWF ops st fuel b) : ∀ (n : Nat) (l : PLine W),
    (l = PLine.nil ops ∨ ∃ e s, l.entry = some e ∧ l.pred = some s ∧ s < n ∧ (pFind st s).isSome) →
    ∀ f1 f2, n ≤ f1 → n ≤ f2 → resolve st f1 l = resolve st f2 l
  | _, l, Or.inl h, f1, f2, _, _ => by rw [h, resolve_nil, resolve_nil]
  | 0, l, Or.inr ⟨_, s, _, _, hs, _⟩, _, _, _, _ => by omega
  | n + 1, l, Or.inr ⟨e, s, he, hp, hs, hsome⟩, f1, f2, h1, h2 => by
    obtain ⟨f1', rfl⟩ : ∃ k, f1 = k + 1 := ⟨f1 - 1, by omega⟩
    obtain ⟨f2', rfl⟩ : ∃ k, f2 = k + 1 := ⟨f2 - 1, by omega⟩
    simp only [resolve, he, hp]
    cases hf : pFind st s with
    | none => rfl
    | some l' =>
      simp only
      congr 1
      have hw := (hwf s l' hf).2
      refine resolve_fuel ops st fuel b hwf n l' ?_ f1' f2' (by omega) (by omega)
      rcases hw with h | ⟨e', s', h1', h2', _, h4', _, h6'⟩
      · exact Or.inl h
      · exact Or.inr ⟨e', s', h1', h2', by omega, h6'⟩

/-- a line that points at or below `b` resolves the same in two maps that agree at and below `b` -/
theorem resolve_congr (ops : WOps W) (st st' : PStates W) (fuel b : Nat) (hwf : MapWF ops st fuel b)
    (hsame : ∀ s, s ≤ b → pFind st' s = pFind st s) : ∀ (f : Nat) (l : PLine W),
    (l = PLine.nil ops ∨ ∃ e s, l.entry = some e ∧ l.pred = some s ∧ s ≤ b) → resolve st' f l = resolve st f l
  | 0, _, _ => rfl
  | f + 1, l, Or.inl h => by rw [h, resolve_nil, resolve_nil]
  | f + 1, l, Or.inr ⟨e, s, he, hp, hs⟩ => by
    simp only [resolve, he, hp, hsame s hs]
    cases hf : pFind st s with
    | none => rfl
    | some l' =>
      simp only
      congr 1
      refine resolve_congr ops st st' fuel b hwf hsame f l' ?_
      rcases (hwf s l' hf).2 with h | ⟨e', s', h1', h2', _, h4', _, _⟩
      · exact Or.inl h
      · exact Or.inr ⟨e', s', h1', h2', by omega⟩

theorem slot_shape {ops : WOps W} {st : PStates W} {fuel b p : Nat} {l : PLine W} (h : SlotWF ops st fuel b p l) :
    l = PLine.nil ops ∨ ∃ e s, l.entry = some e ∧ l.pred = some s ∧ s ≤ b := by
  rcases h.2 with h | ⟨e, s, h1, h2, _, _, h5, _⟩
  · exact Or.inl h
  · exact Or.inr ⟨e, s, h1, h2, h5⟩

/-! ## the simulation -/

/-- the pointer map `pst` and the immutable map `st` hold the same lines -/
def Sim (_ops : WOps W) (fuel : Nat) (pst : PStates W) (st : States W) : Prop :=
  ∀ p, stFind st p = (pFind pst p).map (resolve pst fuel)

theorem isEmpty_resolve (ops : WOps W) (st : PStates W) (fuel b p : Nat) (l : PLine W) (h : SlotWF ops st fuel b p l) :
    (resolve st fuel l).isEmpty = l.isEmpty := by
  rcases h.2 with h' | ⟨e, s, h1, h2, _, _, _, _⟩
  · rw [h', resolve_nil]; rfl
  · have : ∃ k, fuel = k + 1 := ⟨fuel - 1, by have := h.1; omega⟩
    obtain ⟨k, rfl⟩ := this
    simp [resolve, h1, h2, PLine.isEmpty]

theorem lineWeight_resolve (ops : WOps W) (st : PStates W) (fuel b p : Nat) (l : PLine W) (h : SlotWF ops st fuel b p l) :
    lineWeight ops (resolve st fuel l) = l.weight := by
  rcases h.2 with h' | ⟨e, s, h1, h2, _, _, _, _⟩
  · rw [h', resolve_nil]; rfl
  · have : ∃ k, fuel = k + 1 := ⟨fuel - 1, by have := h.1; omega⟩
    obtain ⟨k, rfl⟩ := this
    simp [resolve, h1, h2, lineWeight]

/-- the new line, looked at through the map, is the immutable new line -/
theorem resolve_new (ops : WOps W) (pst : PStates W) (fuel b start : Nat) (hwf : MapWF ops pst fuel b) (cand : PLine W)
    (hc : pFind pst start = some cand) (x : PEntry W) (e : Nat) (hfuel : start + 1 < fuel) :
    resolve pst fuel ⟨some start, some x, e, ops.add cand.weight (evaluate ops x.weight)⟩
      = extendLine ops (resolve pst fuel cand) x e := by
  obtain ⟨k, rfl⟩ : ∃ k, fuel = k + 1 := ⟨fuel - 1, by omega⟩
  have hw := hwf start cand hc
  have hfi : resolve pst k cand = resolve pst (k + 1) cand := by
    refine resolve_fuel ops pst (k + 1) b hwf start cand ?_ k (k + 1) (by omega) (by omega)
    rcases hw.2 with h | ⟨e', s', h1, h2, _, h4, _, h6⟩
    · exact Or.inl h
    · exact Or.inr ⟨e', s', h1, h2, h4, h6⟩
  conv => lhs; simp only [resolve, hc]
  rw [hfi]
  unfold extendLine
  rw [lineWeight_resolve ops pst (k + 1) b start cand hw]

/-- the loop over the entries of one edge, both versions -/
theorem relax_fold_sim (ops : WOps W) (cmp : Line W → Line W → Bool) (pst : PStates W) (fuel b start e : Nat)
    (hwf : MapWF ops pst fuel b) (cand : PLine W) (hc : pFind pst start = some cand) (hfuel : start + 1 < fuel) (hb : start ≤ b)
    (hse : start < e) (he : e < fuel) :
    ∀ (es : List (PEntry W)) (bp : PLine W), SlotWF ops pst fuel b e bp →
      resolve pst fuel (es.foldl (pRelax ops cmp pst fuel start cand.weight e) bp)
        = es.foldl (relax ops cmp (resolve pst fuel cand) e) (resolve pst fuel bp) ∧
      SlotWF ops pst fuel b e (es.foldl (pRelax ops cmp pst fuel start cand.weight e) bp)
  | [], bp, h => ⟨rfl, h⟩
  | x :: es, bp, h => by
    simp only [List.foldl_cons]
    have hnew := resolve_new ops pst fuel b start hwf cand hc x e hfuel
    have hstep : resolve pst fuel (pRelax ops cmp pst fuel start cand.weight e bp x)
        = relax ops cmp (resolve pst fuel cand) e (resolve pst fuel bp) x ∧
        SlotWF ops pst fuel b e (pRelax ops cmp pst fuel start cand.weight e bp x) := by
      unfold pRelax relax
      rw [hnew, isEmpty_resolve ops pst fuel b e bp h]
      split
      · exact ⟨hnew, he, Or.inr ⟨x, start, rfl, rfl, rfl, hse, hb, by simp [hc]⟩⟩
      · exact ⟨rfl, h⟩
    obtain ⟨h1, h2⟩ := relax_fold_sim ops cmp pst fuel b start e hwf cand hc hfuel hb hse he es _ hstep.2
    exact ⟨by rw [h1, hstep.1], h2⟩

theorem mapWF_pSet (ops : WOps W) (pst : PStates W) (fuel b e : Nat) (hwf : MapWF ops pst fuel b) (r : PLine W)
    (hr : SlotWF ops pst fuel b e r) : MapWF ops (pSet pst e r) fuel b := by
  have keep : ∀ s, (pFind pst s).isSome → (pFind (pSet pst e r) s).isSome := by
    intro s hs
    rw [pFind_pSet]; split
    · rfl
    · exact hs
  have lift : ∀ p l, SlotWF ops pst fuel b p l → SlotWF ops (pSet pst e r) fuel b p l := by
    intro p l ⟨h1, h2⟩
    refine ⟨h1, ?_⟩
    rcases h2 with h | ⟨x, s, a1, a2, a3, a4, a5, a6⟩
    · exact Or.inl h
    · exact Or.inr ⟨x, s, a1, a2, a3, a4, a5, keep s a6⟩
  intro p l hp
  rw [pFind_pSet] at hp
  split at hp
  · rename_i hpe
    subst hpe
    have := Option.some.inj hp
    subst this
    exact lift _ _ hr
  · exact lift _ _ (hwf p l hp)

theorem mapWF_mono (ops : WOps W) (pst : PStates W) (fuel b b' : Nat) (h : b ≤ b') (hwf : MapWF ops pst fuel b) : MapWF ops pst fuel b' := by
  intro p l hp
  obtain ⟨h1, h2⟩ := hwf p l hp
  refine ⟨h1, ?_⟩
  rcases h2 with h' | ⟨x, s, a1, a2, a3, a4, a5, a6⟩
  · exact Or.inl h'
  · exact Or.inr ⟨x, s, a1, a2, a3, a4, by omega, a6⟩

/-- one edge -/
theorem processEdge_sim (ops : WOps W) (cmp : Line W → Line W → Bool) (total fuel start : Nat) (pst : PStates W) (st : States W)
    (hsim : Sim ops fuel pst st) (hwf : MapWF ops pst fuel start) (cand : PLine W) (hc : pFind pst start = some cand)
    (ev : Nat × List (PEntry W)) (hse : start < ev.1) (he : ev.1 < fuel) (hfuel : start + 1 < fuel) :
    Sim ops fuel (pProcessEdge ops cmp total fuel start pst ev) (processEdge ops cmp total start (resolve pst fuel cand) st ev) ∧
    MapWF ops (pProcessEdge ops cmp total fuel start pst ev) fuel start ∧
    pFind (pProcessEdge ops cmp total fuel start pst ev) start = some cand := by
  unfold pProcessEdge processEdge
  split
  · exact ⟨hsim, hwf, hc⟩
  · simp only [hc]
    -- the slot the edge writes
    have htarget : SlotWF ops pst fuel start ev.1 ((pFind pst ev.1).getD (PLine.nil ops)) := by
      cases hf : pFind pst ev.1 with
      | none => exact ⟨he, Or.inl rfl⟩
      | some t => exact hwf ev.1 t hf
    have htres : resolve pst fuel ((pFind pst ev.1).getD (PLine.nil ops)) = (stFind st ev.1).getD [] := by
      rw [hsim ev.1]
      cases hf : pFind pst ev.1 with
      | none => simp [resolve_nil]
      | some t => simp
    obtain ⟨h1, h2⟩ := relax_fold_sim ops cmp pst fuel start start ev.1 hwf cand hc hfuel (Nat.le_refl _) hse he ev.2 _ htarget
    rw [htres] at h1
    generalize hr : ev.2.foldl (pRelax ops cmp pst fuel start cand.weight ev.1) ((pFind pst ev.1).getD (PLine.nil ops)) = r at h1 h2
    have hwf' := mapWF_pSet ops pst fuel start ev.1 hwf r h2
    have hsame : ∀ s, s ≤ start → pFind (pSet pst ev.1 r) s = pFind pst s := by
      intro s hs; rw [pFind_pSet]; split
      · omega
      · rfl
    refine ⟨?_, hwf', by rw [hsame start (Nat.le_refl _)]; exact hc⟩
    intro p
    rw [stFind_stSet, pFind_pSet]
    by_cases hp : p = ev.1
    · simp only [hp, if_true, Option.map_some]
      rw [resolve_congr ops pst (pSet pst ev.1 r) fuel start hwf hsame fuel r (slot_shape h2), h1]
    · simp only [hp, if_false]
      rw [hsim p]
      cases hf : pFind pst p with
      | none => rfl
      | some l =>
        simp only [Option.map_some]
        rw [resolve_congr ops pst (pSet pst ev.1 r) fuel start hwf hsame fuel l (slot_shape (hwf p l hf))]

theorem foldl_processEdge_sim (ops : WOps W) (cmp : Line W → Line W → Bool) (total fuel start : Nat) (cand : PLine W)
    (hfuel : start + 1 < fuel) : ∀ (evs : List (Nat × List (PEntry W))) (pst : PStates W) (st : States W) (line : Line W),
    (∀ ev ∈ evs, start < ev.1 ∧ ev.1 < fuel) → Sim ops fuel pst st → MapWF ops pst fuel start → pFind pst start = some cand →
    resolve pst fuel cand = line →
    Sim ops fuel (evs.foldl (pProcessEdge ops cmp total fuel start) pst) (evs.foldl (processEdge ops cmp total start line) st) ∧
    MapWF ops (evs.foldl (pProcessEdge ops cmp total fuel start) pst) fuel start
  | [], _, _, _, _, hsim, hwf, _, _ => ⟨hsim, hwf⟩
  | ev :: evs, pst, st, line, hev, hsim, hwf, hc, hl => by
    simp only [List.foldl_cons]
    obtain ⟨h1, h2, h3⟩ := processEdge_sim ops cmp total fuel start pst st hsim hwf cand hc ev (hev ev (by simp)).1 (hev ev (by simp)).2 hfuel
    rw [hl] at h1
    refine foldl_processEdge_sim ops cmp total fuel start cand hfuel evs _ _ line (fun x hx => hev x (by simp [hx])) h1 h2 h3 ?_
    -- the start position's own line still resolves to the same chain
    rw [← hl]
    unfold pProcessEdge
    split
    · rfl
    · simp only [hc]
      refine resolve_congr ops pst _ fuel start hwf ?_ fuel cand (slot_shape (hwf start cand hc))
      intro s hs; rw [pFind_pSet]; split
      · have := (hev ev (by simp)).1; omega
      · rfl

theorem processStart_sim (ops : WOps W) (cmp : Line W → Line W → Bool) (total fuel b : Nat) (pst : PStates W) (st : States W)
    (sv : Nat × List (Nat × List (PEntry W))) (hb : b ≤ sv.1) (hfuel : sv.1 + 1 < fuel) (hev : ∀ ev ∈ sv.2, sv.1 < ev.1 ∧ ev.1 < fuel)
    (hsim : Sim ops fuel pst st) (hwf : MapWF ops pst fuel b) :
    Sim ops fuel (pProcessStart ops cmp total fuel pst sv) (processStart ops cmp total st sv) ∧
    MapWF ops (pProcessStart ops cmp total fuel pst sv) fuel sv.1 := by
  have hwf' := mapWF_mono ops pst fuel b sv.1 hb hwf
  unfold pProcessStart processStart
  rw [hsim sv.1]
  cases hf : pFind pst sv.1 with
  | none => exact ⟨hsim, hwf'⟩
  | some cand =>
    simp only [Option.map_some]
    exact foldl_processEdge_sim ops cmp total fuel sv.1 cand hfuel sv.2 pst st _ hev hsim hwf' hf rfl

theorem foldl_processStart_sim (ops : WOps W) (cmp : Line W → Line W → Bool) (total fuel : Nat) :
    ∀ (g : PGraph W) (b : Nat) (pst : PStates W) (st : States W), PGraph.Sorted g → (∀ sv ∈ g, b ≤ sv.1) →
    (∀ sv ∈ g, sv.1 + 1 < fuel ∧ ∀ ev ∈ sv.2, sv.1 < ev.1 ∧ ev.1 < fuel) → Sim ops fuel pst st → MapWF ops pst fuel b →
    Sim ops fuel (g.foldl (pProcessStart ops cmp total fuel) pst) (g.foldl (processStart ops cmp total) st) ∧
    ∃ b', MapWF ops (g.foldl (pProcessStart ops cmp total fuel) pst) fuel b'
  | [], b, _, _, _, _, _, hsim, hwf => ⟨hsim, b, hwf⟩
  | sv :: g, b, pst, st, hs, hb, hg, hsim, hwf => by
    simp only [List.foldl_cons]
    obtain ⟨h1, h2⟩ := processStart_sim ops cmp total fuel b pst st sv (hb sv (by simp)) (hg sv (by simp)).1 (hg sv (by simp)).2 hsim hwf
    have hp := List.pairwise_cons.mp hs
    exact foldl_processStart_sim ops cmp total fuel g sv.1 _ _ hp.2 (fun x hx => Nat.le_of_lt (hp.1 x hx))
      (fun x hx => hg x (by simp [hx])) h1 h2

/-- the two versions of the loop hold the same lines at the end, and return the same line -/
theorem pointer_poet_agrees' (ops : WOps W) (cmp : Line W → Line W → Bool) (g : PGraph W) (total fuel : Nat)
    (hs : g.Sorted) (hf : g.Forward) (h0 : 0 < fuel) (hfuel : ∀ sv ∈ g, sv.1 + 1 < fuel ∧ ∀ ev ∈ sv.2, ev.1 < fuel) :
    Sim ops fuel (pPoetStates ops cmp g total fuel) (poetStates ops cmp g total) ∧
    pPoetLine ops cmp g total fuel = poetLine ops cmp g total := by
  have hinit : Sim ops fuel [(0, PLine.nil ops)] [(0, [])] := by
    intro p
    by_cases hp : p = 0
    · subst hp; simp [stFind, pFind, resolve_nil]
    · have : ((0 : Nat) == p) = false := by simpa using fun e => hp e.symm
      simp [stFind, pFind, this]
  have hwf0 : MapWF ops [(0, PLine.nil ops)] fuel 0 := by
    intro p l hp
    simp only [pFind, List.find?_cons] at hp
    split at hp
    · rename_i hh
      have h0' : 0 = p := by simpa using hh
      simp only [Option.map_some, Option.some.injEq] at hp
      subst h0'; subst hp
      exact ⟨h0, Or.inl rfl⟩
    · simp at hp
  obtain ⟨hsim, b', hwf⟩ := foldl_processStart_sim ops cmp total fuel g 0 _ _ hs (fun _ _ => Nat.zero_le _)
    (fun sv hsv => ⟨(hfuel sv hsv).1, fun ev hev => ⟨hf sv hsv ev hev, (hfuel sv hsv).2 ev hev⟩⟩) hinit hwf0
  refine ⟨hsim, ?_⟩
  unfold pPoetLine poetLine
  have := hsim total
  unfold pPoetStates poetStates at *
  rw [this]
  cases hf' : pFind (g.foldl (pProcessStart ops cmp total fuel) [(0, PLine.nil ops)]) total with
  | none => rfl
  | some l =>
    simp only [Option.map_some]
    rw [isEmpty_resolve ops _ fuel b' total l (hwf total l hf')]

end RimeModel.C07
