import RimeModel.C07.MatchLemmas
/-! C07: `Table::Query` only reports codes the graph spells (helper lemmas; free to change) -/
namespace RimeModel.C07
open RimeModel.C06

/-- keys of the recorded `std::map`s are distinct -/
def Graph.KeysNodup (g : Graph) : Prop := ∀ start idx, g.indexAt start = some idx → (idx.map (·.1)).Nodup

theorem lookupSyll_of_mem : ∀ (idx : List (Nat × List Edge)) (sp : Nat × List Edge), (idx.map (·.1)).Nodup → sp ∈ idx →
    lookupSyll idx sp.1 = some sp.2
  | [], _, _, h => by simp at h
  | x :: xs, sp, hnd, h => by
    simp only [List.map_cons, List.nodup_cons] at hnd
    unfold lookupSyll
    rw [List.find?_cons]
    rcases List.mem_cons.mp h with rfl | h
    · simp
    · have hne : x.1 ≠ sp.1 := by
        intro e
        apply hnd.1
        rw [e]
        exact List.mem_map_of_mem h
      have : (x.1 == sp.1) = false := by simpa using hne
      simp only [this]
      exact lookupSyll_of_mem xs sp hnd.2 h

theorem spells_snoc {g : Graph} : ∀ {c : List Nat} {s m : Nat} (y e : Nat), Spells g c s m → m < g.interpLen →
    g.hasEdge m y e → Spells g (c ++ [y]) s e
  | _, _, _, y, e, .nil _, hm, he => by
    simpa using Spells.cons hm he (Spells.nil e)
  | _, _, _, y, e, .cons h1 h2 h3, hm, he => by
    simpa using Spells.cons h1 h2 (spells_snoc y e h3 hm he)

theorem access_indexCode (t : Table) (q : TQ) (s : Nat) (a : Accessor) (h : access t q s = some a) :
    (q.indexCode.length < indexDepth → a.indexCode = q.indexCode ++ [s]) ∧
    (q.indexCode.length = indexDepth → a.indexCode = q.indexCode) := by
  unfold access at h
  match hq : q.indexCode with
  | [] =>
    simp only [hq] at h
    cases hh : t.head[s]? with
    | none => simp [hh] at h
    | some n => simp [hh] at h; subst h; simp [indexDepth]
  | [x] =>
    simp only [hq] at h
    cases h2 : trunk2 t x with
    | none => simp [h2] at h
    | some ns =>
      simp only [h2, Option.bind_some] at h
      cases h3 : findIn2 ns s with
      | none => simp [h3] at h
      | some n => simp [h3] at h; subst h; simp [indexDepth]
  | [x, y] =>
    simp only [hq] at h
    cases h2 : trunk3 t x y with
    | none => simp [h2] at h
    | some ns =>
      simp only [h2, Option.bind_some] at h
      cases h3 : findIn3 ns s with
      | none => simp [h3] at h
      | some n => simp [h3] at h; subst h; simp [indexDepth]
  | [x, y, z] =>
    simp only [hq] at h
    cases h2 : tailOf t x y z with
    | none => simp [h2] at h
    | some es => simp [h2] at h; subst h; simp [indexDepth]
  | _ :: _ :: _ :: _ :: _ => simp [hq] at h

/-- what holds of every state in the queue -/
def StateOk (g : Graph) (start : Nat) (st : Nat × TQ) : Prop :=
  Spells g st.2.indexCode start st.1 ∧ st.1 < g.interpLen

theorem expand_sound (t : Table) (g : Graph) (hk : g.KeysNodup) (start : Nat) (st : Nat × TQ) (hst : StateOk g start st) :
    (∀ em ∈ (expand t g st).1, Spells g em.2.indexCode start em.1) ∧
    (∀ st' ∈ (expand t g st).2, StateOk g start st') := by
  unfold expand
  cases hi : g.indexAt st.1 with
  | none => simp
  | some idx =>
    simp only
    by_cases hl : (st.2.level == indexDepth) = true
    · simp only [hl, if_true]
      have hlen : st.2.indexCode.length = indexDepth := by simpa [TQ.level] using hl
      cases ha : access t st.2 0 with
      | none => simp
      | some acc =>
        simp only
        constructor
        · intro em hem
          split at hem
          · simp at hem
          · simp only [List.mem_singleton] at hem
            subst hem
            simp only
            rw [(access_indexCode t st.2 0 acc ha).2 hlen]
            exact hst.1
        · simp
    · simp only [hl, Bool.false_eq_true, if_false]
      constructor
      · intro em hem
        simp only [List.mem_flatMap, List.mem_map] at hem
        obtain ⟨pr, ⟨sp, hsp, rfl⟩, hem⟩ := hem
        simp only at hem
        cases ha : access t st.2 sp.1 with
        | none => simp [ha] at hem
        | some acc =>
          simp only [ha] at hem
          split at hem
          · simp at hem
          · simp only [List.mem_map] at hem
            obtain ⟨p, hp, rfl⟩ := hem
            simp only
            have hlen : st.2.indexCode.length < indexDepth := by
              have h1 : st.2.indexCode.length ≠ indexDepth := by simpa [TQ.level] using hl
              -- access succeeded at a level ≤ 3
              unfold access at ha
              match hq : st.2.indexCode with
              | [] => simp [indexDepth]
              | [_] => simp [indexDepth]
              | [_, _] => simp [indexDepth]
              | [_, _, _] => simp [hq, indexDepth] at h1
              | _ :: _ :: _ :: _ :: _ => simp [hq] at ha
            rw [(access_indexCode t st.2 sp.1 acc ha).1 hlen]
            exact spells_snoc sp.1 p.endPos hst.1 hst.2
              ⟨idx, sp.2, p, hi, lookupSyll_of_mem idx sp (hk _ _ hi) hsp, hp, rfl⟩
      · intro st' hst'
        simp only [List.mem_flatMap, List.mem_map] at hst'
        obtain ⟨pr, ⟨sp, hsp, rfl⟩, hst'⟩ := hst'
        simp only [List.mem_filterMap] at hst'
        obtain ⟨p, hp, hst'⟩ := hst'
        split at hst'
        · rename_i hc
          simp only [Option.some.injEq] at hst'
          subst hst'
          simp only [Bool.and_eq_true, decide_eq_true_eq] at hc
          exact ⟨by
            simp only [advance]
            exact spells_snoc sp.1 p.endPos hst.1 hst.2
              ⟨idx, sp.2, p, hi, lookupSyll_of_mem idx sp (hk _ _ hi) hsp, hp, rfl⟩, hc.1⟩
        · simp at hst'

theorem round_sound (t : Table) (g : Graph) (hk : g.KeysNodup) (start : Nat) (sts : List (Nat × TQ))
    (h : ∀ st ∈ sts, StateOk g start st) :
    (∀ em ∈ (round t g sts).1, Spells g em.2.indexCode start em.1) ∧
    (∀ st' ∈ (round t g sts).2, StateOk g start st') := by
  unfold round
  simp only [List.mem_flatMap, List.mem_map]
  constructor
  · rintro em ⟨pr, ⟨st, hst, rfl⟩, hem⟩
    exact (expand_sound t g hk start st (h st hst)).1 em hem
  · rintro st' ⟨pr, ⟨st, hst, rfl⟩, hem⟩
    exact (expand_sound t g hk start st (h st hst)).2 st' hem

theorem query_sound' (t : Table) (g : Graph) (hk : g.KeysNodup) (start : Nat) (ems : List Emission)
    (h : query t g start = some ems) : ∀ em ∈ ems, Spells g em.2.indexCode start em.1 := by
  unfold query at h
  split at h
  · simp at h
  · rename_i hs
    simp only at h
    split at h
    · simp at h
    · simp only [Option.some.injEq] at h
      subst h
      have h0 : ∀ st ∈ [(start, TQ.init)], StateOk g start st := by
        intro st hst
        simp only [List.mem_singleton] at hst
        subst hst
        exact ⟨Spells.nil _, by omega⟩
      have r0 := round_sound t g hk start _ h0
      have r1 := round_sound t g hk start _ r0.2
      have r2 := round_sound t g hk start _ r1.2
      have r3 := round_sound t g hk start _ r2.2
      intro em hem
      simp only [List.mem_append] at hem
      rcases hem with ((h | h) | h) | h
      · exact r0.1 em h
      · exact r1.1 em h
      · exact r2.1 em h
      · exact r3.1 em h

end RimeModel.C07
