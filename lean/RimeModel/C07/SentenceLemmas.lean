import RimeModel.C07.TransLemmas
/-! C07: the word graph and the sentence translation of a table-style schema (helper lemmas; free to change) -/
namespace RimeModel.C07
open RimeModel.C06

theorem mem_takeWhile_prop {α : Type} (p : α → Bool) : ∀ (l : List α) (x : α), x ∈ l.takeWhile p → p x = true
  | [], _, h => by simp at h
  | a :: as, x, h => by
    rw [List.takeWhile_cons] at h
    split at h
    · rename_i ha
      rcases List.mem_cons.mp h with rfl | h
      · exact ha
      · exact mem_takeWhile_prop p as x h
    · simp at h

theorem consumeDelims_ge (delims input : Bytes) (pos : Nat) : pos ≤ consumeDelims delims input pos := by
  unfold consumeDelims; omega

/-- every byte the call steps over is a delimiter -/
theorem consumeDelims_delims (delims input : Bytes) (pos i : Nat) (h1 : pos ≤ i) (h2 : i < consumeDelims delims input pos) :
    ∃ b, input[i]? = some b ∧ delims.contains b = true := by
  unfold consumeDelims at h2
  have hlt : i - pos < ((input.drop pos).takeWhile (fun b => delims.contains b)).length := by omega
  have hmem := List.getElem_mem hlt
  have hp := mem_takeWhile_prop _ _ _ hmem
  generalize hl : input.drop pos = l at hlt hmem hp
  have hget : l[i - pos]? = some ((l.takeWhile (fun b => delims.contains b))[i - pos]) := by
    obtain ⟨t, ht⟩ := List.takeWhile_prefix (fun b => delims.contains b) (l := l)
    have h3 : (l.takeWhile (fun b => delims.contains b) ++ t)[i - pos]? = some ((l.takeWhile (fun b => delims.contains b))[i - pos]) := by
      rw [List.getElem?_append_left hlt, List.getElem?_eq_getElem hlt]
    rw [ht] at h3
    exact h3
  generalize (l.takeWhile (fun b => delims.contains b))[i - pos] = b at hget hp
  rw [← hl, List.getElem?_drop] at hget
  have : pos + (i - pos) = i := by omega
  rw [this] at hget
  exact ⟨b, hget, hp⟩

/-- what every edge of the word graph stands for: a key the prism found at its start, with words, followed by the
delimiters that come after it in the input -/
def EdgeOk (t : Table) (syl : List Bytes) (delims input : Bytes) (cps : Nat → List PrismKey) (e : Nat × Nat) : Prop :=
  ∃ m ∈ cps e.1, m.length ≠ 0 ∧ e.2 = e.1 + consumeDelims delims (input.drop e.1) m.length ∧
    (lookupWords t syl m.length [m]).isEmpty = false

theorem addMatch_edges (t : Table) (syl : List Bytes) (delims input : Bytes) (cps : Nat → List PrismKey) (start : Nat)
    (w : WordGraph) (m : PrismKey) (hm : m ∈ cps start) (hw : ∀ e ∈ w.edges, EdgeOk t syl delims input cps e) :
    ∀ e ∈ (addMatch t syl delims input start w m).edges, EdgeOk t syl delims input cps e := by
  unfold addMatch
  split
  · exact hw
  · rename_i h0
    simp only
    split
    · exact hw
    · split
      · exact hw
      · rename_i hne
        intro e he
        simp only [List.mem_append, List.mem_singleton] at he
        rcases he with he | rfl
        · exact hw e he
        · exact ⟨m, hm, by simpa using h0, rfl, by simpa using hne⟩

theorem foldl_addMatch_edges (t : Table) (syl : List Bytes) (delims input : Bytes) (cps : Nat → List PrismKey) (start : Nat) :
    ∀ (ms : List PrismKey) (w : WordGraph), (∀ m ∈ ms, m ∈ cps start) → (∀ e ∈ w.edges, EdgeOk t syl delims input cps e) →
    ∀ e ∈ (ms.foldl (addMatch t syl delims input start) w).edges, EdgeOk t syl delims input cps e
  | [], _, _, hw => hw
  | m :: ms, w, hms, hw => by
    simp only [List.foldl_cons]
    exact foldl_addMatch_edges t syl delims input cps start ms _ (fun x hx => hms x (by simp [hx]))
      (addMatch_edges t syl delims input cps start w m (hms m (by simp)) hw)

theorem wordGraphStep_edges (t : Table) (syl : List Bytes) (delims input : Bytes) (cps : Nat → List PrismKey) (w : WordGraph)
    (start : Nat) (hw : ∀ e ∈ w.edges, EdgeOk t syl delims input cps e) :
    ∀ e ∈ (wordGraphStep t syl delims input cps w start).edges, EdgeOk t syl delims input cps e := by
  unfold wordGraphStep
  split
  · exact foldl_addMatch_edges t syl delims input cps start _ w (fun m hm => by simpa using hm) hw
  · exact hw

theorem foldl_wordGraphStep_edges (t : Table) (syl : List Bytes) (delims input : Bytes) (cps : Nat → List PrismKey) :
    ∀ (ss : List Nat) (w : WordGraph), (∀ e ∈ w.edges, EdgeOk t syl delims input cps e) →
    ∀ e ∈ (ss.foldl (wordGraphStep t syl delims input cps) w).edges, EdgeOk t syl delims input cps e
  | [], _, hw => hw
  | s :: ss, w, hw => by
    simp only [List.foldl_cons]
    exact foldl_wordGraphStep_edges t syl delims input cps ss _ (wordGraphStep_edges t syl delims input cps w s hw)

/-- the words after the sentence -/
def sentenceWords (w : WordGraph) (start : Nat) : List Cand :=
  (keysOf w.collector).reverse.flatMap fun k =>
    (valuesAt w.collector k).flatMap fun chunks =>
      (drainAll { done := [], rest := chunks }).map fun ce =>
        { type := "table", start := start, endPos := start + k, text := ce.2.text }

theorem sentenceWords_shape (w : WordGraph) (start : Nat) :
    (sentenceWords w start).Pairwise (fun a b => b.endPos ≤ a.endPos) ∧
    ∀ c ∈ sentenceWords w start, c.type = "table" ∧ c.start = start := by
  constructor
  · unfold sentenceWords
    rw [List.pairwise_flatMap]
    constructor
    · intro k _
      rw [List.pairwise_flatMap]
      constructor
      · intro chunks _
        rw [List.pairwise_map]
        exact pairwise_const _ (fun _ _ => Nat.le_refl _)
      · refine pairwise_const _ ?_
        intro a b x hx y hy
        simp only [List.mem_map] at hx hy
        obtain ⟨_, _, rfl⟩ := hx
        obtain ⟨_, _, rfl⟩ := hy
        exact Nat.le_refl _
    · rw [List.pairwise_reverse]
      have := ascending_sortDedup natLt_strict (w.collector.map (·.1))
      unfold Ascending at this
      refine List.Pairwise.imp ?_ this
      intro a b hab x hx y hy
      simp only [List.mem_flatMap, List.mem_map] at hx hy
      obtain ⟨_, _, _, _, rfl⟩ := hx
      obtain ⟨_, _, _, _, rfl⟩ := hy
      simp only [natLt, decide_eq_true_eq] at hab
      simp only
      omega
  · intro c hc
    simp only [sentenceWords, List.mem_flatMap, List.mem_map] at hc
    obtain ⟨_, _, _, _, _, _, rfl⟩ := hc
    exact ⟨rfl, rfl⟩

end RimeModel.C07
