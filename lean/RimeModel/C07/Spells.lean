import RimeModel.C07.Model
/-!
# C07 — `spells`: the reference notion the lookup is measured against

`Spells g code s e`: there is a path in the syllable graph from position `s` to position `e` whose edges carry
the syllables of `code` in order; every edge of the path starts before `interpreted_length` (the walk never
continues from the end of the interpreted input).
-/
namespace RimeModel.C07

/-- an edge `start → endPos` carrying syllable `y` (some `SpellingProperties` in `indices[start][y]`) -/
def Graph.hasEdge (g : Graph) (start y endPos : Nat) : Prop :=
  ∃ idx props p, g.indexAt start = some idx ∧ lookupSyll idx y = some props ∧ p ∈ props ∧ p.endPos = endPos

inductive Spells (g : Graph) : List Nat → Nat → Nat → Prop where
  | nil (s : Nat) : Spells g [] s s
  | cons {y : Nat} {rest : List Nat} {s m e : Nat} :
      s < g.interpLen → g.hasEdge s y m → Spells g rest m e → Spells g (y :: rest) s e

/-- every edge goes forward (the syllabifier skips zero-length matches) -/
def Graph.Forward (g : Graph) : Prop := ∀ start y e, g.hasEdge start y e → start < e

/-- the step of the `for (props : spellings->second)` loop in `match_extra_code` -/
def bestStep (f : Edge → Option (Nat × Nat)) (best : Option (Nat × Nat)) (p : Edge) : Option (Nat × Nat) :=
  match f p with
  | none => best
  | some m => if (best.map (·.2)).getD 0 < m.2 then some m else best

end RimeModel.C07
