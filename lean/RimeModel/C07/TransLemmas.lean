import RimeModel.C07.IterLemmas
import RimeModel.C07.Translation
import RimeModel.C06.Lemmas
/-! C07: order of the translations, `DistinctTranslation` (helper lemmas; free to change) -/
namespace RimeModel.C07
open RimeModel.C06

/-- the phrase part of `scriptTranslation` -/
def scriptPhrases (lk : List (Nat × Iter)) (start : Nat) : List Cand :=
  lk.reverse.flatMap fun kv =>
    (drainAll kv.2).map fun ce =>
      { type := if ce.1.isPredictive then "completion" else "phrase", start := start, endPos := start + kv.1, text := ce.2.text }

theorem lookup_keys_ascending (t : Table) (g : Graph) (start : Nat) (predict : Bool) (ic : Dy) :
    ((lookup t g start predict ic).map (·.1)).Pairwise (fun a b => a < b) := by
  unfold lookup
  simp only [List.map_map, Function.comp_def, List.map_id']
  have := ascending_sortDedup natLt_strict ((lookupTable t g start predict ic).map (·.1))
  unfold Ascending at this
  refine List.Pairwise.imp ?_ this
  intro a b h
  simpa [natLt] using h

theorem pairwise_const {α : Type} {R : α → α → Prop} : ∀ (l : List α), (∀ a b, R a b) → l.Pairwise R
  | [], _ => List.Pairwise.nil
  | x :: xs, h => List.pairwise_cons.mpr ⟨fun b _ => h x b, pairwise_const xs h⟩

theorem scriptPhrases_order (lk : List (Nat × Iter)) (start : Nat)
    (hk : (lk.map (·.1)).Pairwise (fun a b => a < b)) :
    (scriptPhrases lk start).Pairwise (fun a b => b.endPos ≤ a.endPos) := by
  unfold scriptPhrases
  rw [List.pairwise_flatMap]
  constructor
  · intro kv _
    rw [List.pairwise_map]
    exact pairwise_const _ (fun _ _ => Nat.le_refl _)
  · rw [List.pairwise_reverse]
    rw [List.pairwise_map] at hk
    refine List.Pairwise.imp ?_ hk
    intro a b hab x hx y hy
    simp only [List.mem_map] at hx hy
    obtain ⟨_, _, rfl⟩ := hx
    obtain ⟨_, _, rfl⟩ := hy
    simp only
    omega

theorem scriptPhrases_types (lk : List (Nat × Iter)) (start : Nat) :
    ∀ c ∈ scriptPhrases lk start, (c.type = "phrase" ∨ c.type = "completion") ∧ c.start = start := by
  intro c hc
  simp only [scriptPhrases, List.mem_flatMap, List.mem_map] at hc
  obtain ⟨kv, _, ce, _, rfl⟩ := hc
  simp only
  by_cases h : ce.1.isPredictive = true
  · simp [h]
  · simp [h]

/-! ### `DistinctTranslation` -/

theorem distinct_sublist : ∀ (seen : List Bytes) (l : List Cand), (distinct seen l).Sublist l
  | _, [] => by simp [distinct]
  | seen, c :: cs => by
    unfold distinct
    split
    · exact (distinct_sublist seen cs).cons _
    · exact (distinct_sublist _ cs).cons₂ _

theorem distinct_not_seen : ∀ (seen : List Bytes) (l : List Cand), ∀ c ∈ distinct seen l, c.text ∉ seen
  | _, [], c, h => by simp [distinct] at h
  | seen, x :: xs, c, h => by
    unfold distinct at h
    split at h
    · exact distinct_not_seen seen xs c h
    · rename_i hx
      rcases List.mem_cons.mp h with rfl | h
      · simpa using hx
      · have := distinct_not_seen (x.text :: seen) xs c h
        intro hc
        exact this (by simp [hc])

theorem distinct_nodup' : ∀ (seen : List Bytes) (l : List Cand), ((distinct seen l).map (·.text)).Nodup
  | _, [] => by simp [distinct]
  | seen, x :: xs => by
    unfold distinct
    split
    · exact distinct_nodup' seen xs
    · simp only [List.map_cons, List.nodup_cons]
      refine ⟨?_, distinct_nodup' _ xs⟩
      intro hm
      obtain ⟨c, hc, hct⟩ := List.mem_map.mp hm
      exact distinct_not_seen (x.text :: seen) xs c hc (by simp [hct])

theorem distinct_complete : ∀ (seen : List Bytes) (l : List Cand), ∀ c ∈ l, c.text ∉ seen →
    ∃ c' ∈ distinct seen l, c'.text = c.text
  | _, [], c, h, _ => by simp at h
  | seen, x :: xs, c, h, hs => by
    unfold distinct
    by_cases hx : seen.contains x.text = true
    · simp only [hx, if_true]
      rcases List.mem_cons.mp h with rfl | h
      · exact absurd (by simpa using hx) hs
      · exact distinct_complete seen xs c h hs
    · simp only [hx, Bool.false_eq_true, if_false]
      rcases List.mem_cons.mp h with rfl | h
      · exact ⟨c, by simp, rfl⟩
      · by_cases hc : c.text = x.text
        · exact ⟨x, by simp, hc.symm⟩
        · obtain ⟨c', hc', ht⟩ := distinct_complete (x.text :: seen) xs c h (by simp [hc, hs])
          exact ⟨c', by simp [hc'], ht⟩

/-! ### words by code -/

theorem lookupWords_noEmpty (t : Table) (syl : List Bytes) (n : Nat) (keys : List PrismKey) :
    NoEmpty (lookupWords t syl n keys) := by
  intro c hc
  simp only [lookupWords, List.mem_flatMap, List.mem_filterMap] at hc
  obtain ⟨k, _, st, _, hc⟩ := hc
  split at hc
  · simp at hc
  · split at hc
    · rename_i a ha
      split at hc
      · simp at hc
      · rename_i hx
        split at hc
        · rename_i es hs
          simp only [Option.some.injEq] at hc
          subst hc
          simp only
          intro he
          apply hx
          simp [Accessor.exhausted, hs, he]
        · simp at hc
    · simp at hc

theorem lookupWords_remaining (t : Table) (syl : List Bytes) (n : Nat) (keys : List PrismKey)
    (hk : ∀ k ∈ keys, k.length = n) : ∀ c ∈ lookupWords t syl n keys, c.remaining = [] := by
  intro c hc
  simp only [lookupWords, List.mem_flatMap, List.mem_filterMap] at hc
  obtain ⟨k, hkm, st, _, hc⟩ := hc
  have hkl := hk k hkm
  split at hc
  · simp at hc
  · split at hc
    · split at hc
      · simp at hc
      · split at hc
        · simp only [Option.some.injEq] at hc
          subst hc
          simp [hkl]
        · simp at hc
    · simp at hc

/-- the weight-independent part of the order holds from the first entry on as soon as the chunk in front has a
minimal (exactness, remaining length) rank — no initial `Sort` needed for that -/
def HeadStatic (cs : List Chunk) : Prop :=
  match cs with
  | [] => True
  | c :: rest => ∀ x ∈ rest, staticBetter x c = false

theorem headStatic_of_headBest (cs : List Chunk) (hne : NoEmpty cs) (hb : HeadBest cs) : HeadStatic cs := by
  cases cs with
  | nil => trivial
  | cons c rest =>
    intro x hx
    exact static_of_not_better x c (hne x (by simp [hx])) (hne c (by simp)) (hb x hx)

theorem drain_static_order' : ∀ (fuel : Nat) (it : Iter), NoEmpty it.rest → HeadStatic it.rest →
    (Iter.drain fuel it).Pairwise (fun a b => staticBetter b.1 a.1 = false)
  | 0, _, _, _ => by simp [Iter.drain]
  | fuel + 1, it, hne, hb => by
    cases hr : it.rest with
    | nil => simp [Iter.drain, Iter.peek, hr]
    | cons c cs =>
      cases he : c.entries with
      | nil => exact absurd he (hne c (by simp [hr]))
      | cons e es =>
        simp only [Iter.drain, Iter.peek, hr, he]
        have hne' := next_noEmpty it hne
        refine List.pairwise_cons.mpr ⟨?_, drain_static_order' fuel it.next hne'
          (headStatic_of_headBest _ hne' (next_headBest it))⟩
        intro ce hce
        obtain ⟨x, hx, hs⟩ := drain_mem_same fuel it.next ce hne' hce
        have hx' := (next_rest it c cs e es hr he).mem_iff.mp hx
        rw [staticBetter_congr_left hs]
        have hcs : ∀ y ∈ cs, staticBetter y c = false := by
          intro y hy
          have := hb; rw [hr] at this; exact this y hy
        by_cases hes : es.isEmpty = true
        · simp only [hes, if_true] at hx'
          exact hcs x hx'
        · simp only [hes, Bool.false_eq_true, if_false] at hx'
          rcases List.mem_cons.mp hx' with rfl | hx'
          · rw [staticBetter_congr_left (⟨rfl, rfl, rfl, rfl⟩ : SameChunk { c with entries := es } c)]
            exact staticBetter_irrefl c
          · exact hcs x hx'

end RimeModel.C07
