import RimeModel.C07.Model
/-!
# C07 — what the translators emit

* `ScriptTranslation` (script_translator.cc: `Evaluate` 399-432, `Next/PrepareCandidate/CheckEmpty` 434-560):
  system dictionary only (no user dictionary, no corrector, no contextual suggestions).  An optional sentence
  first — the sentence itself is an ORACLE (`Poet`), the model decides only whether one is asked for — then the
  phrases by descending end position, each position's iterator drained in its own order.
* `Dictionary::LookupWords` (dictionary.cc:285-329) with the prism's answers as DATA (`PrismKey`s in
  `ExpandSearch` order; the prism is C09's), `TableTranslation` / `LazyTableTranslation` (table_translator.cc
  33-200): limit 10, ×10 whenever the iterator runs dry, `Skip(previous_entry_count)` on the re-done lookup.
* `DistinctTranslation` (translation.cc:189-207): a text is shown once.
-/
namespace RimeModel.C07
open RimeModel.C06

structure Cand where
  type : String
  start : Nat
  endPos : Nat
  text : Bytes
deriving Repr, BEq, DecidableEq

/-- `DictEntry::IsPredictiveMatch` of the entry `Peek` builds from a chunk -/
def Chunk.isPredictive (c : Chunk) : Bool := c.matching != 0 && decide (c.matching < c.code.length)

def drainAll (it : Iter) : List (Chunk × Entry Dy) :=
  Iter.drain (totalEntries it.rest + it.rest.length + 1) it

/-- `has_exact_match_phrase(phrase_, phrase_->rbegin(), consumed)` -/
def hasExactMatchPhrase (lk : List (Nat × Iter)) (consumed : Nat) : Bool :=
  match lk.getLast? with
  | none => false
  | some kv => kv.1 == consumed && (match kv.2.peek with
      | some ce => !ce.1.isPredictive
      | none => false)

/-- candidates of `ScriptTranslation` in emission order (before `DistinctTranslation`).
`sentence` = what `MakeSentence` returns when it is called (oracle). -/
def scriptTranslation (t : Table) (g : Graph) (start endOfInput : Nat) (wordCompletion : Bool)
    (sentence : Option Cand) : List Cand :=
  let consumed := g.interpLen
  let predict := wordCompletion && (start + consumed == endOfInput)
  let lk := lookup t g 0 predict Dy.zero
  if lk.isEmpty then []
  else
    let sent := if decide (2 ≤ g.edgeStarts) && !hasExactMatchPhrase lk consumed then sentence else none
    sent.toList ++ lk.reverse.flatMap fun kv =>
      (drainAll kv.2).map fun ce =>
        { type := if ce.1.isPredictive then "completion" else "phrase", start := start, endPos := start + kv.1, text := ce.2.text }

/-- `DistinctTranslation`: skip candidates whose text was already shown -/
def distinct : List Bytes → List Cand → List Cand
  | _, [] => []
  | seen, c :: cs => if seen.contains c.text then distinct seen cs else c :: distinct (c.text :: seen) cs

/-! ## words by code string -/

/-- one key the prism returns: `match.length` and the spellings stored for it (syllable id, spelling type) -/
structure PrismKey where
  length : Nat
  sylls : List (Nat × Nat)
deriving Repr

/-- the chunks `LookupWords` adds for a list of keys; `syllabary` spells syllable ids (`GetSyllableById`) -/
def lookupWords (t : Table) (syllabary : List Bytes) (codeLen : Nat) (keys : List PrismKey) : List Chunk :=
  keys.flatMap fun k => k.sylls.filterMap fun st =>
    if 0 < st.2 then none     -- type > kNormalSpelling
    else
      let syl := syllabary.getD st.1 []
      let remaining : Bytes := if codeLen < k.length && codeLen < syl.length then syl.drop codeLen else []
      match access t TQ.init st.1 with
      | some a => if a.exhausted then none else
          (match a.span with
           | .entries es => some { code := [st.1], entries := es, remaining := remaining, matching := 1, cred := Dy.zero }
           | .tail _ => none)
      | none => none

/-- `DictEntryIterator::Skip(n)` on the chunks from `chunk_index_` on (no re-sorting, no filters):
chunks stepped over, chunks left -/
def skipChunks : Nat → List Chunk → List Chunk × List Chunk
  | _, [] => ([], [])
  | n, c :: cs =>
    if n == 0 then ([], c :: cs)
    else if n < c.entries.length then ([], { c with entries := c.entries.drop n } :: cs)
    else
      let r := skipChunks (n - c.entries.length) cs
      ({ c with entries := [] } :: r.1, r.2)

def Iter.skip (n : Nat) (it : Iter) : Iter :=
  let r := skipChunks n it.rest
  { done := it.done ++ r.1, rest := r.2 }

/-- state of `LazyTableTranslation`: `limit_`, `iter_`, `iter_.entry_count()` -/
structure Lazy where
  limit : Nat
  it : Iter
  entryCount : Nat
deriving Repr

/-- `FetchMoreTableEntries`; `keys` = the prism's expansion of the code without limit (a limited search
returns its first `limit` keys: C09 `expand_exact`) -/
def fetchMore (sortWords : Bool) (t : Table) (syllabary : List Bytes) (codeLen : Nat) (keys : List PrismKey) (z : Lazy) : Lazy :=
  if z.limit == 0 then z
  else
    let got := keys.take z.limit
    let more := lookupWords t syllabary codeLen got
    let limit' := if got.length < z.limit then 0 else z.limit * 10
    if z.entryCount < totalEntries more then
      let it := Iter.skip z.entryCount { done := [], rest := more }
      { limit := limit', it := if sortWords then it.sort else it, entryCount := totalEntries more }
    else { z with limit := limit' }

/-- `TableTranslation::Next` until exhausted; `fuel` bounds the number of candidates -/
def lazyDrain (sortWords : Bool) (t : Table) (syllabary : List Bytes) (codeLen : Nat) (keys : List PrismKey) :
    Nat → Lazy → List (Chunk × Entry Dy)
  | 0, _ => []
  | fuel + 1, z =>
    match z.it.peek with
    | none => []
    | some ce =>
      let it' := z.it.next
      let z' : Lazy := { z with it := it' }
      let z'' := if it'.exhausted then fetchMore sortWords t syllabary codeLen keys z' else z'
      ce :: lazyDrain sortWords t syllabary codeLen keys fuel z''

def trimRightDelims (delims : Bytes) (l : Bytes) : Bytes := (l.reverse.dropWhile (fun b => delims.contains b)).reverse

def tableCand (start endPos : Nat) (ce : Chunk × Entry Dy) : Cand :=
  { type := if ce.1.remaining.isEmpty then "table" else "completion", start := start, endPos := endPos, text := ce.2.text }

/-- candidates of `TableTranslator::Query` before `DistinctTranslation`: user dictionary, encoder, sentence and
charset filter off.  `exactKey` = the prism's `GetValue(code)`, `expansion` = `ExpandSearch(code)` unlimited.
`sortWords` = does the translator `Sort()` the iterator `LookupWords` filled before the first `Peek`?
The code does (`true`) since the repair of finding `C07:table:exact-order` (table_translator.cc: `iter.Sort()`
after the exact lookup, `more.Sort()` after `Skip`); `false` is the code before that repair, kept only for
`old_table_translation_counterexample`. -/
def tableTranslationWith (sortWords : Bool) (t : Table) (syllabary : List Bytes) (delims : Bytes) (input : Bytes) (start : Nat)
    (completion : Bool) (exactKey : Option PrismKey) (expansion : List PrismKey) : List Cand :=
  let code := trimRightDelims delims input
  let endPos := start + input.length
  if completion then
    let z := fetchMore sortWords t syllabary code.length expansion { limit := 10, it := { done := [], rest := [] }, entryCount := 0 }
    (lazyDrain sortWords t syllabary code.length expansion (totalEntries (lookupWords t syllabary code.length expansion) + 1) z).map
      (tableCand start endPos)
  else
    let it : Iter := { done := [], rest := lookupWords t syllabary code.length exactKey.toList }
    (drainAll (if sortWords then it.sort else it)).map (tableCand start endPos)

/-- `TableTranslator::Query` as it is: the iterator is sorted before the first entry is shown -/
def tableTranslation := tableTranslationWith true

/-! ## sentences of a table-style schema  (`TableTranslator::MakeSentence`, table_translator.cc:547-673;
`SentenceTranslation` 412-520; static-dictionary branch only — user dictionary and encoder are off)

When `enable_sentence` is on and the plain translation is empty, a word graph is built over the input: from every
reachable start position the prism's `CommonPrefixSearch` of the rest of the input (DATA, longest key first), each
key followed by the delimiters after it (`consume_trailing_delimiters` on the rest of the input), an edge for every
key that has words (`LookupWords`, exact).  `Poet` (ORACLE for the sentence itself) returns a sentence iff the end
of the input is reachable without the single edge that spans everything.  The translation is the sentence and then
the words that start the input, longest (with its delimiters) first, each iterator as `LookupWords` left it. -/

/-- `consume_trailing_delimiters(pos, input, delimiters)` -/
def consumeDelims (delims : Bytes) (input : Bytes) (pos : Nat) : Nat :=
  pos + ((input.drop pos).takeWhile (fun b => delims.contains b)).length

structure WordGraph where
  vertices : List Nat                      -- reachable positions (`vertices`)
  edges : List (Nat × Nat)                 -- (start, end) that got words, in insertion order
  collector : List (Nat × List Chunk)      -- consumed length ↦ chunks of the words that start the input
deriving Repr

/-- one prism match at `start` (`max_homographs_` = 1: a second key for the same edge is skipped) -/
def addMatch (t : Table) (syllabary : List Bytes) (delims input : Bytes) (start : Nat) (w : WordGraph) (m : PrismKey) : WordGraph :=
  if m.length == 0 then w
  else
    let consumed := consumeDelims delims (input.drop start) m.length
    let endPos := start + consumed
    if w.edges.contains (start, endPos) then w
    else
      let chunks := lookupWords t syllabary m.length [m]
      if chunks.isEmpty then w
      else { vertices := endPos :: w.vertices, edges := w.edges ++ [(start, endPos)],
             collector := if start == 0 then w.collector ++ [(consumed, chunks)] else w.collector }

/-- the body of `for (start_pos = 0; start_pos < input.length(); ++start_pos)`; `cps start` = the prism's
`CommonPrefixSearch(input.substr(start))` in its own order (the code walks it in reverse) -/
def wordGraphStep (t : Table) (syllabary : List Bytes) (delims input : Bytes) (cps : Nat → List PrismKey)
    (w : WordGraph) (start : Nat) : WordGraph :=
  if w.vertices.contains start then (cps start).reverse.foldl (addMatch t syllabary delims input start) w else w

def wordGraph (t : Table) (syllabary : List Bytes) (delims input : Bytes) (cps : Nat → List PrismKey) : WordGraph :=
  (List.range input.length).foldl (wordGraphStep t syllabary delims input cps) { vertices := [0], edges := [], collector := [] }

/-- `Poet::MakeSentence` returns a sentence iff `total` is reachable from 0 along edges other than (0, total) -/
def poetReaches (edges : List (Nat × Nat)) (total : Nat) : Bool :=
  ((List.range total).foldl (fun (reach : List Nat) s =>
      if reach.contains s then reach ++ (edges.filter (fun e => e.1 == s && !(s == 0 && e.2 == total))).map (·.2) else reach) [0]).contains total

/-- `SentenceTranslation`: the sentence, then the collector from its largest key down -/
def sentenceTranslation (w : WordGraph) (start total : Nat) (sentence : Option Cand) : List Cand :=
  if poetReaches w.edges total then
    match sentence with
    | none => []          -- the oracle says Poet found nothing: no translation at all
    | some s =>
      s :: ((keysOf w.collector).reverse.flatMap fun k =>
        (valuesAt w.collector k).flatMap fun chunks =>
          (drainAll { done := [], rest := chunks }).map fun ce =>
            { type := "table", start := start, endPos := start + k, text := ce.2.text })
  else []

/-- `TableTranslator::Query` with `enable_sentence`: the plain translation, or — when that is empty — the sentence
translation of the whole (untrimmed) input -/
def tableQuery (t : Table) (syllabary : List Bytes) (delims input : Bytes) (start : Nat) (completion enableSentence : Bool)
    (exactKey : Option PrismKey) (expansion : List PrismKey) (cps : Nat → List PrismKey) (sentence : Option Cand) : List Cand :=
  let plain := tableTranslation t syllabary delims input start completion exactKey expansion
  if !plain.isEmpty || !enableSentence then plain
  else sentenceTranslation (wordGraph t syllabary delims input cps) start input.length sentence

/-- the translator before the repair of `C07:table:exact-order` (first entry = head of the first chunk) -/
def tableTranslationOld := tableTranslationWith false

end RimeModel.C07
