/-
C08 — association lists keyed by `Nat`, kept sorted by key: the model of `std::map<size_t|int, T>`.

`find?` returns the first binding of a key, `insert` is the ordered insert-or-replace
(`m[k] = v`), `erase` removes every binding of the key, `modify` updates in place (a C++
reference into the map).  The lookup laws hold for every list; iteration order (= key order, as
for `std::map`) needs `Sorted`, which every operation preserves.
-/
namespace RimeModel.C08

abbrev AMap (β : Type) := List (Nat × β)

namespace AMap
variable {β : Type}

def find? : AMap β → Nat → Option β
  | [], _ => none
  | (k', v) :: t, k => if k' = k then some v else find? t k

def insert : AMap β → Nat → β → AMap β
  | [], k, v => [(k, v)]
  | (k', v') :: t, k, v =>
    if k < k' then (k, v) :: (k', v') :: t
    else if k = k' then (k, v) :: t
    else (k', v') :: insert t k v

def erase (m : AMap β) (k : Nat) : AMap β := m.filter (fun kv => kv.1 != k)

def modify (m : AMap β) (k : Nat) (f : β → β) : AMap β :=
  m.map (fun kv => if kv.1 = k then (kv.1, f kv.2) else kv)

def keys (m : AMap β) : List Nat := m.map (·.1)

/-- first binding whose key is `≥ k` (lower_bound on a sorted map) -/
def firstGE : AMap β → Nat → Option (Nat × β)
  | [], _ => none
  | kv :: t, k => if k ≤ kv.1 then some kv else firstGE t k

def contains (m : AMap β) (k : Nat) : Bool := (find? m k).isSome

def Sorted (m : AMap β) : Prop := (keys m).Pairwise (· < ·)

end AMap
end RimeModel.C08
