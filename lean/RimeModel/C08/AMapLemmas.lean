import RimeModel.C08.AMap
/-! lookup / ordering laws of the `AMap` operations -/
namespace RimeModel.C08.AMap
variable {β γ : Type}

@[simp] theorem find?_nil (k : Nat) : find? ([] : AMap β) k = none := rfl

theorem find?_cons (k' : Nat) (v : β) (t : AMap β) (k : Nat) :
    find? ((k', v) :: t) k = if k' = k then some v else find? t k := rfl

theorem find?_insert (m : AMap β) (k k' : Nat) (v : β) :
    find? (insert m k v) k' = if k = k' then some v else find? m k' := by
  induction m with
  | nil => simp [insert, find?_cons]
  | cons h t ih =>
    obtain ⟨a, b⟩ := h
    simp only [insert]
    by_cases h1 : k < a
    · simp [h1, find?_cons]
    · by_cases h2 : k = a
      · subst h2
        simp [find?_cons]
        split <;> simp_all
      · simp only [h1, h2, if_false, find?_cons, ih]
        by_cases h3 : a = k'
        · subst h3; simp [h2]
        · simp [h3]

theorem find?_insert_self (m : AMap β) (k : Nat) (v : β) : find? (insert m k v) k = some v := by
  simp [find?_insert]

theorem find?_insert_ne (m : AMap β) {k k' : Nat} (v : β) (h : k ≠ k') :
    find? (insert m k v) k' = find? m k' := by
  simp [find?_insert, h]

theorem find?_erase (m : AMap β) (k k' : Nat) :
    find? (erase m k) k' = if k = k' then none else find? m k' := by
  induction m with
  | nil => simp [erase]
  | cons h t ih =>
    obtain ⟨a, b⟩ := h
    unfold erase at ih ⊢
    simp only [List.filter_cons]
    by_cases h1 : a = k
    · subst h1
      simp only [bne_self_eq_false, Bool.false_eq_true, if_false, ih, find?_cons]
      by_cases h2 : a = k' <;> simp [h2]
    · have : (a != k) = true := by simp [h1]
      simp only [this, if_true, find?_cons, ih]
      by_cases h2 : a = k'
      · subst h2
        have : ¬ k = a := fun h => h1 h.symm
        simp [this]
      · simp [h2]

theorem find?_modify (m : AMap β) (k k' : Nat) (f : β → β) :
    find? (modify m k f) k' = if k = k' then (find? m k').map f else find? m k' := by
  induction m with
  | nil => simp [modify]
  | cons h t ih =>
    obtain ⟨a, b⟩ := h
    unfold modify at ih ⊢
    simp only [List.map_cons]
    by_cases h1 : a = k
    · subst h1
      simp only [if_true, find?_cons, ih]
      by_cases h2 : a = k' <;> simp [h2]
    · simp only [h1, if_false, find?_cons, ih]
      by_cases h2 : a = k'
      · subst h2
        have : ¬ k = a := fun h => h1 h.symm
        simp [this]
      · simp [h2]

theorem find?_mapVal (m : AMap β) (f : β → γ) (k : Nat) :
    find? (m.map (fun kv => (kv.1, f kv.2)) : AMap γ) k = (find? m k).map f := by
  induction m with
  | nil => simp
  | cons h t ih =>
    obtain ⟨a, b⟩ := h
    simp only [List.map_cons, find?_cons, ih]
    split <;> simp

theorem mem_of_find? {m : AMap β} {k : Nat} {v : β} (h : find? m k = some v) : (k, v) ∈ m := by
  induction m with
  | nil => simp at h
  | cons hd t ih =>
    obtain ⟨a, b⟩ := hd
    rw [find?_cons] at h
    by_cases h1 : a = k
    · simp [h1] at h
      simp [h1, h]
    · simp [h1] at h
      exact List.mem_cons_of_mem _ (ih h)

theorem find?_isSome_iff {m : AMap β} {k : Nat} : (find? m k).isSome ↔ k ∈ keys m := by
  induction m with
  | nil => simp [keys]
  | cons hd t ih =>
    obtain ⟨a, b⟩ := hd
    rw [find?_cons]
    by_cases h1 : a = k
    · simp [h1, keys]
    · have h2 : ¬ k = a := fun h => h1 h.symm
      simp only [h1, if_false, ih, keys, List.map_cons, List.mem_cons, h2, false_or]

theorem find?_eq_none_iff {m : AMap β} {k : Nat} : find? m k = none ↔ k ∉ keys m := by
  rw [← find?_isSome_iff]
  cases find? m k <;> simp

theorem mem_keys_of_mem {m : AMap β} {k : Nat} {v : β} (h : (k, v) ∈ m) : k ∈ keys m := by
  unfold keys
  exact List.mem_map.mpr ⟨(k, v), h, rfl⟩

theorem sorted_cons {a : Nat} {b : β} {t : AMap β} :
    Sorted ((a, b) :: t) ↔ (∀ k ∈ keys t, a < k) ∧ Sorted t := by
  unfold Sorted keys
  simp [List.pairwise_cons]

theorem sorted_nil : Sorted ([] : AMap β) := by
  unfold Sorted keys; simp

theorem find?_of_mem_sorted {m : AMap β} (hs : Sorted m) {k : Nat} {v : β} (h : (k, v) ∈ m) :
    find? m k = some v := by
  induction m with
  | nil => simp at h
  | cons hd t ih =>
    obtain ⟨a, b⟩ := hd
    rw [sorted_cons] at hs
    rw [find?_cons]
    rcases List.mem_cons.mp h with h1 | h1
    · cases h1; simp
    · have := hs.1 k (mem_keys_of_mem h1)
      have h2 : ¬ a = k := by omega
      simp [h2, ih hs.2 h1]

theorem mem_keys_insert {m : AMap β} {k k' : Nat} {v : β} :
    k' ∈ keys (insert m k v) ↔ k' = k ∨ k' ∈ keys m := by
  rw [← find?_isSome_iff, ← find?_isSome_iff, find?_insert]
  by_cases h : k = k'
  · simp [h]
  · have : ¬ k' = k := fun h' => h h'.symm
    simp [h, this]

theorem sorted_insert {m : AMap β} (hs : Sorted m) (k : Nat) (v : β) : Sorted (insert m k v) := by
  induction m with
  | nil => simp [insert, Sorted, keys]
  | cons hd t ih =>
    obtain ⟨a, b⟩ := hd
    have hs' := sorted_cons.mp hs
    simp only [insert]
    by_cases h1 : k < a
    · simp only [h1, if_true]
      rw [sorted_cons]
      refine ⟨?_, hs⟩
      intro x hx
      simp only [keys, List.map_cons, List.mem_cons] at hx
      rcases hx with hx | hx
      · omega
      · have := hs'.1 x hx; omega
    · by_cases h2 : k = a
      · subst h2
        simp only [Nat.lt_irrefl, if_false, if_true]
        rw [sorted_cons]; exact hs'
      · simp only [h1, h2, if_false]
        rw [sorted_cons]
        refine ⟨?_, ih hs'.2⟩
        intro x hx
        rcases mem_keys_insert.mp hx with hx | hx
        · omega
        · exact hs'.1 x hx

theorem sorted_sublist {m m' : AMap β} (h : List.Sublist m' m) (hs : Sorted m) : Sorted m' := by
  unfold Sorted keys at *
  exact List.Pairwise.sublist (List.Sublist.map _ h) hs

theorem sorted_filter {m : AMap β} (hs : Sorted m) (p : Nat × β → Bool) : Sorted (m.filter p : AMap β) :=
  sorted_sublist List.filter_sublist hs

theorem sorted_erase {m : AMap β} (hs : Sorted m) (k : Nat) : Sorted (erase m k) :=
  sorted_filter hs _

theorem keys_modify (m : AMap β) (k : Nat) (f : β → β) : keys (modify m k f) = keys m := by
  unfold keys modify
  rw [List.map_map]
  apply List.map_congr_left
  intro kv _
  simp only [Function.comp]
  split <;> rfl

theorem sorted_modify {m : AMap β} (hs : Sorted m) (k : Nat) (f : β → β) : Sorted (modify m k f) := by
  unfold Sorted; rw [keys_modify]; exact hs

theorem keys_mapVal (m : AMap β) (f : β → γ) : keys (m.map (fun kv => (kv.1, f kv.2)) : AMap γ) = keys m := by
  unfold keys
  rw [List.map_map]
  rfl

theorem sorted_mapVal {m : AMap β} (hs : Sorted m) (f : β → γ) :
    Sorted (m.map (fun kv => (kv.1, f kv.2)) : AMap γ) := by
  unfold Sorted; rw [keys_mapVal]; exact hs

theorem nodup_keys {m : AMap β} (hs : Sorted m) : (keys m).Nodup := by
  unfold Sorted at hs
  exact List.Pairwise.imp (fun h => Nat.ne_of_lt h) hs

/-- lookup in a filtered sorted map -/
theorem find?_filter {m : AMap β} (hs : Sorted m) (p : Nat × β → Bool) (k : Nat) :
    find? (m.filter p : AMap β) k = (find? m k).bind (fun v => if p (k, v) then some v else none) := by
  induction m with
  | nil => simp
  | cons hd t ih =>
    obtain ⟨a, b⟩ := hd
    have hs' := sorted_cons.mp hs
    rw [List.filter_cons, find?_cons]
    by_cases h1 : a = k
    · subst h1
      have hn : find? t a = none := by
        rw [find?_eq_none_iff]
        intro hx
        have := hs'.1 a hx
        omega
      by_cases h2 : p (a, b) = true
      · simp [h2, find?_cons]
      · simp only [h2, if_false, Bool.false_eq_true, if_true, Option.bind_some]
        rw [ih hs'.2, hn]; rfl
    · by_cases h2 : p (a, b) = true
      · simp [h2, find?_cons, h1, ih hs'.2]
      · simp [h2, h1, ih hs'.2]

theorem eq_nil_of_find?_none {m : AMap β} (h : ∀ k, find? m k = none) : m = [] := by
  cases m with
  | nil => rfl
  | cons hd t =>
    obtain ⟨a, b⟩ := hd
    have := h a
    simp [find?_cons] at this

theorem exists_find?_of_ne_nil {m : AMap β} (h : m ≠ []) : ∃ k v, find? m k = some v := by
  cases m with
  | nil => exact absurd rfl h
  | cons hd t =>
    obtain ⟨a, b⟩ := hd
    exact ⟨a, b, by simp [find?_cons]⟩

theorem insert_ne_nil (m : AMap β) (k : Nat) (v : β) : insert m k v ≠ [] := by
  intro h
  have := find?_insert_self m k v
  rw [h] at this
  simp at this

end RimeModel.C08.AMap
