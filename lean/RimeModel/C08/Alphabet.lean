import RimeModel.C08.Final
/-! C08 — `ExpandSearch` is complete over an alphabet that covers the spellings (the stored alphabet of
a loaded prism does), so for a loaded prism "the expand search yields a spelling" is "the remainder
begins a spelling". -/
namespace RimeModel.C08

theorem mem_insertChar {c x : UInt8} : ∀ {l : Bytes}, x ∈ insertChar c l ↔ x = c ∨ x ∈ l := by
  intro l
  induction l with
  | nil => simp [insertChar]
  | cons d t ih =>
    unfold insertChar
    by_cases h1 : c = d
    · subst h1; simp
    · rw [if_neg h1]
      by_cases h2 : charKey c < charKey d
      · rw [if_pos h2]; simp
      · rw [if_neg h2]
        simp only [List.mem_cons, ih]
        constructor
        · rintro (h | h | h)
          · exact Or.inr (Or.inl h)
          · exact Or.inl h
          · exact Or.inr (Or.inr h)
        · rintro (h | h | h)
          · exact Or.inr (Or.inl h)
          · exact Or.inl h
          · exact Or.inr (Or.inr h)

theorem mem_foldl_insertChar {x : UInt8} : ∀ (cs acc : Bytes),
    x ∈ cs.foldl (fun s c => insertChar c s) acc ↔ x ∈ cs ∨ x ∈ acc := by
  intro cs
  induction cs with
  | nil => intro acc; simp
  | cons c t ih =>
    intro acc
    simp only [List.foldl_cons, ih, mem_insertChar, List.mem_cons]
    constructor
    · rintro (h | h | h)
      · exact Or.inl (Or.inr h)
      · exact Or.inl (Or.inl h)
      · exact Or.inr h
    · rintro ((h | h) | h)
      · exact Or.inr (Or.inl h)
      · exact Or.inl h
      · exact Or.inr (Or.inr h)

/-- the stored alphabet holds exactly the characters that occur in some spelling -/
theorem mem_buildAlphabet {pr : Prism} {x : UInt8} : x ∈ buildAlphabet pr ↔ ∃ row ∈ pr, x ∈ row.1 := by
  unfold buildAlphabet
  rw [mem_foldl_insertChar]
  simp [List.mem_flatMap]

theorem isPath_iff {pr : Prism} {s : Bytes} : isPath pr s = true ↔ ∃ row ∈ pr, s <+: row.1 := by
  unfold isPath
  simp [List.any_eq_true, List.isPrefixOf_iff_prefix]

theorem foldl_max_ge (pr : Prism) : ∀ (m : Nat), m ≤ pr.foldl (fun m row => max m row.1.length) m := by
  induction pr with
  | nil => intro m; exact Nat.le_refl _
  | cons r t ih => intro m; exact Nat.le_trans (Nat.le_max_left _ _) (ih _)

theorem le_maxKeyLen {pr : Prism} {row : Bytes × List Desc} (h : row ∈ pr) : row.1.length ≤ maxKeyLen pr := by
  unfold maxKeyLen
  suffices ∀ (m : Nat), row.1.length ≤ pr.foldl (fun m row => max m row.1.length) m from this 0
  induction pr with
  | nil => simp at h
  | cons r t ih =>
    intro m
    rcases List.mem_cons.mp h with h1 | h1
    · subst h1
      exact Nat.le_trans (Nat.le_max_right _ _) (foldl_max_ge t _)
    · exact ih h1 _

theorem mem_matchesOf {pr : Prism} {nodes : List Bytes} {k : Bytes} {i : Nat}
    (hk : k ∈ nodes) (hi : keyIndex pr k = some i) : (i, k.length) ∈ matchesOf pr nodes := by
  unfold matchesOf
  exact List.mem_filterMap.mpr ⟨k, hk, by rw [hi]⟩

/-- the walk reaches every spelling below a frontier node through characters of the alphabet -/
theorem expandLoop_complete {pr : Prism} {al : Bytes} {i : Nat} : ∀ (fuel : Nat) (frontier : List Bytes)
    (node suffix : Bytes), node ∈ frontier → suffix ≠ [] → suffix.length ≤ fuel → (∀ c ∈ suffix, c ∈ al) →
    keyIndex pr (node ++ suffix) = some i →
    (i, (node ++ suffix).length) ∈ expandLoop pr al fuel frontier := by
  intro fuel
  induction fuel with
  | zero =>
    intro frontier node suffix _ hne hlen
    cases suffix with
    | nil => exact absurd rfl hne
    | cons c t => simp at hlen
  | succ fuel ih =>
    intro frontier node suffix hn hne hlen hal hi
    cases suffix with
    | nil => exact absurd rfl hne
    | cons c rest =>
      obtain ⟨row, hrow, hrk⟩ := keyIndex_some hi
      have hmem : row ∈ pr := List.mem_of_getElem? hrow
      have hpath : isPath pr (node ++ [c]) = true := by
        refine isPath_iff.mpr ⟨row, hmem, ?_⟩
        rw [hrk]
        exact ⟨rest, by simp⟩
      have hchild : node ++ [c] ∈ expandLevel pr al frontier := by
        unfold expandLevel
        refine List.mem_flatMap.mpr ⟨node, hn, List.mem_filterMap.mpr ⟨c, hal c (by simp), ?_⟩⟩
        rw [if_pos hpath]
      have hassoc : node ++ c :: rest = (node ++ [c]) ++ rest := by simp
      unfold expandLoop
      by_cases hr : rest = []
      · subst hr
        refine List.mem_append_left _ ?_
        exact mem_matchesOf hchild hi
      · refine List.mem_append_right _ ?_
        rw [hassoc] at hi ⊢
        exact ih _ (node ++ [c]) rest hchild hr (by simpa using hlen) (fun x hx => hal x (by simp [hx])) hi

/-- `ExpandSearch` without a limit finds every spelling that begins with the key, provided the
alphabet it walks contains the characters of that spelling beyond the key -/
theorem expandSearch_complete {pr : Prism} {al key k : Bytes} {i : Nat} (hi : keyIndex pr k = some i)
    (hpre : key <+: k) (hal : ∀ c ∈ k.drop key.length, c ∈ al) :
    (i, k.length) ∈ expandSearch pr al key 0 := by
  obtain ⟨row, hrow, hrk⟩ := keyIndex_some hi
  have hmem : row ∈ pr := List.mem_of_getElem? hrow
  have hpath : isPath pr key = true := isPath_iff.mpr ⟨row, hmem, by rw [hrk]; exact hpre⟩
  unfold expandSearch
  rw [if_pos hpath]
  simp only [if_true]
  obtain ⟨suffix, hs⟩ := hpre
  by_cases hne : suffix = []
  · subst hne
    simp at hs
    subst hs
    exact List.mem_append_left _ (mem_matchesOf (by simp) hi)
  · refine List.mem_append_right _ ?_
    have hdrop : k.drop key.length = suffix := by rw [← hs]; simp
    rw [← hs] at hi ⊢
    refine expandLoop_complete _ _ key suffix (by simp) hne ?_ (by rw [← hdrop]; exact hal) hi
    have := le_maxKeyLen hmem
    rw [hrk, ← hs] at this
    simp at this
    omega

/-- a search whose unlimited result fits the limit is not cut by it -/
theorem expandSearch_limit_of_le {pr : Prism} {al key : Bytes} {limit : Nat}
    (h : (expandSearch pr al key 0).length ≤ limit) : expandSearch pr al key limit = expandSearch pr al key 0 := by
  unfold expandSearch at h ⊢
  by_cases hp : isPath pr key = true
  · simp only [hp, if_true] at h ⊢
    by_cases hl : limit = 0
    · simp [hl]
    · simp only [hl, if_false]; exact List.take_of_length_le h
  · simp [hp]

/-- the alphabet a loaded prism walks covers every spelling -/
theorem searchAlphabet_loaded_covers {pr : Prism} {row : Bytes × List Desc} (h : row ∈ pr) :
    ∀ c ∈ row.1, c ∈ searchAlphabet true pr := by
  intro c hc
  unfold searchAlphabet
  rw [if_pos rfl]
  exact mem_buildAlphabet.mpr ⟨row, h, hc⟩

end RimeModel.C08
