import RimeModel.C08.Spec
import RimeModel.C08.AMapLemmas
/-! C08 — lemmas on the prism searches and on delimiter skipping -/
namespace RimeModel.C08

theorem takeWhile_len_get {α} (p : α → Bool) :
    ∀ (l : List α) (b : α), l[(l.takeWhile p).length]? = some b → p b = false := by
  intro l
  induction l with
  | nil => intro b h; simp at h
  | cons a t ih =>
    intro b h
    by_cases hp : p a = true
    · simp [hp] at h
      exact ih b h
    · simp [hp] at h
      subst h; simpa using hp

theorem takeWhile_app_len {α} (p : α → Bool) (dl rest : List α) (h1 : ∀ b ∈ dl, p b = true)
    (h2 : ∀ b, rest.head? = some b → p b = false) :
    ((dl ++ rest).takeWhile p).length = dl.length := by
  induction dl with
  | nil =>
    cases rest with
    | nil => simp
    | cons a t =>
      have := h2 a (by simp)
      simp [this]
  | cons a t ih =>
    have ha := h1 a (by simp)
    simp [ha]
    exact ih (fun b hb => h1 b (by simp [hb]))

theorem of_mem_takeWhile {α} (p : α → Bool) : ∀ (l : List α) (b : α), b ∈ l.takeWhile p → p b = true := by
  intro l
  induction l with
  | nil => intro b h; simp at h
  | cons a t ih =>
    intro b h
    by_cases hp : p a = true
    · simp only [List.takeWhile_cons, hp, if_true, List.mem_cons] at h
      rcases h with h | h
      · rw [h]; exact hp
      · exact ih b h
    · simp [hp] at h

/-- computational form of `Spans` -/
def SpansC (delims inp : Bytes) (s e : Nat) (k : Bytes) : Prop :=
  k ≠ [] ∧ k <+: inp.drop s ∧ e = skipDelims delims inp (s + k.length)

theorem spansC_bounds {delims inp : Bytes} {s e : Nat} {k : Bytes} (h : SpansC delims inp s e k) :
    s < s + k.length ∧ s + k.length ≤ e ∧ e ≤ inp.length := by
  obtain ⟨hk, hp, he⟩ := h
  have hl := hp.length_le
  simp at hl
  have hk' : 0 < k.length := List.length_pos_iff.mpr hk
  unfold skipDelims at he
  have := (List.takeWhile_sublist (fun b => delims.contains b) (l := inp.drop (s + k.length))).length_le
  rw [List.length_drop] at this
  omega

theorem spans_of_spansC {delims inp : Bytes} {s e : Nat} {k : Bytes} (h : SpansC delims inp s e k) :
    Spans delims inp s e k := by
  have hb := spansC_bounds h
  obtain ⟨hk, hp, he⟩ := h
  refine ⟨hk, hb.2.2, ?_, ?_⟩
  · refine ⟨(inp.drop (s + k.length)).takeWhile (fun b => delims.contains b), ?_, ?_⟩
    · obtain ⟨r, hr⟩ := hp
      have hr2 : inp.drop (s + k.length) = r := by
        rw [← List.drop_drop, ← hr]; simp
      unfold skipDelims at he
      rw [← hr, hr2]
      rw [hr2] at he
      have : e - s = k.length + (List.takeWhile (fun b => delims.contains b) r).length := by omega
      rw [this, List.take_length_add_append]
      congr 1
      exact (List.prefix_iff_eq_take.mp (List.takeWhile_prefix _)).symm
    · intro b hb
      have := of_mem_takeWhile _ _ _ hb
      simpa using this
  · intro b hb
    unfold skipDelims at he
    have h2 : (inp.drop (s + k.length))[((inp.drop (s + k.length)).takeWhile (fun b => delims.contains b)).length]? = some b := by
      rw [List.getElem?_drop, ← he]; exact hb
    have := takeWhile_len_get _ _ _ h2
    simpa using this

theorem spansC_of_spans {delims inp : Bytes} {s e : Nat} {k : Bytes} (h : Spans delims inp s e k) :
    SpansC delims inp s e k := by
  obtain ⟨hk, hle, ⟨dl, htext, hdl⟩, hg⟩ := h
  have hk' : 0 < k.length := List.length_pos_iff.mpr hk
  have hlen := congrArg List.length htext
  simp at hlen
  have hse : s + k.length + dl.length = e := by omega
  have hpre : k <+: inp.drop s := by
    have h1 : k <+: (inp.drop s).take (e - s) := by rw [htext]; exact List.prefix_append _ _
    exact h1.trans (List.take_prefix _ _)
  refine ⟨hk, hpre, ?_⟩
  have hsplit : inp.drop s = (k ++ dl) ++ inp.drop e := by
    rw [← htext]
    have : inp.drop e = (inp.drop s).drop (e - s) := by rw [List.drop_drop]; congr 1; omega
    rw [this, List.take_append_drop]
  have hr : inp.drop (s + k.length) = dl ++ inp.drop e := by
    rw [← List.drop_drop, hsplit, List.append_assoc, List.drop_left]
  unfold skipDelims
  rw [hr, takeWhile_app_len]
  · omega
  · intro b hb; simpa using hdl b hb
  · intro b hb
    have : inp[e]? = some b := by
      rw [← hb, List.head?_drop]
    simpa using hg b this

theorem spans_iff {delims inp : Bytes} {s e : Nat} {k : Bytes} :
    Spans delims inp s e k ↔ SpansC delims inp s e k :=
  ⟨spansC_of_spans, spans_of_spansC⟩

end RimeModel.C08
