import RimeModel.C08.PruneSpec
/-! C08 — the completion edge, `ExpandSearch`, and `Transpose` -/
namespace RimeModel.C08
open AMap

/-! ### ExpandSearch only reports spellings that begin with the searched string -/

def ExpandOK (pr : Prism) (key : Bytes) (m : Nat × Nat) : Prop :=
  ∃ k, keyIndex pr k = some m.1 ∧ key <+: k ∧ m.2 = k.length

theorem matchesOf_ok {pr : Prism} {key : Bytes} {nodes : List Bytes} (h : ∀ x ∈ nodes, key <+: x)
    {m : Nat × Nat} (hm : m ∈ matchesOf pr nodes) : ExpandOK pr key m := by
  unfold matchesOf at hm
  obtain ⟨k, hk, hf⟩ := List.mem_filterMap.mp hm
  cases hq : keyIndex pr k with
  | none => rw [hq] at hf; cases hf
  | some v =>
    rw [hq] at hf
    simp only [Option.some.injEq] at hf
    subst hf
    exact ⟨k, hq, h k hk, rfl⟩

theorem expandLevel_prefix {pr : Prism} {al : Bytes} {key : Bytes} {frontier : List Bytes}
    (h : ∀ x ∈ frontier, key <+: x) : ∀ x ∈ expandLevel pr al frontier, key <+: x := by
  intro x hx
  unfold expandLevel at hx
  obtain ⟨node, hn, hx⟩ := List.mem_flatMap.mp hx
  obtain ⟨c, _, hc⟩ := List.mem_filterMap.mp hx
  split at hc
  · simp only [Option.some.injEq] at hc
    subst hc
    exact (h node hn).trans (List.prefix_append _ _)
  · cases hc

theorem expandLoop_ok {pr : Prism} {al : Bytes} {key : Bytes} (fuel : Nat) :
    ∀ (frontier : List Bytes), (∀ x ∈ frontier, key <+: x) →
      ∀ m ∈ expandLoop pr al fuel frontier, ExpandOK pr key m := by
  induction fuel with
  | zero => intro _ _ m hm; simp [expandLoop] at hm
  | succ fuel ih =>
    intro frontier h m hm
    unfold expandLoop at hm
    rcases List.mem_append.mp hm with h1 | h1
    · exact matchesOf_ok (expandLevel_prefix h) h1
    · exact ih _ (expandLevel_prefix h) m h1

theorem expandSearch_ok {pr : Prism} {al key : Bytes} {limit : Nat} {m : Nat × Nat}
    (hm : m ∈ expandSearch pr al key limit) : ExpandOK pr key m := by
  unfold expandSearch at hm
  split at hm
  · have hall : ∀ m ∈ matchesOf pr [key] ++ expandLoop pr al (maxKeyLen pr) [key], ExpandOK pr key m := by
      intro m hm
      have hk : ∀ x ∈ [key], key <+: x := by
        intro x hx; simp at hx; subst hx; exact List.prefix_refl _
      rcases List.mem_append.mp hm with h1 | h1
      · exact matchesOf_ok hk h1
      · exact expandLoop_ok _ _ hk m h1
    simp only at hm
    split at hm
    · exact hall m hm
    · exact hall m (List.mem_of_mem_take hm)
  · simp at hm

/-! ### the accessor loops of the completion branch -/

structure ComplInv (pr : Prism) (codeLen endPos : Nat) (done : List (Nat × Nat)) (sp : SMap) : Prop where
  sorted : Sorted sp
  sound : ∀ syl p, sp.find? syl = some p →
    p.type = kCompletion ∧ p.endPos = endPos ∧ p.compl = 1 ∧ p.amb = 0 ∧
    ∃ m ∈ done, codeLen ≤ m.2 ∧ ∃ d ∈ descsOf pr m.1, d.syl = syl ∧ d.type < kAbbrev
  complete : ∀ m ∈ done, codeLen ≤ m.2 → ∀ d ∈ descsOf pr m.1, d.type < kAbbrev → ∃ p, sp.find? d.syl = some p

/-- the accessor loop of one key: old entries stay, every normal/fuzzy reading gets an entry -/
structure ComplDescInv (endPos : Nat) (sp : SMap) (dd : List Desc) (sp' : SMap) : Prop where
  sorted : Sorted sp → Sorted sp'
  keepOld : ∀ syl p, sp.find? syl = some p → sp'.find? syl = some p
  sound : ∀ syl p, sp'.find? syl = some p → sp.find? syl = some p ∨
    (p.type = kCompletion ∧ p.endPos = endPos ∧ p.compl = 1 ∧ p.amb = 0 ∧ ∃ d ∈ dd, d.syl = syl ∧ d.type < kAbbrev)
  complete : ∀ d ∈ dd, d.type < kAbbrev → ∃ p, sp'.find? d.syl = some p

theorem addCompl_fold (endPos : Nat) (sp : SMap) (ds : List Desc) :
    ComplDescInv endPos sp ds (ds.foldl (addCompl endPos) sp) := by
  apply foldl_inv (addCompl endPos) (ComplDescInv endPos sp)
  · exact ⟨fun h => h, fun _ _ h => h, fun _ _ h => Or.inl h, fun d hd => by simp at hd⟩
  · intro dd sp' d _ inv
    unfold addCompl
    by_cases hty : d.type < kAbbrev
    · rw [if_pos hty]
      cases hq : sp'.find? d.syl with
      | some q =>
        simp only
        refine ⟨inv.sorted, inv.keepOld, ?_, ?_⟩
        · intro syl p hp
          rcases inv.sound syl p hp with h | ⟨a, b, c, e, d', hd', r⟩
          · exact Or.inl h
          · exact Or.inr ⟨a, b, c, e, d', List.mem_append_left _ hd', r⟩
        · intro d' hd' hty'
          rcases List.mem_append.mp hd' with h | h
          · exact inv.complete d' h hty'
          · simp at h; subst h; exact ⟨q, hq⟩
      | none =>
        simp only
        refine ⟨fun h => sorted_insert (inv.sorted h) _ _, ?_, ?_, ?_⟩
        · intro syl p hp
          have := inv.keepOld syl p hp
          rw [find?_insert]
          split
          · rename_i hs; subst hs; rw [hq] at this; cases this
          · exact this
        · intro syl p hp
          rw [find?_insert] at hp
          split at hp
          · rename_i hs
            cases hp
            exact Or.inr ⟨rfl, rfl, rfl, rfl, d, by simp, hs, hty⟩
          · rcases inv.sound syl p hp with h | ⟨a, b, c, e, d', hd', r⟩
            · exact Or.inl h
            · exact Or.inr ⟨a, b, c, e, d', List.mem_append_left _ hd', r⟩
        · intro d' hd' hty'
          rcases List.mem_append.mp hd' with h | h
          · obtain ⟨p, hp⟩ := inv.complete d' h hty'
            rw [find?_insert]
            split
            · exact ⟨_, rfl⟩
            · exact ⟨p, hp⟩
          · simp at h; subst h
            exact ⟨_, find?_insert_self _ _ _⟩
    · rw [if_neg hty]
      refine ⟨inv.sorted, inv.keepOld, ?_, ?_⟩
      · intro syl p hp
        rcases inv.sound syl p hp with h | ⟨a, b, c, e, d', hd', r⟩
        · exact Or.inl h
        · exact Or.inr ⟨a, b, c, e, d', List.mem_append_left _ hd', r⟩
      · intro d' hd' hty'
        rcases List.mem_append.mp hd' with h | h
        · exact inv.complete d' h hty'
        · simp at h; subst h; exact absurd hty' hty

theorem complKey_fold (pr : Prism) (codeLen endPos : Nat) (keys : List (Nat × Nat)) :
    ComplInv pr codeLen endPos keys (keys.foldl (complKey pr codeLen endPos) []) := by
  apply foldl_inv (complKey pr codeLen endPos) (ComplInv pr codeLen endPos)
  · exact ⟨sorted_nil, fun syl p h => by simp at h, fun m hm => by simp at hm⟩
  · intro done sp m _ inv
    unfold complKey
    by_cases hl : m.2 < codeLen
    · rw [if_pos hl]
      refine ⟨inv.sorted, ?_, ?_⟩
      · intro syl p hp
        obtain ⟨a, b, c, d, m', hm', rest⟩ := inv.sound syl p hp
        exact ⟨a, b, c, d, m', List.mem_append_left _ hm', rest⟩
      · intro m' hm' hl' d hd hty
        rcases List.mem_append.mp hm' with h | h
        · exact inv.complete m' h hl' d hd hty
        · simp at h; subst h; omega
    · rw [if_neg hl]
      have dinv := addCompl_fold endPos sp (descsOf pr m.1)
      refine ⟨dinv.sorted inv.sorted, ?_, ?_⟩
      · intro syl p hp
        rcases dinv.sound syl p hp with h | ⟨a, b, c, e, d, hd, h1, h2⟩
        · obtain ⟨a, b, c, d, m', hm', rest⟩ := inv.sound syl p h
          exact ⟨a, b, c, d, m', List.mem_append_left _ hm', rest⟩
        · exact ⟨a, b, c, e, m, by simp, by omega, d, hd, h1, h2⟩
      · intro m' hm' hl' d hd hty
        rcases List.mem_append.mp hm' with h | h
        · obtain ⟨p, hp⟩ := inv.complete m' h hl' d hd hty
          exact ⟨p, dinv.keepOld _ p hp⟩
        · simp at h; subst h
          exact dinv.complete d hd hty

end RimeModel.C08

namespace RimeModel.C08
open AMap

/-! ### the completion step on a graph whose farthest vertex has no out-edge -/

def complKeys (cfg : Cfg) (pr : Prism) (inp : Bytes) (F : Nat) : List (Nat × Nat) :=
  expandSearch pr cfg.alphabet (inp.drop F) kExpandSearchLimit

def complSM (cfg : Cfg) (pr : Prism) (inp : Bytes) (F : Nat) : SMap :=
  (complKeys cfg pr inp F).foldl (complKey pr (inp.length - F) inp.length) []

/-- completion applies: the flag is on, the input is not exhausted, and the (limited) expand
search below the remainder yields a spelling with a normal or fuzzy reading -/
def ComplCond (cfg : Cfg) (pr : Prism) (inp : Bytes) (F : Nat) : Prop :=
  cfg.completion = true ∧ F < inp.length ∧
  ∃ m ∈ complKeys cfg pr inp F, inp.length - F ≤ m.2 ∧ ∃ d ∈ descsOf pr m.1, d.type < kAbbrev

theorem complSM_ne_nil_iff (cfg : Cfg) (pr : Prism) (inp : Bytes) (F : Nat) :
    complSM cfg pr inp F ≠ [] ↔
      ∃ m ∈ complKeys cfg pr inp F, inp.length - F ≤ m.2 ∧ ∃ d ∈ descsOf pr m.1, d.type < kAbbrev := by
  have inv := complKey_fold pr (inp.length - F) inp.length (complKeys cfg pr inp F)
  constructor
  · intro h
    obtain ⟨syl, p, hp⟩ := exists_find?_of_ne_nil h
    obtain ⟨_, _, _, _, m, hm, hl, d, hd, _, hty⟩ := inv.sound syl p hp
    exact ⟨m, hm, hl, d, hd, hty⟩
  · rintro ⟨m, hm, hl, d, hd, hty⟩ hnil
    obtain ⟨p, hp⟩ := inv.complete m hm hl d hd hty
    unfold complSM at hnil
    rw [hnil] at hp
    simp at hp

theorem complete_eq {cfg : Cfg} {pr : Prism} {inp : Bytes} {E : EMap} {F : Nat}
    (hev : (E.find? F).getD [] = []) :
    complete cfg pr inp E F =
      if cfg.completion = true ∧ F < inp.length then
        if complKeys cfg pr inp F = [] then (E, F)
        else if complSM cfg pr inp F = [] then (E.insert F [], F)
        else (E.insert F [(inp.length, complSM cfg pr inp F)], inp.length)
      else (E, F) := by
  unfold complete
  by_cases h1 : cfg.completion = true ∧ F < inp.length
  · have h1' : (cfg.completion && decide (F < inp.length)) = true := by simp [h1.1, h1.2]
    rw [if_pos h1', if_pos h1]
    simp only [hev, find?_nil, Option.getD_none]
    have hk : expandSearch pr cfg.alphabet (inp.drop F) kExpandSearchLimit = complKeys cfg pr inp F := rfl
    rw [hk]
    by_cases h2 : complKeys cfg pr inp F = []
    · simp [h2]
    · have h2' : (complKeys cfg pr inp F).isEmpty = false := by
        cases h : (complKeys cfg pr inp F).isEmpty with
        | false => rfl
        | true => exact absurd (by simpa using h) h2
      rw [if_neg h2]
      simp only [h2', Bool.false_eq_true, if_false]
      have hs : (complKeys cfg pr inp F).foldl (complKey pr (inp.length - F) inp.length) [] = complSM cfg pr inp F := rfl
      rw [hs]
      by_cases h3 : complSM cfg pr inp F = []
      · simp [h3, AMap.erase]
      · have h3' : (complSM cfg pr inp F).isEmpty = false := by
          cases h : (complSM cfg pr inp F).isEmpty with
          | false => rfl
          | true => exact absurd (by simpa using h) h3
        rw [if_neg h3]
        simp only [h3', Bool.false_eq_true, if_false]
        rfl
  · have h1' : (cfg.completion && decide (F < inp.length)) = false := by
      cases hc : cfg.completion <;> simp_all
    rw [if_neg h1]
    simp [h1']

/-- `complete` when completion applies / does not apply -/
theorem complete_pos {cfg : Cfg} {pr : Prism} {inp : Bytes} {E : EMap} {F : Nat}
    (hev : (E.find? F).getD [] = []) (hc : ComplCond cfg pr inp F) :
    complete cfg pr inp E F = (E.insert F [(inp.length, complSM cfg pr inp F)], inp.length) := by
  rw [complete_eq hev]
  obtain ⟨h1, h2, h3⟩ := hc
  have hne := (complSM_ne_nil_iff cfg pr inp F).mpr h3
  have hk : complKeys cfg pr inp F ≠ [] := by
    obtain ⟨m, hm, _⟩ := h3
    intro h; rw [h] at hm; simp at hm
  rw [if_pos ⟨h1, h2⟩, if_neg hk, if_neg hne]

theorem complete_neg {cfg : Cfg} {pr : Prism} {inp : Bytes} {E : EMap} {F : Nat}
    (hev : (E.find? F).getD [] = []) (hc : ¬ ComplCond cfg pr inp F) :
    complete cfg pr inp E F = (E, F) ∨ complete cfg pr inp E F = (E.insert F [], F) := by
  rw [complete_eq hev]
  by_cases h1 : cfg.completion = true ∧ F < inp.length
  · rw [if_pos h1]
    by_cases hk : complKeys cfg pr inp F = []
    · rw [if_pos hk]; exact Or.inl rfl
    · rw [if_neg hk]
      by_cases hs : complSM cfg pr inp F = []
      · rw [if_pos hs]; exact Or.inr rfl
      · exfalso
        exact hc ⟨h1.1, h1.2, (complSM_ne_nil_iff cfg pr inp F).mp hs⟩
  · rw [if_neg h1]; exact Or.inl rfl

end RimeModel.C08
