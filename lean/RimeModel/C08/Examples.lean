import RimeModel.C08.Transpose
/-! C08 — concrete data for the non-vacuity examples of Props/C08.lean, and the bridge from the
row-wise (decidable) form of the prism hypotheses -/
namespace RimeModel.C08
open AMap

theorem keyIndex_mem {pr : Prism} {k : Bytes} {i : Nat} (h : keyIndex pr k = some i) :
    ∃ row ∈ pr, row.1 = k ∧ descsOf pr i = row.2 := by
  obtain ⟨row, h1, h2⟩ := keyIndex_some h
  refine ⟨row, List.mem_of_getElem? h1, h2, ?_⟩
  unfold descsOf; rw [h1]

theorem stored_mem {pr : Prism} {k : Bytes} {d : Desc} (h : Stored pr k d) :
    ∃ row ∈ pr, row.1 = k ∧ d ∈ row.2 := by
  obtain ⟨i, h1, h2⟩ := h
  obtain ⟨row, hr, hk, hd⟩ := keyIndex_mem h1
  exact ⟨row, hr, hk, by rw [← hd]; exact h2⟩

/-- the decidable, row-wise form of `PrismTypesOK` -/
theorem prismTypesOK_of_rows {pr : Prism} (h : ∀ row ∈ pr, ∀ d ∈ row.2, d.type ≤ kInvalid) : PrismTypesOK pr := by
  intro k d hst
  obtain ⟨row, hr, _, hd⟩ := stored_mem hst
  exact h row hr d hd

/-- spellings `a`, `an`, `na` (normal) and the abbreviation `n` of `na`; delimiter `'`; completion on -/
def exCfg : Cfg := { delims := [39], completion := true, strict := false, alphabet := [97, 110] }
def exPrism : Prism :=
  [([97], [⟨0, 0, 0⟩]), ([97, 110], [⟨1, 0, 0⟩]), ([110, 97], [⟨2, 0, 0⟩]), ([110], [⟨2, 2, 7⟩])]
/-- `an'a` -/
def exInp : Bytes := [97, 110, 39, 97]
/-- `an'n` : tileable to 4 through the abbreviation; `anan`: the abbreviation path a|na|n is pruned -/
def exInp2 : Bytes := [97, 110, 97, 110]
/-- `an'x` with completion: nothing begins with `x`; `an'na`-prefix `an'n` would tile, so use `a'n` strictly -/
def exInp3 : Bytes := [97, 39, 110]
/-- strict spelling, completion on: a lone abbreviation may not span the whole input -/
def exCfgStrict : Cfg := { delims := [39], completion := true, strict := true, alphabet := [97, 110] }

end RimeModel.C08
