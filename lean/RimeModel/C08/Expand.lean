import RimeModel.C08.Basic
/-! C08 — what the loop over matches at one position (`expandAt`) computes -/
namespace RimeModel.C08
open AMap

/-- invariant-style reasoning about `foldl` with the list of elements already consumed -/
theorem foldl_inv {α β} (f : β → α → β) (P : List α → β → Prop) (l : List α) (init : β)
    (h0 : P [] init) (hstep : ∀ done acc x, x ∈ l → P done acc → P (done ++ [x]) (f acc x)) :
    P l (l.foldl f init) := by
  suffices h : ∀ (rest done : List α) (acc : β), (∀ x ∈ rest, x ∈ l) → P done acc →
      P (done ++ rest) (rest.foldl f acc) by
    simpa using h l [] init (fun x hx => hx) h0
  intro rest
  induction rest with
  | nil => intro done acc _ h; simpa using h
  | cons x t ih =>
    intro done acc hsub h
    have := ih (done ++ [x]) (f acc x) (fun y hy => hsub y (List.mem_cons_of_mem _ hy))
      (hstep done acc x (hsub x (by simp)) h)
    simpa using this

/-! ### keyIndex / commonPrefixSearch -/

theorem keyIndex_some {pr : Prism} {k : Bytes} {i : Nat} (h : keyIndex pr k = some i) :
    ∃ row, pr[i]? = some row ∧ row.1 = k := by
  induction pr generalizing i with
  | nil => simp [keyIndex] at h
  | cons row rest ih =>
    unfold keyIndex at h
    by_cases h1 : row.1 = k
    · simp [h1] at h
      subst h
      exact ⟨row, by simp, h1⟩
    · simp only [h1, if_false] at h
      cases h2 : keyIndex rest k with
      | none => simp [h2] at h
      | some j =>
        simp [h2] at h
        subst h
        obtain ⟨r, hr1, hr2⟩ := ih h2
        exact ⟨r, by simpa using hr1, hr2⟩

theorem mem_cps {pr : Prism} {s : Bytes} {v l : Nat} :
    (v, l) ∈ commonPrefixSearch pr s ↔ 1 ≤ l ∧ l ≤ s.length ∧ keyIndex pr (s.take l) = some v := by
  unfold commonPrefixSearch
  rw [List.mem_filterMap]
  constructor
  · rintro ⟨i, hi, h⟩
    rw [List.mem_range] at hi
    cases h2 : keyIndex pr (s.take (i + 1)) with
    | none => simp [h2] at h
    | some w =>
      simp [h2] at h
      obtain ⟨h3, h4⟩ := h
      subst h3; subst h4
      exact ⟨by omega, by omega, h2⟩
  · rintro ⟨h1, h2, h3⟩
    refine ⟨l - 1, by rw [List.mem_range]; omega, ?_⟩
    have : l - 1 + 1 = l := by omega
    rw [this, h3]

theorem cps_iff {pr : Prism} {inp : Bytes} {cur v l : Nat} :
    (v, l) ∈ commonPrefixSearch pr (inp.drop cur) ↔
      ∃ k, k ≠ [] ∧ k <+: inp.drop cur ∧ k.length = l ∧ keyIndex pr k = some v := by
  rw [mem_cps]
  constructor
  · rintro ⟨h1, h2, h3⟩
    refine ⟨(inp.drop cur).take l, ?_, List.take_prefix _ _, ?_, h3⟩
    · intro h
      have := congrArg List.length h
      rw [List.length_take, List.length_nil] at this
      omega
    · rw [List.length_take]; omega
  · rintro ⟨k, hk, hp, hl, hi⟩
    have h1 : 0 < k.length := List.length_pos_iff.mpr hk
    have h2 := hp.length_le
    have h3 := List.prefix_iff_eq_take.mp hp
    refine ⟨by omega, by omega, ?_⟩
    rw [← hl, ← h3]; exact hi

end RimeModel.C08

namespace RimeModel.C08
open AMap

/-! ### the accessor loop -/

/-- all fields but the type agree -/
def SameButType (p q : Props) : Prop :=
  p.endPos = q.endPos ∧ p.cred = q.cred ∧ p.compl = q.compl ∧ p.amb = q.amb

def newEntry (e : Nat) (sm : SMap) (d : Desc) : Props :=
  match sm.find? d.syl with
  | none => ⟨d.type, e, d.cred, 0, 0⟩
  | some p => { p with type := min p.type d.type }

theorem addDesc_skip {drop : Bool} {e : Nat} {acc : SMap × Nat} {d : Desc}
    (h : (drop && d.type != kNormal) = true) : addDesc drop e acc d = acc := by
  unfold addDesc; simp [h]

theorem addDesc_fst {drop : Bool} {e : Nat} {acc : SMap × Nat} {d : Desc}
    (h : (drop && d.type != kNormal) = false) :
    (addDesc drop e acc d).1 = acc.1.insert d.syl (newEntry e acc.1 d) := by
  unfold addDesc newEntry
  simp only [h, Bool.false_eq_true, if_false]
  cases acc.1.find? d.syl <;> rfl

theorem addDesc_snd {drop : Bool} {e : Nat} {acc : SMap × Nat} {d : Desc}
    (h : (drop && d.type != kNormal) = false) :
    (addDesc drop e acc d).2 = if acc.2 > d.type then d.type else acc.2 := by
  unfold addDesc
  simp only [h, Bool.false_eq_true, if_false]

structure DescInv (drop : Bool) (e : Nat) (sm0 : SMap) (t0 : Nat) (done : List Desc) (acc : SMap × Nat) : Prop where
  mono : ∀ syl p0, sm0.find? syl = some p0 →
    ∃ p, acc.1.find? syl = some p ∧ p.type ≤ p0.type ∧ SameButType p p0
  complete : ∀ d ∈ done, (drop && d.type != kNormal) = false →
    ∃ p, acc.1.find? d.syl = some p ∧ p.type ≤ d.type
  sound : ∀ syl p, acc.1.find? syl = some p →
    (∃ p0, sm0.find? syl = some p0 ∧ SameButType p p0 ∧
      (p.type = p0.type ∨ ∃ d ∈ done, (drop && d.type != kNormal) = false ∧ d.syl = syl ∧ d.type = p.type)) ∨
    (sm0.find? syl = none ∧ p.endPos = e ∧ p.compl = 0 ∧ p.amb = 0 ∧
      ∃ d ∈ done, (drop && d.type != kNormal) = false ∧ d.syl = syl ∧ d.type = p.type)
  evtLe : acc.2 ≤ t0
  evtMin : ∀ d ∈ done, (drop && d.type != kNormal) = false → acc.2 ≤ d.type
  evtWit : acc.2 = t0 ∨ ∃ syl p, acc.1.find? syl = some p ∧ p.type ≤ acc.2
  sorted : Sorted sm0 → Sorted acc.1

theorem descInv_fold (drop : Bool) (e : Nat) (sm0 : SMap) (t0 : Nat) (ds : List Desc) :
    DescInv drop e sm0 t0 ds (ds.foldl (addDesc drop e) (sm0, t0)) := by
  apply foldl_inv (addDesc drop e) (DescInv drop e sm0 t0)
  · exact {
      mono := fun syl p0 h => ⟨p0, h, Nat.le_refl _, rfl, rfl, rfl, rfl⟩
      complete := fun d hd => by simp at hd
      sound := fun syl p h => Or.inl ⟨p, h, ⟨rfl, rfl, rfl, rfl⟩, Or.inl rfl⟩
      evtLe := Nat.le_refl _
      evtMin := fun d hd => by simp at hd
      evtWit := Or.inl rfl
      sorted := fun h => h }
  · intro done acc d _ inv
    by_cases hadm : (drop && d.type != kNormal) = true
    · rw [addDesc_skip hadm]
      exact {
        mono := inv.mono
        complete := fun d' hd' h' => by
          rcases List.mem_append.mp hd' with h1 | h1
          · exact inv.complete d' h1 h'
          · simp at h1; subst h1; rw [hadm] at h'; cases h'
        sound := fun syl p h => by
          rcases inv.sound syl p h with ⟨p0, h1, h2, h3⟩ | ⟨h1, h2, h3, h4, d', hd', h5⟩
          · refine Or.inl ⟨p0, h1, h2, ?_⟩
            rcases h3 with h3 | ⟨d', hd', h5⟩
            · exact Or.inl h3
            · exact Or.inr ⟨d', List.mem_append_left _ hd', h5⟩
          · exact Or.inr ⟨h1, h2, h3, h4, d', List.mem_append_left _ hd', h5⟩
        evtLe := inv.evtLe
        evtMin := fun d' hd' h' => by
          rcases List.mem_append.mp hd' with h1 | h1
          · exact inv.evtMin d' h1 h'
          · simp at h1; subst h1; rw [hadm] at h'; cases h'
        evtWit := inv.evtWit
        sorted := inv.sorted }
    · have hadm' : (drop && d.type != kNormal) = false := by
        cases h : (drop && d.type != kNormal) <;> simp_all
      have hfst := addDesc_fst (e := e) (acc := acc) hadm'
      have hsnd := addDesc_snd (e := e) (acc := acc) hadm'
      -- the entry written at d.syl
      have hnew : (addDesc drop e acc d).1.find? d.syl = some (newEntry e acc.1 d) := by
        rw [hfst, find?_insert_self]
      have hother : ∀ syl, syl ≠ d.syl → (addDesc drop e acc d).1.find? syl = acc.1.find? syl := by
        intro syl hne
        rw [hfst, find?_insert_ne _ _ (fun h => hne h.symm)]
      -- description of the new entry
      have hne_type : (newEntry e acc.1 d).type ≤ d.type := by
        unfold newEntry
        cases acc.1.find? d.syl with
        | none => exact Nat.le_refl _
        | some p => exact Nat.min_le_right _ _
      exact {
        mono := fun syl p0 h => by
          obtain ⟨p, h1, h2, h3⟩ := inv.mono syl p0 h
          by_cases hs : syl = d.syl
          · subst hs
            refine ⟨newEntry e acc.1 d, hnew, ?_, ?_⟩
            · unfold newEntry; rw [h1]
              exact Nat.le_trans (Nat.min_le_left _ _) h2
            · unfold newEntry; rw [h1]; exact h3
          · exact ⟨p, by rw [hother syl hs]; exact h1, h2, h3⟩
        complete := fun d' hd' h' => by
          have key : ∀ d'' : Desc, (∃ p, acc.1.find? d''.syl = some p ∧ p.type ≤ d''.type) →
              ∃ p, (addDesc drop e acc d).1.find? d''.syl = some p ∧ p.type ≤ d''.type := by
            intro d'' ⟨p, h1, h2⟩
            by_cases hs : d''.syl = d.syl
            · refine ⟨newEntry e acc.1 d, by rw [hs]; exact hnew, ?_⟩
              unfold newEntry; rw [← hs, h1]
              exact Nat.le_trans (Nat.min_le_left _ _) h2
            · exact ⟨p, by rw [hother _ hs]; exact h1, h2⟩
          rcases List.mem_append.mp hd' with h1 | h1
          · exact key d' (inv.complete d' h1 h')
          · simp at h1; subst h1
            exact ⟨_, hnew, hne_type⟩
        sound := fun syl p h => by
          by_cases hs : syl = d.syl
          · subst hs
            rw [hnew] at h
            cases h
            cases hq : acc.1.find? d.syl with
            | none =>
              have hp : newEntry e acc.1 d = ⟨d.type, e, d.cred, 0, 0⟩ := by unfold newEntry; rw [hq]
              cases hsm : sm0.find? d.syl with
              | some p0 =>
                obtain ⟨p, h1, _⟩ := inv.mono _ _ hsm
                rw [hq] at h1; cases h1
              | none =>
                refine Or.inr ⟨rfl, by rw [hp], by rw [hp], by rw [hp], d, by simp, hadm', rfl, by rw [hp]⟩
            | some q =>
              have hp : newEntry e acc.1 d = { q with type := min q.type d.type } := by unfold newEntry; rw [hq]
              have hmin : min q.type d.type = q.type ∨ min q.type d.type = d.type := by omega
              rcases inv.sound _ _ hq with ⟨p0, h1, h2, h3⟩ | ⟨h1, h2, h3, h4, d', hd', h5, h6, h7⟩
              · refine Or.inl ⟨p0, h1, by rw [hp]; exact h2, ?_⟩
                rw [hp]
                rcases hmin with hm | hm
                · simp only [hm]
                  rcases h3 with h3 | ⟨d', hd', h5⟩
                  · exact Or.inl h3
                  · exact Or.inr ⟨d', List.mem_append_left _ hd', h5⟩
                · exact Or.inr ⟨d, by simp, hadm', rfl, by simp only [hm]⟩
              · refine Or.inr ⟨h1, by rw [hp]; exact h2, by rw [hp]; exact h3, by rw [hp]; exact h4, ?_⟩
                rw [hp]
                rcases hmin with hm | hm
                · exact ⟨d', List.mem_append_left _ hd', h5, h6, by simp only [hm]; exact h7⟩
                · exact ⟨d, by simp, hadm', rfl, by simp only [hm]⟩
          · rw [hother syl hs] at h
            rcases inv.sound syl p h with ⟨p0, h1, h2, h3⟩ | ⟨h1, h2, h3, h4, d', hd', h5⟩
            · refine Or.inl ⟨p0, h1, h2, ?_⟩
              rcases h3 with h3 | ⟨d', hd', h5⟩
              · exact Or.inl h3
              · exact Or.inr ⟨d', List.mem_append_left _ hd', h5⟩
            · exact Or.inr ⟨h1, h2, h3, h4, d', List.mem_append_left _ hd', h5⟩
        evtLe := by
          rw [hsnd]; have := inv.evtLe
          split <;> omega
        evtMin := fun d' hd' h' => by
          rw [hsnd]
          rcases List.mem_append.mp hd' with h1 | h1
          · have := inv.evtMin d' h1 h'
            split <;> omega
          · simp at h1; subst h1
            split <;> omega
        evtWit := by
          rw [hsnd]
          by_cases hgt : acc.2 > d.type
          · simp only [hgt, if_true]
            exact Or.inr ⟨d.syl, _, hnew, hne_type⟩
          · simp only [hgt, if_false]
            rcases inv.evtWit with h1 | ⟨syl, p, h1, h2⟩
            · exact Or.inl h1
            · by_cases hs : syl = d.syl
              · subst hs
                refine Or.inr ⟨d.syl, _, hnew, ?_⟩
                unfold newEntry; rw [h1]
                exact Nat.le_trans (Nat.min_le_left _ _) h2
              · exact Or.inr ⟨syl, p, by rw [hother syl hs]; exact h1, h2⟩
        sorted := fun h => by rw [hfst]; exact sorted_insert (inv.sorted h) _ _ }

end RimeModel.C08

namespace RimeModel.C08
open AMap

/-! ### the loop over matches -/

def dropFlag (cfg : Cfg) (inp : Bytes) (cur e : Nat) : Bool :=
  cfg.strict && (cur == 0 && e == inp.length)

def endOf (cfg : Cfg) (inp : Bytes) (cur : Nat) (m : Nat × Nat) : Nat :=
  skipDelims cfg.delims inp (cur + m.2)

/-- the accessor loop of one match -/
def matchFold (cfg : Cfg) (pr : Prism) (inp : Bytes) (cur : Nat) (ev : EVMap) (m : Nat × Nat) : SMap × Nat :=
  (descsOf pr m.1).foldl (addDesc (dropFlag cfg inp cur (endOf cfg inp cur m)) (endOf cfg inp cur m))
    ((ev.find? (endOf cfg inp cur m)).getD [], kInvalid)

theorem addMatch_zero {cfg : Cfg} {pr : Prism} {inp : Bytes} {cur : Nat}
    {acc : EVMap × List (Nat × Nat)} {m : Nat × Nat} (h : m.2 = 0) :
    addMatch cfg pr inp cur acc m = acc := by
  unfold addMatch; simp [h]

theorem addMatch_empty {cfg : Cfg} {pr : Prism} {inp : Bytes} {cur : Nat}
    {acc : EVMap × List (Nat × Nat)} {m : Nat × Nat} (h : m.2 ≠ 0)
    (he : (matchFold cfg pr inp cur acc.1 m).1.isEmpty = true) :
    addMatch cfg pr inp cur acc m = (acc.1.erase (endOf cfg inp cur m), acc.2) := by
  unfold addMatch
  unfold matchFold dropFlag endOf at he
  simp only [h, if_false]
  simp only [he, if_true]
  rfl

theorem addMatch_nonempty {cfg : Cfg} {pr : Prism} {inp : Bytes} {cur : Nat}
    {acc : EVMap × List (Nat × Nat)} {m : Nat × Nat} (h : m.2 ≠ 0)
    (he : (matchFold cfg pr inp cur acc.1 m).1.isEmpty = false) :
    addMatch cfg pr inp cur acc m =
      (acc.1.insert (endOf cfg inp cur m) (matchFold cfg pr inp cur acc.1 m).1,
       acc.2 ++ [(endOf cfg inp cur m, (matchFold cfg pr inp cur acc.1 m).2)]) := by
  unfold addMatch
  unfold matchFold dropFlag endOf at he
  simp only [h, if_false]
  simp only [he, Bool.false_eq_true, if_false]
  rfl

structure MatchInv (cfg : Cfg) (pr : Prism) (inp : Bytes) (cur : Nat) (done : List (Nat × Nat))
    (acc : EVMap × List (Nat × Nat)) : Prop where
  sorted : Sorted acc.1
  smOK : ∀ e sm, acc.1.find? e = some sm → Sorted sm ∧ sm ≠ []
  sound : ∀ e sm syl p, acc.1.find? e = some sm → sm.find? syl = some p →
    p.endPos = e ∧ p.compl = 0 ∧ p.amb = 0 ∧
    ∃ m ∈ done, m.2 ≠ 0 ∧ e = endOf cfg inp cur m ∧ ∃ d ∈ descsOf pr m.1,
      (dropFlag cfg inp cur e && d.type != kNormal) = false ∧ d.syl = syl ∧ d.type = p.type
  complete : ∀ m ∈ done, m.2 ≠ 0 → ∀ d ∈ descsOf pr m.1,
    (dropFlag cfg inp cur (endOf cfg inp cur m) && d.type != kNormal) = false →
    ∃ sm p, acc.1.find? (endOf cfg inp cur m) = some sm ∧ sm.find? d.syl = some p ∧ p.type ≤ d.type
  pushSound : ∀ e t, (e, t) ∈ acc.2 → (∃ m ∈ done, m.2 ≠ 0 ∧ e = endOf cfg inp cur m) ∧
    ∃ sm, acc.1.find? e = some sm ∧ (t = kInvalid ∨ ∃ syl p, sm.find? syl = some p ∧ p.type ≤ t)
  pushComplete : ∀ m ∈ done, m.2 ≠ 0 → ∀ d ∈ descsOf pr m.1,
    (dropFlag cfg inp cur (endOf cfg inp cur m) && d.type != kNormal) = false →
    ∃ t, (endOf cfg inp cur m, t) ∈ acc.2 ∧ t ≤ d.type

theorem matchInv_step {cfg : Cfg} {pr : Prism} {inp : Bytes} {cur : Nat} {done : List (Nat × Nat)}
    {acc : EVMap × List (Nat × Nat)} (m : Nat × Nat) (inv : MatchInv cfg pr inp cur done acc) :
    MatchInv cfg pr inp cur (done ++ [m]) (addMatch cfg pr inp cur acc m) := by
  by_cases hz : m.2 = 0
  · rw [addMatch_zero hz]
    exact {
      sorted := inv.sorted
      smOK := inv.smOK
      sound := fun e sm syl p h1 h2 => by
        obtain ⟨a, b, c, m', hm', rest⟩ := inv.sound e sm syl p h1 h2
        exact ⟨a, b, c, m', List.mem_append_left _ hm', rest⟩
      complete := fun m' hm' hnz => by
        rcases List.mem_append.mp hm' with h | h
        · exact inv.complete m' h hnz
        · simp at h; subst h; exact absurd hz hnz
      pushSound := fun e t h => by
        obtain ⟨⟨m', hm', r1⟩, r2⟩ := inv.pushSound e t h
        exact ⟨⟨m', List.mem_append_left _ hm', r1⟩, r2⟩
      pushComplete := fun m' hm' hnz => by
        rcases List.mem_append.mp hm' with h | h
        · exact inv.pushComplete m' h hnz
        · simp at h; subst h; exact absurd hz hnz }
  · -- abbreviations
    have dinv := descInv_fold (dropFlag cfg inp cur (endOf cfg inp cur m)) (endOf cfg inp cur m)
      ((acc.1.find? (endOf cfg inp cur m)).getD []) kInvalid (descsOf pr m.1)
    have hr : (descsOf pr m.1).foldl (addDesc (dropFlag cfg inp cur (endOf cfg inp cur m)) (endOf cfg inp cur m))
      ((acc.1.find? (endOf cfg inp cur m)).getD [], kInvalid) = matchFold cfg pr inp cur acc.1 m := rfl
    rw [hr] at dinv
    generalize hE : endOf cfg inp cur m = e at dinv
    generalize hR : matchFold cfg pr inp cur acc.1 m = r at dinv
    have hsm0 : ∀ sm, acc.1.find? e = some sm → (acc.1.find? e).getD [] = sm := by
      intro sm h; rw [h]; rfl
    have hsm0_sorted : Sorted ((acc.1.find? e).getD []) := by
      cases h : acc.1.find? e with
      | none => exact sorted_nil
      | some sm => exact (inv.smOK e sm h).1
    cases hemp : r.1.isEmpty with
    | true =>
      have hnil : r.1 = [] := by simpa using hemp
      have hnoadm : ∀ d ∈ descsOf pr m.1, (dropFlag cfg inp cur e && d.type != kNormal) = false → False := by
        intro d hd hadm
        obtain ⟨p, h1, _⟩ := dinv.complete d hd hadm
        rw [hnil] at h1; simp at h1
      have hnone : acc.1.find? e = none := by
        cases h : acc.1.find? e with
        | none => rfl
        | some sm =>
          obtain ⟨syl, p0, h2⟩ := exists_find?_of_ne_nil (inv.smOK e sm h).2
          obtain ⟨p, h3, _⟩ := dinv.mono syl p0 (by rw [hsm0 sm h]; exact h2)
          rw [hnil] at h3; simp at h3
      have hres : addMatch cfg pr inp cur acc m = (acc.1.erase e, acc.2) := by
        rw [addMatch_empty hz (by rw [hR]; exact hemp), hE]
      have hfind : ∀ e', (acc.1.erase e).find? e' = acc.1.find? e' := by
        intro e'
        rw [find?_erase]
        by_cases h : e = e'
        · subst h; simp [hnone]
        · simp [h]
      rw [hres]
      exact {
        sorted := sorted_erase inv.sorted _
        smOK := fun e' sm h => inv.smOK e' sm (by rw [← hfind]; exact h)
        sound := fun e' sm syl p h1 h2 => by
          obtain ⟨a, b, c, m', hm', rest⟩ := inv.sound e' sm syl p (by rw [← hfind]; exact h1) h2
          exact ⟨a, b, c, m', List.mem_append_left _ hm', rest⟩
        complete := fun m' hm' hnz d hd hadm => by
          rcases List.mem_append.mp hm' with h | h
          · obtain ⟨sm, p, h1, h2⟩ := inv.complete m' h hnz d hd hadm
            exact ⟨sm, p, by rw [hfind]; exact h1, h2⟩
          · simp at h; subst h; rw [hE] at hadm; exact (hnoadm d hd hadm).elim
        pushSound := fun e' t h => by
          obtain ⟨⟨m', hm', r1⟩, sm, r2, r3⟩ := inv.pushSound e' t h
          exact ⟨⟨m', List.mem_append_left _ hm', r1⟩, sm, by rw [hfind]; exact r2, r3⟩
        pushComplete := fun m' hm' hnz d hd hadm => by
          rcases List.mem_append.mp hm' with h | h
          · exact inv.pushComplete m' h hnz d hd hadm
          · simp at h; subst h; rw [hE] at hadm; exact (hnoadm d hd hadm).elim }
    | false =>
      have hne : r.1 ≠ [] := by
        intro h; rw [h] at hemp; simp at hemp
      have hres : addMatch cfg pr inp cur acc m = (acc.1.insert e r.1, acc.2 ++ [(e, r.2)]) := by
        rw [addMatch_nonempty hz (by rw [hR]; exact hemp), hE, hR]
      rw [hres]
      have hfe : (acc.1.insert e r.1).find? e = some r.1 := find?_insert_self _ _ _
      have hfo : ∀ e', e' ≠ e → (acc.1.insert e r.1).find? e' = acc.1.find? e' :=
        fun e' h => find?_insert_ne _ _ (fun h' => h h'.symm)
      -- an old entry at `e` survives with a type not larger
      have hkeep : ∀ sm syl p0, acc.1.find? e = some sm → sm.find? syl = some p0 →
          ∃ p, r.1.find? syl = some p ∧ p.type ≤ p0.type ∧ SameButType p p0 := by
        intro sm syl p0 h1 h2
        exact dinv.mono syl p0 (by rw [hsm0 sm h1]; exact h2)
      exact {
        sorted := sorted_insert inv.sorted _ _
        smOK := fun e' sm h => by
          by_cases he : e' = e
          · subst he; rw [hfe] at h; cases h
            exact ⟨dinv.sorted hsm0_sorted, hne⟩
          · exact inv.smOK e' sm (by rw [← hfo e' he]; exact h)
        sound := fun e' sm syl p h1 h2 => by
          by_cases he : e' = e
          · subst he; rw [hfe] at h1; cases h1
            rcases dinv.sound syl p h2 with ⟨p0, h3, h4, h5⟩ | ⟨h3, h4, h5, h6, d, hd, h7, h8, h9⟩
            · -- inherited from an earlier match with the same end
              cases hq : acc.1.find? e' with
              | none => rw [hq] at h3; simp at h3
              | some sm1 =>
                rw [hsm0 sm1 hq] at h3
                obtain ⟨a, b, c, m', hm', hnz', hee, d', hd', hx, hy, hz'⟩ := inv.sound e' sm1 syl p0 hq h3
                obtain ⟨s1, s2, s3, s4⟩ := h4
                refine ⟨by rw [s1]; exact a, by rw [s3]; exact b, by rw [s4]; exact c, ?_⟩
                rcases h5 with h5 | ⟨d, hd, h7, h8, h9⟩
                · exact ⟨m', List.mem_append_left _ hm', hnz', hee, d', hd', hx, hy, by rw [h5]; exact hz'⟩
                · exact ⟨m, by simp, hz, hE.symm, d, hd, h7, h8, h9⟩
            · exact ⟨h4, h5, h6, m, by simp, hz, hE.symm, d, hd, h7, h8, h9⟩
          · obtain ⟨a, b, c, m', hm', rest⟩ := inv.sound e' sm syl p (by rw [← hfo e' he]; exact h1) h2
            exact ⟨a, b, c, m', List.mem_append_left _ hm', rest⟩
        complete := fun m' hm' hnz d hd hadm => by
          rcases List.mem_append.mp hm' with h | h
          · obtain ⟨sm, p, h1, h2, h3⟩ := inv.complete m' h hnz d hd hadm
            by_cases he : endOf cfg inp cur m' = e
            · rw [he] at h1 ⊢
              obtain ⟨p', h4, h5, _⟩ := hkeep sm d.syl p h1 h2
              exact ⟨r.1, p', hfe, h4, Nat.le_trans h5 h3⟩
            · exact ⟨sm, p, by rw [hfo _ he]; exact h1, h2, h3⟩
          · simp at h; subst h
            rw [hE] at hadm ⊢
            obtain ⟨p, h1, h2⟩ := dinv.complete d hd hadm
            exact ⟨r.1, p, hfe, h1, h2⟩
        pushSound := fun e' t h => by
          rcases List.mem_append.mp h with h | h
          · obtain ⟨⟨m', hm', r1⟩, sm, r2, r3⟩ := inv.pushSound e' t h
            refine ⟨⟨m', List.mem_append_left _ hm', r1⟩, ?_⟩
            by_cases he : e' = e
            · subst he
              refine ⟨r.1, hfe, ?_⟩
              rcases r3 with r3 | ⟨syl, p, r3, r4⟩
              · exact Or.inl r3
              · obtain ⟨p', h4, h5, _⟩ := hkeep sm syl p r2 r3
                exact Or.inr ⟨syl, p', h4, Nat.le_trans h5 r4⟩
            · exact ⟨sm, by rw [hfo _ he]; exact r2, r3⟩
          · simp at h
            obtain ⟨h1, h2⟩ := h
            subst h1; subst h2
            exact ⟨⟨m, by simp, hz, hE.symm⟩, r.1, hfe, dinv.evtWit⟩
        pushComplete := fun m' hm' hnz d hd hadm => by
          rcases List.mem_append.mp hm' with h | h
          · obtain ⟨t, h1, h2⟩ := inv.pushComplete m' h hnz d hd hadm
            exact ⟨t, List.mem_append_left _ h1, h2⟩
          · simp at h; subst h
            rw [hE] at hadm ⊢
            exact ⟨r.2, by simp, dinv.evtMin d hd hadm⟩ }

theorem matchInv_expandAt (cfg : Cfg) (pr : Prism) (inp : Bytes) (cur : Nat) :
    MatchInv cfg pr inp cur (commonPrefixSearch pr (inp.drop cur)) (expandAt cfg pr inp cur []) := by
  unfold expandAt
  apply foldl_inv (addMatch cfg pr inp cur) (MatchInv cfg pr inp cur)
  · exact {
      sorted := sorted_nil
      smOK := fun e sm h => by simp at h
      sound := fun e sm syl p h => by simp at h
      complete := fun m hm => by simp at hm
      pushSound := fun e t h => by simp at h
      pushComplete := fun m hm => by simp at hm }
  · intro done acc m _ inv
    exact matchInv_step m inv

end RimeModel.C08

namespace RimeModel.C08
open AMap

/-! ### the out-edges of a position, in the vocabulary of the property -/

theorem admits_iff {cfg : Cfg} {inp : Bytes} {cur e : Nat} {d : Desc} :
    (dropFlag cfg inp cur e && d.type != kNormal) = false ↔ Admits cfg inp cur e d := by
  unfold dropFlag Admits
  cases hs : cfg.strict <;> simp

structure RawAt (cfg : Cfg) (pr : Prism) (inp : Bytes) (cur : Nat) (r : EVMap × List (Nat × Nat)) : Prop where
  sorted : Sorted r.1
  smOK : ∀ e sm, r.1.find? e = some sm → Sorted sm ∧ sm ≠ []
  sound : ∀ e sm syl p, r.1.find? e = some sm → sm.find? syl = some p →
    p.endPos = e ∧ p.compl = 0 ∧ p.amb = 0 ∧
    ∃ k d, Stored pr k d ∧ SpansC cfg.delims inp cur e k ∧ Admits cfg inp cur e d ∧ d.syl = syl ∧ d.type = p.type
  complete : ∀ e k d, Stored pr k d → SpansC cfg.delims inp cur e k → Admits cfg inp cur e d →
    ∃ sm p, r.1.find? e = some sm ∧ sm.find? d.syl = some p ∧ p.type ≤ d.type
  pushSound : ∀ e t, (e, t) ∈ r.2 → cur < e ∧ e ≤ inp.length ∧
    ∃ sm, r.1.find? e = some sm ∧ (t = kInvalid ∨ ∃ syl p, sm.find? syl = some p ∧ p.type ≤ t)
  pushComplete : ∀ e k d, Stored pr k d → SpansC cfg.delims inp cur e k → Admits cfg inp cur e d →
    ∃ t, (e, t) ∈ r.2 ∧ t ≤ d.type
  endsGt : ∀ e sm, r.1.find? e = some sm → cur < e ∧ e ≤ inp.length

theorem match_to_spans {cfg : Cfg} {pr : Prism} {inp : Bytes} {cur : Nat} {m : Nat × Nat} {d : Desc}
    (hm : m ∈ commonPrefixSearch pr (inp.drop cur)) (hd : d ∈ descsOf pr m.1) :
    ∃ k, Stored pr k d ∧ SpansC cfg.delims inp cur (endOf cfg inp cur m) k := by
  obtain ⟨v, l⟩ := m
  obtain ⟨k, hk, hp, hl, hi⟩ := cps_iff.mp hm
  refine ⟨k, ⟨v, hi, hd⟩, hk, hp, ?_⟩
  unfold endOf; simp only; rw [hl]

theorem spans_to_match {cfg : Cfg} {pr : Prism} {inp : Bytes} {cur e : Nat} {k : Bytes} {d : Desc}
    (hs : Stored pr k d) (hsp : SpansC cfg.delims inp cur e k) :
    ∃ m, m ∈ commonPrefixSearch pr (inp.drop cur) ∧ m.2 ≠ 0 ∧ endOf cfg inp cur m = e ∧ d ∈ descsOf pr m.1 := by
  obtain ⟨i, hi, hd⟩ := hs
  obtain ⟨hk, hp, he⟩ := hsp
  refine ⟨(i, k.length), cps_iff.mpr ⟨k, hk, hp, rfl, hi⟩, ?_, ?_, hd⟩
  · have := List.length_pos_iff.mpr hk
    simp only; omega
  · unfold endOf; simp only; exact he.symm

theorem rawAt (cfg : Cfg) (pr : Prism) (inp : Bytes) (cur : Nat) :
    RawAt cfg pr inp cur (expandAt cfg pr inp cur []) := by
  have inv := matchInv_expandAt cfg pr inp cur
  have hsound : ∀ e sm syl p, (expandAt cfg pr inp cur []).1.find? e = some sm → sm.find? syl = some p →
      p.endPos = e ∧ p.compl = 0 ∧ p.amb = 0 ∧
      ∃ k d, Stored pr k d ∧ SpansC cfg.delims inp cur e k ∧ Admits cfg inp cur e d ∧ d.syl = syl ∧ d.type = p.type := by
    intro e sm syl p h1 h2
    obtain ⟨a, b, c, m, hm, hnz, he, d, hd, hadm, hsyl, hty⟩ := inv.sound e sm syl p h1 h2
    obtain ⟨k, hst, hsp⟩ := match_to_spans (cfg := cfg) hm hd
    rw [← he] at hsp
    exact ⟨a, b, c, k, d, hst, hsp, admits_iff.mp hadm, hsyl, hty⟩
  have hends : ∀ e sm, (expandAt cfg pr inp cur []).1.find? e = some sm → cur < e ∧ e ≤ inp.length := by
    intro e sm h
    obtain ⟨syl, p, h2⟩ := exists_find?_of_ne_nil (inv.smOK e sm h).2
    obtain ⟨_, _, _, k, d, _, hsp, _⟩ := hsound e sm syl p h h2
    have := spansC_bounds hsp
    omega
  exact {
    sorted := inv.sorted
    smOK := inv.smOK
    sound := hsound
    complete := fun e k d hst hsp hadm => by
      obtain ⟨m, hm, hnz, he, hd⟩ := spans_to_match hst hsp
      have := inv.complete m hm hnz d hd (by rw [he]; exact admits_iff.mpr hadm)
      rw [he] at this; exact this
    pushSound := fun e t h => by
      obtain ⟨_, sm, h1, h2⟩ := inv.pushSound e t h
      have := hends e sm h1
      exact ⟨this.1, this.2, sm, h1, h2⟩
    pushComplete := fun e k d hst hsp hadm => by
      obtain ⟨m, hm, hnz, he, hd⟩ := spans_to_match hst hsp
      have := inv.pushComplete m hm hnz d hd (by rw [he]; exact admits_iff.mpr hadm)
      rw [he] at this; exact this
    endsGt := hends }

/-- no match, no edge -/
theorem expandAt_nil_of_cps_nil {cfg : Cfg} {pr : Prism} {inp : Bytes} {cur : Nat}
    (h : commonPrefixSearch pr (inp.drop cur) = []) : expandAt cfg pr inp cur [] = ([], []) := by
  unfold expandAt; rw [h]; rfl

end RimeModel.C08
