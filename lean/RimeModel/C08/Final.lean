import RimeModel.C08.Complete
/-! C08 — the graph `build` returns: pruned forward graph + completion edge -/
namespace RimeModel.C08
open AMap

section
variable (cfg : Cfg) (pr : Prism) (inp : Bytes)

/-- abbreviations for the stages of `build` -/
def fwdG : FState := forward cfg pr inp
def prunedG : PState := prune (forward cfg pr inp)
def farG : Nat := (forward cfg pr inp).farthest
def finalE : EMap := (complete cfg pr inp (prune (forward cfg pr inp)).edges (forward cfg pr inp).farthest).1
def finalIL : Nat := (complete cfg pr inp (prune (forward cfg pr inp)).edges (forward cfg pr inp).farthest).2

theorem build_of_ne (h : inp ≠ []) :
    build cfg pr inp = { inputLength := inp.length, interpretedLength := finalIL cfg pr inp,
                         vertices := (prunedG cfg pr inp).vertices, edges := finalE cfg pr inp,
                         indices := transpose (finalE cfg pr inp) } := by
  unfold build
  have : inp.isEmpty = false := by
    cases inp with
    | nil => exact absurd rfl h
    | cons a t => rfl
  simp only [this, Bool.false_eq_true, if_false]
  rfl

theorem build_of_nil : build cfg pr [] = emptyGraph := by
  unfold build; rfl

/-- the farthest vertex has no out-edge in the forward graph -/
theorem fwd_no_out_farthest (e : Nat) : evAt (forward cfg pr inp).edges (forward cfg pr inp).farthest e = none := by
  cases h : evAt (forward cfg pr inp).edges (forward cfg pr inp).farthest e with
  | none => rfl
  | some sm =>
    exfalso
    obtain ⟨t, ht⟩ := fwd_farthest_visited cfg pr inp
    obtain ⟨_, hne, _, _⟩ := fwd_edge_ok cfg pr inp h
    obtain ⟨syl, p, hp⟩ := exists_find?_of_ne_nil hne
    obtain ⟨_, _, _, k, d, hst, hsp, hadm, _, _⟩ := fwd_edge_sound cfg pr inp h hp
    obtain ⟨te, hte, _⟩ := fwd_step cfg pr inp ht hst hsp hadm
    have h1 := fwd_visited_le cfg pr inp hte
    have h2 := spansC_bounds hsp
    omega

theorem pruned_no_out_farthest (e : Nat) :
    evAt (prune (forward cfg pr inp)).edges (forward cfg pr inp).farthest e = none := by
  have := prune_untouched cfg pr inp (Nat.le_refl (forward cfg pr inp).farthest) e
  rw [fwd_no_out_farthest] at this
  cases h : evAt (prune (forward cfg pr inp)).edges (forward cfg pr inp).farthest e with
  | none => rfl
  | some sm => rw [h] at this; cases this

theorem pruned_ev_farthest_nil :
    ((prune (forward cfg pr inp)).edges.find? (forward cfg pr inp).farthest).getD [] = [] := by
  apply eq_nil_of_find?_none
  intro e
  rw [← evAt_eq]
  exact pruned_no_out_farthest cfg pr inp e

/-- completion applies to this input -/
def Completes : Prop := ComplCond cfg pr inp (forward cfg pr inp).farthest

theorem final_pos (hc : Completes cfg pr inp) :
    finalIL cfg pr inp = inp.length ∧
    finalE cfg pr inp = (prune (forward cfg pr inp)).edges.insert (forward cfg pr inp).farthest
      [(inp.length, complSM cfg pr inp (forward cfg pr inp).farthest)] := by
  unfold finalIL finalE
  rw [complete_pos (pruned_ev_farthest_nil cfg pr inp) hc]
  exact ⟨rfl, rfl⟩

theorem final_neg (hc : ¬ Completes cfg pr inp) :
    finalIL cfg pr inp = (forward cfg pr inp).farthest ∧
    (finalE cfg pr inp = (prune (forward cfg pr inp)).edges ∨
     finalE cfg pr inp = (prune (forward cfg pr inp)).edges.insert (forward cfg pr inp).farthest []) := by
  unfold finalIL finalE
  rcases complete_neg (pruned_ev_farthest_nil cfg pr inp) hc with h | h
  · rw [h]; exact ⟨rfl, Or.inl rfl⟩
  · rw [h]; exact ⟨rfl, Or.inr rfl⟩

/-- edges of the final graph: the pruned ones, plus the completion edge when completion applies -/
theorem final_evAt (s e : Nat) :
    (Completes cfg pr inp ∧ s = (forward cfg pr inp).farthest ∧ e = inp.length ∧
      evAt (finalE cfg pr inp) s e = some (complSM cfg pr inp (forward cfg pr inp).farthest)) ∨
    (¬ (Completes cfg pr inp ∧ s = (forward cfg pr inp).farthest ∧ e = inp.length) ∧
      evAt (finalE cfg pr inp) s e = evAt (prune (forward cfg pr inp)).edges s e) := by
  by_cases hc : Completes cfg pr inp
  · obtain ⟨_, hE⟩ := final_pos cfg pr inp hc
    by_cases hs : s = (forward cfg pr inp).farthest
    · subst hs
      by_cases he : e = inp.length
      · subst he
        left
        refine ⟨hc, rfl, rfl, ?_⟩
        rw [hE, evAt_insert_self]
        simp [find?_cons]
      · right
        refine ⟨fun h => he h.2.2, ?_⟩
        rw [hE, evAt_insert_self, pruned_no_out_farthest]
        simp [find?_cons]
        intro h; exact absurd h.symm he
    · right
      refine ⟨fun h => hs h.2.1, ?_⟩
      rw [hE, evAt_insert_ne _ _ (fun h => hs h.symm)]
  · right
    refine ⟨fun h => hc h.1, ?_⟩
    rcases (final_neg cfg pr inp hc).2 with hE | hE
    · rw [hE]
    · rw [hE]
      by_cases hs : s = (forward cfg pr inp).farthest
      · subst hs
        rw [evAt_insert_self, pruned_no_out_farthest]; rfl
      · rw [evAt_insert_ne _ _ (fun h => hs h.symm)]

theorem final_evAt_of_pruned {s e : Nat} {sm : SMap} (h : evAt (prune (forward cfg pr inp)).edges s e = some sm) :
    evAt (finalE cfg pr inp) s e = some sm := by
  rcases final_evAt cfg pr inp s e with ⟨_, hs, _, _⟩ | ⟨_, h2⟩
  · subst hs; rw [pruned_no_out_farthest] at h; cases h
  · rw [h2]; exact h

theorem final_hasEdge_of_pruned {a b : Nat} (h : HasEdge (prune (forward cfg pr inp)).edges a b) :
    HasEdge (finalE cfg pr inp) a b := by
  obtain ⟨sm, h1, h2⟩ := h
  exact ⟨sm, final_evAt_of_pruned cfg pr inp h1, h2⟩

theorem final_edgeAt_of_pruned {s e syl : Nat} {p : Props}
    (h : edgeAt (prune (forward cfg pr inp)).edges s e syl = some p) :
    edgeAt (finalE cfg pr inp) s e syl = some p := by
  obtain ⟨sm, h1, h2⟩ := edgeAt_eq.mp h
  exact edgeAt_eq.mpr ⟨sm, final_evAt_of_pruned cfg pr inp h1, h2⟩

theorem complSM_inv : ComplInv pr (inp.length - (forward cfg pr inp).farthest) inp.length
    (complKeys cfg pr inp (forward cfg pr inp).farthest) (complSM cfg pr inp (forward cfg pr inp).farthest) :=
  complKey_fold _ _ _ _

/-- which start positions have an entry in the final edge map, and that their maps are sorted -/
theorem final_wf {s : Nat} {ev : EVMap} (h : (finalE cfg pr inp).find? s = some ev) :
    Sorted ev ∧ ∀ e sm, ev.find? e = some sm → Sorted sm ∧ sm ≠ [] ∧ s < e ∧
      ∀ syl p, sm.find? syl = some p → p.endPos = e := by
  have key : ∀ ev', (prune (forward cfg pr inp)).edges.find? s = some ev' →
      Sorted ev' ∧ ∀ e sm, ev'.find? e = some sm → Sorted sm ∧ sm ≠ [] ∧ s < e ∧
        ∀ syl p, sm.find? syl = some p → p.endPos = e := by
    intro ev' h'
    refine ⟨prune_ev_sorted cfg pr inp h', ?_⟩
    intro e sm hsm
    have hev : evAt (prune (forward cfg pr inp)).edges s e = some sm := by
      unfold evAt; rw [h']; exact hsm
    obtain ⟨a, b, c⟩ := prune_ev_ok cfg pr inp hev
    refine ⟨b, a, c, ?_⟩
    intro syl p hp
    obtain ⟨p0, h1, h2⟩ := prune_edge_sound cfg pr inp (edgeAt_eq.mpr ⟨sm, hev, hp⟩)
    obtain ⟨sm0, h3, h4⟩ := edgeAt_eq.mp h1
    have := (fwd_edge_sound cfg pr inp h3 h4).1
    have h5 : (stripP p0).endPos = (stripP p).endPos := by rw [h2]
    exact h5.symm.trans this
  by_cases hc : Completes cfg pr inp
  · rw [(final_pos cfg pr inp hc).2, find?_insert] at h
    split at h
    · rename_i hs
      cases h
      refine ⟨by simp [Sorted, keys], ?_⟩
      intro e sm hsm
      simp only [find?_cons, find?_nil] at hsm
      split at hsm
      · rename_i he
        cases hsm
        have inv := complSM_inv cfg pr inp
        obtain ⟨_, hF, hex⟩ := hc
        refine ⟨inv.sorted, (complSM_ne_nil_iff cfg pr inp _).mpr hex, by omega, ?_⟩
        intro syl p hp
        rw [← he]; exact (inv.sound syl p hp).2.1
      · cases hsm
    · exact key ev h
  · rcases (final_neg cfg pr inp hc).2 with hE | hE
    · rw [hE] at h; exact key ev h
    · rw [hE, find?_insert] at h
      split at h
      · cases h
        exact ⟨sorted_nil, fun e sm hsm => by simp at hsm⟩
      · exact key ev h

end
end RimeModel.C08

namespace RimeModel.C08
open AMap

section
variable (cfg : Cfg) (pr : Prism) (inp : Bytes)

theorem build_edges (h : inp ≠ []) : (build cfg pr inp).edges = finalE cfg pr inp := by
  rw [build_of_ne cfg pr inp h]
theorem build_vertices (h : inp ≠ []) : (build cfg pr inp).vertices = (prune (forward cfg pr inp)).vertices := by
  rw [build_of_ne cfg pr inp h]; rfl
theorem build_il (h : inp ≠ []) : (build cfg pr inp).interpretedLength = finalIL cfg pr inp := by
  rw [build_of_ne cfg pr inp h]
theorem build_indices (h : inp ≠ []) : (build cfg pr inp).indices = transpose (finalE cfg pr inp) := by
  rw [build_of_ne cfg pr inp h]

theorem reach_le {p : Nat} (h : Reach cfg pr inp p) : p ≤ inp.length := by
  cases h with
  | zero => exact Nat.zero_le _
  | step _ _ hsp _ => exact hsp.2.1

theorem ntiling_le {a c : Nat} {segs : List (Nat × Nat × Nat)} (h : NTiling cfg pr inp a c segs) :
    a ≤ c ∧ (segs ≠ [] → a < c) := by
  induction h with
  | nil a => exact ⟨Nat.le_refl _, fun h => absurd rfl h⟩
  | cons _ _ hsp _ ih =>
    have := spansC_bounds (spansC_of_spans hsp)
    exact ⟨by omega, fun _ => by omega⟩

theorem gpath_trans {E : EMap} {a b c : Nat} (h1 : GPath E a b) (h2 : GPath E b c) : GPath E a c := by
  induction h1 with
  | refl _ => exact h2
  | step he _ ih => exact GPath.step he (ih h2)

theorem gpath_mono {E E' : EMap} (hE : ∀ a b, HasEdge E a b → HasEdge E' a b) {a b : Nat} (h : GPath E a b) :
    GPath E' a b := by
  induction h with
  | refl _ => exact GPath.refl _
  | step he _ ih => exact GPath.step (hE _ _ he) ih

theorem stored_of_expand {key : Bytes} {m : Nat × Nat} {d : Desc} (h : ExpandOK pr key m) (hd : d ∈ descsOf pr m.1) :
    ∃ k, Stored pr k d ∧ key <+: k := by
  obtain ⟨k, h1, h2, _⟩ := h
  exact ⟨k, ⟨m.1, h1, hd⟩, h2⟩

/-- `ComplCond` in the words of the property: completion is on and the remainder begins a stored
spelling that has a normal or fuzzy reading -/
theorem complCond_text {F : Nat} (h : ComplCond cfg pr inp F) :
    cfg.completion = true ∧ F < inp.length ∧
    ∃ k d, Stored pr k d ∧ inp.drop F <+: k ∧ d.type < kAbbrev := by
  obtain ⟨h1, h2, m, hm, _, d, hd, hty⟩ := h
  obtain ⟨k, hk1, hk2⟩ := stored_of_expand pr (expandSearch_ok hm) hd
  exact ⟨h1, h2, k, d, hk1, hk2, hty⟩

/-- a retained vertex reaches the farthest vertex along retained edges -/
theorem good_to_farthest : ∀ (n v : Nat), (forward cfg pr inp).farthest - v ≤ n → Good cfg pr inp v →
    GPath (prune (forward cfg pr inp)).edges v (forward cfg pr inp).farthest := by
  intro n
  induction n with
  | zero =>
    intro v hn hv
    have := (good_type cfg pr inp hv).1
    have : v = (forward cfg pr inp).farthest := by omega
    rw [this]; exact GPath.refl _
  | succ n ih =>
    intro v hn hv
    by_cases hF : v = (forward cfg pr inp).farthest
    · rw [hF]; exact GPath.refl _
    · obtain ⟨j, hj, he⟩ := good_out cfg pr inp hv hF
      obtain ⟨sm, hsm, _⟩ := he
      have hlt := (prune_ev_ok cfg pr inp hsm).2.2
      have := (good_type cfg pr inp hj).1
      exact GPath.step ⟨sm, hsm, (prune_ev_ok cfg pr inp hsm).1⟩ (ih j (by omega) hj)

/-- a retained vertex is reached from 0 along retained edges -/
theorem zero_to_good (hty : PrismTypesOK pr) : ∀ (v : Nat), Good cfg pr inp v →
    GPath (prune (forward cfg pr inp)).edges 0 v := by
  intro v
  induction v using Nat.strongRecOn with
  | _ v ih =>
    intro hv
    by_cases h0 : v = 0
    · rw [h0]; exact GPath.refl _
    · obtain ⟨hvF, t, ht, htL⟩ := good_type cfg pr inp hv
      obtain ⟨u, tu, sm, hu, huv, htu, hsm, hw⟩ := fwd_pred cfg pr inp ht h0
      -- an entry of the edge u → v whose type survives the pruning
      have hentry : ∃ syl p0, sm.find? syl = some p0 ∧ p0.type ≤ lastTypeOf (forward cfg pr inp) := by
        rcases hw with hw | ⟨syl, p0, h1, h2⟩
        · obtain ⟨_, hne, _, _⟩ := fwd_edge_ok cfg pr inp hsm
          obtain ⟨syl, p0, hp0⟩ := exists_find?_of_ne_nil hne
          obtain ⟨_, _, _, k, d, hst, _, _, _, hdt⟩ := fwd_edge_sound cfg pr inp hsm hp0
          have := hty k d hst
          exact ⟨syl, p0, hp0, by rw [← hdt]; omega⟩
        · exact ⟨syl, p0, h1, by omega⟩
      obtain ⟨syl, p0, hp0, hp0L⟩ := hentry
      obtain ⟨hgu, p, hp, _⟩ := prune_retain cfg pr inp hu (by omega) (by omega) hv
        (edgeAt_eq.mpr ⟨sm, hsm, hp0⟩) hp0L
      obtain ⟨sm', hsm', hp'⟩ := edgeAt_eq.mp hp
      have hedge : HasEdge (prune (forward cfg pr inp)).edges u v :=
        ⟨sm', hsm', fun hn => by rw [hn] at hp'; cases hp'⟩
      exact gpath_trans (ih u huv hgu) (GPath.step hedge (GPath.refl _))

/-- a tiling by normal spellings that ends at the farthest vertex is retained entirely -/
theorem ntiling_retained {a : Nat} {segs : List (Nat × Nat × Nat)}
    (h : NTiling cfg pr inp a (forward cfg pr inp).farthest segs)
    (ha : (forward cfg pr inp).vertices.find? a = some 0) :
    Good cfg pr inp a ∧ ∀ seg ∈ segs, ∃ p, edgeAt (prune (forward cfg pr inp)).edges seg.1 seg.2.1 seg.2.2 = some p ∧
      p.type = kNormal := by
  generalize hF : (forward cfg pr inp).farthest = F at h
  induction h with
  | nil a => rw [← hF]; exact ⟨good_farthest cfg pr inp, fun seg hs => by simp at hs⟩
  | @cons a b c k d rest hst hdt hsp hrest ih =>
    subst hF
    have hspc := spansC_of_spans hsp
    have hadm : Admits cfg inp a b d := by
      unfold Admits; intro hh; exact hh.2.2.2 hdt
    obtain ⟨tb, htb, htble⟩ := fwd_step cfg pr inp ha hst hspc hadm
    have htb0 : tb = 0 := by rw [hdt] at htble; unfold kNormal at htble; omega
    subst htb0
    obtain ⟨hgb, hrestok⟩ := ih htb rfl
    obtain ⟨sm, p0, hsm, hp0, hp0t⟩ := fwd_edge_complete cfg pr inp ha hst hspc hadm
    have hbF := (ntiling_le cfg pr inp hrest).1
    have hab := spansC_bounds hspc
    have hp0z : p0.type = 0 := by rw [hdt] at hp0t; unfold kNormal at hp0t; omega
    obtain ⟨hga, p, hp, hpp⟩ := prune_retain cfg pr inp ha (Nat.zero_le _) (by omega) hgb
      (edgeAt_eq.mpr ⟨sm, hsm, hp0⟩) (by omega)
    refine ⟨hga, ?_⟩
    intro seg hs
    rcases List.mem_cons.mp hs with h1 | h1
    · subst h1
      refine ⟨p, hp, ?_⟩
      have : (stripP p).type = (stripP p0).type := by rw [hpp]
      exact this.trans hp0z
    · exact hrestok seg h1

end
end RimeModel.C08
