import RimeModel.C08.Expand
/-! C08 — the forward search: the queue loop computes the set of tileable positions with their
best (bottleneck) spelling type, and the raw edge map.  Key fact: pops are lexicographically
non-decreasing because every edge has positive length. -/
namespace RimeModel.C08
open AMap

/-! ### the queue -/

def qle (x y : Nat × Nat) : Prop := x.1 < y.1 ∨ (x.1 = y.1 ∧ x.2 ≤ y.2)

theorem mem_qinsert {q : List (Nat × Nat)} {x y : Nat × Nat} : y ∈ qinsert q x ↔ y = x ∨ y ∈ q := by
  induction q with
  | nil => simp [qinsert]
  | cons a t ih =>
    unfold qinsert
    split
    · simp
    · simp only [List.mem_cons, ih]
      constructor
      · rintro (h | h | h)
        · exact Or.inr (Or.inl h)
        · exact Or.inl h
        · exact Or.inr (Or.inr h)
      · rintro (h | h | h)
        · exact Or.inr (Or.inl h)
        · exact Or.inl h
        · exact Or.inr (Or.inr h)

theorem length_qinsert (q : List (Nat × Nat)) (x : Nat × Nat) : (qinsert q x).length = q.length + 1 := by
  induction q with
  | nil => simp [qinsert]
  | cons a t ih =>
    unfold qinsert
    split
    · simp
    · simp [ih]

theorem qinsert_sorted {q : List (Nat × Nat)} (x : Nat × Nat) (h : q.Pairwise qle) :
    (qinsert q x).Pairwise qle := by
  induction q with
  | nil => simp [qinsert]
  | cons a t ih =>
    rw [List.pairwise_cons] at h
    unfold qinsert
    split
    · rename_i hx
      rw [List.pairwise_cons]
      refine ⟨?_, List.pairwise_cons.mpr h⟩
      intro z hz
      rcases List.mem_cons.mp hz with hz | hz
      · subst hz; exact hx
      · have := h.1 z hz
        unfold qle at this ⊢
        omega
    · rename_i hx
      rw [List.pairwise_cons]
      refine ⟨?_, ih h.2⟩
      intro z hz
      rcases mem_qinsert.mp hz with hz | hz
      · subst hz
        unfold qle; omega
      · exact h.1 z hz

theorem mem_foldl_qinsert {l q : List (Nat × Nat)} {y : Nat × Nat} :
    y ∈ l.foldl qinsert q ↔ y ∈ q ∨ y ∈ l := by
  induction l generalizing q with
  | nil => simp
  | cons a t ih =>
    simp only [List.foldl_cons, ih, mem_qinsert, List.mem_cons]
    constructor
    · rintro ((h | h) | h)
      · exact Or.inr (Or.inl h)
      · exact Or.inl h
      · exact Or.inr (Or.inr h)
    · rintro (h | h | h)
      · exact Or.inl (Or.inr h)
      · exact Or.inl (Or.inl h)
      · exact Or.inr h

theorem length_foldl_qinsert (l q : List (Nat × Nat)) : (l.foldl qinsert q).length = q.length + l.length := by
  induction l generalizing q with
  | nil => simp
  | cons a t ih => simp only [List.foldl_cons, ih, length_qinsert, List.length_cons]; omega

theorem foldl_qinsert_sorted {l q : List (Nat × Nat)} (h : q.Pairwise qle) : (l.foldl qinsert q).Pairwise qle := by
  induction l generalizing q with
  | nil => simpa using h
  | cons a t ih => exact ih (qinsert_sorted a h)

/-! ### one iteration -/

def pushesOf (cfg : Cfg) (pr : Prism) (inp : Bytes) (u : Nat) : List (Nat × Nat) := (expandAt cfg pr inp u []).2
def rawEV (cfg : Cfg) (pr : Prism) (inp : Bytes) (u : Nat) : EVMap := (expandAt cfg pr inp u []).1

theorem fstep_nil {cfg : Cfg} {pr : Prism} {inp : Bytes} {st : FState} (h : st.queue = []) :
    fstep cfg pr inp st = st := by
  unfold fstep; rw [h]

theorem fstep_visited {cfg : Cfg} {pr : Prism} {inp : Bytes} {st : FState} {v : Nat × Nat} {q : List (Nat × Nat)}
    (h : st.queue = v :: q) (hv : (st.vertices.find? v.1).isSome = true) :
    fstep cfg pr inp st = { st with queue := q } := by
  unfold fstep; rw [h]; simp only [hv, if_true]

theorem fstep_new {cfg : Cfg} {pr : Prism} {inp : Bytes} {st : FState} {v : Nat × Nat} {q : List (Nat × Nat)}
    (h : st.queue = v :: q) (hv : (st.vertices.find? v.1).isSome = false) (hE : st.edges.find? v.1 = none) :
    fstep cfg pr inp st =
      { queue := ((pushesOf cfg pr inp v.1).map fun p => (p.1, max p.2 v.2)).foldl qinsert q,
        vertices := st.vertices.insert v.1 v.2,
        edges := if (commonPrefixSearch pr (inp.drop v.1)).isEmpty then st.edges
                 else st.edges.insert v.1 (rawEV cfg pr inp v.1),
        farthest := max st.farthest v.1 } := by
  unfold fstep; rw [h]
  simp only [hv, Bool.false_eq_true, if_false, hE, Option.getD_none]
  cases hc : (commonPrefixSearch pr (inp.drop v.1)).isEmpty with
  | true =>
    have : commonPrefixSearch pr (inp.drop v.1) = [] := by simpa using hc
    simp only [if_true]
    unfold pushesOf
    rw [expandAt_nil_of_cps_nil this]
    rfl
  | false =>
    simp only [Bool.false_eq_true, if_false]
    rfl

end RimeModel.C08

namespace RimeModel.C08
open AMap

/-! ### the loop invariant -/

structure FInv (cfg : Cfg) (pr : Prism) (inp : Bytes) (st : FState) : Prop where
  qsorted : st.queue.Pairwise qle
  qafter : ∀ x ∈ st.queue, ∀ v tv, st.vertices.find? v = some tv → v < x.1 ∨ (v = x.1 ∧ tv ≤ x.2)
  qsound : ∀ x ∈ st.queue, x.1 ≤ inp.length ∧ ((x.1 = 0 ∧ x.2 = 0) ∨
    ∃ u tu m, st.vertices.find? u = some tu ∧ (x.1, m) ∈ pushesOf cfg pr inp u ∧ x.2 = max m tu)
  vbound : ∀ u tu, st.vertices.find? u = some tu → u ≤ inp.length
  vedges : ∀ u tu, st.vertices.find? u = some tu → ∀ e, evAt st.edges u e = (rawEV cfg pr inp u).find? e
  vpushed : ∀ u tu, st.vertices.find? u = some tu → ∀ e m, (e, m) ∈ pushesOf cfg pr inp u →
    (e, max m tu) ∈ st.queue ∨ ∃ te, st.vertices.find? e = some te ∧ te ≤ max m tu
  vsound : ∀ u tu, st.vertices.find? u = some tu → (u = 0 ∧ tu = 0) ∨
    ∃ u' tu' m, st.vertices.find? u' = some tu' ∧ (u, m) ∈ pushesOf cfg pr inp u' ∧ tu = max m tu'
  ekeys : ∀ u ev, st.edges.find? u = some ev → (st.vertices.find? u).isSome = true
  far : ∀ v tv, st.vertices.find? v = some tv → v ≤ st.farthest
  farIn : (st.vertices.find? st.farthest).isSome = true ∨ (st.farthest = 0 ∧ st.vertices.find? 0 = none)
  start : st.vertices.find? 0 = some 0 ∨ (0, 0) ∈ st.queue
  vsorted : Sorted st.vertices
  esorted : Sorted st.edges
  ewf : ∀ s ev, st.edges.find? s = some ev → Sorted ev ∧ ∀ e sm, ev.find? e = some sm → Sorted sm

theorem finv_init (cfg : Cfg) (pr : Prism) (inp : Bytes) : FInv cfg pr inp fwdInit := by
  unfold fwdInit
  exact {
    qsorted := by simp
    qafter := fun x _ v tv h => by simp at h
    qsound := fun x hx => by
      simp at hx; subst hx
      exact ⟨Nat.zero_le _, Or.inl ⟨rfl, rfl⟩⟩
    vbound := fun u tu h => by simp at h
    vedges := fun u tu h => by simp at h
    vpushed := fun u tu h => by simp at h
    vsound := fun u tu h => by simp at h
    ekeys := fun u ev h => by simp at h
    far := fun v tv h => by simp at h
    farIn := Or.inr ⟨rfl, rfl⟩
    start := Or.inr (by simp [kNormal])
    vsorted := sorted_nil
    esorted := sorted_nil
    ewf := fun s ev h => by simp at h }

theorem evAt_insert_ne {E : EMap} {s s' : Nat} (ev : EVMap) (e : Nat) (h : s ≠ s') :
    evAt (E.insert s ev) s' e = evAt E s' e := by
  unfold evAt; rw [find?_insert_ne _ _ h]

theorem evAt_insert_self {E : EMap} {s : Nat} (ev : EVMap) (e : Nat) :
    evAt (E.insert s ev) s e = ev.find? e := by
  unfold evAt; rw [find?_insert_self]; rfl

theorem finv_step {cfg : Cfg} {pr : Prism} {inp : Bytes} {st : FState} (inv : FInv cfg pr inp st) :
    FInv cfg pr inp (fstep cfg pr inp st) := by
  cases hq : st.queue with
  | nil => rw [fstep_nil hq]; exact inv
  | cons v q =>
    have hvq : v ∈ st.queue := by rw [hq]; simp
    have hsub : ∀ x, x ∈ q → x ∈ st.queue := fun x hx => by rw [hq]; exact List.mem_cons_of_mem _ hx
    have hqs : (v :: q).Pairwise qle := by rw [← hq]; exact inv.qsorted
    rw [List.pairwise_cons] at hqs
    cases hv : (st.vertices.find? v.1).isSome with
    | true =>
      rw [fstep_visited hq hv]
      obtain ⟨tv0, htv0⟩ := Option.isSome_iff_exists.mp hv
      have hle : tv0 ≤ v.2 := by
        rcases inv.qafter v hvq v.1 tv0 htv0 with h | h
        · omega
        · exact h.2
      exact {
        qsorted := hqs.2
        qafter := fun x hx => inv.qafter x (hsub x hx)
        qsound := fun x hx => inv.qsound x (hsub x hx)
        vbound := inv.vbound
        vedges := inv.vedges
        vpushed := fun u tu h e m hm => by
          rcases inv.vpushed u tu h e m hm with h1 | h1
          · rw [hq] at h1
            rcases List.mem_cons.mp h1 with h2 | h2
            · refine Or.inr ⟨tv0, ?_, ?_⟩
              · have : v.1 = e := by rw [← h2]
                rw [← this]; exact htv0
              · have : v.2 = max m tu := by rw [← h2]
                omega
            · exact Or.inl h2
          · exact Or.inr h1
        vsound := inv.vsound
        ekeys := inv.ekeys
        far := inv.far
        farIn := inv.farIn
        start := by
          rcases inv.start with h | h
          · exact Or.inl h
          · rw [hq] at h
            rcases List.mem_cons.mp h with h2 | h2
            · have h3 : v.1 = 0 := by rw [← h2]
              have h4 : v.2 = 0 := by rw [← h2]
              left
              rw [h3] at htv0
              rw [htv0]; congr 1; omega
            · exact Or.inr h2
        vsorted := inv.vsorted
        esorted := inv.esorted
        ewf := inv.ewf }
    | false =>
      have hnone : st.vertices.find? v.1 = none := by
        cases h : st.vertices.find? v.1 with
        | none => rfl
        | some t => rw [h] at hv; simp at hv
      have hE : st.edges.find? v.1 = none := by
        cases h : st.edges.find? v.1 with
        | none => rfl
        | some ev => have := inv.ekeys v.1 ev h; rw [hv] at this; cases this
      rw [fstep_new hq hv hE]
      have raw := rawAt cfg pr inp v.1
      -- lookups in the new vertex map
      have hfv : (st.vertices.insert v.1 v.2).find? v.1 = some v.2 := find?_insert_self _ _ _
      have hfo : ∀ u, u ≠ v.1 → (st.vertices.insert v.1 v.2).find? u = st.vertices.find? u :=
        fun u h => find?_insert_ne _ _ (fun h' => h h'.symm)
      have hold : ∀ u tu, st.vertices.find? u = some tu → (st.vertices.insert v.1 v.2).find? u = some tu := by
        intro u tu h
        have : u ≠ v.1 := by intro h'; rw [h', hnone] at h; cases h
        rw [hfo u this]; exact h
      have hcase : ∀ u tu, (st.vertices.insert v.1 v.2).find? u = some tu →
          (u = v.1 ∧ tu = v.2) ∨ (u ≠ v.1 ∧ st.vertices.find? u = some tu) := by
        intro u tu h
        by_cases hu : u = v.1
        · subst hu; rw [hfv] at h; cases h; exact Or.inl ⟨rfl, rfl⟩
        · rw [hfo u hu] at h; exact Or.inr ⟨hu, h⟩
      have hmemq : ∀ y, y ∈ ((pushesOf cfg pr inp v.1).map fun p => (p.1, max p.2 v.2)).foldl qinsert q ↔
          y ∈ q ∨ ∃ p ∈ pushesOf cfg pr inp v.1, y = (p.1, max p.2 v.2) := by
        intro y
        rw [mem_foldl_qinsert, List.mem_map]
        constructor
        · rintro (h | ⟨p, hp, h⟩)
          · exact Or.inl h
          · exact Or.inr ⟨p, hp, h.symm⟩
        · rintro (h | ⟨p, hp, h⟩)
          · exact Or.inl h
          · exact Or.inr ⟨p, hp, h.symm⟩
      have hvle : ∀ u tu, st.vertices.find? u = some tu → u ≤ v.1 := by
        intro u tu h
        rcases inv.qafter v hvq u tu h with h1 | h1 <;> omega
      exact {
        qsorted := foldl_qinsert_sorted hqs.2
        qafter := fun x hx u tu h => by
          rcases (hmemq x).mp hx with hx | ⟨p, hp, hx⟩
          · rcases hcase u tu h with ⟨h1, h2⟩ | ⟨_, h2⟩
            · subst h1; subst h2
              have := hqs.1 x hx
              unfold qle at this
              omega
            · exact inv.qafter x (hsub x hx) u tu h2
          · have hb := raw.pushSound p.1 p.2 hp
            subst hx
            rcases hcase u tu h with ⟨h1, _⟩ | ⟨_, h2⟩
            · left; simp only; omega
            · have := hvle u tu h2
              left; simp only; omega
        qsound := fun x hx => by
          rcases (hmemq x).mp hx with hx | ⟨p, hp, hx⟩
          · obtain ⟨h1, h2⟩ := inv.qsound x (hsub x hx)
            refine ⟨h1, ?_⟩
            rcases h2 with h2 | ⟨u, tu, m, h3, h4, h5⟩
            · exact Or.inl h2
            · exact Or.inr ⟨u, tu, m, hold u tu h3, h4, h5⟩
          · have hb := raw.pushSound p.1 p.2 hp
            subst hx
            exact ⟨hb.2.1, Or.inr ⟨v.1, v.2, p.2, hfv, hp, rfl⟩⟩
        vbound := fun u tu h => by
          rcases hcase u tu h with ⟨h1, _⟩ | ⟨_, h2⟩
          · rw [h1]; exact (inv.qsound v hvq).1
          · exact inv.vbound u tu h2
        vedges := fun u tu h e => by
          rcases hcase u tu h with ⟨h1, _⟩ | ⟨hne, h2⟩
          · subst h1
            cases hc : (commonPrefixSearch pr (inp.drop v.1)).isEmpty with
            | true =>
              have hc' : commonPrefixSearch pr (inp.drop v.1) = [] := by simpa using hc
              simp only [if_true]
              unfold evAt rawEV
              rw [hE, expandAt_nil_of_cps_nil hc']
              rfl
            | false =>
              simp only [Bool.false_eq_true, if_false]
              exact evAt_insert_self _ _
          · have := inv.vedges u tu h2 e
            cases hc : (commonPrefixSearch pr (inp.drop v.1)).isEmpty with
            | true => simp only [if_true]; exact this
            | false =>
              simp only [Bool.false_eq_true, if_false]
              rw [evAt_insert_ne _ _ (fun h' => hne h'.symm)]; exact this
        vpushed := fun u tu h e m hm => by
          rcases hcase u tu h with ⟨h1, h2⟩ | ⟨hne, h2⟩
          · subst h1; subst h2
            exact Or.inl ((hmemq _).mpr (Or.inr ⟨(e, m), hm, rfl⟩))
          · rcases inv.vpushed u tu h2 e m hm with h1 | ⟨te, h3, h4⟩
            · rw [hq] at h1
              rcases List.mem_cons.mp h1 with h3 | h3
              · refine Or.inr ⟨v.2, ?_, ?_⟩
                · have : v.1 = e := by rw [← h3]
                  rw [← this]; exact hfv
                · have : v.2 = max m tu := by rw [← h3]
                  omega
              · exact Or.inl ((hmemq _).mpr (Or.inl h3))
            · exact Or.inr ⟨te, hold e te h3, h4⟩
        vsound := fun u tu h => by
          rcases hcase u tu h with ⟨h1, h2⟩ | ⟨hne, h2⟩
          · subst h1; subst h2
            rcases (inv.qsound v hvq).2 with h3 | ⟨u', tu', m, h3, h4, h5⟩
            · exact Or.inl h3
            · exact Or.inr ⟨u', tu', m, hold u' tu' h3, h4, h5⟩
          · rcases inv.vsound u tu h2 with h3 | ⟨u', tu', m, h3, h4, h5⟩
            · exact Or.inl h3
            · exact Or.inr ⟨u', tu', m, hold u' tu' h3, h4, h5⟩
        ekeys := fun u ev h => by
          by_cases hu : u = v.1
          · subst hu; rw [hfv]; rfl
          · rw [hfo u hu]
            cases hc : (commonPrefixSearch pr (inp.drop v.1)).isEmpty with
            | true => simp only [hc, if_true] at h; exact inv.ekeys u ev h
            | false =>
              simp only [hc, Bool.false_eq_true, if_false] at h
              rw [find?_insert_ne _ _ (fun h' => hu h'.symm)] at h
              exact inv.ekeys u ev h
        far := fun u tu h => by
          rcases hcase u tu h with ⟨h1, _⟩ | ⟨_, h2⟩
          · simp only; omega
          · have := inv.far u tu h2; simp only; omega
        farIn := by
          simp only
          by_cases hm : st.farthest ≤ v.1
          · left
            have : max st.farthest v.1 = v.1 := by omega
            rw [this, hfv]; rfl
          · have hmx : max st.farthest v.1 = st.farthest := by omega
            rw [hmx]
            rcases inv.farIn with h | ⟨h, _⟩
            · left
              obtain ⟨t, ht⟩ := Option.isSome_iff_exists.mp h
              rw [hold _ t ht]; rfl
            · omega
        start := by
          rcases inv.start with h | h
          · exact Or.inl (hold 0 0 h)
          · rw [hq] at h
            rcases List.mem_cons.mp h with h2 | h2
            · have h3 : v.1 = 0 := by rw [← h2]
              have h4 : v.2 = 0 := by rw [← h2]
              left
              rw [← h3, hfv, h4, h3]
            · exact Or.inr ((hmemq _).mpr (Or.inl h2))
        vsorted := sorted_insert inv.vsorted _ _
        esorted := by
          cases hc : (commonPrefixSearch pr (inp.drop v.1)).isEmpty with
          | true => simp only [if_true]; exact inv.esorted
          | false => simp only [Bool.false_eq_true, if_false]; exact sorted_insert inv.esorted _ _
        ewf := fun s ev h => by
          cases hc : (commonPrefixSearch pr (inp.drop v.1)).isEmpty with
          | true => simp only [hc, if_true] at h; exact inv.ewf s ev h
          | false =>
            simp only [hc, Bool.false_eq_true, if_false] at h
            rw [find?_insert] at h
            split at h
            · cases h
              exact ⟨raw.sorted, fun e sm hsm => (raw.smOK e sm hsm).1⟩
            · exact inv.ewf s ev h }

end RimeModel.C08

namespace RimeModel.C08
open AMap

/-! ### termination: `fwdFuel` iterations empty the queue -/

theorem length_insert_of_none {β} {m : AMap β} {k : Nat} (v : β) (h : m.find? k = none) :
    (m.insert k v).length = m.length + 1 := by
  induction m with
  | nil => simp [AMap.insert]
  | cons hd t ih =>
    obtain ⟨a, b⟩ := hd
    rw [find?_cons] at h
    by_cases h1 : a = k
    · simp [h1] at h
    · simp only [h1, if_false] at h
      simp only [AMap.insert]
      by_cases h2 : k < a
      · simp [h2]
      · have h3 : ¬ k = a := fun h' => h1 h'.symm
        simp [h2, h3, ih h]

theorem pairwise_lt_length (l : List Nat) (lo n : Nat) (hp : l.Pairwise (· < ·))
    (hb : ∀ x ∈ l, lo ≤ x ∧ x ≤ n) : l.length ≤ n + 1 - lo := by
  induction l generalizing lo with
  | nil => simp
  | cons a t ih =>
    rw [List.pairwise_cons] at hp
    have ha := hb a (by simp)
    have := ih (a + 1) hp.2 (fun x hx => ⟨hp.1 x hx, (hb x (List.mem_cons_of_mem _ hx)).2⟩)
    simp only [List.length_cons]
    omega

theorem sorted_bounded_length {β} {m : AMap β} {n : Nat} (hs : Sorted m) (hb : ∀ k ∈ keys m, k ≤ n) :
    m.length ≤ n + 1 := by
  have := pairwise_lt_length (keys m) 0 n hs (fun x hx => ⟨Nat.zero_le _, hb x hx⟩)
  unfold keys at this
  simpa using this

theorem addMatch_pushes_length (cfg : Cfg) (pr : Prism) (inp : Bytes) (cur : Nat)
    (acc : EVMap × List (Nat × Nat)) (m : Nat × Nat) :
    (addMatch cfg pr inp cur acc m).2.length ≤ acc.2.length + 1 := by
  by_cases hz : m.2 = 0
  · rw [addMatch_zero hz]; omega
  · cases he : (matchFold cfg pr inp cur acc.1 m).1.isEmpty with
    | true => rw [addMatch_empty hz he]; simp
    | false => rw [addMatch_nonempty hz he]; simp

theorem foldl_addMatch_pushes_length (cfg : Cfg) (pr : Prism) (inp : Bytes) (cur : Nat)
    (ms : List (Nat × Nat)) (acc : EVMap × List (Nat × Nat)) :
    (ms.foldl (addMatch cfg pr inp cur) acc).2.length ≤ acc.2.length + ms.length := by
  induction ms generalizing acc with
  | nil => simp
  | cons m t ih =>
    have h1 := ih (addMatch cfg pr inp cur acc m)
    have h2 := addMatch_pushes_length cfg pr inp cur acc m
    simp only [List.foldl_cons, List.length_cons]
    omega

theorem cps_length_le (pr : Prism) (s : Bytes) : (commonPrefixSearch pr s).length ≤ s.length := by
  unfold commonPrefixSearch
  exact Nat.le_trans (List.length_filterMap_le _ _) (by simp)

theorem pushes_length_le (cfg : Cfg) (pr : Prism) (inp : Bytes) (u : Nat) :
    (pushesOf cfg pr inp u).length ≤ inp.length := by
  unfold pushesOf expandAt
  have h1 := foldl_addMatch_pushes_length cfg pr inp u (commonPrefixSearch pr (inp.drop u)) ([], [])
  have h2 := cps_length_le pr (inp.drop u)
  have h3 : (inp.drop u).length ≤ inp.length := by simp
  simp only [List.length_nil] at h1
  omega

/-- the potential that every iteration with a non-empty queue decreases -/
def potential (n : Nat) (st : FState) : Nat := st.queue.length + (n + 1 - st.vertices.length) * (n + 1)

theorem finv_vlength {cfg : Cfg} {pr : Prism} {inp : Bytes} {st : FState} (inv : FInv cfg pr inp st) :
    st.vertices.length ≤ inp.length + 1 := by
  apply sorted_bounded_length inv.vsorted
  intro k hk
  obtain ⟨t, ht⟩ := Option.isSome_iff_exists.mp (find?_isSome_iff.mpr hk)
  exact inv.vbound k t ht

theorem potential_step {cfg : Cfg} {pr : Prism} {inp : Bytes} {st : FState} (inv : FInv cfg pr inp st)
    (hne : st.queue ≠ []) :
    potential inp.length (fstep cfg pr inp st) < potential inp.length st := by
  cases hq : st.queue with
  | nil => exact absurd hq hne
  | cons v q =>
    cases hv : (st.vertices.find? v.1).isSome with
    | true =>
      rw [fstep_visited hq hv]
      unfold potential
      simp only [hq, List.length_cons]
      omega
    | false =>
      have hnone : st.vertices.find? v.1 = none := by
        cases h : st.vertices.find? v.1 with
        | none => rfl
        | some t => rw [h] at hv; simp at hv
      have hE : st.edges.find? v.1 = none := by
        cases h : st.edges.find? v.1 with
        | none => rfl
        | some ev => have := inv.ekeys v.1 ev h; rw [hv] at this; cases this
      have inv' := finv_step inv
      have hl' := finv_vlength inv'
      rw [fstep_new hq hv hE] at inv' hl' ⊢
      unfold potential
      simp only [hq, List.length_cons, length_foldl_qinsert, List.length_map]
      simp only [length_insert_of_none v.2 hnone] at hl' ⊢
      have hp := pushes_length_le cfg pr inp v.1
      have e1 : inp.length + 1 - st.vertices.length = (inp.length + 1 - (st.vertices.length + 1)) + 1 := by omega
      rw [e1, Nat.succ_mul]
      omega

theorem fwdLoop_of_nil {cfg : Cfg} {pr : Prism} {inp : Bytes} (k : Nat) {st : FState} (h : st.queue = []) :
    fwdLoop cfg pr inp k st = st := by
  induction k with
  | zero => rfl
  | succ k ih => unfold fwdLoop; rw [fstep_nil h]; exact ih

theorem finv_loop {cfg : Cfg} {pr : Prism} {inp : Bytes} (k : Nat) {st : FState} (inv : FInv cfg pr inp st) :
    FInv cfg pr inp (fwdLoop cfg pr inp k st) := by
  induction k generalizing st with
  | zero => exact inv
  | succ k ih => unfold fwdLoop; exact ih (finv_step inv)

theorem fwdLoop_queue_nil {cfg : Cfg} {pr : Prism} {inp : Bytes} (k : Nat) {st : FState} (inv : FInv cfg pr inp st)
    (hp : potential inp.length st ≤ k) : (fwdLoop cfg pr inp k st).queue = [] := by
  induction k generalizing st with
  | zero =>
    unfold potential at hp
    have : st.queue.length = 0 := by omega
    unfold fwdLoop
    simpa using this
  | succ k ih =>
    unfold fwdLoop
    by_cases hq : st.queue = []
    · rw [fstep_nil hq, fwdLoop_of_nil k hq]; exact hq
    · have := potential_step inv hq
      exact ih (finv_step inv) (by omega)

theorem forward_inv (cfg : Cfg) (pr : Prism) (inp : Bytes) : FInv cfg pr inp (forward cfg pr inp) :=
  finv_loop _ (finv_init cfg pr inp)

theorem forward_queue_nil (cfg : Cfg) (pr : Prism) (inp : Bytes) : (forward cfg pr inp).queue = [] := by
  apply fwdLoop_queue_nil _ (finv_init cfg pr inp)
  unfold potential fwdInit fwdFuel
  simp
  omega

end RimeModel.C08
