import RimeModel.C08.Forward
/-! C08 — what the forward search returns, in the vocabulary of the property -/
namespace RimeModel.C08
open AMap

section
variable (cfg : Cfg) (pr : Prism) (inp : Bytes)

theorem fwd_start : (forward cfg pr inp).vertices.find? 0 = some 0 := by
  rcases (forward_inv cfg pr inp).start with h | h
  · exact h
  · rw [forward_queue_nil] at h; simp at h

/-- every push of a visited vertex was popped: the end vertex is visited with a type not worse -/
theorem fwd_closed {u tu e m : Nat} (h : (forward cfg pr inp).vertices.find? u = some tu)
    (hm : (e, m) ∈ pushesOf cfg pr inp u) :
    ∃ te, (forward cfg pr inp).vertices.find? e = some te ∧ te ≤ max m tu := by
  rcases (forward_inv cfg pr inp).vpushed u tu h e m hm with h1 | h1
  · rw [forward_queue_nil] at h1; simp at h1
  · exact h1

theorem fwd_evAt_visited {u tu : Nat} (h : (forward cfg pr inp).vertices.find? u = some tu) (e : Nat) :
    evAt (forward cfg pr inp).edges u e = (rawEV cfg pr inp u).find? e :=
  (forward_inv cfg pr inp).vedges u tu h e

theorem fwd_edge_visited {s e : Nat} {sm : SMap} (h : evAt (forward cfg pr inp).edges s e = some sm) :
    ∃ t, (forward cfg pr inp).vertices.find? s = some t := by
  unfold evAt at h
  cases hf : (forward cfg pr inp).edges.find? s with
  | none => rw [hf] at h; simp at h
  | some ev => exact Option.isSome_iff_exists.mp ((forward_inv cfg pr inp).ekeys s ev hf)

/-- a step of a tiling out of a visited vertex leads to a visited vertex of type ≤ the worse of the two -/
theorem fwd_step {u tu e : Nat} {k : Bytes} {d : Desc}
    (h : (forward cfg pr inp).vertices.find? u = some tu)
    (hst : Stored pr k d) (hsp : SpansC cfg.delims inp u e k) (hadm : Admits cfg inp u e d) :
    ∃ te, (forward cfg pr inp).vertices.find? e = some te ∧ te ≤ max d.type tu := by
  obtain ⟨t, ht, hle⟩ := (rawAt cfg pr inp u).pushComplete e k d hst hsp hadm
  obtain ⟨te, h1, h2⟩ := fwd_closed cfg pr inp h ht
  exact ⟨te, h1, by omega⟩

theorem fwd_reach_visited {p : Nat} (h : Reach cfg pr inp p) :
    ∃ t, (forward cfg pr inp).vertices.find? p = some t := by
  induction h with
  | zero => exact ⟨0, fwd_start cfg pr inp⟩
  | step _ hst hsp hadm ih =>
    obtain ⟨tu, htu⟩ := ih
    obtain ⟨te, h1, _⟩ := fwd_step cfg pr inp htu hst (spansC_of_spans hsp) hadm
    exact ⟨te, h1⟩

/-- how a visited vertex other than 0 got its type -/
theorem fwd_pred {v t : Nat} (h : (forward cfg pr inp).vertices.find? v = some t) (hv : v ≠ 0) :
    ∃ u tu sm, (forward cfg pr inp).vertices.find? u = some tu ∧ u < v ∧ tu ≤ t ∧
      evAt (forward cfg pr inp).edges u v = some sm ∧
      (kInvalid ≤ t ∨ ∃ syl p, sm.find? syl = some p ∧ p.type ≤ t) := by
  rcases (forward_inv cfg pr inp).vsound v t h with ⟨h1, _⟩ | ⟨u, tu, m, h1, h2, h3⟩
  · exact absurd h1 hv
  · obtain ⟨hlt, _, sm, hsm, hw⟩ := (rawAt cfg pr inp u).pushSound v m h2
    refine ⟨u, tu, sm, h1, hlt, by omega, ?_, ?_⟩
    · rw [fwd_evAt_visited cfg pr inp h1]; exact hsm
    · rcases hw with hw | ⟨syl, p, hp1, hp2⟩
      · left; omega
      · right; exact ⟨syl, p, hp1, by omega⟩

theorem fwd_edge_sound {s e syl : Nat} {sm : SMap} {p : Props}
    (h : evAt (forward cfg pr inp).edges s e = some sm) (hp : sm.find? syl = some p) :
    p.endPos = e ∧ p.compl = 0 ∧ p.amb = 0 ∧
    ∃ k d, Stored pr k d ∧ SpansC cfg.delims inp s e k ∧ Admits cfg inp s e d ∧ d.syl = syl ∧ d.type = p.type := by
  obtain ⟨t, ht⟩ := fwd_edge_visited cfg pr inp h
  rw [fwd_evAt_visited cfg pr inp ht] at h
  exact (rawAt cfg pr inp s).sound e sm syl p h hp

theorem fwd_edge_ok {s e : Nat} {sm : SMap} (h : evAt (forward cfg pr inp).edges s e = some sm) :
    Sorted sm ∧ sm ≠ [] ∧ s < e ∧ e ≤ inp.length := by
  obtain ⟨t, ht⟩ := fwd_edge_visited cfg pr inp h
  rw [fwd_evAt_visited cfg pr inp ht] at h
  have h1 := (rawAt cfg pr inp s).smOK e sm h
  have h2 := (rawAt cfg pr inp s).endsGt e sm h
  exact ⟨h1.1, h1.2, h2.1, h2.2⟩

theorem fwd_edge_complete {u tu e : Nat} {k : Bytes} {d : Desc}
    (h : (forward cfg pr inp).vertices.find? u = some tu)
    (hst : Stored pr k d) (hsp : SpansC cfg.delims inp u e k) (hadm : Admits cfg inp u e d) :
    ∃ sm p, evAt (forward cfg pr inp).edges u e = some sm ∧ sm.find? d.syl = some p ∧ p.type ≤ d.type := by
  obtain ⟨sm, p, h1, h2, h3⟩ := (rawAt cfg pr inp u).complete e k d hst hsp hadm
  exact ⟨sm, p, by rw [fwd_evAt_visited cfg pr inp h]; exact h1, h2, h3⟩

theorem fwd_visited_reach {p : Nat} :
    ∀ t, (forward cfg pr inp).vertices.find? p = some t → Reach cfg pr inp p := by
  induction p using Nat.strongRecOn with
  | _ p ih =>
    intro t h
    by_cases hp : p = 0
    · subst hp; exact Reach.zero
    · obtain ⟨u, tu, sm, h1, h2, _, h4, _⟩ := fwd_pred cfg pr inp h hp
      obtain ⟨_, hne, _, _⟩ := fwd_edge_ok cfg pr inp h4
      obtain ⟨syl, q, hq⟩ := exists_find?_of_ne_nil hne
      obtain ⟨_, _, _, k, d, hst, hsp, hadm, _, _⟩ := fwd_edge_sound cfg pr inp h4 hq
      exact Reach.step (ih u h2 tu h1) hst (spans_of_spansC hsp) hadm

theorem fwd_farthest_visited : ∃ t, (forward cfg pr inp).vertices.find? (forward cfg pr inp).farthest = some t := by
  rcases (forward_inv cfg pr inp).farIn with h | ⟨_, h⟩
  · exact Option.isSome_iff_exists.mp h
  · rw [fwd_start] at h; cases h

theorem fwd_farthest_max {p : Nat} (h : Reach cfg pr inp p) : p ≤ (forward cfg pr inp).farthest := by
  obtain ⟨t, ht⟩ := fwd_reach_visited cfg pr inp h
  exact (forward_inv cfg pr inp).far p t ht

theorem fwd_farthest_reach : Reach cfg pr inp (forward cfg pr inp).farthest := by
  obtain ⟨t, ht⟩ := fwd_farthest_visited cfg pr inp
  exact fwd_visited_reach cfg pr inp t ht

theorem fwd_farthest_le : (forward cfg pr inp).farthest ≤ inp.length := by
  obtain ⟨t, ht⟩ := fwd_farthest_visited cfg pr inp
  exact (forward_inv cfg pr inp).vbound _ t ht

theorem fwd_visited_le {v t : Nat} (h : (forward cfg pr inp).vertices.find? v = some t) :
    v ≤ (forward cfg pr inp).farthest := (forward_inv cfg pr inp).far v t h

end
end RimeModel.C08
