import RimeModel.C08.AMap
/-
C08 — executable model of `rime::Syllabifier::BuildSyllableGraph`
(src/rime/algo/syllabifier.cc), corrector off (the default: `corrector_ == nullptr`), over an
abstract prism.

Prism abstraction: the list of rows `(spelling, descriptors)` in spelling-id order (darts assigns
the value `i` to the `i`-th key), where `descriptors` is exactly what a `SpellingAccessor`
enumerates for that id (`syllable_id`, `type`, `credibility`), together with the alphabet
`ExpandSearch` iterates.  Credibilities are opaque: `cred` is the bit pattern of the stored
double, the penalties the syllabifier adds are *counted* (`compl`, `amb`), never computed.

Spelling types are `Nat`s: 0 normal, 1 fuzzy, 2 abbreviation, 3 completion, 4 ambiguous,
5 invalid (src/rime/algo/spelling.h).
-/
namespace RimeModel.C08

abbrev Bytes := List UInt8

def kNormal : Nat := 0
def kFuzzy : Nat := 1
def kAbbrev : Nat := 2
def kCompletion : Nat := 3
def kAmbiguous : Nat := 4
def kInvalid : Nat := 5

/-- one entry a `SpellingAccessor` yields for a spelling -/
structure Desc where
  syl : Nat
  type : Nat
  cred : Nat
  deriving Repr, DecidableEq

/-- rows in spelling-id order -/
abbrev Prism := List (Bytes × List Desc)

/-- `EdgeProperties` (is_correction is constantly false with the corrector off; `tips` unused) -/
structure Props where
  type : Nat
  endPos : Nat
  /-- bit pattern of the credibility read from the prism -/
  cred : Nat
  /-- number of times `kCompletionPenalty` was added -/
  compl : Nat
  /-- number of times `kPenaltyForAmbiguousSyllable` was added -/
  amb : Nat
  deriving Repr, DecidableEq

structure Cfg where
  delims : Bytes
  completion : Bool
  strict : Bool
  /-- the alphabet `Prism::ExpandSearch` iterates (metadata alphabet of a loaded prism) -/
  alphabet : Bytes
  deriving Repr

abbrev SMap := AMap Props          -- SpellingMap   : syllable id → properties
abbrev EVMap := AMap SMap          -- EndVertexMap  : end position → SpellingMap
abbrev EMap := AMap EVMap          -- EdgeMap       : start position → EndVertexMap
abbrev VMap := AMap Nat            -- VertexMap     : position → spelling type
abbrev IMap := AMap (AMap (List Props))  -- SpellingIndices : start → syllable → properties list

/-! ### the prism searches -/

/-- `trie.exactMatchSearch`: the id of a spelling -/
def keyIndex : Prism → Bytes → Option Nat
  | [], _ => none
  | row :: rest, k => if row.1 = k then some 0 else (keyIndex rest k).map (· + 1)

/-- what `QuerySpelling(id)` enumerates -/
def descsOf (pr : Prism) (i : Nat) : List Desc :=
  match pr[i]? with
  | some row => row.2
  | none => []

/-- `Prism::CommonPrefixSearch`: all stored spellings that are prefixes of `s`, as
`(id, length)`, by increasing length (darts order). -/
def commonPrefixSearch (pr : Prism) (s : Bytes) : List (Nat × Nat) :=
  (List.range s.length).filterMap fun i =>
    match keyIndex pr (s.take (i + 1)) with
    | some v => some (v, i + 1)
    | none => none

/-- `trie.traverse(s) != -2`: `s` is a prefix of some stored spelling -/
def isPath (pr : Prism) (s : Bytes) : Bool := pr.any (fun row => s.isPrefixOf row.1)

def maxKeyLen (pr : Prism) : Nat := pr.foldl (fun m row => max m row.1.length) 0

/-- children of the nodes of one BFS level, in queue order -/
def expandLevel (pr : Prism) (al : Bytes) (frontier : List Bytes) : List Bytes :=
  frontier.flatMap fun node => al.filterMap fun c =>
    if isPath pr (node ++ [c]) then some (node ++ [c]) else none

def matchesOf (pr : Prism) (nodes : List Bytes) : List (Nat × Nat) :=
  nodes.filterMap fun k =>
    match keyIndex pr k with
    | some v => some (v, k.length)
    | none => none

def expandLoop (pr : Prism) (al : Bytes) : Nat → List Bytes → List (Nat × Nat)
  | 0, _ => []
  | fuel + 1, frontier =>
    matchesOf pr (expandLevel pr al frontier) ++ expandLoop pr al fuel (expandLevel pr al frontier)

/-- `Prism::ExpandSearch(key, &result, limit)`: breadth-first walk below `key`, children in
alphabet order, every node that is a spelling is reported as `(id, length)`; stops at `limit`. -/
def expandSearch (pr : Prism) (al : Bytes) (key : Bytes) (limit : Nat) : List (Nat × Nat) :=
  if isPath pr key then
    let all := matchesOf pr [key] ++ expandLoop pr al (maxKeyLen pr) [key]
    if limit = 0 then all else all.take limit
  else []

/-! ### the alphabet `ExpandSearch` walks -/

/-- `kDefaultAlphabet` (prism.cc): `"abcdefghijklmnopqrstuvwxyz"` -/
def kDefaultAlphabet : Bytes := (List.range 26).map fun i => UInt8.ofNat (97 + i)

/-- position of a byte in the order of `set<char>`; `char` is signed on the x86-64 build checked
here, so 0x80‥0xff come before 0x00‥0x7f -/
def charKey (b : UInt8) : Nat := (b.toNat + 128) % 256

/-- `set<char>::insert` on the ascending list of the set's elements -/
def insertChar (c : UInt8) : Bytes → Bytes
  | [] => [c]
  | d :: t => if c = d then d :: t else if charKey c < charKey d then c :: d :: t else d :: insertChar c t

/-- the alphabet `Prism::Build` writes into the metadata: the `set<char>` of every character of
every spelling (`for i < num_spellings: for p in keys[i]: alphabet.insert(*p)`) -/
def buildAlphabet (pr : Prism) : Bytes := (pr.flatMap (·.1)).foldl (fun s c => insertChar c s) []

/-- the characters `Prism::ExpandSearch` tries below a node:
`(format_ > 1.0 - DBL_EPSILON) ? metadata_->alphabet : kDefaultAlphabet`.
`format_` is a member initialised to 0.0; `Build` writes the tag `Rime::Prism/3.0` into the file but
leaves the member alone, `Load` parses it from the tag (3.0 for a file written by this version).
So `loaded = true` — the object was `Load`ed from a saved file, what every deployed prism is —
walks the stored alphabet, and an object that only ran `Build` walks a–z whatever its spellings
are made of.  Whether the prism carries a spelling map plays no role. -/
def searchAlphabet (loaded : Bool) (pr : Prism) : Bytes :=
  if loaded then buildAlphabet pr else kDefaultAlphabet

/-! ### forward search -/

/-- `while (end_pos < input.length() && delimiters_.find(input[end_pos]) != npos) ++end_pos;` -/
def skipDelims (delims inp : Bytes) (pos : Nat) : Nat :=
  pos + ((inp.drop pos).takeWhile (fun b => delims.contains b)).length

/-- body of the accessor loop (lines 93–121): `acc = (spellings, end_vertex_type)`;
`drop` = `strict_spelling_ && matches_input`. -/
def addDesc (drop : Bool) (endPos : Nat) (acc : SMap × Nat) (d : Desc) : SMap × Nat :=
  if drop && d.type != kNormal then acc
  else
    ((match acc.1.find? d.syl with
      | none => acc.1.insert d.syl ⟨d.type, endPos, d.cred, 0, 0⟩
      | some p => acc.1.insert d.syl { p with type := min p.type d.type }),
     if acc.2 > d.type then d.type else acc.2)

/-- body of the loop over matches (lines 77–136) at `cur`: `acc = (end_vertices, pushes)`;
a push is `(end_pos, end_vertex_type)` before it is raised to the type of the current vertex. -/
def addMatch (cfg : Cfg) (pr : Prism) (inp : Bytes) (cur : Nat)
    (acc : EVMap × List (Nat × Nat)) (m : Nat × Nat) : EVMap × List (Nat × Nat) :=
  if m.2 = 0 then acc else
  let endPos := skipDelims cfg.delims inp (cur + m.2)
  let drop := cfg.strict && (cur == 0 && endPos == inp.length)
  let r := (descsOf pr m.1).foldl (addDesc drop endPos) ((acc.1.find? endPos).getD [], kInvalid)
  if r.1.isEmpty then (acc.1.erase endPos, acc.2)
  else (acc.1.insert endPos r.1, acc.2 ++ [(endPos, r.2)])

/-- all out-edges of position `cur` and the vertices they push -/
def expandAt (cfg : Cfg) (pr : Prism) (inp : Bytes) (cur : Nat) (ev0 : EVMap) :
    EVMap × List (Nat × Nat) :=
  (commonPrefixSearch pr (inp.drop cur)).foldl (addMatch cfg pr inp cur) (ev0, [])

/-- ordered insert into the min-queue of `(pos, type)` (lexicographic `std::greater` heap) -/
def qinsert : List (Nat × Nat) → Nat × Nat → List (Nat × Nat)
  | [], x => [x]
  | y :: t, x => if x.1 < y.1 ∨ (x.1 = y.1 ∧ x.2 ≤ y.2) then x :: y :: t else y :: qinsert t x

structure FState where
  queue : List (Nat × Nat)
  vertices : VMap
  edges : EMap
  farthest : Nat
  deriving Repr

/-- one iteration of `while (!queue.empty())` (lines 35–138) -/
def fstep (cfg : Cfg) (pr : Prism) (inp : Bytes) (st : FState) : FState :=
  match st.queue with
  | [] => st
  | v :: q =>
    if (st.vertices.find? v.1).isSome then { st with queue := q }
    else if (commonPrefixSearch pr (inp.drop v.1)).isEmpty then
      { queue := q, vertices := st.vertices.insert v.1 v.2, edges := st.edges,
        farthest := max st.farthest v.1 }
    else
      let r := expandAt cfg pr inp v.1 ((st.edges.find? v.1).getD [])
      { queue := (r.2.map fun p => (p.1, max p.2 v.2)).foldl qinsert q,
        vertices := st.vertices.insert v.1 v.2,
        edges := st.edges.insert v.1 r.1,
        farthest := max st.farthest v.1 }

def fwdLoop (cfg : Cfg) (pr : Prism) (inp : Bytes) : Nat → FState → FState
  | 0, st => st
  | fuel + 1, st => fwdLoop cfg pr inp fuel (fstep cfg pr inp st)

/-- enough iterations to empty the queue (proved: `forward_queue_nil` in Forward.lean,
restated as `C08.forward_loop_exhausts_queue`) -/
def fwdFuel (n : Nat) : Nat := (n + 1) * (n + 1) + 1

def fwdInit : FState := { queue := [(0, kNormal)], vertices := [], edges := [], farthest := 0 }

def forward (cfg : Cfg) (pr : Prism) (inp : Bytes) : FState :=
  fwdLoop cfg pr inp (fwdFuel inp.length) fwdInit

/-! ### backward pruning -/

structure PState where
  vertices : VMap
  edges : EMap
  good : List Nat
  deriving Repr

def penalize (p : Props) : Props := { p with amb := p.amb + 1 }

/-- one `joint` of `CheckOverlappedSpellings` (lines 254–274) -/
def overlapAt (end_ : Nat) (st : PState) (joint : Nat) : PState :=
  match st.edges.find? joint with
  | none => st
  | some xev =>
    match xev.firstGE end_ with
    | none => st
    | some x =>
      if x.1 = end_ then
        { st with
          edges := st.edges.modify joint (fun ev => ev.modify end_ (fun sm => sm.map fun kv => (kv.1, penalize kv.2)))
          vertices := st.vertices.insert joint kAmbiguous }
      else st

/-- `CheckOverlappedSpellings(graph, start, end)` -/
def checkOverlapped (st : PState) (start end_ : Nat) : PState :=
  match st.edges.find? start with
  | none => st
  | some yev => ((AMap.keys yev).takeWhile (fun j => decide (j < end_))).foldl (overlapAt end_) st

def filterTypes (lastType : Nat) (sm : SMap) : SMap := sm.filter (fun kv => decide (kv.2.type ≤ lastType))

def edgeType (sm : SMap) : Nat := sm.foldl (fun t kv => if kv.2.type < t then kv.2.type else t) kInvalid

/-- body of the loop over `j` (lines 150–179) for one end position `j` of `edges[i]` -/
def pruneEdge (lastType i : Nat) (st : PState) (j : Nat) : PState :=
  match ((st.edges.find? i).getD []).find? j with
  | none => st
  | some sm =>
    if !st.good.contains j then { st with edges := st.edges.modify i (fun ev => ev.erase j) }
    else if (filterTypes lastType sm).isEmpty then { st with edges := st.edges.modify i (fun ev => ev.erase j) }
    else
      let st' := { st with edges := st.edges.modify i (fun ev => ev.modify j (filterTypes lastType)) }
      if edgeType (filterTypes lastType sm) < kAbbrev then checkOverlapped st' i j else st'

/-- body of `for (int i = farthest - 1; i >= 0; --i)` (lines 146–188) -/
def pruneAt (lastType : Nat) (st : PState) (i : Nat) : PState :=
  if (st.vertices.find? i).isNone then st else
  let st1 := (AMap.keys ((st.edges.find? i).getD [])).foldl (pruneEdge lastType i) st
  if decide ((st1.vertices.find? i).getD 0 > lastType) || ((st1.edges.find? i).getD []).isEmpty then
    { st1 with vertices := st1.vertices.erase i, edges := st1.edges.erase i }
  else { st1 with good := i :: st1.good }

/-- positions `k-1, …, 0` -/
def pruneLoop (lastType : Nat) : Nat → PState → PState
  | 0, st => st
  | k + 1, st => pruneLoop lastType k (pruneAt lastType st k)

def lastTypeOf (f : FState) : Nat := max ((f.vertices.find? f.farthest).getD 0) kFuzzy

def prune (f : FState) : PState :=
  pruneLoop (lastTypeOf f) f.farthest { vertices := f.vertices, edges := f.edges, good := [f.farthest] }

/-! ### completion, transpose -/

/-- accessor loop of the completion branch (lines 208–220); `spellings.insert` keeps an existing entry -/
def addCompl (endPos : Nat) (sp : SMap) (d : Desc) : SMap :=
  if d.type < kAbbrev then
    match sp.find? d.syl with
    | some _ => sp
    | none => sp.insert d.syl ⟨kCompletion, endPos, d.cred, 1, 0⟩
  else sp

def complKey (pr : Prism) (codeLen endPos : Nat) (sp : SMap) (m : Nat × Nat) : SMap :=
  if m.2 < codeLen then sp else (descsOf pr m.1).foldl (addCompl endPos) sp

def kExpandSearchLimit : Nat := 512

/-- lines 190–231; returns the edge map and the new `farthest` -/
def complete (cfg : Cfg) (pr : Prism) (inp : Bytes) (edges : EMap) (farthest : Nat) : EMap × Nat :=
  if cfg.completion && decide (farthest < inp.length) then
    let keys := expandSearch pr cfg.alphabet (inp.drop farthest) kExpandSearchLimit
    if keys.isEmpty then (edges, farthest)
    else
      let endPos := inp.length
      let ev := (edges.find? farthest).getD []
      let sp := keys.foldl (complKey pr (endPos - farthest) endPos) ((ev.find? endPos).getD [])
      if sp.isEmpty then (edges.insert farthest (ev.erase endPos), farthest)
      else (edges.insert farthest (ev.insert endPos sp), endPos)
  else (edges, farthest)

def transposeSM (idx : AMap (List Props)) (sm : SMap) : AMap (List Props) :=
  sm.foldl (fun idx kv => idx.insert kv.1 ((idx.find? kv.1).getD [] ++ [kv.2])) idx

/-- index of one start position: end positions in reverse (descending) order -/
def transposeEV (ev : EVMap) : AMap (List Props) :=
  ev.reverse.foldl (fun idx e => transposeSM idx e.2) []

/-- `Syllabifier::Transpose` -/
def transpose (edges : EMap) : IMap := edges.map fun s => (s.1, transposeEV s.2)

structure Graph where
  inputLength : Nat
  interpretedLength : Nat
  vertices : VMap
  edges : EMap
  indices : IMap
  deriving Repr

def emptyGraph : Graph := { inputLength := 0, interpretedLength := 0, vertices := [], edges := [], indices := [] }

/-- `Syllabifier::BuildSyllableGraph(input, prism, &graph)` on a fresh graph; the `int` result is
`interpretedLength` (0 and an untouched graph for the empty input). -/
def build (cfg : Cfg) (pr : Prism) (inp : Bytes) : Graph :=
  if inp.isEmpty then emptyGraph else
  let f := forward cfg pr inp
  let p := prune f
  let c := complete cfg pr inp p.edges f.farthest
  { inputLength := inp.length, interpretedLength := c.2, vertices := p.vertices, edges := c.1,
    indices := transpose c.1 }

end RimeModel.C08
