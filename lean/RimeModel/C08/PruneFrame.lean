import RimeModel.C08.PruneSkel
/-! C08 — the real pruning pass (with `CheckOverlappedSpellings`) refines the skeleton pass:
the ambiguity check changes credibilities and vertex *types* only. -/
namespace RimeModel.C08
open AMap

/-- sortedness of the two inner map levels -/
def EVWF (ev : EVMap) : Prop := Sorted ev ∧ ∀ e sm, ev.find? e = some sm → Sorted sm
def EWF (E : EMap) : Prop := ∀ s ev, E.find? s = some ev → EVWF ev

theorem evwf_erase {ev : EVMap} (h : EVWF ev) (j : Nat) : EVWF (ev.erase j) := by
  refine ⟨sorted_erase h.1 j, ?_⟩
  intro e sm hf
  rw [find?_erase] at hf
  split at hf
  · cases hf
  · exact h.2 e sm hf

theorem evwf_modify {ev : EVMap} (h : EVWF ev) (j : Nat) (g : SMap → SMap) (hg : ∀ sm, Sorted sm → Sorted (g sm)) :
    EVWF (ev.modify j g) := by
  refine ⟨sorted_modify h.1 j g, ?_⟩
  intro e sm hf
  rw [find?_modify] at hf
  split at hf
  · cases hq : ev.find? e with
    | none => rw [hq] at hf; cases hf
    | some sm' =>
      rw [hq] at hf; simp only [Option.map_some] at hf; cases hf
      exact hg sm' (h.2 e sm' hq)
  · exact h.2 e sm hf

theorem ewf_modify {E : EMap} (h : EWF E) (i : Nat) (f : EVMap → EVMap) (hf : ∀ ev, EVWF ev → EVWF (f ev)) :
    EWF (E.modify i f) := by
  intro s ev hs
  rw [find?_modify] at hs
  split at hs
  · cases hq : E.find? s with
    | none => rw [hq] at hs; cases hs
    | some ev' =>
      rw [hq] at hs; simp only [Option.map_some] at hs; cases hs
      exact hf ev' (h s ev' hq)
  · exact h s ev hs

theorem ewf_erase {E : EMap} (h : EWF E) (i : Nat) : EWF (E.erase i) := by
  intro s ev hs
  rw [find?_erase] at hs
  split at hs
  · cases hs
  · exact h s ev hs

theorem sorted_filterTypes {sm : SMap} (L : Nat) (h : Sorted sm) : Sorted (filterTypes L sm) :=
  sorted_filter h _

theorem sorted_penalize {sm : SMap} (h : Sorted sm) : Sorted (sm.map fun kv => (kv.1, penalize kv.2) : SMap) :=
  sorted_mapVal h penalize

/-- shape facts that depend on the stripped map only -/
theorem isSome_find?_of_strip {E E' : EMap} (h : stripE E' = stripE E) (i : Nat) :
    (E'.find? i).isSome = (E.find? i).isSome := by
  have := congrArg (fun X => (AMap.find? X i).isSome) h
  simp only [find?_stripE, Option.isSome_map] at this
  exact this

theorem isSome_evAt_of_strip {E E' : EMap} (h : stripE E' = stripE E) (s e : Nat) :
    (evAt E' s e).isSome = (evAt E s e).isSome := by
  have := congrArg (fun X => (evAt X s e).isSome) h
  simp only [evAt_stripE, Option.isSome_map] at this
  exact this

/-! ### `CheckOverlappedSpellings` -/

theorem overlapAt_good (e : Nat) (st : PState) (joint : Nat) : (overlapAt e st joint).good = st.good := by
  unfold overlapAt
  split
  · rfl
  · split
    · rfl
    · split <;> rfl

theorem overlapAt_strip (e : Nat) (st : PState) (joint : Nat) :
    stripE (overlapAt e st joint).edges = stripE st.edges := by
  unfold overlapAt
  split
  · rfl
  · split
    · rfl
    · split
      · simp only
        unfold stripE
        apply map_modify_same
        intro ev
        show stripEV (ev.modify e _) = stripEV ev
        unfold stripEV
        apply map_modify_same
        intro sm
        exact stripSM_penalize sm
      · rfl

theorem overlapAt_vertices_ne (e : Nat) (st : PState) (joint : Nat) {i : Nat} (h : i ≠ joint) :
    (overlapAt e st joint).vertices.find? i = st.vertices.find? i := by
  unfold overlapAt
  split
  · rfl
  · split
    · rfl
    · split
      · simp only
        rw [find?_insert_ne _ _ (fun h' => h h'.symm)]
      · rfl

theorem overlapAt_vsome (e : Nat) (st : PState) (joint : Nat)
    (hk : (st.edges.find? joint).isSome = true → (st.vertices.find? joint).isSome = true) (i : Nat) :
    ((overlapAt e st joint).vertices.find? i).isSome = (st.vertices.find? i).isSome := by
  by_cases hi : i = joint
  · subst hi
    unfold overlapAt
    split
    · rfl
    · rename_i xev hx
      have := hk (by rw [hx]; rfl)
      split
      · rfl
      · split
        · simp only
          rw [find?_insert_self, this]; rfl
        · rfl
  · rw [overlapAt_vertices_ne e st joint hi]

theorem overlapAt_ewf (e : Nat) (st : PState) (joint : Nat) (h : EWF st.edges) :
    EWF (overlapAt e st joint).edges := by
  unfold overlapAt
  split
  · exact h
  · split
    · exact h
    · split
      · simp only
        apply ewf_modify h
        intro ev hev
        apply evwf_modify hev
        intro sm hsm
        exact sorted_penalize hsm
      · exact h

structure COFrame (st st' : PState) : Prop where
  good : st'.good = st.good
  strip : stripE st'.edges = stripE st.edges
  vsome : ∀ i, (st'.vertices.find? i).isSome = (st.vertices.find? i).isSome
  ewf : EWF st'.edges

theorem overlap_fold (e : Nat) (joints : List Nat) (st : PState)
    (hk : ∀ i, (st.edges.find? i).isSome = true → (st.vertices.find? i).isSome = true) (hw : EWF st.edges) :
    COFrame st (joints.foldl (overlapAt e) st) ∧
    ∀ i, i ∉ joints → (joints.foldl (overlapAt e) st).vertices.find? i = st.vertices.find? i := by
  induction joints generalizing st with
  | nil => exact ⟨⟨rfl, rfl, fun _ => rfl, hw⟩, fun _ _ => rfl⟩
  | cons j t ih =>
    have hs := overlapAt_strip e st j
    have hv := overlapAt_vsome e st j (hk j)
    have hk' : ∀ i, ((overlapAt e st j).edges.find? i).isSome = true →
        ((overlapAt e st j).vertices.find? i).isSome = true := by
      intro i hi
      rw [isSome_find?_of_strip hs] at hi
      rw [hv i]; exact hk i hi
    obtain ⟨fr, hout⟩ := ih (overlapAt e st j) hk' (overlapAt_ewf e st j hw)
    simp only [List.foldl_cons]
    refine ⟨⟨?_, ?_, ?_, fr.ewf⟩, ?_⟩
    · rw [fr.good, overlapAt_good]
    · rw [fr.strip, hs]
    · intro i; rw [fr.vsome i, hv i]
    · intro i hi
      simp only [List.mem_cons, not_or] at hi
      rw [hout i hi.2, overlapAt_vertices_ne e st j hi.1]

theorem checkOverlapped_frame (st : PState) (start end_ : Nat)
    (hk : ∀ i, (st.edges.find? i).isSome = true → (st.vertices.find? i).isSome = true)
    (hfwd : ∀ s e, (evAt st.edges s e).isSome = true → s < e) (hw : EWF st.edges) :
    COFrame st (checkOverlapped st start end_) ∧
    ∀ i, i ≤ start → (checkOverlapped st start end_).vertices.find? i = st.vertices.find? i := by
  unfold checkOverlapped
  cases hy : st.edges.find? start with
  | none => exact ⟨⟨rfl, rfl, fun _ => rfl, hw⟩, fun _ _ => rfl⟩
  | some yev =>
    simp only
    obtain ⟨fr, hout⟩ := overlap_fold end_ ((keys yev).takeWhile (fun j => decide (j < end_))) st hk hw
    refine ⟨fr, ?_⟩
    intro i hi
    apply hout
    intro hmem
    have hmem' : i ∈ keys yev := (List.takeWhile_sublist _).subset hmem
    have : (evAt st.edges start i).isSome = true := by
      unfold evAt; rw [hy]
      simp only [Option.bind_some]
      exact find?_isSome_iff.mpr hmem'
    have := hfwd start i this
    omega

end RimeModel.C08

namespace RimeModel.C08
open AMap

/-! ### one end vertex: `pruneEdge` refines `pruneEdgeS` -/

structure ERel (k : Nat) (st0 st : PState) (X : EMap) : Prop where
  edges : stripE st.edges = X
  good : st.good = st0.good
  vsame : ∀ i, i ≤ k → st.vertices.find? i = st0.vertices.find? i
  vsome : ∀ i, (st.vertices.find? i).isSome = (st0.vertices.find? i).isSome
  ekeys : ∀ i, (st.edges.find? i).isSome = true → (st.vertices.find? i).isSome = true
  fwdE : ∀ s e, (evAt st.edges s e).isSome = true → s < e
  ewf : EWF st.edges

theorem erel_edges_update {k : Nat} {st0 st : PState} {X X' : EMap} (h : ERel k st0 st X) (E' : EMap)
    (h1 : stripE E' = X') (h2 : ∀ i, (E'.find? i).isSome = (st.edges.find? i).isSome)
    (h3 : ∀ s e, (evAt E' s e).isSome = true → (evAt st.edges s e).isSome = true) (h4 : EWF E') :
    ERel k st0 { st with edges := E' } X' := {
  edges := h1
  good := h.good
  vsame := h.vsame
  vsome := h.vsome
  ekeys := fun i hi => h.ekeys i (by rw [← h2]; exact hi)
  fwdE := fun s e hse => h.fwdE s e (h3 s e hse)
  ewf := h4 }

theorem erel_coframe {k : Nat} {st0 st st' : PState} {X : EMap} (h : ERel k st0 st X) (fr : COFrame st st')
    (hv : ∀ i, i ≤ k → st'.vertices.find? i = st.vertices.find? i) : ERel k st0 st' X := {
  edges := by rw [fr.strip]; exact h.edges
  good := by rw [fr.good]; exact h.good
  vsame := fun i hi => by rw [hv i hi]; exact h.vsame i hi
  vsome := fun i => by rw [fr.vsome i]; exact h.vsome i
  ekeys := fun i hi => by
    rw [isSome_find?_of_strip fr.strip] at hi
    rw [fr.vsome i]; exact h.ekeys i hi
  fwdE := fun s e hse => by
    rw [isSome_evAt_of_strip fr.strip] at hse
    exact h.fwdE s e hse
  ewf := fr.ewf }

theorem isSome_find?_modify {β} (m : AMap β) (k : Nat) (f : β → β) (i : Nat) :
    ((m.modify k f).find? i).isSome = (m.find? i).isSome := by
  rw [find?_modify]
  split <;> simp

theorem evAt_modify_isSome {E : EMap} {k : Nat} {f : EVMap → EVMap}
    (hf : ∀ ev e, ((f ev).find? e).isSome = true → (ev.find? e).isSome = true) (s e : Nat)
    (h : (evAt (E.modify k f) s e).isSome = true) : (evAt E s e).isSome = true := by
  unfold evAt at h ⊢
  rw [find?_modify] at h
  split at h
  · cases hq : E.find? s with
    | none => rw [hq] at h; simp at h
    | some ev =>
      rw [hq] at h
      simp only [Option.map_some, Option.bind_some] at h ⊢
      exact hf ev e h
  · exact h

theorem scrutinee_strip (E : EMap) (k j : Nat) :
    (((stripE E).find? k).getD []).find? j = (((E.find? k).getD []).find? j).map stripSM := by
  rw [find?_stripE, ← stripEV_getD, find?_stripEV]

theorem pruneEdge_rel {k : Nat} {st0 st : PState} {X : EMap} (L j : Nat) (h : ERel k st0 st X) :
    ERel k st0 (pruneEdge L k st j) (pruneEdgeS L st0.good k X j) := by
  unfold pruneEdge pruneEdgeS
  have hscr := scrutinee_strip st.edges k j
  rw [h.edges] at hscr
  rw [hscr]
  cases hsm : ((st.edges.find? k).getD []).find? j with
  | none => exact h
  | some sm =>
    simp only [Option.map_some]
    rw [filterTypes_isEmpty_strip, ← h.good]
    have herase : ERel k st0 { st with edges := st.edges.modify k (fun ev => ev.erase j) }
        (X.modify k (fun ev => ev.erase j)) := by
      apply erel_edges_update h
      · rw [stripE_modify _ _ _ (fun ev => ev.erase j) (fun ev => stripEV_erase ev j), h.edges]
      · intro i; exact isSome_find?_modify _ _ _ _
      · intro s e hse
        apply evAt_modify_isSome _ s e hse
        intro ev e' he
        rw [find?_erase] at he
        split at he
        · simp at he
        · exact he
      · exact ewf_modify h.ewf _ _ (fun ev hev => evwf_erase hev j)
    cases hg : st.good.contains j with
    | false => simp only [Bool.not_false, if_true]; exact herase
    | true =>
      simp only [Bool.not_true, Bool.false_eq_true, if_false]
      cases he : (filterTypes L sm).isEmpty with
      | true => simp only [if_true]; exact herase
      | false =>
        simp only [Bool.false_eq_true, if_false]
        have hfilt : ERel k st0 { st with edges := st.edges.modify k (fun ev => ev.modify j (filterTypes L)) }
            (X.modify k (fun ev => ev.modify j (filterTypes L))) := by
          apply erel_edges_update h
          · rw [stripE_modify _ _ _ (fun ev => ev.modify j (filterTypes L))
              (fun ev => stripEV_modify ev j _ _ (fun sm => stripSM_filterTypes L sm)), h.edges]
          · intro i; exact isSome_find?_modify _ _ _ _
          · intro s e hse
            apply evAt_modify_isSome _ s e hse
            intro ev e' he'
            rw [isSome_find?_modify] at he'
            exact he'
          · exact ewf_modify h.ewf _ _ (fun ev hev => evwf_modify hev j _ (fun sm hs => sorted_filterTypes L hs))
        split
        · obtain ⟨fr, hv⟩ := checkOverlapped_frame _ k j hfilt.ekeys hfilt.fwdE hfilt.ewf
          exact erel_coframe hfilt fr hv
        · exact hfilt

theorem pruneEdge_fold_rel {k : Nat} {st0 : PState} (L : Nat) (js : List Nat) {st : PState} {X : EMap}
    (h : ERel k st0 st X) :
    ERel k st0 (js.foldl (pruneEdge L k) st) (js.foldl (pruneEdgeS L st0.good k) X) := by
  induction js generalizing st X with
  | nil => exact h
  | cons j t ih => exact ih (pruneEdge_rel L j h)

end RimeModel.C08

namespace RimeModel.C08
open AMap

/-! ### one position and the whole loop -/

structure PRel (V : VMap) (k : Nat) (st : PState) (S : EMap × List Nat) : Prop where
  edges : stripE st.edges = S.1
  good : st.good = S.2
  vlow : ∀ i, i < k → st.vertices.find? i = V.find? i
  ekeys : ∀ i, (st.edges.find? i).isSome = true → (st.vertices.find? i).isSome = true
  fwdE : ∀ s e, (evAt st.edges s e).isSome = true → s < e
  vkeys : ∀ i, (st.vertices.find? i).isSome = true ↔ (i ∈ S.2 ∨ (i < k ∧ (V.find? i).isSome = true))
  goodGe : ∀ g ∈ S.2, k ≤ g
  ewf : EWF st.edges

theorem isSome_find?_erase {β} (m : AMap β) (k i : Nat) :
    ((m.erase k).find? i).isSome = (decide (i ≠ k) && (m.find? i).isSome) := by
  rw [find?_erase]
  by_cases h : k = i
  · subst h; simp
  · have : i ≠ k := fun h' => h h'.symm
    simp [h, this]

theorem pruneAt_rel {V : VMap} {k : Nat} {st : PState} {S : EMap × List Nat} (L : Nat)
    (h : PRel V (k + 1) st S) : PRel V k (pruneAt L st k) (pruneAtS L V S k) := by
  have hvk : st.vertices.find? k = V.find? k := h.vlow k (Nat.lt_succ_self k)
  unfold pruneAt pruneAtS
  rw [hvk]
  cases hV : (V.find? k).isNone with
  | true =>
    simp only [if_true]
    have hnone : V.find? k = none := by simpa using hV
    exact {
      edges := h.edges
      good := h.good
      vlow := fun i hi => h.vlow i (by omega)
      ekeys := h.ekeys
      fwdE := h.fwdE
      vkeys := fun i => by
        rw [h.vkeys i]
        constructor
        · rintro (h1 | ⟨h1, h2⟩)
          · exact Or.inl h1
          · by_cases hik : i = k
            · subst hik; rw [hnone] at h2; cases h2
            · exact Or.inr ⟨by omega, h2⟩
        · rintro (h1 | ⟨h1, h2⟩)
          · exact Or.inl h1
          · exact Or.inr ⟨by omega, h2⟩
      goodGe := fun g hg => by have := h.goodGe g hg; omega
      ewf := h.ewf }
  | false =>
    simp only [Bool.false_eq_true, if_false]
    have hsome : (V.find? k).isSome = true := by
      cases hq : V.find? k with
      | none => rw [hq] at hV; simp at hV
      | some t => rfl
    -- the inner loop
    have e0 : ERel k st st S.1 := {
      edges := h.edges, good := rfl, vsame := fun _ _ => rfl, vsome := fun _ => rfl,
      ekeys := h.ekeys, fwdE := h.fwdE, ewf := h.ewf }
    have hkeys : keys ((S.1.find? k).getD []) = keys ((st.edges.find? k).getD []) := by
      rw [← h.edges, find?_stripE, ← stripEV_getD, keys_stripEV]
    have e1 := pruneEdge_fold_rel L (keys ((st.edges.find? k).getD [])) e0
    rw [h.good, ← hkeys] at e1
    generalize hst1 : (keys ((S.1.find? k).getD [])).foldl (pruneEdge L k) st = st1 at e1
    generalize hX1 : (keys ((S.1.find? k).getD [])).foldl (pruneEdgeS L S.2 k) S.1 = X1 at e1
    rw [← hkeys, hst1]
    have hc1 : st1.vertices.find? k = V.find? k := by rw [e1.vsame k (Nat.le_refl k)]; exact hvk
    have hc2 : ((X1.find? k).getD []).isEmpty = ((st1.edges.find? k).getD []).isEmpty := by
      rw [← e1.edges, find?_stripE, ← stripEV_getD]
      unfold stripEV; simp
    rw [hc1, hc2]
    have hgood1 : st1.good = S.2 := by rw [e1.good, h.good]
    have hvs : ∀ i, (st1.vertices.find? i).isSome = true ↔ (i ∈ S.2 ∨ (i < k + 1 ∧ (V.find? i).isSome = true)) := by
      intro i; rw [e1.vsome i]; exact h.vkeys i
    cases hc : (decide ((V.find? k).getD 0 > L) || ((st1.edges.find? k).getD []).isEmpty) with
    | true =>
      simp only [if_true]
      exact {
        edges := by simp only; rw [stripE_erase, e1.edges]
        good := hgood1
        vlow := fun i hi => by
          simp only
          rw [find?_erase]
          have : ¬ k = i := by omega
          simp only [this, if_false]
          rw [e1.vsame i (by omega)]; exact h.vlow i (by omega)
        ekeys := fun i hi => by
          simp only at hi ⊢
          rw [isSome_find?_erase] at hi ⊢
          simp only [Bool.and_eq_true, decide_eq_true_eq] at hi ⊢
          exact ⟨hi.1, e1.ekeys i hi.2⟩
        fwdE := fun s e hse => by
          apply e1.fwdE s e
          simp only at hse
          unfold evAt at hse ⊢
          rw [find?_erase] at hse
          split at hse
          · simp at hse
          · exact hse
        vkeys := fun i => by
          simp only
          rw [isSome_find?_erase]
          simp only [Bool.and_eq_true, decide_eq_true_eq]
          rw [hvs i]
          constructor
          · rintro ⟨h0, h1 | ⟨h1, h2⟩⟩
            · exact Or.inl h1
            · exact Or.inr ⟨by omega, h2⟩
          · rintro (h1 | ⟨h1, h2⟩)
            · have := h.goodGe i h1
              exact ⟨by omega, Or.inl h1⟩
            · exact ⟨by omega, Or.inr ⟨by omega, h2⟩⟩
        goodGe := fun g hg => by have := h.goodGe g hg; omega
        ewf := ewf_erase e1.ewf k }
    | false =>
      simp only [Bool.false_eq_true, if_false]
      exact {
        edges := e1.edges
        good := by simp only; rw [hgood1]
        vlow := fun i hi => by
          simp only
          rw [e1.vsame i (by omega)]; exact h.vlow i (by omega)
        ekeys := e1.ekeys
        fwdE := e1.fwdE
        vkeys := fun i => by
          simp only
          rw [hvs i]
          constructor
          · rintro (h1 | ⟨h1, h2⟩)
            · exact Or.inl (List.mem_cons_of_mem _ h1)
            · by_cases hik : i = k
              · subst hik; exact Or.inl (by simp)
              · exact Or.inr ⟨by omega, h2⟩
          · rintro (h1 | ⟨h1, h2⟩)
            · rcases List.mem_cons.mp h1 with h3 | h3
              · subst h3; exact Or.inr ⟨by omega, hsome⟩
              · exact Or.inl h3
            · exact Or.inr ⟨by omega, h2⟩
        goodGe := fun g hg => by
          rcases List.mem_cons.mp hg with h3 | h3
          · omega
          · have := h.goodGe g h3; omega
        ewf := e1.ewf }

theorem pruneLoop_rel {V : VMap} (L : Nat) :
    ∀ (k : Nat) (st : PState) (S : EMap × List Nat), PRel V k st S →
      PRel V 0 (pruneLoop L k st) (pruneLoopS L V k S) := by
  intro k
  induction k with
  | zero => intro st S h; exact h
  | succ k ih =>
    intro st S h
    unfold pruneLoop pruneLoopS
    exact ih _ _ (pruneAt_rel L h)

end RimeModel.C08
