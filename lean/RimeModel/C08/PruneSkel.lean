import RimeModel.C08.Strip
/-! C08 — the backward pruning pass on the stripped edge map (no credibilities, no vertex types):
which vertices and edges survive. -/
namespace RimeModel.C08
open AMap

/-- what becomes of end vertex `j` of the position being pruned -/
def keep (L : Nat) (good : List Nat) (j : Nat) (sm : SMap) : Option SMap :=
  if good.contains j && !(filterTypes L sm).isEmpty then some (filterTypes L sm) else none

def pruneEdgeS (L : Nat) (good : List Nat) (k : Nat) (X : EMap) (j : Nat) : EMap :=
  match ((X.find? k).getD []).find? j with
  | none => X
  | some sm =>
    if !good.contains j then X.modify k (fun ev => ev.erase j)
    else if (filterTypes L sm).isEmpty then X.modify k (fun ev => ev.erase j)
    else X.modify k (fun ev => ev.modify j (filterTypes L))

def pruneAtS (L : Nat) (V : VMap) (S : EMap × List Nat) (k : Nat) : EMap × List Nat :=
  if (V.find? k).isNone then S else
  if decide ((V.find? k).getD 0 > L) ||
      ((((keys ((S.1.find? k).getD [])).foldl (pruneEdgeS L S.2 k) S.1).find? k).getD []).isEmpty then
    (((keys ((S.1.find? k).getD [])).foldl (pruneEdgeS L S.2 k) S.1).erase k, S.2)
  else ((keys ((S.1.find? k).getD [])).foldl (pruneEdgeS L S.2 k) S.1, k :: S.2)

def pruneLoopS (L : Nat) (V : VMap) : Nat → EMap × List Nat → EMap × List Nat
  | 0, S => S
  | k + 1, S => pruneLoopS L V k (pruneAtS L V S k)

theorem pruneEdgeS_find?_ne {L : Nat} {good : List Nat} {k i : Nat} (X : EMap) (j : Nat) (h : i ≠ k) :
    (pruneEdgeS L good k X j).find? i = X.find? i := by
  unfold pruneEdgeS
  have hk : ¬ k = i := fun h' => h h'.symm
  split
  · rfl
  · split
    · rw [find?_modify]; simp [hk]
    · split
      · rw [find?_modify]; simp [hk]
      · rw [find?_modify]; simp [hk]

theorem pruneEdgeS_isSome {L : Nat} {good : List Nat} {k : Nat} (X : EMap) (j : Nat) :
    ((pruneEdgeS L good k X j).find? k).isSome = (X.find? k).isSome := by
  unfold pruneEdgeS
  split
  · rfl
  · split
    · rw [find?_modify]; simp
    · split
      · rw [find?_modify]; simp
      · rw [find?_modify]; simp

theorem pruneEdgeS_find?_k {L : Nat} {good : List Nat} {k : Nat} (X : EMap) (j j' : Nat) :
    (((pruneEdgeS L good k X j).find? k).getD []).find? j' =
      if j' = j then (((X.find? k).getD []).find? j).bind (keep L good j)
      else ((X.find? k).getD []).find? j' := by
  unfold pruneEdgeS
  cases hX : X.find? k with
  | none =>
    simp only [Option.getD_none, find?_nil, hX]
    split <;> rfl
  | some ev =>
    simp only [Option.getD_some]
    cases hj : ev.find? j with
    | none =>
      simp only [hX, Option.getD_some, Option.bind_none]
      by_cases h : j' = j
      · subst h; simp [hj]
      · simp [h]
    | some sm =>
      simp only [Option.bind_some]
      by_cases hg : good.contains j = true
      · by_cases he : (filterTypes L sm).isEmpty = true
        · simp only [hg, Bool.not_true, Bool.false_eq_true, if_false, he, if_true]
          rw [find?_modify]
          simp only [if_true, hX, Option.map_some, Option.getD_some, find?_erase]
          unfold keep
          simp only [hg, he, Bool.not_true, Bool.and_false, Bool.false_eq_true, if_false]
          by_cases h : j' = j
          · subst h; simp
          · have : ¬ j = j' := fun h' => h h'.symm
            simp [h, this]
        · simp only [hg, Bool.not_true, Bool.false_eq_true, if_false, he]
          rw [find?_modify]
          simp only [if_true, hX, Option.map_some, Option.getD_some, find?_modify]
          unfold keep
          have he' : (filterTypes L sm).isEmpty = false := by
            cases h : (filterTypes L sm).isEmpty <;> simp_all
          simp only [hg, he', Bool.not_false, Bool.and_true, if_true]
          by_cases h : j' = j
          · subst h; simp [hj]
          · have : ¬ j = j' := fun h' => h h'.symm
            simp [h, this]
      · have hg' : good.contains j = false := by
          cases h : good.contains j <;> simp_all
        simp only [hg', Bool.not_false, if_true]
        rw [find?_modify]
        simp only [if_true, hX, Option.map_some, Option.getD_some, find?_erase]
        unfold keep
        simp only [hg', Bool.false_and, Bool.false_eq_true, if_false]
        by_cases h : j' = j
        · subst h; simp
        · have : ¬ j = j' := fun h' => h h'.symm
          simp [h, this]

/-- the loop over the end vertices of position `k` -/
theorem pruneEdgeS_fold {L : Nat} {good : List Nat} {k : Nat} (js : List Nat) (hnd : js.Nodup) (X : EMap) :
    (∀ i, i ≠ k → (js.foldl (pruneEdgeS L good k) X).find? i = X.find? i) ∧
    ((js.foldl (pruneEdgeS L good k) X).find? k).isSome = (X.find? k).isSome ∧
    ∀ j', (((js.foldl (pruneEdgeS L good k) X).find? k).getD []).find? j' =
      if j' ∈ js then (((X.find? k).getD []).find? j').bind (keep L good j')
      else ((X.find? k).getD []).find? j' := by
  induction js generalizing X with
  | nil => simp
  | cons j t ih =>
    rw [List.nodup_cons] at hnd
    obtain ⟨ih1, ih2, ih3⟩ := ih hnd.2 (pruneEdgeS L good k X j)
    simp only [List.foldl_cons]
    refine ⟨?_, ?_, ?_⟩
    · intro i hi; rw [ih1 i hi, pruneEdgeS_find?_ne X j hi]
    · rw [ih2, pruneEdgeS_isSome]
    · intro j'
      rw [ih3 j']
      by_cases h1 : j' ∈ t
      · have hne : j' ≠ j := fun h => hnd.1 (h ▸ h1)
        simp only [h1, if_true, List.mem_cons, or_true]
        rw [pruneEdgeS_find?_k]; simp [hne]
      · simp only [h1, if_false, List.mem_cons, or_false]
        rw [pruneEdgeS_find?_k]
        by_cases h2 : j' = j
        · subst h2; simp
        · simp [h2]

end RimeModel.C08

namespace RimeModel.C08
open AMap

theorem evAt_eq (X : EMap) (i j : Nat) : evAt X i j = ((X.find? i).getD []).find? j := by
  unfold evAt
  cases X.find? i <;> rfl

theorem evAt_congr {X Y : EMap} {s : Nat} (h : X.find? s = Y.find? s) (e : Nat) : evAt X s e = evAt Y s e := by
  unfold evAt; rw [h]

theorem find?_filterTypes {sm : SMap} (hs : Sorted sm) (L syl : Nat) :
    (filterTypes L sm).find? syl = (sm.find? syl).bind (fun p => if p.type ≤ L then some p else none) := by
  unfold filterTypes
  rw [find?_filter hs]
  cases sm.find? syl with
  | none => rfl
  | some p => simp

theorem keep_eq_some {L : Nat} {good : List Nat} {j : Nat} {sm0 sm : SMap} (h : keep L good j sm0 = some sm) :
    j ∈ good ∧ sm = filterTypes L sm0 ∧ sm ≠ [] := by
  unfold keep at h
  split at h
  · rename_i hc
    cases h
    simp only [Bool.and_eq_true, Bool.not_eq_true', List.contains_iff_mem] at hc
    refine ⟨hc.1, rfl, ?_⟩
    intro h'; rw [h'] at hc; simp at hc
  · cases h

theorem keep_of {L : Nat} {good : List Nat} {j : Nat} {sm0 : SMap} (hj : j ∈ good) (hne : filterTypes L sm0 ≠ []) :
    keep L good j sm0 = some (filterTypes L sm0) := by
  unfold keep
  have h2 : (filterTypes L sm0).isEmpty = false := by
    cases h : (filterTypes L sm0).isEmpty with
    | false => rfl
    | true => exact absurd (by simpa using h) hne
  simp [h2, hj]

/-- what is assumed of the raw graph -/
structure RawOK (V : VMap) (X0 : EMap) : Prop where
  fwdE : ∀ s e sm0, evAt X0 s e = some sm0 → s < e ∧ Sorted sm0 ∧ sm0 ≠ []
  evSorted : ∀ s ev, X0.find? s = some ev → Sorted ev
  ekeys : ∀ s ev, X0.find? s = some ev → (V.find? s).isSome = true

structure SInv (L F : Nat) (V : VMap) (X0 : EMap) (k : Nat) (S : EMap × List Nat) : Prop where
  goodGe : ∀ g ∈ S.2, k ≤ g ∧ g ≤ F
  goodF : F ∈ S.2
  untouched : ∀ i, (i < k ∨ F ≤ i) → S.1.find? i = X0.find? i
  goodType : ∀ g ∈ S.2, ∃ t, V.find? g = some t ∧ t ≤ L
  goodOut : ∀ g ∈ S.2, g ≠ F → ∃ j ∈ S.2, HasEdge S.1 g j
  sound : ∀ s e sm, evAt S.1 s e = some sm →
    ∃ sm0, evAt X0 s e = some sm0 ∧ ∀ syl p, sm.find? syl = some p → sm0.find? syl = some p
  procEdges : ∀ i, k ≤ i → i < F → ∀ j sm, evAt S.1 i j = some sm → j ∈ S.2 ∧ sm ≠ []
  procKeys : ∀ i, k ≤ i → i < F → (S.1.find? i).isSome = true → i ∈ S.2
  retain : ∀ i, k ≤ i → i < F → ∀ tu, V.find? i = some tu → tu ≤ L → ∀ j ∈ S.2, ∀ sm0, evAt X0 i j = some sm0 →
    ∀ syl p0, sm0.find? syl = some p0 → p0.type ≤ L →
    i ∈ S.2 ∧ ∃ sm, evAt S.1 i j = some sm ∧ sm.find? syl = some p0

theorem sinv_step {L F : Nat} {V : VMap} {X0 : EMap} {k : Nat} {S : EMap × List Nat}
    (hk : k < F) (raw : RawOK V X0) (inv : SInv L F V X0 (k + 1) S) :
    SInv L F V X0 k (pruneAtS L V S k) := by
  have hXk0 : S.1.find? k = X0.find? k := inv.untouched k (Or.inl (Nat.lt_succ_self k))
  cases hV : V.find? k with
  | none =>
    have hres : pruneAtS L V S k = S := by unfold pruneAtS; simp [hV]
    rw [hres]
    have hXk : S.1.find? k = none := by
      rw [hXk0]
      cases h : X0.find? k with
      | none => rfl
      | some ev => have := raw.ekeys k ev h; rw [hV] at this; cases this
    have hevk : ∀ j, evAt S.1 k j = none := by
      intro j; unfold evAt; rw [hXk]; rfl
    exact {
      goodGe := fun g hg => by have := inv.goodGe g hg; omega
      goodF := inv.goodF
      untouched := fun i hi => inv.untouched i (by omega)
      goodType := inv.goodType
      goodOut := inv.goodOut
      sound := inv.sound
      procEdges := fun i hi1 hi2 j sm h => by
        by_cases hik : i = k
        · subst hik; rw [hevk] at h; cases h
        · exact inv.procEdges i (by omega) hi2 j sm h
      procKeys := fun i hi1 hi2 h => by
        by_cases hik : i = k
        · subst hik; rw [hXk] at h; cases h
        · exact inv.procKeys i (by omega) hi2 h
      retain := fun i hi1 hi2 tu htu => by
        by_cases hik : i = k
        · subst hik; rw [hV] at htu; cases htu
        · exact inv.retain i (by omega) hi2 tu htu }
  | some tk =>
    -- the loop over the end vertices of k
    have hnd : (keys ((S.1.find? k).getD [])).Nodup := by
      cases h : S.1.find? k with
      | none => simp [keys]
      | some ev =>
        rw [hXk0] at h
        exact nodup_keys (raw.evSorted k ev h)
    obtain ⟨f1, f2, f3⟩ := pruneEdgeS_fold (L := L) (good := S.2) (k := k) _ hnd S.1
    generalize hX1 : (keys ((S.1.find? k).getD [])).foldl (pruneEdgeS L S.2 k) S.1 = X1 at f1 f2 f3
    have f3' : ∀ j, evAt X1 k j = (evAt X0 k j).bind (keep L S.2 j) := by
      intro j
      rw [evAt_eq, f3 j, evAt_eq, ← hXk0]
      by_cases hj : j ∈ keys ((S.1.find? k).getD [])
      · simp [hj]
      · simp only [hj, if_false]
        rw [find?_eq_none_iff.mpr hj]; rfl
    have hother : ∀ i, i ≠ k → ∀ j, evAt X1 i j = evAt S.1 i j := fun i hi j => evAt_congr (f1 i hi) j
    -- a kept edge
    have hkept : ∀ j sm, evAt X1 k j = some sm →
        ∃ sm0, evAt X0 k j = some sm0 ∧ j ∈ S.2 ∧ sm = filterTypes L sm0 ∧ sm ≠ [] := by
      intro j sm h
      rw [f3' j] at h
      cases h0 : evAt X0 k j with
      | none => rw [h0] at h; cases h
      | some sm0 =>
        rw [h0] at h
        obtain ⟨a, b, c⟩ := keep_eq_some h
        exact ⟨sm0, rfl, a, b, c⟩
    have hkeeps : ∀ j ∈ S.2, ∀ sm0, evAt X0 k j = some sm0 → ∀ syl p0, sm0.find? syl = some p0 → p0.type ≤ L →
        evAt X1 k j = some (filterTypes L sm0) ∧ (filterTypes L sm0).find? syl = some p0 := by
      intro j hj sm0 h0 syl p0 hp hle
      have hs := (raw.fwdE k j sm0 h0).2.1
      have hf : (filterTypes L sm0).find? syl = some p0 := by
        rw [find?_filterTypes hs, hp]; simp [hle]
      have hne : filterTypes L sm0 ≠ [] := by
        intro h'; rw [h'] at hf; cases hf
      refine ⟨?_, hf⟩
      rw [f3' j, h0]
      exact keep_of hj hne
    by_cases hc : (decide (tk > L) || ((X1.find? k).getD []).isEmpty) = true
    · -- the vertex is removed
      have hres : pruneAtS L V S k = (X1.erase k, S.2) := by
        unfold pruneAtS
        simp only [hV, Option.isNone_some, Bool.false_eq_true, if_false, Option.getD_some, hX1, hc, if_true]
      rw [hres]
      have hfe : ∀ i, i ≠ k → (X1.erase k).find? i = S.1.find? i := by
        intro i hi
        rw [find?_erase]
        have : ¬ k = i := fun h => hi h.symm
        simp only [this, if_false]
        exact f1 i hi
      have hfk : (X1.erase k).find? k = none := by rw [find?_erase]; simp
      have hevk : ∀ j, evAt (X1.erase k) k j = none := by
        intro j; unfold evAt; rw [hfk]; rfl
      exact {
        goodGe := fun g hg => by have := inv.goodGe g hg; omega
        goodF := inv.goodF
        untouched := fun i hi => by
          have hik : i ≠ k := by omega
          rw [hfe i hik]; exact inv.untouched i (by omega)
        goodType := inv.goodType
        goodOut := fun g hg hgF => by
          obtain ⟨j, hj, sm, h1, h2⟩ := inv.goodOut g hg hgF
          have hgk : g ≠ k := by have := inv.goodGe g hg; omega
          exact ⟨j, hj, sm, by rw [evAt_congr (hfe g hgk)]; exact h1, h2⟩
        sound := fun s e sm h => by
          by_cases hs : s = k
          · subst hs; rw [hevk] at h; cases h
          · rw [evAt_congr (hfe s hs)] at h; exact inv.sound s e sm h
        procEdges := fun i hi1 hi2 j sm h => by
          by_cases hik : i = k
          · subst hik; rw [hevk] at h; cases h
          · rw [evAt_congr (hfe i hik)] at h
            exact inv.procEdges i (by omega) hi2 j sm h
        procKeys := fun i hi1 hi2 h => by
          by_cases hik : i = k
          · subst hik; rw [hfk] at h; cases h
          · rw [hfe i hik] at h
            exact inv.procKeys i (by omega) hi2 h
        retain := fun i hi1 hi2 tu htu hle j hj sm0 h0 syl p0 hp hpl => by
          by_cases hik : i = k
          · subst hik
            rw [hV] at htu; cases htu
            exfalso
            have h1 := (hkeeps j hj sm0 h0 syl p0 hp hpl).1
            rw [evAt_eq] at h1
            simp only [Bool.or_eq_true, decide_eq_true_eq] at hc
            rcases hc with hc | hc
            · omega
            · have : (X1.find? i).getD [] = [] := by simpa using hc
              rw [this] at h1; cases h1
          · obtain ⟨a, sm, b, c⟩ := inv.retain i (by omega) hi2 tu htu hle j hj sm0 h0 syl p0 hp hpl
            exact ⟨a, sm, by rw [evAt_congr (hfe i hik)]; exact b, c⟩ }
    · -- the vertex is kept
      have hres : pruneAtS L V S k = (X1, k :: S.2) := by
        unfold pruneAtS
        simp only [hV, Option.isNone_some, Bool.false_eq_true, if_false, Option.getD_some, hX1, hc]
      rw [hres]
      simp only [Bool.or_eq_true, decide_eq_true_eq, not_or] at hc
      obtain ⟨htk, hne⟩ := hc
      have hne' : (X1.find? k).getD [] ≠ [] := by
        intro h; rw [h] at hne; simp at hne
      exact {
        goodGe := fun g hg => by
          rcases List.mem_cons.mp hg with h | h
          · subst h; omega
          · have := inv.goodGe g h; omega
        goodF := List.mem_cons_of_mem _ inv.goodF
        untouched := fun i hi => by
          have hik : i ≠ k := by omega
          rw [f1 i hik]; exact inv.untouched i (by omega)
        goodType := fun g hg => by
          rcases List.mem_cons.mp hg with h | h
          · subst h; exact ⟨tk, hV, by omega⟩
          · exact inv.goodType g h
        goodOut := fun g hg hgF => by
          rcases List.mem_cons.mp hg with h | h
          · subst h
            obtain ⟨j, sm, hj⟩ := exists_find?_of_ne_nil hne'
            rw [← evAt_eq] at hj
            obtain ⟨sm0, _, h2, _, h4⟩ := hkept j sm hj
            exact ⟨j, List.mem_cons_of_mem _ h2, sm, hj, h4⟩
          · obtain ⟨j, hj, sm, h1, h2⟩ := inv.goodOut g h hgF
            have hgk : g ≠ k := by have := inv.goodGe g h; omega
            exact ⟨j, List.mem_cons_of_mem _ hj, sm, by rw [hother g hgk]; exact h1, h2⟩
        sound := fun s e sm h => by
          by_cases hs : s = k
          · subst hs
            obtain ⟨sm0, h1, _, h3, _⟩ := hkept e sm h
            refine ⟨sm0, h1, ?_⟩
            intro syl p hp
            have hsrt := (raw.fwdE s e sm0 h1).2.1
            rw [h3, find?_filterTypes hsrt] at hp
            cases hq : sm0.find? syl with
            | none => rw [hq] at hp; cases hp
            | some q =>
              rw [hq] at hp
              simp only [Option.bind_some] at hp
              split at hp
              · cases hp; rfl
              · cases hp
          · rw [hother s hs] at h; exact inv.sound s e sm h
        procEdges := fun i hi1 hi2 j sm h => by
          by_cases hik : i = k
          · subst hik
            obtain ⟨sm0, _, h2, _, h4⟩ := hkept j sm h
            exact ⟨List.mem_cons_of_mem _ h2, h4⟩
          · rw [hother i hik] at h
            obtain ⟨a, b⟩ := inv.procEdges i (by omega) hi2 j sm h
            exact ⟨List.mem_cons_of_mem _ a, b⟩
        procKeys := fun i hi1 hi2 h => by
          by_cases hik : i = k
          · subst hik; simp
          · rw [f1 i hik] at h
            exact List.mem_cons_of_mem _ (inv.procKeys i (by omega) hi2 h)
        retain := fun i hi1 hi2 tu htu hle j hj sm0 h0 syl p0 hp hpl => by
          have hij := (raw.fwdE i j sm0 h0).1
          have hjS : j ∈ S.2 := by
            rcases List.mem_cons.mp hj with h | h
            · omega
            · exact h
          by_cases hik : i = k
          · subst hik
            obtain ⟨a, b⟩ := hkeeps j hjS sm0 h0 syl p0 hp hpl
            exact ⟨by simp, _, a, b⟩
          · obtain ⟨a, sm, b, c⟩ := inv.retain i (by omega) hi2 tu htu hle j hjS sm0 h0 syl p0 hp hpl
            exact ⟨List.mem_cons_of_mem _ a, sm, by rw [hother i hik]; exact b, c⟩ }

end RimeModel.C08

namespace RimeModel.C08
open AMap

theorem sinv_init {L F : Nat} {V : VMap} {X0 : EMap} (hF : ∃ t, V.find? F = some t ∧ t ≤ L) :
    SInv L F V X0 F (X0, [F]) := {
  goodGe := fun g hg => by simp at hg; omega
  goodF := by simp
  untouched := fun _ _ => rfl
  goodType := fun g hg => by simp at hg; subst hg; exact hF
  goodOut := fun g hg hne => by simp at hg; exact absurd hg hne
  sound := fun s e sm h => ⟨sm, h, fun _ _ hp => hp⟩
  procEdges := fun i h1 h2 => by omega
  procKeys := fun i h1 h2 => by omega
  retain := fun i h1 h2 => by omega }

theorem sinv_loop {L F : Nat} {V : VMap} {X0 : EMap} (raw : RawOK V X0) :
    ∀ (k : Nat) (S : EMap × List Nat), k ≤ F → SInv L F V X0 k S → SInv L F V X0 0 (pruneLoopS L V k S) := by
  intro k
  induction k with
  | zero => intro S _ inv; exact inv
  | succ k ih =>
    intro S hk inv
    unfold pruneLoopS
    exact ih _ (by omega) (sinv_step (by omega) raw inv)

end RimeModel.C08
