import RimeModel.C08.PruneFrame
/-! C08 — what the pruning pass leaves of the forward graph -/
namespace RimeModel.C08
open AMap

theorem evAt_strip_some {E : EMap} {s e : Nat} {sm : SMap} :
    evAt (stripE E) s e = some sm ↔ ∃ sm', evAt E s e = some sm' ∧ stripSM sm' = sm := by
  rw [evAt_stripE]
  cases evAt E s e <;> simp

theorem edgeAt_strip_some {E : EMap} {s e syl : Nat} {p : Props} :
    edgeAt (stripE E) s e syl = some p ↔ ∃ p', edgeAt E s e syl = some p' ∧ stripP p' = p := by
  rw [edgeAt_stripE]
  cases edgeAt E s e syl <;> simp

theorem edgeAt_eq {E : EMap} {s e syl : Nat} {p : Props} :
    edgeAt E s e syl = some p ↔ ∃ sm, evAt E s e = some sm ∧ sm.find? syl = some p := by
  unfold edgeAt
  cases evAt E s e <;> simp

section
variable (cfg : Cfg) (pr : Prism) (inp : Bytes)

/-- the skeleton run that the real pruning refines -/
def skel : EMap × List Nat :=
  pruneLoopS (lastTypeOf (forward cfg pr inp)) (forward cfg pr inp).vertices (forward cfg pr inp).farthest
    (stripE (forward cfg pr inp).edges, [(forward cfg pr inp).farthest])

theorem rawOK_forward : RawOK (forward cfg pr inp).vertices (stripE (forward cfg pr inp).edges) := by
  have inv := forward_inv cfg pr inp
  refine ⟨?_, ?_, ?_⟩
  · intro s e sm0 h
    obtain ⟨sm', h1, h2⟩ := evAt_strip_some.mp h
    obtain ⟨a, b, c, _⟩ := fwd_edge_ok cfg pr inp h1
    subst h2
    exact ⟨c, sorted_mapVal a stripP, fun hn => b (stripSM_eq_nil.mp hn)⟩
  · intro s ev h
    rw [find?_stripE] at h
    cases hq : (forward cfg pr inp).edges.find? s with
    | none => rw [hq] at h; cases h
    | some ev' =>
      rw [hq] at h; simp only [Option.map_some] at h; cases h
      exact sorted_mapVal (inv.ewf s ev' hq).1 stripSM
  · intro s ev h
    rw [find?_stripE] at h
    cases hq : (forward cfg pr inp).edges.find? s with
    | none => rw [hq] at h; cases h
    | some ev' => exact inv.ekeys s ev' hq

theorem farthest_type_le : ∃ t, (forward cfg pr inp).vertices.find? (forward cfg pr inp).farthest = some t ∧
    t ≤ lastTypeOf (forward cfg pr inp) := by
  obtain ⟨t, ht⟩ := fwd_farthest_visited cfg pr inp
  refine ⟨t, ht, ?_⟩
  unfold lastTypeOf
  rw [ht]
  simp only [Option.getD_some]
  omega

theorem sinv_final : SInv (lastTypeOf (forward cfg pr inp)) (forward cfg pr inp).farthest
    (forward cfg pr inp).vertices (stripE (forward cfg pr inp).edges) 0 (skel cfg pr inp) :=
  sinv_loop (rawOK_forward cfg pr inp) _ _ (Nat.le_refl _) (sinv_init (farthest_type_le cfg pr inp))

theorem prel_final : PRel (forward cfg pr inp).vertices 0 (prune (forward cfg pr inp)) (skel cfg pr inp) := by
  unfold prune skel
  apply pruneLoop_rel
  have inv := forward_inv cfg pr inp
  exact {
    edges := rfl
    good := rfl
    vlow := fun _ _ => rfl
    ekeys := fun i hi => by
      obtain ⟨ev, hev⟩ := Option.isSome_iff_exists.mp hi
      exact inv.ekeys i ev hev
    fwdE := fun s e hse => by
      obtain ⟨sm, hsm⟩ := Option.isSome_iff_exists.mp hse
      exact (fwd_edge_ok cfg pr inp hsm).2.2.1
    vkeys := fun i => by
      simp only [List.mem_singleton]
      constructor
      · intro hi
        obtain ⟨t, ht⟩ := Option.isSome_iff_exists.mp hi
        have := fwd_visited_le cfg pr inp ht
        by_cases hF : i = (forward cfg pr inp).farthest
        · exact Or.inl hF
        · exact Or.inr ⟨by omega, hi⟩
      · rintro (h1 | ⟨_, h2⟩)
        · subst h1
          obtain ⟨t, ht⟩ := fwd_farthest_visited cfg pr inp
          rw [ht]; rfl
        · exact h2
    goodGe := fun g hg => by simp at hg; omega
    ewf := fun s ev h => inv.ewf s ev h }

/-- is `v` a retained vertex -/
def Good (v : Nat) : Prop := v ∈ (skel cfg pr inp).2

theorem prune_vertex_iff (v : Nat) :
    ((prune (forward cfg pr inp)).vertices.find? v).isSome = true ↔ Good cfg pr inp v := by
  rw [(prel_final cfg pr inp).vkeys v]
  unfold Good
  constructor
  · rintro (h | ⟨h, _⟩)
    · exact h
    · omega
  · intro h; exact Or.inl h

theorem good_farthest : Good cfg pr inp (forward cfg pr inp).farthest := (sinv_final cfg pr inp).goodF

theorem good_type {v : Nat} (h : Good cfg pr inp v) :
    v ≤ (forward cfg pr inp).farthest ∧
    ∃ t, (forward cfg pr inp).vertices.find? v = some t ∧ t ≤ lastTypeOf (forward cfg pr inp) :=
  ⟨((sinv_final cfg pr inp).goodGe v h).2, (sinv_final cfg pr inp).goodType v h⟩

theorem hasEdge_of_strip {E : EMap} {a b : Nat} (h : HasEdge (stripE E) a b) : HasEdge E a b := by
  obtain ⟨sm, h1, h2⟩ := h
  obtain ⟨sm', h3, h4⟩ := evAt_strip_some.mp h1
  refine ⟨sm', h3, ?_⟩
  intro hn; subst hn; subst h4; exact h2 rfl

theorem good_out {v : Nat} (h : Good cfg pr inp v) (hne : v ≠ (forward cfg pr inp).farthest) :
    ∃ j, Good cfg pr inp j ∧ HasEdge (prune (forward cfg pr inp)).edges v j := by
  obtain ⟨j, hj, he⟩ := (sinv_final cfg pr inp).goodOut v h hne
  refine ⟨j, hj, hasEdge_of_strip ?_⟩
  rw [(prel_final cfg pr inp).edges]; exact he

theorem prune_edge_sound {s e syl : Nat} {p : Props}
    (h : edgeAt (prune (forward cfg pr inp)).edges s e syl = some p) :
    ∃ p0, edgeAt (forward cfg pr inp).edges s e syl = some p0 ∧ stripP p0 = stripP p := by
  have h1 : edgeAt (stripE (prune (forward cfg pr inp)).edges) s e syl = some (stripP p) :=
    edgeAt_strip_some.mpr ⟨p, h, rfl⟩
  rw [(prel_final cfg pr inp).edges] at h1
  obtain ⟨sm, h2, h3⟩ := edgeAt_eq.mp h1
  obtain ⟨sm0, h4, h5⟩ := (sinv_final cfg pr inp).sound s e sm h2
  have h6 : edgeAt (stripE (forward cfg pr inp).edges) s e syl = some (stripP p) :=
    edgeAt_eq.mpr ⟨sm0, h4, h5 syl _ h3⟩
  exact edgeAt_strip_some.mp h6

theorem prune_retain {u tu j syl : Nat} {p0 : Props}
    (hu : (forward cfg pr inp).vertices.find? u = some tu) (htu : tu ≤ lastTypeOf (forward cfg pr inp))
    (huF : u < (forward cfg pr inp).farthest) (hj : Good cfg pr inp j)
    (he : edgeAt (forward cfg pr inp).edges u j syl = some p0) (hp : p0.type ≤ lastTypeOf (forward cfg pr inp)) :
    Good cfg pr inp u ∧ ∃ p, edgeAt (prune (forward cfg pr inp)).edges u j syl = some p ∧ stripP p = stripP p0 := by
  have h1 : edgeAt (stripE (forward cfg pr inp).edges) u j syl = some (stripP p0) :=
    edgeAt_strip_some.mpr ⟨p0, he, rfl⟩
  obtain ⟨sm0, h2, h3⟩ := edgeAt_eq.mp h1
  obtain ⟨a, sm, b, c⟩ := (sinv_final cfg pr inp).retain u (Nat.zero_le _) huF tu hu htu j hj sm0 h2 syl _ h3 hp
  refine ⟨a, ?_⟩
  have h4 : edgeAt (stripE (prune (forward cfg pr inp)).edges) u j syl = some (stripP p0) := by
    rw [(prel_final cfg pr inp).edges]; exact edgeAt_eq.mpr ⟨sm, b, c⟩
  exact edgeAt_strip_some.mp h4

theorem prune_ev_ok {s e : Nat} {sm : SMap} (h : evAt (prune (forward cfg pr inp)).edges s e = some sm) :
    sm ≠ [] ∧ Sorted sm ∧ s < e := by
  have rel := prel_final cfg pr inp
  have sinv := sinv_final cfg pr inp
  refine ⟨?_, ?_, rel.fwdE s e (by rw [h]; rfl)⟩
  · have h1 : evAt (stripE (prune (forward cfg pr inp)).edges) s e = some (stripSM sm) :=
      evAt_strip_some.mpr ⟨sm, h, rfl⟩
    rw [rel.edges] at h1
    by_cases hs : s < (forward cfg pr inp).farthest
    · have := (sinv.procEdges s (Nat.zero_le _) hs e _ h1).2
      exact fun hn => this (stripSM_eq_nil.mpr hn)
    · have hu := sinv.untouched s (Or.inr (by omega))
      rw [evAt_congr hu] at h1
      have := ((rawOK_forward cfg pr inp).fwdE s e _ h1).2.2
      exact fun hn => this (stripSM_eq_nil.mpr hn)
  · unfold evAt at h
    cases hq : (prune (forward cfg pr inp)).edges.find? s with
    | none => rw [hq] at h; cases h
    | some ev =>
      rw [hq] at h
      exact (rel.ewf s ev hq).2 e sm h

theorem prune_ev_sorted {s : Nat} {ev : EVMap} (h : (prune (forward cfg pr inp)).edges.find? s = some ev) :
    Sorted ev := ((prel_final cfg pr inp).ewf s ev h).1

/-- an edge that survives below the farthest vertex joins two retained vertices -/
theorem prune_edge_good {s e : Nat} {sm : SMap} (h : evAt (prune (forward cfg pr inp)).edges s e = some sm)
    (hs : s < (forward cfg pr inp).farthest) : Good cfg pr inp s ∧ Good cfg pr inp e := by
  have rel := prel_final cfg pr inp
  have sinv := sinv_final cfg pr inp
  have h1 : evAt (stripE (prune (forward cfg pr inp)).edges) s e = some (stripSM sm) :=
    evAt_strip_some.mpr ⟨sm, h, rfl⟩
  rw [rel.edges] at h1
  refine ⟨?_, (sinv.procEdges s (Nat.zero_le _) hs e _ h1).1⟩
  apply sinv.procKeys s (Nat.zero_le _) hs
  unfold evAt at h1
  cases hq : (skel cfg pr inp).1.find? s with
  | none => rw [hq] at h1; cases h1
  | some ev => rfl

/-- at and beyond the farthest vertex the edge map is as the forward search left it (up to penalties) -/
theorem prune_untouched {s : Nat} (hs : (forward cfg pr inp).farthest ≤ s) (e : Nat) :
    (evAt (prune (forward cfg pr inp)).edges s e).map stripSM = (evAt (forward cfg pr inp).edges s e).map stripSM := by
  rw [← evAt_stripE, ← evAt_stripE, (prel_final cfg pr inp).edges]
  exact evAt_congr ((sinv_final cfg pr inp).untouched s (Or.inr hs)) e

end
end RimeModel.C08
