import RimeModel.C08.Model
/-!
C08 — the vocabulary of the property (DESIGN §3 C08, formal reading S1–S5), independent of the
algorithm: what the prism stores, when a stretch of the input *is* a spelling followed by
delimiters, tilings, paths of a graph.
-/
namespace RimeModel.C08

/-- `d` is one of the readings (syllable, type, credibility) the prism stores for spelling `k` -/
def Stored (pr : Prism) (k : Bytes) (d : Desc) : Prop :=
  ∃ i, keyIndex pr k = some i ∧ d ∈ descsOf pr i

/-- `input[s, e)` is the non-empty spelling `k` followed by delimiters only, and the delimiters
are consumed greedily (position `e` is the end of the input or not a delimiter). -/
def Spans (delims inp : Bytes) (s e : Nat) (k : Bytes) : Prop :=
  k ≠ [] ∧ e ≤ inp.length ∧
  (∃ dl, (inp.drop s).take (e - s) = k ++ dl ∧ ∀ b ∈ dl, b ∈ delims) ∧
  (∀ b, inp[e]? = some b → b ∉ delims)

/-- the strict-spelling rule: with `strict_spelling` a reading that is not of type normal may
not cover the whole input as a single spelling -/
def Admits (cfg : Cfg) (inp : Bytes) (s e : Nat) (d : Desc) : Prop :=
  ¬ (cfg.strict = true ∧ s = 0 ∧ e = inp.length ∧ d.type ≠ kNormal)

/-- positions reachable from 0 by tiling with stored spellings (+ greedy delimiter skipping) -/
inductive Reach (cfg : Cfg) (pr : Prism) (inp : Bytes) : Nat → Prop
  | zero : Reach cfg pr inp 0
  | step {s e : Nat} {k : Bytes} {d : Desc} :
      Reach cfg pr inp s → Stored pr k d → Spans cfg.delims inp s e k → Admits cfg inp s e d →
      Reach cfg pr inp e

/-- a tiling of `[a, c)` by spellings read with type normal; the list gives `(start, end, syllable)` -/
inductive NTiling (cfg : Cfg) (pr : Prism) (inp : Bytes) : Nat → Nat → List (Nat × Nat × Nat) → Prop
  | nil (a : Nat) : NTiling cfg pr inp a a []
  | cons {a b c : Nat} {k : Bytes} {d : Desc} {rest : List (Nat × Nat × Nat)} :
      Stored pr k d → d.type = kNormal → Spans cfg.delims inp a b k → NTiling cfg pr inp b c rest →
      NTiling cfg pr inp a c ((a, b, d.syl) :: rest)

/-- `edges[s][e]` -/
def evAt (E : EMap) (s e : Nat) : Option SMap := (E.find? s).bind (fun ev => ev.find? e)

/-- `edges[s][e][syl]` -/
def edgeAt (E : EMap) (s e syl : Nat) : Option Props := (evAt E s e).bind (fun sm => sm.find? syl)

/-- there is an edge `s → e` (an end vertex with at least one spelling) -/
def HasEdge (E : EMap) (s e : Nat) : Prop := ∃ sm, evAt E s e = some sm ∧ sm ≠ []

/-- paths along edges -/
inductive GPath (E : EMap) : Nat → Nat → Prop
  | refl (a : Nat) : GPath E a a
  | step {a b c : Nat} : HasEdge E a b → GPath E b c → GPath E a c

/-- `indices[s][syl]` (the empty list when absent) -/
def indexAt (I : IMap) (s syl : Nat) : List Props :=
  ((I.find? s).bind (fun ix => ix.find? syl)).getD []

/-- every spelling type the prism stores is one of the enum's values (real prisms: 0, 1, 2) -/
def PrismTypesOK (pr : Prism) : Prop := ∀ k d, Stored pr k d → d.type ≤ kInvalid

end RimeModel.C08
