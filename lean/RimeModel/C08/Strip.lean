import RimeModel.C08.ForwardSpec
/-! C08 — forgetting the ambiguity penalties: `CheckOverlappedSpellings` only changes credibility
(and vertex types), so the shape of the edge map is studied on its stripped image. -/
namespace RimeModel.C08
open AMap

def stripP (p : Props) : Props := { p with amb := 0 }
def stripSM (sm : SMap) : SMap := sm.map (fun kv => (kv.1, stripP kv.2))
def stripEV (ev : EVMap) : EVMap := ev.map (fun kv => (kv.1, stripSM kv.2))
def stripE (E : EMap) : EMap := E.map (fun kv => (kv.1, stripEV kv.2))

theorem stripP_type (p : Props) : (stripP p).type = p.type := rfl

theorem find?_stripSM (sm : SMap) (k : Nat) : (stripSM sm).find? k = (sm.find? k).map stripP :=
  find?_mapVal sm stripP k
theorem find?_stripEV (ev : EVMap) (k : Nat) : (stripEV ev).find? k = (ev.find? k).map stripSM :=
  find?_mapVal ev stripSM k
theorem find?_stripE (E : EMap) (k : Nat) : (stripE E).find? k = (E.find? k).map stripEV :=
  find?_mapVal E stripEV k

theorem keys_stripEV (ev : EVMap) : keys (stripEV ev) = keys ev := keys_mapVal ev stripSM
theorem keys_stripSM (sm : SMap) : keys (stripSM sm) = keys sm := keys_mapVal sm stripP

theorem stripSM_eq_nil {sm : SMap} : stripSM sm = [] ↔ sm = [] := by
  unfold stripSM; simp
theorem stripEV_eq_nil {ev : EVMap} : stripEV ev = [] ↔ ev = [] := by
  unfold stripEV; simp

theorem stripEV_getD (o : Option EVMap) : stripEV (o.getD []) = (o.map stripEV).getD [] := by
  cases o <;> rfl

theorem evAt_stripE (E : EMap) (s e : Nat) : evAt (stripE E) s e = (evAt E s e).map stripSM := by
  unfold evAt
  rw [find?_stripE]
  cases E.find? s with
  | none => rfl
  | some ev => simp [find?_stripEV]

theorem edgeAt_stripE (E : EMap) (s e syl : Nat) : edgeAt (stripE E) s e syl = (edgeAt E s e syl).map stripP := by
  unfold edgeAt
  rw [evAt_stripE]
  cases evAt E s e with
  | none => rfl
  | some sm => simp [find?_stripSM]

/-! commutation with the map operations -/

theorem map_modify {β γ} (m : AMap β) (k : Nat) (f : β → β) (f' : γ → γ) (g : β → γ)
    (h : ∀ v, g (f v) = f' (g v)) :
    ((m.modify k f).map (fun kv => (kv.1, g kv.2)) : AMap γ) =
      AMap.modify (m.map (fun kv => (kv.1, g kv.2)) : AMap γ) k f' := by
  unfold AMap.modify
  rw [List.map_map, List.map_map]
  apply List.map_congr_left
  intro kv _
  simp only [Function.comp]
  split <;> simp [h]

theorem map_modify_same {β γ} (m : AMap β) (k : Nat) (f : β → β) (g : β → γ)
    (h : ∀ v, g (f v) = g v) :
    ((m.modify k f).map (fun kv => (kv.1, g kv.2)) : AMap γ) = (m.map (fun kv => (kv.1, g kv.2)) : AMap γ) := by
  unfold AMap.modify
  rw [List.map_map]
  apply List.map_congr_left
  intro kv _
  simp only [Function.comp]
  split <;> simp [h]

theorem map_erase {β γ} (m : AMap β) (k : Nat) (g : β → γ) :
    ((m.erase k).map (fun kv => (kv.1, g kv.2)) : AMap γ) =
      AMap.erase (m.map (fun kv => (kv.1, g kv.2)) : AMap γ) k := by
  unfold AMap.erase
  rw [List.filter_map]
  rfl

theorem stripSM_filterTypes (L : Nat) (sm : SMap) : stripSM (filterTypes L sm) = filterTypes L (stripSM sm) := by
  unfold stripSM filterTypes
  rw [List.filter_map]
  rfl

theorem stripSM_penalize (sm : SMap) : stripSM (sm.map fun kv => (kv.1, penalize kv.2)) = stripSM sm := by
  unfold stripSM
  rw [List.map_map]
  rfl

theorem stripEV_erase (ev : EVMap) (j : Nat) : stripEV (ev.erase j) = (stripEV ev).erase j :=
  map_erase ev j stripSM

theorem stripE_erase (E : EMap) (i : Nat) : stripE (E.erase i) = (stripE E).erase i :=
  map_erase E i stripEV

theorem stripE_modify (E : EMap) (i : Nat) (f f' : EVMap → EVMap) (h : ∀ ev, stripEV (f ev) = f' (stripEV ev)) :
    stripE (E.modify i f) = (stripE E).modify i f' :=
  map_modify E i f f' stripEV h

theorem stripEV_modify (ev : EVMap) (j : Nat) (f f' : SMap → SMap) (h : ∀ sm, stripSM (f sm) = f' (stripSM sm)) :
    stripEV (ev.modify j f) = (stripEV ev).modify j f' :=
  map_modify ev j f f' stripSM h

theorem filterTypes_isEmpty_strip (L : Nat) (sm : SMap) :
    (filterTypes L (stripSM sm)).isEmpty = (filterTypes L sm).isEmpty := by
  rw [← stripSM_filterTypes]
  unfold stripSM
  simp

theorem edgeType_strip (sm : SMap) : edgeType (stripSM sm) = edgeType sm := by
  unfold edgeType stripSM
  rw [List.foldl_map]
  rfl

end RimeModel.C08
