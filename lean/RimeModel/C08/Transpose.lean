import RimeModel.C08.Final
/-! C08 — `Transpose` -/
namespace RimeModel.C08
open AMap

theorem transposeSM_find (sm : SMap) (hs : Sorted sm) (syl : Nat) :
    ∀ idx : AMap (List Props),
      ((transposeSM idx sm).find? syl).getD [] = (idx.find? syl).getD [] ++ (sm.find? syl).toList := by
  induction sm with
  | nil => intro idx; simp [transposeSM]
  | cons hd t ih =>
    intro idx
    obtain ⟨a, b⟩ := hd
    have hs' := sorted_cons.mp hs
    have hstep : transposeSM idx ((a, b) :: t) = transposeSM (idx.insert a ((idx.find? a).getD [] ++ [b])) t := by
      unfold transposeSM; rfl
    rw [hstep, ih hs'.2, find?_insert, find?_cons]
    by_cases h : a = syl
    · subst h
      have hn : AMap.find? t a = none := by
        rw [find?_eq_none_iff]
        intro hx; have := hs'.1 a hx; omega
      simp [hn]
    · simp [h]

theorem transposeEV_fold (l : List (Nat × SMap)) (hs : ∀ x ∈ l, Sorted x.2) (syl : Nat) :
    ∀ idx : AMap (List Props),
      ((l.foldl (fun idx e => transposeSM idx e.2) idx).find? syl).getD [] =
        (idx.find? syl).getD [] ++ l.filterMap (fun e => e.2.find? syl) := by
  induction l with
  | nil => intro idx; simp
  | cons x t ih =>
    intro idx
    simp only [List.foldl_cons]
    rw [ih (fun y hy => hs y (List.mem_cons_of_mem _ hy)), transposeSM_find _ (hs x (by simp)), List.filterMap_cons]
    cases x.2.find? syl <;> simp

/-- the index list of `(s, syl)`: the properties of `syl` on the edges out of `s`, last end first -/
theorem indexAt_transpose (E : EMap) (s syl : Nat)
    (hs : ∀ ev, E.find? s = some ev → ∀ x ∈ ev, Sorted x.2) :
    indexAt (transpose E) s syl =
      match E.find? s with
      | none => []
      | some ev => ev.reverse.filterMap (fun x => x.2.find? syl) := by
  unfold indexAt transpose
  rw [find?_mapVal]
  cases h : E.find? s with
  | none => rfl
  | some ev =>
    simp only [Option.map_some, Option.bind_some]
    unfold transposeEV
    rw [transposeEV_fold _ (fun x hx => hs ev h x (List.mem_reverse.mp hx))]
    simp

theorem descending_of_sorted (syl : Nat) :
    ∀ (l : List (Nat × SMap)), l.Pairwise (fun a b => a.1 > b.1) →
      (∀ x ∈ l, ∀ p, x.2.find? syl = some p → p.endPos = x.1) →
      ((l.filterMap (fun x => x.2.find? syl)).map (·.endPos)).Pairwise (· > ·) := by
  intro l
  induction l with
  | nil => intro _ _; simp
  | cons x t ih =>
    intro hp he
    rw [List.pairwise_cons] at hp
    have iht := ih hp.2 (fun y hy => he y (List.mem_cons_of_mem _ hy))
    rw [List.filterMap_cons]
    cases hx : x.2.find? syl with
    | none => exact iht
    | some p =>
      simp only [List.map_cons, List.pairwise_cons]
      refine ⟨?_, iht⟩
      intro y hy
      obtain ⟨q, hq, hqy⟩ := List.mem_map.mp hy
      obtain ⟨z, hz, hzq⟩ := List.mem_filterMap.mp hq
      have h1 := he x (by simp) p hx
      have h2 := he z (List.mem_cons_of_mem _ hz) q hzq
      have h3 := hp.1 z hz
      omega

end RimeModel.C08
