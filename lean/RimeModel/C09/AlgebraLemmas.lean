import RimeModel.C09.SortedLemmas
/-! C09 — lemmas about `mergeOne` / `mergeVec` / `Script.merge` / `round` / `applyRules`. -/
namespace RimeModel.C09

/-! ### `mergeOne` -/

theorem mergeOne_ne_nil (y : Spelling) : ∀ m, mergeOne y m ≠ []
  | [] => by simp [mergeOne]
  | z :: zs => by simp only [mergeOne]; split <;> simp

/-- the syllables of the vector after one merge step: unchanged if present, else appended -/
theorem strs_mergeOne (y : Spelling) : ∀ m : List Spelling,
    (mergeOne y m).map (·.str) =
      if y.str ∈ m.map (·.str) then m.map (·.str) else m.map (·.str) ++ [y.str]
  | [] => by simp [mergeOne]
  | z :: zs => by
    simp only [mergeOne]
    split
    · rename_i h; simp [h]
    · rename_i h
      have h' : ¬ y.str = z.str := fun e => h e.symm
      simp only [List.map_cons, strs_mergeOne y zs, List.mem_cons, h', false_or]
      split <;> simp

theorem tips_mergeOne {y : Spelling} (hy : y.props.tips = []) :
    ∀ {m : List Spelling}, (∀ x ∈ m, x.props.tips = []) → ∀ x ∈ mergeOne y m, x.props.tips = []
  | [], _, x, hx => by simp only [mergeOne, List.mem_singleton] at hx; rw [hx]; exact hy
  | z :: zs, hm, x, hx => by
    simp only [mergeOne] at hx
    split at hx
    · rcases List.mem_cons.mp hx with rfl | hx
      · simp [absorb]
      · exact hm x (List.mem_cons_of_mem _ hx)
    · rcases List.mem_cons.mp hx with rfl | hx
      · exact hm _ (List.mem_cons_self ..)
      · exact tips_mergeOne hy (fun x hx => hm x (List.mem_cons_of_mem _ hx)) x hx

/-- vector conditions without non-emptiness -/
def VecOK' (syl : List Bytes) (v : List Spelling) : Prop :=
  (∀ x ∈ v, x.str ∈ syl ∧ x.props.tips = []) ∧ (v.map (·.str)).Nodup

theorem VecOK.toVecOK' {syl v} (h : VecOK syl v) : VecOK' syl v := ⟨h.2.1, h.2.2⟩

theorem vecOK'_nil (syl) : VecOK' syl [] := ⟨by simp, by simp⟩

theorem vecOK'_mergeOne {syl : List Bytes} {y : Spelling} (hy : y.str ∈ syl) (ht : y.props.tips = [])
    {m : List Spelling} (hm : VecOK' syl m) : VecOK' syl (mergeOne y m) := by
  have hs := strs_mergeOne y m
  refine ⟨fun x hx => ⟨?_, tips_mergeOne ht (fun x hx => (hm.1 x hx).2) x hx⟩, ?_⟩
  · have : x.str ∈ (mergeOne y m).map (·.str) := List.mem_map.mpr ⟨x, hx, rfl⟩
    rw [hs] at this
    split at this
    · obtain ⟨z, hz, e⟩ := List.mem_map.mp this
      rw [← e]; exact (hm.1 z hz).1
    · rcases List.mem_append.mp this with h | h
      · obtain ⟨z, hz, e⟩ := List.mem_map.mp h
        rw [← e]; exact (hm.1 z hz).1
      · simp at h; rw [h]; exact hy
  · rw [hs]
    split
    · exact hm.2
    · rename_i h
      refine List.nodup_append.mpr ⟨hm.2, by simp, ?_⟩
      intro a ha b hb
      simp at hb
      intro e
      subst e; subst hb
      exact h ha

/-! ### `mergeVec` -/

theorem mergeVec_nil (sp : Props) (m : List Spelling) : mergeVec sp [] m = m := rfl

theorem mergeVec_cons (sp : Props) (x : Spelling) (v m : List Spelling) :
    mergeVec sp (x :: v) m = mergeVec sp v (mergeOne ⟨x.str, mergeProps sp x.props⟩ m) := rfl

theorem mergeVec_ne_nil (sp : Props) : ∀ (v m : List Spelling), (v ≠ [] ∨ m ≠ []) → mergeVec sp v m ≠ []
  | [], m, h => by simpa [mergeVec_nil] using h
  | x :: v, m, _ => by
    rw [mergeVec_cons]
    exact mergeVec_ne_nil sp v _ (Or.inr (mergeOne_ne_nil _ _))

theorem mergeProps_tips {sp xp : Props} (h1 : sp.tips = []) (h2 : xp.tips = []) : (mergeProps sp xp).tips = [] := by
  simp [mergeProps, h1, h2]

theorem vecOK'_mergeVec {syl : List Bytes} {sp : Props} (hsp : sp.tips = []) :
    ∀ (v m : List Spelling), (∀ x ∈ v, x.str ∈ syl ∧ x.props.tips = []) → VecOK' syl m → VecOK' syl (mergeVec sp v m)
  | [], m, _, hm => hm
  | x :: v, m, hv, hm => by
    rw [mergeVec_cons]
    have hx := hv x (List.mem_cons_self ..)
    exact vecOK'_mergeVec hsp v _ (fun z hz => hv z (List.mem_cons_of_mem _ hz))
      (vecOK'_mergeOne (y := ⟨x.str, mergeProps sp x.props⟩) hx.1 (mergeProps_tips hsp hx.2) hm)

theorem vecOK_mergeVec {syl : List Bytes} {sp : Props} (hsp : sp.tips = []) {v m : List Spelling}
    (hv : VecOK syl v) (hm : VecOK' syl m) : VecOK syl (mergeVec sp v m) := by
  have h := vecOK'_mergeVec hsp v m hv.2.1 hm
  exact ⟨mergeVec_ne_nil sp v m (Or.inl hv.1), h.1, h.2⟩

/-- the syllables already in the vector stay -/
theorem strs_mergeVec_mono (sp : Props) : ∀ (v m : List Spelling) (y : Bytes),
    y ∈ m.map (·.str) → y ∈ (mergeVec sp v m).map (·.str)
  | [], _, _, h => h
  | x :: v, m, y, h => by
    rw [mergeVec_cons]
    apply strs_mergeVec_mono sp v
    rw [strs_mergeOne]
    split
    · exact h
    · exact List.mem_append_left _ h

/-- every syllable of `v` is in the vector afterwards -/
theorem strs_mergeVec_new (sp : Props) : ∀ (v m : List Spelling) (x : Spelling),
    x ∈ v → x.str ∈ (mergeVec sp v m).map (·.str)
  | [], _, _, h => by simp at h
  | x' :: v, m, x, h => by
    rw [mergeVec_cons]
    rcases List.mem_cons.mp h with rfl | h
    · apply strs_mergeVec_mono sp v
      rw [strs_mergeOne]
      split
      · assumption
      · simp
    · exact strs_mergeVec_new sp v _ x h

/-! ### `Script.merge` -/

theorem sorted_merge {S : Script} (s : Bytes) (sp : Props) (v : List Spelling) (h : SortedBy blt S.keys) :
    SortedBy blt (S.merge s sp v).keys :=
  sorted_upsert_keys blt_order s _ _ S h

theorem get?_merge_self {S : Script} (s : Bytes) (sp : Props) (v : List Spelling) (h : SortedBy blt S.keys) :
    (S.merge s sp v).get? s = some (mergeVec sp v ((S.get? s).getD [])) :=
  lookup_upsert_self blt_order s _ _ S h

theorem get?_merge_ne {S : Script} {s k : Bytes} (sp : Props) (v : List Spelling) (h : k ≠ s) :
    (S.merge s sp v).get? k = S.get? k :=
  lookup_upsert_ne blt_order _ _ h S

theorem wf_merge {syl : List Bytes} {S : Script} (hS : S.WF syl) (s : Bytes) {sp : Props} (hsp : sp.tips = [])
    {v : List Spelling} (hv : VecOK syl v) : (S.merge s sp v).WF syl := by
  refine ⟨sorted_merge s sp v hS.1, ?_⟩
  intro e he
  rcases mem_upsert blt_order he with h | ⟨_, h | ⟨old, ho, h⟩⟩
  · exact hS.2 e h
  · rw [h]; exact vecOK_mergeVec hsp hv (vecOK'_nil syl)
  · rw [h]; exact vecOK_mergeVec hsp hv (hS.2 _ ho).toVecOK'

theorem spells_merge_mono {S : Script} (hS : SortedBy blt S.keys) (s : Bytes) (sp : Props) (v : List Spelling)
    {k y : Bytes} (h : S.spells k y) : (S.merge s sp v).spells k y := by
  obtain ⟨w, hw, hy⟩ := h
  by_cases hk : k = s
  · subst hk
    refine ⟨_, get?_merge_self k sp v hS, ?_⟩
    rw [hw]
    exact strs_mergeVec_mono sp v w y hy
  · exact ⟨w, by rw [get?_merge_ne sp v hk]; exact hw, hy⟩

theorem spells_merge_new {S : Script} (hS : SortedBy blt S.keys) (s : Bytes) (sp : Props) {v : List Spelling}
    {x : Spelling} (hx : x ∈ v) : (S.merge s sp v).spells s x.str :=
  ⟨_, get?_merge_self s sp v hS, strs_mergeVec_new sp v _ x hx⟩

/-! ### rounds -/

theorem effect_tips (k : Kind) : k.effect.tips = [] := by cases k <;> rfl

theorem wf_roundStep {syl : List Bytes} (r : Rule) {T : Script} (hT : T.WF syl) {e : Bytes × List Spelling}
    (he : VecOK syl e.2) : (roundStep r T e).WF syl := by
  unfold roundStep
  split
  · split <;> split <;>
      first
      | exact hT
      | exact wf_merge hT _ rfl he
      | exact wf_merge hT _ (effect_tips _) he
      | exact wf_merge (wf_merge hT _ rfl he) _ (effect_tips _) he
  · exact wf_merge hT _ rfl he

theorem wf_foldl_roundStep {syl : List Bytes} (r : Rule) : ∀ (l : Script) (T : Script), T.WF syl →
    (∀ e ∈ l, VecOK syl e.2) → (l.foldl (roundStep r) T).WF syl
  | [], T, hT, _ => hT
  | e :: l, T, hT, hl => by
    simp only [List.foldl_cons]
    exact wf_foldl_roundStep r l _ (wf_roundStep r hT (hl e (List.mem_cons_self ..)))
      (fun e he => hl e (List.mem_cons_of_mem _ he))

theorem wf_nil (syl : List Bytes) : Script.WF syl [] := ⟨by simp [SortedBy, Script.keys], by simp⟩

theorem wf_round {syl : List Bytes} {r : Rule} {S T : Script} (hS : S.WF syl) (h : round r S = some T) : T.WF syl := by
  unfold round at h
  split at h
  · cases h
  · cases h
    exact wf_foldl_roundStep r S [] (wf_nil syl) hS.2

theorem wf_applyRules {syl : List Bytes} : ∀ (rules : List Rule) (S : Script) (m : Bool), S.WF syl →
    (applyRules rules S m).2.WF syl
  | [], _, _, hS => hS
  | r :: rs, S, m, hS => by
    simp only [applyRules]
    split
    · exact hS
    · rename_i T hT
      exact wf_applyRules rs T _ (wf_round hS hT)

theorem wf_apply {syl : List Bytes} (rules : List Rule) {S : Script} (hS : S.WF syl) :
    (Projection.apply rules S).2.WF syl := by
  unfold Projection.apply
  split
  · exact hS
  · exact wf_applyRules rules S false hS

/-! ### the initial script -/

theorem not_mem_of_lookup_eq_none {k : Bytes} {V : Type} : ∀ {m : List (Bytes × V)}, List.lookup k m = none → ∀ v, (k, v) ∉ m
  | [], _, _ => by simp
  | (a, b) :: rest, h, v => by
    simp only [List.lookup] at h
    split at h
    · cases h
    · rename_i hk
      have hne : ¬ k = a := by simpa using hk
      intro hm
      rcases List.mem_cons.mp hm with hm | hm
      · cases hm; exact hne rfl
      · exact not_mem_of_lookup_eq_none h v hm

theorem wf_addSyllable {syl : List Bytes} {S : Script} (hS : S.WF syl) {y : Bytes} (hy : y ∈ syl) :
    (S.addSyllable y).WF syl := by
  unfold Script.addSyllable
  split
  · exact hS
  · rename_i hnone
    refine ⟨sorted_upsert_keys blt_order y _ _ S hS.1, ?_⟩
    intro e he
    rcases mem_upsert blt_order he with h | ⟨_, h | ⟨old, ho, _⟩⟩
    · exact hS.2 e h
    · rw [h]
      exact ⟨by simp, by simp [hy], by simp⟩
    · exact absurd ho (not_mem_of_lookup_eq_none hnone old)

theorem wf_foldl_addSyllable {syl : List Bytes} : ∀ (l : List Bytes) (S : Script), S.WF syl → (∀ y ∈ l, y ∈ syl) →
    (l.foldl Script.addSyllable S).WF syl
  | [], _, hS, _ => hS
  | y :: l, S, hS, hl => by
    simp only [List.foldl_cons]
    exact wf_foldl_addSyllable l _ (wf_addSyllable hS (hl y (List.mem_cons_self ..)))
      (fun z hz => hl z (List.mem_cons_of_mem _ hz))

theorem wf_ofSyllabary (syl : List Bytes) : (Script.ofSyllabary syl).WF syl :=
  wf_foldl_addSyllable syl [] (wf_nil syl) (fun _ h => h)

theorem spells_addSyllable_mono {S : Script} (_hS : SortedBy blt S.keys) (z : Bytes) {k y : Bytes}
    (h : S.spells k y) : (S.addSyllable z).spells k y := by
  unfold Script.addSyllable
  split
  · exact h
  · rename_i hnone
    obtain ⟨w, hw, hy⟩ := h
    have hk : k ≠ z := by
      intro e; subst e
      simp only [Script.get?] at hw hnone
      rw [hw] at hnone; cases hnone
    exact ⟨w, by simp only [Script.get?] at hw ⊢; rw [lookup_upsert_ne blt_order _ _ hk]; exact hw, hy⟩

theorem spells_addSyllable_self {S : Script} (hS : SortedBy blt S.keys) (y : Bytes) (hprev : ∀ v, S.get? y = some v → y ∈ v.map (·.str)) :
    (S.addSyllable y).spells y y := by
  unfold Script.addSyllable
  split
  · rename_i v hv
    exact ⟨v, hv, hprev v hv⟩
  · rename_i hnone
    refine ⟨_, lookup_upsert_self blt_order y _ _ S hS, ?_⟩
    simp only [Script.get?] at hnone
    simp [hnone]

/-- every key of the script spells itself -/
def SelfSpelled (S : Script) : Prop := ∀ k v, S.get? k = some v → k ∈ v.map (·.str)

theorem selfSpelled_addSyllable {S : Script} (hS : SortedBy blt S.keys) (h : SelfSpelled S) (y : Bytes) :
    SelfSpelled (S.addSyllable y) := by
  unfold Script.addSyllable
  split
  · exact h
  · rename_i hnone
    intro k v hv
    by_cases hk : k = y
    · subst hk
      simp only [Script.get?] at hv hnone
      rw [lookup_upsert_self blt_order k _ _ S hS, hnone] at hv
      cases hv; simp
    · simp only [Script.get?] at hv
      rw [lookup_upsert_ne blt_order _ _ hk] at hv
      exact h k v hv

theorem sorted_addSyllable {S : Script} (hS : SortedBy blt S.keys) (y : Bytes) : SortedBy blt (S.addSyllable y).keys := by
  unfold Script.addSyllable
  split
  · exact hS
  · exact sorted_upsert_keys blt_order y _ _ S hS

theorem spells_foldl_addSyllable : ∀ (l : List Bytes) (S : Script), SortedBy blt S.keys → SelfSpelled S →
    (∀ k y, S.spells k y → (l.foldl Script.addSyllable S).spells k y) ∧
    (∀ y ∈ l, (l.foldl Script.addSyllable S).spells y y)
  | [], _, _, _ => ⟨fun _ _ h => h, by simp⟩
  | z :: l, S, hS, hself => by
    simp only [List.foldl_cons]
    have ih := spells_foldl_addSyllable l (S.addSyllable z) (sorted_addSyllable hS z) (selfSpelled_addSyllable hS hself z)
    refine ⟨fun k y h => ih.1 k y (spells_addSyllable_mono hS z h), ?_⟩
    intro y hy
    rcases List.mem_cons.mp hy with rfl | hy
    · exact ih.1 _ _ (spells_addSyllable_self hS y (hself y))
    · exact ih.2 y hy

theorem ofSyllabary_spells_self {syl : List Bytes} {y : Bytes} (hy : y ∈ syl) : (Script.ofSyllabary syl).spells y y :=
  (spells_foldl_addSyllable syl [] (by simp [SortedBy, Script.keys]) (by intro k v h; simp [Script.get?, List.lookup] at h)).2 y hy

/-! ### what a round keeps -/

theorem sorted_roundStep (r : Rule) {T : Script} (hT : SortedBy blt T.keys) (e : Bytes × List Spelling) :
    SortedBy blt (roundStep r T e).keys := by
  unfold roundStep
  split
  · split <;> split <;>
      first
      | exact hT
      | exact sorted_merge _ _ _ hT
      | exact sorted_merge _ _ _ (sorted_merge _ _ _ hT)
  · exact sorted_merge _ _ _ hT

theorem spells_roundStep_mono (r : Rule) {T : Script} (hT : SortedBy blt T.keys) (e : Bytes × List Spelling)
    {k y : Bytes} (h : T.spells k y) : (roundStep r T e).spells k y := by
  unfold roundStep
  split
  · split <;> split <;>
      first
      | exact h
      | exact spells_merge_mono hT _ _ _ h
      | exact spells_merge_mono (sorted_merge _ _ _ hT) _ _ _ (spells_merge_mono hT _ _ _ h)
  · exact spells_merge_mono hT _ _ _ h

/-- unless a deleting calculation applied to the spelling, the round step re-enters it with all its syllables -/
theorem spells_roundStep_keep (r : Rule) {T : Script} (hT : SortedBy blt T.keys) (e : Bytes × List Spelling)
    (hkeep : ¬ (r.kind.deletion = true ∧ (r.run e.1).isApplied = true)) {x : Spelling} (hx : x ∈ e.2) :
    (roundStep r T e).spells e.1 x.str := by
  unfold roundStep
  split
  · rename_i res hres
    have hdel : r.kind.deletion = false := by
      cases hd : r.kind.deletion
      · rfl
      · exact absurd ⟨hd, by simp [hres, Outcome.isApplied]⟩ hkeep
    simp only [hdel]
    split
    · exact spells_merge_mono (sorted_merge _ _ _ hT) _ _ _ (spells_merge_new hT _ _ hx)
    · exact spells_merge_new hT _ _ hx
  · exact spells_merge_new hT _ _ hx

theorem spells_foldl_roundStep (r : Rule) : ∀ (l : Script) (T : Script), SortedBy blt T.keys →
    (∀ k y, T.spells k y → (l.foldl (roundStep r) T).spells k y) ∧
    (∀ e ∈ l, ¬ (r.kind.deletion = true ∧ (r.run e.1).isApplied = true) →
      ∀ x ∈ e.2, (l.foldl (roundStep r) T).spells e.1 x.str)
  | [], _, _ => ⟨fun _ _ h => h, by simp⟩
  | e' :: l, T, hT => by
    simp only [List.foldl_cons]
    have ih := spells_foldl_roundStep r l (roundStep r T e') (sorted_roundStep r hT e')
    refine ⟨fun k y h => ih.1 k y (spells_roundStep_mono r hT e' h), ?_⟩
    intro e he hkeep x hx
    rcases List.mem_cons.mp he with rfl | he
    · exact ih.1 _ _ (spells_roundStep_keep r hT e hkeep hx)
    · exact ih.2 e he hkeep x hx

/-- a round keeps `k ↦ y` unless the calculation is a deleting one and applied to `k` -/
theorem spells_round_keep {r : Rule} {S T : Script} (h : round r S = some T) {k y : Bytes} (hs : S.spells k y)
    (hkeep : ¬ (r.kind.deletion = true ∧ (r.run k).isApplied = true)) : T.spells k y := by
  unfold round at h
  split at h
  · cases h
  · cases h
    obtain ⟨v, hv, hy⟩ := hs
    obtain ⟨x, hx, rfl⟩ := List.mem_map.mp hy
    have hmem : (k, v) ∈ S := mem_of_lookup_eq_some hv
    exact (spells_foldl_roundStep r S [] (by simp [SortedBy, Script.keys])).2 (k, v) hmem hkeep x hx

theorem spells_applyRules_keep : ∀ (rules : List Rule) (S : Script) (m : Bool) {k y : Bytes}, S.spells k y →
    ¬ (applyRules rules S m).2.spells k y → ∃ r ∈ rules, r.kind.deletion = true ∧ (r.run k).isApplied = true
  | [], _, _, _, _, hs, hn => absurd hs hn
  | r :: rs, S, m, k, y, hs, hn => by
    simp only [applyRules] at hn
    split at hn
    · exact absurd hs hn
    · rename_i T hT
      by_cases hkeep : r.kind.deletion = true ∧ (r.run k).isApplied = true
      · exact ⟨r, List.mem_cons_self .., hkeep⟩
      · obtain ⟨r', hr', h⟩ := spells_applyRules_keep rs T _ (spells_round_keep hT hs hkeep) hn
        exact ⟨r', List.mem_cons_of_mem _ hr', h⟩

theorem spells_apply_keep (rules : List Rule) (S : Script) {k y : Bytes} (hs : S.spells k y)
    (hn : ¬ (Projection.apply rules S).2.spells k y) : ∃ r ∈ rules, r.kind.deletion = true ∧ (r.run k).isApplied = true := by
  unfold Projection.apply at hn
  split at hn
  · exact absurd hs hn
  · exact spells_applyRules_keep rules S false hs hn

/-! ### type is min, credibility is max -/

theorem propsOf_nil (t : Bytes) : propsOf [] t = none := rfl

theorem propsOf_cons (z : Spelling) (zs : List Spelling) (t : Bytes) :
    propsOf (z :: zs) t = if z.str = t then some z.props else propsOf zs t := by
  simp only [propsOf, List.find?_cons]
  by_cases h : z.str = t <;> simp [h]

/-- what one step does to the entry of syllable `t` -/
def accum (acc : Option Props) (y : Props) : Option Props :=
  some (match acc with
    | some z => absorb y z
    | none => y)

theorem propsOf_mergeOne (y : Spelling) (t : Bytes) : ∀ m : List Spelling,
    propsOf (mergeOne y m) t = if y.str = t then accum (propsOf m t) y.props else propsOf m t
  | [] => by
    simp only [mergeOne, propsOf_cons, propsOf_nil, accum]
  | z :: zs => by
    simp only [mergeOne]
    split
    · rename_i hz
      simp only [propsOf_cons, hz]
      split <;> simp [accum]
    · rename_i hz
      simp only [propsOf_cons, propsOf_mergeOne y t zs]
      by_cases h1 : z.str = t
      · have : ¬ y.str = t := fun e => hz (h1.trans e.symm)
        simp [h1, this]
      · simp [h1]

theorem propsOf_mergeVec (sp : Props) (t : Bytes) : ∀ (v m : List Spelling),
    propsOf (mergeVec sp v m) t =
      ((v.filter (fun x => x.str = t)).map (fun x => mergeProps sp x.props)).foldl accum (propsOf m t)
  | [], m => by simp [mergeVec_nil]
  | x :: v, m => by
    rw [mergeVec_cons, propsOf_mergeVec sp t v, propsOf_mergeOne]
    by_cases h : x.str = t
    · simp [h]
    · simp [h]

/-- folding `accum` over candidates yields the minimum type and the maximum credibility, both attained -/
theorem foldl_accum_spec : ∀ (cs : List Props) (acc : Option Props), acc.toList ++ cs ≠ [] →
    ∃ z, cs.foldl accum acc = some z ∧
      (∀ c ∈ acc.toList ++ cs, z.type.rank ≤ c.type.rank) ∧ (∃ c ∈ acc.toList ++ cs, z.type = c.type) ∧
      (∀ c ∈ acc.toList ++ cs, c.cred ≤ z.cred) ∧ (∃ c ∈ acc.toList ++ cs, z.cred = c.cred)
  | [], none, h => by simp at h
  | [], some z, _ => ⟨z, rfl, by simp, by simp, by simp, by simp⟩
  | c :: cs, none, _ => by
    simp only [List.foldl_cons]
    obtain ⟨z, hz, h1, h2, h3, h4⟩ := foldl_accum_spec cs (accum none c) (by simp [accum])
    exact ⟨z, hz, by simpa [accum] using h1, by simpa [accum] using h2, by simpa [accum] using h3,
      by simpa [accum] using h4⟩
  | c :: cs, some a, _ => by
    simp only [List.foldl_cons]
    obtain ⟨z, hz, h1, ⟨c1, hc1, e1⟩, h3, ⟨c2, hc2, e2⟩⟩ := foldl_accum_spec cs (accum (some a) c) (by simp [accum])
    have ht : (absorb c a).type.rank ≤ a.type.rank ∧ (absorb c a).type.rank ≤ c.type.rank ∧
        ((absorb c a).type = a.type ∨ (absorb c a).type = c.type) := by
      simp only [absorb]
      split
      · exact ⟨by omega, by omega, Or.inr rfl⟩
      · exact ⟨by omega, by omega, Or.inl rfl⟩
    have hcr : a.cred ≤ (absorb c a).cred ∧ c.cred ≤ (absorb c a).cred ∧
        ((absorb c a).cred = a.cred ∨ (absorb c a).cred = c.cred) := by
      simp only [absorb]
      split
      · exact ⟨by omega, by omega, Or.inr rfl⟩
      · exact ⟨by omega, by omega, Or.inl rfl⟩
    simp only [accum, Option.toList_some, List.singleton_append, List.mem_cons] at h1 hc1 h3 hc2
    have hz1 := h1 _ (Or.inl rfl)
    have hz3 := h3 _ (Or.inl rfl)
    refine ⟨z, hz, ?_, ?_, ?_, ?_⟩
    · intro c' hc'
      simp only [Option.toList_some, List.singleton_append, List.mem_cons] at hc'
      rcases hc' with rfl | rfl | hc'
      · omega
      · omega
      · exact h1 c' (Or.inr hc')
    · rcases hc1 with rfl | hc1
      · rcases ht.2.2 with e | e
        · exact ⟨a, by simp, e1.trans e⟩
        · exact ⟨c, by simp, e1.trans e⟩
      · exact ⟨c1, by simp [hc1], e1⟩
    · intro c' hc'
      simp only [Option.toList_some, List.singleton_append, List.mem_cons] at hc'
      rcases hc' with rfl | rfl | hc'
      · omega
      · omega
      · exact h3 c' (Or.inr hc')
    · rcases hc2 with rfl | hc2
      · rcases hcr.2.2 with e | e
        · exact ⟨a, by simp, e2.trans e⟩
        · exact ⟨c, by simp, e2.trans e⟩
      · exact ⟨c2, by simp [hc2], e2⟩

/-- `Script::Merge` on the vector level: type = min, credibility = max over the candidates, attained -/
theorem mergeVec_spec (sp : Props) (v m : List Spelling) (t : Bytes) (h : mergeCandidates sp v m t ≠ []) :
    ∃ z, propsOf (mergeVec sp v m) t = some z ∧
      (∀ c ∈ mergeCandidates sp v m t, z.type.rank ≤ c.type.rank) ∧ (∃ c ∈ mergeCandidates sp v m t, z.type = c.type) ∧
      (∀ c ∈ mergeCandidates sp v m t, c.cred ≤ z.cred) ∧ (∃ c ∈ mergeCandidates sp v m t, z.cred = c.cred) := by
  rw [propsOf_mergeVec]
  exact foldl_accum_spec _ _ h

theorem mergeVec_none (sp : Props) (v m : List Spelling) (t : Bytes) (h : mergeCandidates sp v m t = []) :
    propsOf (mergeVec sp v m) t = none := by
  rw [propsOf_mergeVec]
  simp only [mergeCandidates, List.append_eq_nil_iff] at h
  rw [h.2]
  cases hp : propsOf m t with
  | none => rfl
  | some z => rw [hp] at h; simp at h

end RimeModel.C09
