import RimeModel.C09.AlgebraLemmas
/-! C09 — lemmas for the `DictCompiler::BuildPrism` glue: a projection that matches nothing leaves the
script as it was, and the script of a sorted syllabary is the identity table. -/
namespace RimeModel.C09

section generic
variable {K V : Type} {lt : K → K → Bool}

theorem upsert_append_of_gt (o : StrictOrder lt) (k : K) (f : V → V) (d : V) :
    ∀ m : List (K × V), (∀ x ∈ m.map (·.1), lt x k = true) → upsert lt k f d m = m ++ [(k, f d)]
  | [], _ => rfl
  | e :: rest, h => by
    have he : lt e.1 k = true := h e.1 (by simp)
    have hne : lt k e.1 = false := by
      cases hc : lt k e.1
      · rfl
      · have := o.trans _ _ _ hc he
        simp [o.irrefl] at this
    simp only [upsert, hne, he, ↓reduceIte, Bool.false_eq_true, List.cons_append]
    rw [upsert_append_of_gt o k f d rest (fun x hx => h x (by simp at hx ⊢; exact Or.inr hx))]

theorem lookup_eq_none_of_gt [BEq K] [LawfulBEq K] (o : StrictOrder lt) {k : K} :
    ∀ m : List (K × V), (∀ x ∈ m.map (·.1), lt x k = true) → List.lookup k m = none
  | [], _ => rfl
  | (a, b) :: rest, h => by
    have ha : lt a k = true := h a (by simp)
    have : (k == a) = false := by simpa using (o.ne_of_lt ha).symm
    simp only [List.lookup, this]
    exact lookup_eq_none_of_gt o rest (fun x hx => h x (by simp at hx ⊢; exact Or.inr hx))

end generic

theorem mergeProps_default (xp : Props) : mergeProps {} xp = xp := by
  cases xp
  simp [mergeProps, SpellingType.rank]

theorem mergeOne_append_of_not_mem (y : Spelling) : ∀ m : List Spelling, y.str ∉ m.map (·.str) → mergeOne y m = m ++ [y]
  | [], _ => rfl
  | z :: zs, h => by
    simp only [List.map_cons, List.mem_cons, not_or] at h
    have hz : ¬ z.str = y.str := fun e => h.1 e.symm
    simp only [mergeOne, hz, ↓reduceIte, List.cons_append]
    rw [mergeOne_append_of_not_mem y zs h.2]

theorem mergeVec_default_append : ∀ (v m : List Spelling), ((m ++ v).map (·.str)).Nodup → mergeVec {} v m = m ++ v
  | [], m, _ => by simp [mergeVec_nil]
  | x :: v, m, h => by
    rw [mergeVec_cons, mergeProps_default]
    have hx : x.str ∉ m.map (·.str) := by
      intro hm
      simp only [List.map_append, List.map_cons] at h
      have := (List.nodup_append.mp h).2.2 _ hm x.str (by simp)
      exact this rfl
    have e : (⟨x.str, x.props⟩ : Spelling) = x := by cases x; rfl
    rw [e, mergeOne_append_of_not_mem x m hx]
    have h' : (((m ++ [x]) ++ v).map (·.str)).Nodup := by simpa using h
    rw [mergeVec_default_append v (m ++ [x]) h']
    simp

theorem foldl_roundStep_identity (r : Rule) : ∀ (post pre : Script), SortedBy blt (pre ++ post).keys →
    (∀ e ∈ post, r.run e.1 = .notApplied ∧ (e.2.map (·.str)).Nodup) → post.foldl (roundStep r) pre = pre ++ post
  | [], pre, _, _ => by simp
  | e :: post, pre, hs, h => by
    have he := h e (List.mem_cons_self ..)
    have hgt : ∀ x ∈ pre.map (·.1), blt x e.1 = true := by
      intro x hx
      simp only [SortedBy, Script.keys, List.map_append, List.map_cons, List.pairwise_append] at hs
      exact hs.2.2 x hx e.1 (by simp)
    have hstep : roundStep r pre e = pre ++ [e] := by
      simp only [roundStep, he.1, Script.merge]
      rw [upsert_append_of_gt blt_order e.1 _ _ pre hgt, mergeVec_default_append e.2 [] (by simpa using he.2)]
      simp
    simp only [List.foldl_cons, hstep]
    rw [foldl_roundStep_identity r post (pre ++ [e]) (by simpa using hs)
      (fun e' he' => h e' (List.mem_cons_of_mem _ he'))]
    simp

theorem round_identity {syl : List Bytes} {r : Rule} {S : Script} (hS : S.WF syl)
    (h : ∀ e ∈ S, r.run e.1 = .notApplied) : round r S = some S ∧ anyApplied r S = false := by
  have hany : S.any (fun e => r.run e.1 == .threw) = false := by
    rw [List.any_eq_false]
    intro e he
    simp [h e he]
  refine ⟨?_, ?_⟩
  · simp only [round, hany, Bool.false_eq_true, ↓reduceIte]
    rw [foldl_roundStep_identity r S [] (by simpa using hS.1) (fun e he => ⟨h e he, (hS.2 e he).2.2⟩)]
    simp
  · simp only [anyApplied]
    rw [List.any_eq_false]
    intro e he
    simp [h e he, Outcome.isApplied]

theorem applyRules_identity {syl : List Bytes} {S : Script} (hS : S.WF syl) : ∀ (rules : List Rule) (m : Bool),
    (∀ r ∈ rules, ∀ e ∈ S, r.run e.1 = .notApplied) → applyRules rules S m = (m, S)
  | [], _, _ => rfl
  | r :: rs, m, h => by
    have hr := round_identity hS (h r (List.mem_cons_self ..))
    simp only [applyRules, hr.1, hr.2, Bool.or_false]
    exact applyRules_identity hS rs m (fun r' hr' => h r' (List.mem_cons_of_mem _ hr'))

theorem apply_identity {syl : List Bytes} {S : Script} (hS : S.WF syl) (rules : List Rule)
    (h : ∀ r ∈ rules, ∀ e ∈ S, r.run e.1 = .notApplied) : Projection.apply rules S = (false, S) := by
  unfold Projection.apply
  split
  · rfl
  · exact applyRules_identity hS rules false h

/-- the identity table of a syllabary -/
def identityScript (syl : List Bytes) : Script := syl.map (fun y => (y, [⟨y, {}⟩]))

theorem foldl_addSyllable_sorted : ∀ (post pre : List Bytes), SortedBy blt (pre ++ post) →
    post.foldl Script.addSyllable (identityScript pre) = identityScript (pre ++ post)
  | [], pre, _ => by simp
  | y :: post, pre, hs => by
    have hgt : ∀ x ∈ (identityScript pre).map (·.1), blt x y = true := by
      intro x hx
      simp only [identityScript, List.map_map, List.mem_map, Function.comp] at hx
      obtain ⟨z, hz, rfl⟩ := hx
      simp only [SortedBy, List.pairwise_append] at hs
      exact hs.2.2 z hz y (by simp)
    have hstep : Script.addSyllable (identityScript pre) y = identityScript (pre ++ [y]) := by
      simp only [Script.addSyllable, Script.get?, lookup_eq_none_of_gt blt_order _ hgt]
      rw [upsert_append_of_gt blt_order y _ _ _ hgt]
      simp [identityScript]
    simp only [List.foldl_cons, hstep]
    rw [foldl_addSyllable_sorted post (pre ++ [y]) (by simpa using hs)]
    simp

theorem ofSyllabary_sorted {syl : List Bytes} (hs : SortedBy blt syl) : Script.ofSyllabary syl = identityScript syl := by
  have := foldl_addSyllable_sorted syl [] (by simpa using hs)
  simpa [Script.ofSyllabary, identityScript] using this

end RimeModel.C09
