import RimeModel.C09.Sorted
/-!
C09 — model of the spelling algebra: `Script`, `Script::AddSyllable`, `Script::Merge`
(src/rime/algo/algebra.cc), the six calculations' flags and effects (src/rime/algo/calculus.h/.cc)
and `Projection::Load` / `Projection::Apply(Script*)`.

What is *not* modelled: the regular-expression engine (boost::regex) and the code-point map of
`xlit`.  A rule is its kind plus an abstract function `run : spelling ↦ outcome`; in the
correspondence check that function is the table of outcomes the harness records from the real
`Calculation::Apply` on every spelling of every round.

Credibility: every value the code produces is `0.0 + c + c + … + c` with the one constant
`c = log ½` (kFuzzySpellingPenalty = kAbbreviationPenalty), summed left to right, so a credibility
is faithfully the integer `-(number of penalties)`; `+=` is `+`, `>` is `>`.
`SpellingProperties::end_pos` is not touched by the algebra nor stored in the prism (always 0).
-/
namespace RimeModel.C09

/-- `enum SpellingType` (spelling.h), in declaration order -/
inductive SpellingType where
  | normal | fuzzy | abbreviation | completion | ambiguous | invalid
  deriving DecidableEq, Repr, Inhabited

/-- the enumerator's integer value (what `<` / `>` on the enum compare, what the prism stores) -/
def SpellingType.rank : SpellingType → Nat
  | .normal => 0 | .fuzzy => 1 | .abbreviation => 2 | .completion => 3 | .ambiguous => 4 | .invalid => 5

def SpellingType.ofNat? : Nat → Option SpellingType
  | 0 => some .normal | 1 => some .fuzzy | 2 => some .abbreviation | 3 => some .completion
  | 4 => some .ambiguous | 5 => some .invalid | _ => none

/-- `struct SpellingProperties` without `end_pos` -/
structure Props where
  type : SpellingType := .normal
  cred : Int := 0
  tips : Bytes := []
  deriving DecidableEq, Repr, Inhabited

/-- `struct Spelling`; `operator==` compares `str` only -/
structure Spelling where
  str : Bytes
  props : Props := {}
  deriving DecidableEq, Repr, Inhabited

/-- `class Script : map<string, vector<Spelling>>` as a key-sorted association list -/
abbrev Script := List (Bytes × List Spelling)

def Script.keys (S : Script) : List Bytes := S.map (·.1)

/-- `map::find` -/
def Script.get? (S : Script) (k : Bytes) : Option (List Spelling) := List.lookup k S

/-- the properties `y` that `Merge` computes from the rule's `sp` and an element `x` of `v`:
`if (sp.type > yy.type) yy.type = sp.type; yy.credibility += sp.credibility;
 if (!sp.tips.empty()) yy.tips = sp.tips;` -/
def mergeProps (sp xp : Props) : Props where
  type := if sp.type.rank > xp.type.rank then sp.type else xp.type
  cred := xp.cred + sp.cred
  tips := if sp.tips ≠ [] then sp.tips else xp.tips

/-- the update of an existing element `zz` by `yy`:
`if (yy.type < zz.type) zz.type = yy.type; if (yy.credibility > zz.credibility) zz.credibility = …;
 zz.tips.clear();` -/
def absorb (yy zz : Props) : Props where
  type := if yy.type.rank < zz.type.rank then yy.type else zz.type
  cred := if yy.cred > zz.cred then yy.cred else zz.cred
  tips := []

/-- one iteration of the loop in `Script::Merge`, on the vector `m`: `std::find` by `str`
(first match), update it, or `push_back(y)` -/
def mergeOne (y : Spelling) : List Spelling → List Spelling
  | [] => [y]
  | z :: zs => if z.str = y.str then { z with props := absorb y.props z.props } :: zs else z :: mergeOne y zs

/-- the whole loop of `Script::Merge` on the vector `m = (*this)[s]` -/
def mergeVec (sp : Props) (v : List Spelling) (m : List Spelling) : List Spelling :=
  v.foldl (fun m x => mergeOne ⟨x.str, mergeProps sp x.props⟩ m) m

/-- `Script::Merge(s, sp, v)`; `(*this)[s]` creates the entry even when `v` is empty -/
def Script.merge (S : Script) (s : Bytes) (sp : Props) (v : List Spelling) : Script :=
  upsert blt s (mergeVec sp v) [] S

/-- `Script::AddSyllable`: no-op if present, else `(*this)[syllable].push_back(Spelling(syllable))` -/
def Script.addSyllable (S : Script) (y : Bytes) : Script :=
  match S.get? y with
  | some _ => S
  | none => upsert blt y (fun m => m ++ [⟨y, {}⟩]) [] S

/-- the script `DictCompiler::BuildPrism` starts from: `for (x : syllabary) script.AddSyllable(x)` -/
def Script.ofSyllabary (syl : List Bytes) : Script := syl.foldl Script.addSyllable []

/-- `Syllabary = set<string>`: the sorted, duplicate-free list of the given strings -/
def Syllabary.ofList (l : List Bytes) : List Bytes := l.foldl (fun s y => insertSet blt y s) []

/-! ### calculations -/

inductive Kind where
  | xlit | xform | erase | derive | fuzz | abbrev
  deriving DecidableEq, Repr, Inhabited

/-- `Calculation::deletion()`: base class `true`, overridden to `false` in `Derivation`
(inherited by `Fuzzing`, `Abbreviation`) -/
def Kind.deletion : Kind → Bool
  | .xlit | .xform | .erase => true
  | .derive | .fuzz | .abbrev => false

/-- `Calculation::addition()`: base class `true`, overridden to `false` in `Erasion` -/
def Kind.addition : Kind → Bool
  | .erase => false
  | _ => true

/-- properties of the spelling a successful `Apply` leaves (it started from a fresh
`Spelling(v.first)`): `Fuzzing`/`Abbreviation` set the type and add one penalty -/
def Kind.effect : Kind → Props
  | .fuzz => { type := .fuzzy, cred := -1 }
  | .abbrev => { type := .abbreviation, cred := -1 }
  | _ => {}

/-- what `x->Apply(&s)` did on one spelling -/
inductive Outcome where
  /-- returned false -/
  | notApplied
  /-- returned true and left `s.str = r` (`r` may be empty: erase, or a transformation to nothing) -/
  | applied (r : Bytes)
  /-- threw `std::runtime_error` (boost::regex complexity limits) -/
  | threw
  deriving DecidableEq, Repr, Inhabited

def Outcome.isApplied : Outcome → Bool
  | .applied _ => true
  | _ => false

structure Rule where
  kind : Kind
  run : Bytes → Outcome

/-- body of the inner `for` of `Projection::Apply(Script*)` for one entry `e` of `*value` -/
def roundStep (r : Rule) (temp : Script) (e : Bytes × List Spelling) : Script :=
  match r.run e.1 with
  | .applied res =>
    let t1 := if r.kind.deletion then temp else temp.merge e.1 {} e.2
    if r.kind.addition && res ≠ [] then t1.merge res r.kind.effect e.2 else t1
  | _ => temp.merge e.1 {} e.2

/-- one round (one calculation) over the whole script; `none` = the calculation threw on some
spelling, in which case the code returns from `Apply` and `temp` is discarded -/
def round (r : Rule) (S : Script) : Option Script :=
  if S.any (fun e => r.run e.1 == .threw) then none
  else some (S.foldl (roundStep r) [])

/-- did the calculation apply to some spelling of the script (`modified = true`) -/
def anyApplied (r : Rule) (S : Script) : Bool := S.any (fun e => (r.run e.1).isApplied)

/-- the loop over `calculation_`; `m` is the `modified` flag so far -/
def applyRules : List Rule → Script → Bool → Bool × Script
  | [], S, m => (m, S)
  | r :: rs, S, m =>
    match round r S with
    | none => (false, S)
    | some T => applyRules rs T (m || anyApplied r S)

/-- `Projection::Apply(Script* value)`: returned flag and the value left in `*value` -/
def Projection.apply (rules : List Rule) (S : Script) : Bool × Script :=
  if S.isEmpty then (false, S) else applyRules rules S false

/-! ### `Calculus::Parse` (the part that is not regex compilation) -/

def isLowerAZ (c : UInt8) : Bool := 97 ≤ c.toNat && c.toNat ≤ 122

/-- `boost::split(args, s, is_from_range(sep, sep))` without token compression -/
def splitOn (sep : UInt8) : Bytes → List Bytes
  | [] => [[]]
  | c :: cs =>
    if c = sep then [] :: splitOn sep cs
    else match splitOn sep cs with
      | [] => [[c]]
      | t :: ts => (c :: t) :: ts

def Kind.ofName? (n : Bytes) : Option Kind :=
  if n = "xlit".toUTF8.toList then some .xlit
  else if n = "xform".toUTF8.toList then some .xform
  else if n = "erase".toUTF8.toList then some .erase
  else if n = "derive".toUTF8.toList then some .derive
  else if n = "fuzz".toUTF8.toList then some .fuzz
  else if n = "abbrev".toUTF8.toList then some .abbrev
  else none

/-- `Calculus::Parse` up to (not including) regex compilation and the code-point pairing of `xlit`:
the kind and the argument list, or `none` where the code returns NULL before that point -/
def Calculus.parse (defn : Bytes) : Option (Kind × List Bytes) :=
  match defn.find? (fun c => !isLowerAZ c) with
  | none => none
  | some sep =>
    let args := splitOn sep defn
    match Kind.ofName? (args.headD []) with
    | none => none
    | some .erase => if args.length < 2 || args.getD 1 [] = [] then none else some (.erase, args)
    | some .xlit => if args.length < 3 then none else some (.xlit, args)
    | some k => if args.length < 3 || args.getD 1 [] = [] then none else some (k, args)

/-- `Projection::Load`: any formula that fails to parse empties the whole projection -/
def Projection.load (rs : List (Option Rule)) : Option (List Rule) :=
  rs.foldr (fun r acc => match r, acc with | some r, some l => some (r :: l) | _, _ => none) (some [])

end RimeModel.C09
