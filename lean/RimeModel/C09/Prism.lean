import RimeModel.C09.Model
/-!
C09 — model of `rime::Prism` (src/rime/dict/prism.cc): `Build`, `Save`, `Load`, `GetValue`,
`HasKey`, `CommonPrefixSearch`, `ExpandSearch`, `QuerySpelling`/`SpellingAccessor`.

Trusted, not modelled: darts-clone.  `trie_->build(n, keys)` is given the script's keys in `std::map`
order (sorted, distinct) and no values, so the trie maps the i-th key to i; the model keeps that
sorted key table and reads the three darts primitives off it:
* `exactMatchSearch(k)` = position of `k` in the table, or -1;
* `commonPrefixSearch(k)` = the (value, length) of every prefix of `k` in the table, by increasing length;
* `traverse(p)` from the root = -2 if no key starts with `p`, -1 if some key does but `p` is no key,
  else the value of `p`.  (Continuing a traversal from a saved `node_pos` equals traversing the longer
  string from the root.)
The mapped-file layout (offsets, alignment) is abstracted to an `Image` of the fields `Load` reads.
Keys are C strings: non-empty, no NUL byte.
-/
namespace RimeModel.C09

/-- `prism::SpellingDescriptor`; the type is stored as `int32_t`, the credibility as `float`
(the penalty count survives the narrowing: distinct counts stay distinct) -/
structure Descriptor where
  syllableId : Nat
  type : SpellingType
  cred : Int
  tips : Bytes
  deriving DecidableEq, Repr, Inhabited

/-- `Darts::DoubleArray::result_pair_type`: value and matched length -/
structure Match where
  value : Nat
  length : Nat
  deriving DecidableEq, Repr, Inhabited

/-- what `Load` reads back from the file -/
structure Image where
  /-- `metadata->format` -/
  format : Bytes
  /-- the double-array image, as the sorted key table it encodes -/
  keys : List Bytes
  /-- `metadata->spelling_map` (null offset when built without a script) -/
  spellingMap : Option (List (List Descriptor))
  /-- `metadata->alphabet` up to the NUL -/
  alphabet : List UInt8
  deriving DecidableEq, Repr

/-- the members of a `Prism` object the queries use -/
structure Prism where
  /-- `trie_` -/
  keys : List Bytes
  /-- `spelling_map_` -/
  spellingMap : Option (List (List Descriptor))
  /-- `metadata_->alphabet` -/
  alphabet : List UInt8
  /-- `metadata_->format` -/
  format : Bytes
  /-- `format_ > 1.0 - DBL_EPSILON`; `format_` is 0.0 until `Load` parses the tag -/
  v1 : Bool
  deriving DecidableEq, Repr

/-- `kPrismFormat` = "Rime::Prism/3.0" (the check compares it with the tag the real `Build` writes) -/
def kPrismFormat : Bytes := [82, 105, 109, 101, 58, 58, 80, 114, 105, 115, 109, 47, 51, 46, 48]
/-- `kPrismFormatPrefix` = "Rime::Prism/" -/
def kPrismFormatPrefix : Bytes := [82, 105, 109, 101, 58, 58, 80, 114, 105, 115, 109, 47]
/-- `kDefaultAlphabet` = "abcdefghijklmnopqrstuvwxyz" -/
def kDefaultAlphabet : List UInt8 :=
  [97, 98, 99, 100, 101, 102, 103, 104, 105, 106, 107, 108, 109, 110, 111, 112, 113, 114, 115, 116, 117, 118, 119,
   120, 121, 122]

/-- the alphabet `Build` stores: `set<char>` of every byte of every key, in `char` order -/
def alphabetOf (keys : List Bytes) : List UInt8 :=
  keys.foldl (fun A k => k.foldl (fun A c => insertSet sclt c A) A) []

/-- `syllable_to_id[str]`: position in the syllabary; `map::operator[]` yields 0 for a string that
is no syllable -/
def syllableId (syl : List Bytes) (s : Bytes) : Nat := (idx? s syl).getD 0

def descriptorOf (syl : List Bytes) (x : Spelling) : Descriptor :=
  { syllableId := syllableId syl x.str, type := x.props.type, cred := x.props.cred, tips := x.props.tips }

/-- `Prism::Build(syllabary, script)` (checksums omitted); the format tag is written last -/
def Prism.build (syl : List Bytes) (script : Option Script) : Prism :=
  let keys := match script with
    | some S => S.keys
    | none => syl
  { keys := keys
    spellingMap := script.map (fun S => S.map (fun e => e.2.map (descriptorOf syl)))
    alphabet := alphabetOf keys
    format := kPrismFormat
    v1 := false }

/-- `Prism::Save` = `ShrinkToFit`: the file content -/
def Prism.save (p : Prism) : Image :=
  { format := p.format, keys := p.keys, spellingMap := p.spellingMap, alphabet := p.alphabet }

/-- leading decimal digits of a byte string as a number -/
def leadingNat : Bytes → Nat → Nat
  | [], acc => acc
  | c :: cs, acc => if 48 ≤ c.toNat ∧ c.toNat ≤ 57 then leadingNat cs (acc * 10 + (c.toNat - 48)) else acc

/-- `atof(tail) > 1.0 - DBL_EPSILON` for the tags librime writes ("1.0", "2.0", "3.0", …):
the integer part is at least 1 -/
def formatAtLeast1 (tail : Bytes) : Bool := 1 ≤ leadingNat tail 0

/-- `Prism::Load` on a file image -/
def Prism.load (img : Image) : Option Prism :=
  if kPrismFormatPrefix.isPrefixOf img.format then
    let v1 := formatAtLeast1 (img.format.drop kPrismFormatPrefix.length)
    some { keys := img.keys
           spellingMap := if v1 then img.spellingMap else none
           alphabet := img.alphabet
           format := img.format
           v1 := v1 }
  else none

/-- `Prism::GetValue` (`exactMatchSearch`) -/
def Prism.getValue (p : Prism) (key : Bytes) : Option Nat := idx? key p.keys

/-- `Prism::HasKey` -/
def Prism.hasKey (p : Prism) (key : Bytes) : Bool := (p.getValue key).isSome

/-- `Prism::CommonPrefixSearch`: nothing for an empty key, else darts' `commonPrefixSearch` with
room for `len` results (there are at most `len` non-empty prefixes) -/
def Prism.commonPrefixSearch (p : Prism) (key : Bytes) : List Match :=
  if key = [] then []
  else (List.range' 1 key.length).filterMap (fun l => (idx? (key.take l) p.keys).map (fun v => ⟨v, l⟩))

/-- is there a trie node for `s` (the root always exists) -/
def isNode (keys : List Bytes) (s : Bytes) : Bool := s = [] || keys.any (fun k => s.isPrefixOf k)

/-- darts `traverse` from the root: `.error` = -2, `.ok none` = -1, `.ok (some v)` = value -/
def traverse (keys : List Bytes) (s : Bytes) : Except Unit (Option Nat) :=
  if isNode keys s then .ok (idx? s keys) else .error ()

/-- the nodes `ExpandSearch` pushes while handling queue element `s`: one per alphabet letter, in
alphabet order, for which `traverse` does not return -2 -/
def children (keys : List Bytes) (A : List UInt8) (s : Bytes) : List Bytes :=
  (A.map (fun c => s ++ [c])).filter (isNode keys)

/-- the order in which nodes are pushed on the FIFO queue, starting from the queue content `level`.
The queue is always (rest of the current depth) ++ (children pushed so far), so the pushes happen
depth by depth; `d` bounds the depth (no node is longer than the longest key). -/
def bfs (keys : List Bytes) (A : List UInt8) : Nat → List Bytes → List Bytes
  | 0, _ => []
  | d + 1, level =>
    let next := level.flatMap (children keys A)
    next ++ bfs keys A d next

def maxLen (keys : List Bytes) : Nat := keys.foldl (fun m k => max m k.length) 0

/-- `result->push_back(m); if (limit && ++count >= limit) return;` over the matches in push order -/
def collect (limit : Nat) : List Match → Nat → List Match
  | [], _ => []
  | m :: ms, count =>
    if limit ≠ 0 ∧ count + 1 ≥ limit then [m]
    else m :: collect limit ms (if limit ≠ 0 then count + 1 else count)

/-- `Prism::ExpandSearch(key, result, limit)`: the key itself if present, then every key below it in
breadth-first order over the alphabet in use (the stored one for a format ≥ 1.0 file that was
loaded, else a–z), cut after `limit` results (`limit = 0`: no cut) -/
def Prism.expandSearch (p : Prism) (key : Bytes) (limit : Nat) : List Match :=
  match traverse p.keys key with
  | .error _ => []
  | .ok _ =>
    let A := if p.v1 then p.alphabet else kDefaultAlphabet
    let visited := key :: bfs p.keys A (maxLen p.keys + 1) [key]
    collect limit (visited.filterMap (fun s => (idx? s p.keys).map (fun v => ⟨v, s.length⟩))) 0

/-- the sequence a caller reads from `for (a = QuerySpelling(id); !a.exhausted(); a.Next())` as
`(a.syllable_id(), a.properties())`: the stored descriptors, or — no spelling map, id out of range,
or an empty list — the single identity element `(id, default properties)` -/
def Prism.querySpelling (p : Prism) (id : Nat) : List Descriptor :=
  match p.spellingMap with
  | none => [⟨id, .normal, 0, []⟩]
  | some m =>
    match m[id]? with
    | some (d :: ds) => d :: ds
    | _ => [⟨id, .normal, 0, []⟩]

/-- the script preparation of `DictCompiler::BuildPrism` (as of /repo d76c819):
`if (algebra && p.Load(algebra)) { AddSyllable…; if (!p.Apply(&script)) script.clear();
 else if (script.empty()) return false; }` and then `script.empty() ? nullptr : &script`.
`rules = none`: the projection did not load.  Result `none`: `BuildPrism` fails, no prism file is
written; `some a`: `a` is the `script` argument handed to `Prism::Build`. -/
def DictCompiler.scriptArg (rules : Option (List Rule)) (syl : List Bytes) : Option (Option Script) :=
  match rules with
  | none => some none
  | some rs =>
    let r := Projection.apply rs (Script.ofSyllabary syl)
    if !r.1 then some none else if r.2.isEmpty then none else some (some r.2)

/-- `DictCompiler::BuildPrism` followed by loading the file it saved (`none`: no file) -/
def DictCompiler.prism (rules : Option (List Rule)) (syl : List Bytes) : Option Prism :=
  (DictCompiler.scriptArg rules syl).bind (fun a => Prism.load (Prism.build syl a).save)

/-- HISTORY — the script preparation before /repo d76c819: an applied algebra that left the script empty
was indistinguishable from "no algebra" (`script.empty() ? nullptr : &script`) -/
def DictCompiler.scriptArgOld (rules : Option (List Rule)) (syl : List Bytes) : Option Script :=
  match rules with
  | none => none
  | some rs =>
    let r := Projection.apply rs (Script.ofSyllabary syl)
    if !r.1 then none else if r.2.isEmpty then none else some r.2

def DictCompiler.prismOld (rules : Option (List Rule)) (syl : List Bytes) : Option Prism :=
  Prism.load (Prism.build syl (DictCompiler.scriptArgOld rules syl)).save

end RimeModel.C09
