import RimeModel.C09.SortedLemmas
/-! C09 — lemmas about the prism model: alphabet, trie nodes, breadth-first order, `collect`. -/
namespace RimeModel.C09

/-! ### the stored alphabet -/

theorem foldl_insert_spec : ∀ (k : Bytes) (A : List UInt8), SortedBy sclt A →
    SortedBy sclt (k.foldl (fun A c => insertSet sclt c A) A) ∧
    ∀ c, c ∈ k.foldl (fun A c => insertSet sclt c A) A ↔ c ∈ A ∨ c ∈ k
  | [], A, h => ⟨h, by simp⟩
  | x :: k, A, h => by
    simp only [List.foldl_cons]
    have ih := foldl_insert_spec k (insertSet sclt x A) (sorted_insertSet sclt_order x A h)
    refine ⟨ih.1, fun c => ?_⟩
    rw [ih.2 c, mem_insertSet sclt_order]
    simp only [List.mem_cons]
    constructor
    · rintro ((h | h) | h) <;> simp [h]
    · rintro (h | h | h) <;> simp [h]

theorem foldl_alphabet_spec : ∀ (keys : List Bytes) (A : List UInt8), SortedBy sclt A →
    SortedBy sclt (keys.foldl (fun A k => k.foldl (fun A c => insertSet sclt c A) A) A) ∧
    ∀ c, c ∈ keys.foldl (fun A k => k.foldl (fun A c => insertSet sclt c A) A) A ↔ c ∈ A ∨ ∃ k ∈ keys, c ∈ k
  | [], A, h => ⟨h, by simp⟩
  | k :: keys, A, h => by
    simp only [List.foldl_cons]
    have h1 := foldl_insert_spec k A h
    have ih := foldl_alphabet_spec keys _ h1.1
    refine ⟨ih.1, fun c => ?_⟩
    rw [ih.2 c, h1.2 c]
    simp only [List.mem_cons, exists_eq_or_imp]
    constructor
    · rintro ((h | h) | h) <;> simp [h]
    · rintro (h | h | h) <;> simp [h]

theorem alphabetOf_sorted (keys : List Bytes) : SortedBy sclt (alphabetOf keys) :=
  (foldl_alphabet_spec keys [] (by simp [SortedBy])).1

theorem mem_alphabetOf (keys : List Bytes) (c : UInt8) : c ∈ alphabetOf keys ↔ ∃ k ∈ keys, c ∈ k := by
  have := (foldl_alphabet_spec keys [] (by simp [SortedBy])).2 c
  simpa [alphabetOf] using this

/-! ### trie nodes -/

theorem isNode_iff {keys : List Bytes} {s : Bytes} : isNode keys s = true ↔ s = [] ∨ ∃ k ∈ keys, s <+: k := by
  simp [isNode, List.any_eq_true]

theorem isNode_of_mem {keys : List Bytes} {k : Bytes} (h : k ∈ keys) : isNode keys k = true :=
  isNode_iff.mpr (Or.inr ⟨k, h, List.prefix_rfl⟩)

theorem isNode_of_prefix {keys : List Bytes} {p x : Bytes} (hx : isNode keys x = true) (hp : p <+: x) :
    isNode keys p = true := by
  rcases isNode_iff.mp hx with rfl | ⟨k, hk, hxk⟩
  · have : p = [] := List.prefix_nil.mp hp
    exact isNode_iff.mpr (Or.inl this)
  · exact isNode_iff.mpr (Or.inr ⟨k, hk, hp.trans hxk⟩)

theorem foldl_max_ge : ∀ (keys : List Bytes) (m : Nat),
    m ≤ keys.foldl (fun m k => max m k.length) m ∧ ∀ k ∈ keys, k.length ≤ keys.foldl (fun m k => max m k.length) m
  | [], m => ⟨Nat.le_refl _, by simp⟩
  | x :: keys, m => by
    simp only [List.foldl_cons]
    have ih := foldl_max_ge keys (max m x.length)
    refine ⟨by omega, ?_⟩
    intro k hk
    rcases List.mem_cons.mp hk with rfl | hk
    · omega
    · exact ih.2 k hk

theorem length_le_maxLen {keys : List Bytes} {k : Bytes} (h : k ∈ keys) : k.length ≤ maxLen keys :=
  (foldl_max_ge keys 0).2 k h

/-! ### the breadth-first order -/

theorem lexSc_snoc_of_lex : ∀ (x y : Bytes) (a b : UInt8), lexSc x y → x.length = y.length → lexSc (x ++ [a]) (y ++ [b])
  | [], _, _, _, h, _ => by simp [lexSc] at h
  | _ :: _, [], _, _, h, _ => by simp [lexSc] at h
  | x :: xs, y :: ys, a, b, h, hl => by
    simp only [lexSc, List.cons_append] at h ⊢
    rcases h with h | ⟨rfl, h⟩
    · exact Or.inl h
    · exact Or.inr ⟨by trivial, lexSc_snoc_of_lex xs ys a b h (by simpa using hl)⟩

theorem lexSc_snoc_same : ∀ (x : Bytes) (a b : UInt8), sc a < sc b → lexSc (x ++ [a]) (x ++ [b])
  | [], _, _, h => by simp [lexSc, h]
  | x :: xs, a, b, h => by
    simp only [lexSc, List.cons_append]
    exact Or.inr ⟨by trivial, lexSc_snoc_same xs a b h⟩

theorem mem_children {keys : List Bytes} {A : List UInt8} {p x : Bytes} :
    x ∈ children keys A p ↔ ∃ c ∈ A, x = p ++ [c] ∧ isNode keys x = true := by
  simp only [children, List.mem_filter, List.mem_map]
  constructor
  · rintro ⟨⟨c, hc, rfl⟩, hn⟩; exact ⟨c, hc, rfl, hn⟩
  · rintro ⟨c, hc, rfl, hn⟩; exact ⟨⟨c, hc, rfl⟩, hn⟩

theorem pairwise_children {keys : List Bytes} {A : List UInt8} (hA : SortedBy sclt A) (p : Bytes) :
    (children keys A p).Pairwise lexSc := by
  unfold children
  apply List.Pairwise.filter
  rw [List.pairwise_map]
  unfold SortedBy at hA
  exact hA.imp (fun {a b} h => lexSc_snoc_same p a b (by simpa [sclt] using h))

/-- `L` is exactly the set of trie nodes `n` letters below `q`, in `char`-lexicographic order -/
def LevelInv (keys : List Bytes) (q : Bytes) (n : Nat) (L : List Bytes) : Prop :=
  L.Pairwise lexSc ∧ ∀ x, x ∈ L ↔ (isNode keys x = true ∧ q <+: x ∧ x.length = q.length + n)

theorem levelInv_next {keys : List Bytes} {A : List UInt8} (hA : SortedBy sclt A)
    (hcov : ∀ k ∈ keys, ∀ c ∈ k, c ∈ A) {q : Bytes} {n : Nat} {L : List Bytes} (hL : LevelInv keys q n L) :
    LevelInv keys q (n + 1) (L.flatMap (children keys A)) := by
  refine ⟨?_, ?_⟩
  · rw [List.pairwise_flatMap]
    refine ⟨fun p _ => pairwise_children hA p, ?_⟩
    refine hL.1.imp_of_mem ?_
    intro p1 p2 h1 h2 hlex x hx y hy
    obtain ⟨a, _, rfl, _⟩ := mem_children.mp hx
    obtain ⟨b, _, rfl, _⟩ := mem_children.mp hy
    have l1 := ((hL.2 p1).mp h1).2.2
    have l2 := ((hL.2 p2).mp h2).2.2
    exact lexSc_snoc_of_lex p1 p2 a b hlex (by omega)
  · intro x
    rw [List.mem_flatMap]
    constructor
    · rintro ⟨p, hp, hx⟩
      obtain ⟨c, _, rfl, hn⟩ := mem_children.mp hx
      obtain ⟨_, hqp, hlen⟩ := (hL.2 p).mp hp
      exact ⟨hn, hqp.trans (List.prefix_append p [c]), by simp [hlen]; omega⟩
    · rintro ⟨hn, hq, hlen⟩
      have hne : x ≠ [] := by intro e; subst e; simp at hlen
      have hx : x.dropLast ++ [x.getLast hne] = x := List.dropLast_concat_getLast hne
      have hpl : x.dropLast.length = q.length + n := by rw [List.length_dropLast]; omega
      refine ⟨x.dropLast, (hL.2 _).mpr ⟨isNode_of_prefix hn (List.dropLast_prefix x), ?_, hpl⟩, ?_⟩
      · exact List.prefix_of_prefix_length_le hq (List.dropLast_prefix x) (by omega)
      · refine mem_children.mpr ⟨x.getLast hne, ?_, hx.symm, hn⟩
        rcases isNode_iff.mp hn with h | ⟨k, hk, hxk⟩
        · exact absurd h hne
        · exact hcov k hk _ (hxk.subset (List.getLast_mem hne))

theorem bfs_spec {keys : List Bytes} {A : List UInt8} (hA : SortedBy sclt A)
    (hcov : ∀ k ∈ keys, ∀ c ∈ k, c ∈ A) (q : Bytes) : ∀ (d n : Nat) (L : List Bytes), LevelInv keys q n L →
    (bfs keys A d L).Pairwise bfsLt ∧
    ∀ x, x ∈ bfs keys A d L ↔
      (isNode keys x = true ∧ q <+: x ∧ q.length + n < x.length ∧ x.length ≤ q.length + n + d)
  | 0, n, L, _ => by
    simp only [bfs, List.Pairwise.nil, List.not_mem_nil, true_and, false_iff]
    intro x h; omega
  | d + 1, n, L, hL => by
    have hnext := levelInv_next hA hcov hL
    have ih := bfs_spec hA hcov q d (n + 1) _ hnext
    simp only [bfs]
    refine ⟨?_, ?_⟩
    · rw [List.pairwise_append]
      refine ⟨?_, ih.1, ?_⟩
      · refine hnext.1.imp_of_mem ?_
        intro a b ha hb hlex
        have l1 := ((hnext.2 a).mp ha).2.2
        have l2 := ((hnext.2 b).mp hb).2.2
        exact Or.inr ⟨by omega, hlex⟩
      · intro a ha b hb
        have l1 := ((hnext.2 a).mp ha).2.2
        have l2 := ((ih.2 b).mp hb).2.2.1
        exact Or.inl (by omega)
    · intro x
      rw [List.mem_append, hnext.2 x, ih.2 x]
      constructor
      · rintro (⟨h1, h2, h3⟩ | ⟨h1, h2, h3, h4⟩)
        · exact ⟨h1, h2, by omega, by omega⟩
        · exact ⟨h1, h2, by omega, by omega⟩
      · rintro ⟨h1, h2, h3, h4⟩
        by_cases h : x.length = q.length + (n + 1)
        · exact Or.inl ⟨h1, h2, h⟩
        · exact Or.inr ⟨h1, h2, by omega, by omega⟩

theorem levelInv_zero {keys : List Bytes} {q : Bytes} (hq : isNode keys q = true) : LevelInv keys q 0 [q] := by
  refine ⟨by simp, fun x => ?_⟩
  simp only [List.mem_singleton, Nat.add_zero]
  constructor
  · rintro rfl; exact ⟨hq, List.prefix_rfl, rfl⟩
  · rintro ⟨_, h2, h3⟩; exact (h2.eq_of_length h3.symm).symm

/-- the visiting order of `ExpandSearch` below a node `q`: exactly the nodes extending `q` (up to the
depth bound), strictly increasing in the breadth-first order -/
theorem visited_spec {keys : List Bytes} {A : List UInt8} (hA : SortedBy sclt A)
    (hcov : ∀ k ∈ keys, ∀ c ∈ k, c ∈ A) {q : Bytes} (hq : isNode keys q = true) (d : Nat) :
    (q :: bfs keys A d [q]).Pairwise bfsLt ∧
    ∀ x, x ∈ q :: bfs keys A d [q] ↔ (isNode keys x = true ∧ q <+: x ∧ x.length ≤ q.length + d) := by
  have h := bfs_spec hA hcov q d 0 [q] (levelInv_zero hq)
  refine ⟨?_, ?_⟩
  · rw [List.pairwise_cons]
    refine ⟨?_, h.1⟩
    intro x hx
    have := ((h.2 x).mp hx).2.2.1
    exact Or.inl (by omega)
  · intro x
    rw [List.mem_cons, h.2 x]
    constructor
    · rintro (rfl | ⟨h1, h2, h3, h4⟩)
      · exact ⟨hq, List.prefix_rfl, by omega⟩
      · exact ⟨h1, h2, by omega⟩
    · rintro ⟨h1, h2, h3⟩
      by_cases hl : x.length = q.length
      · exact Or.inl (h2.eq_of_length hl.symm).symm
      · have := h2.length_le
        exact Or.inr ⟨h1, h2, by omega, by omega⟩

/-! ### `collect` -/

theorem collect_spec (limit : Nat) : ∀ (ms : List Match) (c : Nat), (limit = 0 ∨ c < limit) →
    collect limit ms c = if limit = 0 then ms else ms.take (limit - c)
  | [], _, _ => by simp [collect]
  | m :: ms, c, h => by
    simp only [collect]
    by_cases h0 : limit = 0
    · subst h0
      simp only [ne_eq, not_true_eq_false, false_and, ↓reduceIte]
      rw [collect_spec 0 ms c (Or.inl rfl)]
      simp
    · have hc : c < limit := by omega
      simp only [ne_eq, h0, not_false_eq_true, true_and, ↓reduceIte]
      by_cases h1 : c + 1 ≥ limit
      · have : limit - c = 1 := by omega
        simp [h1, this]
      · simp only [h1, ↓reduceIte]
        rw [collect_spec limit ms (c + 1) (Or.inr (by omega))]
        have : limit - c = (limit - (c + 1)) + 1 := by omega
        simp [h0, this]

theorem filterMap_idx (keys : List Bytes) : ∀ (V : List Bytes),
    V.filterMap (fun s => (idx? s keys).map (fun v => (⟨v, s.length⟩ : Match))) =
      (V.filter (fun s => (idx? s keys).isSome)).map (matchOf keys)
  | [] => rfl
  | s :: V => by
    simp only [List.filterMap_cons, List.filter_cons]
    cases h : idx? s keys with
    | none => simp [filterMap_idx keys V]
    | some v => simp [filterMap_idx keys V, matchOf, h]

end RimeModel.C09
