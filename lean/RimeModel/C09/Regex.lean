import RimeModel.C09.Model
/-!
C09 — `Erasion::Apply` (src/rime/algo/calculus.cc) with a meaning for its regular expression.

```
bool Erasion::Apply(Spelling* spelling) {
  if (!spelling || spelling->str.empty()) return false;
  if (!boost::regex_match(spelling->str, pattern_)) return false;
  spelling->str.clear();
  return true;
}
```
`regex_match` succeeds only when the pattern matches the WHOLE string (unlike `regex_search` /
`regex_replace`, which the transforming calculations use and which look for the pattern anywhere
inside it).  The general rule of the model stays abstract (`Rule.run`); for `erase` the model
gives the pattern a meaning on a fragment of boost::regex's Perl syntax on which there is nothing
engine-specific to get wrong:

  literal characters (letters, digits and a few punctuation bytes that are not special anywhere),
  `.`, `[…]` / `[^…]` over letters, digits, `;` `,` `_`, groups `( … )`, alternation `|` (no empty
  alternative), one of `*` `+` `?` directly after an atom, `^`, `$`.

Anything else (escapes, braces, ranges, lazy / possessive quantifiers, `(?…)`, bytes ≥ 0x80) is
outside the fragment: `parseRegex` answers `none` and the correspondence check falls back to the
recorded outcome for that rule.  Whether a match of the whole string EXISTS does not depend on the
order in which a backtracking engine tries alternatives, so the set-of-end-positions semantics
below is exact for `regex_match` on this fragment.
-/
namespace RimeModel.C09

/-- abstract syntax of the fragment -/
inductive Re where
  | eps
  | chr (c : UInt8)
  | any
  | cls (neg : Bool) (cs : List UInt8)
  /-- `^`: start of the string (spellings hold no line breaks) -/
  | bol
  /-- `$`: end of the string -/
  | eol
  | seq (a b : Re)
  | alt (a b : Re)
  | star (a : Re)
  deriving Repr, DecidableEq, Inhabited

/-- positions reachable from the positions `acc` by repeating `step`; there are at most `fuel`
positions, each round adds a new one or stops -/
def starClosure (step : Nat → List Nat) : Nat → List Nat → List Nat
  | 0, acc => acc
  | fuel + 1, acc =>
    let new := ((acc.flatMap step).filter (fun q => !acc.contains q)).eraseDups
    if new.isEmpty then acc else starClosure step fuel (acc ++ new)

/-- the end positions of all matches of `r` in `s` that start at position `p` -/
def Re.ends (s : Bytes) : Re → Nat → List Nat
  | .eps, p => [p]
  | .chr c, p => if s[p]? = some c then [p + 1] else []
  | .any, p => if p < s.length then [p + 1] else []
  | .cls neg cs, p =>
    match s[p]? with
    | some b => if cs.contains b != neg then [p + 1] else []
    | none => []
  | .bol, p => if p = 0 then [p] else []
  | .eol, p => if p = s.length then [p] else []
  | .seq a b, p => (Re.ends s a p).flatMap (fun q => Re.ends s b q)
  | .alt a b, p => Re.ends s a p ++ Re.ends s b p
  | .star a, p => starClosure (fun q => Re.ends s a q) (s.length + 1) [p]

/-- `boost::regex_match(s, r)`: some match starting at 0 ends at the end of `s` -/
def Re.fullMatch (r : Re) (s : Bytes) : Bool := (Re.ends s r 0).contains s.length

/-- `boost::regex_search(s, r)`: some match starts somewhere in `s` (used only to SAY how `erase`
differs from a search; no calculation of the model uses it) -/
def Re.occursIn (r : Re) (s : Bytes) : Bool := (List.range (s.length + 1)).any (fun p => !(Re.ends s r p).isEmpty)

/-- the pattern that is the literal string `w` -/
def Re.lits (w : Bytes) : Re := w.foldr (fun c r => .seq (.chr c) r) .eps

/-! ### concrete syntax -/

def isAlnum (c : UInt8) : Bool :=
  (48 ≤ c.toNat && c.toNat ≤ 57) || (65 ≤ c.toNat && c.toNat ≤ 90) || (97 ≤ c.toNat && c.toNat ≤ 122)

/-- characters allowed inside `[…]`: alphanumerics, `;` `,` `_` -/
def isClassChar (c : UInt8) : Bool := isAlnum c || c = 59 || c = 44 || c = 95

/-- characters that stand for themselves outside a class: the class characters and
`'` space `=` `@` `#` `%` `&` `~` `"` `<` `>` `:` `!` -/
def isLiteralChar (c : UInt8) : Bool :=
  isClassChar c || [39, 32, 61, 64, 35, 37, 38, 126, 34, 60, 62, 58, 33].contains c

def isQuant (c : UInt8) : Bool := c = 42 || c = 43 || c = 63

/-- an optional single quantifier after the atom `a`; a second quantifier character (lazy,
possessive) is outside the fragment -/
def withQuant (a : Re) (rest : Bytes) : Option (Re × Bytes) :=
  match rest with
  | q :: rest' =>
    if isQuant q then
      match rest' with
      | q2 :: _ => if isQuant q2 then none else
        some (if q = 42 then .star a else if q = 43 then .seq a (.star a) else .alt a .eps, rest')
      | [] => some (if q = 42 then .star a else if q = 43 then .seq a (.star a) else .alt a .eps, rest')
    else some (a, rest)
  | [] => some (a, rest)

/-- an anchor may not be quantified in the fragment -/
def noQuant (a : Re) (rest : Bytes) : Option (Re × Bytes) :=
  match rest with
  | q :: _ => if isQuant q then none else some (a, rest)
  | [] => some (a, rest)

/-- the characters of a class up to the closing `]` -/
def classBody : Bytes → List UInt8 → Option (List UInt8 × Bytes)
  | [], _ => none
  | c :: rest, acc =>
    if c = 93 then (if acc.isEmpty then none else some (acc.reverse, rest))
    else if isClassChar c then classBody rest (c :: acc) else none

inductive PMode where
  | alt | seq | atom
  deriving DecidableEq

def endsAlternative (s : Bytes) : Bool :=
  match s with
  | [] => true
  | c :: _ => c = 124 || c = 41

/-- recursive descent; `fuel` bounds the call depth (3 levels per atom are enough) -/
def parseRe : Nat → PMode → Bytes → Option (Re × Bytes)
  | 0, _, _ => none
  | f + 1, .alt, s =>
    match parseRe f .seq s with
    | none => none
    | some (a, rest) =>
      match rest with
      | 124 :: rest' =>
        match parseRe f .alt rest' with
        | none => none
        | some (b, rest'') => some (.alt a b, rest'')
      | _ => some (a, rest)
  | f + 1, .seq, s =>
    if endsAlternative s then none        -- an empty alternative is outside the fragment
    else
      match parseRe f .atom s with
      | none => none
      | some (a, rest) =>
        if endsAlternative rest then some (a, rest)
        else
          match parseRe f .seq rest with
          | none => none
          | some (b, rest') => some (.seq a b, rest')
  | f + 1, .atom, s =>
    match s with
    | [] => none
    | 40 :: rest =>                          -- ( … )
      match rest with
      | 63 :: _ => none                      -- (?…)
      | _ =>
        match parseRe f .alt rest with
        | some (a, 41 :: rest') => withQuant a rest'
        | _ => none
    | 91 :: rest =>                          -- [ … ]
      match rest with
      | 94 :: rest' =>
        match classBody rest' [] with
        | some (cs, rest'') => withQuant (.cls true cs) rest''
        | none => none
      | _ =>
        match classBody rest [] with
        | some (cs, rest') => withQuant (.cls false cs) rest'
        | none => none
    | 46 :: rest => withQuant .any rest
    | 94 :: rest => noQuant .bol rest
    | 36 :: rest => noQuant .eol rest
    | c :: rest => if isLiteralChar c then withQuant (.chr c) rest else none

/-- the pattern text of an `erase` formula as an expression of the fragment -/
def parseRegex (pat : Bytes) : Option Re :=
  match parseRe (3 * pat.length + 3) .alt pat with
  | some (r, []) => some r
  | _ => none

/-- `Erasion::Apply` on a fresh `Spelling(s)` -/
def Erasion.run (re : Re) (s : Bytes) : Outcome :=
  if s = [] then .notApplied
  else if re.fullMatch s then .applied []
  else .notApplied

/-- the `erase` calculation with pattern `re` as a rule of the model -/
def Erasion.rule (re : Re) : Rule := ⟨.erase, Erasion.run re⟩

end RimeModel.C09
