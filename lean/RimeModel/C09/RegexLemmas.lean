import RimeModel.C09.Regex
/-! C09 — lemmas on the regex fragment: a literal pattern under whole-string matching -/
namespace RimeModel.C09

theorem drop_isPrefixOf_cons (c : UInt8) (w s : Bytes) (p : Nat) :
    (c :: w).isPrefixOf (s.drop p) = (decide (s[p]? = some c) && w.isPrefixOf (s.drop (p + 1))) := by
  by_cases hp : p < s.length
  · rw [List.drop_eq_getElem_cons hp]
    simp only [List.isPrefixOf, List.getElem?_eq_getElem hp, Option.some.injEq]
    congr 1
    by_cases h : c = s[p]
    · simp [h]
    · have h' : ¬ s[p] = c := fun e => h e.symm
      simp [h, h']
  · have h1 : s.drop p = [] := List.drop_eq_nil_of_le (by omega)
    have h2 : s[p]? = none := List.getElem?_eq_none (by omega)
    simp [h1, h2]

theorem ends_lits (s : Bytes) : ∀ (w : Bytes) (p : Nat),
    Re.ends s (Re.lits w) p = if w.isPrefixOf (s.drop p) then [p + w.length] else [] := by
  intro w
  induction w with
  | nil => intro p; simp [Re.lits, Re.ends, List.isPrefixOf]
  | cons c w ih =>
    intro p
    have hl : Re.lits (c :: w) = .seq (.chr c) (Re.lits w) := rfl
    rw [hl, Re.ends, drop_isPrefixOf_cons]
    by_cases hc : s[p]? = some c
    · simp only [Re.ends, hc, if_true, List.flatMap_cons, List.flatMap_nil, List.append_nil, ih,
        decide_true, Bool.true_and, List.length_cons]
      split <;> simp <;> omega
    · simp [Re.ends, hc]

theorem fullMatch_lits_iff (w s : Bytes) : (Re.lits w).fullMatch s = true ↔ s = w := by
  unfold Re.fullMatch
  rw [ends_lits]
  simp only [List.drop_zero, Nat.zero_add]
  constructor
  · intro h
    split at h
    · rename_i hp
      have hpre := List.isPrefixOf_iff_prefix.mp hp
      have hlen : s.length = w.length := by simpa using h
      exact (hpre.eq_of_length hlen.symm).symm
    · simp at h
  · intro h
    subst h
    simp

end RimeModel.C09
