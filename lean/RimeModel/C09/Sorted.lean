/-!
C09 — the ordered containers the algebra and the prism builder use, as sorted lists.

* `std::map<string, V>` / `std::set<string>`: keys ordered by `std::string::operator<`
  (lexicographic on *unsigned* bytes) — `blt`.
* `std::set<char>` (the prism alphabet): ordered by `char`'s `<`, and `char` is *signed* on the
  platforms librime is built for here (x86-64), so bytes 0x80..0xFF sort before 0x01..0x7F — `sclt`.

Executable definitions only; the order laws and container lemmas are in `SortedLemmas.lean`.
-/
namespace RimeModel.C09

abbrev Bytes := List UInt8

/-- `std::string::operator<` (`char_traits<char>::compare` = unsigned lexicographic) -/
def blt : Bytes → Bytes → Bool
  | [], [] => false
  | [], _ :: _ => true
  | _ :: _, [] => false
  | a :: as, b :: bs =>
    if a.toNat < b.toNat then true else if b.toNat < a.toNat then false else blt as bs

/-- rank of a byte as a signed `char`: 0x80 ↦ 0 (-128), …, 0xFF ↦ 127 (-1), 0x00 ↦ 128, …, 0x7F ↦ 255 -/
def sc (c : UInt8) : Nat := (c.toNat + 128) % 256

/-- `<` on `char` (signed) -/
def sclt (a b : UInt8) : Bool := sc a < sc b

/-- `std::set<K>::insert` on the sorted list of elements (`lt` is the container's comparison;
equal = neither is less, as the standard containers define equivalence) -/
def insertSet {K : Type} (lt : K → K → Bool) (k : K) : List K → List K
  | [] => [k]
  | x :: xs =>
    if lt k x then k :: x :: xs
    else if lt x k then x :: insertSet lt k xs
    else x :: xs

/-- `f(m[k])` for a `std::map`: `operator[]` default-constructs a missing entry (`dflt`), then the
entry is updated in place by `f` -/
def upsert {K V : Type} (lt : K → K → Bool) (k : K) (f : V → V) (dflt : V) : List (K × V) → List (K × V)
  | [] => [(k, f dflt)]
  | e :: rest =>
    if lt k e.1 then (k, f dflt) :: e :: rest
    else if lt e.1 k then e :: upsert lt k f dflt rest
    else (e.1, f e.2) :: rest

/-- position of `k` in a list (first occurrence) -/
def idx? (k : Bytes) : List Bytes → Option Nat
  | [] => none
  | x :: xs => if x = k then some 0 else (idx? k xs).map (· + 1)

end RimeModel.C09
