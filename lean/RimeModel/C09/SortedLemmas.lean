import RimeModel.C09.Spec
/-! C09 — order laws of `blt` / `sclt`, lemmas on `insertSet`, `upsert`, `idx?`. -/
namespace RimeModel.C09

theorem blt_irrefl : ∀ a : Bytes, blt a a = false
  | [] => rfl
  | a :: as => by simp [blt, blt_irrefl as]

theorem blt_cons (a b : UInt8) (as bs : Bytes) :
    blt (a :: as) (b :: bs) = true ↔ a.toNat < b.toNat ∨ (a = b ∧ blt as bs = true) := by
  simp only [blt]
  by_cases h1 : a.toNat < b.toNat
  · simp [h1]
  · by_cases h2 : b.toNat < a.toNat
    · simp [h1, h2]
      intro e; subst e; omega
    · have hab : a = b := UInt8.toNat_inj.mp (by omega)
      subst hab
      simp

theorem blt_trans : ∀ a b c : Bytes, blt a b = true → blt b c = true → blt a c = true
  | [], [], _, h, _ => by simp [blt] at h
  | [], _ :: _, [], _, h => by simp [blt] at h
  | [], _ :: _, _ :: _, _, _ => by simp [blt]
  | _ :: _, [], _, h, _ => by simp [blt] at h
  | _ :: _, _ :: _, [], _, h => by simp [blt] at h
  | a :: as, b :: bs, c :: cs, h1, h2 => by
    rw [blt_cons] at h1 h2 ⊢
    rcases h1 with h1 | ⟨rfl, h1⟩ <;> rcases h2 with h2 | ⟨rfl, h2⟩
    · exact Or.inl (by omega)
    · exact Or.inl h1
    · exact Or.inl h2
    · exact Or.inr ⟨rfl, blt_trans as bs cs h1 h2⟩

theorem blt_tri : ∀ a b : Bytes, blt a b = false → blt b a = false → a = b
  | [], [], _, _ => rfl
  | [], _ :: _, h, _ => by simp [blt] at h
  | _ :: _, [], _, h => by simp [blt] at h
  | a :: as, b :: bs, h1, h2 => by
    have n1 : ¬ (blt (a :: as) (b :: bs) = true) := by simp [h1]
    have n2 : ¬ (blt (b :: bs) (a :: as) = true) := by simp [h2]
    rw [blt_cons] at n1 n2
    have hab : a = b := UInt8.toNat_inj.mp (by omega)
    subst hab
    have e := blt_tri as bs (by cases h : blt as bs <;> simp_all) (by cases h : blt bs as <;> simp_all)
    rw [e]

theorem blt_order : StrictOrder blt := ⟨blt_irrefl, blt_trans, blt_tri⟩

theorem sc_inj {a b : UInt8} (h : sc a = sc b) : a = b := by
  have ha := a.toNat_lt
  have hb := b.toNat_lt
  apply UInt8.toNat_inj.mp
  simp only [sc] at h
  omega

theorem sclt_order : StrictOrder sclt where
  irrefl a := by simp [sclt]
  trans a b c h1 h2 := by simp [sclt] at *; omega
  tri a b h1 h2 := by
    simp [sclt] at h1 h2
    exact sc_inj (by omega)

section generic
variable {K V : Type} {lt : K → K → Bool}

theorem StrictOrder.ne_of_lt (o : StrictOrder lt) {a b : K} (h : lt a b = true) : a ≠ b := by
  intro e; subst e; simp [o.irrefl] at h

theorem mem_insertSet (o : StrictOrder lt) (k x : K) : ∀ l : List K, x ∈ insertSet lt k l ↔ x = k ∨ x ∈ l
  | [] => by simp [insertSet]
  | y :: ys => by
    simp only [insertSet]
    split
    · simp
    · split
      · simp [mem_insertSet o k x ys]; constructor <;> (intro h; rcases h with h | h | h <;> simp [h])
      · rename_i h1 h2
        have : k = y := o.tri k y (by simpa using h1) (by simpa using h2)
        subst this; simp

theorem sorted_insertSet (o : StrictOrder lt) (k : K) : ∀ l : List K, SortedBy lt l → SortedBy lt (insertSet lt k l)
  | [], _ => by simp [insertSet, SortedBy]
  | y :: ys, h => by
    simp only [SortedBy, List.pairwise_cons] at h
    simp only [insertSet]
    split
    · rename_i hk
      simp only [SortedBy, List.pairwise_cons]
      refine ⟨?_, h⟩
      intro z hz
      rcases List.mem_cons.mp hz with rfl | hz
      · exact hk
      · exact o.trans _ _ _ hk (h.1 z hz)
    · split
      · rename_i hk1 hk2
        simp only [SortedBy, List.pairwise_cons]
        refine ⟨?_, sorted_insertSet o k ys h.2⟩
        intro z hz
        rcases (mem_insertSet o k z ys).mp hz with rfl | hz
        · exact hk2
        · exact h.1 z hz
      · simpa [SortedBy] using h

theorem SortedBy.nodup (o : StrictOrder lt) {l : List K} (h : SortedBy lt l) : l.Nodup := by
  unfold SortedBy at h
  exact h.imp (fun hab => o.ne_of_lt hab)

theorem upsert_keys (k : K) (f : V → V) (d : V) :
    ∀ m : List (K × V), (upsert lt k f d m).map (·.1) = insertSet lt k (m.map (·.1))
  | [] => by simp [upsert, insertSet]
  | e :: rest => by
    simp only [upsert, List.map_cons, insertSet]
    split
    · simp
    · split
      · simp [upsert_keys k f d rest]
      · simp

/-- an element of `upsert … m` is an old one, or the (re)written entry for `k` -/
theorem mem_upsert (o : StrictOrder lt) {k : K} {f : V → V} {d : V} {e : K × V} :
    ∀ {m : List (K × V)}, e ∈ upsert lt k f d m →
      e ∈ m ∨ (e.1 = k ∧ (e.2 = f d ∨ ∃ old, (k, old) ∈ m ∧ e.2 = f old))
  | [], h => by
    simp only [upsert, List.mem_singleton] at h
    subst h; simp
  | e' :: rest, h => by
    simp only [upsert] at h
    split at h
    · rcases List.mem_cons.mp h with rfl | h
      · simp
      · exact Or.inl h
    · split at h
      · rcases List.mem_cons.mp h with rfl | h
        · simp
        · rcases mem_upsert o h with h | ⟨h1, h2⟩
          · exact Or.inl (List.mem_cons_of_mem _ h)
          · refine Or.inr ⟨h1, ?_⟩
            rcases h2 with h2 | ⟨old, ho, h2⟩
            · exact Or.inl h2
            · exact Or.inr ⟨old, List.mem_cons_of_mem _ ho, h2⟩
      · rename_i h1 h2
        rcases List.mem_cons.mp h with rfl | h
        · have hk : k = e'.1 := o.tri k e'.1 (by simpa using h1) (by simpa using h2)
          exact Or.inr ⟨hk.symm, Or.inr ⟨e'.2, by simp [hk], rfl⟩⟩
        · exact Or.inl (List.mem_cons_of_mem _ h)

theorem sorted_upsert_keys (o : StrictOrder lt) (k : K) (f : V → V) (d : V) (m : List (K × V))
    (h : SortedBy lt (m.map (·.1))) : SortedBy lt ((upsert lt k f d m).map (·.1)) := by
  rw [upsert_keys]; exact sorted_insertSet o k _ h

theorem lookup_upsert_ne [BEq K] [LawfulBEq K] (o : StrictOrder lt) {k k' : K} (f : V → V) (d : V) (hne : k' ≠ k) :
    ∀ m : List (K × V), List.lookup k' (upsert lt k f d m) = List.lookup k' m
  | [] => by
    have hb : (k' == k) = false := by simpa using hne
    simp [upsert, List.lookup, hb]
  | e :: rest => by
    have hb : (k' == k) = false := by simpa using hne
    simp only [upsert]
    split
    · simp [List.lookup, hb]
    · split
      · obtain ⟨a, b⟩ := e
        simp only [List.lookup]
        split <;> simp_all [lookup_upsert_ne o f d hne rest]
      · rename_i h1 h2
        have hk : k = e.1 := o.tri k e.1 (by simpa using h1) (by simpa using h2)
        obtain ⟨a, b⟩ := e
        simp only at hk
        subst hk
        simp [List.lookup, hb]

theorem lookup_eq_none_of_lt [BEq K] [LawfulBEq K] (o : StrictOrder lt) {k : K} :
    ∀ m : List (K × V), (∀ x ∈ m.map (·.1), lt k x = true) → List.lookup k m = none
  | [], _ => rfl
  | (a, b) :: rest, h => by
    have ha : lt k a = true := h a (by simp)
    have : (k == a) = false := by simpa using o.ne_of_lt ha
    simp only [List.lookup, this]
    exact lookup_eq_none_of_lt o rest (fun x hx => h x (by simp at hx ⊢; exact Or.inr hx))

theorem lookup_upsert_self [BEq K] [LawfulBEq K] (o : StrictOrder lt) (k : K) (f : V → V) (d : V) :
    ∀ m : List (K × V), SortedBy lt (m.map (·.1)) →
      List.lookup k (upsert lt k f d m) = some (f ((List.lookup k m).getD d))
  | [], _ => by simp [upsert, List.lookup]
  | (a, b) :: rest, hs => by
    simp only [SortedBy, List.map_cons, List.pairwise_cons] at hs
    simp only [upsert]
    split
    · rename_i h1
      have hn : List.lookup k ((a, b) :: rest) = none :=
        lookup_eq_none_of_lt o _ (by
          intro x hx
          simp only [List.map_cons, List.mem_cons] at hx
          rcases hx with rfl | hx
          · exact h1
          · exact o.trans _ _ _ h1 (hs.1 x hx))
      rw [hn]
      simp [List.lookup]
    · split
      · rename_i h1 h2
        have : (k == a) = false := by simpa using (o.ne_of_lt h2).symm
        simp only [List.lookup, this]
        exact lookup_upsert_self o k f d rest hs.2
      · rename_i h1 h2
        have hk : k = a := o.tri k a (by simpa using h1) (by simpa using h2)
        subst hk
        simp [List.lookup]

theorem mem_of_lookup_eq_some [BEq K] [LawfulBEq K] {k : K} {v : V} :
    ∀ {m : List (K × V)}, List.lookup k m = some v → (k, v) ∈ m
  | [], h => by simp [List.lookup] at h
  | (a, b) :: rest, h => by
    simp only [List.lookup] at h
    split at h
    · rename_i hk
      have : k = a := by simpa using hk
      simp_all
    · exact List.mem_cons_of_mem _ (mem_of_lookup_eq_some h)

theorem lookup_eq_some_of_mem [BEq K] [LawfulBEq K] (o : StrictOrder lt) {k : K} {v : V} :
    ∀ {m : List (K × V)}, SortedBy lt (m.map (·.1)) → (k, v) ∈ m → List.lookup k m = some v
  | [], _, h => by simp at h
  | (a, b) :: rest, hs, h => by
    simp only [SortedBy, List.map_cons, List.pairwise_cons] at hs
    rcases List.mem_cons.mp h with h | h
    · cases h; simp [List.lookup]
    · have hlt : lt a k = true := hs.1 k (List.mem_map.mpr ⟨(k, v), h, rfl⟩)
      have : (k == a) = false := by simpa using (o.ne_of_lt hlt).symm
      simp only [List.lookup, this]
      exact lookup_eq_some_of_mem o hs.2 h

end generic

theorem idx?_eq_none_iff {k : Bytes} : ∀ {l : List Bytes}, idx? k l = none ↔ k ∉ l
  | [] => by simp [idx?]
  | x :: xs => by
    simp only [idx?]
    split
    · rename_i h; simp [h]
    · rename_i h
      simp only [Option.map_eq_none_iff, List.mem_cons, not_or]
      rw [idx?_eq_none_iff]
      constructor
      · intro h2; exact ⟨fun e => h e.symm, h2⟩
      · intro h2; exact h2.2

theorem getElem?_of_idx? {k : Bytes} : ∀ {l : List Bytes} {i : Nat}, idx? k l = some i → l[i]? = some k
  | [], _, h => by simp [idx?] at h
  | x :: xs, i, h => by
    simp only [idx?] at h
    split at h
    · rename_i hx; cases h; simp [hx]
    · simp only [Option.map_eq_some_iff] at h
      obtain ⟨j, hj, rfl⟩ := h
      simpa using getElem?_of_idx? hj

theorem idx?_of_getElem? {k : Bytes} : ∀ {l : List Bytes} {i : Nat}, l.Nodup → l[i]? = some k → idx? k l = some i
  | [], _, _, h => by simp at h
  | x :: xs, 0, _, h => by
    simp at h; simp [idx?, h]
  | x :: xs, i + 1, hn, h => by
    simp only [List.getElem?_cons_succ] at h
    simp only [List.nodup_cons] at hn
    have hk : k ∈ xs := List.mem_of_getElem? h
    have : x ≠ k := fun e => hn.1 (e ▸ hk)
    simp [idx?, this, idx?_of_getElem? hn.2 h]

theorem idx?_isSome_iff {k : Bytes} {l : List Bytes} : (idx? k l).isSome = true ↔ k ∈ l := by
  rw [← Decidable.not_iff_not]
  simp [← idx?_eq_none_iff]
end RimeModel.C09
