import RimeModel.C09.Model
import RimeModel.C09.Prism
/-!
C09 — specification vocabulary used by the property theorems (no executable model code here).
-/
namespace RimeModel.C09

/-- the laws a container comparison has to satisfy -/
structure StrictOrder {K : Type} (lt : K → K → Bool) : Prop where
  irrefl : ∀ a, lt a a = false
  trans : ∀ a b c, lt a b = true → lt b c = true → lt a c = true
  tri : ∀ a b, lt a b = false → lt b a = false → a = b

/-- strictly increasing w.r.t. `lt` -/
def SortedBy {K : Type} (lt : K → K → Bool) (l : List K) : Prop := l.Pairwise (fun a b => lt a b = true)

/-- spelling `k` denotes syllable `y` in the script -/
def Script.spells (S : Script) (k y : Bytes) : Prop :=
  ∃ v, S.get? k = some v ∧ y ∈ v.map (·.str)

/-- the vectors of a script built from a syllabary: non-empty, syllables of the syllabary only, no
syllable twice, no tips -/
def VecOK (syl : List Bytes) (v : List Spelling) : Prop :=
  v ≠ [] ∧ (∀ x ∈ v, x.str ∈ syl ∧ x.props.tips = []) ∧ (v.map (·.str)).Nodup

/-- well-formed script over a syllabary -/
def Script.WF (syl : List Bytes) (S : Script) : Prop :=
  SortedBy blt S.keys ∧ ∀ e ∈ S, VecOK syl e.2

/-- properties recorded for syllable `t` in a vector (first element with that `str`) -/
def propsOf (m : List Spelling) (t : Bytes) : Option Props :=
  (m.find? (fun z => z.str = t)).map (·.props)

/-- everything `Script::Merge(s, sp, v)` has to reconcile for syllable `t`: what the vector held
before, and one candidate per element of `v` naming `t` -/
def mergeCandidates (sp : Props) (v m : List Spelling) (t : Bytes) : List Props :=
  (propsOf m t).toList ++ (v.filter (fun x => x.str = t)).map (fun x => mergeProps sp x.props)

/-- lexicographic order of two strings of equal length by `char` (signed) order -/
def lexSc : Bytes → Bytes → Prop
  | a :: as, b :: bs => sc a < sc b ∨ (a = b ∧ lexSc as bs)
  | _, _ => False

/-- the order in which a breadth-first walk over a `char`-sorted alphabet meets strings:
shorter first, same length in `char`-lexicographic order -/
def bfsLt (x y : Bytes) : Prop := x.length < y.length ∨ (x.length = y.length ∧ lexSc x y)

/-- the result pair the trie reports for key `k` -/
def matchOf (keys : List Bytes) (k : Bytes) : Match := ⟨(idx? k keys).getD 0, k.length⟩

/-! concrete values used by the non-vacuity examples of Props/C09.lean -/
namespace Ex
/-- syllabary { "ab", "b" } -/
def syl0 : List Bytes := [[97, 98], [98]]
/-- `fuzz/^a//` as an abstract rule: "ab" ↦ "b" -/
def fuzzA : Rule := ⟨.fuzz, fun s => if s = [97, 98] then .applied [98] else .notApplied⟩
/-- `xform/^a//` -/
def xformA : Rule := ⟨.xform, fun s => if s = [97, 98] then .applied [98] else .notApplied⟩

end Ex

end RimeModel.C09
