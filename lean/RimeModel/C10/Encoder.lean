import RimeModel.C10.Model
import RimeModel.C10.Lemmas
/-!
C10 — the table translator with `translator/enable_encoder: true` (and `encode_commit_history`, `max_phrase_length`).

Ported from
  src/rime/gear/table_translator.cc   `TableTranslator::Memorize` (lines 315-360): a constructed element is "blessed"
                                      (its encoder prefix removed) before `UpdateEntry(…, 1)`; a commit entry of several
                                      elements is encoded as one phrase (value "1"); with `encode_commit_history` the tail
                                      of the commit history is encoded too (value "0"), longest phrase `max_phrase_length`
  src/rime/gear/unity_table_encoder.cc `CreateEntry` → `UserDictionary::UpdateEntry(entry, commits, kEncodedPrefix)`,
                                      `LookupPhrases` (the same `LookupWords` under the prefixed key), `Has/Add/RemovePrefix`
  src/rime/dict/user_dictionary.cc    `UpdateEntry(entry, commits, new_entry_prefix)` (lines 416-448): the record is fetched
                                      under the PLAIN key; only when there is none the prefix is put in front of the key —
                                      and the value written there starts from a fresh record, whatever the prefixed key held.

The rule-based encoder itself (src/rime/algo/encoder.cc, reverse lookup of every character) is an oracle: a function from
a phrase to the codes `CreateEntry` is called with, read off the implementation's own calls.  *Which* phrases are encoded,
with which value, in which order, and what that does to the user db is the model's.
-/
namespace RimeModel.C10

/-- `kEncodedPrefix` = `"\x7f" "enc" "\x1f"` -/
def encPrefix : Bytes := [0x7f, 0x65, 0x6e, 0x63, 0x1f]

/-- `stripPrefix p s` = `some rest` when `s = p ++ rest` -/
def stripPrefix : Bytes → Bytes → Option Bytes
  | [], s => some s
  | _ :: _, [] => none
  | p :: ps, c :: cs => if p = c then stripPrefix ps cs else none

/-- `UnityTableEncoder::HasPrefix(custom_code)`: the code string starts with the prefix, i.e. its first spelling does -/
def Key.constructed (k : Key) : Bool :=
  match k.code with
  | c :: _ => (stripPrefix encPrefix c).isSome
  | [] => false

/-- `UnityTableEncoder::AddPrefix` / `key.insert(0, new_entry_prefix)` -/
def Key.addPrefix (k : Key) : Key :=
  { k with code := match k.code with
                   | c :: r => (encPrefix ++ c) :: r
                   | [] => [encPrefix] }

/-- `UnityTableEncoder::RemovePrefix` on a copy of the entry (`blessed`); a plain key is left alone -/
def Key.bless (k : Key) : Key :=
  match k.code with
  | c :: r =>
    match stripPrefix encPrefix c with
    | some c' => { k with code := c' :: r }
    | none => k
  | [] => k

variable {D : Type}

/-- `UserDictionary::UpdateEntry(entry, commits, kEncodedPrefix)`; returns the key actually written -/
def UD.updateEntryPrefixed (ops : DeeOps D) (u : UD D) (k : Key) (n : Int) : UD D × Key :=
  match u.fetch k with
  | some _ => (u.updateEntry ops k n, k)
  | none =>
    -- `v` stays default-constructed; the key gets the prefix; the prefixed key is never fetched
    let r := updateValue ops u.tick none n
    let u1 := if n > 0 then ({ u with tick := r.2 } : UD D).write (Put.tick r.2) else u
    (u1.write (Put.entry k.addPrefix r.1), k.addPrefix)

/-- what the prefixed branch of `UpdateEntry(entry, n, prefix)` appends to the open write batch -/
theorem updateEntryPrefixed_none (ops : DeeOps D) (u : UD D) (k : Key) (n : Int) (h : u.inTxn = true)
    (hf : u.fetch k = none) :
    ∃ b, (u.updateEntryPrefixed ops k n).2 = k.addPrefix ∧
      (u.updateEntryPrefixed ops k n).1.batch = u.batch ++ b ∧
      (u.updateEntryPrefixed ops k n).1.durable = u.durable ∧
      lastEntry b k.addPrefix = some (updateValue ops u.tick none n).1 ∧
      ∀ k', k' ≠ k.addPrefix → lastEntry b k' = none := by
  unfold UD.updateEntryPrefixed
  rw [hf]
  by_cases hn : n > 0
  · refine ⟨[Put.tick (updateValue ops u.tick none n).2, Put.entry k.addPrefix (updateValue ops u.tick none n).1], rfl, ?_, ?_,
      lastEntry_tick_entry_self _ _ _, fun k' hk' => lastEntry_tick_entry_ne _ _ _ _ (fun e => hk' e.symm)⟩
    · simp [if_pos hn, UD.write, h]
    · simp [if_pos hn, UD.write, h]
  · refine ⟨[Put.entry k.addPrefix (updateValue ops u.tick none n).1], rfl, ?_, ?_,
      lastEntry_entry_self _ _, fun k' hk' => lastEntry_entry_ne _ _ _ (fun e => hk' e.symm)⟩
    · simp [if_neg hn, UD.write, h]
    · simp [if_neg hn, UD.write, h]

structure EncCfg where
  /-- `translator/encode_commit_history` -/
  commitHistory : Bool
  /-- `translator/max_phrase_length` -/
  maxPhraseLength : Int
deriving Repr

/-- `utf8::unchecked::distance`: the number of bytes that are not continuation bytes -/
def utf8Length (b : Bytes) : Nat := (b.filter fun c => c &&& 0xC0 ≠ 0x80).length

/-- commit-record types the history loop walks over -/
def isTableType (t : String) : Bool := t == "table" || t == "user_table" || t == "sentence" || t == "uniquified"

/-- the loop of table_translator.cc:340-355 over the records newest first; `phrase` = what has been joined so far -/
def historyLoop (maxLen : Int) : List (String × Bytes) → Bytes → List Bytes
  | [], _ => []
  | (ty, tx) :: rest, phrase =>
    if !isTableType ty then []
    else if phrase.isEmpty then historyLoop maxLen rest tx
    else
      let p := tx ++ phrase
      if (utf8Length p : Int) > maxLen then [] else p :: historyLoop maxLen rest p

/-- the phrases of the commit history that get encoded (value "0"), in order; a trailing punctuation record is skipped -/
def historyPhrases (maxLen : Int) (newestFirst : List (String × Bytes)) : List Bytes :=
  match newestFirst with
  | [] => []
  | (ty, _) :: rest => historyLoop maxLen (if ty == "punct" then rest else newestFirst) []

/-- the `EncodePhrase(phrase, value)` calls of one `Memorize` (with the encoder loaded): `true` = value "1" -/
def encodeCalls (cfg : EncCfg) (hist : List (String × Bytes)) (c : CommitEntry) : List (Bytes × Bool) :=
  (if c.elements.length > 1 then [(c.text, true)] else []) ++
  (if cfg.commitHistory then (historyPhrases cfg.maxPhraseLength hist).map (fun p => (p, false)) else [])

/-- an `UpdateEntry` call of `Memorize` with the encoder: directly (2 arguments) or through `CreateEntry` (with the prefix) -/
inductive Upd where
  | plain (k : Key) (n : Int)
  | enc (k : Key) (n : Int)
deriving Repr

/-- `TableTranslator::Memorize` with a loaded encoder; `oracle phrase` = the codes the encoder derives for the phrase -/
def memorizeTableEnc (cfg : EncCfg) (oracle : Bytes → List Bytes) (hist : List (String × Bytes)) (c : CommitEntry) : List Upd :=
  c.elements.map (fun e => Upd.plain e.key.bless 1) ++
  (encodeCalls cfg hist c).flatMap (fun pc =>
    (oracle pc.1).map fun code => Upd.enc { code := [code], text := pc.1 } (if pc.2 then 1 else 0))

/-- one update; the second component collects the keys written, with the count passed -/
def UD.applyUpd (ops : DeeOps D) (s : UD D × List (Key × Int)) (x : Upd) : UD D × List (Key × Int) :=
  match x with
  | Upd.plain k n => (s.1.updateEntry ops k n, s.2 ++ [(k, n)])
  | Upd.enc k n =>
    let r := s.1.updateEntryPrefixed ops k n
    (r.1, s.2 ++ [(r.2, n)])

/-- `Memory::OnCommit` for a table translator with a loaded encoder: the new state and the keys written in order -/
def UD.onCommitEnc (ops : DeeOps D) (cfg : EncCfg) (oracle : Bytes → List Bytes) (hist : List (String × Bytes))
    (u : UD D) (segs : List Seg) (now : Int) : UD D × List (Key × Int) :=
  ((groupCommit segs).flatMap (memorizeTableEnc cfg oracle hist)).foldl (UD.applyUpd ops) (u.newTransaction now, [])

end RimeModel.C10
