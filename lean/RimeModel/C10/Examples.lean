import RimeModel.C10.Model
/-! C10 — small concrete values used by the non-vacuity `example`s of `Props/C10` (a trivial `DeeOps`
instance the kernel can run, two entries, two selections). -/
namespace RimeModel.C10.Examples

variable {D : Type}

/-- a trivial instance of the floating-point part: no dee, weight = the commit count -/
def unitOps : DeeOps Unit := { zero := (), formulaD := fun _ _ _ _ => (), weight := fun v _ => v.commits }

def eA : Entry := { text := [65], code := [[97]] }
def eA2 : Entry := { text := [90], code := [[97]] }
def eBC : Entry := { text := [66, 67], code := [[98], [99]] }
def selA : Sel := { recognized := true, entry := eA, comps := none }
def selA2 : Sel := { recognized := true, entry := eA2, comps := none }
def selBC : Sel := { recognized := true, entry := eBC, comps := none }

/-- a user dictionary in which `A2` (code `a`) has been committed twice and `A` once -/
def uTwo : UD Unit :=
  let u0 : UD Unit := UD.empty
  let u1 := (u0.onCommit unitOps Style.script (selectedSegs [] selA2) 0).commitPending
  let u2 := (u1.onCommit unitOps Style.script (selectedSegs [] selA2) 0).commitPending
  (u2.onCommit unitOps Style.script (selectedSegs [] selA) 0).commitPending

/-! ### the behaviour before the fix `let a user db transaction read its own pending writes`
(kept as documented history): `LevelDb::Fetch` read the durable db only -/

/-- `UpdateEntry` as it was: the fetch does not see the open write batch -/
def oldUpdateEntry (ops : DeeOps D) (u : UD D) (k : Key) (n : Int) : UD D :=
  let r := updateValue ops u.tick (u.durable.get? k) n
  let u1 := if n > 0 then ({ u with tick := r.2 } : UD D).write (Put.tick r.2) else u
  u1.write (Put.entry k r.1)

/-- the durable db after a commit and the closing of its transaction, as it was -/
def oldAfterCommit (ops : DeeOps D) (st : Style) (u : UD D) (segs : List Seg) (now : Int) : Db D :=
  (((commitUpdates st segs).foldl (fun u p => oldUpdateEntry ops u p.1 p.2) (u.newTransaction now)).commitPending).durable

/-- the composition `A` · raw segment · `BC` · `A` (statuses guess, guess, selected, confirmed) -/
def lostUpdateSegs : List Seg :=
  [{ status := 1, sel := some selA }, { status := 1, sel := none },
   { status := 2, sel := some selBC }, { status := 3, sel := some selA }]

end RimeModel.C10.Examples
