import RimeModel.C10.Model
/-! C10 — small concrete values used by the non-vacuity `example`s of `Props/C10` (a trivial `DeeOps`
instance the kernel can run, two entries, two selections). -/
namespace RimeModel.C10.Examples

variable {D : Type}

/-- a trivial instance of the floating-point part: no dee, weight = the commit count -/
def unitOps : DeeOps Unit := { zero := (), formulaD := fun _ _ _ _ => (), weight := fun v _ => v.commits }

def eA : Entry := { text := [65], code := [[97]] }
def eA2 : Entry := { text := [90], code := [[97]] }
def eBC : Entry := { text := [66, 67], code := [[98], [99]] }
def selA : Sel := { recognized := true, entry := eA, comps := none }
def selA2 : Sel := { recognized := true, entry := eA2, comps := none }
def selBC : Sel := { recognized := true, entry := eBC, comps := none }

/-- a user dictionary in which `A2` (code `a`) has been committed twice and `A` once -/
def uTwo : UD Unit :=
  let u0 : UD Unit := UD.empty
  let u1 := (u0.onCommit unitOps Style.script (selectedSegs [] selA2) 0).commitPending
  let u2 := (u1.onCommit unitOps Style.script (selectedSegs [] selA2) 0).commitPending
  (u2.onCommit unitOps Style.script (selectedSegs [] selA) 0).commitPending

/-! ### the behaviour before the fix `let a user db transaction read its own pending writes`
(kept as documented history): `LevelDb::Fetch` read the durable db only -/

/-- `UpdateEntry` as it was: the fetch does not see the open write batch -/
def oldUpdateEntry (ops : DeeOps D) (u : UD D) (k : Key) (n : Int) : UD D :=
  let r := updateValue ops u.tick (u.durable.get? k) n
  let u1 := if n > 0 then ({ u with tick := r.2 } : UD D).write (Put.tick r.2) else u
  u1.write (Put.entry k r.1)

/-- the durable db after a commit and the closing of its transaction, as it was -/
def oldAfterCommit (ops : DeeOps D) (st : Style) (u : UD D) (segs : List Seg) (now : Int) : Db D :=
  (((commitUpdates st segs).foldl (fun u p => oldUpdateEntry ops u p.1 p.2) (u.newTransaction now)).commitPending).durable

/-- the composition `A` · raw segment · `BC` · `A` (statuses guess, guess, selected, confirmed) -/
def lostUpdateSegs : List Seg :=
  [{ status := 1, sel := some selA }, { status := 1, sel := none },
   { status := 2, sel := some selBC }, { status := 3, sel := some selA }]

/-! ### the table-style witness `corpus/C10/table_sentence_recomposed.json`
input `dcccccc`; table rows 天/要 `dcc`, 土 `ccc`, 方 `c`, 低/擦/萌 `d` (texts abbreviated to one byte each) -/

def cDcc : Bytes := [100, 99, 99]
def cCcc : Bytes := [99, 99, 99]
def cC : Bytes := [99]
def eTian : Entry := { text := [1], code := [cDcc] }
def eTu : Entry := { text := [2], code := [cCcc] }
def eFang : Entry := { text := [3], code := [cC] }
/-- the composed sentence 天土方 the user commits (a table-style sentence has no code of its own) -/
def selSentence : Sel :=
  { recognized := true, entry := { text := [1, 2, 3], code := [] }, comps := some [eTian, eTu, eFang] }
def sentenceSegs : List Seg := [{ status := 3, sel := some selSentence }]
def sys (t : UInt8) : Cand := { text := [t], user := false, sentence := false }
/-- table entries of the prefixes `dcc` (天, 要) and `d` (低, 擦, 萌); the other prefixes have none -/
def sysDcc : List Cand := [sys 1, sys 4]
def sysD : List Cand := [sys 5, sys 6, sys 7]
/-- the list for `dcccccc` out of a user db, given what sentence composition (Poet — outside the model) answers -/
def witnessList (db : Db Unit) (sentence : Bytes) : List Cand :=
  tableSentenceList (some sentence)
    [(sortByWeight (userExact unitOps db 1 [cDcc]), sysDcc), (sortByWeight (userExact unitOps db 1 [[100]]), sysD)]

end RimeModel.C10.Examples
