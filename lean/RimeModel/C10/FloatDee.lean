import RimeModel.C10.Model
/-!
C10 — the `DeeOps` instance the *driver* runs: `dee` as an IEEE double (`Float`) with
`formula_d` / `formula_p` of src/rime/algo/dynamics.h, the `%g` round trip of `UserDbValue::Pack` /
`Unpack` (six significant digits, `min(10000, ·)`), and the weight of `CreateDictEntry` mapped to an
order-isomorphic integer (the bit pattern of the double).  Nothing is proved about this instance (Float
operations are opaque to the kernel): the theorems of `Props/C10` hold for every `DeeOps` (ranking under
explicit order hypotheses, sampled numerically by the harness on the real formulas), and this instance
is only ever *compared* with the real code — dee numerically with a tolerance, weights only through the
candidate order they induce.
-/
namespace RimeModel.C10.FloatDee

/-- exact decomposition of a positive finite double: x = m · 2^e -/
def decode (x : Float) : Nat × Int :=
  let b := x.toBits.toNat
  let ex : Nat := (b / 2 ^ 52) % 2048
  let fr : Nat := b % 2 ^ 52
  if ex == 0 then (fr, -1074) else (fr + 2 ^ 52, (ex : Int) - 1075)

def numDigits (n : Nat) : Nat := (toString n).length

/-- smallest k ≤ fuel with p·10^k ≥ q -/
def scaleUp : Nat → Nat → Nat → Nat → Nat
  | 0, _, _, k => k
  | fuel + 1, p, q, k => if p ≥ q then k else scaleUp fuel (p * 10) q (k + 1)

/-- the value `strtod (printf "%g" x)` for a positive finite rational p/q: six significant decimal
digits, round-half-even on the exact value -/
def round6Pos (p q : Nat) : Float :=
  let e10 : Int := if p ≥ q then (numDigits (p / q) : Int) - 1 else -((scaleUp 400 p q 0 : Nat) : Int)
  let num := if e10 ≤ 5 then p * 10 ^ (5 - e10).toNat else p
  let den := if e10 ≤ 5 then q else q * 10 ^ (e10 - 5).toNat
  let qd := num / den
  let r := num % den
  let m := if 2 * r > den || (2 * r == den && qd % 2 == 1) then qd + 1 else qd
  -- value = m · 10^(e10 - 5)
  let ex := e10 - 5
  if ex ≥ 0 then Float.ofScientific (m * 10 ^ ex.toNat) false 0 else Float.ofScientific m true (-ex).toNat

/-- `Unpack (Pack v)` on the dee field: `min(10000.0, stod("%g"))` -/
def round6 (x : Float) : Float :=
  if x.isNaN || x.isInf then x
  else if x == 0.0 then 0.0
  else
    let neg := x < 0.0
    let (m, e) := decode (if neg then -x else x)
    let y := if e ≥ 0 then round6Pos (m * 2 ^ e.toNat) 1 else round6Pos m (2 ^ (-e).toNat)
    let y := if neg then -y else y
    if y < 10000.0 then y else 10000.0

def natF (n : Nat) : Float := n.toFloat

/-- `algo::formula_d(d, t, da, ta) = d + da * exp((ta - t) / 200)`, then stored through `%g` -/
def formulaDRaw (d : Float) (t : Nat) (da : Float) (ta : Nat) : Float :=
  d + da * Float.exp ((natF ta - natF t) / 200.0)

def incF : Inc → Float
  | Inc.commits n => Float.ofInt n
  | Inc.touch => 0.1
  | Inc.zero => 0.0

def kM : Float := 1.0 / (1.0 - Float.exp (-0.005))

/-- `algo::formula_p(s, u, t, d)` -/
def formulaP (s u t d : Float) : Float :=
  let m := s - (s - u) * Float.pow (1.0 - Float.exp (-t / 10000.0)) 10.0
  if d < 20.0 then m + (0.5 - m) * (d / kM) else m + (1.0 - m) * (Float.pow 4.0 (d / kM) - 1.0) / 3.0

def dblEpsilon : Float := 2.220446049250313e-16

/-- the `weight` of `CreateDictEntry` (credibility left out: it is the same for all entries compared) -/
def weightF (v : Value Float) (present : Nat) : Float :=
  let dee := if v.tick < present then formulaDRaw 0.0 present v.dee v.tick else v.dee
  let w := formulaP 0.0 (Float.ofInt v.commits / natF present) (natF present) dee
  Float.log (if w > 0.0 then w else dblEpsilon)

/-- order-isomorphic image of a non-NaN double in the integers -/
def orderKey (x : Float) : Int :=
  let b := x.toBits.toNat
  if b < 2 ^ 63 then (b : Int) else -((b - 2 ^ 63 : Nat) : Int)

def ops : DeeOps Float :=
  { zero := 0.0
    formulaD := fun inc t da ta => round6 (formulaDRaw (incF inc) t da ta)
    weight := fun v present => orderKey (weightF v present) }

end RimeModel.C10.FloatDee
