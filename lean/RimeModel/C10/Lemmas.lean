import RimeModel.C10.Model
/-! C10 — helper lemmas: the key → value map, the write batch, `UpdateEntry` inside a transaction. -/
namespace RimeModel.C10

variable {D : Type}

/-! ### Db -/

theorem Db.get?_cons (p : Key × Value D) (db : Db D) (k : Key) :
    Db.get? (p :: db) k = if p.1 = k then some p.2 else Db.get? db k := rfl

theorem Db.get?_filter_ne (db : Db D) (k k' : Key) (h : k' ≠ k) :
    Db.get? (db.filter (fun p => p.1 ≠ k)) k' = Db.get? db k' := by
  induction db with
  | nil => rfl
  | cons p rest ih =>
    rw [List.filter_cons]
    by_cases hp : p.1 = k
    · have hne : p.1 ≠ k' := fun e => h (e.symm.trans hp)
      have hd : decide (p.1 ≠ k) = false := by simp [hp]
      rw [hd, Db.get?_cons, if_neg hne]
      simpa using ih
    · have hd : decide (p.1 ≠ k) = true := by simp [hp]
      rw [hd]
      simp only [if_true, Db.get?_cons]
      rw [ih]

theorem Db.get?_put_self (db : Db D) (k : Key) (v : Value D) : (db.put k v).get? k = some v := by
  simp [Db.put, Db.get?_cons]

theorem Db.get?_put_ne (db : Db D) (k k' : Key) (v : Value D) (h : k' ≠ k) :
    (db.put k v).get? k' = db.get? k' := by
  have hne : k ≠ k' := fun e => h e.symm
  unfold Db.put
  rw [Db.get?_cons, if_neg hne]
  exact Db.get?_filter_ne db k k' h

theorem Db.count_put_self (db : Db D) (k : Key) (v : Value D) : (db.put k v).count k = v.commits := by
  simp [Db.count, Db.get?_put_self]

theorem Db.count_put_ne (db : Db D) (k k' : Key) (v : Value D) (h : k' ≠ k) :
    (db.put k v).count k' = db.count k' := by
  simp [Db.count, Db.get?_put_ne db k k' v h]

/-- membership in terms of `get?` when keys are distinct -/
theorem Db.get?_of_mem (db : Db D) (hn : db.keys.Nodup) (k : Key) (v : Value D) (h : (k, v) ∈ db) :
    db.get? k = some v := by
  induction db with
  | nil => cases h
  | cons p rest ih =>
    simp only [Db.keys, List.map_cons, List.nodup_cons] at hn
    rcases List.mem_cons.1 h with e | hm
    · subst e; simp [Db.get?_cons]
    · have hne : p.1 ≠ k := by
        intro e
        apply hn.1
        rw [e]
        exact List.mem_map.2 ⟨(k, v), hm, rfl⟩
      simp [Db.get?_cons, hne, ih hn.2 hm]

theorem Db.mem_of_get? (db : Db D) (k : Key) (v : Value D) (h : db.get? k = some v) : (k, v) ∈ db := by
  induction db with
  | nil => cases h
  | cons p rest ih =>
    rw [Db.get?_cons] at h
    by_cases hp : p.1 = k
    · simp [hp] at h
      have : p = (k, v) := by cases p; simp_all
      rw [this]; exact List.mem_cons_self
    · simp [hp] at h
      exact List.mem_cons_of_mem _ (ih h)

theorem Db.keys_put_nodup (db : Db D) (hn : db.keys.Nodup) (k : Key) (v : Value D) : (db.put k v).keys.Nodup := by
  simp only [Db.put, Db.keys, List.map_cons, List.nodup_cons]
  constructor
  · intro hm
    rcases List.mem_map.1 hm with ⟨p, hp, e⟩
    have := (List.mem_filter.1 hp).2
    simp [e] at this
  · exact List.Nodup.sublist (List.Sublist.map _ List.filter_sublist) hn

/-! ### the write batch -/

theorem lastEntry_append (b1 b2 : List (Put D)) (k : Key) :
    lastEntry (b1 ++ b2) k = match lastEntry b2 k with
      | some v => some v
      | none => lastEntry b1 k := by
  induction b1 with
  | nil => simp [lastEntry]; cases lastEntry b2 k <;> rfl
  | cons p rest ih =>
    simp only [List.cons_append, lastEntry, ih]
    cases lastEntry b2 k <;> rfl

theorem applyBatch_get? (b : List (Put D)) (s : Db D × Nat) (k : Key) :
    (applyBatch s b).1.get? k = match lastEntry b k with
      | some v => some v
      | none => s.1.get? k := by
  induction b generalizing s with
  | nil => rfl
  | cons p rest ih =>
    have : applyBatch s (p :: rest) = applyBatch (applyPut s p) rest := rfl
    rw [this, ih]
    simp only [lastEntry]
    cases hl : lastEntry rest k with
    | some v => rfl
    | none =>
      cases p with
      | entry k' v =>
        by_cases hk : k' = k
        · subst hk; simp [applyPut, Db.get?_put_self]
        · have : k ≠ k' := fun e => hk e.symm
          simp [applyPut, hk, Db.get?_put_ne _ k' k v this]
      | tick n => simp [applyPut]

/-! ### `UpdateEntry` -/

/-- the stored count `UpdateEntry(entry, n)` writes, as a function of the fetched count -/
def newCount (c n : Int) : Int :=
  if n > 0 then (if c < 0 then -c else c) + n
  else if n = 0 then c
  else min (-1) (-c)

theorem baseValue_commits (ops : DeeOps D) (tick : Nat) (old : Option (Value D)) :
    (baseValue ops tick old).commits = match old with
      | some v => v.commits
      | none => 0 := by
  cases old with
  | none => rfl
  | some v => simp only [baseValue]; split <;> rfl

theorem updateValue_commits (ops : DeeOps D) (tick : Nat) (old : Option (Value D)) (n : Int) :
    (updateValue ops tick old n).1.commits =
      newCount (match old with
        | some v => v.commits
        | none => 0) n := by
  simp only [updateValue, newCount]
  rw [← baseValue_commits ops tick old]
  by_cases h1 : n > 0
  · simp [h1, valueCommit]
  · by_cases h2 : n = 0
    · simp [h2, valueTouch]
    · simp [h1, h2, valueDelete]

/-- the `commits` arguments of the `UpdateEntry` calls for key `k`, in order -/
def updatesOf (ups : List (Key × Int)) (k : Key) : List Int :=
  (ups.filter (fun p => p.1 = k)).map (·.2)

theorem updatesOf_cons (p : Key × Int) (rest : List (Key × Int)) (k : Key) :
    updatesOf (p :: rest) k = if p.1 = k then p.2 :: updatesOf rest k else updatesOf rest k := by
  unfold updatesOf
  rw [List.filter_cons]
  by_cases h : p.1 = k <;> simp [h]

theorem updatesOf_nil_of_not_mem (ups : List (Key × Int)) (k : Key) (h : k ∉ ups.map (·.1)) :
    updatesOf ups k = [] := by
  induction ups with
  | nil => rfl
  | cons p rest ih =>
    simp only [List.map_cons, List.mem_cons, not_or] at h
    have hne : p.1 ≠ k := fun e => h.1 e.symm
    rw [updatesOf_cons, if_neg hne, ih h.2]

/-- stored count as `Fetch` sees it: 0 for an absent record -/
def UD.fetchCount (u : UD D) (k : Key) : Int :=
  match u.fetch k with
  | some v => v.commits
  | none => 0

theorem UD.write_inTxn (u : UD D) (p : Put D) (h : u.inTxn = true) :
    u.write p = { u with batch := u.batch ++ [p] } := by
  unfold UD.write
  rw [if_pos h]

theorem Db.count_eq (db : Db D) (k : Key) :
    db.count k = match db.get? k with
      | some v => v.commits
      | none => 0 := by
  unfold Db.count
  cases db.get? k <;> rfl

theorem fetch_eq (u' u : UD D) (b : List (Put D)) (hb : u'.batch = u.batch ++ b) (hd : u'.durable = u.durable)
    (k : Key) :
    u'.fetch k = match lastEntry b k with
      | some v => some v
      | none => u.fetch k := by
  unfold UD.fetch
  rw [hb, hd, lastEntry_append]
  cases lastEntry b k <;> rfl

theorem lastEntry_tick_entry_self (k : Key) (v : Value D) (n : Nat) :
    lastEntry [Put.tick n, Put.entry k v] k = some v := by simp [lastEntry]

theorem lastEntry_tick_entry_ne (k k' : Key) (v : Value D) (n : Nat) (h : k ≠ k') :
    lastEntry [Put.tick n, Put.entry k v] k' = none := by simp [lastEntry, h]

theorem lastEntry_entry_self (k : Key) (v : Value D) : lastEntry [Put.entry k v] k = some v := by simp [lastEntry]

theorem lastEntry_entry_ne (k k' : Key) (v : Value D) (h : k ≠ k') : lastEntry [Put.entry k v] k' = none := by
  simp [lastEntry, h]

/-- inside a transaction `UpdateEntry` leaves the durable db alone; through `Fetch` the key reads the new
record, every other key reads what it read before -/
theorem updateEntry_inTxn (ops : DeeOps D) (u : UD D) (k : Key) (n : Int) (h : u.inTxn = true) :
    (u.updateEntry ops k n).inTxn = true ∧ (u.updateEntry ops k n).durable = u.durable ∧
    (u.updateEntry ops k n).metaTick = u.metaTick ∧
    (u.updateEntry ops k n).fetchCount k = newCount (u.fetchCount k) n ∧
    (∀ k', k' ≠ k → (u.updateEntry ops k n).fetch k' = u.fetch k') := by
  have hc := updateValue_commits ops u.tick (u.fetch k) n
  have hfc : (match u.fetch k with
      | some v => v.commits
      | none => 0) = u.fetchCount k := rfl
  rw [hfc] at hc
  by_cases hn : n > 0
  · have e : u.updateEntry ops k n =
        { ({ u with tick := (updateValue ops u.tick (u.fetch k) n).2 } : UD D) with
            batch := u.batch ++ [Put.tick (updateValue ops u.tick (u.fetch k) n).2,
                                 Put.entry k (updateValue ops u.tick (u.fetch k) n).1] } := by
      unfold UD.updateEntry
      simp [if_pos hn, UD.write, h]
    have hb : (u.updateEntry ops k n).batch = u.batch ++ [Put.tick (updateValue ops u.tick (u.fetch k) n).2,
                                 Put.entry k (updateValue ops u.tick (u.fetch k) n).1] := by rw [e]
    have hd : (u.updateEntry ops k n).durable = u.durable := by rw [e]
    refine ⟨by rw [e]; exact h, hd, by rw [e], ?_, ?_⟩
    · unfold UD.fetchCount
      rw [fetch_eq _ u _ hb hd, lastEntry_tick_entry_self]
      exact hc
    · intro k' hk'
      rw [fetch_eq _ u _ hb hd, lastEntry_tick_entry_ne _ _ _ _ (fun e => hk' e.symm)]
  · have e : u.updateEntry ops k n =
        { u with batch := u.batch ++ [Put.entry k (updateValue ops u.tick (u.fetch k) n).1] } := by
      unfold UD.updateEntry
      simp [if_neg hn, UD.write, h]
    have hb : (u.updateEntry ops k n).batch = u.batch ++ [Put.entry k (updateValue ops u.tick (u.fetch k) n).1] := by
      rw [e]
    have hd : (u.updateEntry ops k n).durable = u.durable := by rw [e]
    refine ⟨by rw [e]; exact h, hd, by rw [e], ?_, ?_⟩
    · unfold UD.fetchCount
      rw [fetch_eq _ u _ hb hd, lastEntry_entry_self]
      exact hc
    · intro k' hk'
      rw [fetch_eq _ u _ hb hd, lastEntry_entry_ne _ _ _ (fun e => hk' e.symm)]

theorem fetchCount_congr (u u' : UD D) (k : Key) (h : u'.fetch k = u.fetch k) : u'.fetchCount k = u.fetchCount k := by
  unfold UD.fetchCount
  rw [h]

/-- all updates of one commit: the durable db is untouched; through `Fetch`, a key that is not updated reads
its old record, and the count of every key is the fold of its updates, in order, over the count it had -/
theorem applyUpdates_inTxn (ops : DeeOps D) (ups : List (Key × Int)) (u : UD D) (h : u.inTxn = true) :
    (u.applyUpdates ops ups).inTxn = true ∧ (u.applyUpdates ops ups).durable = u.durable ∧
    (u.applyUpdates ops ups).metaTick = u.metaTick ∧
    (∀ k, k ∉ ups.map (·.1) → (u.applyUpdates ops ups).fetch k = u.fetch k) ∧
    (∀ k, (u.applyUpdates ops ups).fetchCount k = (updatesOf ups k).foldl newCount (u.fetchCount k)) := by
  induction ups generalizing u with
  | nil => exact ⟨h, rfl, rfl, fun _ _ => rfl, fun _ => rfl⟩
  | cons p rest ih =>
    obtain ⟨ht, hd, hm, hck, hother⟩ := updateEntry_inTxn ops u p.1 p.2 h
    obtain ⟨ht2, hd2, hm2, hf2, hc2⟩ := ih (u.updateEntry ops p.1 p.2) ht
    refine ⟨ht2, hd2.trans hd, hm2.trans hm, ?_, ?_⟩
    · intro k hk
      simp only [List.map_cons, List.mem_cons, not_or] at hk
      show ((u.updateEntry ops p.1 p.2).applyUpdates ops rest).fetch k = _
      rw [hf2 k hk.2, hother k hk.1]
    · intro k
      show ((u.updateEntry ops p.1 p.2).applyUpdates ops rest).fetchCount k = _
      rw [hc2 k, updatesOf_cons]
      by_cases hp : p.1 = k
      · subst hp
        simp [hck]
      · have hne : k ≠ p.1 := fun e => hp e.symm
        simp only [hp, if_false]
        rw [fetchCount_congr _ _ k (hother k hne)]

/-! ### a whole commit -/

/-- after the transaction is closed, the durable db holds what `Fetch` read at the end of the commit -/
theorem afterCommit_get? (ops : DeeOps D) (st : Style) (u : UD D) (segs : List Seg) (now : Int) (k : Key) :
    (afterCommit ops st u segs now).get? k =
      ((u.newTransaction now).applyUpdates ops (commitUpdates st segs)).fetch k := by
  have h1 : (u.newTransaction now).inTxn = true := rfl
  obtain ⟨ht, _, _, _, _⟩ := applyUpdates_inTxn ops (commitUpdates st segs) (u.newTransaction now) h1
  have e : afterCommit ops st u segs now =
      (applyBatch (((u.newTransaction now).applyUpdates ops (commitUpdates st segs)).durable,
                   ((u.newTransaction now).applyUpdates ops (commitUpdates st segs)).metaTick)
                  ((u.newTransaction now).applyUpdates ops (commitUpdates st segs)).batch).1 := by
    unfold afterCommit UD.onCommit UD.commitPending
    rw [if_pos ht]
  rw [e, applyBatch_get?]
  rfl

theorem newTransaction_fetch (u : UD D) (now : Int) (k : Key) :
    (u.newTransaction now).fetch k = (beforeCommit u).get? k := rfl

/-- the count after a commit: the fold of the key's updates over the count the commit started from -/
theorem afterCommit_count (ops : DeeOps D) (st : Style) (u : UD D) (segs : List Seg) (now : Int) (k : Key) :
    (afterCommit ops st u segs now).count k =
      (updatesOf (commitUpdates st segs) k).foldl newCount ((beforeCommit u).count k) := by
  have h1 : (u.newTransaction now).inTxn = true := rfl
  obtain ⟨_, _, _, _, hc⟩ := applyUpdates_inTxn ops (commitUpdates st segs) (u.newTransaction now) h1
  have hk := hc k
  have e1 : (afterCommit ops st u segs now).count k =
      ((u.newTransaction now).applyUpdates ops (commitUpdates st segs)).fetchCount k := by
    rw [Db.count_eq, afterCommit_get?]
    rfl
  have e2 : (u.newTransaction now).fetchCount k = (beforeCommit u).count k := by
    rw [Db.count_eq]
    rfl
  rw [e1, hk, e2]

/-- updates of a commit are `0` (touch) or `1` -/
theorem commitUpdates_values (st : Style) (segs : List Seg) : ∀ p ∈ commitUpdates st segs, p.2 = 0 ∨ p.2 = 1 := by
  intro p hp
  unfold commitUpdates at hp
  rcases List.mem_flatMap.1 hp with ⟨c, _, hc⟩
  cases st with
  | script =>
    simp only [memorize, memorizeScript] at hc
    rcases List.mem_append.1 hc with h | h
    · split at h
      · rcases List.mem_map.1 h with ⟨e, _, rfl⟩; exact Or.inl rfl
      · cases h
    · simp only [List.mem_singleton] at h
      rw [h]; exact Or.inr rfl
  | table =>
    simp only [memorize, memorizeTable] at hc
    rcases List.mem_map.1 hc with ⟨e, _, rfl⟩
    exact Or.inr rfl

/-- number of `+1` updates in a list of update arguments -/
def ones (ns : List Int) : Nat := (ns.filter (· = 1)).length

theorem fold_newCount (ns : List Int) (h : ∀ n ∈ ns, n = 0 ∨ n = 1) (c : Int) :
    ns.foldl newCount c = if ones ns = 0 then c else (c.natAbs : Int) + ones ns := by
  induction ns generalizing c with
  | nil => simp [ones]
  | cons n rest ih =>
    have hrest : ∀ m ∈ rest, m = 0 ∨ m = 1 := fun m hm => h m (List.mem_cons_of_mem _ hm)
    rw [List.foldl_cons, ih hrest]
    rcases h n List.mem_cons_self with e | e
    · subst e
      have h0 : newCount c 0 = c := by simp [newCount]
      have ho : ones (0 :: rest) = ones rest := by simp [ones]
      rw [h0, ho]
    · subst e
      have h1 : newCount c 1 = (c.natAbs : Int) + 1 := by
        unfold newCount
        simp only [show (1 : Int) > 0 by decide, if_true]
        split <;> omega
      have ho : ones (1 :: rest) = ones rest + 1 := by simp [ones]
      rw [h1, ho]
      split <;> omega

/-! ### lookup -/

/-- `CreateDictEntry` yields nothing for a record marked deleted -/
theorem createDictEntry_deleted (ops : DeeOps D) (present : Nat) (exact : Bool) (p : Key × Value D)
    (h : p.2.commits < 0) : createDictEntry ops present exact p = none := by
  unfold createDictEntry visible
  have : ¬ (0 ≤ p.2.commits) := by omega
  simp [this]

theorem mem_userExact (ops : DeeOps D) (db : Db D) (present : Nat) (code : Code) (c : UCand) :
    c ∈ userExact ops db present code ↔
      ∃ v, (c.key, v) ∈ db ∧ c.key.code = code ∧ 0 ≤ v.commits ∧ c.weight = ops.weight v present ∧ c.exact = true := by
  unfold userExact
  rw [List.mem_filterMap]
  constructor
  · rintro ⟨p, hp, hc⟩
    rw [List.mem_filter] at hp
    unfold createDictEntry visible at hc
    by_cases hv : 0 ≤ p.2.commits
    · simp [hv] at hc
      subst hc
      exact ⟨p.2, hp.1, by simpa using hp.2, hv, rfl, rfl⟩
    · simp [hv] at hc
  · rintro ⟨v, hm, hcode, hv, hw, he⟩
    refine ⟨(c.key, v), List.mem_filter.2 ⟨hm, by simpa using hcode⟩, ?_⟩
    unfold createDictEntry visible
    simp [hv]
    cases c
    simp_all

theorem mem_insertByWeight (x y : UCand) (l : List UCand) : y ∈ insertByWeight x l ↔ y = x ∨ y ∈ l := by
  induction l with
  | nil => simp [insertByWeight]
  | cons z zs ih =>
    unfold insertByWeight
    split
    · simp
    · simp [ih]; constructor
      · rintro (h | h | h) <;> simp [h]
      · rintro (h | h | h) <;> simp [h]

theorem mem_sortByWeight (y : UCand) (l : List UCand) : y ∈ sortByWeight l ↔ y ∈ l := by
  induction l with
  | nil => simp [sortByWeight]
  | cons z zs ih =>
    have : sortByWeight (z :: zs) = insertByWeight z (sortByWeight zs) := rfl
    rw [this, mem_insertByWeight, ih]
    simp

theorem mem_rotateExact (y : UCand) (l : List UCand) (h : y ∈ rotateExact l) : y ∈ l := by
  unfold rotateExact at h
  split at h
  · exact h
  · split at h
    · exact h
    · split at h
      · rename_i e he
        rcases List.mem_cons.1 h with h | h
        · rw [h]; exact List.mem_of_find?_eq_some he
        · exact List.mem_of_mem_erase h
      · exact h

/-- a visible record is found by the scan for its code -/
theorem offered_of_visible (ops : DeeOps D) (db : Db D) (present : Nat) (k : Key) (v : Value D)
    (hg : db.get? k = some v) (hv : 0 ≤ v.commits) :
    ∃ c ∈ rotateExact (sortByWeight (userExact ops db present k.code)), c.key = k := by
  have hm : ({ key := k, weight := ops.weight v present, exact := true } : UCand) ∈ userExact ops db present k.code :=
    (mem_userExact ops db present k.code _).2 ⟨v, Db.mem_of_get? db k v hg, rfl, hv, rfl, rfl⟩
  have hs := (mem_sortByWeight _ _).2 hm
  -- rotation keeps every element
  generalize sortByWeight (userExact ops db present k.code) = l at hs
  refine ⟨{ key := k, weight := ops.weight v present, exact := true }, ?_, rfl⟩
  unfold rotateExact
  split
  · exact hs
  · split
    · exact hs
    · split
      · rename_i x rest hx e he
        by_cases heq : ({ key := k, weight := ops.weight v present, exact := true } : UCand) = e
        · rw [heq]; exact List.mem_cons_self
        · exact List.mem_cons_of_mem _ ((List.mem_erase_of_ne heq).2 hs)
      · exact hs

theorem get?_of_count_pos (db : Db D) (k : Key) (n : Int) (h : db.count k = n) (hn : 0 < n) :
    ∃ v, db.get? k = some v ∧ v.commits = n := by
  cases hg : db.get? k with
  | none =>
    have : db.count k = 0 := by unfold Db.count; rw [hg]
    omega
  | some v =>
    have : db.count k = v.commits := by unfold Db.count; rw [hg]
    exact ⟨v, rfl, by omega⟩


/-! ### grouping -/

theorem foldl_append_text (sels : List Sel) (c : CommitEntry) :
    (sels.foldl CommitEntry.append c).text = c.text ++ sels.flatMap (·.entry.text) := by
  induction sels generalizing c with
  | nil => simp
  | cons s rest ih => simp [List.foldl_cons, ih, CommitEntry.append, List.append_assoc]

theorem foldl_append_code (sels : List Sel) (c : CommitEntry) :
    (sels.foldl CommitEntry.append c).code = c.code ++ sels.flatMap (·.entry.code) := by
  induction sels generalizing c with
  | nil => simp
  | cons s rest ih => simp [List.foldl_cons, ih, CommitEntry.append, List.append_assoc]

theorem assemble_text (sels : List Sel) : (assemble sels).text = sels.flatMap (·.entry.text) := by
  simp [assemble, foldl_append_text, CommitEntry.empty]

theorem assemble_code (sels : List Sel) : (assemble sels).code = sels.flatMap (·.entry.code) := by
  simp [assemble, foldl_append_code, CommitEntry.empty]

theorem group_selected (init : List Sel) (hrec : ∀ s ∈ init, s.recognized = true)
    (cur : CommitEntry) (saved : List CommitEntry) :
    (init.map (fun s => ({ status := 2, sel := some s } : Seg))).foldl groupStep (cur, saved) =
      (init.foldl CommitEntry.append cur, saved) := by
  induction init generalizing cur with
  | nil => rfl
  | cons s rest ih =>
    have hs : s.recognized = true := hrec s List.mem_cons_self
    have step : groupStep (cur, saved) ({ status := 2, sel := some s } : Seg) = (cur.append s, saved) := by
      simp [groupStep, Seg.recognized, hs]
    simp only [List.map_cons, List.foldl_cons, step]
    exact ih (fun x hx => hrec x (List.mem_cons_of_mem _ hx)) _

theorem groupCommit_selected (init : List Sel) (last : Sel) (hrec : ∀ s ∈ init, s.recognized = true)
    (hlast : last.recognized = true) (hne : (assemble (init ++ [last])).text ≠ []) :
    groupCommit (selectedSegs init last) = [assemble (init ++ [last])] := by
  unfold groupCommit selectedSegs
  rw [List.foldl_append, group_selected init hrec]
  have e : assemble (init ++ [last]) = (init.foldl CommitEntry.append CommitEntry.empty).append last := by
    simp [assemble, List.foldl_append]
  rw [e] at hne
  have hne' : ((init.foldl CommitEntry.append CommitEntry.empty).append last).text.isEmpty = false := by
    cases h : ((init.foldl CommitEntry.append CommitEntry.empty).append last).text with
    | nil => exact absurd h hne
    | cons a b => rfl
  simp [groupStep, Seg.recognized, hlast, hne', e]

theorem commitUpdates_table_all_one (segs : List Seg) : ∀ p ∈ commitUpdates Style.table segs, p.2 = 1 := by
  intro p hp
  unfold commitUpdates at hp
  rcases List.mem_flatMap.1 hp with ⟨c, _, hc⟩
  simp only [memorize, memorizeTable, List.mem_map] at hc
  rcases hc with ⟨e, _, rfl⟩
  rfl

/-! ### how often a commit commits a key -/

theorem updatesOf_append (a b : List (Key × Int)) (k : Key) : updatesOf (a ++ b) k = updatesOf a k ++ updatesOf b k := by
  simp [updatesOf]

theorem ones_append (a b : List Int) : ones (a ++ b) = ones a + ones b := by
  simp [ones]

/-- number of `+1` updates the commit issues for key `k` -/
def commitTimes (st : Style) (segs : List Seg) (k : Key) : Nat := ones (updatesOf (commitUpdates st segs) k)

theorem ones_updatesOf_touches (es : List Entry) (k : Key) :
    ones (updatesOf (es.map (fun e => (e.key, (0 : Int)))) k) = 0 := by
  induction es with
  | nil => rfl
  | cons e rest ih =>
    rw [List.map_cons, updatesOf_cons]
    by_cases h : e.key = k
    · simp only [h, if_true]
      have : ones ((0 : Int) :: updatesOf (rest.map (fun e => (e.key, (0 : Int)))) k) =
          ones (updatesOf (rest.map (fun e => (e.key, (0 : Int)))) k) := by simp [ones]
      rw [this, ih]
    · simp only [h, if_false]
      exact ih

theorem ones_updatesOf_memorizeScript (c : CommitEntry) (k : Key) :
    ones (updatesOf (memorizeScript c) k) = if c.key = k then 1 else 0 := by
  unfold memorizeScript
  rw [updatesOf_append, ones_append]
  have h1 : ones (updatesOf (if (decide (c.elements.length > 1) && c.elements.any fun e => decide (e.code.length > 1)) = true
      then c.elements.map (fun e => (e.key, (0 : Int))) else []) k) = 0 := by
    split
    · exact ones_updatesOf_touches _ k
    · rfl
  rw [h1, updatesOf_cons]
  by_cases h : c.key = k <;> simp [h, ones, updatesOf]

theorem ones_updatesOf_ones (es : List Entry) (k : Key) :
    ones (updatesOf (es.map (fun e => (e.key, (1 : Int)))) k) = (es.filter (fun e => e.key = k)).length := by
  induction es with
  | nil => rfl
  | cons e rest ih =>
    rw [List.map_cons, updatesOf_cons, List.filter_cons]
    by_cases h : e.key = k
    · simp only [h, if_true, decide_true, List.length_cons]
      have : ones ((1 : Int) :: updatesOf (rest.map (fun e => (e.key, (1 : Int)))) k) =
          ones (updatesOf (rest.map (fun e => (e.key, (1 : Int)))) k) + 1 := by simp [ones]
      rw [this, ih]
    · simp only [h, if_false, decide_false]
      exact ih

/-- script style: a key is committed once per commit entry that carries it -/
theorem commitTimes_script (segs : List Seg) (k : Key) :
    commitTimes Style.script segs k = ((groupCommit segs).filter (fun c => c.key = k)).length := by
  unfold commitTimes commitUpdates
  generalize groupCommit segs = ces
  induction ces with
  | nil => rfl
  | cons c rest ih =>
    rw [List.flatMap_cons, updatesOf_append, ones_append, ih, List.filter_cons]
    simp only [memorize]
    rw [ones_updatesOf_memorizeScript]
    by_cases h : c.key = k <;> simp [h] <;> omega

/-- table style: a key is committed once per element occurrence -/
theorem commitTimes_table (segs : List Seg) (k : Key) :
    commitTimes Style.table segs k =
      (((groupCommit segs).flatMap (·.elements)).filter (fun e => e.key = k)).length := by
  unfold commitTimes commitUpdates
  generalize groupCommit segs = ces
  induction ces with
  | nil => rfl
  | cons c rest ih =>
    rw [List.flatMap_cons, updatesOf_append, ones_append, ih, List.flatMap_cons, List.filter_append, List.length_append]
    simp only [memorize, memorizeTable]
    rw [ones_updatesOf_ones]

end RimeModel.C10
