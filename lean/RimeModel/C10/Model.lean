/-!
C10 — learning: the user dictionary record algebra, the transaction layer `UpdateEntry` writes
through, the commit-entry grouping of `Memory::OnCommit`, `Memorize` of the script and table
translators, `CreateDictEntry`, and the user-vs-system merge of the candidate lists.

Ported line by line from
  src/rime/dict/user_dictionary.cc  (UpdateEntry, UpdateTickCount, FetchTickCount, NewTransaction,
                                     RevertRecentTransaction, CommitPendingTransaction, CreateDictEntry,
                                     LookupWords, Lookup: sort + rotate-exact-to-front)
  src/rime/dict/level_db.cc         (Update/MetaUpdate go to the write batch while a transaction is open;
                                     Fetch reads the pending writes of the batch first, then the durable db)
  src/rime/gear/memory.cc           (CommitEntry::AppendPhrase/Save/Clear, Memory::OnCommit, OnDeleteEntry,
                                     OnUnhandledKey)
  src/rime/gear/script_translator.cc (ScriptTranslator::Memorize, Query → FinishSession,
                                     ScriptTranslation::Evaluate/PrepareCandidate)
  src/rime/gear/table_translator.cc  (TableTranslator::Memorize, TableTranslation::PreferUserPhrase,
                                     SentenceTranslation::PreferUserPhrase)

Floating point: `dee` and the candidate weight are *parameters* (`DeeOps`).  The theorems hold for
every instance (under explicit order hypotheses where ranking is concerned); the driver runs the
instance `FloatDee` (IEEE doubles, `formula_d`/`formula_p` of src/rime/algo/dynamics.h), which is only
ever compared with the real code, never reasoned about.

Byte strings are `List UInt8`; a code is the list of its syllable spellings, the db key of an entry is
`spelling₁ ' ' … spellingₙ ' ' '\t' text` (user_dictionary.cc:419-422), which is injective on
(code, text) for spellings without space/tab — so the model keys the db by the pair.
-/
namespace RimeModel.C10

abbrev Bytes := List UInt8
abbrev Code := List Bytes

/-- the identity of a user-db record: `code_str + '\t' + text` -/
structure Key where
  code : Code
  text : Bytes
deriving DecidableEq, Repr

/-- `UserDbValue` (user_db.h): `c=<commits> d=<dee> t=<tick>` -/
structure Value (D : Type) where
  commits : Int
  dee : D
  tick : Nat
deriving Repr

/-- first argument of `formula_d` in `UpdateEntry`: `(double)commits`, the constant `0.1`, or `0.0` -/
inductive Inc where
  | commits (n : Int)
  | touch
  | zero
deriving DecidableEq, Repr

/-- the floating-point part of the record algebra, abstract.
`formulaD inc t da ta` = `algo::formula_d(inc, t, da, ta)`;
`weight v present` = the `weight` `CreateDictEntry` derives from a visible record at `present_tick`
(decay of `dee` to the present tick, `formula_p`, `log`), as the order rank of the double. -/
structure DeeOps (D : Type) where
  zero : D
  formulaD : Inc → Nat → D → Nat → D
  weight : Value D → Nat → Int

variable {D : Type}

/-- a default-constructed `UserDbValue` -/
def Value.fresh (ops : DeeOps D) : Value D := { commits := 0, dee := ops.zero, tick := 0 }

/-- the value `UpdateEntry` starts from: the fetched record with an abnormal (future) tick clamped
(user_dictionary.cc:425-429), or a fresh one -/
def baseValue (ops : DeeOps D) (tick : Nat) (old : Option (Value D)) : Value D :=
  match old with
  | some v => if v.tick > tick then { v with tick := tick } else v
  | none => Value.fresh ops

/-- `commits > 0` branch: revive, add, bump the tick count, then `formula_d(commits, tick_, dee, v.tick)` -/
def valueCommit (ops : DeeOps D) (tick : Nat) (v : Value D) (n : Int) : Value D :=
  { commits := (if v.commits < 0 then -v.commits else v.commits) + n
    dee := ops.formulaD (Inc.commits n) (tick + 1) v.dee v.tick
    tick := tick + 1 }

/-- `commits == 0` branch -/
def valueTouch (ops : DeeOps D) (tick : Nat) (v : Value D) : Value D :=
  { commits := v.commits
    dee := ops.formulaD Inc.touch tick v.dee v.tick
    tick := tick }

/-- `commits < 0` branch: `v.commits = (std::min)(-1, -v.commits)` -/
def valueDelete (ops : DeeOps D) (tick : Nat) (v : Value D) : Value D :=
  { commits := min (-1) (-v.commits)
    dee := ops.formulaD Inc.zero tick v.dee v.tick
    tick := tick }

/-- the record `UpdateEntry(entry, commits)` writes and the new `tick_`, given `tick_` and the fetched record -/
def updateValue (ops : DeeOps D) (tick : Nat) (old : Option (Value D)) (n : Int) : Value D × Nat :=
  let v := baseValue ops tick old
  if n > 0 then (valueCommit ops tick v n, tick + 1)
  else if n = 0 then (valueTouch ops tick v, tick)
  else (valueDelete ops tick v, tick)

/-! ## the key → value map -/

abbrev Db (D : Type) := List (Key × Value D)

def Db.get? (db : Db D) (k : Key) : Option (Value D) :=
  match db with
  | [] => none
  | p :: rest => if p.1 = k then some p.2 else Db.get? rest k

def Db.put (db : Db D) (k : Key) (v : Value D) : Db D :=
  (k, v) :: db.filter (fun p => p.1 ≠ k)

def Db.keys (db : Db D) : List Key := db.map (·.1)

/-- stored commit count, `0` for an absent record (a fresh `UserDbValue`) -/
def Db.count (db : Db D) (k : Key) : Int :=
  match db.get? k with
  | some v => v.commits
  | none => 0

/-! ## the transaction layer (LevelDb + UserDictionary members) -/

inductive Put (D : Type) where
  | entry (k : Key) (v : Value D)
  | tick (n : Nat)

/-- one `UserDictionary` over its `LevelDb` -/
structure UD (D : Type) where
  durable : Db D            -- what `Fetch` / cursors see
  metaTick : Nat            -- durable "\x01/tick"
  batch : List (Put D)      -- `leveldb::WriteBatch`, oldest first
  inTxn : Bool
  tick : Nat                -- member `tick_`
  txnTime : Int             -- `transaction_time_`

def UD.empty : UD D := { durable := [], metaTick := 0, batch := [], inTxn := false, tick := 0, txnTime := 0 }

def applyPut (s : Db D × Nat) (p : Put D) : Db D × Nat :=
  match p with
  | Put.entry k v => (s.1.put k v, s.2)
  | Put.tick n => (s.1, n)

def applyBatch (s : Db D × Nat) (b : List (Put D)) : Db D × Nat := b.foldl applyPut s

/-- `LevelDb::Update` / `MetaUpdate`: into the batch while a transaction is open, else straight to the db -/
def UD.write (u : UD D) (p : Put D) : UD D :=
  if u.inTxn then { u with batch := u.batch ++ [p] }
  else
    let r := applyPut (u.durable, u.metaTick) p
    { u with durable := r.1, metaTick := r.2 }

/-- `CommitPendingTransaction` -/
def UD.commitPending (u : UD D) : UD D :=
  if u.inTxn then
    let r := applyBatch (u.durable, u.metaTick) u.batch
    { u with durable := r.1, metaTick := r.2, batch := [], inTxn := false }
  else u

/-- `NewTransaction` (memory.cc StartSession) at wall-clock second `now` -/
def UD.newTransaction (u : UD D) (now : Int) : UD D :=
  let u := u.commitPending
  { u with txnTime := now, batch := [], inTxn := true }

/-- `RevertRecentTransaction`: the new state and whether something was reverted -/
def UD.revert (u : UD D) (now : Int) : UD D × Bool :=
  if !u.inTxn then (u, false)
  else if now - u.txnTime > 3 then (u, false)
  else ({ u with batch := [], inTxn := false }, true)

/-- what the pending write batch will do to key `k`: the record of its last `Put` for `k`
(level_db.cc `LevelDbWrapper::pending`, cleared together with the batch) -/
def lastEntry (b : List (Put D)) (k : Key) : Option (Value D) :=
  match b with
  | [] => none
  | p :: rest =>
    match lastEntry rest k with
    | some v => some v
    | none => match p with
      | Put.entry k' v => if k' = k then some v else none
      | Put.tick _ => none

/-- the last pending write of the tick count -/
def lastTick (b : List (Put D)) : Option Nat :=
  match b with
  | [] => none
  | p :: rest =>
    match lastTick rest with
    | some n => some n
    | none => match p with
      | Put.entry _ _ => none
      | Put.tick n => some n

/-- `LevelDb::Fetch`: a transaction reads its own pending writes first, then the durable db.
(Before the fix `let a user db transaction read its own pending writes` it read the durable db only; see
`Props.C10.old_lost_update_counterexample`.) -/
def UD.fetch (u : UD D) (k : Key) : Option (Value D) :=
  match lastEntry u.batch k with
  | some v => some v
  | none => u.durable.get? k

/-- `FetchTickCount` (`MetaFetch("/tick")`, through the same `Fetch`) -/
def UD.fetchTick (u : UD D) : UD D :=
  { u with tick := match lastTick u.batch with
                   | some n => n
                   | none => u.metaTick }

/-- `UserDictionary::UpdateEntry(entry, commits)`: `Fetch`, compute, write through `write` -/
def UD.updateEntry (ops : DeeOps D) (u : UD D) (k : Key) (n : Int) : UD D :=
  let r := updateValue ops u.tick (u.fetch k) n
  let u1 := if n > 0 then ({ u with tick := r.2 } : UD D).write (Put.tick r.2) else u
  u1.write (Put.entry k r.1)

/-- `Memory::OnUnhandledKey`: plain or shifted keys only; BackSpace tries to revert the recent
transaction, everything else (and a BackSpace outside the 3 s window) commits it -/
def UD.unhandledKey (u : UD D) (keycode : Nat) (modifiers : Nat) (now : Int) : UD D :=
  if modifiers / 2 ≠ 0 then u        -- (key.modifier() & ~kShiftMask) == 0 with kShiftMask = 1: no bit above bit 0
  else if keycode = 0xff08 then
    let r := u.revert now
    if r.2 then r.1 else u.commitPending
  else u.commitPending

/-! ## commit-entry grouping (memory.cc) -/

/-- the part of a `DictEntry` learning looks at -/
structure Entry where
  text : Bytes
  code : Code
deriving DecidableEq, Repr

def Entry.key (e : Entry) : Key := { code := e.code, text := e.text }

/-- the genuine selected candidate of a segment, as `Memory::OnCommit` sees it -/
structure Sel where
  /-- `Language::intelligible(phrase, this)`: it is a `Phrase` of this translator's language -/
  recognized : Bool
  entry : Entry
  /-- `some cs` for a `Sentence` (its `components()`), `none` for a plain phrase -/
  comps : Option (List Entry)
deriving Repr

/-- segment status: 0 kVoid, 1 kGuess, 2 kSelected, 3 kConfirmed -/
structure Seg where
  status : Nat
  sel : Option Sel
deriving Repr

structure CommitEntry where
  text : Bytes
  code : Code
  elements : List Entry
deriving DecidableEq, Repr

def CommitEntry.empty : CommitEntry := { text := [], code := [], elements := [] }

def CommitEntry.key (c : CommitEntry) : Key := { code := c.code, text := c.text }

/-- `CommitEntry::AppendPhrase` -/
def CommitEntry.append (c : CommitEntry) (s : Sel) : CommitEntry :=
  { text := c.text ++ s.entry.text
    code := c.code ++ s.entry.code
    elements := c.elements ++ (match s.comps with
                               | some cs => cs
                               | none => [s.entry]) }

def Seg.recognized (g : Seg) : Bool :=
  match g.sel with
  | some s => s.recognized
  | none => false

/-- one iteration of the loop of `Memory::OnCommit`; state = (entry under construction, entries saved) -/
def groupStep (st : CommitEntry × List CommitEntry) (g : Seg) : CommitEntry × List CommitEntry :=
  let cur := match g.sel with
    | some s => if s.recognized then st.1.append s else st.1
    | none => st.1
  if !g.recognized || g.status ≥ 3 then
    -- `Save()` memorizes only a non-empty entry; `Clear()`
    (CommitEntry.empty, if cur.text.isEmpty then st.2 else st.2 ++ [cur])
  else (cur, st.2)

/-- the commit entries `Memory::OnCommit` saves, in order (what is still under construction when the
loop ends is dropped, as in the code) -/
def groupCommit (segs : List Seg) : List CommitEntry :=
  (segs.foldl groupStep (CommitEntry.empty, [])).2

inductive Style where
  | script
  | table
deriving DecidableEq, Repr

/-- `ScriptTranslator::Memorize`: the `UpdateEntry` calls, in order -/
def memorizeScript (c : CommitEntry) : List (Key × Int) :=
  let updateElements := decide (c.elements.length > 1) && c.elements.any (fun e => decide (e.code.length > 1))
  (if updateElements then c.elements.map (fun e => (e.key, (0 : Int))) else []) ++ [(c.key, 1)]

/-- `TableTranslator::Memorize` without encoder: every element +1 -/
def memorizeTable (c : CommitEntry) : List (Key × Int) :=
  c.elements.map (fun e => (e.key, (1 : Int)))

def memorize (st : Style) (c : CommitEntry) : List (Key × Int) :=
  match st with
  | Style.script => memorizeScript c
  | Style.table => memorizeTable c

/-- all `UpdateEntry` calls of one `Memory::OnCommit` -/
def commitUpdates (st : Style) (segs : List Seg) : List (Key × Int) :=
  (groupCommit segs).flatMap (memorize st)

def UD.applyUpdates (ops : DeeOps D) (u : UD D) (ups : List (Key × Int)) : UD D :=
  ups.foldl (fun u p => u.updateEntry ops p.1 p.2) u

/-- `Memory::OnCommit` -/
def UD.onCommit (ops : DeeOps D) (st : Style) (u : UD D) (segs : List Seg) (now : Int) : UD D :=
  (u.newTransaction now).applyUpdates ops (commitUpdates st segs)

/-- `Memory::OnDeleteEntry` on a recognized candidate: `UpdateEntry(entry, -1)` (no transaction is opened) -/
def UD.onDelete (ops : DeeOps D) (u : UD D) (e : Entry) : UD D := u.updateEntry ops e.key (-1)

/-- translator `Query`: `FinishSession()`; the script translator's `UserDictionary::Lookup` then re-reads the
tick count — unless it returns early because the syllabifier interpreted nothing of the input (`lookup = false`);
the table translator's `LookupWords` never re-reads it -/
def UD.onQuery (st : Style) (u : UD D) (lookup : Bool) : UD D :=
  match st with
  | Style.script => if lookup then u.commitPending.fetchTick else u.commitPending
  | Style.table => u.commitPending

/-! ## lookup: `CreateDictEntry` and the candidate lists -/

/-- `CreateDictEntry` hides a record with `commits < 0` -/
def visible (v : Value D) : Bool := decide (0 ≤ v.commits)

/-- a user-dictionary candidate -/
structure UCand where
  key : Key
  weight : Int
  exact : Bool
deriving DecidableEq, Repr

/-- `CreateDictEntry` -/
def createDictEntry (ops : DeeOps D) (present : Nat) (exact : Bool) (p : Key × Value D) : Option UCand :=
  if visible p.2 then some { key := p.1, weight := ops.weight p.2 present, exact := exact } else none

/-- the entries a user-dictionary scan over keys with exactly this code recruits -/
def userExact (ops : DeeOps D) (db : Db D) (present : Nat) (code : Code) : List UCand :=
  (db.filter (fun p => p.1.code = code)).filterMap (createDictEntry ops present true)

/-- insertion into a list sorted by weight descending, in front of the first entry that does not outweigh
`x` — so `sortByWeight` is stable (what `std::sort` does on the short lists that occur; the theorems do
not depend on the order among equal weights) -/
def insertByWeight (x : UCand) : List UCand → List UCand
  | [] => [x]
  | y :: ys => if y.weight ≤ x.weight then x :: y :: ys else y :: insertByWeight x ys

/-- `DictEntryList::Sort` on weights (ties: see `Props.C10`, the theorems do not depend on the tie order) -/
def sortByWeight (xs : List UCand) : List UCand := xs.foldr insertByWeight []

/-- `UserDictionary::Lookup` post-processing (user_dictionary.cc:331-343): when the best entry is a
predictive match, the first exact match is rotated to the front -/
def rotateExact (xs : List UCand) : List UCand :=
  match xs with
  | [] => []
  | x :: _ =>
    if x.exact then xs
    else match xs.find? (·.exact) with
      | some e => e :: xs.erase e
      | none => xs

/-- a candidate as the merged list shows it -/
structure Cand where
  text : Bytes
  user : Bool        -- type user_phrase / user_table (or a completion out of the user dictionary)
  sentence : Bool
deriving DecidableEq, Repr

def UCand.toCand (u : UCand) : Cand := { text := u.key.text, user := true, sentence := false }

/-- `DistinctTranslation`: a text already shown is skipped -/
def dedupTexts : List Cand → List Bytes → List Cand
  | [], _ => []
  | c :: cs, seen => if seen.contains c.text then dedupTexts cs seen else c :: dedupTexts cs (c.text :: seen)

/-- position of the first candidate with this text -/
def position (t : Bytes) (cs : List Cand) : Option Nat :=
  match cs.findIdx? (fun c => c.text = t) with
  | some i => some i
  | none => none

/-- One code length of a script translation: user phrases of that length before system phrases of that
length (`prefer_user_phrase` on equal code length), except that the very first candidate of the
translation is the system one when it is an exact match of the whole input and the user one is not
(`kNumExactMatchOnTop`). `first` = this group opens the translation. -/
def scriptGroup (first : Bool) (user : List UCand) (sys : List Cand) (sysFrontExact : Bool) : List Cand :=
  let u := user.map UCand.toCand
  match user, sys with
  | x :: _, s :: srest => if first && !x.exact && sysFrontExact then s :: (u ++ srest) else u ++ sys
  | _, _ => u ++ sys

/-- the top part of `ScriptTranslation` (the longest code length, i.e. everything the syllabifier consumed):
an optional sentence (made only when neither dictionary has an exact match of the consumed input in front),
then the top code-length group.  `whole` = the consumed input is the whole rest of the input
(`full_code_length`), which is what the first-candidate rule of `PrepareCandidate` tests. -/
def scriptTop (whole : Bool) (sentence : Option Bytes) (user : List UCand) (sys : List Cand) (sysFrontExact : Bool) : List Cand :=
  let userFrontExact := match user with
    | x :: _ => x.exact
    | [] => false
  let sent := if userFrontExact || sysFrontExact then [] else
    match sentence with
    | some t => [{ text := t, user := false, sentence := true }]
    | none => []
  sent ++ scriptGroup sent.isEmpty user sys (whole && sysFrontExact)

/-- `TableTranslation` for one code: exact user phrases (sorted), exact table entries, then predictive user
phrases in key order, then table completions (`PreferUserPhrase`) -/
def tableList (userExactSorted : List UCand) (sysExact : List Cand) (userPred : List UCand) (sysPred : List Cand) : List Cand :=
  userExactSorted.map UCand.toCand ++ sysExact ++ userPred.map UCand.toCand ++ sysPred

/-- `TableTranslator::MakeSentence(include_prefix_phrases)` → `SentenceTranslation`, used when no dictionary has an
exact or predictive match for the whole code: the composed sentence first, then, by decreasing prefix length, the
exact user phrases of the prefix (sorted) or — only when the user dictionary has none for that prefix
(`max_homographs` 1: the table lookup of an edge the user dictionary already filled is skipped) — its table
entries.  `prefixes`: longest prefix first. -/
def tableSentenceList (sentence : Option Bytes) (prefixes : List (List UCand × List Cand)) : List Cand :=
  (match sentence with
   | some t => [({ text := t, user := false, sentence := true } : Cand)]
   | none => []) ++
  prefixes.flatMap (fun p => if p.1.isEmpty then p.2 else p.1.map UCand.toCand)

/-- `tableSentenceList` for any `translator/max_homographs` (`mh`, default 1): in `MakeSentence` the table lookup of a prefix
is skipped iff the user dictionary already filled the edge with `mh` entries (`homographs.size() >= max_homographs_`,
table_translator.cc:564/655); otherwise both collectors hold that prefix length and `SentenceTranslation::PreferUserPhrase`
(`user_phrase_code_length >= table_code_length`) shows the user phrases first. -/
def tableSentenceListH (mh : Nat) (sentence : Option Bytes) (prefixes : List (List UCand × List Cand)) : List Cand :=
  (match sentence with
   | some t => [({ text := t, user := false, sentence := true } : Cand)]
   | none => []) ++
  prefixes.flatMap (fun p => p.1.map UCand.toCand ++ (if p.1.length < mh then p.2 else []))

/-- the commit entry `AppendPhrase` builds out of consecutive recognized selections -/
def assemble (sels : List Sel) : CommitEntry := sels.foldl CommitEntry.append CommitEntry.empty

/-- a composition made of partial selections: every segment but the last `kSelected` (2), the last one — which
reaches the end of the input — `kConfirmed` (3) -/
def selectedSegs (init : List Sel) (last : Sel) : List Seg :=
  init.map (fun s => ({ status := 2, sel := some s } : Seg)) ++ [{ status := 3, sel := some last }]

/-! ## a commit as seen in the durable db -/

/-- The durable user db once the transaction of a commit has been closed (by the next translator query, an
unhandled key that is not a reverting BackSpace, or the destruction of the dictionary). -/
def afterCommit (ops : DeeOps D) (st : Style) (u : UD D) (segs : List Seg) (now : Int) : Db D :=
  ((u.onCommit ops st segs now).commitPending).durable

/-- The durable user db a commit starts from: `StartSession` first closes a still pending transaction. -/
def beforeCommit (u : UD D) : Db D := u.commitPending.durable


end RimeModel.C10
