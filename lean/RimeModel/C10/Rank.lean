import RimeModel.C10.Lemmas
/-! C10 — helper lemmas for the ranking law: lists sorted by weight (ties in any order), the entries in front
of a key, and the bridge from two states of the user db to the candidate lists. -/
namespace RimeModel.C10

variable {D : Type}

/-- sorted by weight, descending; the order among equal weights is left open -/
def SortedDesc (l : List UCand) : Prop := l.Pairwise (fun a b => b.weight ≤ a.weight)

/-- the entries in front of the first one with key `T` -/
def ahead (l : List UCand) (T : Key) : List UCand := l.takeWhile (fun c => decide (c.key ≠ T))

theorem ahead_cons (x : UCand) (xs : List UCand) (T : Key) :
    ahead (x :: xs) T = if x.key = T then [] else x :: ahead xs T := by
  unfold ahead
  rw [List.takeWhile_cons]
  by_cases h : x.key = T <;> simp [h]

theorem findIdx_eq_ahead_length (l : List UCand) (T : Key) :
    l.findIdx (fun c => decide (c.key = T)) = (ahead l T).length := by
  induction l with
  | nil => rfl
  | cons x xs ih =>
    rw [List.findIdx_cons, ahead_cons]
    by_cases h : x.key = T
    · simp [h]
    · simp [h, ih]

theorem ahead_ne (l : List UCand) (T : Key) : ∀ y ∈ ahead l T, y.key ≠ T := by
  induction l with
  | nil => intro y hy; cases hy
  | cons x xs ih =>
    intro y hy
    rw [ahead_cons] at hy
    by_cases h : x.key = T
    · simp [h] at hy
    · simp only [h, if_false] at hy
      rcases List.mem_cons.1 hy with e | e
      · rw [e]; exact h
      · exact ih y e

theorem mem_of_mem_ahead (l : List UCand) (T : Key) : ∀ y ∈ ahead l T, y ∈ l := by
  induction l with
  | nil => intro y hy; cases hy
  | cons x xs ih =>
    intro y hy
    rw [ahead_cons] at hy
    by_cases h : x.key = T
    · simp [h] at hy
    · simp only [h, if_false] at hy
      rcases List.mem_cons.1 hy with e | e
      · rw [e]; exact List.mem_cons_self
      · exact List.mem_cons_of_mem _ (ih y e)

/-- decomposition at the first entry with key `T` -/
theorem split_at_key (l : List UCand) (T : Key) (t : UCand) (ht : t ∈ l) (hk : t.key = T) :
    ∃ t' rest, l = ahead l T ++ t' :: rest ∧ t'.key = T := by
  induction l with
  | nil => cases ht
  | cons x xs ih =>
    by_cases h : x.key = T
    · refine ⟨x, xs, ?_, h⟩
      rw [ahead_cons, if_pos h]; rfl
    · have hx : t ∈ xs := by
        rcases List.mem_cons.1 ht with e | e
        · exact absurd (e ▸ hk) h
        · exact e
      obtain ⟨t', rest, e, hk'⟩ := ih hx
      refine ⟨t', rest, ?_, hk'⟩
      have : ahead (x :: xs) T = x :: ahead xs T := by rw [ahead_cons, if_neg h]
      rw [this, List.cons_append, ← e]

theorem ahead_eq_self_of_not_mem (l : List UCand) (T : Key) (h : ∀ c ∈ l, c.key ≠ T) : ahead l T = l := by
  induction l with
  | nil => rfl
  | cons x xs ih =>
    rw [ahead_cons, if_neg (h x List.mem_cons_self), ih (fun c hc => h c (List.mem_cons_of_mem _ hc))]

theorem key_unique (l : List UCand) (hn : (l.map (·.key)).Nodup) (a b : UCand) (ha : a ∈ l) (hb : b ∈ l)
    (h : a.key = b.key) : a = b := by
  induction l with
  | nil => cases ha
  | cons x xs ih =>
    simp only [List.map_cons, List.nodup_cons] at hn
    rcases List.mem_cons.1 ha with ea | ea <;> rcases List.mem_cons.1 hb with eb | eb
    · rw [ea, eb]
    · exfalso; apply hn.1; rw [← ea, h]; exact List.mem_map.2 ⟨b, eb, rfl⟩
    · exfalso; apply hn.1; rw [← eb, ← h]; exact List.mem_map.2 ⟨a, ea, rfl⟩
    · exact ih hn.2 ea eb

/-- the core of the ranking law: after the commit, everything in front of `T` was in front of `T` before -/
theorem ahead_subset (Ub Ua : List UCand) (T : Key) (t0 t : UCand)
    (hsb : SortedDesc Ub) (hsa : SortedDesc Ua)
    (hnb : (Ub.map (·.key)).Nodup) (hna : (Ua.map (·.key)).Nodup)
    (ht0 : t0 ∈ Ub) (hk0 : t0.key = T) (ht : t ∈ Ua) (hk : t.key = T)
    (hkeep : ∀ c ∈ Ua, c.key ≠ T → ∃ c0 ∈ Ub, c0.key = c.key)
    (hgain : ∀ c ∈ Ua, c.key ≠ T → ∀ c0 ∈ Ub, c0.key = c.key → c0.weight ≤ t0.weight → c.weight < t.weight) :
    ∀ y ∈ ahead Ua T, y.key ∈ (ahead Ub T).map (·.key) := by
  intro y hy
  obtain ⟨ta, resta, ea, hka⟩ := split_at_key Ua T t ht hk
  obtain ⟨tb, restb, eb, hkb⟩ := split_at_key Ub T t0 ht0 hk0
  have hyU : y ∈ Ua := mem_of_mem_ahead Ua T y hy
  have hyne : y.key ≠ T := ahead_ne Ua T y hy
  -- ta = t, tb = t0 by uniqueness of keys
  have hta : ta = t := key_unique Ua hna ta t (by rw [ea]; simp) ht (hka.trans hk.symm)
  have htb : tb = t0 := key_unique Ub hnb tb t0 (by rw [eb]; simp) ht0 (hkb.trans hk0.symm)
  -- t.weight ≤ y.weight
  have hwy : t.weight ≤ y.weight := by
    have hp : SortedDesc (ahead Ua T ++ ta :: resta) := by rw [← ea]; exact hsa
    unfold SortedDesc at hp
    rw [List.pairwise_append] at hp
    have := hp.2.2 y hy ta List.mem_cons_self
    rw [hta] at this
    exact this
  obtain ⟨y0, hy0, hky0⟩ := hkeep y hyU hyne
  -- y0 is in front of t0, otherwise the gain law contradicts hwy
  have hy0mem : y0 ∈ ahead Ub T ++ tb :: restb := by rw [← eb]; exact hy0
  rcases List.mem_append.1 hy0mem with h1 | h1
  · exact List.mem_map.2 ⟨y0, h1, hky0⟩
  · exfalso
    rcases List.mem_cons.1 h1 with e | e
    · apply hyne
      rw [← hky0, e, hkb]
    · have hp : SortedDesc (ahead Ub T ++ tb :: restb) := by rw [← eb]; exact hsb
      unfold SortedDesc at hp
      rw [List.pairwise_append] at hp
      have hw : y0.weight ≤ tb.weight := (List.pairwise_cons.1 hp.2.1).1 y0 e
      rw [htb] at hw
      have := hgain y hyU hyne y0 hy0 hky0 hw
      omega

theorem ahead_keys_nodup (l : List UCand) (T : Key) (hn : (l.map (·.key)).Nodup) :
    ((ahead l T).map (·.key)).Nodup := by
  induction l with
  | nil => simp [ahead]
  | cons x xs ih =>
    simp only [List.map_cons, List.nodup_cons] at hn
    rw [ahead_cons]
    by_cases h : x.key = T
    · simp [h]
    · simp only [h, if_false, List.map_cons, List.nodup_cons]
      refine ⟨?_, ih hn.2⟩
      intro hm
      apply hn.1
      rcases List.mem_map.1 hm with ⟨y, hy, e⟩
      exact List.mem_map.2 ⟨y, mem_of_mem_ahead xs T y hy, e⟩

theorem findIdx_congr {α : Type} (l : List α) (p q : α → Bool) (h : ∀ x ∈ l, p x = q x) :
    l.findIdx p = l.findIdx q := by
  induction l with
  | nil => rfl
  | cons x xs ih =>
    rw [List.findIdx_cons, List.findIdx_cons, h x List.mem_cons_self,
      ih (fun y hy => h y (List.mem_cons_of_mem _ hy))]

/-- within one code, the position of a text among the user candidates is the position of its key -/
theorem findIdx_text_eq_key (U : List UCand) (T : Key) (hcode : ∀ c ∈ U, c.key.code = T.code) :
    (U.map UCand.toCand).findIdx (fun c => decide (c.text = T.text)) = (ahead U T).length := by
  rw [List.findIdx_map, ← findIdx_eq_ahead_length]
  apply findIdx_congr
  intro c hc
  have hcd := hcode c hc
  by_cases h : c.key = T
  · simp [UCand.toCand, h]
  · have : c.key.text ≠ T.text := by
      intro e
      apply h
      cases hk : c.key with
      | mk code text =>
        cases T with
        | mk code' text' =>
          rw [hk] at hcd e
          simp at hcd e
          rw [hcd, e]
    simp [UCand.toCand, h, this]

/-- **ranking core.**  `Ub`/`Ua`: the user candidates of the whole-input code before / after the commit of `T`
(each sorted by weight, any order among equal weights); `pre`: a sentence in front (only possible when there
was no user candidate); `Rb`/`Ra`: whatever follows (system phrases, completions).  Then the first candidate
with `T`'s text comes no later after the commit than before (a list without the text counts as position =
length). -/
theorem rank_core (Ub Ua : List UCand) (T : Key) (t : UCand) (pre Rb Ra : List Cand)
    (hsb : SortedDesc Ub) (hsa : SortedDesc Ua)
    (hnb : (Ub.map (·.key)).Nodup) (hna : (Ua.map (·.key)).Nodup)
    (hcodeb : ∀ c ∈ Ub, c.key.code = T.code) (hcodea : ∀ c ∈ Ua, c.key.code = T.code)
    (ht : t ∈ Ua) (hk : t.key = T)
    (hkeep : ∀ c ∈ Ua, c.key ≠ T → ∃ c0 ∈ Ub, c0.key = c.key)
    (hgain : ∀ t0 ∈ Ub, t0.key = T → ∀ c ∈ Ua, c.key ≠ T → ∀ c0 ∈ Ub, c0.key = c.key →
      c0.weight ≤ t0.weight → c.weight < t.weight)
    (hpre : pre = [] ∨ Ub = []) :
    (Ua.map UCand.toCand ++ Ra).findIdx (fun c => decide (c.text = T.text)) ≤
      (pre ++ (Ub.map UCand.toCand ++ Rb)).findIdx (fun c => decide (c.text = T.text)) := by
  -- left side: found among the user candidates, at |ahead Ua T|
  have hfa : (Ua.map UCand.toCand).findIdx (fun c => decide (c.text = T.text)) < (Ua.map UCand.toCand).length := by
    apply List.findIdx_lt_length_of_exists
    exact ⟨t.toCand, List.mem_map.2 ⟨t, ht, rfl⟩, by simp [UCand.toCand, hk]⟩
  have hL : (Ua.map UCand.toCand ++ Ra).findIdx (fun c => decide (c.text = T.text)) = (ahead Ua T).length := by
    rw [List.findIdx_append, if_pos hfa, findIdx_text_eq_key Ua T hcodea]
  rw [hL]
  have hsubU : ∀ y ∈ ahead Ua T, y.key ∈ Ub.map (·.key) := by
    intro y hy
    obtain ⟨c0, hc0, e⟩ := hkeep y (mem_of_mem_ahead Ua T y hy) (ahead_ne Ua T y hy)
    exact List.mem_map.2 ⟨c0, hc0, e⟩
  by_cases hT : ∃ t0 ∈ Ub, t0.key = T
  · obtain ⟨t0, ht0, hk0⟩ := hT
    have hpre' : pre = [] := by
      rcases hpre with h | h
      · exact h
      · rw [h] at ht0; cases ht0
    have hfb : (Ub.map UCand.toCand).findIdx (fun c => decide (c.text = T.text)) < (Ub.map UCand.toCand).length := by
      apply List.findIdx_lt_length_of_exists
      exact ⟨t0.toCand, List.mem_map.2 ⟨t0, ht0, rfl⟩, by simp [UCand.toCand, hk0]⟩
    rw [hpre', List.nil_append, List.findIdx_append, if_pos hfb, findIdx_text_eq_key Ub T hcodeb]
    have hsub := ahead_subset Ub Ua T t0 t hsb hsa hnb hna ht0 hk0 ht hk hkeep (hgain t0 ht0 hk0)
    have hlen := List.Nodup.length_le_of_subset (ahead_keys_nodup Ua T hna)
      (l₂ := (ahead Ub T).map (·.key)) (by
        intro k hkm
        rcases List.mem_map.1 hkm with ⟨y, hy, e⟩
        rw [← e]
        exact hsub y hy)
    simpa using hlen
  · have hnot : ∀ c ∈ Ub, c.key ≠ T := fun c hc e => hT ⟨c, hc, e⟩
    have hlen := List.Nodup.length_le_of_subset (ahead_keys_nodup Ua T hna) (l₂ := Ub.map (·.key)) (by
        intro k hkm
        rcases List.mem_map.1 hkm with ⟨y, hy, e⟩
        rw [← e]
        exact hsubU y hy)
    have hlen' : (ahead Ua T).length ≤ Ub.length := by simpa using hlen
    rcases hpre with h | h
    · rw [h, List.nil_append, List.findIdx_append]
      have hnf : ¬ ((Ub.map UCand.toCand).findIdx (fun c => decide (c.text = T.text)) < (Ub.map UCand.toCand).length) := by
        rw [findIdx_text_eq_key Ub T hcodeb, ahead_eq_self_of_not_mem Ub T hnot]
        simp
      rw [if_neg hnf]
      simp only [List.length_map]
      omega
    · have h0 : (ahead Ua T).length ≤ 0 := by
        rw [h] at hlen'
        exact hlen'
      omega

/-! ### from the db to the candidate lists -/

theorem userExact_cons (ops : DeeOps D) (p : Key × Value D) (db : Db D) (present : Nat) (code : Code) :
    userExact ops (p :: db) present code =
      (if p.1.code = code then (match createDictEntry ops present true p with
        | some c => [c]
        | none => []) else []) ++ userExact ops db present code := by
  unfold userExact
  rw [List.filter_cons]
  by_cases h : p.1.code = code
  · simp only [h, decide_true, if_true, List.filterMap_cons]
    cases createDictEntry ops present true p <;> rfl
  · simp [h]

theorem createDictEntry_key (ops : DeeOps D) (present : Nat) (ex : Bool) (p : Key × Value D) (c : UCand)
    (h : createDictEntry ops present ex p = some c) : c.key = p.1 := by
  unfold createDictEntry at h
  split at h
  · cases h; rfl
  · cases h

theorem userExact_keys_nodup (ops : DeeOps D) (db : Db D) (hn : db.keys.Nodup) (present : Nat) (code : Code) :
    ((userExact ops db present code).map (·.key)).Nodup := by
  induction db with
  | nil => simp [userExact]
  | cons p rest ih =>
    simp only [Db.keys, List.map_cons, List.nodup_cons] at hn
    rw [userExact_cons]
    have hrest := ih hn.2
    by_cases h : p.1.code = code
    · simp only [h, if_true]
      cases hc : createDictEntry ops present true p with
      | none => simpa using hrest
      | some c =>
        simp only [List.cons_append, List.nil_append, List.map_cons, List.nodup_cons]
        refine ⟨?_, hrest⟩
        intro hm
        apply hn.1
        rcases List.mem_map.1 hm with ⟨y, hy, e⟩
        obtain ⟨v, hv, _⟩ := (mem_userExact ops rest present code y).1 hy
        rw [← createDictEntry_key ops present true p c hc, ← e]
        exact List.mem_map.2 ⟨(y.key, v), hv, rfl⟩
    · simpa [h] using hrest

/-- the order law the ranking theorem needs of the weight function: if the committed record (`vT` before,
`vT'` after; present tick `P` before, `P'` after) was not outweighed by a record `v` that the commit leaves
alone, it outweighs `v` strictly afterwards.  For the real formulas: the committed entry's decayed `dee`
gains 1 while every other entry only decays, uniformly (dynamics.h); sampled numerically by the harness. -/
def Gain (ops : DeeOps D) (P P' : Nat) (vT vT' : Value D) : Prop :=
  ∀ v : Value D, ops.weight v P ≤ ops.weight vT P → ops.weight v P' < ops.weight vT' P'

/-- the hypotheses of `rank_core`, derived from two states of the user db that differ, within `T`'s code, only
in `T`'s record -/
theorem rank_bridge (ops : DeeOps D) (db db' : Db D) (hn : db.keys.Nodup) (hn' : db'.keys.Nodup)
    (P P' : Nat) (T : Key) (vT' : Value D) (hT' : db'.get? T = some vT') (hvis : 0 ≤ vT'.commits)
    (hframe : ∀ k, k.code = T.code → k ≠ T → db'.get? k = db.get? k)
    (hgain : ∀ vT, db.get? T = some vT → Gain ops P P' vT vT')
    (Ub Ua : List UCand) (hpb : Ub.Perm (userExact ops db P T.code)) (hpa : Ua.Perm (userExact ops db' P' T.code)) :
    (Ub.map (·.key)).Nodup ∧ (Ua.map (·.key)).Nodup ∧
    (∀ c ∈ Ub, c.key.code = T.code) ∧ (∀ c ∈ Ua, c.key.code = T.code) ∧
    (∃ t ∈ Ua, t.key = T ∧
      (∀ c ∈ Ua, c.key ≠ T → ∃ c0 ∈ Ub, c0.key = c.key) ∧
      (∀ t0 ∈ Ub, t0.key = T → ∀ c ∈ Ua, c.key ≠ T → ∀ c0 ∈ Ub, c0.key = c.key →
        c0.weight ≤ t0.weight → c.weight < t.weight)) := by
  have mb : ∀ c, c ∈ Ub ↔ c ∈ userExact ops db P T.code := fun c => hpb.mem_iff
  have ma : ∀ c, c ∈ Ua ↔ c ∈ userExact ops db' P' T.code := fun c => hpa.mem_iff
  refine ⟨?_, ?_, ?_, ?_, ?_⟩
  · exact (List.Perm.nodup_iff (hpb.map _)).2 (userExact_keys_nodup ops db hn P T.code)
  · exact (List.Perm.nodup_iff (hpa.map _)).2 (userExact_keys_nodup ops db' hn' P' T.code)
  · intro c hc
    obtain ⟨v, _, h, _⟩ := (mem_userExact ops db P T.code c).1 ((mb c).1 hc)
    exact h
  · intro c hc
    obtain ⟨v, _, h, _⟩ := (mem_userExact ops db' P' T.code c).1 ((ma c).1 hc)
    exact h
  · refine ⟨{ key := T, weight := ops.weight vT' P', exact := true }, ?_, rfl, ?_, ?_⟩
    · exact (ma _).2 ((mem_userExact ops db' P' T.code _).2 ⟨vT', Db.mem_of_get? db' T vT' hT', rfl, hvis, rfl, rfl⟩)
    · intro c hc hne
      obtain ⟨v, hm, hcode, hv, hw, he⟩ := (mem_userExact ops db' P' T.code c).1 ((ma c).1 hc)
      have hg' := Db.get?_of_mem db' hn' c.key v hm
      rw [hframe c.key hcode hne] at hg'
      exact ⟨{ key := c.key, weight := ops.weight v P, exact := true },
        (mb _).2 ((mem_userExact ops db P T.code _).2 ⟨v, Db.mem_of_get? db c.key v hg', hcode, hv, rfl, rfl⟩), rfl⟩
    · intro t0 ht0 hk0 c hc hne c0 hc0 hkc hle
      obtain ⟨vT, hmT, _, _, hwT, _⟩ := (mem_userExact ops db P T.code t0).1 ((mb t0).1 ht0)
      obtain ⟨v, hm, hcode, _, hw, _⟩ := (mem_userExact ops db' P' T.code c).1 ((ma c).1 hc)
      obtain ⟨v0, hm0, _, _, hw0, _⟩ := (mem_userExact ops db P T.code c0).1 ((mb c0).1 hc0)
      have hgT : db.get? T = some vT := by
        have := Db.get?_of_mem db hn t0.key vT hmT
        rw [hk0] at this
        exact this
      have hg' := Db.get?_of_mem db' hn' c.key v hm
      rw [hframe c.key hcode hne] at hg'
      have hg0 := Db.get?_of_mem db hn c0.key v0 hm0
      rw [hkc, hg'] at hg0
      have hv0 : v = v0 := by cases hg0; rfl
      show c.weight < ops.weight vT' P'
      rw [hw]
      apply hgain vT hgT v
      rw [hv0, ← hw0, ← hwT]
      exact hle

/-! ### the shape of the merged lists -/

/-- with exact matches only, the top of a script translation is `sentence? ++ user ++ system`, and a sentence
is there only when there is no user candidate -/
theorem scriptTop_exact (sentence : Option Bytes) (U : List UCand) (S : List Cand) (sfe : Bool)
    (hex : ∀ c ∈ U, c.exact = true) :
    ∃ pre, scriptTop true sentence U S sfe = pre ++ (U.map UCand.toCand ++ S) ∧ (pre = [] ∨ U = []) := by
  cases U with
  | nil =>
    refine ⟨(if false || sfe then [] else
        match sentence with
        | some t => [({ text := t, user := false, sentence := true } : Cand)]
        | none => []), ?_, Or.inr rfl⟩
    cases sfe <;> cases sentence <;> rfl
  | cons x xs =>
    have hx : x.exact = true := hex x List.mem_cons_self
    refine ⟨[], ?_, Or.inl rfl⟩
    unfold scriptTop scriptGroup
    cases S with
    | nil => simp [hx]
    | cons s srest => simp [hx]

/-! ### distinct keys are an invariant -/

theorem applyBatch_keys_nodup (b : List (Put D)) (s : Db D × Nat) (hn : s.1.keys.Nodup) :
    (applyBatch s b).1.keys.Nodup := by
  induction b generalizing s with
  | nil => exact hn
  | cons p rest ih =>
    have : applyBatch s (p :: rest) = applyBatch (applyPut s p) rest := rfl
    rw [this]
    apply ih
    cases p with
    | entry k v => exact Db.keys_put_nodup s.1 hn k v
    | tick n => exact hn

theorem commitPending_keys_nodup (u : UD D) (hn : u.durable.keys.Nodup) : u.commitPending.durable.keys.Nodup := by
  unfold UD.commitPending
  split
  · exact applyBatch_keys_nodup _ _ hn
  · exact hn

theorem write_keys_nodup (u : UD D) (p : Put D) (hn : u.durable.keys.Nodup) : (u.write p).durable.keys.Nodup := by
  unfold UD.write
  split
  · exact hn
  · cases p with
    | entry k v => exact Db.keys_put_nodup _ hn k v
    | tick n => exact hn

theorem updateEntry_keys_nodup (ops : DeeOps D) (u : UD D) (k : Key) (n : Int) (hn : u.durable.keys.Nodup) :
    (u.updateEntry ops k n).durable.keys.Nodup := by
  unfold UD.updateEntry
  apply write_keys_nodup
  split
  · exact write_keys_nodup _ _ hn
  · exact hn

theorem applyUpdates_keys_nodup (ops : DeeOps D) (ups : List (Key × Int)) (u : UD D) (hn : u.durable.keys.Nodup) :
    (u.applyUpdates ops ups).durable.keys.Nodup := by
  induction ups generalizing u with
  | nil => exact hn
  | cons p rest ih => exact ih _ (updateEntry_keys_nodup ops u p.1 p.2 hn)

theorem beforeCommit_keys_nodup (u : UD D) (hn : u.durable.keys.Nodup) : (beforeCommit u).keys.Nodup :=
  commitPending_keys_nodup u hn

theorem afterCommit_keys_nodup (ops : DeeOps D) (st : Style) (u : UD D) (segs : List Seg) (now : Int)
    (hn : u.durable.keys.Nodup) : (afterCommit ops st u segs now).keys.Nodup := by
  unfold afterCommit UD.onCommit
  apply commitPending_keys_nodup
  apply applyUpdates_keys_nodup
  exact commitPending_keys_nodup u hn

/-! ### the model's own sort meets the hypotheses of the ranking theorems -/

theorem insertByWeight_perm (x : UCand) (l : List UCand) : (insertByWeight x l).Perm (x :: l) := by
  induction l with
  | nil => exact List.Perm.refl _
  | cons y ys ih =>
    unfold insertByWeight
    split
    · exact List.Perm.refl _
    · exact (List.Perm.cons y ih).trans (List.Perm.swap x y ys)

theorem sortByWeight_perm (l : List UCand) : (sortByWeight l).Perm l := by
  induction l with
  | nil => exact List.Perm.refl _
  | cons x xs ih =>
    have : sortByWeight (x :: xs) = insertByWeight x (sortByWeight xs) := rfl
    rw [this]
    exact (insertByWeight_perm x _).trans (List.Perm.cons x ih)

theorem insertByWeight_sorted (x : UCand) (l : List UCand) (h : SortedDesc l) : SortedDesc (insertByWeight x l) := by
  induction l with
  | nil => simp [insertByWeight, SortedDesc]
  | cons y ys ih =>
    unfold SortedDesc at h
    rw [List.pairwise_cons] at h
    unfold insertByWeight
    split
    · rename_i hle
      unfold SortedDesc
      rw [List.pairwise_cons]
      refine ⟨?_, List.pairwise_cons.2 h⟩
      intro b hb
      rcases List.mem_cons.1 hb with e | e
      · rw [e]; exact hle
      · exact Int.le_trans (h.1 b e) hle
    · rename_i hnle
      unfold SortedDesc
      rw [List.pairwise_cons]
      refine ⟨?_, ih h.2⟩
      intro b hb
      rcases (mem_insertByWeight x b ys).1 hb with e | e
      · rw [e]; omega
      · exact h.1 b e

theorem sortByWeight_sorted (l : List UCand) : SortedDesc (sortByWeight l) := by
  induction l with
  | nil => simp [sortByWeight, SortedDesc]
  | cons x xs ih => exact insertByWeight_sorted x _ ih

/-! ### `inTxn = false → batch = []` is an invariant -/

/-- outside a transaction nothing is pending -/
def UD.Closed (u : UD D) : Prop := u.inTxn = false → u.batch = []

theorem closed_empty : (UD.empty : UD D).Closed := fun _ => rfl

theorem closed_write (u : UD D) (p : Put D) (h : u.Closed) : (u.write p).Closed := by
  unfold UD.write
  split
  · rename_i ht
    intro hf
    simp [ht] at hf
  · intro hf
    exact h hf

theorem closed_commitPending (u : UD D) (h : u.Closed) : u.commitPending.Closed := by
  unfold UD.commitPending
  split
  · intro _; rfl
  · exact h

theorem closed_newTransaction (u : UD D) (now : Int) : (u.newTransaction now).Closed := by
  intro hf
  cases hf

theorem closed_revert (u : UD D) (now : Int) (h : u.Closed) : (u.revert now).1.Closed := by
  unfold UD.revert
  split
  · exact h
  · split
    · exact h
    · intro _; rfl

theorem closed_fetchTick (u : UD D) (h : u.Closed) : u.fetchTick.Closed := h

theorem closed_updateEntry (ops : DeeOps D) (u : UD D) (k : Key) (n : Int) (h : u.Closed) :
    (u.updateEntry ops k n).Closed := by
  unfold UD.updateEntry
  apply closed_write
  split
  · exact closed_write _ _ h
  · exact h

theorem closed_applyUpdates (ops : DeeOps D) (ups : List (Key × Int)) (u : UD D) (h : u.Closed) :
    (u.applyUpdates ops ups).Closed := by
  induction ups generalizing u with
  | nil => exact h
  | cons p rest ih => exact ih _ (closed_updateEntry ops u p.1 p.2 h)

theorem closed_onCommit (ops : DeeOps D) (st : Style) (u : UD D) (segs : List Seg) (now : Int) :
    (u.onCommit ops st segs now).Closed :=
  closed_applyUpdates ops _ _ (closed_newTransaction u now)

theorem closed_onDelete (ops : DeeOps D) (u : UD D) (e : Entry) (h : u.Closed) : (u.onDelete ops e).Closed :=
  closed_updateEntry ops u e.key (-1) h

theorem closed_onQuery (st : Style) (u : UD D) (lookup : Bool) (h : u.Closed) : (u.onQuery st lookup).Closed := by
  cases st
  · cases lookup
    · exact closed_commitPending u h
    · exact closed_fetchTick _ (closed_commitPending u h)
  · exact closed_commitPending u h

theorem closed_unhandledKey (u : UD D) (kc md : Nat) (now : Int) (h : u.Closed) : (u.unhandledKey kc md now).Closed := by
  unfold UD.unhandledKey
  split
  · exact h
  · split
    · show (if (u.revert now).2 = true then (u.revert now).1 else u.commitPending).Closed
      split
      · exact closed_revert u now h
      · exact closed_commitPending u h
    · exact closed_commitPending u h

end RimeModel.C10
