import RimeModel.C11.Model
set_option linter.unusedSimpArgs false
/-! helper lemmas for C11 (free to change; the property theorems are in `RimeModel/Props/C11.lean`) -/
namespace RimeModel.C11

theorem applyCommits_append (s : Store) (us vs : List (List Write)) :
    applyCommits s (us ++ vs) = applyCommits (applyCommits s us) vs := by
  simp [applyCommits, List.foldl_append]

theorem applyCommits_snoc (s : Store) (us : List (List Write)) (u : List Write) :
    applyCommits s (us ++ [u]) = applyWrites (applyCommits s us) u := by
  simp [applyCommits, List.foldl_append]

theorem applyWrites_single (s : Store) (w : Write) : applyWrites s [w] = applyWrite s w := by
  simp [applyWrites]

theorem Kv.run_nil (s : Kv) : s.run [] = s := rfl
theorem Kv.run_cons (s : Kv) (o : Op) (r : List Op) : s.run (o :: r) = (s.step o).run r := rfl
theorem Kv.run_append (s : Kv) (a b : List Op) : s.run (a ++ b) = (s.run a).run b := by
  simp [Kv.run, List.foldl_append]

theorem Acc.run_append (s : Acc) (a b : List Op) : s.run (a ++ b) = (s.run a).run b := by
  simp [Acc.run, List.foldl_append]

theorem Acc.step_kv (a : Acc) (o : Op) : (a.step o).kv = a.kv.step o := rfl

theorem Acc.run_kv (a : Acc) (ops : List Op) : (a.run ops).kv = a.kv.run ops := by
  induction ops generalizing a with
  | nil => rfl
  | cons o r ih => simp [Acc.run, Kv.run] at ih ⊢; exact ih (a.step o)

/-- the accounting invariant: `durable` is the fold of the flushed units -/
theorem Acc.step_inv (init : Store) (a : Acc) (o : Op)
    (h : a.kv.durable = applyCommits init a.flushed) :
    (a.step o).kv.durable = applyCommits init (a.step o).flushed := by
  cases o <;> simp only [Acc.step, Kv.step]
  case begin => exact h
  case close => exact h
  case reopen => exact h
  case crash => exact h
  case abort => split <;> exact h
  case commit =>
    cases hi : a.kv.inTxn
    · simp [h]
    · simp [applyCommits_snoc, h]
  case update k v =>
    cases hi : a.kv.inTxn
    · simp [applyCommits_snoc, applyWrites_single, applyWrite, h]
    · simp [h]
  case erase k =>
    cases hi : a.kv.inTxn
    · simp [applyCommits_snoc, applyWrites_single, applyWrite, h]
    · simp [h]

theorem Acc.run_inv (init : Store) (a : Acc) (ops : List Op)
    (h : a.kv.durable = applyCommits init a.flushed) :
    (a.run ops).kv.durable = applyCommits init (a.run ops).flushed := by
  induction ops generalizing a with
  | nil => exact h
  | cons o r ih => exact ih (a.step o) (Acc.step_inv init a o h)

theorem Acc.step_flushed_prefix (a : Acc) (o : Op) : a.flushed <+: (a.step o).flushed := by
  cases o <;> simp only [Acc.step] <;> try exact List.prefix_refl _
  all_goals (split <;> first | exact List.prefix_refl _ | exact List.prefix_append _ _)

theorem Acc.run_flushed_prefix (a : Acc) (ops : List Op) : a.flushed <+: (a.run ops).flushed := by
  induction ops generalizing a with
  | nil => exact List.prefix_refl _
  | cons o r ih => exact List.IsPrefix.trans (Acc.step_flushed_prefix a o) (ih (a.step o))

/-! ### the updates of one commit, issued inside a transaction -/

theorem Kv.run_writes_inTxn (s : Kv) (ws : List Write) (h : s.inTxn = true) :
    s.run (ws.map Write.toOp) = { s with batch := s.batch ++ ws } := by
  induction ws generalizing s with
  | nil => simp [Kv.run]
  | cons w r ih =>
    have hs : (s.step w.toOp) = { s with batch := s.batch ++ [w] } := by
      cases w <;> simp [Write.toOp, Kv.step, h]
    rw [List.map_cons, Kv.run_cons, hs, ih _ (by simpa using h)]
    simp [List.append_assoc]

theorem wfFrom_writes (t : Bool) (ws : List Write) (r : List Op) :
    wfFrom t (ws.map Write.toOp ++ r) = wfFrom t r := by
  induction ws with
  | nil => rfl
  | cons w ws ih => cases w <;> simpa [Write.toOp, wfFrom] using ih

/-! ### protocol: emitted ops and the run of the kv state -/

theorem PState.step_kv (p : PState) (e : Event) : (p.step e).kv = p.kv.run (emitOne p e) := rfl

theorem PState.run_nil (p : PState) : p.run [] = p := rfl
theorem PState.run_cons (p : PState) (e : Event) (es : List Event) : p.run (e :: es) = (p.step e).run es := rfl
theorem PState.run_append (p : PState) (a b : List Event) : p.run (a ++ b) = (p.run a).run b := by
  simp [PState.run, List.foldl_append]
theorem Spec.run_nil (p : Spec) : p.run [] = p := rfl
theorem Spec.run_cons (p : Spec) (e : Event) (es : List Event) : p.run (e :: es) = (p.step e).run es := rfl
theorem Spec.run_append (p : Spec) (a b : List Event) : p.run (a ++ b) = (p.run a).run b := by
  simp [Spec.run, List.foldl_append]

theorem emit_append (p : PState) (a b : List Event) : emit p (a ++ b) = emit p a ++ emit (p.run a) b := by
  induction a generalizing p with
  | nil => rfl
  | cons e r ih => simp [emit, ih, PState.run_cons, List.append_assoc]

theorem emit_single (p : PState) (e : Event) : emit p [e] = emitOne p e := by simp [emit]

theorem run_kv_emit (p : PState) (es : List Event) : (p.run es).kv = p.kv.run (emit p es) := by
  induction es generalizing p with
  | nil => rfl
  | cons e r ih => rw [PState.run_cons, ih, emit, Kv.run_append, PState.step_kv]

/-- every prefix of the emitted trace is: the ops of some whole events, then possibly a non-empty prefix of the
next event's ops -/
theorem emit_take (p : PState) (es : List Event) (k : Nat) (hk : k ≤ (emit p es).length) :
    ∃ es₁ rest, es = es₁ ++ rest ∧
      ((emit p es).take k = emit p es₁ ∨
       ∃ e r m, rest = e :: r ∧ (emit p es).take k = emit p es₁ ++ (emitOne (p.run es₁) e).take (m + 1)) := by
  induction es generalizing p k with
  | nil => exact ⟨[], [], rfl, Or.inl (by simp [emit])⟩
  | cons e r ih =>
    by_cases hle : k ≤ (emitOne p e).length
    · cases k with
      | zero => exact ⟨[], e :: r, rfl, Or.inl (by simp [emit])⟩
      | succ m =>
        refine ⟨[], e :: r, rfl, Or.inr ⟨e, r, m, rfl, ?_⟩⟩
        simp [emit, PState.run_nil, List.take_append_of_le_length hle]
    · have hgt : (emitOne p e).length ≤ k := by omega
      have hk' : k - (emitOne p e).length ≤ (emit (p.step e) r).length := by
        simp [emit] at hk; omega
      obtain ⟨es₁, rest, hes, htake⟩ := ih (p.step e) (k - (emitOne p e).length) hk'
      refine ⟨e :: es₁, rest, by simp [hes], ?_⟩
      rcases htake with htake | ⟨e', r', m, hr, htake⟩
      · left
        rw [emit, List.take_append, List.take_of_length_le hgt, htake]
        simp [emit]
      · right
        refine ⟨e', r', m, hr, ?_⟩
        rw [emit, List.take_append, List.take_of_length_le hgt, htake]
        simp [emit, PState.run_cons, List.append_assoc]

theorem emit_len_mono (p : PState) (es : List Event) (a b : Nat) (h : a ≤ b) :
    (emit p (es.take a)).length ≤ (emit p (es.take b)).length := by
  have h1 : es.take b = es.take a ++ (es.take b).drop a := by
    have := (List.take_append_drop a (es.take b)).symm
    rwa [List.take_take, Nat.min_eq_left h] at this
  rw [h1, emit_append]; simp

theorem Spec.made_take_done (s : Spec) : s.made.take s.done.length = s.done := by
  simp [Spec.made]

theorem Kv.crash_durable (kv : Kv) (ops : List Op) :
    (kv.run (ops ++ [.crash])).durable = (kv.run ops).durable := by
  simp [Kv.run_append, Kv.run, Kv.step]

/-! ### refinement: protocol state vs. specification state -/

structure Rel (init : Store) (p : PState) (s : Spec) : Prop where
  txn : p.kv.inTxn = s.pending.isSome
  batch : ∀ b, s.pending = some b → p.kv.batch = b
  dur : p.kv.durable = applyCommits init s.done
  now : p.now = s.now
  ttime : p.ttime = s.ttime

theorem Rel.init (init : Store) (now : Nat) : Rel init (PState.init init now) (Spec.init now) :=
  ⟨rfl, (by intro b h; cases h), rfl, rfl, rfl⟩


theorem Kv.run_single (s : Kv) (o : Op) : s.run [o] = s.step o := rfl

/-- one event keeps the protocol state and the specification state related -/
theorem Rel.step {init : Store} {p : PState} {s : Spec} (h : Rel init p s) (e : Event) :
    Rel init (p.step e) (s.step e) := by
  obtain ⟨htx, hb, hd, hn, ht⟩ := h
  cases hp : s.pending with
  | none =>
    have hi : p.kv.inTxn = false := by simpa [hp] using htx
    cases e <;> refine ⟨?_, ?_, ?_, ?_, ?_⟩ <;>
      simp [PState.step, Spec.step, emitOne, commitPending, hi, hp, Kv.run_append, Kv.run_cons, Kv.run_nil,
        Kv.run_single, Kv.step, Spec.flush, Kv.run_writes_inTxn, hd, hn, ht, applyCommits_snoc, applyWrites_single,
        applyWrite]
    all_goals (first | done | (rename_i w; cases w <;> simp [Write.toOp, Kv.step, hi, hd, applyCommits_snoc, applyWrites_single, applyWrite]))
  | some b =>
    have hi : p.kv.inTxn = true := by simpa [hp] using htx
    have hbb : p.kv.batch = b := hb b hp
    cases e <;> refine ⟨?_, ?_, ?_, ?_, ?_⟩ <;>
      simp [PState.step, Spec.step, emitOne, commitPending, hi, hp, Kv.run_append, Kv.run_cons, Kv.run_nil,
        Kv.run_single, Kv.step, Spec.flush, Kv.run_writes_inTxn, hd, hn, ht, hbb, applyCommits_snoc, applyWrites_single,
        applyWrite]
    all_goals (first | done | (rename_i w; cases w <;> simp [Write.toOp, Kv.step, hi, hd, hbb]) | (split <;> simp [Kv.run, Kv.step, hi, hp, hd, hbb, hn, ht, Spec.flush, applyCommits_snoc]))

/-- after `begin`, any number of the commit's updates leave `durable` alone -/
theorem Kv.quiet_begin_writes (s : Kv) (ws : List Write) (m : Nat) :
    (s.run ((Op.begin :: ws.map Write.toOp).take m)).durable = s.durable := by
  cases m with
  | zero => rfl
  | succ m =>
    rw [List.take_succ_cons, Kv.run_cons, ← List.map_take, Kv.run_writes_inTxn _ _ (by simp [Kv.step])]
    simp [Kv.step]

theorem Kv.quiet_close (s : Kv) (m : Nat) : (s.run ([Op.close].take m)).durable = s.durable := by
  cases m <;> simp [Kv.run, Kv.step]

/-- a kill after at least one op of an event finds on disk exactly what the specification calls `done` after
that event: every event changes `durable` with its first op or not at all -/
theorem Rel.partial {init : Store} {p : PState} {s : Spec} (h : Rel init p s) (e : Event) (m : Nat) :
    (p.kv.run ((emitOne p e).take (m + 1))).durable = applyCommits init (s.step e).done := by
  obtain ⟨htx, hb, hd, hn, ht⟩ := h
  cases hp : s.pending with
  | none =>
    have hi : p.kv.inTxn = false := by simpa [hp] using htx
    cases e with
    | tick d => simp [emitOne, Spec.step, Kv.run, hd]
    | onCommit u ws =>
      simp only [emitOne, commitPending, hi, Spec.step, hp]
      simpa [hd] using Kv.quiet_begin_writes p.kv ws (m + 1)
    | finish => simp [emitOne, commitPending, hi, Spec.step, Spec.flush, hp, Kv.run, hd]
    | backspace u => simp [emitOne, hi, Spec.step, hp, Kv.run, hd]
    | write w =>
      cases w <;> simp [emitOne, Write.toOp, Spec.step, hp, Kv.run, Kv.step, hi, hd, applyCommits_snoc,
        applyWrites_single, applyWrite]
    | closeDb =>
      simp [emitOne, commitPending, hi, Spec.step, Spec.flush, hp, hd]
      cases m <;> simp [Kv.run, Kv.step, hd]
    | openDb =>
      simp [emitOne, hi, Spec.step, Kv.run, Kv.step, hd]
  | some b =>
    have hi : p.kv.inTxn = true := by simpa [hp] using htx
    have hbb : p.kv.batch = b := hb b hp
    cases e with
    | tick d => simp [emitOne, Spec.step, Kv.run, hd]
    | onCommit u ws =>
      simp only [emitOne, commitPending, hi, Spec.step, hp]
      have := Kv.quiet_begin_writes (p.kv.step .commit) ws m
      simp [List.take_succ_cons, Kv.run_cons] at this ⊢
      rw [this]
      simp [Kv.step, hi, hbb, hd, applyCommits_snoc]
    | finish =>
      simp [emitOne, commitPending, hi, Spec.step, Spec.flush, hp, Kv.run, Kv.step, hd, hbb, applyCommits_snoc]
    | backspace u =>
      simp only [emitOne, hi, Spec.step, hp, hn, ht]
      cases hw : withinWindow s.now (s.ttime u) <;>
        simp [Kv.run, Kv.step, hi, hd, hbb, Spec.flush, hp, applyCommits_snoc]
    | write w =>
      cases w <;> simp [emitOne, Write.toOp, Spec.step, hp, Kv.run, Kv.step, hi, hd]
    | closeDb =>
      simp only [emitOne, commitPending, hi, Spec.step, Spec.flush, hp]
      have := Kv.quiet_close (p.kv.step .commit) m
      simp [List.take_succ_cons, Kv.run_cons] at this ⊢
      rw [this]
      simp [Kv.step, hi, hbb, hd, applyCommits_snoc]
    | openDb =>
      simp [emitOne, hi, Spec.step, Kv.run, hd]

theorem Rel.run {init : Store} {p : PState} {s : Spec} (h : Rel init p s) (es : List Event) :
    Rel init (p.run es) (s.run es) := by
  induction es generalizing p s with
  | nil => exact h
  | cons e r ih => exact ih (h.step e)

/-! ### the store is a map -/

theorem cmpBytes_eq_iff (a b : Bytes) : cmpBytes a b = .eq ↔ a = b := by
  induction a generalizing b with
  | nil => cases b <;> simp [cmpBytes]
  | cons x xs ih =>
    cases b with
    | nil => simp [cmpBytes]
    | cons y ys =>
      simp only [cmpBytes]
      by_cases h1 : x < y
      · simp [h1]; intro h; exact absurd (h ▸ h1) (UInt8.lt_irrefl _)
      · by_cases h2 : y < x
        · simp [h1, h2]; intro h; exact absurd (h ▸ h2) (UInt8.lt_irrefl _)
        · have : x = y := UInt8.le_antisymm (UInt8.not_lt.mp h2) (UInt8.not_lt.mp h1)
          simp [h1, h2, ih, this]

theorem cmpBytes_lt_ne (a b : Bytes) (h : cmpBytes a b = .lt) : a ≠ b := by
  intro e; have := (cmpBytes_eq_iff a b).mpr e; rw [this] at h; cases h
theorem cmpBytes_gt_ne (a b : Bytes) (h : cmpBytes a b = .gt) : a ≠ b := by
  intro e; have := (cmpBytes_eq_iff a b).mpr e; rw [this] at h; cases h

theorem Store.get_cons (a b : Bytes) (r : Store) (k : Bytes) :
    Store.get ((a, b) :: r) k = if a = k then some b else Store.get r k := by
  by_cases h : a = k <;> simp [Store.get, List.find?_cons, h]

theorem Store.get_put_same (s : Store) (k v : Bytes) : (s.put k v).get k = some v := by
  induction s with
  | nil => simp [Store.put, Store.get_cons]
  | cons e r ih =>
    obtain ⟨k', v'⟩ := e
    simp only [Store.put]
    cases h : cmpBytes k k' with
    | lt => simp [Store.get_cons]
    | eq => simp [Store.get_cons]
    | gt =>
      have hne : ¬ (k' = k) := fun e => cmpBytes_gt_ne k k' h e.symm
      simp [Store.get_cons, hne, ih]

theorem Store.get_put_other (s : Store) (k v k2 : Bytes) (hne : k2 ≠ k) : (s.put k v).get k2 = s.get k2 := by
  induction s with
  | nil => simp [Store.put, Store.get_cons, Ne.symm hne, Store.get]
  | cons e r ih =>
    obtain ⟨k', v'⟩ := e
    simp only [Store.put]
    cases h : cmpBytes k k' with
    | lt => simp [Store.get_cons, Ne.symm hne]
    | eq =>
      have : k = k' := (cmpBytes_eq_iff k k').mp h
      subst this
      simp [Store.get_cons, Ne.symm hne]
    | gt => simp [Store.get_cons, ih]

theorem Store.get_erase_same (s : Store) (k : Bytes) : (s.erase k).get k = none := by
  induction s with
  | nil => rfl
  | cons e r ih =>
    obtain ⟨a, b⟩ := e
    by_cases h : a = k
    · simpa [Store.erase, List.filter_cons, h] using ih
    · have : Store.erase ((a, b) :: r) k = (a, b) :: Store.erase r k := by simp [Store.erase, List.filter_cons, h]
      rw [this, Store.get_cons]; simp [h, ih]

theorem Store.get_erase_other (s : Store) (k k2 : Bytes) (hne : k2 ≠ k) : (s.erase k).get k2 = s.get k2 := by
  induction s with
  | nil => rfl
  | cons e r ih =>
    obtain ⟨a, b⟩ := e
    by_cases h : a = k
    · have : Store.erase ((a, b) :: r) k = Store.erase r k := by simp [Store.erase, List.filter_cons, h]
      have h2 : ¬ a = k2 := fun e => hne (e ▸ h)
      rw [this, Store.get_cons, ih]; simp [h2]
    · have : Store.erase ((a, b) :: r) k = (a, b) :: Store.erase r k := by simp [Store.erase, List.filter_cons, h]
      rw [this, Store.get_cons, Store.get_cons, ih]

/-! ### reading through the pending batch -/

theorem lastWrite_append_single (b : List Write) (w : Write) (k : Bytes) :
    lastWrite (b ++ [w]) k = if w.key = k then some w else lastWrite b k := by
  induction b with
  | nil => simp [lastWrite]
  | cons x r ih =>
    simp only [List.cons_append, lastWrite, ih]
    by_cases h : w.key = k
    · simp [h]
    · simp [h]

/-- applying a batch and then reading the db is reading through the overlay -/
theorem get_applyWrites (d : Store) (b : List Write) (k : Bytes) :
    (applyWrites d b).get k =
      match lastWrite b k with
      | some (.put _ v) => some v
      | some (.del _) => none
      | none => d.get k := by
  induction b generalizing d with
  | nil => simp [applyWrites, lastWrite]
  | cons w r ih =>
    have ih' := ih (applyWrite d w)
    simp only [applyWrites, List.foldl_cons] at ih' ⊢
    rw [ih']
    simp only [lastWrite]
    cases hl : lastWrite r k with
    | some x => cases x <;> rfl
    | none =>
      cases w with
      | put k' v =>
        by_cases h : k' = k
        · subst h; simp [Write.key, applyWrite, Store.get_put_same]
        · simp [Write.key, h, applyWrite, Store.get_put_other _ _ _ _ (Ne.symm h)]
      | del k' =>
        by_cases h : k' = k
        · subst h; simp [Write.key, applyWrite, Store.get_erase_same]
        · simp [Write.key, h, applyWrite, Store.get_erase_other _ _ _ (Ne.symm h)]

/-! ### a concrete history for the non-vacuity examples in `Props/C11.lean` -/
namespace Example
def k1 : Bytes := [106, 97, 32, 9, 65]
def k2 : Bytes := [98, 105, 32, 9, 66]
def tickKey : Bytes := metaKey [47, 116, 105, 99, 107]
def c1 : List Write := [.put tickKey [49], .put k1 [49]]
def c2 : List Write := [.put tickKey [50], .put k2 [49]]
/-- open, initialise the tick, a commit flushed by the next key, a commit taken back with BackSpace one second
later, the same commit again and BackSpace after five seconds (flush), a commit by a second session, close -/
def hist : List Event :=
  [.openDb, .write (.put tickKey [48]), .onCommit 0 c1, .finish, .onCommit 0 c2, .tick 1, .backspace 0,
   .onCommit 0 c2, .tick 5, .backspace 0, .onCommit 1 c1, .closeDb]
end Example

end RimeModel.C11
