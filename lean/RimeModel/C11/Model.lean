/-!
# C11 — write-batch / transaction state machine of the LevelDB user dictionary, with crash transitions

Three layers, each an executable definition.

* **M-kv** (`Kv`, `Op`, `Kv.step`): what `src/rime/dict/level_db.cc` does.  `durable` is what LevelDB holds (and
  what survives a kill), `batch` is `LevelDbWrapper::batch`, `inTxn` is `Transactional::in_transaction_`.
  `LevelDb::Update/Erase` route on `in_transaction()`: to the batch inside a transaction, straight to the db
  otherwise; `MetaUpdate k v` *is* `Update ("\x01" ++ k) v`, so the tick metadata takes the same route as the
  entries; `Fetch` reads the pending batch first (`LevelDbWrapper::pending`, an overlay that mirrors the open
  `WriteBatch` per key and is cleared with it) and `durable` otherwise (`Kv.fetch`) — a transaction reads its own
  writes; that decides the *values* a commit writes (they come with the trace), not atomicity.  `BeginTransaction` clears the batch and sets the flag,
  `AbortTransaction`/`CommitTransaction` are no-ops when no transaction is open, `CommitTransaction` applies the
  whole batch in order (one `leveldb::DB::Write`), `Close` drops the flag without writing, `Open` makes a fresh
  wrapper (empty batch).  `crash` keeps `durable` only.
* **protocol** (`Event`, `emitOne`, `PState.step`, `emit`): which `Op`s `Memory` / `UserDictionary` issue
  (`memory.cc`, `user_dictionary.cc`, `script_translator.cc:202`, `table_translator.cc:249`), including the
  3-second BackSpace window measured on the (virtual) clock with one `transaction_time_` per `UserDictionary`
  object (several sessions share one db through `UserDictionaryComponent::db_pool_`).
* **spec** (`Spec`): the property's own vocabulary — a list of whole commits already durable (`done`) and at most
  one commit made but not yet flushed (`pending`).  No batch, no flag.
-/
namespace RimeModel.C11

abbrev Bytes := List UInt8

/-- bytewise lexicographic comparison (LevelDB's default `BytewiseComparator`) -/
def cmpBytes : Bytes → Bytes → Ordering
  | [], [] => .eq
  | [], _ :: _ => .lt
  | _ :: _, [] => .gt
  | a :: as, b :: bs => if a < b then .lt else if b < a then .gt else cmpBytes as bs

/-- the ordered key → value map (kept sorted by `cmpBytes`, no duplicate keys) -/
abbrev Store := List (Bytes × Bytes)

def Store.put : Store → Bytes → Bytes → Store
  | [], k, v => [(k, v)]
  | (k', v') :: rest, k, v =>
    match cmpBytes k k' with
    | .lt => (k, v) :: (k', v') :: rest
    | .eq => (k, v) :: rest
    | .gt => (k', v') :: Store.put rest k v

def Store.erase (s : Store) (k : Bytes) : Store := s.filter (fun e => !(e.1 == k))

def Store.get (s : Store) (k : Bytes) : Option Bytes := (s.find? (fun e => e.1 == k)).map (·.2)

/-- one entry of a `leveldb::WriteBatch` -/
inductive Write
  | put (k v : Bytes)
  | del (k : Bytes)
  deriving DecidableEq, Repr

def applyWrite (s : Store) : Write → Store
  | .put k v => s.put k v
  | .del k => s.erase k

/-- `leveldb::DB::Write(batch)`: the entries in order, as one atomic step -/
def applyWrites (s : Store) (ws : List Write) : Store := ws.foldl applyWrite s

/-- a sequence of whole commits -/
def applyCommits (s : Store) (us : List (List Write)) : Store := us.foldl applyWrites s

structure Kv where
  durable : Store
  batch : List Write
  inTxn : Bool
  deriving Repr

def Kv.init (s : Store) : Kv := { durable := s, batch := [], inTxn := false }

inductive Op
  | begin
  | commit
  | abort
  | update (k v : Bytes)
  | erase (k : Bytes)
  | close
  | reopen
  | crash
  deriving DecidableEq, Repr

/-- `kMetaCharacter` -/
def metaKey (k : Bytes) : Bytes := 1 :: k

/-- `LevelDb::MetaUpdate` -/
def Op.metaUpdate (k v : Bytes) : Op := .update (metaKey k) v

def Kv.step (s : Kv) : Op → Kv
  | .begin => { s with batch := [], inTxn := true }
  | .abort => if s.inTxn then { s with batch := [], inTxn := false } else s
  | .commit =>
    if s.inTxn then { durable := applyWrites s.durable s.batch, batch := [], inTxn := false } else s
  | .update k v =>
    if s.inTxn then { s with batch := s.batch ++ [.put k v] } else { s with durable := s.durable.put k v }
  | .erase k =>
    if s.inTxn then { s with batch := s.batch ++ [.del k] } else { s with durable := s.durable.erase k }
  | .close => { s with inTxn := false }
  | .reopen => { s with batch := [] }
  | .crash => { durable := s.durable, batch := [], inTxn := false }

def Kv.run (s : Kv) (ops : List Op) : Kv := ops.foldl Kv.step s

def Write.key : Write → Bytes
  | .put k _ => k
  | .del k => k

/-- what the batch will do to key `k`: its last entry for `k` (`LevelDbWrapper::pending[k]`) -/
def lastWrite : List Write → Bytes → Option Write
  | [], _ => none
  | w :: r, k =>
    match lastWrite r k with
    | some x => some x
    | none => if w.key = k then some w else none

/-- `LevelDbWrapper::Fetch`: the pending batch first (a pending deletion is a miss), else the db -/
def Kv.fetch (s : Kv) (k : Bytes) : Option Bytes :=
  match lastWrite s.batch k with
  | some (.put _ v) => some v
  | some (.del _) => none
  | none => s.durable.get k

/-- does `LevelDb::Update/Erase` send this op to the batch in state `s`?  (compared with the routing the
trace hook reports from inside `LevelDbWrapper::Update/Erase`) -/
def Kv.routesToBatch (s : Kv) : Op → Option Bool
  | .update _ _ => some s.inTxn
  | .erase _ => some s.inTxn
  | _ => none

/-! ### unit accounting on raw op traces -/

/-- a `Kv` together with the list of units (whole batches, or single writes issued outside a transaction)
that have been applied to `durable`, oldest first -/
structure Acc where
  kv : Kv
  flushed : List (List Write)

def Acc.init (s : Store) : Acc := { kv := Kv.init s, flushed := [] }

def Acc.step (a : Acc) (o : Op) : Acc :=
  { kv := a.kv.step o
    flushed :=
      match o with
      | .commit => if a.kv.inTxn then a.flushed ++ [a.kv.batch] else a.flushed
      | .update k v => if a.kv.inTxn then a.flushed else a.flushed ++ [[.put k v]]
      | .erase k => if a.kv.inTxn then a.flushed else a.flushed ++ [[.del k]]
      | _ => a.flushed }

def Acc.run (a : Acc) (ops : List Op) : Acc := ops.foldl Acc.step a

/-- units made so far: the flushed ones plus the open batch, if a transaction is open -/
def Acc.made (a : Acc) : List (List Write) := a.flushed ++ (if a.kv.inTxn then [a.kv.batch] else [])

/-- grammar of the traces the protocol emits: `begin` only outside a transaction, `commit`/`abort` only inside
one, `close`/`reopen` only outside (nothing pending can be dropped by `Close`); `crash` ends the trace. -/
def wfFrom : Bool → List Op → Bool
  | _, [] => true
  | t, .begin :: r => !t && wfFrom true r
  | t, .commit :: r => t && wfFrom false r
  | t, .abort :: r => t && wfFrom false r
  | t, .update _ _ :: r => wfFrom t r
  | t, .erase _ :: r => wfFrom t r
  | t, .close :: r => !t && wfFrom false r
  | t, .reopen :: r => !t && wfFrom false r
  | _, .crash :: r => r.isEmpty

def traceWellFormed (ops : List Op) : Bool := wfFrom false ops

/-! ### protocol layer -/

inductive Event
  /-- the virtual clock advances -/
  | tick (d : Nat)
  /-- `Memory::OnCommit` of the `UserDictionary` object `u`: `StartSession` then the updates `Memorize`
  issues through `UpdateEntry` (tick metadata and entries), in order -/
  | onCommit (u : Nat) (ws : List Write)
  /-- `CommitPendingTransaction`: next translator query, unhandled key other than BackSpace, `~UserDictionary` -/
  | finish
  /-- unhandled BackSpace seen by the `Memory` owning `u` -/
  | backspace (u : Nat)
  /-- an update outside the commit path: `OnDeleteEntry`'s `UpdateEntry(-1)`, `CreateMetadata`, `Initialize` -/
  | write (w : Write)
  /-- the last `UserDictionary` sharing the db goes away: `CommitPendingTransaction`, then `LevelDb::Close` -/
  | closeDb
  /-- `LevelDb::Open`: refused (`loaded()`) while the db is open — and a transaction can only be open on a
  loaded db, `Close` resets the flag — else a fresh wrapper -/
  | openDb
  deriving Repr

def Write.toOp : Write → Op
  | .put k v => .update k v
  | .del k => .erase k

structure PState where
  kv : Kv
  now : Nat
  ttime : Nat → Nat

def PState.init (s : Store) (now : Nat) : PState := { kv := Kv.init s, now := now, ttime := fun _ => 0 }

/-- `RevertRecentTransaction`: `!(time(NULL) - transaction_time_ > 3)` -/
def withinWindow (now t : Nat) : Bool := decide (now - t ≤ 3)

def commitPending (inTxn : Bool) : List Op := if inTxn then [.commit] else []

def emitOne (s : PState) : Event → List Op
  | .tick _ => []
  | .onCommit _ ws => commitPending s.kv.inTxn ++ [.begin] ++ ws.map Write.toOp
  | .finish => commitPending s.kv.inTxn
  | .backspace u =>
    if s.kv.inTxn then (if withinWindow s.now (s.ttime u) then [.abort] else [.commit]) else []
  | .write w => [w.toOp]
  | .closeDb => commitPending s.kv.inTxn ++ [.close]
  | .openDb => if s.kv.inTxn then [] else [.reopen]

def PState.step (s : PState) (e : Event) : PState :=
  { kv := s.kv.run (emitOne s e)
    now := match e with
      | .tick d => s.now + d
      | _ => s.now
    ttime := match e with
      | .onCommit u _ => fun x => if x = u then s.now else s.ttime x
      | _ => s.ttime }

def PState.run (s : PState) (es : List Event) : PState := es.foldl PState.step s

def emit (s : PState) : List Event → List Op
  | [] => []
  | e :: es => emitOne s e ++ emit (s.step e) es

/-! ### specification layer: whole commits only -/

structure Spec where
  /-- commits whose effect is durable, oldest first -/
  done : List (List Write)
  /-- the last commit, made but not yet flushed by a following key -/
  pending : Option (List Write)
  now : Nat
  ttime : Nat → Nat

def Spec.init (now : Nat) : Spec := { done := [], pending := none, now := now, ttime := fun _ => 0 }

def Spec.flush (s : Spec) : Spec := { s with done := s.done ++ s.pending.toList, pending := none }

def Spec.step (s : Spec) : Event → Spec
  | .tick d => { s with now := s.now + d }
  | .onCommit u ws =>
    { done := s.done ++ s.pending.toList, pending := some ws, now := s.now
      ttime := fun x => if x = u then s.now else s.ttime x }
  | .finish => s.flush
  | .backspace u =>
    match s.pending with
    | none => s
    | some _ => if withinWindow s.now (s.ttime u) then { s with pending := none } else s.flush
  | .write w =>
    match s.pending with
    | some p => { s with pending := some (p ++ [w]) }
    | none => { s with done := s.done ++ [[w]] }
  | .closeDb => s.flush
  | .openDb => s

def Spec.run (s : Spec) (es : List Event) : Spec := es.foldl Spec.step s

/-- the commits made (and not taken back with BackSpace) -/
def Spec.made (s : Spec) : List (List Write) := s.done ++ s.pending.toList

end RimeModel.C11
