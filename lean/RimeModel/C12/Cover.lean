import RimeModel.C12.Spec
/-! # C12 — the plan covers every reachable schema -/
namespace RimeModel.C12

set_option linter.unusedSectionVars false

variable {K : Type}

/-- handled ids and assignments only grow; a handled, valid schema has its assignments in the plan -/
structure Ext (E : Env K) (S : Src) (bs bs' : Plan K) : Prop where
  built : ∀ s ∈ bs.built, s ∈ bs'.built
  assigns : ∀ a ∈ bs.assigns, a ∈ bs'.assigns

def Cov (E : Env K) (S : Src) (bs : Plan K) : Prop :=
  ∀ s ∈ bs.built, E.schemaPresent s = true → E.schemaOk s = true → ∀ a ∈ schemaAssigns E S s, a ∈ bs.assigns

theorem Ext.refl (E : Env K) (S : Src) (bs : Plan K) : Ext E S bs bs := ⟨fun _ h => h, fun _ h => h⟩

theorem Ext.trans {E : Env K} {S : Src} {a b c : Plan K} (h1 : Ext E S a b) (h2 : Ext E S b c) : Ext E S a c :=
  ⟨fun s hs => h2.built s (h1.built s hs), fun x hx => h2.assigns x (h1.assigns x hx)⟩

theorem specBuild_ext (E : Env K) (S : Src) (asDep : Bool) (bs : Plan K) (sid : String) :
    Ext E S bs (specBuild E S asDep bs sid) ∧ sid ∈ (specBuild E S asDep bs sid).built := by
  unfold specBuild
  split
  · next h => exact ⟨Ext.refl E S bs, by simpa using h⟩
  · split
    · exact ⟨⟨fun s hs => by simp [hs], fun _ h => h⟩, by simp⟩
    · split
      · exact ⟨⟨fun s hs => by simp [hs], fun _ h => h⟩, by simp⟩
      · exact ⟨⟨fun s hs => by simp [hs], fun a h => by simp [h]⟩, by simp⟩

theorem specBuild_cov {E : Env K} {S : Src} (asDep : Bool) {bs : Plan K} (h : Cov E S bs) (sid : String) :
    Cov E S (specBuild E S asDep bs sid) := by
  unfold specBuild
  split
  · exact h
  · split
    · next hp =>
      intro s hs hsp hso a ha
      simp only [List.mem_cons] at hs
      rcases hs with e | hs
      · subst e; simp [hsp] at hp
      · exact h s hs hsp hso a ha
    · split
      · next hok =>
        intro s hs hsp hso a ha
        simp only [List.mem_cons] at hs
        rcases hs with e | hs
        · subst e; simp [hso] at hok
        · exact h s hs hsp hso a ha
      · intro s hs hsp hso a ha
        simp only [List.mem_cons] at hs
        simp only [List.mem_append]
        rcases hs with e | hs
        · subst e; exact Or.inr ha
        · exact Or.inl (h s hs hsp hso a ha)

theorem depsFold_ext (E : Env K) (S : Src) (deps : List String) :
    ∀ (bs : Plan K), Cov E S bs →
      Ext E S bs (deps.foldl (specBuild E S true) bs) ∧ Cov E S (deps.foldl (specBuild E S true) bs) ∧
      ∀ x ∈ deps, x ∈ (deps.foldl (specBuild E S true) bs).built := by
  induction deps with
  | nil => intro bs h; exact ⟨Ext.refl E S bs, h, by simp⟩
  | cons d deps ih =>
    intro bs h
    simp only [List.foldl_cons]
    have h1 := specBuild_ext E S true bs d
    have h2 := ih _ (specBuild_cov true h d)
    refine ⟨h1.1.trans h2.1, h2.2.1, ?_⟩
    intro x hx
    simp only [List.mem_cons] at hx
    rcases hx with e | hx
    · subst e; exact h2.1.built _ h1.2
    · exact h2.2.2 x hx

theorem specVisit_ext (E : Env K) (S : Src) (bs : Plan K) (h : Cov E S bs) (sid : String) :
    Ext E S bs (specVisit E S bs sid) ∧ Cov E S (specVisit E S bs sid) ∧
    sid ∈ (specVisit E S bs sid).built ∧
    ∀ c, E.compile (.schema sid) S = some c → ∀ x ∈ c.deps, x ∈ (specVisit E S bs sid).built := by
  unfold specVisit
  have h1 := specBuild_ext E S false bs sid
  have hc1 := specBuild_cov false h sid
  cases hc : E.compile (.schema sid) S with
  | none => exact ⟨h1.1, hc1, h1.2, by intro c hc'; cases hc'⟩
  | some c =>
    simp only
    have h2 := depsFold_ext E S c.deps _ hc1
    refine ⟨h1.1.trans h2.1, h2.2.1, h2.1.built _ h1.2, ?_⟩
    intro c' hc' x hx
    cases hc'
    exact h2.2.2 x hx

theorem listFold_ext (E : Env K) (S : Src) (l : List String) :
    ∀ (bs : Plan K), Cov E S bs →
      Ext E S bs (l.foldl (specVisit E S) bs) ∧ Cov E S (l.foldl (specVisit E S) bs) ∧
      ∀ sid, Reach E S l sid → sid ∈ (l.foldl (specVisit E S) bs).built := by
  induction l with
  | nil =>
    intro bs h
    refine ⟨Ext.refl E S bs, h, ?_⟩
    intro sid hr
    rcases hr with hr | ⟨s, hs, _⟩
    · cases hr
    · cases hs
  | cons x l ih =>
    intro bs h
    simp only [List.foldl_cons]
    have h1 := specVisit_ext E S bs h x
    have h2 := ih _ h1.2.1
    refine ⟨h1.1.trans h2.1, h2.2.1, ?_⟩
    intro sid hr
    rcases hr with hr | ⟨s, hs, c, hc, hx⟩
    · simp only [List.mem_cons] at hr
      rcases hr with e | hr
      · subst e; exact h2.1.built _ h1.2.2.1
      · exact h2.2.2 sid (Or.inl hr)
    · simp only [List.mem_cons] at hs
      rcases hs with e | hs
      · subst e; exact h2.1.built _ (h1.2.2.2 c hc sid hx)
      · exact h2.2.2 sid (Or.inr ⟨s, hs, c, hc, hx⟩)

/-- every assignment of a reachable schema with a valid source is in the plan, and so is `default` -/
theorem plan_covers {E : Env K} {S : Src} {c0 : CfgArt} {l : List String} (hc0 : E.compile .default S = some c0)
    (hl : c0.schemaList = some l) :
    Assign.cfg .default c0 ∈ plan E S ∧
    ∀ sid, Reach E S l sid → E.schemaPresent sid = true → E.schemaOk sid = true →
      ∀ a ∈ schemaAssigns E S sid, a ∈ plan E S := by
  unfold plan planState
  simp only [hc0, hl]
  have h0 : Cov E S (⟨[], [.cfg .default c0], 0⟩ : Plan K) := by intro s hs; cases hs
  have := listFold_ext E S l _ h0
  refine ⟨this.1.assigns _ (by simp), ?_⟩
  intro sid hr hp hok a ha
  exact this.2.1 sid (this.2.2 sid hr) hp hok a ha

end RimeModel.C12
