import RimeModel.C12.Spec
/-! # C12 — a concrete environment (two schemas, a dependency, a pack) used by the non-vacuity examples -/
namespace RimeModel.C12.Ex
open RimeModel.C12

/-- an ideal checksum: the list of everything fed to it (trivially injective) -/
abbrev ExK := Option CfgArt × List (List Content)

def exCompile : CfgId → Src → Option CfgArt
  | .default, S =>
    match S "default" with
    | none => none
    | some ct => some
        { stamps := [("default", recorded ct.2), ("default.custom", stampOf S "default.custom")]
          inputs := [("default", some ct.1), ("default.custom", (S "default.custom").map (·.1))]
          schemaList := some ["sa", "sb"], dict := none, prism := "", packs := [], deps := [] }
  | .schema sid, S =>
    match S (sid ++ ".schema") with
    | none => none
    | some ct => some
        { stamps := [(sid ++ ".schema", recorded ct.2)]
          inputs := [(sid ++ ".schema", some ct.1)]
          schemaList := none
          dict := some (if sid = "sa" then "da" else "db")
          prism := sid
          packs := if sid = "sa" then ["pk"] else []
          deps := if sid = "sa" then ["sb"] else [] }

def exE : Env ExK :=
  { compile := exCompile
    schemaPresent := fun s => s = "sa" || s = "sb"
    schemaOk := fun s => s = "sa" || s = "sb"
    dictSrc := fun d =>
      if d = "da" then ⟨true, true, some [100, 101]⟩
      else if d = "db" then ⟨true, true, some [102]⟩
      else if d = "pk" then ⟨true, true, some [103]⟩
      else ⟨false, false, none⟩
    ck := fun s l => (s.1, l :: s.2)
    zero := (none, [])
    fck := fun a => (some a, []) }

/-- an earlier state of the sources: `sa.schema.yaml` had content 7 and mtime 9; `sb.schema.yaml` is dated
    2040-01-01T00:00:12Z (recorded as the negative `int` -2085978484 by the 32-bit variant, as itself by the 64-bit one) -/
def exS0 : Src := fun r =>
  if r = "default" then some (1, 10) else if r = "sa.schema" then some (7, 9)
  else if r = "sb.schema" then some (3, 2208988812) else none

/-- the current sources: `sa.schema.yaml` was edited (content 2, mtime 11) -/
def exS : Src := fun r =>
  if r = "default" then some (1, 10) else if r = "sa.schema" then some (2, 11)
  else if r = "sb.schema" then some (3, 2208988812) else none

def exCat : Rid → Stamp → Content := fun _ t => if t = 9 then 7 else if t = 10 then 1 else if t = 11 then 2 else 3

/-! ### the example meets every hypothesis of the C12 theorems -/

theorem seen_some {S S' : Src} {r : Rid} {ct : Content × Time} (hs : S r = some ct) (h : seen S' r = seen S r) :
    ∃ ct', S' r = some ct' ∧ ct'.1 = ct.1 ∧ recorded ct'.2 = recorded ct.2 := by
  unfold seen at h
  rw [hs] at h
  cases hs' : S' r with
  | none => rw [hs'] at h; simp at h
  | some ct' =>
    rw [hs'] at h
    simp only [Option.map_some, Option.some.injEq, Prod.mk.injEq] at h
    exact ⟨ct', rfl, h.1, h.2⟩

theorem seen_fst {S S' : Src} {r : Rid} (h : seen S' r = seen S r) : (S' r).map (·.1) = (S r).map (·.1) := by
  unfold seen at h
  cases hs : S r <;> cases hs' : S' r <;> rw [hs, hs'] at h <;> simp at h ⊢
  exact h.1

theorem seen_stampOf {S S' : Src} {r : Rid} (h : seen S' r = seen S r) : stampOf S' r = stampOf S r := by
  unfold seen at h
  unfold stampOf
  cases hs : S r <;> cases hs' : S' r <;> rw [hs, hs'] at h <;> simp at h ⊢
  exact h.2

theorem exCompilerOK : CompilerOK exE := by
  constructor
  · intro id S a h p hp
    cases id with
    | default =>
      simp only [exE, exCompile] at h
      cases hs : S "default" with
      | none => rw [hs] at h; cases h
      | some ct =>
        rw [hs] at h
        cases h
        simp only [List.mem_cons, List.not_mem_nil, or_false] at hp
        rcases hp with e | e <;> subst e <;> simp [stampOf, hs]
    | schema sid =>
      simp only [exE, exCompile] at h
      cases hs : S (sid ++ ".schema") with
      | none => rw [hs] at h; cases h
      | some ct =>
        rw [hs] at h
        cases h
        simp only [List.mem_cons, List.not_mem_nil, or_false] at hp
        subst hp
        simp [stampOf, hs]
  · intro id S S' a h hag
    cases id with
    | default =>
      simp only [exE, exCompile] at h ⊢
      cases hs : S "default" with
      | none => rw [hs] at h; cases h
      | some ct =>
        rw [hs] at h
        cases h
        have h1 := hag ("default", recorded ct.2) (by simp)
        have h2 := hag ("default.custom", stampOf S "default.custom") (by simp)
        simp only at h1 h2
        obtain ⟨ct', hs', e1, e2⟩ := seen_some hs h1
        simp [hs', e1, e2, seen_fst h2, seen_stampOf h2]
    | schema sid =>
      simp only [exE, exCompile] at h ⊢
      cases hs : S (sid ++ ".schema") with
      | none => rw [hs] at h; cases h
      | some ct =>
        rw [hs] at h
        cases h
        have h1 := hag (sid ++ ".schema", recorded ct.2) (by simp)
        simp only at h1
        obtain ⟨ct', hs', e1, e2⟩ := seen_some hs h1
        simp [hs', e1, e2]

theorem exCkOK : CkOK exE := by
  constructor
  · intro s l s' l' _ _ h
    simp only [exE, Prod.mk.injEq, List.cons.injEq] at h
    exact ⟨Prod.ext h.1 h.2.2, h.2.1⟩
  · intro s l _ h
    simp [exE] at h
  · intro a b h
    simp only [exE, Prod.mk.injEq, Option.some.injEq, and_true] at h
    exact h

theorem exPos (S : Src) (h : S = exS ∨ S = exS0) : PosTimes S := by
  intro r c t hr
  rcases h with h | h <;> subst h <;> simp only [exS, exS0] at hr <;> (repeat' split at hr) <;>
    first
      | (obtain ⟨_, h2⟩ := Prod.mk.inj (Option.some.inj hr); subst h2; decide)
      | cases hr

theorem exStamped (S : Src) (h : S = exS ∨ S = exS0) : Stamped exCat S := by
  intro r c t hr
  rcases h with h | h <;> subst h <;> simp only [exS, exS0] at hr <;> (repeat' split at hr) <;>
    first
      | (obtain ⟨h1, h2⟩ := Prod.mk.inj (Option.some.inj hr); subst h1 h2; rfl)
      | cases hr

theorem exDictOK (d : String) (h : d = "da" ∨ d = "db" ∨ d = "pk") : DictOK exE d := by
  rcases h with h | h | h <;> subst h <;> simp [DictOK, exE]

theorem exBuildOK (S : Src) (h : S = exS ∨ S = exS0) (sid : String) (hs : sid = "sa" ∨ sid = "sb") :
    SchemaBuildOK exE S sid := by
  have hsome : ∃ ct, S (sid ++ ".schema") = some ct := by
    rcases h with h | h <;> subst h <;> rcases hs with e | e <;> subst e <;> simp [exS, exS0]
  obtain ⟨ct, hct⟩ := hsome
  have hcomp : exE.compile (.schema sid) S = some
      { stamps := [(sid ++ ".schema", recorded ct.snd)], inputs := [(sid ++ ".schema", some ct.fst)], schemaList := none,
        dict := some (if sid = "sa" then "da" else "db"), prism := sid, packs := if sid = "sa" then ["pk"] else [],
        deps := if sid = "sa" then ["sb"] else [] } := by
    simp only [exE, exCompile, hct]
  refine ⟨_, hcomp, ?_⟩
  intro d hd
  simp only [Option.some.injEq] at hd
  rcases hs with e | e <;> subst e <;> simp at hd <;> subst hd
  · exact ⟨exDictOK _ (by simp), by intro q hq; simp at hq; subst hq; exact exDictOK _ (by simp)⟩
  · exact ⟨exDictOK _ (by simp), by intro q hq; simp at hq⟩

theorem exSourcesOK (S : Src) (h : S = exS ∨ S = exS0) : SourcesOK exE S := by
  refine ⟨exPos S h, ?_⟩
  have hd : ∃ ct, S "default" = some ct := by rcases h with h | h <;> subst h <;> simp [exS, exS0]
  obtain ⟨ct, hct⟩ := hd
  have hcomp : exE.compile .default S = some
      { stamps := [("default", recorded ct.2), ("default.custom", stampOf S "default.custom")]
        inputs := [("default", some ct.1), ("default.custom", (S "default.custom").map (·.1))]
        schemaList := some ["sa", "sb"], dict := none, prism := "", packs := [], deps := [] } := by
    simp only [exE, exCompile, hct]
  refine ⟨_, ["sa", "sb"], hcomp, rfl, ?_, ?_⟩
  · intro sid hs
    simp only [List.mem_cons, List.not_mem_nil, or_false] at hs
    rcases hs with e | e <;> subst e <;> simp [exE]
  · intro sid _ hp _
    have : sid = "sa" ∨ sid = "sb" := by simpa [exE] using hp
    exact exBuildOK S h sid this

theorem exFunctional : Functional (plan exE exS) := by decide

end RimeModel.C12.Ex
