import RimeModel.C12.Spec
/-! # C12 — helper lemmas: each deployment step, on a consistent staging directory, performs exactly its
planned assignments. -/
namespace RimeModel.C12

set_option linter.unusedSectionVars false

variable {K : Type} [DecidableEq K] {cat : Rid → Stamp → Content}

theorem upd_same {α β : Type} [DecidableEq α] (f : α → Option β) (k : α) (v : β) (h : f k = some v) :
    upd f k v = f := by
  funext x
  unfold upd
  split
  · next hx => rw [hx, h]
  · rfl

@[simp] theorem upd_self {α β : Type} [DecidableEq α] (f : α → Option β) (k : α) (v : β) :
    upd f k v k = some v := by simp [upd]

theorem upd_ne {α β : Type} [DecidableEq α] (f : α → Option β) (k x : α) (v : β) (h : x ≠ k) :
    upd f k v x = f x := by simp [upd, h]

/-! ### consistency is preserved by consistent assignments -/

def Assign.OK (E : Env K) (cat : Rid → Stamp → Content) : Assign K → Prop
  | .cfg id a => CfgOK E cat id a
  | .table _ t => TableOK E t
  | .reverse _ r => ReverseOK E r
  | .prism _ p => PrismOK E p

theorem Consistent.set {E : Env K} {A : Arts K} (h : Consistent E cat A) {a : Assign K}
    (ha : a.OK E cat) : Consistent E cat (A.set a) := by
  cases a with
  | cfg id c =>
    refine ⟨?_, h.table, h.prism, h.reverse⟩
    intro i x hx
    simp only [Arts.set, upd] at hx
    split at hx
    · next e => cases hx; rw [e]; exact ha
    · exact h.cfg i x hx
  | table n t =>
    refine ⟨h.cfg, ?_, h.prism, h.reverse⟩
    intro i x hx
    simp only [Arts.set, upd] at hx
    split at hx
    · cases hx; exact ha
    · exact h.table i x hx
  | reverse n t =>
    refine ⟨h.cfg, h.table, h.prism, ?_⟩
    intro i x hx
    simp only [Arts.set, upd] at hx
    split at hx
    · cases hx; exact ha
    · exact h.reverse i x hx
  | prism n t =>
    refine ⟨h.cfg, h.table, ?_, h.reverse⟩
    intro i x hx
    simp only [Arts.set, upd] at hx
    split at hx
    · cases hx; exact ha
    · exact h.prism i x hx

theorem Consistent.applyAssigns {E : Env K} (l : List (Assign K)) :
    ∀ {A : Arts K}, Consistent E cat A → (∀ a ∈ l, a.OK E cat) → Consistent E cat (applyAssigns A l) := by
  induction l with
  | nil => intro A h _; exact h
  | cons a l ih =>
    intro A h hl
    simp only [C12.applyAssigns, List.foldl_cons]
    exact ih (h.set (hl a (by simp))) (fun b hb => hl b (by simp [hb]))

theorem applyAssigns_append (A : Arts K) (l m : List (Assign K)) :
    applyAssigns A (l ++ m) = applyAssigns (applyAssigns A l) m := by
  simp [applyAssigns, List.foldl_append]

theorem consistent_empty (E : Env K) (cat : Rid → Stamp → Content) : Consistent E cat (Arts.empty : Arts K) :=
  ⟨fun _ _ h => by simp [Arts.empty] at h, fun _ _ h => by simp [Arts.empty] at h,
   fun _ _ h => by simp [Arts.empty] at h, fun _ _ h => by simp [Arts.empty] at h⟩

/-! ### `ConfigFileUpdate` -/

theorem stampOf_eq_zero {S : Src} (hp : PosTimes S) {r : Rid} (h : stampOf S r = 0) : S r = none := by
  unfold stampOf at h
  cases hs : S r with
  | none => rfl
  | some p =>
    rw [hs] at h
    exact absurd h (hp r p.1 p.2 (by rw [hs]))

/-- a compiled config that passes the staleness test is what compiling the current sources gives -/
theorem coherent_of_stamped {S₀ S : Src} (h0 : Stamped cat S₀) (h1 : Stamped cat S) : Coherent S₀ S := by
  intro r c c' t t' a b e
  rw [h0 r c t a, h1 r c' t' b, e]

theorem cfg_reuse {E : Env K} (hC : CompilerOK E) {S : Src} (hS : PosTimes S) (hSt : Stamped cat S)
    {id : CfgId} {a : CfgArt}
    (ha : CfgOK E cat id a) (hn : configNeedsUpdate S (some a) = false) : E.compile id S = some a := by
  obtain ⟨S₀, hc, hst0, hpos⟩ := ha
  apply hC.local' id S₀ S a hc
  intro p hp
  have hf := hC.faithful id S₀ a hc p hp
  have hst : stampStale S p = false := by
    simp only [configNeedsUpdate, List.any_eq_false] at hn
    simpa using hn p hp
  unfold stampStale at hst
  cases hs : S p.1 with
  | none =>
    rw [hs] at hst
    have h0 : p.2 = 0 := by simpa using hst
    rw [h0] at hf
    simp [seen, stampOf_eq_zero hpos hf.symm, hs]
  | some ct =>
    rw [hs] at hst
    have ht : p.2 = recorded ct.2 := by simpa using hst
    have hne : recorded ct.2 ≠ 0 := hS p.1 ct.1 ct.2 (by rw [hs])
    unfold stampOf at hf
    cases hs0 : S₀ p.1 with
    | none => rw [hs0] at hf; simp at hf; exact absurd (ht.symm.trans hf) hne
    | some ct0 =>
      rw [hs0] at hf
      simp at hf
      have ht0 : recorded ct0.2 = recorded ct.2 := hf.symm.trans ht
      -- same recorded time ⇒ same content (`Stamped`); the compiler sees the file only through `seen`
      have hc' : ct0.1 = ct.1 := by
        rw [hst0 p.1 ct0.1 ct0.2 (by rw [hs0]), hSt p.1 ct.1 ct.2 (by rw [hs]), ht0]
      simp [seen, hs, hs0, hc', ht0]

/-- a freshly compiled config passes the staleness test -/
theorem fresh_not_stale {E : Env K} (hC : CompilerOK E) {S : Src} {id : CfgId} {a : CfgArt}
    (hc : E.compile id S = some a) : configNeedsUpdate S (some a) = false := by
  simp only [configNeedsUpdate, List.any_eq_false]
  intro p hp
  have hf := hC.faithful id S a hc p hp
  unfold stampStale
  unfold stampOf at hf
  cases hs : S p.1 with
  | none => rw [hs] at hf; simp [hf]
  | some ct => rw [hs] at hf; simp [hf]

theorem set_cfg_same (A : Arts K) (id : CfgId) (c : CfgArt) (h : A.cfg id = some c) :
    A.set (.cfg id c) = A := by
  cases A
  simp only [Arts.set] at *
  congr
  exact upd_same _ _ _ h

theorem configFileUpdate_arts {E : Env K} (hC : CompilerOK E) {S : Src} (hS : PosTimes S) (hSt : Stamped cat S)
    {A : Arts K}
    (hA : Consistent E cat A) {id : CfgId} {c : CfgArt} (hc : E.compile id S = some c) :
    (configFileUpdate E S id A).1 = A.set (.cfg id c) := by
  unfold configFileUpdate
  split
  · rw [hc]; rfl
  · next hn =>
    cases ha : A.cfg id with
    | none => rw [ha] at hn; simp [configNeedsUpdate] at hn
    | some a =>
      rw [ha] at hn
      have := cfg_reuse hC hS hSt (hA.cfg id a ha) (by simpa using hn)
      rw [hc] at this
      cases this
      exact (set_cfg_same A id c ha).symm


/-! ### `DictCompiler::Compile` -/

theorem set_table_same (A : Arts K) (n : String) (t : TableArt K) (h : A.table n = some t) :
    A.set (.table n t) = A := by
  cases A
  simp only [Arts.set] at *
  congr
  exact upd_same _ _ _ h

theorem set_reverse_same (A : Arts K) (n : String) (t : ReverseArt K) (h : A.reverse n = some t) :
    A.set (.reverse n t) = A := by
  cases A
  simp only [Arts.set] at *
  congr
  exact upd_same _ _ _ h

theorem set_prism_same (A : Arts K) (n : String) (t : PrismArt K) (h : A.prism n = some t) :
    A.set (.prism n t) = A := by
  cases A
  simp only [Arts.set] at *
  congr
  exact upd_same _ _ _ h

theorem DictOK.filesOf {E : Env K} {d : String} (h : DictOK E d) :
    (E.dictSrc d).files = some (filesOf E d) ∧ filesOf E d ≠ [] := by
  obtain ⟨_, _, fs, hf, hne⟩ := h
  simp [C12.filesOf, hf, hne]

theorem cks_ne {E : Env K} {seed : K} {l : List Content} (h : l ≠ []) : cks E seed l = E.ck seed l := by
  unfold cks
  cases l with
  | nil => exact absurd rfl h
  | cons a l => simp

/-- a primary table whose checksum matches is the planned one -/
theorem table_uptodate {E : Env K} (hK : CkOK E) {t : TableArt K} (ht : TableOK E t) {fs : List Content}
    (hfs : fs ≠ []) (hck : t.ck = E.ck E.zero fs) : t = ⟨E.ck E.zero fs, none, fs⟩ := by
  obtain ⟨hne, hp⟩ := ht
  cases t with
  | mk ck pack files =>
    simp only at hne hp hck
    cases pack with
    | none =>
      simp only at hp
      have := (hK.inj _ _ _ _ hne hfs (hp.symm.trans hck)).2
      subst this
      rw [hck]
    | some sy =>
      cases sy with
      | empty => exact absurd hp id
      | of b =>
        simp only at hp
        have := (hK.inj _ _ _ _ hne hfs (hp.2.symm.trans hck)).1
        exact absurd this (hK.ne_zero _ _ hp.1)

/-- a pack table whose checksum matches is the planned one -/
theorem pack_uptodate {E : Env K} (hK : CkOK E) {t : TableArt K} (ht : TableOK E t) {fs pf : List Content}
    (hfs : fs ≠ []) (hpf : pf ≠ []) (hck : t.ck = E.ck (E.ck E.zero fs) pf) :
    t = ⟨E.ck (E.ck E.zero fs) pf, some (Syl.of fs), pf⟩ := by
  obtain ⟨hne, hp⟩ := ht
  cases t with
  | mk ck pack files =>
    simp only at hne hp hck
    cases pack with
    | none =>
      simp only at hp
      have := (hK.inj _ _ _ _ hne hpf (hp.symm.trans hck)).1
      exact absurd this.symm (hK.ne_zero _ _ hfs)
    | some sy =>
      cases sy with
      | empty => exact absurd hp id
      | of b =>
        simp only at hp
        have h1 := hK.inj _ _ _ _ hne hpf (hp.2.symm.trans hck)
        have h2 := (hK.inj _ _ _ _ hp.1 hfs h1.1).2
        rw [hck, h1.2, h2]

theorem packAssign_ok {E : Env K} {fs : List Content} (hfs : fs ≠ []) {q : String} (hq : DictOK E q) :
    (packAssign E (E.ck E.zero fs) fs q).OK E cat := by
  simp only [packAssign, Assign.OK, TableOK]
  exact ⟨hq.filesOf.2, hfs, trivial⟩

theorem packStep_spec {E : Env K} (hK : CkOK E) {fs : List Content} (hfs : fs ≠ []) {acc : PackAcc K}
    (hA : Consistent E cat acc.arts) (hs : acc.syl = Syl.of fs) {q : String} (hq : DictOK E q) :
    (packStep E (E.ck E.zero fs) acc q).arts = acc.arts.set (packAssign E (E.ck E.zero fs) fs q) ∧
    (packStep E (E.ck E.zero fs) acc q).syl = Syl.of fs := by
  have hf := hq.filesOf
  obtain ⟨hp, hh, _⟩ := hq
  unfold packStep
  simp only [hp, hh, hf.1, Bool.not_true, Bool.or_self, Bool.false_eq_true, ↓reduceIte, cks_ne hf.2]
  split
  · exact ⟨by simp [Arts.set, packAssign, hs], hs⟩
  · next hn =>
    refine ⟨?_, hs⟩
    cases ht : acc.arts.table q with
    | none => rw [ht] at hn; simp [tableStale] at hn
    | some t =>
      rw [ht] at hn
      have hck : t.ck = E.ck (E.ck E.zero fs) (filesOf E q) := by simpa [tableStale] using hn
      have := pack_uptodate hK (hA.table q t ht) hfs hf.2 hck
      subst this
      exact (set_table_same _ _ _ ht).symm

theorem packFold_spec {E : Env K} (hK : CkOK E) {fs : List Content} (hfs : fs ≠ []) (packs : List String) :
    ∀ {acc : PackAcc K}, Consistent E cat acc.arts → acc.syl = Syl.of fs → (∀ q ∈ packs, DictOK E q) →
      (packs.foldl (packStep E (E.ck E.zero fs)) acc).arts =
        applyAssigns acc.arts (packs.map (packAssign E (E.ck E.zero fs) fs)) := by
  induction packs with
  | nil => intro acc _ _ _; rfl
  | cons q packs ih =>
    intro acc hA hs hq
    have h1 := packStep_spec hK hfs hA hs (hq q (by simp))
    simp only [List.foldl_cons, List.map_cons, applyAssigns]
    have hA' : Consistent E cat (packStep E (E.ck E.zero fs) acc q).arts := by
      rw [h1.1]; exact hA.set (packAssign_ok hfs (hq q (by simp)))
    rw [ih hA' h1.2 (fun x hx => hq x (by simp [hx])), h1.1]
    rfl


theorem reverse_uptodate {E : Env K} (hK : CkOK E) {r : ReverseArt K} (hr : ReverseOK E r) {fs : List Content}
    (hfs : fs ≠ []) (hck : r.ck = E.ck E.zero fs) : r = ⟨E.ck E.zero fs, fs⟩ := by
  obtain ⟨hne, hp⟩ := hr
  cases r with
  | mk ck files =>
    simp only at hne hp hck
    have := (hK.inj _ _ _ _ hne hfs (hp.symm.trans hck)).2
    subst this
    rw [hck]

theorem prism_uptodate {E : Env K} (hK : CkOK E) {q : PrismArt K} (hq : PrismOK E q) {fs : List Content}
    (hfs : fs ≠ []) {sc : CfgArt} (hd : q.dictCk = E.ck E.zero fs) (hs : q.schemaCk = E.fck sc) :
    q = ⟨E.ck E.zero fs, E.fck sc, Syl.of fs, sc⟩ := by
  obtain ⟨h1, b, hb, hsyl, hdb⟩ := hq
  cases q with
  | mk dictCk schemaCk syl cfg =>
    simp only at h1 hsyl hdb hd hs
    have hc : cfg = sc := hK.fck_inj _ _ (h1.symm.trans hs)
    have hbf : b = fs := (hK.inj _ _ _ _ hb hfs (hdb.symm.trans hd)).2
    subst hc hbf
    rw [hd, hs, hsyl]

theorem primaryStep_spec {E : Env K} (hK : CkOK E) {A : Arts K} (hA : Consistent E cat A) {d : String}
    {fs : List Content} (hfs : fs ≠ []) {rt : Bool}
    (hrt : rt = false → (∃ t, A.table d = some t ∧ t.ck = E.ck E.zero fs) ∧
                         (∃ r, A.reverse d = some r ∧ r.ck = E.ck E.zero fs)) :
    primaryStep d (E.ck E.zero fs) fs rt A =
      (A.set (.table d ⟨E.ck E.zero fs, none, fs⟩)).set (.reverse d ⟨E.ck E.zero fs, fs⟩) := by
  unfold primaryStep
  cases rt with
  | true => rfl
  | false =>
    obtain ⟨⟨t, ht, htc⟩, ⟨r, hr, hrc⟩⟩ := hrt rfl
    have e1 := table_uptodate hK (hA.table d t ht) hfs htc
    have e2 := reverse_uptodate hK (hA.reverse d r hr) hfs hrc
    subst e1 e2
    simp only [Bool.false_eq_true, ↓reduceIte]
    rw [set_table_same _ _ _ ht, set_reverse_same _ _ _ hr]

theorem sylAfter_spec {E : Env K} (hK : CkOK E) {A : Arts K} (hA : Consistent E cat A) {d : String}
    {fs : List Content} (hfs : fs ≠ []) {rt : Bool}
    (hrt : rt = false → ∃ t, A.table d = some t ∧ t.ck = E.ck E.zero fs) :
    sylAfter d fs rt A = Syl.of fs := by
  unfold sylAfter
  cases rt with
  | true => rfl
  | false =>
    obtain ⟨t, ht, htc⟩ := hrt rfl
    have e1 := table_uptodate hK (hA.table d t ht) hfs htc
    subst e1
    simp [ht]

theorem dictCompile_spec {E : Env K} (hK : CkOK E) {A : Arts K} (hA : Consistent E cat A)
    {d p : String} {packs : List String} {sc : CfgArt}
    (hd : DictOK E d) (hq : ∀ q ∈ packs, DictOK E q) :
    (dictCompile E d p packs sc A).1 = applyAssigns A (dictAssigns E d p packs sc) ∧
    (dictCompile E d p packs sc A).2.1 = true := by
  have hf := hd.filesOf
  obtain ⟨hp, hh, _⟩ := hd
  have hfs := hf.2
  -- the table decision
  have htd : ∃ rt0, tableDecision true (E.ck E.zero (filesOf E d)) (A.table d) = some (rt0, E.ck E.zero (filesOf E d)) ∧
      (rt0 = false → ∃ t, A.table d = some t ∧ t.ck = E.ck E.zero (filesOf E d)) := by
    cases ht : A.table d with
    | none => exact ⟨true, by simp [tableDecision], by simp⟩
    | some t =>
      refine ⟨decide (t.ck ≠ E.ck E.zero (filesOf E d)), by simp [tableDecision], ?_⟩
      intro h
      exact ⟨t, rfl, by simpa using h⟩
  obtain ⟨rt0, htd, hrt0⟩ := htd
  unfold dictCompile
  simp only [hp, hh, hf.1, cks_ne hfs, htd, Bool.not_true, Bool.and_false, Bool.false_eq_true, ↓reduceIte]
  -- abbreviations
  generalize hrtdef : (rt0 || reverseStale (E.ck E.zero (filesOf E d)) (A.reverse d)) = rt
  generalize hrpdef : prismStale (E.ck E.zero (filesOf E d)) (E.fck sc) (A.prism p) = rp
  have hrt : rt = false → (∃ t, A.table d = some t ∧ t.ck = E.ck E.zero (filesOf E d)) ∧
      (∃ r, A.reverse d = some r ∧ r.ck = E.ck E.zero (filesOf E d)) := by
    intro h
    rw [h] at hrtdef
    simp only [Bool.or_eq_false_iff] at hrtdef
    refine ⟨hrt0 hrtdef.1, ?_⟩
    cases hr : A.reverse d with
    | none => rw [hr] at hrtdef; simp [reverseStale] at hrtdef
    | some r => rw [hr] at hrtdef; exact ⟨r, rfl, by simpa [reverseStale] using hrtdef.2⟩
  rw [primaryStep_spec hK hA hfs hrt, sylAfter_spec hK hA hfs (fun h => (hrt h).1)]
  -- the state after the primary step
  generalize hA1 : (A.set (.table d ⟨E.ck E.zero (filesOf E d), none, filesOf E d⟩)).set
      (.reverse d ⟨E.ck E.zero (filesOf E d), filesOf E d⟩) = A1
  have hA1c : Consistent E cat A1 := by
    rw [← hA1]
    have h1 : (Assign.table d ⟨E.ck E.zero (filesOf E d), none, filesOf E d⟩ : Assign K).OK E cat := by
      simp [Assign.OK, TableOK, hfs]
    have h2 : (Assign.reverse d ⟨E.ck E.zero (filesOf E d), filesOf E d⟩ : Assign K).OK E cat := by
      simp [Assign.OK, ReverseOK, hfs]
    exact (hA.set h1).set h2
  have hA1t : A1.table d = some ⟨E.ck E.zero (filesOf E d), none, filesOf E d⟩ := by
    rw [← hA1]; simp [Arts.set]
  have hA1p : A1.prism p = A.prism p := by rw [← hA1]; simp [Arts.set]
  -- the prism step
  have hps : prismStep p d (E.ck E.zero (filesOf E d)) (E.fck sc) sc rp A1 =
      some (A1.set (.prism p ⟨E.ck E.zero (filesOf E d), E.fck sc, Syl.of (filesOf E d), sc⟩)) := by
    unfold prismStep
    cases rp with
    | true => simp [hA1t, Arts.set]
    | false =>
      simp only [Bool.false_eq_true, ↓reduceIte]
      cases hq' : A.prism p with
      | none => rw [hq'] at hrpdef; simp [prismStale] at hrpdef
      | some q =>
        rw [hq'] at hrpdef
        simp only [prismStale, Bool.or_eq_false_iff, decide_eq_false_iff_not, ne_eq, Decidable.not_not] at hrpdef
        have := prism_uptodate hK (hA.prism p q hq') hfs hrpdef.1 hrpdef.2
        subst this
        rw [set_prism_same _ _ _ (hA1p.trans hq')]
  simp only [hps]
  refine ⟨?_, by trivial⟩
  have hA2c : Consistent E cat (A1.set (.prism p ⟨E.ck E.zero (filesOf E d), E.fck sc, Syl.of (filesOf E d), sc⟩)) :=
    hA1c.set (a := .prism p _) (by simp only [Assign.OK, PrismOK]; exact ⟨trivial, filesOf E d, hfs, by trivial, by trivial⟩)
  generalize hlog : (([Event.dictDecision d rt rp] ++ if rt = true then [Event.wroteTable d, Event.wroteReverse d] else []) ++
      if rp = true then [Event.wrotePrism p] else []) = log
  have := packFold_spec hK hfs packs
    (acc := ⟨A1.set (.prism p ⟨E.ck E.zero (filesOf E d), E.fck sc, Syl.of (filesOf E d), sc⟩), Syl.of (filesOf E d), log⟩)
    hA2c rfl hq
  rw [this]
  simp only [dictAssigns, applyAssigns, List.foldl_append, List.foldl_cons, List.foldl_nil, ← hA1]


/-! ### `SchemaUpdate` -/

theorem cfgOK_fresh {E : Env K} {S : Src} (hS : PosTimes S) (hSt : Stamped cat S) {id : CfgId} {c : CfgArt}
    (hc : E.compile id S = some c) : CfgOK E cat id c :=
  ⟨S, hc, hSt, hS⟩

theorem schemaUpdate_spec {E : Env K} (hC : CompilerOK E) (hK : CkOK E) {S : Src} (hS : PosTimes S)
    (hSt : Stamped cat S)
    {A : Arts K} (hA : Consistent E cat A) {sid : String} (hok : E.schemaOk sid = true)
    (hb : SchemaBuildOK E S sid) :
    (schemaUpdate E S sid A).1 = applyAssigns A (schemaAssigns E S sid) ∧
    (schemaUpdate E S sid A).2.1 = true := by
  obtain ⟨c, hc, hd⟩ := hb
  have h1 := configFileUpdate_arts hC hS hSt hA hc
  unfold schemaUpdate schemaAssigns
  simp only [hok, Bool.not_true, Bool.false_eq_true, ↓reduceIte, hc]
  rcases hcf : configFileUpdate E S (.schema sid) A with ⟨A', lg⟩
  rw [hcf] at h1
  simp only at h1
  subst h1
  have hcfg : (A.set (.cfg (.schema sid) c)).cfg (.schema sid) = some c := by simp [Arts.set]
  simp only [hcfg]
  cases hdict : c.dict with
  | none => simp [applyAssigns]
  | some d =>
    simp only
    have hA' : Consistent E cat (A.set (.cfg (.schema sid) c)) := hA.set (a := .cfg _ _) (cfgOK_fresh hS hSt hc)
    have := dictCompile_spec hK hA' (p := c.prism) (sc := c) (hd d hdict).1 (hd d hdict).2
    refine ⟨?_, this.2⟩
    rw [this.1]
    simp [applyAssigns]


/-! ### the schema loop of `WorkspaceUpdate` -/

def Assign.isCfg : Assign K → Bool
  | .cfg _ _ => true
  | _ => false

theorem applyAssigns_cfg_of_noCfg (l : List (Assign K)) :
    ∀ (X : Arts K), (∀ a ∈ l, a.isCfg = false) → (applyAssigns X l).cfg = X.cfg := by
  induction l with
  | nil => intro X _; rfl
  | cons a l ih =>
    intro X h
    simp only [applyAssigns, List.foldl_cons]
    have := ih (X.set a) (fun b hb => h b (by simp [hb]))
    simp only [applyAssigns] at this
    rw [this]
    have ha := h a (by simp)
    cases a <;> simp_all [Arts.set, Assign.isCfg]

theorem dictAssigns_noCfg (E : Env K) (d p : String) (packs : List String) (sc : CfgArt) :
    ∀ a ∈ dictAssigns E d p packs sc, a.isCfg = false := by
  intro a ha
  simp only [dictAssigns, List.mem_append, List.mem_cons, List.mem_map] at ha
  rcases ha with (h | h | h | h) | ⟨q, _, h⟩
  · subst h; rfl
  · subst h; rfl
  · subst h; rfl
  · cases h
  · subst h; rfl

theorem schemaAssigns_cfg {E : Env K} {S : Src} {sid : String} {c : CfgArt}
    (hc : E.compile (.schema sid) S = some c) (X : Arts K) :
    (applyAssigns X (schemaAssigns E S sid)).cfg = upd X.cfg (.schema sid) c := by
  unfold schemaAssigns
  rw [hc]
  simp only [applyAssigns, List.foldl_cons]
  cases hd : c.dict with
  | none => simp [Arts.set]
  | some d =>
    have := applyAssigns_cfg_of_noCfg _ (X.set (.cfg (.schema sid) c)) (dictAssigns_noCfg E d c.prism c.packs c)
    simp only [applyAssigns] at this
    rw [this]
    simp only [Arts.set]

theorem schemaAssigns_ok {E : Env K} {S : Src} (hS : PosTimes S) (hSt : Stamped cat S) {sid : String} (hb : SchemaBuildOK E S sid) :
    ∀ a ∈ schemaAssigns E S sid, a.OK E cat := by
  obtain ⟨c, hc, hd⟩ := hb
  intro a ha
  unfold schemaAssigns at ha
  rw [hc] at ha
  simp only [List.mem_cons] at ha
  rcases ha with h | h
  · subst h; exact cfgOK_fresh hS hSt hc
  · cases hdict : c.dict with
    | none => rw [hdict] at h; cases h
    | some d =>
      rw [hdict] at h
      have hfs := (hd d hdict).1.filesOf.2
      simp only [dictAssigns, List.mem_append, List.mem_cons, List.mem_map] at h
      rcases h with (h | h | h | h) | ⟨q, hq, h⟩
      · subst h; simp [Assign.OK, TableOK, hfs]
      · subst h; simp [Assign.OK, ReverseOK, hfs]
      · subst h; simp only [Assign.OK, PrismOK]; exact ⟨trivial, filesOf E d, hfs, by trivial, by trivial⟩
      · cases h
      · subst h; exact packAssign_ok hfs ((hd d hdict).2 q hq)

/-- the simulation between the real loop state and the plan computed from the sources alone -/
structure Sim (E : Env K) (cat : Rid → Stamp → Content) (S : Src) (A : Arts K) (st : Loop K) (bs : Plan K) : Prop where
  arts : st.arts = applyAssigns A bs.assigns
  built : st.built = bs.built
  failures : st.failures = bs.failures
  cons : Consistent E cat st.arts
  cfgs : ∀ sid ∈ st.built, E.schemaPresent sid = true → E.schemaOk sid = true →
    st.arts.cfg (.schema sid) = E.compile (.schema sid) S

theorem schemaUpdate_notOk {E : Env K} {S : Src} {sid : String} (h : E.schemaOk sid = false) (A : Arts K) :
    schemaUpdate E S sid A = (A, false, []) := by
  unfold schemaUpdate
  simp [h]

theorem buildSchema_sim {E : Env K} (hC : CompilerOK E) (hK : CkOK E) {S : Src} (hS : PosTimes S)
    (hSt : Stamped cat S) {A : Arts K}
    {st : Loop K} {bs : Plan K} (h : Sim E cat S A st bs) (asDep : Bool) {sid : String}
    (hb : E.schemaPresent sid = true → E.schemaOk sid = true → SchemaBuildOK E S sid) :
    Sim E cat S A (buildSchema E S asDep st sid) (specBuild E S asDep bs sid) ∧
      sid ∈ (buildSchema E S asDep st sid).built := by
  unfold buildSchema specBuild
  rw [← h.built]
  by_cases hin : st.built.contains sid = true
  · simp only [hin, ↓reduceIte]
    exact ⟨h, by simpa using hin⟩
  · simp only [hin, Bool.false_eq_true, ↓reduceIte]
    by_cases hp : E.schemaPresent sid = true
    · simp only [hp, Bool.not_true, Bool.false_eq_true, ↓reduceIte]
      by_cases hok : E.schemaOk sid = true
      · -- the schema is built
        have hsu := schemaUpdate_spec hC hK hS hSt h.cons hok (hb hp hok)
        obtain ⟨c, hc, _⟩ := hb hp hok
        simp only [hok, Bool.not_true, Bool.false_eq_true, ↓reduceIte, hsu.2]
        refine ⟨⟨?_, rfl, h.failures, ?_, ?_⟩, by simp⟩
        · rw [hsu.1, h.arts, applyAssigns_append]
        · rw [hsu.1]
          exact h.cons.applyAssigns _ (schemaAssigns_ok hS hSt (hb hp hok))
        · intro s hs hsp hso
          simp only [hsu.1, schemaAssigns_cfg hc]
          by_cases e : s = sid
          · subst e; simp [hc]
          · have hs' : s ∈ st.built := by simpa [e] using hs
            rw [upd_ne _ _ _ _ (by simpa using e)]
            exact h.cfgs s hs' hsp hso
      · have hok' : E.schemaOk sid = false := by simpa using hok
        simp only [hok', Bool.not_false, ↓reduceIte, schemaUpdate_notOk hok']
        refine ⟨⟨h.arts, rfl, by simp [h.failures], h.cons, ?_⟩, by simp⟩
        intro s hs hsp hso
        by_cases e : s = sid
        · subst e; rw [hok'] at hso; cases hso
        · exact h.cfgs s (by simpa [e] using hs) hsp hso
    · have hp' : E.schemaPresent sid = false := by simpa using hp
      simp only [hp', Bool.not_false, ↓reduceIte]
      refine ⟨⟨h.arts, rfl, by simp [h.failures], h.cons, ?_⟩, by simp⟩
      intro s hs hsp hso
      by_cases e : s = sid
      · subst e; rw [hp'] at hsp; cases hsp
      · exact h.cfgs s (by simpa [e] using hs) hsp hso

theorem buildSchema_built_mono {E : Env K} {S : Src} (asDep : Bool) (st : Loop K) (sid x : String)
    (hx : x ∈ st.built) : x ∈ (buildSchema E S asDep st sid).built := by
  unfold buildSchema
  (repeat' split) <;> simp_all

theorem depsFold_sim {E : Env K} (hC : CompilerOK E) (hK : CkOK E) {S : Src} (hS : PosTimes S)
    (hSt : Stamped cat S) {A : Arts K}
    (deps : List String) :
    ∀ {st : Loop K} {bs : Plan K}, Sim E cat S A st bs →
      (∀ sid ∈ deps, E.schemaPresent sid = true → E.schemaOk sid = true → SchemaBuildOK E S sid) →
      Sim E cat S A (deps.foldl (buildSchema E S true) st) (deps.foldl (specBuild E S true) bs) := by
  induction deps with
  | nil => intro st bs h _; exact h
  | cons x deps ih =>
    intro st bs h hd
    simp only [List.foldl_cons]
    exact ih (buildSchema_sim hC hK hS hSt h true (hd x (by simp))).1 (fun s hs => hd s (by simp [hs]))

theorem visit_sim {E : Env K} (hC : CompilerOK E) (hK : CkOK E) {S : Src} (hS : PosTimes S)
    (hSt : Stamped cat S) {A : Arts K}
    {st : Loop K} {bs : Plan K} (h : Sim E cat S A st bs) {sid : String}
    (hp : E.schemaPresent sid = true) (hok : E.schemaOk sid = true) (hb : SchemaBuildOK E S sid)
    (hd : ∀ c, E.compile (.schema sid) S = some c → ∀ x ∈ c.deps,
      E.schemaPresent x = true → E.schemaOk x = true → SchemaBuildOK E S x) :
    Sim E cat S A (visit E S st sid) (specVisit E S bs sid) := by
  unfold visit specVisit
  have h1 := buildSchema_sim hC hK hS hSt h false (sid := sid) (fun _ _ => hb)
  have hcfg := h1.1.cfgs sid h1.2 hp hok
  simp only [hcfg]
  cases hc : E.compile (.schema sid) S with
  | none => exact h1.1
  | some c => exact depsFold_sim hC hK hS hSt c.deps h1.1 (hd c hc)

theorem listFold_sim {E : Env K} (hC : CompilerOK E) (hK : CkOK E) {S : Src} (hS : PosTimes S)
    (hSt : Stamped cat S) {A : Arts K}
    (l : List String) :
    ∀ {st : Loop K} {bs : Plan K}, Sim E cat S A st bs →
      (∀ sid ∈ l, E.schemaPresent sid = true ∧ E.schemaOk sid = true ∧ SchemaBuildOK E S sid ∧
        ∀ c, E.compile (.schema sid) S = some c → ∀ x ∈ c.deps,
          E.schemaPresent x = true → E.schemaOk x = true → SchemaBuildOK E S x) →
      Sim E cat S A (l.foldl (visit E S) st) (l.foldl (specVisit E S) bs) := by
  induction l with
  | nil => intro st bs h _; exact h
  | cons x l ih =>
    intro st bs h hl
    simp only [List.foldl_cons]
    obtain ⟨a, b, c, d⟩ := hl x (by simp)
    exact ih (visit_sim hC hK hS hSt h a b c d) (fun s hs => hl s (by simp [hs]))

/-- **the central lemma**: on a consistent staging directory, `WorkspaceUpdate` ends in the plan applied to
    it, with the planned verdict — the plan being a function of the sources alone. -/
theorem workspaceUpdate_spec {E : Env K} (hC : CompilerOK E) (hK : CkOK E) {S : Src} (hS : SourcesOK E S)
    (hSt : Stamped cat S)
    {A : Arts K} (hA : Consistent E cat A) (now : Time) :
    (workspaceUpdate E S now A).1 = { applyAssigns A (plan E S) with lastBuild := castInt now } ∧
    (workspaceUpdate E S now A).2.1 = planOk E S ∧
    Consistent E cat (workspaceUpdate E S now A).1 := by
  obtain ⟨c0, l, hc0, hl, hlist, hreach⟩ := hS.default
  have h1 := configFileUpdate_arts hC hS.pos hSt hA hc0
  unfold workspaceUpdate plan planOk planState
  rcases hcf : configFileUpdate E S .default A with ⟨A', lg⟩
  rw [hcf] at h1
  simp only at h1
  subst h1
  have hcfg : (A.set (.cfg .default c0)).cfg .default = some c0 := by simp [Arts.set]
  simp only [hcfg, hc0, hl]
  have hsim0 : Sim E cat S A (⟨A.set (.cfg .default c0), [], 0, lg⟩ : Loop K) ⟨[], [.cfg .default c0], 0⟩ :=
    ⟨rfl, rfl, rfl, hA.set (a := .cfg _ _) (cfgOK_fresh hS.pos hSt hc0), by intro s hs; cases hs⟩
  have := listFold_sim hC hK hS.pos hSt l hsim0 (fun sid hsid =>
    ⟨(hlist sid hsid).1, (hlist sid hsid).2,
     hreach sid (Or.inl hsid) (hlist sid hsid).1 (hlist sid hsid).2,
     fun c hc x hx => hreach x (Or.inr ⟨sid, hsid, c, hc, hx⟩)⟩)
  exact ⟨by rw [this.arts], by rw [this.failures], ⟨this.cons.cfg, this.cons.table, this.cons.prism, this.cons.reverse⟩⟩


/-! ### generic facts about applying assignments -/

/-- `X` has everything `Y` has, identically -/
structure AgreeOn (X Y : Arts K) : Prop where
  cfg : ∀ i, (Y.cfg i).isSome → X.cfg i = Y.cfg i
  table : ∀ i, (Y.table i).isSome → X.table i = Y.table i
  prism : ∀ i, (Y.prism i).isSome → X.prism i = Y.prism i
  reverse : ∀ i, (Y.reverse i).isSome → X.reverse i = Y.reverse i

theorem AgreeOn.empty (X : Arts K) : AgreeOn X (Arts.empty : Arts K) :=
  ⟨fun _ h => by simp [Arts.empty] at h, fun _ h => by simp [Arts.empty] at h,
   fun _ h => by simp [Arts.empty] at h, fun _ h => by simp [Arts.empty] at h⟩

theorem AgreeOn.set {X Y : Arts K} (h : AgreeOn X Y) (a : Assign K) : AgreeOn (X.set a) (Y.set a) := by
  cases a with
  | cfg id c =>
    refine ⟨?_, h.table, h.prism, h.reverse⟩
    intro i hi
    simp only [Arts.set, upd] at hi ⊢
    split
    · rfl
    · next hne => simp only [hne, ↓reduceIte] at hi; exact h.cfg i hi
  | table n t =>
    refine ⟨h.cfg, ?_, h.prism, h.reverse⟩
    intro i hi
    simp only [Arts.set, upd] at hi ⊢
    split
    · rfl
    · next hne => simp only [hne, ↓reduceIte] at hi; exact h.table i hi
  | reverse n t =>
    refine ⟨h.cfg, h.table, h.prism, ?_⟩
    intro i hi
    simp only [Arts.set, upd] at hi ⊢
    split
    · rfl
    · next hne => simp only [hne, ↓reduceIte] at hi; exact h.reverse i hi
  | prism n t =>
    refine ⟨h.cfg, h.table, ?_, h.reverse⟩
    intro i hi
    simp only [Arts.set, upd] at hi ⊢
    split
    · rfl
    · next hne => simp only [hne, ↓reduceIte] at hi; exact h.prism i hi

theorem AgreeOn.applyAssigns (l : List (Assign K)) :
    ∀ {X Y : Arts K}, AgreeOn X Y → AgreeOn (applyAssigns X l) (applyAssigns Y l) := by
  induction l with
  | nil => intro X Y h; exact h
  | cons a l ih => intro X Y h; exact ih (h.set a)

theorem holds_set_self (A : Arts K) (a : Assign K) : (A.set a).Holds a := by
  cases a <;> simp [Arts.set, Arts.Holds]

theorem holds_set_other {A : Arts K} {a x : Assign K} (hn : ¬ a.SameName x) (h : A.Holds a) :
    (A.set x).Holds a := by
  cases a <;> cases x <;> simp_all [Arts.set, Arts.Holds, Assign.SameName, upd]

theorem set_of_holds {A : Arts K} {a : Assign K} (h : A.Holds a) : A.set a = A := by
  cases a with
  | cfg i c => exact set_cfg_same A i c h
  | table i c => exact set_table_same A i c h
  | reverse i c => exact set_reverse_same A i c h
  | prism i c => exact set_prism_same A i c h

theorem applyAssigns_of_holds (l : List (Assign K)) {A : Arts K} (h : ∀ a ∈ l, A.Holds a) :
    applyAssigns A l = A := by
  induction l with
  | nil => rfl
  | cons a l ih =>
    simp only [applyAssigns, List.foldl_cons]
    rw [set_of_holds (h a (by simp))]
    exact ih (fun b hb => h b (by simp [hb]))

theorem holds_applyAssigns_aux (l : List (Assign K)) :
    ∀ (A : Arts K) (a : Assign K), (∀ b ∈ l, a.SameName b → a = b) → (∀ x ∈ l, ∀ y ∈ l, x.SameName y → x = y) →
      (a ∈ l ∨ A.Holds a) → (applyAssigns A l).Holds a := by
  induction l with
  | nil =>
    intro A a _ _ h
    rcases h with h | h
    · cases h
    · exact h
  | cons x l ih =>
    intro A a ha hf h
    simp only [applyAssigns, List.foldl_cons]
    apply ih (A.set x) a (fun b hb => ha b (by simp [hb])) (fun u hu v hv => hf u (by simp [hu]) v (by simp [hv]))
    by_cases hax : a = x
    · subst hax; exact Or.inr (holds_set_self A a)
    · rcases h with h | h
      · simp only [List.mem_cons, hax, false_or] at h; exact Or.inl h
      · exact Or.inr (holds_set_other (fun hs => hax (ha x (by simp) hs)) h)

/-- when no file is assigned two contents, every planned assignment holds at the end -/
theorem holds_applyAssigns {l : List (Assign K)} (hf : Functional l) (A : Arts K) {a : Assign K} (ha : a ∈ l) :
    (applyAssigns A l).Holds a :=
  holds_applyAssigns_aux l A a (fun b hb => hf a ha b hb) hf (Or.inl ha)

end RimeModel.C12
