import RimeModel.Gen.DeployFacts
/-!
# C12 — model of a librime deployment (`WorkspaceUpdate` and what it calls)

Ported line by line from
* `src/rime/lever/deployment_tasks.cc`: `ConfigNeedsUpdate`, `ConfigFileUpdate::Run`, `SchemaUpdate::Run`,
  `WorkspaceUpdate::Run` (schema list, `build_schema` with its `schemas` memo, dependencies),
  `DetectModifications::Run`;
* `src/rime/dict/dict_compiler.cc`: `DictCompiler::Compile` (`rebuild_table`, `rebuild_prism`, the reverse-db
  rule, the pack loop including the `continue`s that drop the syllabary, reuse-without-source).

Sources are seen through the resolved view `Src` (user directory first, then the shared one).  What the
deployer cannot decide by itself enters as the environment `Env`: the config compiler (`compile`, with the
`__build_info/timestamps` it records), what the dictionary headers say (`dictSrc`), the checksum function.
The content of an artefact is the record of what it was built from (a free term: two artefacts are equal iff
they were built from the same inputs), so "equal content" in a theorem means "equal for every interpretation
of the builders".
-/
namespace RimeModel.C12

abbrev Rid := String
abbrev Content := Nat
/-- a `time_t`: seconds since the epoch, 64-bit and signed (what `to_time_t(last_write_time(f))` and `time(NULL)` give) -/
abbrev Time := Int
/-- what the deployer *stores* of a time: an `int` (`__build_info/timestamps/<rid>`, `var/last_build_time`) -/
abbrev Stamp := Int

/-- `(int)t` for a 64-bit `time_t` (`(int)time(NULL)` for `last_build_time`; the source timestamps of the 32-bit
    variant, see `recorded`): truncation to 32 bits, two's complement.
    Identity on `[-2³¹, 2³¹)`; a date from 2038-01-19 on is stored as a negative number, one from 2106-02-07 on as a
    small one.  Written and read back through `SetInt` / `GetInt` (decimal text of an `int`), which is lossless. -/
def castInt (t : Int) : Int := (t + 2147483648) % 4294967296 - 2147483648

/-- what `BuildInfoPlugin` records of the mtime of a source (`__build_info/timestamps/<rid>`) and what
    `ConfigNeedsUpdate` compares the recorded value with.  Which of the two the tree at hand does is re-read from
    `build_info_plugin.cc` and `deployment_tasks.cc` on every run (`Gen.DeployFacts.timestampBits`, gen/deploy_facts.py):
    * 32: written as `(int)to_time_t(…)`, read with `GetInt`, compared with `(int)to_time_t(…)` — librime up to and
      including 45d2b2d; mtimes a multiple of 2³² s apart are recorded alike, and a multiple of 2³² s is recorded as
      0 = "absent";
    * 64: written as the decimal text of the 64-bit value, read back with `std::stoll`, compared uncast. -/
def recorded (t : Time) : Stamp :=
  if Gen.DeployFacts.timestampBits = 64 then t else castInt t

/-- resolved view of the config sources: resource id ↦ (content identity, mtime in seconds) -/
abbrev Src := Rid → Option (Content × Time)

/-- identity of a compiled config: `default.yaml` or `<schema>.schema.yaml` -/
inductive CfgId where
  | default
  | schema (sid : String)
deriving DecidableEq, Repr

/-- a compiled config in the staging directory -/
structure CfgArt where
  /-- `__build_info/timestamps`: every resource the compiler enumerated, 0 = not loaded -/
  stamps : List (Rid × Stamp)
  /-- identity of the compiled tree: the resources it was compiled from -/
  inputs : List (Rid × Option Content)
  /-- `schema_list` (only read from `default`); `none` = not a list -/
  schemaList : Option (List String)
  /-- `translator/dictionary` -/
  dict : Option String
  /-- `translator/prism`, defaulting to the dictionary name -/
  prism : String
  /-- `translator/packs` -/
  packs : List String
  /-- `schema/dependencies` -/
  deps : List String
deriving DecidableEq, Repr

/-- where a table's syllabary came from -/
inductive Syl where
  /-- a moved-from / unloaded syllabary -/
  | empty
  /-- the syllabary of the primary table built from these files -/
  | of (files : List Content)
deriving DecidableEq, Repr

structure TableArt (K : Type) where
  /-- `metadata.dict_file_checksum` -/
  ck : K
  /-- `none` for a primary table; for a pack, the fixed syllabary it was collected against -/
  pack : Option Syl
  /-- contents of the dictionary files (and preset vocabulary) it was collected from -/
  files : List Content
deriving DecidableEq, Repr

structure PrismArt (K : Type) where
  dictCk : K
  schemaCk : K
  /-- syllabary read from the primary table when the prism was built -/
  syl : Syl
  /-- the compiled schema whose `speller/algebra` was applied -/
  cfg : CfgArt
deriving DecidableEq, Repr

structure ReverseArt (K : Type) where
  ck : K
  files : List Content
deriving DecidableEq, Repr

/-- the staging directory (+ `user.yaml:var/last_build_time`).  `none` = missing or not loadable. -/
structure Arts (K : Type) where
  cfg : CfgId → Option CfgArt
  table : String → Option (TableArt K)
  prism : String → Option (PrismArt K)
  reverse : String → Option (ReverseArt K)
  lastBuild : Stamp

def Arts.empty {K : Type} : Arts K := ⟨fun _ => none, fun _ => none, fun _ => none, fun _ => none, 0⟩

def upd {α β : Type} [DecidableEq α] (f : α → Option β) (k : α) (v : β) : α → Option β :=
  fun x => if x = k then some v else f x

/-- what the header of `<name>.dict.yaml` says, as far as `Compile` uses it -/
structure DictSrc where
  /-- the file resolves to an existing file -/
  present : Bool
  /-- `LoadDictHeader` succeeded -/
  headerOk : Bool
  /-- contents of the files of `GetTables()` in order, then of the preset vocabulary when it is used;
      `none` when an imported table is missing (`get_dict_files_from_settings` fails) -/
  files : Option (List Content)
deriving Repr

structure Env (K : Type) where
  /-- `ConfigBuilder::LoadConfig`: compile + link + plugins + save.  `none` = nothing was saved
      (source missing, unresolved dependency, a plugin refused). -/
  compile : CfgId → Src → Option CfgArt
  /-- `<id>.schema.yaml` resolves to an existing file (`build_schema`) -/
  schemaPresent : String → Bool
  /-- that file loads and declares `schema/schema_id` = id (`SchemaUpdate::Run`) -/
  schemaOk : String → Bool
  dictSrc : String → DictSrc
  /-- `ChecksumComputer(seed)` fed with the files -/
  ck : K → List Content → K
  zero : K
  /-- `Checksum(compiled schema file)` -/
  fck : CfgArt → K

inductive Event where
  | cfgDecision (id : CfgId) (needsUpdate : Bool)
  | dictDecision (dict : String) (rebuildTable rebuildPrism : Bool)
  | packDecision (pack : String) (rebuild : Bool)
  | wroteCfg (id : CfgId)
  | wroteTable (name : String)
  | wroteReverse (name : String)
  | wrotePrism (name : String)
deriving DecidableEq, Repr

def Event.isWrite : Event → Bool
  | .wroteCfg _ | .wroteTable _ | .wroteReverse _ | .wrotePrism _ => true
  | _ => false

/-! ## `ConfigNeedsUpdate` / `ConfigFileUpdate` -/

/-- one entry of the timestamps map: vanished (recorded ≠ 0, file gone), changed or added (the recorded value
    differs from what the file's mtime would be recorded as now) -/
def stampStale (S : Src) (p : Rid × Stamp) : Bool :=
  match S p.1 with
  | none => p.2 != 0
  | some ct => p.2 != recorded ct.2

def configNeedsUpdate (S : Src) : Option CfgArt → Bool
  | none => true
  | some a => a.stamps.any (stampStale S)

def configFileUpdate {K : Type} (E : Env K) (S : Src) (id : CfgId) (A : Arts K) : Arts K × List Event :=
  if configNeedsUpdate S (A.cfg id) then
    match E.compile id S with
    | some a => ({ A with cfg := upd A.cfg id a }, [.cfgDecision id true, .wroteCfg id])
    | none => (A, [.cfgDecision id true])
  else (A, [.cfgDecision id false])

/-! ## `DictCompiler::Compile` -/

/-- `compute_dict_file_checksum`: no files → the seed itself -/
def cks {K : Type} (E : Env K) (seed : K) (files : List Content) : K :=
  if files.isEmpty then seed else E.ck seed files

/-- the primary-table branch: `(rebuild_table, dict_file_checksum)`, `none` = "neither source nor table" -/
def tableDecision {K : Type} [DecidableEq K] (present : Bool) (ck0 : K) : Option (TableArt K) → Option (Bool × K)
  | some t => if present then some (decide (t.ck ≠ ck0), ck0) else some (false, t.ck)
  | none => if present then some (true, ck0) else none

def prismStale {K : Type} [DecidableEq K] (dck sck : K) : Option (PrismArt K) → Bool
  | some q => decide (q.dictCk ≠ dck) || decide (q.schemaCk ≠ sck)
  | none => true

def reverseStale {K : Type} [DecidableEq K] (dck : K) : Option (ReverseArt K) → Bool
  | some r => decide (r.ck ≠ dck)
  | none => true

def tableStale {K : Type} [DecidableEq K] (ck : K) : Option (TableArt K) → Bool
  | some t => decide (t.ck ≠ ck)
  | none => true

structure PackAcc (K : Type) where
  arts : Arts K
  syl : Syl
  log : List Event

/-- what a skipped pack (`continue`) leaves for the following ones.  Where the syllabary is moved into the
    collector before the three tests (`Gen.DeployFacts.packLoopDropsSyllabaryOnSkip`, re-read from
    `dict_compiler.cc` on every run), each `continue` leaves an empty one behind. -/
def sylAfterSkip (syl : Syl) : Syl :=
  if Gen.DeployFacts.packLoopDropsSyllabaryOnSkip then Syl.empty else syl

/-- one iteration of the pack loop -/
def packStep {K : Type} [DecidableEq K] (E : Env K) (dck : K) (acc : PackAcc K) (q : String) : PackAcc K :=
  let ps := E.dictSrc q
  if !ps.present || !ps.headerOk then { acc with syl := sylAfterSkip acc.syl }
  else match ps.files with
    | none => { acc with syl := sylAfterSkip acc.syl }
    | some pf =>
      let pck := cks E dck pf
      if tableStale pck (acc.arts.table q) then
        { acc with arts := { acc.arts with table := upd acc.arts.table q ⟨pck, some acc.syl, pf⟩ }
                   log := acc.log ++ [.packDecision q true, .wroteTable q] }
      else { acc with log := acc.log ++ [.packDecision q false] }

/-- `BuildTable(0, …)` + `BuildReverseDb` when `rebuild_table` -/
def primaryStep {K : Type} (d : String) (dck : K) (files : List Content) (rt : Bool) (A : Arts K) : Arts K :=
  if rt then
    { A with table := upd A.table d ⟨dck, none, files⟩, reverse := upd A.reverse d ⟨dck, files⟩ }
  else A

/-- the syllabary handed to the pack loop: the collector's after a rebuild, else loaded from the table
    (the code loads it only when there are packs; without packs it is never looked at) -/
def sylAfter {K : Type} (d : String) (files : List Content) (rt : Bool) (A : Arts K) : Syl :=
  if rt then Syl.of files else
    match A.table d with
    | some t => Syl.of t.files
    | none => Syl.empty

/-- `BuildPrism` when `rebuild_prism`: reads the syllabary back from the primary table as it is now -/
def prismStep {K : Type} (p d : String) (dck sck : K) (sc : CfgArt) (rp : Bool) (A1 : Arts K) : Option (Arts K) :=
  if rp then
    match A1.table d with
    | none => none
    | some t => some { A1 with prism := upd A1.prism p ⟨dck, sck, Syl.of t.files, sc⟩ }
  else some A1

def dictCompile {K : Type} [DecidableEq K] (E : Env K) (d p : String) (packs : List String) (sc : CfgArt)
    (A : Arts K) : Arts K × Bool × List Event :=
  let ds := E.dictSrc d
  if ds.present && !ds.headerOk then (A, false, [])
  else match ds.files with
    | none => (A, false, [])
    | some files =>
      let ck0 := cks E E.zero files
      let sck := E.fck sc
      match tableDecision ds.present ck0 (A.table d) with
      | none => (A, false, [])
      | some (rt0, dck) =>
        let rp := prismStale dck sck (A.prism p)
        let rt := rt0 || reverseStale dck (A.reverse d)
        let A1 := primaryStep d dck files rt A
        let log1 : List Event := [.dictDecision d rt rp] ++
          (if rt then [.wroteTable d, .wroteReverse d] else [])
        match prismStep p d dck sck sc rp A1 with
        | none => (A1, false, log1)
        | some A2 =>
          let r := packs.foldl (packStep E dck)
            ⟨A2, sylAfter d files rt A, log1 ++ (if rp then [.wrotePrism p] else [])⟩
          (r.arts, true, r.log)

/-! ## `SchemaUpdate` / `WorkspaceUpdate` -/

def schemaUpdate {K : Type} [DecidableEq K] (E : Env K) (S : Src) (sid : String) (A : Arts K) :
    Arts K × Bool × List Event :=
  if !E.schemaOk sid then (A, false, [])
  else
    let r := configFileUpdate E S (.schema sid) A
    match r.1.cfg (.schema sid) with
    | none => (r.1, true, r.2)
    | some c =>
      match c.dict with
      | none => (r.1, true, r.2)
      | some d =>
        let r2 := dictCompile E d c.prism c.packs c r.1
        (r2.1, r2.2.1, r.2 ++ r2.2.2)

structure Loop (K : Type) where
  arts : Arts K
  /-- the `schemas` map of `WorkspaceUpdate::Run` (ids already handled) -/
  built : List String
  failures : Nat
  log : List Event

def buildSchema {K : Type} [DecidableEq K] (E : Env K) (S : Src) (asDep : Bool) (st : Loop K) (sid : String) :
    Loop K :=
  if st.built.contains sid then st
  else if !E.schemaPresent sid then
    { st with built := sid :: st.built, failures := if asDep then st.failures else st.failures + 1 }
  else
    let r := schemaUpdate E S sid st.arts
    { arts := r.1, built := sid :: st.built,
      failures := if r.2.1 then st.failures else st.failures + 1, log := st.log ++ r.2.2 }

def visit {K : Type} [DecidableEq K] (E : Env K) (S : Src) (st : Loop K) (sid : String) : Loop K :=
  let st1 := buildSchema E S false st sid
  match st1.arts.cfg (.schema sid) with
  | none => st1
  | some sc => sc.deps.foldl (buildSchema E S true) st1

/-- `WorkspaceUpdate::Run`; `now` = `time(NULL)` when it finishes (stored as `(int)time(NULL)`) -/
def workspaceUpdate {K : Type} [DecidableEq K] (E : Env K) (S : Src) (now : Time) (A : Arts K) :
    Arts K × Bool × List Event :=
  let r := configFileUpdate E S .default A
  match r.1.cfg .default with
  | none => (r.1, false, r.2)
  | some c =>
    match c.schemaList with
    | none => (r.1, false, r.2)
    | some l =>
      let st := l.foldl (visit E S) ⟨r.1, [], 0, r.2⟩
      ({ st.arts with lastBuild := castInt now }, st.failures == 0, st.log)

/-- the full deployment (`installation_update`, `workspace_update`, `user_dict_upgrade`, `cleanup_trash`):
    only `workspace_update` touches the artefacts modelled here -/
def deploy {K : Type} [DecidableEq K] (E : Env K) (S : Src) (now : Time) (A : Arts K) :
    Arts K × Bool × List Event :=
  workspaceUpdate E S now A

/-! ## `DetectModifications` (the pre-filter of `start_maintenance(False)`) -/

/-- `mtimes`: the mtimes of the two data directories themselves and of every top-level regular `*.yaml`
    in them except `user.yaml`, as `time_t` (not truncated; the maximum starts from `time_t last_modified = 0`);
    `lastBuild`: the stored `int`, widened back with `(time_t)last_build_time` -/
def detectModifications (mtimes : List Time) (lastBuild : Stamp) : Bool :=
  decide (mtimes.foldl max 0 > lastBuild)

/-- a data directory, or an entry of one, whose file information cannot be read (`fs::canonical` of a dangling
    link throws): the `catch` block answers "modified" — the safe side, a deployment follows -/
def detectModificationsOnError : Bool := true

end RimeModel.C12
