import RimeModel.C12.Lemmas
/-! # C12 — a deployment that finds every planned artefact in place decides "up to date" everywhere and
writes nothing. -/
namespace RimeModel.C12

set_option linter.unusedSectionVars false

variable {K : Type} [DecidableEq K]

def NoWrites (log : List Event) : Prop := ∀ e ∈ log, e.isWrite = false

theorem NoWrites.append {a b : List Event} (ha : NoWrites a) (hb : NoWrites b) : NoWrites (a ++ b) := by
  intro e he
  rcases List.mem_append.mp he with h | h
  · exact ha e h
  · exact hb e h

theorem configFileUpdate_noop {E : Env K} (hC : CompilerOK E) {S : Src} {id : CfgId} {c : CfgArt}
    (hc : E.compile id S = some c) {A : Arts K} (hA : A.cfg id = some c) :
    configFileUpdate E S id A = (A, [.cfgDecision id false]) := by
  unfold configFileUpdate
  rw [hA, fresh_not_stale hC hc]
  simp

theorem packStep_noop {E : Env K} {fs : List Content} {acc : PackAcc K} {q : String} (hq : DictOK E q)
    (hh : acc.arts.Holds (packAssign E (E.ck E.zero fs) fs q)) :
    packStep E (E.ck E.zero fs) acc q = { acc with log := acc.log ++ [.packDecision q false] } := by
  have hf := hq.filesOf
  obtain ⟨hp, hh', _⟩ := hq
  unfold packStep
  simp only [packAssign, Arts.Holds] at hh
  simp [hp, hh', hf.1, cks_ne hf.2, hh, tableStale]

theorem packFold_noop {E : Env K} {fs : List Content} (packs : List String) :
    ∀ {acc : PackAcc K}, (∀ q ∈ packs, DictOK E q) →
      (∀ q ∈ packs, acc.arts.Holds (packAssign E (E.ck E.zero fs) fs q)) → NoWrites acc.log →
      (packs.foldl (packStep E (E.ck E.zero fs)) acc).arts = acc.arts ∧
      NoWrites (packs.foldl (packStep E (E.ck E.zero fs)) acc).log := by
  induction packs with
  | nil => intro acc _ _ h; exact ⟨rfl, h⟩
  | cons q packs ih =>
    intro acc hq hh hl
    simp only [List.foldl_cons]
    rw [packStep_noop (hq q (by simp)) (hh q (by simp))]
    exact ih (acc := { acc with log := acc.log ++ [.packDecision q false] })
      (fun x hx => hq x (by simp [hx])) (fun x hx => hh x (by simp [hx]))
      (hl.append (by intro e he; simp at he; subst he; rfl))

theorem dictCompile_noop {E : Env K} {A : Arts K} {d p : String} {packs : List String} {sc : CfgArt}
    (hd : DictOK E d) (hq : ∀ q ∈ packs, DictOK E q) (hh : ∀ a ∈ dictAssigns E d p packs sc, A.Holds a) :
    (dictCompile E d p packs sc A).1 = A ∧ (dictCompile E d p packs sc A).2.1 = true ∧
    NoWrites (dictCompile E d p packs sc A).2.2 := by
  have hf := hd.filesOf
  obtain ⟨hp, hh', _⟩ := hd
  have ht : A.table d = some ⟨E.ck E.zero (filesOf E d), none, filesOf E d⟩ :=
    hh (.table d _) (by simp [dictAssigns])
  have hr : A.reverse d = some ⟨E.ck E.zero (filesOf E d), filesOf E d⟩ :=
    hh (.reverse d _) (by simp [dictAssigns])
  have hpr : A.prism p = some ⟨E.ck E.zero (filesOf E d), E.fck sc, Syl.of (filesOf E d), sc⟩ :=
    hh (.prism p _) (by simp [dictAssigns])
  have hpk : ∀ q ∈ packs, A.Holds (packAssign E (E.ck E.zero (filesOf E d)) (filesOf E d) q) := by
    intro q hq'
    exact hh _ (by simp only [dictAssigns, List.mem_append, List.mem_map]; exact Or.inr ⟨q, hq', rfl⟩)
  unfold dictCompile
  simp only [hp, hh', hf.1, cks_ne hf.2, ht, hr, hpr, tableDecision, prismStale, reverseStale, primaryStep,
    prismStep, sylAfter, Bool.not_true, Bool.and_false, Bool.false_eq_true, ↓reduceIte, ne_eq, not_true_eq_false,
    decide_false, Bool.or_self]
  have := packFold_noop (E := E) (fs := filesOf E d) packs
    (acc := ⟨A, Syl.of (filesOf E d), [Event.dictDecision d false false] ++ [] ++ []⟩) hq hpk
    (by intro e he; simp at he; subst he; rfl)
  exact ⟨this.1, trivial, this.2⟩

theorem schemaUpdate_noop {E : Env K} (hC : CompilerOK E) {S : Src} {A : Arts K} {sid : String}
    (hok : E.schemaOk sid = true) (hb : SchemaBuildOK E S sid)
    (hh : ∀ a ∈ schemaAssigns E S sid, A.Holds a) :
    (schemaUpdate E S sid A).1 = A ∧ (schemaUpdate E S sid A).2.1 = true ∧
    NoWrites (schemaUpdate E S sid A).2.2 := by
  obtain ⟨c, hc, hd⟩ := hb
  have hcfg : A.cfg (.schema sid) = some c := by
    have := hh (.cfg (.schema sid) c) (by simp [schemaAssigns, hc])
    exact this
  unfold schemaUpdate
  simp only [hok, Bool.not_true, Bool.false_eq_true, ↓reduceIte, configFileUpdate_noop hC hc hcfg, hcfg]
  have hnw : NoWrites [Event.cfgDecision (CfgId.schema sid) false] := by
    intro e he; simp at he; subst he; rfl
  cases hdict : c.dict with
  | none => exact ⟨rfl, rfl, hnw⟩
  | some d =>
    simp only
    have := dictCompile_noop (A := A) (p := c.prism) (sc := c) (hd d hdict).1 (hd d hdict).2
      (fun a ha => hh a (by simp [schemaAssigns, hc, hdict, ha]))
    exact ⟨this.1, this.2.1, hnw.append this.2.2⟩

/-- what the second deployment needs of the staging directory it finds -/
def Settled (E : Env K) (S : Src) (l : List String) (A : Arts K) : Prop :=
  ∀ sid, Reach E S l sid → E.schemaPresent sid = true → E.schemaOk sid = true →
    SchemaBuildOK E S sid ∧ ∀ a ∈ schemaAssigns E S sid, A.Holds a

theorem buildSchema_noop {E : Env K} (hC : CompilerOK E) {S : Src} {A : Arts K} (asDep : Bool) {st : Loop K}
    (hst : st.arts = A) (hl : NoWrites st.log) {sid : String}
    (hb : E.schemaPresent sid = true → E.schemaOk sid = true →
      SchemaBuildOK E S sid ∧ ∀ a ∈ schemaAssigns E S sid, A.Holds a) :
    (buildSchema E S asDep st sid).arts = A ∧ NoWrites (buildSchema E S asDep st sid).log := by
  unfold buildSchema
  split
  · exact ⟨hst, hl⟩
  · split
    · exact ⟨hst, hl⟩
    · next hp =>
      have hp' : E.schemaPresent sid = true := by simpa using hp
      by_cases hok : E.schemaOk sid = true
      · have := schemaUpdate_noop hC (A := st.arts) hok (hb hp' hok).1 (by rw [hst]; exact (hb hp' hok).2)
        exact ⟨this.1.trans hst, hl.append this.2.2⟩
      · have hok' : E.schemaOk sid = false := by simpa using hok
        simp only [schemaUpdate_notOk hok']
        exact ⟨hst, by simpa using hl⟩

theorem depsFold_noop {E : Env K} (hC : CompilerOK E) {S : Src} {A : Arts K} (deps : List String) :
    ∀ {st : Loop K}, st.arts = A → NoWrites st.log →
      (∀ sid ∈ deps, E.schemaPresent sid = true → E.schemaOk sid = true →
        SchemaBuildOK E S sid ∧ ∀ a ∈ schemaAssigns E S sid, A.Holds a) →
      (deps.foldl (buildSchema E S true) st).arts = A ∧ NoWrites (deps.foldl (buildSchema E S true) st).log := by
  induction deps with
  | nil => intro st h1 h2 _; exact ⟨h1, h2⟩
  | cons x deps ih =>
    intro st h1 h2 hd
    simp only [List.foldl_cons]
    have := buildSchema_noop hC true h1 h2 (hd x (by simp))
    exact ih this.1 this.2 (fun s hs => hd s (by simp [hs]))

theorem visit_noop {E : Env K} (hC : CompilerOK E) {S : Src} {A : Arts K} {l : List String}
    (hset : Settled E S l A) {st : Loop K} (hst : st.arts = A) (hl : NoWrites st.log) {sid : String}
    (hsid : sid ∈ l) (hp : E.schemaPresent sid = true) (hok : E.schemaOk sid = true) :
    (visit E S st sid).arts = A ∧ NoWrites (visit E S st sid).log := by
  unfold visit
  have h1 := buildSchema_noop hC false hst hl (sid := sid) (hset sid (Or.inl hsid))
  obtain ⟨⟨c, hc, _⟩, hh⟩ := hset sid (Or.inl hsid) hp hok
  have hcfg : A.cfg (.schema sid) = some c := hh (.cfg (.schema sid) c) (by simp [schemaAssigns, hc])
  simp only [h1.1, hcfg]
  exact depsFold_noop hC c.deps h1.1 h1.2 (fun x hx => hset x (Or.inr ⟨sid, hsid, c, hc, hx⟩))

theorem listFold_noop {E : Env K} (hC : CompilerOK E) {S : Src} {A : Arts K} {l : List String}
    (hset : Settled E S l A) (l' : List String) :
    ∀ {st : Loop K}, st.arts = A → NoWrites st.log →
      (∀ sid ∈ l', sid ∈ l ∧ E.schemaPresent sid = true ∧ E.schemaOk sid = true) →
      (l'.foldl (visit E S) st).arts = A ∧ NoWrites (l'.foldl (visit E S) st).log := by
  induction l' with
  | nil => intro st h1 h2 _; exact ⟨h1, h2⟩
  | cons x l' ih =>
    intro st h1 h2 hl
    simp only [List.foldl_cons]
    obtain ⟨a, b, c⟩ := hl x (by simp)
    have := visit_noop hC hset h1 h2 a b c
    exact ih this.1 this.2 (fun s hs => hl s (by simp [hs]))

/-- a deployment over a settled staging directory rewrites nothing -/
theorem workspaceUpdate_noop {E : Env K} (hC : CompilerOK E) {S : Src} (hS : SourcesOK E S) {A : Arts K}
    (h0 : ∀ c0, E.compile .default S = some c0 → A.cfg .default = some c0)
    (hset : ∀ l, (∃ c0, E.compile .default S = some c0 ∧ c0.schemaList = some l) → Settled E S l A)
    (now : Time) :
    (workspaceUpdate E S now A).1 = { A with lastBuild := castInt now } ∧ NoWrites (workspaceUpdate E S now A).2.2 := by
  obtain ⟨c0, l, hc0, hl, hlist, _⟩ := hS.default
  unfold workspaceUpdate
  simp only [configFileUpdate_noop hC hc0 (h0 c0 hc0), h0 c0 hc0, hl]
  have := listFold_noop hC (hset l ⟨c0, hc0, hl⟩) l
    (st := ⟨A, [], 0, [Event.cfgDecision CfgId.default false]⟩) rfl
    (by intro e he; simp at he; subst he; rfl)
    (fun sid hs => ⟨hs, (hlist sid hs).1, (hlist sid hs).2⟩)
  exact ⟨by rw [this.1], this.2⟩

end RimeModel.C12
