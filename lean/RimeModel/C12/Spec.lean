import RimeModel.C12.Model
/-!
# C12 — what a deployment *should* leave: the plan of assignments, and the notions used by the theorems

`plan E S` is a list of artefact assignments computed from the sources alone (never from the staging
directory).  The central lemma (`Lemmas.lean`) says that on a consistent staging directory the real control
flow (`workspaceUpdate`) ends in exactly `applyAssigns A (plan E S)` — whatever was there before.
-/
namespace RimeModel.C12

variable {K : Type}

inductive Assign (K : Type) where
  | cfg (id : CfgId) (a : CfgArt)
  | table (n : String) (t : TableArt K)
  | reverse (n : String) (r : ReverseArt K)
  | prism (n : String) (p : PrismArt K)

deriving instance DecidableEq for Assign

def Arts.set (A : Arts K) : Assign K → Arts K
  | .cfg id a => { A with cfg := upd A.cfg id a }
  | .table n t => { A with table := upd A.table n t }
  | .reverse n r => { A with reverse := upd A.reverse n r }
  | .prism n p => { A with prism := upd A.prism n p }

def applyAssigns (A : Arts K) (l : List (Assign K)) : Arts K := l.foldl Arts.set A

/-- the staging directory holds exactly this artefact under this name -/
def Arts.Holds (A : Arts K) : Assign K → Prop
  | .cfg id a => A.cfg id = some a
  | .table n t => A.table n = some t
  | .reverse n r => A.reverse n = some r
  | .prism n p => A.prism n = some p

/-- two assignments target the same file -/
def Assign.SameName : Assign K → Assign K → Prop
  | .cfg i _, .cfg j _ => i = j
  | .table n _, .table m _ => n = m
  | .reverse n _, .reverse m _ => n = m
  | .prism n _, .prism m _ => n = m
  | _, _ => False

/-- no file is assigned two different contents ("one prism name per (dictionary, algebra)", a pack belongs to
    one primary dictionary, a primary dictionary is nobody's pack …) -/
def Functional (l : List (Assign K)) : Prop :=
  ∀ a ∈ l, ∀ b ∈ l, a.SameName b → a = b

instance (a b : Assign K) : Decidable (a.SameName b) := by
  cases a <;> cases b <;> simp only [Assign.SameName] <;> infer_instance

instance [DecidableEq K] (l : List (Assign K)) : Decidable (Functional l) := by
  unfold Functional; infer_instance

/-! ### the plan -/

def filesOf (E : Env K) (d : String) : List Content := ((E.dictSrc d).files).getD []

def packAssign (E : Env K) (ck0 : K) (fs : List Content) (q : String) : Assign K :=
  .table q ⟨E.ck ck0 (filesOf E q), some (Syl.of fs), filesOf E q⟩

def dictAssigns (E : Env K) (d p : String) (packs : List String) (sc : CfgArt) : List (Assign K) :=
  let fs := filesOf E d
  let ck0 := E.ck E.zero fs
  [.table d ⟨ck0, none, fs⟩, .reverse d ⟨ck0, fs⟩, .prism p ⟨ck0, E.fck sc, Syl.of fs, sc⟩]
    ++ packs.map (packAssign E ck0 fs)

def schemaAssigns (E : Env K) (S : Src) (sid : String) : List (Assign K) :=
  match E.compile (.schema sid) S with
  | none => []
  | some c =>
    .cfg (.schema sid) c ::
      (match c.dict with
       | none => []
       | some d => dictAssigns E d c.prism c.packs c)

/-- spec state of the schema loop: ids handled, assignments so far, failures -/
structure Plan (K : Type) where
  built : List String
  assigns : List (Assign K)
  failures : Nat

def specBuild (E : Env K) (S : Src) (asDep : Bool) (bs : Plan K) (sid : String) : Plan K :=
  if bs.built.contains sid then bs
  else if !E.schemaPresent sid then
    { bs with built := sid :: bs.built, failures := if asDep then bs.failures else bs.failures + 1 }
  else if !E.schemaOk sid then
    { bs with built := sid :: bs.built, failures := bs.failures + 1 }
  else { bs with built := sid :: bs.built, assigns := bs.assigns ++ schemaAssigns E S sid }

def specVisit (E : Env K) (S : Src) (bs : Plan K) (sid : String) : Plan K :=
  let bs1 := specBuild E S false bs sid
  match E.compile (.schema sid) S with
  | none => bs1
  | some c => c.deps.foldl (specBuild E S true) bs1

def planState (E : Env K) (S : Src) : Option (Plan K) :=
  match E.compile .default S with
  | none => none
  | some c0 =>
    match c0.schemaList with
    | none => none
    | some l => some (l.foldl (specVisit E S) ⟨[], [.cfg .default c0], 0⟩)

/-- every assignment a deployment of `S` makes, in order — a function of the sources only -/
def plan (E : Env K) (S : Src) : List (Assign K) :=
  match planState E S with
  | none => []
  | some p => p.assigns

def planOk (E : Env K) (S : Src) : Bool :=
  match planState E S with
  | none => false
  | some p => p.failures == 0

/-! ### hypotheses -/

/-- what `BuildInfoPlugin` records for a resource: `recorded mtime`, 0 for one that is not there -/
def stampOf (S : Src) (r : Rid) : Stamp :=
  match S r with
  | some p => recorded p.2
  | none => 0

/-- the property's "edits change the modification time", as far as the deployer can see it: a file seen twice with
    the same *recorded* time has the same content.  With 64-bit timestamps this is the plain "same mtime ⇒ same
    content" (`C12.recorded_of_64`); with the `(int)` cast two mtimes a multiple of 2³² s ≈ 136 years apart are the same
    recorded time, and such a pair is outside this hypothesis (`C12.old_int_cast_counterexample`). -/
def Coherent (S₀ S : Src) : Prop :=
  ∀ r c c' t t', S₀ r = some (c, t) → S r = some (c', t') → recorded t = recorded t' → c = c'

/-- no source file is recorded with time 0 (the value the build info uses for "absent"): no mtime 0 — and, with the
    `(int)` cast, no mtime a multiple of 2³² s from the epoch -/
def PosTimes (S : Src) : Prop := ∀ r c t, S r = some (c, t) → recorded t ≠ 0

/-- what the config compiler gets to see of a resource: its content, and its mtime only as the value it records -/
def seen (S : Src) (r : Rid) : Option (Content × Stamp) :=
  (S r).map fun ct => (ct.1, recorded ct.2)

/-- assumptions about the config compiler (C14's subject): the timestamps it records are `recorded mtime` of what
    it read, and its output depends on nothing but the resources it records (their content and recorded time) -/
structure CompilerOK (E : Env K) : Prop where
  faithful : ∀ id S a, E.compile id S = some a → ∀ p ∈ a.stamps, p.2 = stampOf S p.1
  local' : ∀ id S S' a, E.compile id S = some a → (∀ p ∈ a.stamps, seen S' p.1 = seen S p.1) →
    E.compile id S' = some a

/-- "checksum injective on the contents at hand" -/
structure CkOK (E : Env K) : Prop where
  inj : ∀ s l s' l', l ≠ [] → l' ≠ [] → E.ck s l = E.ck s' l' → s = s' ∧ l = l'
  ne_zero : ∀ s l, l ≠ [] → E.ck s l ≠ E.zero
  fck_inj : ∀ a b, E.fck a = E.fck b → a = b

/-- the same, over a whole history: `cat r t` is *the* content file `r` had whenever its mtime was recorded as `t` -/
def Stamped (cat : Rid → Stamp → Content) (S : Src) : Prop :=
  ∀ r c t, S r = some (c, t) → c = cat r (recorded t)

/-- a compiled config is what the compiler made of *some* earlier state of the sources of this history -/
def CfgOK (E : Env K) (cat : Rid → Stamp → Content) (id : CfgId) (a : CfgArt) : Prop :=
  ∃ S₀, E.compile id S₀ = some a ∧ Stamped cat S₀ ∧ PosTimes S₀

def TableOK (E : Env K) (t : TableArt K) : Prop :=
  t.files ≠ [] ∧
    match t.pack with
    | none => t.ck = E.ck E.zero t.files
    | some (Syl.of b) => b ≠ [] ∧ t.ck = E.ck (E.ck E.zero b) t.files
    | some Syl.empty => False

def PrismOK (E : Env K) (q : PrismArt K) : Prop :=
  q.schemaCk = E.fck q.cfg ∧ ∃ b, b ≠ [] ∧ q.syl = Syl.of b ∧ q.dictCk = E.ck E.zero b

def ReverseOK (E : Env K) (r : ReverseArt K) : Prop :=
  r.files ≠ [] ∧ r.ck = E.ck E.zero r.files

/-- every artefact that loads records the fingerprints of what it was really built from -/
structure Consistent (E : Env K) (cat : Rid → Stamp → Content) (A : Arts K) : Prop where
  cfg : ∀ id a, A.cfg id = some a → CfgOK E cat id a
  table : ∀ n t, A.table n = some t → TableOK E t
  prism : ∀ n q, A.prism n = some q → PrismOK E q
  reverse : ∀ n r, A.reverse n = some r → ReverseOK E r

/-- the source of dictionary `d` is there, its header loads, all its imports exist -/
def DictOK (E : Env K) (d : String) : Prop :=
  (E.dictSrc d).present = true ∧ (E.dictSrc d).headerOk = true ∧
    ∃ fs, (E.dictSrc d).files = some fs ∧ fs ≠ []

/-- schema `sid` can be built: its config compiles and links, its dictionary and packs have sources -/
def SchemaBuildOK (E : Env K) (S : Src) (sid : String) : Prop :=
  ∃ c, E.compile (.schema sid) S = some c ∧
    ∀ d, c.dict = some d → DictOK E d ∧ ∀ q ∈ c.packs, DictOK E q

/-- reachable from the schema list: listed, or a dependency of a listed schema -/
def Reach (E : Env K) (S : Src) (l : List String) (sid : String) : Prop :=
  sid ∈ l ∨ ∃ s ∈ l, ∃ c, E.compile (.schema s) S = some c ∧ sid ∈ c.deps

/-- the sources are deployable: `default` compiles and has a schema list; every listed schema has a valid
    source; every reachable schema with a valid source can be built -/
structure SourcesOK (E : Env K) (S : Src) : Prop where
  pos : PosTimes S
  default : ∃ c0 l, E.compile .default S = some c0 ∧ c0.schemaList = some l ∧
    (∀ sid ∈ l, E.schemaPresent sid = true ∧ E.schemaOk sid = true) ∧
    (∀ sid, Reach E S l sid → E.schemaPresent sid = true → E.schemaOk sid = true → SchemaBuildOK E S sid)

/-! ### histories -/

/-- the tools (compiler, checksums) are the same program along a history; only the sources change -/
def SameTools (E E' : Env K) : Prop :=
  E'.compile = E.compile ∧ E'.ck = E.ck ∧ E'.zero = E.zero ∧ E'.fck = E.fck

/-- one step of a history: the environment as the sources of that moment make it, the sources, the clock -/
abbrev Step (K : Type) := Env K × Src × Time

def runHistory [DecidableEq K] (A : Arts K) (h : List (Step K)) : Arts K :=
  h.foldl (fun A e => (deploy e.1 e.2.1 e.2.2 A).1) A


end RimeModel.C12
