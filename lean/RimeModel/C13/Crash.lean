import RimeModel.C12.Lemmas
import RimeModel.C12.Cover
/-!
# C13 — crash states of a deployment, in the terms of the C12 model

A deployment performs the assignments of `plan E S` in order (C12, `workspaceUpdate_spec` and its step-wise
simulation).  A kill leaves: the assignments completed so far, and — for the file being written, or any file a
kill left unloadable — nothing that loads.  That every file left behind is of this kind (old and intact, new
and complete, or rejected by `Load`) is what the artefact-level theorems of `Props/C13.lean` and the kill-point
runs of `checks/C13.py` establish.
-/
namespace RimeModel.C13
open RimeModel.C12

set_option linter.unusedSectionVars false

variable {K : Type} [DecidableEq K] {cat : Rid → Time → Content}

inductive Slot where
  | cfg (id : CfgId)
  | table (n : String)
  | prism (n : String)
  | reverse (n : String)
deriving DecidableEq, Repr

/-- the artefact in this slot is missing or rejected by its `Load` -/
def dropSlot (A : Arts K) : Slot → Arts K
  | .cfg id => { A with cfg := fun x => if x = id then none else A.cfg x }
  | .table n => { A with table := fun x => if x = n then none else A.table x }
  | .prism n => { A with prism := fun x => if x = n then none else A.prism x }
  | .reverse n => { A with reverse := fun x => if x = n then none else A.reverse x }

theorem consistent_drop {E : Env K} {A : Arts K} (h : Consistent E cat A) (s : Slot) :
    Consistent E cat (dropSlot A s) := by
  cases s with
  | cfg id =>
    refine ⟨?_, h.table, h.prism, h.reverse⟩
    intro i a ha
    simp only [dropSlot] at ha
    split at ha
    · cases ha
    · exact h.cfg i a ha
  | table n =>
    refine ⟨h.cfg, ?_, h.prism, h.reverse⟩
    intro i a ha
    simp only [dropSlot] at ha
    split at ha
    · cases ha
    · exact h.table i a ha
  | prism n =>
    refine ⟨h.cfg, h.table, ?_, h.reverse⟩
    intro i a ha
    simp only [dropSlot] at ha
    split at ha
    · cases ha
    · exact h.prism i a ha
  | reverse n =>
    refine ⟨h.cfg, h.table, h.prism, ?_⟩
    intro i a ha
    simp only [dropSlot] at ha
    split at ha
    · cases ha
    · exact h.reverse i a ha

theorem consistent_drops {E : Env K} (D : List Slot) :
    ∀ {A : Arts K}, Consistent E cat A → Consistent E cat (D.foldl dropSlot A) := by
  induction D with
  | nil => intro A h; exact h
  | cons s D ih => intro A h; exact ih (consistent_drop h s)

/-- the staging directory a kill during a deployment of plan `l` over `A` can leave -/
def CrashState (A : Arts K) (l : List (Assign K)) (X : Arts K) : Prop :=
  ∃ (k : Nat) (D : List Slot), X = D.foldl dropSlot (applyAssigns A (l.take k))

/-! ### every planned assignment is a consistent artefact -/

def AllOK (E : Env K) (cat : Rid → Time → Content) (bs : Plan K) : Prop := ∀ a ∈ bs.assigns, a.OK E cat

theorem specBuild_allOK {E : Env K} {S : Src} (hS : PosTimes S) (hSt : Stamped cat S) (asDep : Bool) {bs : Plan K}
    (h : AllOK E cat bs) {sid : String}
    (hb : E.schemaPresent sid = true → E.schemaOk sid = true → SchemaBuildOK E S sid) :
    AllOK E cat (specBuild E S asDep bs sid) := by
  unfold specBuild
  split
  · exact h
  · split
    · exact h
    · split
      · exact h
      · next h1 h2 h3 =>
        intro a ha
        simp only [List.mem_append] at ha
        rcases ha with ha | ha
        · exact h a ha
        · exact schemaAssigns_ok hS hSt (hb (by simpa using h2) (by simpa using h3)) a ha

theorem depsFold_allOK {E : Env K} {S : Src} (hS : PosTimes S) (hSt : Stamped cat S) (deps : List String) :
    ∀ {bs : Plan K}, AllOK E cat bs →
      (∀ sid ∈ deps, E.schemaPresent sid = true → E.schemaOk sid = true → SchemaBuildOK E S sid) →
      AllOK E cat (deps.foldl (specBuild E S true) bs) := by
  induction deps with
  | nil => intro bs h _; exact h
  | cons d deps ih =>
    intro bs h hd
    simp only [List.foldl_cons]
    exact ih (specBuild_allOK hS hSt true h (hd d (by simp))) (fun s hs => hd s (by simp [hs]))

theorem listFold_allOK {E : Env K} {S : Src} (hS : PosTimes S) (hSt : Stamped cat S) (l0 : List String)
    (hreach : ∀ sid, Reach E S l0 sid → E.schemaPresent sid = true → E.schemaOk sid = true → SchemaBuildOK E S sid)
    (l : List String) :
    ∀ {bs : Plan K}, AllOK E cat bs → (∀ sid ∈ l, sid ∈ l0) → AllOK E cat (l.foldl (specVisit E S) bs) := by
  induction l with
  | nil => intro bs h _; exact h
  | cons x l ih =>
    intro bs h hl
    simp only [List.foldl_cons]
    apply ih _ (fun s hs => hl s (by simp [hs]))
    unfold specVisit
    have hx : x ∈ l0 := hl x (by simp)
    have h1 := specBuild_allOK hS hSt false h (sid := x) (hreach x (Or.inl hx))
    cases hc : E.compile (.schema x) S with
    | none => exact h1
    | some c => exact depsFold_allOK hS hSt c.deps h1 (fun d hd => hreach d (Or.inr ⟨x, hx, c, hc, hd⟩))

theorem plan_ok {E : Env K} {S : Src} (hS : SourcesOK E S) (hSt : Stamped cat S) :
    ∀ a ∈ plan E S, a.OK E cat := by
  obtain ⟨c0, l, hc0, hl, _, hreach⟩ := hS.default
  unfold plan planState
  simp only [hc0, hl]
  have h0 : AllOK E cat (⟨[], [.cfg .default c0], 0⟩ : Plan K) := by
    intro a ha
    simp only [List.mem_cons, List.not_mem_nil, or_false] at ha
    subst ha
    exact cfgOK_fresh hS.pos hSt hc0
  exact listFold_allOK hS.pos hSt l hreach l h0 (fun _ h => h)

end RimeModel.C13
