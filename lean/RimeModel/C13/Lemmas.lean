import RimeModel.C13.Model
/-! # C13 — helper lemmas about prefixes of store sequences -/
namespace RimeModel.C13
open RimeModel.Gen

theorem run_nil (f : File) : run [] f = f := rfl
theorem run_cons (op : Op) (l : List Op) (f : File) : run (op :: l) f = run l (op.run f) := rfl
theorem run_append (l m : List Op) (f : File) : run (l ++ m) f = run m (run l f) := by
  simp [run, List.foldl_append]

theorem reach_nil {f0 f : File} : Reach [] f0 f ↔ f = f0 := by
  constructor
  · rintro ⟨k, h⟩; simpa [run] using h
  · intro h; exact ⟨0, by simp [run, h]⟩

theorem reach_cons {op : Op} {l : List Op} {f0 f : File} :
    Reach (op :: l) f0 f ↔ f = f0 ∨ Reach l (op.run f0) f := by
  constructor
  · rintro ⟨k, h⟩
    cases k with
    | zero => left; simpa [run] using h
    | succ k => right; exact ⟨k, by simpa [run] using h⟩
  · rintro (h | ⟨k, h⟩)
    · exact ⟨0, by simp [run, h]⟩
    · exact ⟨k + 1, by simpa [run] using h⟩

theorem reach_append {l m : List Op} {f0 f : File} :
    Reach (l ++ m) f0 f ↔ Reach l f0 f ∨ Reach m (run l f0) f := by
  induction l generalizing f0 with
  | nil => simp [reach_nil, run_nil]; intro h; exact ⟨0, by simp [run, h]⟩
  | cons op l ih =>
    simp only [List.cons_append, reach_cons, ih, run_cons]
    constructor
    · rintro (h | h | h)
      · exact Or.inl (Or.inl h)
      · exact Or.inl (Or.inr h)
      · exact Or.inr h
    · rintro ((h | h) | h)
      · exact Or.inl h
      · exact Or.inr (Or.inl h)
      · exact Or.inr (Or.inr h)

/-! ### the block phase: the tag and the checksum are not touched -/

theorem run_blocks (ends : List Nat) : ∀ (img : Img), ∃ img', run (ends.map Op.storeBlock) (some img) = some img' ∧
    img'.tag = img.tag ∧ img'.ck = img.ck ∧ img'.blocks = img.blocks + ends.length ∧
    (img.need ≤ img.size → img'.need ≤ img'.size) := by
  induction ends with
  | nil => intro img; exact ⟨img, rfl, rfl, rfl, by simp, id⟩
  | cons e ends ih =>
    intro img
    obtain ⟨img', h1, h2, h3, h4, h5⟩ := ih { img with blocks := img.blocks + 1, need := max img.need e, size := max img.size e }
    refine ⟨img', by simpa [run_cons, Op.run] using h1, h2, h3, by simp at h4 ⊢; omega, ?_⟩
    intro hle
    apply h5
    simp only
    omega

theorem reach_blocks (ends : List Nat) : ∀ (img : Img) (f : File), Reach (ends.map Op.storeBlock) (some img) f →
    ∃ img', f = some img' ∧ img'.tag = img.tag := by
  induction ends with
  | nil => intro img f h; rw [List.map_nil, reach_nil] at h; exact ⟨img, h, rfl⟩
  | cons e ends ih =>
    intro img f h
    rw [List.map_cons, reach_cons] at h
    rcases h with h | h
    · exact ⟨img, h, rfl⟩
    · obtain ⟨img', h1, h2⟩ := ih _ f h
      exact ⟨img', h1, h2⟩

/-! ### the tag phase: only the tag moves -/

theorem reach_tagOps_aux (n : Nat) : ∀ (s : Nat) (img : Img) (f : File),
    Reach ((List.range' s n).map fun i => Op.storeTag (i + 1)) (some img) f →
    ∃ t, f = some { img with tag := t } := by
  induction n with
  | zero => intro s img f h; simp only [List.range'_zero, List.map_nil, reach_nil] at h; exact ⟨img.tag, h⟩
  | succ n ih =>
    intro s img f h
    simp only [List.range'_succ, List.map_cons, reach_cons] at h
    rcases h with h | h
    · exact ⟨img.tag, h⟩
    · obtain ⟨t, ht⟩ := ih (s + 1) _ f h
      exact ⟨t, by simpa [Op.run] using ht⟩

theorem reach_tagOps (n : Nat) (img : Img) (f : File) (h : Reach (tagOps n) (some img) f) :
    ∃ t, f = some { img with tag := t } := by
  unfold tagOps at h
  rw [List.range_eq_range'] at h
  exact reach_tagOps_aux n 0 img f h

theorem run_tagOps_aux (n : Nat) : ∀ (s : Nat) (img : Img),
    ∃ t, run ((List.range' s n).map fun i => Op.storeTag (i + 1)) (some img) = some { img with tag := t } := by
  induction n with
  | zero => intro s img; exact ⟨img.tag, rfl⟩
  | succ n ih =>
    intro s img
    simp only [List.range'_succ, List.map_cons, run_cons, Op.run]
    obtain ⟨t, ht⟩ := ih (s + 1) { img with tag := s + 1 }
    exact ⟨t, by simpa using ht⟩

theorem run_tagOps (n : Nat) (img : Img) : ∃ t, run (tagOps n) (some img) = some { img with tag := t } := by
  unfold tagOps
  rw [List.range_eq_range']
  exact run_tagOps_aux n 0 img

/-- what follows the four leading stores: blocks, tag, shrink — starting from an image without tag -/
theorem tail_tag_last (tagLen minTag : Nat) (hmin : 1 ≤ minTag) (b : Build) (img4 : Img) (f : File)
    (t4 : img4.tag = 0) (c4 : img4.ck = some b.g) (b4 : img4.blocks = 0) (n4 : img4.need ≤ img4.size)
    (hr : Reach (b.ends.map Op.storeBlock ++ (tagOps tagLen ++ [Op.shrink])) (some img4) f)
    (hl : load true minTag f = true) : ∃ img, f = some img ∧ CompleteData b img := by
  rw [reach_append] at hr
  rcases hr with hr | hr
  · obtain ⟨img', h1, h2⟩ := reach_blocks _ _ _ hr
    subst h1
    simp [load, h2, t4] at hl
    omega
  · obtain ⟨img5, r5, _, c5, b5, n5⟩ := run_blocks b.ends img4
    rw [r5, reach_append] at hr
    rcases hr with hr | hr
    · obtain ⟨t, ht⟩ := reach_tagOps _ _ _ hr
      exact ⟨_, ht, by simp [CompleteData, c5, c4, b5, b4, n5 n4]⟩
    · obtain ⟨t, ht⟩ := run_tagOps tagLen img5
      rw [ht, reach_cons] at hr
      rcases hr with hr | hr
      · exact ⟨_, hr, by simp [CompleteData, c5, c4, b5, b4, n5 n4]⟩
      · rw [reach_nil] at hr
        exact ⟨_, hr, by simp [CompleteData, c5, c4, b5, b4, Op.run]⟩

/-- **the store order the source has for a table / prism**: removed first, metadata zeroed, checksum, data,
    tag last, shrink.  Any prefix that `Load` accepts is the untouched old file or holds all the data. -/
theorem removed_first_tag_last (tagLen minTag : Nat) (hmin : 1 ≤ minTag) (b : Build) (f0 f : File)
    (hz : DeployFacts.allocateZeroes = true)
    (h : Reach (Op.remove :: Op.create b.cap :: Op.zeroMeta b.metaSize :: Op.storeCk b.g ::
      (b.ends.map Op.storeBlock ++ (tagOps tagLen ++ [Op.shrink]))) f0 f)
    (hl : load true minTag f = true) : f = f0 ∨ ∃ img, f = some img ∧ CompleteData b img := by
  rw [reach_cons] at h
  rcases h with h | h
  · exact Or.inl h
  rw [reach_cons] at h
  rcases h with h | h
  · subst h; simp [load, Op.run] at hl
  rw [reach_cons] at h
  rcases h with h | h
  · subst h; simp [load, Op.run] at hl; omega
  rw [reach_cons] at h
  rcases h with h | h
  · subst h; simp [load, Op.run, hz] at hl; omega
  right
  simp only [Op.run, hz, ↓reduceIte] at h
  exact tail_tag_last tagLen minTag hmin b _ f rfl rfl rfl (by simp only; omega) h hl

/-- **a builder that works in place** (no removal; `Create` resizes the existing file): any prefix that `Load`
    accepts holds all the data of the old build or of the new one — *provided the new estimate does not cut
    the old file*. -/
theorem in_place_tag_last (tagLen minTag : Nat) (hmin : 1 ≤ minTag) (b0 b : Build) (f0 f : File)
    (hz : DeployFacts.allocateZeroes = true)
    (h0 : f0 = none ∨ ∃ img0, f0 = some img0 ∧ CompleteData b0 img0 ∧ img0.size ≤ b.cap)
    (h : Reach (Op.create b.cap :: Op.zeroMeta b.metaSize :: Op.storeCk b.g ::
      (b.ends.map Op.storeBlock ++ (tagOps tagLen ++ [Op.shrink]))) f0 f)
    (hl : load true minTag f = true) : ∃ img, f = some img ∧ (CompleteData b0 img ∨ CompleteData b img) := by
  -- the image after create
  have hc : ∃ img1 : Img, (Op.create b.cap).run f0 = some img1 ∧ (img1.tag ≠ 0 → CompleteData b0 img1) := by
    rcases h0 with h0 | ⟨img0, h0, hc0, hs0⟩
    · subst h0; exact ⟨_, rfl, by simp⟩
    · subst h0
      by_cases hr : DeployFacts.createResizesExisting = true
      · refine ⟨{ img0 with size := b.cap }, by simp [Op.run, hr], ?_⟩
        intro _
        obtain ⟨a, b', c⟩ := hc0
        exact ⟨a, b', by simp only; omega⟩
      · refine ⟨⟨b.cap, 0, none, 0, 0⟩, by simp [Op.run, hr], by simp⟩
  obtain ⟨img1, hc1, hc1'⟩ := hc
  rw [reach_cons] at h
  rcases h with h | h
  · subst h
    rcases h0 with h0 | ⟨img0, h0, hc0, _⟩
    · subst h0; simp [load] at hl
    · exact ⟨img0, h0, Or.inl hc0⟩
  rw [hc1, reach_cons] at h
  rcases h with h | h
  · subst h
    refine ⟨img1, rfl, Or.inl (hc1' ?_)⟩
    simp [load] at hl
    omega
  rw [reach_cons] at h
  rcases h with h | h
  · subst h; simp [Op.run, hz, load] at hl; omega
  simp only [Op.run, hz, ↓reduceIte] at h
  obtain ⟨img, h1, h2⟩ := tail_tag_last tagLen minTag hmin b _ f rfl rfl rfl (by simp only; omega) h hl
  exact ⟨img, h1, Or.inr h2⟩

end RimeModel.C13
