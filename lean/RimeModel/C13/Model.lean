import RimeModel.Gen.DeployFacts
/-!
# C13 — what a kill leaves of a file that a builder is writing

A builder (`Table::Build`+`Save`, `Prism::Build`+`Save`, `ReverseDb::Build`+`Save`, `ConfigData::SaveToFile`) is
a *sequence of abstract stores* on one file; a kill leaves the file as the result of a **prefix** of that
sequence (dirty `MAP_SHARED` pages stay in the page cache, so a killed process leaves exactly the stores it
executed).  The order of the stores is not hand-written: the booleans in `RimeModel.Gen.DeployFacts` are
re-extracted from the source on every run (format tag stored last?  file removed before the build?  does
`Load` test the tag?  does `MappedFile::Create` resize an existing file in place?  is the YAML written in
place?).

Mapped artefacts (`table.bin`, `prism.bin`, `reverse.bin`): the image records how many leading bytes of a valid
format tag it holds, which build's checksum, how many data blocks of that build, how far they reach.
-/
namespace RimeModel.C13
open RimeModel.Gen

structure Img where
  /-- file size -/
  size : Nat
  /-- leading bytes of a valid format tag at offset 0 (the tag text is the same for every build) -/
  tag : Nat
  /-- recorded checksum, as the id of the build that stored it -/
  ck : Option Nat
  /-- data blocks stored (each with its pointer in the metadata) since the metadata was last zeroed -/
  blocks : Nat
  /-- how far the metadata and the stored blocks reach -/
  need : Nat
deriving DecidableEq, Repr

/-- `none` = no such file -/
abbrev File := Option Img

inductive Op where
  /-- `MappedFile::Remove` -/
  | remove
  /-- `MappedFile::Create(cap)`: a missing file becomes `cap` zero bytes; an existing one is resized in place
      when `createResizesExisting` (its old bytes — tag, checksum, pointers — stay) -/
  | create (cap : Nat)
  /-- `Allocate<Metadata>()`: the metadata block is zeroed (tag, checksum, pointers gone) -/
  | zeroMeta (metaSize : Nat)
  | storeCk (g : Nat)
  /-- one `Allocate`/`CreateArray`/`CopyString` + fill + pointer store, reaching to `upto`
      (`Allocate` grows the file when it has to) -/
  | storeBlock (upto : Nat)
  /-- the first `n` bytes of the format tag are in place -/
  | storeTag (n : Nat)
  /-- `ShrinkToFit` -/
  | shrink
deriving DecidableEq, Repr

def Op.run : Op → File → File
  | .remove, _ => none
  | .create cap, none => some ⟨cap, 0, none, 0, 0⟩
  | .create cap, some img =>
    if DeployFacts.createResizesExisting then some { img with size := cap } else some ⟨cap, 0, none, 0, 0⟩
  | .zeroMeta m, some img =>
    if DeployFacts.allocateZeroes then some { img with tag := 0, ck := none, blocks := 0, need := m, size := max img.size m }
    else some { img with need := m, size := max img.size m }
  | .storeCk g, some img => some { img with ck := some g }
  | .storeBlock upto, some img => some { img with blocks := img.blocks + 1, need := max img.need upto, size := max img.size upto }
  | .storeTag n, some img => some { img with tag := n }
  | .shrink, some img => some { img with size := img.need }
  | _, none => none

def run (l : List Op) (f : File) : File := l.foldl (fun f op => op.run f) f

/-- the file as a kill after some prefix of the stores leaves it -/
def Reach (l : List Op) (f0 f : File) : Prop := ∃ k, f = run (l.take k) f0

/-- one build: its id (what its checksum identifies), the estimated capacity, the metadata size, where each
    data block ends -/
structure Build where
  g : Nat
  cap : Nat
  metaSize : Nat
  ends : List Nat
deriving Repr

def tagOps (tagLen : Nat) : List Op := (List.range tagLen).map fun i => Op.storeTag (i + 1)

/-- the store sequence of a builder, in the order the source has it -/
def program (removedFirst tagLast : Bool) (tagLen : Nat) (b : Build) : List Op :=
  (if removedFirst then [Op.remove] else []) ++
  [Op.create b.cap, Op.zeroMeta b.metaSize, Op.storeCk b.g] ++
  (if tagLast then [] else tagOps tagLen) ++
  b.ends.map Op.storeBlock ++
  (if tagLast then tagOps tagLen else []) ++
  [Op.shrink]

def tableProgram := program DeployFacts.tableRemovedFirst DeployFacts.tableTagLast
def prismProgram := program DeployFacts.prismRemovedFirst DeployFacts.prismTagLast
def reverseProgram := program DeployFacts.reverseRemovedFirst DeployFacts.reverseTagLast

/-- `Load`: the file exists and at least `minTag ≥ 1` leading bytes of the format tag are there (prefix test,
    version test); a `Load` that does not test the tag accepts any existing file -/
def load (testsTag : Bool) (minTag : Nat) : File → Bool
  | none => false
  | some img => if testsTag then decide (minTag ≤ img.tag) else true

/-- all the data of build `b` is in the file, described by the checksum of `b` -/
def CompleteData (b : Build) (img : Img) : Prop :=
  img.ck = some b.g ∧ img.blocks = b.ends.length ∧ img.need ≤ img.size

/-! ## compiled YAML -/

/-- a compiled config as the emitter writes it: top-level entries in key order; `__build_info` sorts first -/
abbrev Doc := List (String × Nat)

structure YState where
  /-- the destination `build/<name>.yaml` -/
  dest : Option Doc
  /-- a temporary file next to it (only used by an atomic writer) -/
  tmp : Option Doc
deriving DecidableEq, Repr

inductive YOp where
  /-- `std::ofstream out(dest)`: the destination is truncated -/
  | openTrunc
  /-- one more piece reaches the destination (a flush of the stream buffer) -/
  | write (e : String × Nat)
  | openTmp
  | writeTmp (e : String × Nat)
  /-- `rename(tmp, dest)` -/
  | rename
deriving DecidableEq, Repr

def YOp.run : YOp → YState → YState
  | .openTrunc, s => { s with dest := some [] }
  | .write e, s => { s with dest := s.dest.map (· ++ [e]) }
  | .openTmp, s => { s with tmp := some [] }
  | .writeTmp e, s => { s with tmp := s.tmp.map (· ++ [e]) }
  | .rename, s => match s.tmp with
    | some d => { dest := some d, tmp := none }
    | none => s

def yrun (l : List YOp) (s : YState) : YState := l.foldl (fun s op => op.run s) s

def YReach (l : List YOp) (s0 s : YState) : Prop := ∃ k, s = yrun (l.take k) s0

/-- `ConfigData::SaveToFile` -/
def yamlProgram (inPlace : Bool) (doc : Doc) : List YOp :=
  if inPlace then [YOp.openTrunc] ++ doc.map YOp.write
  else [YOp.openTmp] ++ doc.map YOp.writeTmp ++ [YOp.rename]

def saveToFile := yamlProgram DeployFacts.yamlSavedInPlace

/-- what `ConfigNeedsUpdate` requires of the file it finds: it parses and carries the build info whose
    timestamps match the sources (`bi` = the build-info entry a fresh build of the current sources writes) -/
def yload (bi : String × Nat) : Option Doc → Bool
  | none => false
  | some d => d.head? == some bi

end RimeModel.C13
