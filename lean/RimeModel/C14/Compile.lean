import RimeModel.C14.Parse
/-!
C14 — the reference compiler.

`compile docs fuel chain ⟨doc, path⟩ nullInit t` is the value the node `t` (found at the parse-time
`path` of document `doc`) ends up with:

1. children first (every child below which a dependency is registered, in key order; this includes
   the value of `__patch`, whose literals are compiled before they are applied);
2. then the node's `__include`: the slot becomes a copy of the compiled referenced node and the
   node's own entries are merged over it with `MergeTree` semantics;
3. then its `__patch` entries in list order — a reference to a node holding a literal, or a literal;
   each literal a fold of `EditNode` over its keys in key order — and last, on a resource root without
   an explicit `__patch`, the automatic `<name>.custom:/patch?`.

A reference `R:/p` is resolved like `GetResolvedItem`: walk `p` from the root of `R`; before stepping
below a node that is *blocking* (has an `__include` / `__patch` of its own) compile that node fully;
a node that only has pending children is stepped through; the node arrived at is compiled fully.

Recursion is open (`compileNode` takes the recursive call as a parameter) and closed by `compile` on
fuel.  The resolve chain (`chain`) holds the nodes under compilation; meeting a node at or below which
an entry of the chain lies is a circular dependency (`HasCircularDependencies`): the result is then
flagged `dirty` and no equality with the implementation is claimed for it.

Failure semantics (`ok = false`): a dependency that fails stops the node (`ResolveDependencies`
returns at once; later dependencies stay unapplied, later children stay in parse form) and the failure
propagates to the dependants.  Where the code swallows a failure (an optional reference to a node that
fails; a blocking ancestor that fails inside `GetResolvedItem`) the result is flagged `dirty`.
-/
namespace RimeModel.C14

structure NodeId where
  doc : Str
  path : List Str
  deriving Repr, Inhabited

/-- an entry of the resolve chain: the node under resolution and, once its children are done and its own
dependencies are being applied, the current value of its slot (what a reference walking through it reads) -/
structure CEntry where
  id : NodeId
  cur : Option Tree := none
  deriving Inhabited

abbrev RChain := List CEntry

/-- flags accumulated along a compilation -/
structure Fl where
  ok : Bool := true
  dirty : Bool := false
  fuelOut : Bool := false
  crash : Bool := false
  deriving Repr, Inhabited

/-- sequential composition: `ok` of the later step replaces, the sticky flags accumulate -/
def Fl.seq (a b : Fl) : Fl :=
  { ok := a.ok && b.ok, dirty := a.dirty || b.dirty, fuelOut := a.fuelOut || b.fuelOut, crash := a.crash || b.crash }

/-- a failure was swallowed: the step counts as succeeded, the result as best-effort -/
def Fl.swallow (a : Fl) : Fl :=
  { ok := true, dirty := a.dirty || !a.ok, fuelOut := a.fuelOut, crash := a.crash }

def Fl.ofER (r : ER) : Fl := { ok := r.ok, crash := r.crash }

/-- node result: `lit` = for a map node its stored entries with children compiled (the object a
`PatchLiteral` of the parent holds); `slot` = the value of the node's slot after its own dependencies -/
structure NR where
  lit : Tree
  slot : Tree
  fl : Fl
  deriving Inhabited

abbrev Rec := RChain → NodeId → Bool → Tree → NR
abbrev Docs := Str → Option Tree

def isPrefixOf : List Str → List Str → Bool
  | [], _ => true
  | _ :: _, [] => false
  | a :: as, b :: bs => a == b && isPrefixOf as bs

/-- `HasCircularDependencies(graph, path)`: some entry of the chain is `path` or lies below it -/
def circular (chain : RChain) (n : NodeId) : Bool :=
  chain.any fun x => x.id.doc == n.doc && isPrefixOf n.path x.id.path

/-- the current slot value of an in-progress node that is applying its own dependencies -/
def curOf : RChain → NodeId → Option Tree
  | [], _ => none
  | e :: es, n => if e.id.doc == n.doc && e.id.path == n.path then e.cur else curOf es n

/-! ### reference resolution (`ResolveReference` / `GetResolvedItem`) -/

inductive Cursor where
  | raw (path : List Str) (t : Tree)   -- a parse-time node, not compiled yet
  | done (v : Tree)                    -- inside a compiled value
  deriving Inhabited

/-- descend one key in a value (`Is<ConfigList>` / `Is<ConfigMap>` branches); `none` = inaccessible -/
def descend (item : Tree) (key : Str) : Option (Str × Tree) :=
  match item with
  | .list xs =>
    if isListItemReference key then
      let i := (resolveListIndex xs.length key).1
      some (formatListIndex i, listGet xs i)
    else none
  | .map kvs => some (key, mapGet kvs key)
  | _ => none

/-- one iteration of the key loop of `GetResolvedItem` -/
def walkStep (rec : Rec) (chain : RChain) (doc : Str) (cur : Cursor) (key : Str) : Option Cursor × Fl :=
  match cur with
  | .done v =>
    match descend v key with
    | some (_, c) => (some (.done c), {})
    | none => (none, {})
  | .raw path t =>
    match curOf chain ⟨doc, path⟩ with
    | some v =>
      -- the node is applying its own dependencies right now: the walk reads its slot as it is
      let fl : Fl := { dirty := !underHead chain doc path }
      match descend v key with
      | some (_, c) => (some (.done c), fl)
      | none => (none, fl)
    | none =>
    if isBlocking doc path t && !circular chain ⟨doc, path⟩ then
      -- `ResolveBlockingDependencies`; a failure is only logged
      let r := rec chain ⟨doc, path⟩ false t
      match descend r.slot key with
      | some (_, c) => (some (.done c), r.fl.swallow)
      | none => (none, r.fl.swallow)
    else
      -- not blocking, or blocking but itself under resolution (the circular-dependency warning of
      -- `ResolveBlockingDependencies` is only logged): step through its stored entries.  This is the
      -- normal case of a local reference made from below a node that has an `__include`/`__patch` (every
      -- resource root has the auto-patch): the reference reads the node *before* its own dependencies.
      -- If the node stepped through is not an ancestor of the referencing node, what is read depends on
      -- the resolution order: flagged best-effort.
      let benign := !isBlocking doc path t || underHead chain doc path
      let fl : Fl := { dirty := !benign }
      match descend (parseForm' t) key with
      | some (k, c) => (some (.raw (path ++ [k]) c), fl)
      | none => (none, fl)
where
  /-- is ⟨doc, path⟩ the node whose dependency is being resolved (head of the chain) or an ancestor of it -/
  underHead (chain : RChain) (doc : Str) (path : List Str) : Bool :=
    match chain with
    | n :: _ => n.id.doc == doc && isPrefixOf path n.id.path
    | [] => false
  /-- one level of `parseForm`: the stored entries of a map, children untouched -/
  parseForm' : Tree → Tree
    | .map kvs => .map (kvs.filter fun kv => !consumed kv.1 kv.2)
    | t => t

def walk (rec : Rec) (chain : RChain) (doc : Str) : List Str → Cursor → Fl → Option Cursor × Fl
  | [], cur, fl => (some cur, fl)
  | k :: ks, cur, fl =>
    let s := walkStep rec chain doc cur k
    match s.1 with
    | some c => walk rec chain doc ks c (fl.seq s.2)
    | none => (none, fl.seq s.2)

/-- result of resolving a reference: the item (`none` = the null pointer) and the flags; `fl.ok = false`
means the target exists but its own compilation failed -/
structure RR where
  val : Option Tree
  fl : Fl
  deriving Inhabited

def someNonNull (t : Tree) : Option Tree := if t.isNull then none else some t

def finish (rec : Rec) (chain : RChain) (doc : Str) (cur : Cursor) (fl : Fl) : RR :=
  match cur with
  | .done v => { val := someNonNull v, fl := fl }
  | .raw path t =>
    if nodeHasDeps doc path t then
      let r := rec chain ⟨doc, path⟩ false t
      if r.fl.ok then { val := someNonNull r.slot, fl := fl.seq r.fl }
      else { val := none, fl := fl.seq r.fl }
    else { val := someNonNull (parseForm t), fl := fl }

/-- `ResolveReference(compiler, reference)` -/
def resolveRef (docs : Docs) (rec : Rec) (chain : RChain) (ref : Reference) : RR :=
  -- `Compile(reference.resource_id)` applies `ToResourceId` once more: a reference whose resource id still ends
  -- in `.yaml` (`b.yaml.yaml:/m`, `import_preset: default.yaml`) loads — on every resolution anew — the document
  -- named without it
  let res := toResourceId ref.resource
  match docs res with
  | none => { val := none, fl := {} }
  | some root =>
    if ref.path.isEmpty || ref.path == [c_slash] then finish rec chain res (.raw [] root) {}
    else
      let w := walk rec chain res (splitPath ref.path) (.raw [] root) {}
      match w.1 with
      | some cur => finish rec chain res cur w.2
      | none => { val := none, fl := w.2 }

/-! ### applying a node's own dependencies to its slot -/

/-- a slot under edit: value of the base reference, chain of copy-on-write references below it (empty
for a map / list entry), flags so far -/
structure Slot where
  base : Tree
  head : Chain
  fl : Fl
  deriving Inhabited

/-- `IncludeReference::Resolve`: a missing target succeeds iff the reference is optional; otherwise the
slot becomes (a copy of) the included item and the slot's previous entries, if it held a non-empty map,
are merged over it -/
def applyInclude (docs : Docs) (rec : Rec) (chain : RChain) (s : Slot) (ref : Reference) : Slot :=
  let r := resolveRef docs rec chain ref
  match r.val with
  | none =>
    if ref.optional then { s with fl := s.fl.seq r.fl.swallow }
    else { s with fl := s.fl.seq { r.fl with ok := false } }
  | some inc =>
    let overrides := (getC s.base s.head).asMap
    match setC s.base s.head inc with
    | none => { s with fl := s.fl.seq { r.fl with ok := false, crash := true } }
    | some (b, h) =>
      match overrides with
      | some (kv :: kvs) =>
        let m := mergeEntries b h (kv :: kvs)
        { base := m.base, head := m.head, fl := (s.fl.seq r.fl).seq (Fl.ofER m) }
      | _ => { base := b, head := h, fl := s.fl.seq r.fl }

/-- `PatchLiteral::Resolve` -/
def applyPatchLit (s : Slot) (lit : Tree) : Slot :=
  match lit with
  | .map kvs =>
    let r := patchEntries s.base s.head kvs
    { base := r.base, head := r.head, fl := s.fl.seq (Fl.ofER r) }
  | _ => { s with fl := s.fl.seq { ok := false } }

/-- `PatchReference::Resolve` -/
def applyPatchRef (docs : Docs) (rec : Rec) (chain : RChain) (s : Slot) (ref : Reference) : Slot :=
  let r := resolveRef docs rec chain ref
  match r.val with
  | none =>
    if ref.optional then { s with fl := s.fl.seq r.fl.swallow }
    else { s with fl := s.fl.seq { r.fl with ok := false } }
  | some item => applyPatchLit { s with fl := s.fl.seq r.fl } item

/-- the chain seen by a dependency of node `n` while `n`'s slot holds `s.base` -/
def ownChain (n : NodeId) (pc : RChain) (s : Slot) : RChain := { id := n, cur := some s.base } :: pc

/-- the `__patch` dependencies of a node, in order; a failed one stops the node -/
def applyPatches (docs : Docs) (rec : Rec) (n : NodeId) (pc : RChain) (lits : List Tree) :
    List PDep → Slot → Slot
  | [], s => s
  | d :: ds, s =>
    if !s.fl.ok then s else
    match d with
    | .ref t =>
      applyPatches docs rec n pc lits ds (applyPatchRef docs rec (ownChain n pc s) s (createReference n.doc t))
    | .lit i => applyPatches docs rec n pc lits ds (applyPatchLit s (lits.getD i .null))

/-! ### children -/

/-- compile one child (only children with registered dependencies are ever resolved; after a failure
the remaining ones stay in parse form) -/
def compileChild (rec : Rec) (chain : RChain) (doc : Str) (path : List Str) (nullInit : Bool) (k : Str)
    (v : Tree) (fl : Fl) : NR :=
  if fl.ok && hasDeps v then
    let r := rec chain ⟨doc, path ++ [k]⟩ nullInit v
    { r with fl := fl.seq r.fl }
  else { lit := parseForm v, slot := if nullInit then .null else parseForm v, fl := fl }

/-- list elements: `(lits, slots, flags)` -/
def compileElems (rec : Rec) (chain : RChain) (doc : Str) (path : List Str) :
    List Tree → Nat → Fl → List Tree × List Tree × Fl
  | [], _, fl => ([], [], fl)
  | x :: xs, i, fl =>
    let r := compileChild rec chain doc path false (formatListIndex i) x fl
    let rest := compileElems rec chain doc path xs (i + 1) r.fl
    (r.lit :: rest.1, r.slot :: rest.2.1, rest.2.2)

/-- accumulated result of a map node's children -/
structure MC where
  data : Entries := []
  lits : List Tree := []
  fl : Fl := {}
  deriving Inhabited

def compileEntries (rec : Rec) (chain : RChain) (doc : Str) (path : List Str) : Entries → MC → MC
  | [], acc => acc
  | (k, v) :: rest, acc =>
    if k == kInclude && v.isScalar then compileEntries rec chain doc path rest acc
    else if k == kPatch then
      match v with
      | .map _ =>
        -- a literal; directives directly inside it act on the (absent) `__patch` entry of this map
        let r := compileChild rec chain doc path true kPatch v acc.fl
        compileEntries rec chain doc path rest
          { data := if r.slot.isNull then acc.data else acc.data ++ [(kPatch, r.slot)], lits := [r.lit], fl := r.fl }
      | .list es =>
        let r := compileElems rec chain doc (path ++ [kPatch]) es 0 acc.fl
        compileEntries rec chain doc path rest
          { data := if (parsePatchValue v).2 then acc.data else acc.data ++ [(kPatch, .list r.2.1)],
            lits := r.1, fl := r.2.2 }
      | .scalar _ => compileEntries rec chain doc path rest acc
      | .null => compileEntries rec chain doc path rest { acc with data := acc.data ++ [(kPatch, .null)] }
    else
      let r := compileChild rec chain doc path false k v acc.fl
      compileEntries rec chain doc path rest { acc with data := acc.data ++ [(k, r.slot)], fl := r.fl }

/-! ### a node -/

/-- own dependencies of a node applied to its initial slot value: `__include`, the `__patch` entries in
order, then (resource roots only) the automatic custom patch.  `pc` is the chain below the node. -/
def applyOwn (docs : Docs) (rec : Rec) (pc : RChain) (n : NodeId) (t : Tree) (lits : List Tree)
    (init : Tree) (fl : Fl) : Slot :=
  let d := ownDeps t
  let s0 : Slot := { base := init, head := [], fl := fl }
  let s1 := match d.incl with
    | some s => applyInclude docs rec (ownChain n pc s0) s0 (createReference n.doc s)
    | none => s0
  let s2 := applyPatches docs rec n pc lits d.patches s1
  if !s2.fl.ok then s2 else
  match (if n.path.isEmpty then autoPatchRef n.doc t else none) with
  | some r => applyPatchRef docs rec (ownChain n pc s2) s2 r
  | none => s2

/-- one node, the recursive calls going through `rec` -/
def compileNode (docs : Docs) (rec : Rec) (chain : RChain) (n : NodeId) (nullInit : Bool) (t : Tree) : NR :=
  if circular chain n then
    { lit := parseForm t, slot := if nullInit then .null else parseForm t, fl := { ok := false, dirty := true } }
  else
    let chain' : RChain := { id := n } :: chain
    match t with
    | .map kvs =>
      let mc := compileEntries rec chain' n.doc n.path kvs {}
      let lit := Tree.map mc.data
      let init := if nullInit then Tree.null else lit
      if !mc.fl.ok then { lit := lit, slot := init, fl := mc.fl } else
      let s := applyOwn docs rec chain n t mc.lits init mc.fl
      { lit := lit, slot := s.base, fl := s.fl }
    | .list xs =>
      let r := compileElems rec chain' n.doc n.path xs 0 {}
      let v := Tree.list r.2.1
      if !r.2.2.ok then { lit := v, slot := v, fl := r.2.2 } else
      let s := applyOwn docs rec chain n t [] v r.2.2
      { lit := v, slot := s.base, fl := s.fl }
    | _ =>
      let s := applyOwn docs rec chain n t [] t {}
      { lit := t, slot := s.base, fl := s.fl }

/-- closing the recursion on fuel; running out is reported, never silent -/
def compile (docs : Docs) : Nat → Rec
  | 0 => fun _ _ nullInit t =>
    { lit := parseForm t, slot := if nullInit then .null else parseForm t,
      fl := { ok := false, dirty := true, fuelOut := true } }
  | f + 1 => compileNode docs (compile docs f)

end RimeModel.C14
