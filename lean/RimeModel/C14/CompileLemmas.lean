import RimeModel.C14.Lemmas
import RimeModel.C14.Doc
/-! C14 — helper lemmas about the compiler: directive-free trees, the reachable-document closure. -/
namespace RimeModel.C14

mutual
/-- no `__include` / `__patch` key anywhere -/
def noDir : Tree → Bool
  | .map kvs => noDirM kvs
  | .list xs => noDirL xs
  | _ => true
def noDirL : List Tree → Bool
  | [] => true
  | x :: xs => noDir x && noDirL xs
def noDirM : Entries → Bool
  | [] => true
  | (k, v) :: rest => k != kInclude && k != kPatch && noDir v && noDirM rest
end

theorem registersDep_other {k : Str} (v : Tree) (h1 : k ≠ kInclude) (h2 : k ≠ kPatch) : registersDep k v = false := by
  simp [registersDep, h1, h2]

theorem consumed_other {k : Str} (v : Tree) (h1 : k ≠ kInclude) (h2 : k ≠ kPatch) : consumed k v = false := by
  simp [consumed, h1, h2]

mutual
theorem hasDeps_noDir : ∀ t : Tree, noDir t = true → hasDeps t = false
  | .map kvs, h => by simp only [noDir] at h; simp only [hasDeps]; exact hasDepsM_noDir kvs h
  | .list xs, h => by simp only [noDir] at h; simp only [hasDeps]; exact hasDepsL_noDir xs h
  | .null, _ => by simp [hasDeps]
  | .scalar _, _ => by simp [hasDeps]
theorem hasDepsL_noDir : ∀ xs : List Tree, noDirL xs = true → hasDepsL xs = false
  | [], _ => by simp [hasDepsL]
  | x :: xs, h => by
    simp only [noDirL, Bool.and_eq_true] at h
    simp [hasDepsL, hasDeps_noDir x h.1, hasDepsL_noDir xs h.2]
theorem hasDepsM_noDir : ∀ kvs : Entries, noDirM kvs = true → hasDepsM kvs = false
  | [], _ => by simp [hasDepsM]
  | (k, v) :: rest, h => by
    simp only [noDirM, Bool.and_eq_true, bne_iff_ne, ne_eq] at h
    simp [hasDepsM, registersDep_other v h.1.1.1 h.1.1.2, hasDeps_noDir v h.1.2, hasDepsM_noDir rest h.2]
end

mutual
theorem parseForm_noDir : ∀ t : Tree, noDir t = true → parseForm t = t
  | .map kvs, h => by simp only [noDir] at h; simp only [parseForm]; rw [parseFormM_noDir kvs h]
  | .list xs, h => by simp only [noDir] at h; simp only [parseForm]; rw [parseFormL_noDir xs h]
  | .null, _ => by simp [parseForm]
  | .scalar _, _ => by simp [parseForm]
theorem parseFormL_noDir : ∀ xs : List Tree, noDirL xs = true → parseFormL xs = xs
  | [], _ => by simp [parseFormL]
  | x :: xs, h => by
    simp only [noDirL, Bool.and_eq_true] at h
    simp [parseFormL, parseForm_noDir x h.1, parseFormL_noDir xs h.2]
theorem parseFormM_noDir : ∀ kvs : Entries, noDirM kvs = true → parseFormM kvs = kvs
  | [], _ => by simp [parseFormM]
  | (k, v) :: rest, h => by
    simp only [noDirM, Bool.and_eq_true, bne_iff_ne, ne_eq] at h
    simp [parseFormM, consumed_other v h.1.1.1 h.1.1.2, parseForm_noDir v h.1.2, parseFormM_noDir rest h.2]
end

theorem ownDepsM_noDir : ∀ kvs : Entries, noDirM kvs = true → ownDepsM kvs = {}
  | [], _ => by simp [ownDepsM]
  | (k, v) :: rest, h => by
    simp only [noDirM, Bool.and_eq_true, bne_iff_ne, ne_eq] at h
    simp [ownDepsM, h.1.1.1, h.1.1.2, ownDepsM_noDir rest h.2]

theorem compileEntries_noDir (rec : Rec) (chain : RChain) (doc : Str) (path : List Str) :
    ∀ (kvs : Entries) (acc : MC), noDirM kvs = true →
      compileEntries rec chain doc path kvs acc = { acc with data := acc.data ++ kvs }
  | [], acc, _ => by simp [compileEntries]
  | (k, v) :: rest, acc, h => by
    simp only [noDirM, Bool.and_eq_true, bne_iff_ne, ne_eq] at h
    unfold compileEntries
    simp [h.1.1.1, h.1.1.2, compileChild, hasDeps_noDir v h.1.2, parseForm_noDir v h.1.2,
      compileEntries_noDir rec chain doc path rest _ h.2]

theorem autoPatch_resource {doc : Str} {root : Tree} {r : Reference} (h : autoPatchRef doc root = some r) :
    r.resource = customOf doc ∧ r.optional = true := by
  unfold autoPatchRef at h
  split at h
  · cases h
  · split at h
    · cases h
    · cases h; simp [customOf]

theorem endsWith_custom_yaml (a : Str) : Str.endsWith (a ++ kDotCustom) kDotYaml = false := by
  have h : (a ++ kDotCustom).length - kDotYaml.length = a.length + 2 := by
    simp [kDotCustom, kDotYaml]
  simp only [Str.endsWith, h]
  have : List.drop (a.length + 2) (a ++ kDotCustom) = List.drop 2 kDotCustom := by
    rw [List.drop_append]
    simp
  rw [this]
  simp [kDotCustom, kDotYaml]

/-- a `.custom` resource id is never shortened by `ToResourceId` -/
theorem toResourceId_custom (a : Str) : toResourceId (a ++ kDotCustom) = a ++ kDotCustom := by
  simp [toResourceId, endsWith_custom_yaml]

theorem compileNode_plain_root (docs : Docs) (rec : Rec) (name : Str) (kvs : Entries) (hnd : noDirM kvs = true)
    (hc : Str.endsWith name kDotCustom = true ∨ docs (customOf name) = none) :
    compileNode docs rec [] ⟨name, []⟩ false (.map kvs) = { lit := .map kvs, slot := .map kvs, fl := {} } := by
  have hown : ownDeps (.map kvs) = {} := by simp [ownDeps, ownDepsM_noDir kvs hnd]
  unfold compileNode
  simp only [circular, List.any_nil, Bool.false_eq_true, if_false]
  rw [compileEntries_noDir rec _ name [] kvs {} hnd]
  simp only [List.nil_append, Bool.false_eq_true, if_false, Bool.not_true]
  unfold applyOwn
  simp only [hown, applyPatches, Bool.not_true, Bool.false_eq_true, if_false, List.isEmpty_nil, if_true]
  cases hap : autoPatchRef name (.map kvs) with
  | none => simp
  | some r =>
    have hr := autoPatch_resource hap
    have hcd : docs (toResourceId r.resource) = none := by
      rcases hc with hc | hc
      · simp [autoPatchRef, hc] at hap
      · rw [hr.1]; unfold customOf; rw [toResourceId_custom]; exact hc
    simp [applyPatchRef, resolveRef, hcd, hr.2, Fl.seq, Fl.swallow]

theorem compile_plain_core (docs : Docs) (fuel : Nat) (name : Str) (kvs : Entries)
    (hdoc : docs name = some (.map kvs)) (hnd : noDirM kvs = true)
    (hs : Str.endsWith name kDotSchema = false)
    (hc : Str.endsWith name kDotCustom = true ∨ docs (customOf name) = none) :
    compileDocCore docs (fuel + 1) name
      = { loaded := true, mem := .map kvs, saved := some (Tree.map kvs).emitProj, fl := {} } := by
  have hp : parseForm (.map kvs) = .map kvs := by simp [parseForm, parseFormM_noDir kvs hnd]
  unfold compileDocCore
  simp only [hdoc]
  by_cases hd : nodeHasDeps name [] (.map kvs) = true
  · simp [hd, compile, compileNode_plain_root docs _ name kvs hnd hc, pluginDefault, hs, stampRoot, Tree.isMap]
  · simp [hd, hp, pluginDefault, hs, stampRoot, Tree.isMap]

/-! ### the closure of reachable documents -/
theorem closure_mono (docs : Docs) : ∀ (f : Nat) (todo seen : List Str) (x : Str), x ∈ seen → x ∈ closure docs f todo seen
  | 0, _, _, _, h => by simpa [closure] using h
  | _ + 1, [], _, _, h => by simpa [closure] using h
  | f + 1, n :: todo, seen, x, h => by
    unfold closure
    split
    · exact closure_mono docs f todo seen x h
    · split
      · exact closure_mono docs f todo (n :: seen) x (by simp [h])
      · exact closure_mono docs f _ (n :: seen) x (by simp [h])

theorem closure_congr (docs docs' : Docs) : ∀ (f : Nat) (todo seen : List Str),
    (∀ n ∈ closure docs f todo seen, docs' n = docs n) → closure docs' f todo seen = closure docs f todo seen
  | 0, _, _, _ => by simp [closure]
  | _ + 1, [], _, _ => by simp [closure]
  | f + 1, n :: todo, seen, h => by
    by_cases hc : seen.contains n = true
    · have hm : n ∈ seen := by simpa using hc
      have e : closure docs (f + 1) (n :: todo) seen = closure docs f todo seen := by simp [closure, hm]
      have e' : closure docs' (f + 1) (n :: todo) seen = closure docs' f todo seen := by simp [closure, hm]
      rw [e, e']
      exact closure_congr docs docs' f todo seen (by rw [e] at h; exact h)
    · have hm : ¬ n ∈ seen := by simpa using hc
      have hn : docs' n = docs n := by
        apply h
        unfold closure
        rw [if_neg hc]
        split
        · exact closure_mono docs f _ _ n (by simp)
        · exact closure_mono docs f _ _ n (by simp)
      cases hd : docs n with
      | none =>
        have e : closure docs (f + 1) (n :: todo) seen = closure docs f todo (n :: seen) := by simp [closure, hm, hd]
        have e' : closure docs' (f + 1) (n :: todo) seen = closure docs' f todo (n :: seen) := by
          simp [closure, hm, hn, hd]
        rw [e, e']
        exact closure_congr docs docs' f todo (n :: seen) (by rw [e] at h; exact h)
      | some t =>
        have e : closure docs (f + 1) (n :: todo) seen = closure docs f (refsOfDoc n t ++ todo) (n :: seen) := by
          simp [closure, hm, hd]
        have e' : closure docs' (f + 1) (n :: todo) seen = closure docs' f (refsOfDoc n t ++ todo) (n :: seen) := by
          simp [closure, hm, hn, hd]
        rw [e, e']
        exact closure_congr docs docs' f _ (n :: seen) (by rw [e] at h; exact h)

theorem restrict_congr (docs docs' : Docs) (s : List Str) (h : ∀ n ∈ s, docs' n = docs n) :
    restrict docs' s = restrict docs s := by
  funext n
  unfold restrict
  by_cases hc : s.contains n = true
  · have : n ∈ s := by simpa using hc
    rw [if_pos hc, if_pos hc, h n this]
  · rw [if_neg hc, if_neg hc]

theorem all_congr' {α : Type} (f g : α → Bool) : ∀ l : List α, (∀ n ∈ l, f n = g n) → l.all f = l.all g
  | [], _ => rfl
  | x :: xs, h => by
    simp only [List.all_cons, h x (by simp), all_congr' f g xs (fun n hn => h n (by simp [hn]))]

theorem closed_congr (docs docs' : Docs) (s : List Str) (h : ∀ n ∈ s, docs' n = docs n) :
    closed docs' s = closed docs s := by
  unfold closed
  apply all_congr'
  intro n hn
  rw [h n hn]

theorem compileDoc_congr (docs docs' : Docs) (cf fuel : Nat) (name : Str)
    (h : ∀ n ∈ closure docs cf [name] [], docs' n = docs n) :
    compileDoc docs' cf fuel name = compileDoc docs cf fuel name := by
  unfold compileDoc
  simp only [closure_congr docs docs' cf [name] [] h, restrict_congr docs docs' _ h, closed_congr docs docs' _ h]

theorem isPrefixOf_refl : ∀ p : List Str, isPrefixOf p p = true
  | [] => rfl
  | a :: as => by simp [isPrefixOf, isPrefixOf_refl as]

/-! ### concrete data for the non-vacuity examples of `Props/C14.lean` -/
namespace Ex
/-- `a` -/
def kA : Str := [97]
/-- `b.custom` -/
def kBc : Str := [98, 46, 99, 117, 115, 116, 111, 109]
/-- `a` = `{k: v, x: {__include: "b.custom:/", z: "1"}}`, `b.custom` = `{y: "2"}` -/
def docs : Docs := fun n =>
  if n == kA then
    some (.map [([107], .scalar [118]), ([120], .map [(kInclude, .scalar (kBc ++ [58, 47])), ([122], .scalar [49])])])
  else if n == kBc then some (.map [([121], .scalar [50])]) else none
/-- a cyclic dependency map: 0 → 1 → 0 -/
def cyc (n : Nat) : List Nat := if n = 0 then [1] else if n = 1 then [0] else []
end Ex
end RimeModel.C14
