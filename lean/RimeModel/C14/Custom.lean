import RimeModel.C14.Doc
/-!
C14 — the producer of the automatic patch: `CustomSettings` (src/rime/lever/custom_settings.cc) with
`Signature::Sign` (src/rime/signature.cc) on value trees.

`CustomSettings::Customize(key, item)` reads the map at `patch` of the loaded `<name>.custom.yaml`
(`Config::GetMap("patch")`: null unless the root is a map whose `patch` entry is a map), sets `key`
in it *as one map key* (the key may contain slashes: it is a patch path, not a tree path) and writes
the map back with `Config::SetItem("patch", …)` = `ConfigData::TraverseWrite`.  `Save()` does nothing
unless something was customized; otherwise it signs (`customization/{generator, modified_time,
distribution_code_name, distribution_version, rime_version}` through `Config::SetString`, each a
`TraverseWrite` that fails — and is ignored — where a non-map is in the way) and saves the tree; what
the file reloads to is `emitProj` of it (entries with null values are not written).

`TraverseWrite(path, item)` is `TraverseCopyOnWrite` + assignment: the same traversal `EditNode` uses
for a patch key without operator (`traverseWrite_eq_editNode` in Props/C14.lean).
-/
namespace RimeModel.C14

/-- `customization` -/
def kCustomization : Str := [99, 117, 115, 116, 111, 109, 105, 122, 97, 116, 105, 111, 110]

/-- `ConfigData::TraverseWrite(path, item)`: the new root and the success flag -/
def traverseWrite (root : Tree) (path : Str) (v : Tree) : Tree × Bool :=
  match traverseCow root [] path with
  | none => (root, false)
  | some tgt =>
    let r := assign root tgt tgt.length v
    (if r.ok then r.base else root, r.ok)

/-- `ConfigData::Traverse(key)` for one map key -/
def traverse1 (root : Tree) (key : Str) : Tree :=
  match root with
  | .map kvs => mapGet kvs key
  | _ => .null

/-- `CustomSettings::Customize(key, item)` on the loaded custom document -/
def customizeOne (custom : Tree) (key : Str) (item : Tree) : Tree :=
  let patch : Entries := ((traverse1 custom kPatchKey).asMap).getD []
  (traverseWrite custom kPatchKey (.map (mapSet patch key item))).1

def customizeAll (custom : Tree) : List (Str × Tree) → Tree
  | [] => custom
  | (k, v) :: rest => customizeAll (customizeOne custom k v) rest

/-- `Signature::Sign`: five `SetString`s below `customization`; `fields` = the five (name, value) pairs -/
def signWith (custom : Tree) : List (Str × Str) → Tree
  | [] => custom
  | (f, v) :: rest => signWith (traverseWrite custom (kCustomization ++ [c_slash] ++ f) (.scalar v)).1 rest

/-- `CustomSettings::IsFirstRun`: no (loadable) custom file, or no map at `customization` -/
def isFirstRun (file : Option Tree) : Bool :=
  match file with
  | none => true
  | some t => !(traverse1 t kCustomization).isMap

structure CustomResult where
  firstBefore : Bool
  loaded : Bool
  modified : Bool
  saved : Bool
  /-- what `<name>.custom.yaml` reloads to afterwards (`none`: there is no such file) -/
  file : Option Tree
  deriving Inhabited

/-- one session of `CustomSettings`: `IsFirstRun`, `Load`, `Customize` for every pair, `Save` -/
def customSession (file : Option Tree) (fields : List (Str × Str)) (kvs : List (Str × Tree)) : CustomResult :=
  let loaded := file.isSome
  let start : Tree := file.getD .null
  let modified := !kvs.isEmpty
  let after := customizeAll start kvs
  { firstBefore := isFirstRun file, loaded := loaded, modified := modified, saved := modified,
    file := if modified then some (signWith after fields).emitProj else file }

end RimeModel.C14
