import RimeModel.C14.Compile
/-!
C14 — a whole document: `ConfigBuilder::LoadConfig` = `Compile` + `Link` + the plugins' `ReviewLinkOutput`
in the order of core_module.cc (auto-patch [no-op at link], default `menu`, legacy `import_preset`,
legacy dictionary [no-op], build info, save).

`compileDoc docs cfuel fuel name` first restricts `docs` to the documents syntactically reachable from
`name` (`closure`), then runs the reference compiler on that finite set: the result is by construction a
function of the reachable documents only.
-/
namespace RimeModel.C14

/-! ### documents reachable through reference texts -/

mutual
/-- resource ids named by `__include` / `__patch` reference texts and `import_preset` values -/
def refsOf (cur : Str) : Tree → List Str
  | .map kvs => refsOfM cur kvs
  | .list xs => refsOfL cur xs
  | _ => []
def refsOfL (cur : Str) : List Tree → List Str
  | [] => []
  | x :: xs => refsOf cur x ++ refsOfL cur xs
def refsOfM (cur : Str) : Entries → List Str
  | [] => []
  | (k, v) :: rest =>
    let own : List Str :=
      if k == kInclude || k == kImportPreset then
        match v with
        | .scalar s => if k == kInclude then [toResourceId (createReference cur s).resource] else [toResourceId s]
        | _ => []
      else if k == kPatch then
        (parsePatchValue v).1.filterMap fun d =>
          match d with
          | .ref s => some (toResourceId (createReference cur s).resource)
          | .lit _ => none
      else []
    own ++ refsOf cur v ++ refsOfM cur rest
end

def customOf (doc : Str) : Str :=
  (if Str.endsWith doc kDotSchema then doc.take (doc.length - kDotSchema.length) else doc) ++ kDotCustom

/-- everything a loaded document may make the compiler load -/
def refsOfDoc (doc : Str) (t : Tree) : List Str :=
  customOf doc :: (if Str.endsWith doc kDotSchema then [kDefault] else []) ++ refsOf doc t

/-- depth-first closure; `seen` is returned when the work list is empty (or the fuel is) -/
def closure (docs : Docs) : Nat → List Str → List Str → List Str
  | 0, _, seen => seen
  | _ + 1, [], seen => seen
  | f + 1, n :: todo, seen =>
    if seen.contains n then closure docs f todo seen
    else
      match docs n with
      | none => closure docs f todo (n :: seen)
      | some t => closure docs f (refsOfDoc n t ++ todo) (n :: seen)

/-- is `seen` closed under `refsOfDoc` (false only if the closure ran out of fuel) -/
def closed (docs : Docs) (seen : List Str) : Bool :=
  seen.all fun n =>
    match docs n with
    | none => true
    | some t => (refsOfDoc n t).all seen.contains

def restrict (docs : Docs) (s : List Str) : Docs := fun n => if s.contains n then docs n else none

/-! ### link-time plugins -/

/-- `ConfigData::Traverse("a/b")` for two map keys -/
def getPath2 (root : Tree) (a b : Str) : Tree :=
  match root with
  | .map kvs =>
    match mapGet kvs a with
    | .map k2 => mapGet k2 b
    | _ => .null
  | _ => .null

def cow (k : Str) : CowRef := { key := k, copied := false }

/-- state of the resource root while the plugins run -/
structure PS where
  root : Tree
  fl : Fl := {}
  deriving Inhabited

/-- `DefaultConfigPlugin::ReviewLinkOutput` -/
def pluginDefault (docs : Docs) (rec : Rec) (name : Str) (p : PS) : PS :=
  if !p.fl.ok || !Str.endsWith name kDotSchema then p else
  let s := applyInclude docs rec [] { base := p.root, head := [cow kMenu], fl := p.fl }
    { resource := kDefault, path := kMenu, optional := true }
  { root := s.base, fl := s.fl }

/-- the `bindings` → `bindings/+` rewrite of `LegacyPresetConfigPlugin` before the include -/
def keyBinderPrep (root : Tree) : Option (Tree × Chain) :=
  let head0 : Chain := [cow kKeyBinder]
  match (getC root head0).asMap with
  | some kvs =>
    let appended := mapGet kvs kBindings
    if appended.isNull then some (root, head0) else
    match setC root (cow kBindingsAdd :: head0) appended with
    | some (b, ch) =>
      let h := ch.drop 1
      match getC b h with
      | .map k2 => some (putBack b h (.map (mapSet k2 kBindings .null)), h)
      | _ => none
    | none => none
  | none => some (root, head0)

/-- one `<sect>/import_preset` of `LegacyPresetConfigPlugin::ReviewLinkOutput` -/
def pluginPreset (docs : Docs) (rec : Rec) (name : Str) (sect : Str) (p : PS) : PS :=
  if !p.fl.ok then p else
  match getPath2 p.root sect kImportPreset with
  | .null => p
  | .scalar id =>
    let prep : Option (Tree × Chain) :=
      if sect == kKeyBinder then keyBinderPrep p.root else some (p.root, [cow sect])
    match prep with
    | none => { p with fl := { p.fl with ok := false, crash := true } }
    | some (root1, head1) =>
      let s := applyInclude docs rec [] { base := root1, head := head1, fl := p.fl }
        { resource := id, path := sect, optional := false }
      -- a schema that names itself as its preset reads its own root as the plugins have left it so far (a reference
      -- cycle through the link step): best effort
      { root := s.base, fl := if toResourceId id == name then { s.fl with dirty := true } else s.fl }
  | _ => { p with fl := { p.fl with ok := false } }

/-- result for one document -/
structure DocResult where
  loaded : Bool
  /-- `resource->data->root`, with the `__build_info` entry left out -/
  mem : Tree
  /-- what the staging file reloads to (`none`: nothing was saved), `__build_info` left out -/
  saved : Option Tree
  fl : Fl
  deriving Inhabited

/-- `BuildInfoPlugin`: `(*resource)["__build_info"]` turns a non-map root into a new map -/
def stampRoot (t : Tree) : Tree := if t.isMap then t else .map []

def compileDocCore (docs : Docs) (fuel : Nat) (name : Str) : DocResult :=
  match docs name with
  | none => { loaded := false, mem := .null, saved := none, fl := {} }
  | some root =>
    let rec_ := compile docs fuel
    let r : NR :=
      if nodeHasDeps name [] root then rec_ [] ⟨name, []⟩ false root
      else { lit := parseForm root, slot := parseForm root, fl := {} }
    if !r.fl.ok then { loaded := true, mem := r.slot, saved := none, fl := r.fl } else
    let p0 : PS := { root := r.slot, fl := r.fl }
    let p1 := pluginDefault docs rec_ name p0
    let p2 := if Str.endsWith name kDotSchema then
        pluginPreset docs rec_ name kRecognizer (pluginPreset docs rec_ name kPunctuator (pluginPreset docs rec_ name kKeyBinder p1))
      else p1
    if !p2.fl.ok then { loaded := true, mem := p2.root, saved := none, fl := p2.fl } else
    let m := stampRoot p2.root
    { loaded := true, mem := m, saved := some m.emitProj, fl := p2.fl }

/-- the reference: compile `name` against the documents reachable from it -/
def compileDoc (docs : Docs) (cfuel fuel : Nat) (name : Str) : DocResult :=
  let seen := closure docs cfuel [name] []
  let r := compileDocCore (restrict docs seen) fuel name
  if closed docs seen then r else { r with fl := { r.fl with fuelOut := true, dirty := true } }

/-- compiling several documents one after the other: no state is carried over -/
def compileAll (docs : Docs) (cfuel fuel : Nat) (names : List Str) : List DocResult :=
  names.map (compileDoc docs cfuel fuel)

end RimeModel.C14
