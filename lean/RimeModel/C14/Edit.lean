import RimeModel.C14.Path
/-!
C14 — the editing primitives of config_compiler.cc on pure value trees:
`ConfigCowRef` chains (config_cow_ref.h), `TypeCheckedCopyOnWrite` / `TraverseCopyOnWrite`
(config_data.cc:165-199), `IsAppending` / `IsMerging` / `StripOperator`, `AppendToString`,
`AppendToList`, `EditNode`, `MergeTree`, `PatchLiteral::Resolve` (config_compiler.cc:92-221).

A C++ reference `an<ConfigItemRef>` is modelled as a *base slot* (the value the outermost, in-place
reference currently holds: a map entry, a list entry, a resource root) plus a `Chain` of
copy-on-write references hanging below it, innermost first.  Each `ConfigCowRef` carries its
`copied_` flag: its first `SetItem` copies the container and re-assigns it through its parent (which
re-executes the parent's `Write`, and so re-inserts for the `@before` / `@after` list keys); later
`SetItem`s write into the container that `**parent_` reads at that moment.  Values are pure, so a
container shared by pointer in the C++ heap is simply a copy here: that the C++ copy-on-write
discipline never lets a write show through a shared pointer is what the differential check tests.
-/
namespace RimeModel.C14

structure CowRef where
  key : Str
  copied : Bool
  deriving Repr, Inhabited

/-- innermost reference first; `[]` is the base slot itself -/
abbrev Chain := List CowRef

/-- `**ref` -/
def getC (base : Tree) : Chain → Tree
  | [] => base
  | r :: ps => readKey (getC base ps) r.key

/-- replace, inside `container`, the element that `Read(container, key)` returns -/
def replaceRead (container : Tree) (key : Str) (v : Tree) : Tree :=
  if isListItemReference key then
    match container with
    | .list xs => .list (xs.set (resolveListIndex xs.length key).1 v)
    | t => t
  else
    match container with
    | .map kvs => .map (mapSet kvs key v)
    | t => t

/-- an in-place mutation of the object that `**chain` reads, seen from the base slot -/
def putBack (base : Tree) : Chain → Tree → Tree
  | [], v => v
  | r :: ps, v => putBack base ps (replaceRead (getC base ps) r.key v)

/-- `ref->SetItem(v)`; `none` = the code would call `Write` on a null container (not reachable
through the shapes the compiler builds; kept explicit) -/
def setC (base : Tree) : Chain → Tree → Option (Tree × Chain)
  | [], v => some (v, [])
  | r :: ps, v =>
    let cont := getC base ps
    if r.copied then
      if typedOk cont r.key then some (putBack base ps (writeKey cont r.key v), r :: ps) else none
    else
      match setC base ps (writeKey cont r.key v) with
      | some (b, ps') => some (b, { r with copied := true } :: ps')
      | none => none

/-- result of an editing step: success flag, new base slot value, the (flag-updated) chain of the
reference the caller passed in, and whether a null `Write` was hit -/
structure ER where
  ok : Bool
  base : Tree
  head : Chain
  crash : Bool := false
  deriving Inhabited

def ER.fail (base : Tree) (head : Chain) : ER := { ok := false, base := base, head := head }
def ER.good (base : Tree) (head : Chain) : ER := { ok := true, base := base, head := head }

/-- `*target = v` where `target` extends `head` by `n` references; returns the caller's `head` -/
def assign (base : Tree) (tgt : Chain) (n : Nat) (v : Tree) : ER :=
  match setC base tgt v with
  | some (b, t) => ER.good b (t.drop n)
  | none => { ok := false, base := base, head := tgt.drop n, crash := true }

/-- `TypeCheckedCopyOnWrite(parent, key)` -/
def typeChecked (base : Tree) (chain : Chain) (key : Str) : Option Chain :=
  if key.isEmpty then some chain else
  let existing := getC base chain
  if !existing.isNull && !typedOk existing key then none
  else some ({ key := key, copied := false } :: chain)

def traverseKeys (base : Tree) : List Str → Chain → Option Chain
  | [], ch => some ch
  | k :: ks, ch =>
    match typeChecked base ch k with
    | some ch' => traverseKeys base ks ch'
    | none => none

/-- `TraverseCopyOnWrite(head, path)` -/
def traverseCow (base : Tree) (head : Chain) (path : Str) : Option Chain :=
  if path.isEmpty || path == [c_slash] then some head else traverseKeys base (splitPath path) head

def isAppending (key : Str) : Bool := key == kAppend || Str.endsWith key kAddOp

def isMerging (key : Str) (value : Tree) (mergeTree : Bool) : Bool :=
  key == kMerge || Str.endsWith key kAddOp ||
    (mergeTree && (value.isNull || value.isMap) && !Str.endsWith key kEquOp)

def stripOperator (key : Str) (adding : Bool) : Str :=
  if key == kAppend || key == kMerge then []
  else Str.eraseLast key (if adding then kAddOp else kEquOp)

/-- `AppendToString(target, As<ConfigValue>(value))`; `none` = returned false (nothing written) -/
def appendToString (cur value : Tree) : Option Tree :=
  match value, cur with
  | .scalar v, .scalar e => some (.scalar (e ++ v))
  | _, _ => none

/-- `AppendToList(target, As<ConfigList>(value))` -/
def appendToList (base : Tree) (tgt : Chain) (n : Nat) (cur value : Tree) : ER :=
  match value with
  | .list ys =>
    match cur with
    | .list xs => if ys.isEmpty then ER.good base (tgt.drop n) else assign base tgt n (.list (xs ++ ys))
    | _ =>
      if !cur.isEmptyItem then ER.fail base (tgt.drop n) else
      -- `target->AsList()`: a first SetItem with a new empty list
      match setC base tgt (.list []) with
      | none => { ok := false, base := base, head := tgt.drop n, crash := true }
      | some (b1, t1) => if ys.isEmpty then ER.good b1 (t1.drop n) else assign b1 t1 n (.list ys)
  | _ => ER.fail base (tgt.drop n)

mutual
/-- `EditNode(head, key, value, merge_tree)` -/
def editNode (base : Tree) (head : Chain) (key : Str) (value : Tree) (mt : Bool) : ER :=
  let appending := isAppending key
  let merging := isMerging key value mt
  let path := stripOperator key (appending || merging)
  match (if mt then typeChecked base head path else traverseCow base head path) with
  | none => ER.fail base head
  | some tgt =>
    let n := tgt.length - head.length
    let cur := getC base tgt
    if (appending || merging) && !cur.isNull then
      if value.isNull then ER.good base head else
      match (if appending then appendToString cur value else none) with
      | some s => assign base tgt n s
      | none =>
        let a := if appending then appendToList base tgt n cur value else ER.fail base head
        if a.ok || a.crash then a else
        if !merging then ER.fail base head else
        match value with
        | .map kvs =>
          let r := mergeEntries base tgt kvs
          { r with head := r.head.drop n }
        | _ => ER.fail base head
    else assign base tgt n value
/-- the loop of `MergeTree(target, map)`: stops at the first failing key -/
def mergeEntries (base : Tree) (head : Chain) : Entries → ER
  | [] => ER.good base head
  | (k, v) :: rest =>
    let r := editNode base head k v true
    if r.ok then mergeEntries r.base r.head rest else r
end

/-- `MergeTree(target, map)` with `target` = base slot + `head` -/
def mergeTree (base : Tree) (head : Chain) (m : Tree) : ER :=
  match m with
  | .map kvs => mergeEntries base head kvs
  | _ => ER.fail base head

/-- the loop of `PatchLiteral::Resolve`: every key is tried, the result is the conjunction -/
def patchEntries (base : Tree) (head : Chain) : Entries → ER
  | [] => ER.good base head
  | (k, v) :: rest =>
    let r := editNode base head k v false
    let r2 := patchEntries r.base r.head rest
    { r2 with ok := r.ok && r2.ok, crash := r.crash || r2.crash }

end RimeModel.C14
