import RimeModel.C14.Edit
/-! C14 — helper lemmas: byte-string facts for keys without '/', and the one-step behaviour of `editNode`. -/
namespace RimeModel.C14

def NoSlash (k : Str) : Prop := ∀ c ∈ k, c ≠ c_slash

theorem trimLeft_noSlash {k : Str} (h : NoSlash k) : Str.trimLeft c_slash k = k := by
  cases k with
  | nil => rfl
  | cons c cs =>
    have : c ≠ c_slash := h c (by simp)
    simp [Str.trimLeft, this]

theorem splitOn_noSlash {k : Str} (h : NoSlash k) : Str.splitOn c_slash k = [k] := by
  induction k with
  | nil => rfl
  | cons c cs ih =>
    have hc : c ≠ c_slash := h c (by simp)
    have ih' := ih (fun x hx => h x (by simp [hx]))
    simp [Str.splitOn, ih', hc]

theorem startsWith_slash {k q : Str} (h : NoSlash k) : Str.startsWith k (c_slash :: q) = false := by
  cases k with
  | nil => simp [Str.startsWith]
  | cons c cs =>
    have hc : c ≠ c_slash := h c (by simp)
    simp [Str.startsWith, hc]

theorem findLast_noSlash {k q : Str} (h : NoSlash k) : Str.findLast k (c_slash :: q) = none := by
  induction k with
  | nil => simp [Str.findLast]
  | cons c cs ih =>
    have ih' := ih (fun x hx => h x (by simp [hx]))
    simp [Str.findLast, ih', startsWith_slash h]

theorem endsWith_noSlash {k q : Str} (h : NoSlash k) : Str.endsWith k (c_slash :: q) = false := by
  unfold Str.endsWith
  simp only [Bool.and_eq_false_imp, decide_eq_true_eq, beq_eq_false_iff_ne, ne_eq]
  intro _ heq
  have : c_slash ∈ List.drop (k.length - (c_slash :: q).length) k := by rw [heq]; simp
  exact h _ (List.mem_of_mem_drop this) rfl

theorem findLast_append_op {k : Str} (h : NoSlash k) (o : UInt8) :
    Str.findLast (k ++ [c_slash, o]) [c_slash, o] = some k.length := by
  induction k with
  | nil => simp [Str.findLast, Str.startsWith]
  | cons c cs ih =>
    have ih' := ih (fun x hx => h x (by simp [hx]))
    simp [Str.findLast, ih']

theorem eraseLast_append_op {k : Str} (h : NoSlash k) (o : UInt8) :
    Str.eraseLast (k ++ [c_slash, o]) [c_slash, o] = k := by
  simp [Str.eraseLast, findLast_append_op h o]

theorem endsWith_append (k p : Str) : Str.endsWith (k ++ p) p = true := by
  simp [Str.endsWith]

/-- a key that names one map entry and carries no operator -/
structure PlainKey (k : Str) : Prop where
  ne : k ≠ []
  ns : NoSlash k
  nl : isListItemReference k = false
  na : k ≠ kAppend
  nm : k ≠ kMerge

theorem isAppending_plain {k : Str} (h : PlainKey k) : isAppending k = false := by
  have e : Str.endsWith k [47, 43] = false := endsWith_noSlash (q := [43]) h.ns
  simp [isAppending, h.na, kAddOp, e]

theorem eraseLast_plain {k : Str} (h : PlainKey k) (o : UInt8) : Str.eraseLast k [c_slash, o] = k := by
  simp [Str.eraseLast, findLast_noSlash h.ns]

theorem stripOperator_plain {k : Str} (h : PlainKey k) (adding : Bool) : stripOperator k adding = k := by
  unfold stripOperator
  have e1 := eraseLast_plain h 43
  have e2 := eraseLast_plain h 61
  cases adding <;> simp_all [h.na, h.nm, kAddOp, kEquOp, c_slash]

theorem traverseCow_plain {k : Str} (h : PlainKey k) (kvs : Entries) :
    traverseCow (.map kvs) [] k = some [{ key := k, copied := false }] := by
  have hk : k ≠ [c_slash] := by
    intro e; exact h.ns c_slash (by simp [e]) rfl
  simp [traverseCow, h.ne, hk, splitPath, trimLeft_noSlash h.ns, splitOn_noSlash h.ns, traverseKeys, typeChecked,
    getC, Tree.isNull, typedOk, h.nl, Tree.isMap]

theorem typeChecked_plain {k : Str} (h : PlainKey k) (kvs : Entries) :
    typeChecked (.map kvs) [] k = some [{ key := k, copied := false }] := by
  simp [typeChecked, h.ne, getC, Tree.isNull, typedOk, h.nl, Tree.isMap]

theorem setC_one_map {k : Str} (h : PlainKey k) (kvs : Entries) (v : Tree) :
    setC (.map kvs) [{ key := k, copied := false }] v
      = some (.map (mapSet kvs k v), [{ key := k, copied := true }]) := by
  simp [setC, getC, writeKey, h.nl, Tree.asMap]

theorem isMerging_plain_nomt {k : Str} (h : PlainKey k) (v : Tree) : isMerging k v false = false := by
  have e : Str.endsWith k [47, 43] = false := endsWith_noSlash (q := [43]) h.ns
  simp [isMerging, h.nm, kAddOp, e]

/-! ### keys with an operator suffix -/
theorem slash_mem_add (k : Str) (o : UInt8) : c_slash ∈ k ++ [c_slash, o] := by simp

theorem add_ne_append (k : Str) (o : UInt8) : k ++ [c_slash, o] ≠ kAppend := by
  intro e
  have h := slash_mem_add k o
  rw [e] at h
  revert h; decide

theorem add_ne_merge (k : Str) (o : UInt8) : k ++ [c_slash, o] ≠ kMerge := by
  intro e
  have h := slash_mem_add k o
  rw [e] at h
  revert h; decide

theorem isAppending_add (k : Str) : isAppending (k ++ kAddOp) = true := by
  simp [isAppending, endsWith_append]

theorem isMerging_add (k : Str) (v : Tree) (mt : Bool) : isMerging (k ++ kAddOp) v mt = true := by
  simp [isMerging, endsWith_append]

theorem stripOperator_add {k : Str} (h : PlainKey k) : stripOperator (k ++ kAddOp) true = k := by
  have e := eraseLast_append_op h.ns 43
  have n1 := add_ne_append k 43
  have n2 := add_ne_merge k 43
  simp_all [stripOperator, kAddOp, c_slash]

theorem endsWith_equ_add (k : Str) : Str.endsWith (k ++ kEquOp) kAddOp = false := by
  simp [Str.endsWith, kEquOp, kAddOp]

theorem isAppending_equ (k : Str) : isAppending (k ++ kEquOp) = false := by
  have n1 : k ++ kEquOp ≠ kAppend := add_ne_append k 61
  simp [isAppending, endsWith_equ_add, n1]

theorem isMerging_equ (k : Str) (v : Tree) (mt : Bool) : isMerging (k ++ kEquOp) v mt = false := by
  have n2 : k ++ kEquOp ≠ kMerge := add_ne_merge k 61
  simp [isMerging, endsWith_equ_add, endsWith_append, n2]

theorem stripOperator_equ {k : Str} (h : PlainKey k) : stripOperator (k ++ kEquOp) false = k := by
  have e := eraseLast_append_op h.ns 61
  have n1 := add_ne_append k 61
  have n2 := add_ne_merge k 61
  simp_all [stripOperator, kEquOp, c_slash]


/-! ### list-index keys -/
/-- `@next` -/
def atNext : Str := [64, 110, 101, 120, 116]
/-- `@before 0` -/
def atBefore0 : Str := [64, 98, 101, 102, 111, 114, 101, 32, 48]
/-- `@last` -/
def atLast : Str := [64, 108, 97, 115, 116]
/-- `@2` -/
def at2 : Str := [64, 50]
/-- `@after 1` -/
def atAfter1 : Str := [64, 97, 102, 116, 101, 114, 32, 49]

theorem rli_next (n : Nat) : resolveListIndex n atNext = (n % U32, false) := by
  have : resolveListIndex n atNext = ((n % U32 + 0) % U32, false) := rfl
  simpa using this
theorem rli_before0 (n : Nat) : resolveListIndex n atBefore0 = (0, true) := by
  rfl
theorem rli_last (n : Nat) : resolveListIndex n atLast = (if n % U32 ≠ 0 then n % U32 - 1 else n % U32, false) := by
  simp [resolveListIndex, atLast, isListItemReference, c_at, isAlnum, isDigit, hasAt, kNext, kBefore, kAfter, kLast, c_space]
theorem rli_2 (n : Nat) : resolveListIndex n at2 = (2, false) := by
  rfl
theorem rli_after1 (n : Nat) : resolveListIndex n atAfter1 = (2, true) := by
  rfl

theorem listWrite_next (xs : List Tree) (v : Tree) (h : xs.length < U32) : listWrite xs atNext v = xs ++ [v] := by
  simp [listWrite, rli_next, Nat.mod_eq_of_lt h, listSetAt, padTo]

theorem listWrite_before0 (xs : List Tree) (v : Tree) : listWrite xs atBefore0 v = v :: xs := by
  simp [listWrite, rli_before0, listSetAt, padTo, listInsert]

theorem listWrite_at2 (xs : List Tree) (v : Tree) : listWrite xs at2 v = listSetAt xs 2 v := by
  simp [listWrite, rli_2]

theorem listSetAt_insert (xs : List Tree) (i : Nat) (v : Tree) :
    listSetAt (listInsert xs i .null) i v = (padTo xs i).take i ++ v :: (padTo xs i).drop i := by
  have hl : i ≤ (padTo xs i).length := by simp [padTo]; omega
  have ht : ((padTo xs i).take i).length = i := by simp [List.length_take, Nat.min_eq_left hl]
  have hlen : (listInsert xs i .null).length = (padTo xs i).length + 1 := by
    simp [listInsert, List.length_take, Nat.min_eq_left hl]; omega
  have hp : padTo (listInsert xs i .null) (i + 1) = listInsert xs i .null := by
    unfold padTo
    rw [hlen, Nat.sub_eq_zero_of_le (by omega)]; simp
  unfold listSetAt
  rw [hp]
  unfold listInsert
  simp only []
  rw [List.set_append_right _ _ (by omega)]
  simp [ht]

theorem listWrite_after1 (xs : List Tree) (v : Tree) :
    listWrite xs atAfter1 v = (padTo xs 2).take 2 ++ v :: (padTo xs 2).drop 2 := by
  simp only [listWrite, rli_after1, if_true]
  exact listSetAt_insert xs 2 v

theorem listWrite_last (x : Tree) (xs : List Tree) (v : Tree) (h : (x :: xs).length < U32) :
    listWrite (x :: xs) atLast v = (x :: xs).set xs.length v := by
  have h' : (xs.length + 1) % U32 = xs.length + 1 := Nat.mod_eq_of_lt h
  simp [listWrite, rli_last, h', listSetAt, padTo]
end RimeModel.C14
