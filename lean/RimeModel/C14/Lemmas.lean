import RimeModel.C14.Edit
/-! C14 — helper lemmas: byte-string facts for keys without '/', and the one-step behaviour of `editNode`. -/
namespace RimeModel.C14

def NoSlash (k : Str) : Prop := ∀ c ∈ k, c ≠ c_slash

instance (k : Str) : Decidable (NoSlash k) := inferInstanceAs (Decidable (∀ c ∈ k, c ≠ c_slash))

theorem trimLeft_noSlash {k : Str} (h : NoSlash k) : Str.trimLeft c_slash k = k := by
  cases k with
  | nil => rfl
  | cons c cs =>
    have : c ≠ c_slash := h c (by simp)
    simp [Str.trimLeft, this]

theorem splitOn_noSlash {k : Str} (h : NoSlash k) : Str.splitOn c_slash k = [k] := by
  induction k with
  | nil => rfl
  | cons c cs ih =>
    have hc : c ≠ c_slash := h c (by simp)
    have ih' := ih (fun x hx => h x (by simp [hx]))
    simp [Str.splitOn, ih', hc]

theorem startsWith_slash {k q : Str} (h : NoSlash k) : Str.startsWith k (c_slash :: q) = false := by
  cases k with
  | nil => simp [Str.startsWith]
  | cons c cs =>
    have hc : c ≠ c_slash := h c (by simp)
    simp [Str.startsWith, hc]

theorem findLast_noSlash {k q : Str} (h : NoSlash k) : Str.findLast k (c_slash :: q) = none := by
  induction k with
  | nil => simp [Str.findLast]
  | cons c cs ih =>
    have ih' := ih (fun x hx => h x (by simp [hx]))
    simp [Str.findLast, ih', startsWith_slash h]

theorem endsWith_noSlash {k q : Str} (h : NoSlash k) : Str.endsWith k (c_slash :: q) = false := by
  unfold Str.endsWith
  simp only [Bool.and_eq_false_imp, decide_eq_true_eq, beq_eq_false_iff_ne, ne_eq]
  intro _ heq
  have : c_slash ∈ List.drop (k.length - (c_slash :: q).length) k := by rw [heq]; simp
  exact h _ (List.mem_of_mem_drop this) rfl

theorem findLast_append_op {k : Str} (h : NoSlash k) (o : UInt8) :
    Str.findLast (k ++ [c_slash, o]) [c_slash, o] = some k.length := by
  induction k with
  | nil => simp [Str.findLast, Str.startsWith]
  | cons c cs ih =>
    have ih' := ih (fun x hx => h x (by simp [hx]))
    simp [Str.findLast, ih']

theorem eraseLast_append_op {k : Str} (h : NoSlash k) (o : UInt8) :
    Str.eraseLast (k ++ [c_slash, o]) [c_slash, o] = k := by
  simp [Str.eraseLast, findLast_append_op h o]

theorem endsWith_append (k p : Str) : Str.endsWith (k ++ p) p = true := by
  simp [Str.endsWith]

/-- a key that names one map entry and carries no operator -/
structure PlainKey (k : Str) : Prop where
  ne : k ≠ []
  ns : NoSlash k
  nl : isListItemReference k = false
  na : k ≠ kAppend
  nm : k ≠ kMerge

theorem isAppending_plain {k : Str} (h : PlainKey k) : isAppending k = false := by
  have e : Str.endsWith k [47, 43] = false := endsWith_noSlash (q := [43]) h.ns
  simp [isAppending, h.na, kAddOp, e]

theorem eraseLast_plain {k : Str} (h : PlainKey k) (o : UInt8) : Str.eraseLast k [c_slash, o] = k := by
  simp [Str.eraseLast, findLast_noSlash h.ns]

theorem stripOperator_plain {k : Str} (h : PlainKey k) (adding : Bool) : stripOperator k adding = k := by
  unfold stripOperator
  have e1 := eraseLast_plain h 43
  have e2 := eraseLast_plain h 61
  cases adding <;> simp_all [h.na, h.nm, kAddOp, kEquOp, c_slash]

theorem traverseCow_plain {k : Str} (h : PlainKey k) (kvs : Entries) :
    traverseCow (.map kvs) [] k = some [{ key := k, copied := false }] := by
  have hk : k ≠ [c_slash] := by
    intro e; exact h.ns c_slash (by simp [e]) rfl
  simp [traverseCow, h.ne, hk, splitPath, trimLeft_noSlash h.ns, splitOn_noSlash h.ns, traverseKeys, typeChecked,
    getC, Tree.isNull, typedOk, h.nl, Tree.isMap]

theorem typeChecked_plain {k : Str} (h : PlainKey k) (kvs : Entries) :
    typeChecked (.map kvs) [] k = some [{ key := k, copied := false }] := by
  simp [typeChecked, h.ne, getC, Tree.isNull, typedOk, h.nl, Tree.isMap]

theorem setC_one_map {k : Str} (h : PlainKey k) (kvs : Entries) (v : Tree) :
    setC (.map kvs) [{ key := k, copied := false }] v
      = some (.map (mapSet kvs k v), [{ key := k, copied := true }]) := by
  simp [setC, getC, writeKey, h.nl, Tree.asMap]

theorem isMerging_plain_nomt {k : Str} (h : PlainKey k) (v : Tree) : isMerging k v false = false := by
  have e : Str.endsWith k [47, 43] = false := endsWith_noSlash (q := [43]) h.ns
  simp [isMerging, h.nm, kAddOp, e]

/-! ### keys with an operator suffix -/
theorem slash_mem_add (k : Str) (o : UInt8) : c_slash ∈ k ++ [c_slash, o] := by simp

theorem add_ne_append (k : Str) (o : UInt8) : k ++ [c_slash, o] ≠ kAppend := by
  intro e
  have h := slash_mem_add k o
  rw [e] at h
  revert h; decide

theorem add_ne_merge (k : Str) (o : UInt8) : k ++ [c_slash, o] ≠ kMerge := by
  intro e
  have h := slash_mem_add k o
  rw [e] at h
  revert h; decide

theorem isAppending_add (k : Str) : isAppending (k ++ kAddOp) = true := by
  simp [isAppending, endsWith_append]

theorem isMerging_add (k : Str) (v : Tree) (mt : Bool) : isMerging (k ++ kAddOp) v mt = true := by
  simp [isMerging, endsWith_append]

theorem stripOperator_add {k : Str} (h : PlainKey k) : stripOperator (k ++ kAddOp) true = k := by
  have e := eraseLast_append_op h.ns 43
  have n1 := add_ne_append k 43
  have n2 := add_ne_merge k 43
  simp_all [stripOperator, kAddOp, c_slash]

theorem endsWith_equ_add (k : Str) : Str.endsWith (k ++ kEquOp) kAddOp = false := by
  simp [Str.endsWith, kEquOp, kAddOp]

theorem isAppending_equ (k : Str) : isAppending (k ++ kEquOp) = false := by
  have n1 : k ++ kEquOp ≠ kAppend := add_ne_append k 61
  simp [isAppending, endsWith_equ_add, n1]

theorem isMerging_equ (k : Str) (v : Tree) (mt : Bool) : isMerging (k ++ kEquOp) v mt = false := by
  have n2 : k ++ kEquOp ≠ kMerge := add_ne_merge k 61
  simp [isMerging, endsWith_equ_add, endsWith_append, n2]

theorem stripOperator_equ {k : Str} (h : PlainKey k) : stripOperator (k ++ kEquOp) false = k := by
  have e := eraseLast_append_op h.ns 61
  have n1 := add_ne_append k 61
  have n2 := add_ne_merge k 61
  simp_all [stripOperator, kEquOp, c_slash]


/-! ### maps, flat merges -/
theorem mapGet_mapSet_same (kvs : Entries) (k : Str) (v : Tree) : mapGet (mapSet kvs k v) k = v := by
  induction kvs with
  | nil => simp [mapSet, mapGet]
  | cons kv rest ih =>
    obtain ⟨k0, x⟩ := kv
    unfold mapSet
    by_cases h : k0 = k
    · simp [h, mapGet]
    · by_cases h2 : strLt k k0 = true
      · simp [h, h2, mapGet]
      · simp [h, h2, mapGet, ih]

theorem mapSet_mapSet_same (kvs : Entries) (k : Str) (a b : Tree) :
    mapSet (mapSet kvs k a) k b = mapSet kvs k b := by
  induction kvs with
  | nil => simp [mapSet]
  | cons kv rest ih =>
    obtain ⟨k0, x⟩ := kv
    by_cases h : k0 = k
    · simp [mapSet, h]
    · by_cases h2 : strLt k k0 = true
      · simp [mapSet, h, h2]
      · simp [mapSet, h, h2, ih]

/-- entries a flat merge carries: plain keys, values that are neither null nor maps -/
def Flat (m : Entries) : Prop := ∀ kv ∈ m, PlainKey kv.1 ∧ kv.2.isNull = false ∧ kv.2.isMap = false

def setAll (kvs : Entries) (m : Entries) : Entries := m.foldl (fun a kv => mapSet a kv.1 kv.2) kvs

theorem isMerging_plain_flat {k : Str} (h : PlainKey k) {v : Tree} (h1 : v.isNull = false) (h2 : v.isMap = false) :
    isMerging k v true = false := by
  have e : Str.endsWith k [47, 43] = false := endsWith_noSlash (q := [43]) h.ns
  simp [isMerging, h.nm, kAddOp, e, h1, h2]

theorem editNode_set_mt {k : Str} (h : PlainKey k) (kvs : Entries) {v : Tree} (h1 : v.isNull = false)
    (h2 : v.isMap = false) :
    editNode (.map kvs) [] k v true = ER.good (.map (mapSet kvs k v)) [] := by
  unfold editNode
  simp [isAppending_plain h, isMerging_plain_flat h h1 h2, stripOperator_plain h, typeChecked_plain h, assign, setC_one_map h]

theorem mergeEntries_flat (m : Entries) (hm : Flat m) (kvs : Entries) :
    mergeEntries (.map kvs) [] m = ER.good (.map (setAll kvs m)) [] := by
  induction m generalizing kvs with
  | nil => simp [mergeEntries, setAll]
  | cons kv rest ih =>
    obtain ⟨k, v⟩ := kv
    have hk := hm (k, v) (by simp)
    have hr : Flat rest := fun x hx => hm x (by simp [hx])
    unfold mergeEntries
    simp [editNode_set_mt hk.1 kvs hk.2.1 hk.2.2, ER.good, ih hr, setAll]

/-- one `EditNode` step of a flat merge below the entry `k` (whatever the `copied_` flag of the
reference to `k` is): the entry's map gets the key set; the reference is copied afterwards -/
theorem editNode_under {k c : Str} (hk : PlainKey k) (hc : PlainKey c) (kvs old : Entries) (cp : Bool) {v : Tree}
    (h1 : v.isNull = false) (h2 : v.isMap = false) (hx : mapGet kvs k = .map old) :
    editNode (.map kvs) [{ key := k, copied := cp }] c v true
      = ER.good (.map (mapSet kvs k (.map (mapSet old c v)))) [{ key := k, copied := true }] := by
  unfold editNode
  cases cp <;>
    simp [isAppending_plain hc, isMerging_plain_flat hc h1 h2, stripOperator_plain hc, typeChecked, hc.ne, getC, readKey,
      hk.nl, hc.nl, hx, Tree.isNull, typedOk, Tree.isMap, assign, setC, writeKey, Tree.asMap, putBack, ER.good]

theorem mergeEntries_under {k : Str} (hk : PlainKey k) (m : Entries) (hm : Flat m) (kvs old : Entries) (cp : Bool)
    (hx : mapGet kvs k = .map old) (x : Str × Tree) (hxm : Flat [x]) :
    mergeEntries (.map kvs) [{ key := k, copied := cp }] (x :: m)
      = ER.good (.map (mapSet kvs k (.map (setAll old (x :: m))))) [{ key := k, copied := true }] := by
  induction m generalizing kvs old cp x with
  | nil =>
    obtain ⟨c, v⟩ := x
    have hc := hxm (c, v) (by simp)
    unfold mergeEntries
    simp [editNode_under hk hc.1 kvs old cp hc.2.1 hc.2.2 hx, ER.good, mergeEntries, setAll]
  | cons y rest ih =>
    obtain ⟨c, v⟩ := x
    have hc := hxm (c, v) (by simp)
    have hy : Flat [y] := fun z hz => hm z (by simp at hz; simp [hz])
    have hr : Flat rest := fun z hz => hm z (by simp [hz])
    unfold mergeEntries
    simp only [editNode_under hk hc.1 kvs old cp hc.2.1 hc.2.2 hx, ER.good, if_true]
    rw [ih hr (mapSet kvs k (.map (mapSet old c v))) (mapSet old c v) true (mapGet_mapSet_same _ _ _) y hy]
    simp [mapSet_mapSet_same, setAll, ER.good]

/-- every key of a patch literal is one plain map key -/
def PlainKeys (m : Entries) : Prop := ∀ kv ∈ m, PlainKey kv.1

/-! ### list-index keys -/
/-- `@next` -/
def atNext : Str := [64, 110, 101, 120, 116]
/-- `@before 0` -/
def atBefore0 : Str := [64, 98, 101, 102, 111, 114, 101, 32, 48]
/-- `@last` -/
def atLast : Str := [64, 108, 97, 115, 116]
/-- `@2` -/
def at2 : Str := [64, 50]
/-- `@after 1` -/
def atAfter1 : Str := [64, 97, 102, 116, 101, 114, 32, 49]

theorem rli_next (n : Nat) : resolveListIndex n atNext = (n % U32, false) := by
  have : resolveListIndex n atNext = ((n % U32 + 0) % U32, false) := rfl
  simpa using this
theorem rli_before0 (n : Nat) : resolveListIndex n atBefore0 = (0, true) := by
  rfl
theorem rli_last (n : Nat) : resolveListIndex n atLast = (if n % U32 ≠ 0 then n % U32 - 1 else n % U32, false) := by
  simp [resolveListIndex, atLast, isListItemReference, c_at, isAlnum, isDigit, hasAt, kNext, kBefore, kAfter, kLast, c_space]
theorem rli_2 (n : Nat) : resolveListIndex n at2 = (2, false) := by
  rfl
theorem rli_after1 (n : Nat) : resolveListIndex n atAfter1 = (2, true) := by
  rfl

theorem listWrite_next (xs : List Tree) (v : Tree) (h : xs.length < U32) : listWrite xs atNext v = xs ++ [v] := by
  simp [listWrite, rli_next, Nat.mod_eq_of_lt h, listSetAt, padTo]

theorem listWrite_before0 (xs : List Tree) (v : Tree) : listWrite xs atBefore0 v = v :: xs := by
  simp [listWrite, rli_before0, listSetAt, padTo, listInsert]

theorem listWrite_at2 (xs : List Tree) (v : Tree) : listWrite xs at2 v = listSetAt xs 2 v := by
  simp [listWrite, rli_2]

theorem listSetAt_insert (xs : List Tree) (i : Nat) (v : Tree) :
    listSetAt (listInsert xs i .null) i v = (padTo xs i).take i ++ v :: (padTo xs i).drop i := by
  have hl : i ≤ (padTo xs i).length := by simp [padTo]; omega
  have ht : ((padTo xs i).take i).length = i := by simp [List.length_take, Nat.min_eq_left hl]
  have hlen : (listInsert xs i .null).length = (padTo xs i).length + 1 := by
    simp [listInsert, List.length_take, Nat.min_eq_left hl]; omega
  have hp : padTo (listInsert xs i .null) (i + 1) = listInsert xs i .null := by
    unfold padTo
    rw [hlen, Nat.sub_eq_zero_of_le (by omega)]; simp
  unfold listSetAt
  rw [hp]
  unfold listInsert
  simp only []
  rw [List.set_append_right _ _ (by omega)]
  simp [ht]

theorem listWrite_after1 (xs : List Tree) (v : Tree) :
    listWrite xs atAfter1 v = (padTo xs 2).take 2 ++ v :: (padTo xs 2).drop 2 := by
  simp only [listWrite, rli_after1, if_true]
  exact listSetAt_insert xs 2 v

theorem listWrite_last (x : Tree) (xs : List Tree) (v : Tree) (h : (x :: xs).length < U32) :
    listWrite (x :: xs) atLast v = (x :: xs).set xs.length v := by
  have h' : (xs.length + 1) % U32 = xs.length + 1 := Nat.mod_eq_of_lt h
  simp [listWrite, rli_last, h', listSetAt, padTo]
end RimeModel.C14
