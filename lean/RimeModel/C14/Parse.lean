import RimeModel.C14.Edit
/-!
C14 — what `ConvertFromYaml(doc, compiler)` + `ConfigCompiler::Parse` (config_data.cc:252-290,
config_compiler.cc:436-497) make of a document: which `__include` / `__patch` keys are consumed
(turned into dependencies and *not* stored in the map), which dependencies they register, and the
tree that is stored (`parseForm`).

Quirks kept: `__include` with a non-scalar value stays an ordinary key; a `__patch` list is parsed
element by element (scalar → reference, map → literal) and stops at the first element of another
type — the dependencies registered so far stay, the key is then stored as data.
-/
namespace RimeModel.C14

/-- a patch dependency as registered at parse time: a reference text, or the literal map found at
element `i` of the `__patch` list (`0` for a map-valued `__patch`) -/
inductive PDep where
  | ref (s : Str)
  | lit (i : Nat)
  deriving Repr, Inhabited

/-- `ParseList(ParsePatch, …)` over the elements of a list: dependencies registered, and whether
every element parsed -/
def parsePatchElems : List Tree → Nat → List PDep × Bool
  | [], _ => ([], true)
  | .scalar s :: es, i => let r := parsePatchElems es (i + 1); (PDep.ref s :: r.1, r.2)
  | .map _ :: es, i => let r := parsePatchElems es (i + 1); (PDep.lit i :: r.1, r.2)
  | _ :: _, _ => ([], false)

/-- `ParseList(ParsePatch, compiler, item)` -/
def parsePatchValue : Tree → List PDep × Bool
  | .list es => parsePatchElems es 0
  | .scalar s => ([PDep.ref s], true)
  | .map _ => ([PDep.lit 0], true)
  | .null => ([], false)

def Tree.isScalar : Tree → Bool
  | .scalar _ => true
  | _ => false

/-- `compiler->Parse(key, value)` returned true: the key is not stored -/
def consumed (k : Str) (v : Tree) : Bool :=
  (k == kInclude && v.isScalar) || (k == kPatch && (parsePatchValue v).2)

/-- the key registered at least one dependency on the enclosing node -/
def registersDep (k : Str) (v : Tree) : Bool :=
  (k == kInclude && v.isScalar) || (k == kPatch && !(parsePatchValue v).1.isEmpty)

mutual
/-- some dependency is registered at or below this node (the node has an entry in `graph_->deps`) -/
def hasDeps : Tree → Bool
  | .map kvs => hasDepsM kvs
  | .list xs => hasDepsL xs
  | _ => false
def hasDepsL : List Tree → Bool
  | [] => false
  | x :: xs => hasDeps x || hasDepsL xs
def hasDepsM : Entries → Bool
  | [] => false
  | (k, v) :: rest => registersDep k v || hasDeps v || hasDepsM rest
end

mutual
/-- the tree `ConvertFromYaml` stores: consumed directive keys are absent -/
def parseForm : Tree → Tree
  | .map kvs => .map (parseFormM kvs)
  | .list xs => .list (parseFormL xs)
  | t => t
def parseFormL : List Tree → List Tree
  | [] => []
  | x :: xs => parseForm x :: parseFormL xs
def parseFormM : Entries → Entries
  | [] => []
  | (k, v) :: rest => if consumed k v then parseFormM rest else (k, parseForm v) :: parseFormM rest
end

/-- the dependencies a map node registers on itself -/
structure OwnDeps where
  incl : Option Str := none
  patches : List PDep := []
  deriving Repr, Inhabited

def ownDepsM : Entries → OwnDeps
  | [] => {}
  | (k, v) :: rest =>
    let d := ownDepsM rest
    if k == kInclude then
      match v with
      | .scalar s => { d with incl := some s }
      | _ => d
    else if k == kPatch then { d with patches := (parsePatchValue v).1 ++ d.patches }
    else d

def ownDeps : Tree → OwnDeps
  | .map kvs => ownDepsM kvs
  | _ => {}

/-- `AutoPatchConfigPlugin::ReviewCompileOutput` adds `<id minus .schema>.custom:/patch?` to the root
of every resource that is not itself a `.custom` one and has no explicit root `__patch` -/
def autoPatchRef (doc : Str) (root : Tree) : Option Reference :=
  if Str.endsWith doc kDotCustom then none
  else if !(ownDeps root).patches.isEmpty then none
  else
    let stem := if Str.endsWith doc kDotSchema then doc.take (doc.length - kDotSchema.length) else doc
    some { resource := stem ++ kDotCustom, path := kPatchKey, optional := true }

/-- `blocking(path)`: the node's last dependency is an `__include` or a `__patch` -/
def isBlocking (doc : Str) (path : List Str) (t : Tree) : Bool :=
  let d := ownDeps t
  d.incl.isSome || !d.patches.isEmpty || (path.isEmpty && (autoPatchRef doc t).isSome)

/-- the node has an entry in `graph_->deps` -/
def nodeHasDeps (doc : Str) (path : List Str) (t : Tree) : Bool :=
  hasDeps t || (path.isEmpty && (autoPatchRef doc t).isSome)

end RimeModel.C14
