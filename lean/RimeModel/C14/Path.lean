import RimeModel.C14.Tree
/-!
C14 — paths and references: ports of `ConfigData::SplitPath`, `IsListItemReference`,
`ResolveListIndex`, `FormatListIndex` (config_data.cc), `ConfigCompiler::CreateReference`
(config_compiler.cc:279) and `ResourceResolver::ToResourceId` for the `config` resource type
(prefix "", suffix ".yaml").
-/
namespace RimeModel.C14

/-- `__include` -/
def kInclude : Str := [95, 95, 105, 110, 99, 108, 117, 100, 101]
/-- `__patch` -/
def kPatch : Str := [95, 95, 112, 97, 116, 99, 104]
/-- `__append` -/
def kAppend : Str := [95, 95, 97, 112, 112, 101, 110, 100]
/-- `__merge` -/
def kMerge : Str := [95, 95, 109, 101, 114, 103, 101]
/-- `/+` -/
def kAddOp : Str := [47, 43]
/-- `/=` -/
def kEquOp : Str := [47, 61]
/-- `next` -/
def kNext : Str := [110, 101, 120, 116]
/-- `before` -/
def kBefore : Str := [98, 101, 102, 111, 114, 101]
/-- `after` -/
def kAfter : Str := [97, 102, 116, 101, 114]
/-- `last` -/
def kLast : Str := [108, 97, 115, 116]
/-- `.custom` -/
def kDotCustom : Str := [46, 99, 117, 115, 116, 111, 109]
/-- `.schema` -/
def kDotSchema : Str := [46, 115, 99, 104, 101, 109, 97]
/-- `.yaml` -/
def kDotYaml : Str := [46, 121, 97, 109, 108]
/-- `default` -/
def kDefault : Str := [100, 101, 102, 97, 117, 108, 116]
/-- `menu` -/
def kMenu : Str := [109, 101, 110, 117]
/-- `patch` -/
def kPatchKey : Str := [112, 97, 116, 99, 104]
/-- `key_binder` -/
def kKeyBinder : Str := [107, 101, 121, 95, 98, 105, 110, 100, 101, 114]
/-- `bindings` -/
def kBindings : Str := [98, 105, 110, 100, 105, 110, 103, 115]
/-- `bindings/+` -/
def kBindingsAdd : Str := [98, 105, 110, 100, 105, 110, 103, 115, 47, 43]
/-- `import_preset` -/
def kImportPreset : Str := [105, 109, 112, 111, 114, 116, 95, 112, 114, 101, 115, 101, 116]
/-- `punctuator` -/
def kPunctuator : Str := [112, 117, 110, 99, 116, 117, 97, 116, 111, 114]
/-- `recognizer` -/
def kRecognizer : Str := [114, 101, 99, 111, 103, 110, 105, 122, 101, 114]

def c_slash : UInt8 := 47
def c_at : UInt8 := 64
def c_colon : UInt8 := 58
def c_qmark : UInt8 := 63
def c_space : UInt8 := 32

def isDigit (b : UInt8) : Bool := 48 ≤ b.toNat && b.toNat ≤ 57
def isAlnum (b : UInt8) : Bool :=
  isDigit b || (65 ≤ b.toNat && b.toNat ≤ 90) || (97 ≤ b.toNat && b.toNat ≤ 122)
/-- C `isspace` in the "C" locale -/
def isSpace (b : UInt8) : Bool := b.toNat = 32 || (9 ≤ b.toNat && b.toNat ≤ 13)

/-- `ConfigData::IsListItemReference` -/
def isListItemReference : Str → Bool
  | a :: b :: _ => a = c_at && isAlnum b
  | _ => false

/-- `ConfigData::SplitPath`: trim leading '/', split on '/' (empty segments are kept) -/
def splitPath (p : Str) : List Str := Str.splitOn c_slash (Str.trimLeft c_slash p)

def U32 : Nat := 4294967296
def U64 : Nat := 18446744073709551616

def digitsVal : Str → Nat → Nat
  | [], acc => acc
  | c :: cs, acc => if isDigit c then digitsVal cs (acc * 10 + (c.toNat - 48)) else acc

def dropSpaces : Str → Str
  | [] => []
  | c :: cs => if isSpace c then dropSpaces cs else c :: cs

/-- `strtoul(s, NULL, 10)` as an `unsigned long`: leading white space, optional sign, digits; no digits
→ 0; overflow clamps to `ULONG_MAX`; a minus sign negates modulo 2^64 -/
def strtoul (s : Str) : Nat :=
  let t := dropSpaces s
  let clamp (n : Nat) : Nat := if n ≥ U64 then U64 - 1 else n
  match t with
  | 45 :: r => (U64 - clamp (digitsVal r 0)) % U64
  | 43 :: r => clamp (digitsVal r 0)
  | r => clamp (digitsVal r 0)

/-- `key.compare(cursor, w.length(), w) == 0` -/
def hasAt (key : Str) (cursor : Nat) (w : Str) : Bool := (key.drop cursor).take w.length == w

/-- `ConfigData::ResolveListIndex` on a list of `size` elements: `(index, will_insert)`.
The caller performs `list->Insert(index, nullptr)` when `will_insert && !read_only`.
`index` is an `unsigned int` in the code (arithmetic modulo 2^32). -/
def resolveListIndex (size : Nat) (key : Str) : Nat × Bool :=
  if !isListItemReference key then (0, false) else
  let a : Nat × Nat × Bool :=
    if hasAt key 1 kNext then (1 + kNext.length, size % U32, false)
    else if hasAt key 1 kBefore then (1 + kBefore.length, 0, true)
    else if hasAt key 1 kAfter then (1 + kAfter.length, 1, true)
    else (1, 0, false)
  let cursor := if (key.drop a.1).head? = some c_space then a.1 + 1 else a.1
  let index :=
    if hasAt key cursor kLast then
      let i := (a.2.1 + size) % U32
      if i ≠ 0 then i - 1 else i
    else (a.2.1 + strtoul (key.drop cursor)) % U32
  (index, a.2.2)

def natDigits : Nat → Nat → Str → Str
  | 0, _, acc => acc
  | fuel + 1, n, acc =>
    let acc' := UInt8.ofNat (48 + n % 10) :: acc
    if n / 10 = 0 then acc' else natDigits fuel (n / 10) acc'

/-- `ConfigData::FormatListIndex` -/
def formatListIndex (i : Nat) : Str := c_at :: natDigits (i + 1) i []

/-! ### typed read / write of one key on a container (`ConfigCowRef<T>::Read` / `Write`) -/

/-- `ConfigCowRef<T>::Read` after `As<T>(**parent_)`: null when the parent is not a container of the
type the key asks for -/
def readKey (parent : Tree) (key : Str) : Tree :=
  if isListItemReference key then
    match parent with
    | .list xs => listGet xs (resolveListIndex xs.length key).1
    | _ => .null
  else
    match parent with
    | .map kvs => mapGet kvs key
    | _ => .null

/-- `ConfigCowRef<ConfigList>::Write`: `SetAt(ResolveListIndex(list, key /*may insert*/), v)` -/
def listWrite (xs : List Tree) (key : Str) (v : Tree) : List Tree :=
  let r := resolveListIndex xs.length key
  let ys := if r.2 then listInsert xs r.1 .null else xs
  listSetAt ys r.1 v

/-- `CopyOnWrite(As<T>(container), key)` followed by `Write`: a container of the wrong type (or the
null pointer) is replaced by a new empty container of the type the key asks for -/
def writeKey (container : Tree) (key : Str) (v : Tree) : Tree :=
  if isListItemReference key then
    .list (listWrite ((container.asList).getD []) key v)
  else
    .map (mapSet ((container.asMap).getD []) key v)

/-- is `container` of the type `key` asks for (`As<T>` succeeds) -/
def typedOk (container : Tree) (key : Str) : Bool :=
  if isListItemReference key then container.isList else container.isMap

/-! ### references -/

structure Reference where
  resource : Str
  path : Str
  optional : Bool
  deriving Repr, Inhabited

/-- `ResourceResolver::ToResourceId` for `{"config", "", ".yaml"}` -/
def toResourceId (s : Str) : Str :=
  if Str.endsWith s kDotYaml then s.take (s.length - kDotYaml.length) else s

/-- `ConfigCompiler::CreateReference(qualified_path)` with `graph_->current_resource_id() = cur` -/
def createReference (cur : Str) (q : Str) : Reference :=
  let endQ := Str.findLast q [c_qmark]
  let sep := Str.findFirst q [c_colon]
  let res : Str :=
    match sep with
    | none => cur
    | some 0 => cur
    | some s => q.take s
  let lp : Str :=
    match sep, endQ with
    | none, none => q
    | none, some e => q.take e
    | some s, none => q.drop (s + 1)
    | some s, some e => if e > s then (q.drop (s + 1)).take (e - s - 1) else q.drop (s + 1)
  { resource := toResourceId res, path := lp, optional := endQ.isSome }

end RimeModel.C14
