namespace RimeModel.C14
end RimeModel.C14
