/-!
C14 — the recursion scheme of `ConfigCompiler::ResolveDependencies`, abstractly.

Nodes are paths; `deps n` are the nodes whose resolution resolving `n` triggers (pending children, the
targets and blocking ancestors of its references).  Before resolving `n` the code tests the resolve
chain (`HasCircularDependencies`): if `n` is guarded it returns `false` at once, otherwise it pushes `n`
and resolves the dependencies one after the other, returning at the first failure.  The only property
of the guard that termination needs is that a node on the chain is guarded (a path is a prefix of
itself).  The dependency map is arbitrary — cycles allowed.  `none` = the fuel ran out.
-/
namespace RimeModel.C14

/-- sequential conjunction with early exit; `none` propagates -/
def allOpt {α : Type} (g : α → Option Bool) : List α → Option Bool
  | [] => some true
  | d :: ds =>
    match g d with
    | none => none
    | some false => some false
    | some true => allOpt g ds

def resolveAbs {α : Type} [DecidableEq α] (deps : α → List α) (guard : List α → α → Bool) :
    Nat → List α → α → Option Bool
  | 0, _, _ => none
  | f + 1, chain, n =>
    if guard chain n then some false
    else allOpt (resolveAbs deps guard f (n :: chain)) (deps n)

/-- nodes of the universe not yet on the chain: the termination measure -/
def freeNodes {α : Type} [DecidableEq α] (u chain : List α) : Nat := (u.filter fun x => decide (x ∉ chain)).length

theorem allOpt_isSome {α : Type} (g : α → Option Bool) :
    ∀ ds : List α, (∀ d ∈ ds, (g d).isSome = true) → (allOpt g ds).isSome = true
  | [], _ => rfl
  | d :: ds, h => by
    have hd := h d (by simp)
    unfold allOpt
    cases hg : g d with
    | none => simp [hg] at hd
    | some b =>
      cases b
      · rfl
      · exact allOpt_isSome g ds (fun x hx => h x (by simp [hx]))

theorem filter_length_le {α : Type} (p q : α → Bool) (hpq : ∀ x, p x = true → q x = true) :
    ∀ l : List α, (l.filter p).length ≤ (l.filter q).length
  | [] => by simp
  | x :: xs => by
    have ih := filter_length_le p q hpq xs
    by_cases hp : p x = true
    · simp [List.filter, hp, hpq x hp]; exact ih
    · by_cases hq : q x = true
      · simp [List.filter, hp, hq]; omega
      · simp [List.filter, hp, hq]; exact ih

theorem filter_length_lt {α : Type} (p q : α → Bool) (hpq : ∀ x, p x = true → q x = true) :
    ∀ l : List α, (∃ x ∈ l, q x = true ∧ p x = false) → (l.filter p).length < (l.filter q).length
  | [], h => by obtain ⟨x, hx, _⟩ := h; simp at hx
  | y :: ys, h => by
    have hle := filter_length_le p q hpq ys
    obtain ⟨x, hx, hq, hp⟩ := h
    by_cases hy : p y = true
    · have hqy := hpq y hy
      have : ∃ x ∈ ys, q x = true ∧ p x = false := by
        rcases List.mem_cons.mp hx with e | e
        · subst e; simp [hy] at hp
        · exact ⟨x, e, hq, hp⟩
      have ih := filter_length_lt p q hpq ys this
      simp [List.filter, hy, hqy]; exact ih
    · by_cases hqy : q y = true
      · simp [List.filter, hy, hqy]; omega
      · have : ∃ x ∈ ys, q x = true ∧ p x = false := by
          rcases List.mem_cons.mp hx with e | e
          · subst e; simp [hq] at hqy
          · exact ⟨x, e, hq, hp⟩
        have ih := filter_length_lt p q hpq ys this
        simp [List.filter, hy, hqy]; exact ih

theorem freeNodes_push {α : Type} [DecidableEq α] (u chain : List α) (n : α) (hu : n ∈ u) (hn : n ∉ chain) :
    freeNodes u (n :: chain) < freeNodes u chain := by
  unfold freeNodes
  apply filter_length_lt
  · intro x hx
    simp at hx ⊢
    exact hx.2
  · exact ⟨n, hu, by simp [hn], by simp⟩

end RimeModel.C14
