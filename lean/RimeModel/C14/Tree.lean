/-!
C14 / M-cfg (own copy; does not depend on `RimeModel.C18`) — value trees of
`src/rime/config/config_types.h`.

* `an<ConfigItem>`: `Tree`; the null pointer is `Tree.null` (no modelled operation creates a
  `ConfigItem` of type `kNull`);
* `ConfigValue::value_`: a byte string `Str`;
* `ConfigList::seq_`: `List Tree` (null elements are real: `SetAt`/`Insert` pad with null pointers);
* `ConfigMap::map_` (`std::map<string, an<ConfigItem>>`): association list kept sorted by the
  byte-wise order of `std::string::compare`; an entry whose value is null is a real entry (it makes
  the map non-empty and is visited by `MergeTree`).
Executable definitions only.
-/
namespace RimeModel.C14

abbrev Str := List UInt8

inductive Tree where
  | null
  | scalar (s : Str)
  | list (xs : List Tree)
  | map (kvs : List (Str × Tree))
  deriving Repr, Inhabited

abbrev Entries := List (Str × Tree)

/-- `std::string::compare(a, b) < 0` -/
def strLt : Str → Str → Bool
  | [], [] => false
  | [], _ :: _ => true
  | _ :: _, [] => false
  | a :: as, b :: bs =>
    if a.toNat < b.toNat then true else if b.toNat < a.toNat then false else strLt as bs

/-! ### ConfigMap -/

/-- `ConfigMap::Get` (null pointer when absent) -/
def mapGet : Entries → Str → Tree
  | [], _ => .null
  | (k, v) :: rest, key => if k = key then v else mapGet rest key

def mapHasKey : Entries → Str → Bool
  | [], _ => false
  | (k, _) :: rest, key => k = key || mapHasKey rest key

/-- `map_[key] = element` -/
def mapSet : Entries → Str → Tree → Entries
  | [], key, v => [(key, v)]
  | (k, x) :: rest, key, v =>
    if k = key then (key, v) :: rest
    else if strLt key k then (key, v) :: (k, x) :: rest
    else (k, x) :: mapSet rest key v

def mapErase : Entries → Str → Entries
  | [], _ => []
  | (k, x) :: rest, key => if k = key then rest else (k, x) :: mapErase rest key

/-! ### ConfigList -/

def listGet (xs : List Tree) (i : Nat) : Tree := xs.getD i .null

/-- `seq_.resize(n)` for `n ≥ size` -/
def padTo (xs : List Tree) (n : Nat) : List Tree := xs ++ List.replicate (n - xs.length) .null

/-- `ConfigList::SetAt` -/
def listSetAt (xs : List Tree) (i : Nat) (v : Tree) : List Tree := (padTo xs (i + 1)).set i v

/-- `ConfigList::Insert` -/
def listInsert (xs : List Tree) (i : Nat) (v : Tree) : List Tree :=
  let ys := padTo xs i
  ys.take i ++ v :: ys.drop i

/-! ### type tests -/

def Tree.isNull : Tree → Bool
  | .null => true
  | _ => false

def Tree.isMap : Tree → Bool
  | .map _ => true
  | _ => false

def Tree.isList : Tree → Bool
  | .list _ => true
  | _ => false

/-- `ConfigItem::empty()` of a non-null item -/
def Tree.isEmptyItem : Tree → Bool
  | .null => true
  | .scalar s => s.isEmpty
  | .list xs => xs.isEmpty
  | .map kvs => kvs.isEmpty

/-- `As<ConfigMap>(item)` : the entries, `none` for the null pointer or another type -/
def Tree.asMap : Tree → Option Entries
  | .map kvs => some kvs
  | _ => none

def Tree.asList : Tree → Option (List Tree)
  | .list xs => some xs
  | _ => none

/-! ### boolean equality (nested inductive: no derived `DecidableEq`) -/
mutual
def Tree.beq : Tree → Tree → Bool
  | .null, .null => true
  | .scalar a, .scalar b => a == b
  | .list xs, .list ys => Tree.beqL xs ys
  | .map a, .map b => Tree.beqM a b
  | _, _ => false
def Tree.beqL : List Tree → List Tree → Bool
  | [], [] => true
  | x :: xs, y :: ys => Tree.beq x y && Tree.beqL xs ys
  | _, _ => false
def Tree.beqM : Entries → Entries → Bool
  | [], [] => true
  | (k, x) :: xs, (l, y) :: ys => k == l && Tree.beq x y && Tree.beqM xs ys
  | _, _ => false
end

/-! ### projection that `EmitYaml` + reload realises: null map values are skipped, a null list
element emits nothing (the element disappears) -/
mutual
def Tree.emitProj : Tree → Tree
  | .null => .null
  | .scalar s => .scalar s
  | .list xs => .list (Tree.emitProjL xs)
  | .map kvs => .map (Tree.emitProjM kvs)
def Tree.emitProjL : List Tree → List Tree
  | [] => []
  | x :: xs => if x.isNull then Tree.emitProjL xs else Tree.emitProj x :: Tree.emitProjL xs
def Tree.emitProjM : Entries → Entries
  | [] => []
  | (k, x) :: xs => if x.isNull then Tree.emitProjM xs else (k, Tree.emitProj x) :: Tree.emitProjM xs
end

/-! ### byte-string helpers (ports of the `boost::algorithm` / `std::string` calls used) -/

def Str.startsWith (s p : Str) : Bool := s.take p.length == p

def Str.endsWith (s p : Str) : Bool := p.length ≤ s.length && s.drop (s.length - p.length) == p

/-- index of the first occurrence of `p` in `s` at or after position 0 -/
def Str.findFirst : Str → Str → Option Nat
  | [], p => if p.isEmpty then some 0 else none
  | c :: cs, p =>
    if Str.startsWith (c :: cs) p then some 0
    else match Str.findFirst cs p with
      | some i => some (i + 1)
      | none => none

/-- index of the last occurrence of `p` in `s` -/
def Str.findLast : Str → Str → Option Nat
  | [], p => if p.isEmpty then some 0 else none
  | c :: cs, p =>
    match Str.findLast cs p with
    | some i => some (i + 1)
    | none => if Str.startsWith (c :: cs) p then some 0 else none

/-- `boost::erase_last_copy(s, p)` -/
def Str.eraseLast (s p : Str) : Str :=
  match Str.findLast s p with
  | some i => s.take i ++ s.drop (i + p.length)
  | none => s

/-- `boost::split(out, s, is_any_of(sep))` without token compression (never returns `[]`) -/
def Str.splitOn (sep : UInt8) : Str → List Str
  | [] => [[]]
  | c :: cs =>
    match Str.splitOn sep cs with
    | [] => [[]]   -- unreachable
    | w :: ws => if c = sep then [] :: w :: ws else (c :: w) :: ws

def Str.trimLeft (sep : UInt8) : Str → Str
  | [] => []
  | c :: cs => if c = sep then Str.trimLeft sep cs else c :: cs

def Str.trimRight (sep : UInt8) (s : Str) : Str := (Str.trimLeft sep s.reverse).reverse

end RimeModel.C14
