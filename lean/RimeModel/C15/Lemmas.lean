import RimeModel.C15.Model
/-!
C15 — specification vocabulary (`Lang`, `Open`, invariants) and the inductive-invariant lemmas behind
`RimeModel/Props/C15.lean`.  Every invariant is shown to hold initially and to be preserved by every
step of either thread, hence on all of `Reach` (any schedule, no preemption bound).
-/
namespace RimeModel.C15

/-! ### the notification grammar -/

/-- the language `(start (success|failure)+)*` over notification values -/
inductive Lang : List Note → Prop where
  | nil : Lang []
  | block {w : List Note} (r : Note) (rs : List Note) :
      Lang w → r ≠ .start → (∀ x ∈ rs, x ≠ Note.start) → Lang (w ++ .start :: r :: rs)

/-- a word of the language followed by `start` and zero or more results: a block still open -/
def Open (n : List Note) : Prop :=
  ∃ w rs, Lang w ∧ (∀ x ∈ rs, x ≠ Note.start) ∧ n = w ++ .start :: rs

theorem Open.of_lang {n : List Note} (h : Lang n) : Open (n ++ [.start]) :=
  ⟨n, [], h, by simp, rfl⟩

theorem Open.snoc {n : List Note} (h : Open n) (r : Note) (hr : r ≠ .start) : Open (n ++ [r]) := by
  obtain ⟨w, rs, hw, hrs, rfl⟩ := h
  refine ⟨w, rs ++ [r], hw, ?_, by simp⟩
  intro x hx
  rcases List.mem_append.1 hx with h | h
  · exact hrs x h
  · simp at h; subst h; exact hr

theorem Open.lang_snoc {n : List Note} (h : Open n) (r : Note) (hr : r ≠ .start) : Lang (n ++ [r]) := by
  obtain ⟨w, rs, hw, hrs, rfl⟩ := h
  cases rs with
  | nil => simpa using Lang.block r [] hw hr (by simp)
  | cons a rs =>
    have ha : a ≠ .start := hrs a (by simp)
    have := Lang.block a (rs ++ [r]) hw ha (by
      intro x hx
      rcases List.mem_append.1 hx with h | h
      · exact hrs x (by simp [h])
      · simp at h; subst h; exact hr)
    simpa using this

/-- every word of the language, and every open block, extends to a word of the language -/
theorem Open.extends {n : List Note} (h : Open n) : ∃ rest, Lang (n ++ rest) :=
  ⟨[.success], h.lang_snoc .success (by decide)⟩

/-! ### invariants -/

/-- the task popped by `NextTask()` and not yet run -/
def State.inflight (s : State) : List Task :=
  match s.worker with
  | .running (.run t) _ => [t]
  | _ => []

/-- the worker is not going to look at the queue any more (no worker, or past its successful
`FinishWork()`) -/
def State.settled (s : State) : Bool :=
  match s.worker with
  | .running .exit _ => true
  | .running _ _ => false
  | _ => true

/-- FIFO bookkeeping: what was scheduled = what ran ++ what is being run ++ what is queued, in this
order; ids are fresh -/
def InvQ (s : State) : Prop :=
  s.scheduled = s.ran ++ s.inflight ++ s.queue ∧ s.scheduled.map (·.id) = List.range s.nextId

/-- notification grammar, by worker position -/
def InvG (s : State) : Prop :=
  match s.worker with
  | .idle | .finished | .running .notifyStart _ => Lang s.sent
  | .running .next _ | .running (.run _) _ | .running .notifyResult _ => Open s.sent
  | .running .check _ | .running .exit _ => Open s.sent ∧ Lang s.sent

/-- `working_` is true exactly from the locked block of `StartWork` until the worker's successful
`FinishWork()`; while the client sits between that block and the launch, the previous worker (if
any) is past its `FinishWork()` -/
def InvW (s : State) : Prop :=
  match s.cpc with
  | .swJoin _ _ => s.wflag = true ∧ s.settled = true
  | .swLaunch _ _ => s.wflag = true ∧ s.worker = .idle
  | _ => (s.wflag = true ↔ s.settled = false)

/-- the maintenance flag cannot be changed under a work thread that still has work to look for:
from its launch until its successful `FinishWork()` the flag is the mode it was launched with
(`StartWork` only stores the mode when `working_` is false) -/
def InvF (s : State) : Prop := s.settled = false → s.flag = s.wmode

/-- nothing is left behind: between two API calls, when `working_` is false the queue is empty -/
def InvL (s : State) : Prop :=
  s.cpc = .boundary → s.wflag = false → s.queue = []

/-- the maintenance_mode argument the client is about to pass / has passed to `StartWork` -/
def CPc.mode : CPc → Bool
  | .boundary => true
  | .push _ m _ _ => m
  | .swEnter m _ _ => m
  | .swJoin _ _ => true
  | .swLaunch _ _ => true

/-- past the locked block of `StartWork`, which has stored the mode in `maintenance_mode_` -/
def CPc.isLaunch : CPc → Bool
  | .swJoin _ _ => true
  | .swLaunch _ _ => true
  | _ => false

/-- the call passes `maintenance_mode = false` to `StartWork` -/
def Op.nonMaint : Op → Bool
  | .recover _ => true
  | .startDirect mode => !mode
  | _ => false

/-- the script never takes a non-maintenance `StartWork(false)` path (the recovery of
`UserDictionary::Load`, a direct `Deployer::StartWork()`) -/
def MaintOnly (script : List Op) : Prop := ∀ op ∈ script, op.nonMaint = false

/-- the script never removes the notification handler -/
def KeepsHandler (script : List Op) : Prop := ∀ op ∈ script, op ≠ Op.clearHandler

/-- the script never stops the service -/
def NoFinalize (script : List Op) : Prop := ∀ op ∈ script, op ≠ Op.finalize

/-- with a handler installed throughout, every notification sent was heard -/
def InvH (s : State) : Prop :=
  KeepsHandler s.script ∧ s.handler = true ∧ s.notes = s.sent

/-- without `RimeFinalize` the service stays started -/
def InvS (s : State) : Prop := NoFinalize s.script ∧ s.started = true

/-- with API maintenance calls only, a worker only ever runs with the maintenance flag set -/
def InvM (s : State) : Prop :=
  MaintOnly s.script ∧ s.cpc.mode = true ∧ (s.working = true → s.flag = true) ∧
  (s.cpc.isLaunch = true → s.flag = true)

/-! ### preservation by every step of either thread -/

attribute [simp] Ev.task? Ev.sched? Ev.note? Ev.sent?

attribute [simp] State.noteEv
attribute [local simp] List.filterMap_cons
set_option linter.unusedVariables false
set_option linter.unusedSimpArgs false

theorem invQ_worker {s s' : State} (h : InvQ s) (hs : workerStep s = some s') : InvQ s' := by
  unfold workerStep at hs
  unfold InvQ State.inflight State.ran State.scheduled at *
  obtain ⟨h1, h2⟩ := h
  split at hs
  all_goals (try split at hs)
  all_goals simp at hs
  all_goals subst hs
  all_goals simp_all

theorem invQ_client {s s' : State} (hw : InvW s) (h : InvQ s) (hs : clientStep s = some s') : InvQ s' := by
  unfold clientStep at hs
  unfold InvQ State.inflight State.ran State.scheduled at *
  unfold InvW at hw
  obtain ⟨h1, h2⟩ := h
  split at hs
  · split at hs
    · simp at hs
    · rename_i op rest hsc
      cases op <;> simp [beginOp, State.finishOp, afterPush] at hs
      all_goals (try split at hs)
      all_goals (try simp at hs)
      all_goals (try (obtain ⟨_, hs⟩ := hs))
      all_goals (try subst hs)
      all_goals (try simp_all [State.working, Worker.working])
      all_goals (rcases hw' : s.worker with _ | ⟨pc, f⟩ | _ <;> simp_all)
  all_goals (try split at hs)
  all_goals (try split at hs)
  all_goals (try simp [State.finishOp, afterPush] at hs)
  all_goals (try (obtain ⟨_, hs⟩ := hs))
  all_goals (try subst hs)
  all_goals (try simp_all [State.working, Worker.working])
  · rw [List.range_succ, ← h2]; simp
  · rcases hw' : s.worker with _ | ⟨pc, f⟩ | _ <;> simp_all

theorem invW_worker {s s' : State} (h : InvW s) (hs : workerStep s = some s') : InvW s' := by
  unfold workerStep at hs
  unfold InvW State.settled at *
  split at hs
  all_goals (try split at hs)
  all_goals simp at hs
  all_goals subst hs
  all_goals simp_all
  cases hc : s.cpc <;> simp_all

theorem invW_client {s s' : State} (h : InvW s) (hs : clientStep s = some s') : InvW s' := by
  unfold clientStep at hs
  unfold InvW at *
  split at hs
  · split at hs
    · simp at hs
    · rename_i op rest hsc
      cases op <;> simp [beginOp, State.finishOp, afterPush] at hs
      all_goals (try split at hs)
      all_goals (try simp at hs)
      all_goals (try (obtain ⟨_, hs⟩ := hs))
      all_goals (try subst hs)
      all_goals (try simp_all [State.working, Worker.working, State.settled])
      all_goals (rcases hw' : s.worker with _ | ⟨pc, f⟩ | _ <;> simp_all)
  all_goals (try split at hs)
  all_goals (try split at hs)
  all_goals (try simp [State.finishOp, afterPush] at hs)
  all_goals (try (obtain ⟨_, hs⟩ := hs))
  all_goals (try subst hs)
  all_goals (try simp_all [State.working, Worker.working, State.settled])
  rename_i os _ _ _ _; cases os <;> simp

theorem invL_worker {s s' : State} (hw : InvW s) (h : InvL s) (hs : workerStep s = some s') : InvL s' := by
  unfold workerStep at hs
  unfold InvL at *
  unfold InvW State.settled at hw
  split at hs
  all_goals (try split at hs)
  all_goals simp at hs
  all_goals subst hs
  all_goals simp_all

theorem invL_client {s s' : State} (hw : InvW s) (h : InvL s) (hs : clientStep s = some s') : InvL s' := by
  unfold clientStep at hs
  unfold InvL at *
  unfold InvW at hw
  split at hs
  · split at hs
    · simp at hs
    · rename_i op rest hsc
      cases op <;> simp [beginOp, State.finishOp, afterPush] at hs
      all_goals (try split at hs)
      all_goals (try simp at hs)
      all_goals (try (obtain ⟨_, hs⟩ := hs))
      all_goals (try subst hs)
      all_goals (try simp_all [State.working, Worker.working])
  all_goals (try split at hs)
  all_goals (try split at hs)
  all_goals (try simp [State.finishOp, afterPush] at hs)
  all_goals (try (obtain ⟨_, hs⟩ := hs))
  all_goals (try subst hs)
  all_goals (try simp_all [State.working, Worker.working])
  rename_i os _ _ _ _; cases os <;> simp

theorem invG_worker {s s' : State} (h : InvG s) (hs : workerStep s = some s') : InvG s' := by
  unfold workerStep at hs
  unfold InvG State.sent at *
  split at hs
  all_goals (try split at hs)
  all_goals simp at hs
  all_goals subst hs
  all_goals simp_all
  · exact Open.of_lang h
  · exact ⟨h.snoc _ (by decide), h.lang_snoc _ (by decide)⟩
  · exact ⟨h.snoc _ (by decide), h.lang_snoc _ (by decide)⟩

theorem invG_client {s s' : State} (hw : InvW s) (h : InvG s) (hs : clientStep s = some s') : InvG s' := by
  unfold clientStep at hs
  unfold InvG State.sent at *
  unfold InvW at hw
  split at hs
  · split at hs
    · simp at hs
    · rename_i op rest hsc
      cases op <;> simp [beginOp, State.finishOp, afterPush] at hs
      all_goals (try split at hs)
      all_goals (try simp at hs)
      all_goals (try (obtain ⟨_, hs⟩ := hs))
      all_goals (try subst hs)
      all_goals (try simp_all [State.working, Worker.working])
      all_goals (rcases hw' : s.worker with _ | ⟨pc, f⟩ | _ <;> simp_all)
  all_goals (try split at hs)
  all_goals (try split at hs)
  all_goals (try simp [State.finishOp, afterPush] at hs)
  all_goals (try (obtain ⟨_, hs⟩ := hs))
  all_goals (try subst hs)
  all_goals (try simp_all [State.working, Worker.working])
  rcases hw' : s.worker with _ | ⟨pc, f⟩ | _ <;> simp_all

theorem invM_worker {s s' : State} (h : InvM s) (hs : workerStep s = some s') : InvM s' := by
  unfold workerStep at hs
  unfold InvM State.working Worker.working at *
  split at hs
  all_goals (try split at hs)
  all_goals simp at hs
  all_goals subst hs
  all_goals simp_all

theorem invM_client {s s' : State} (h : InvM s) (hs : clientStep s = some s') : InvM s' := by
  unfold clientStep at hs
  unfold InvM MaintOnly at *
  obtain ⟨hm, hmode, hwf, hl⟩ := h
  split at hs
  · split at hs
    · simp at hs
    · rename_i op rest hsc
      cases op <;> simp [beginOp, State.finishOp, afterPush] at hs
      all_goals (try split at hs)
      all_goals (try simp at hs)
      all_goals (try (obtain ⟨_, hs⟩ := hs))
      all_goals (try subst hs)
      all_goals (try simp_all [State.working, Worker.working, CPc.mode, CPc.isLaunch, Op.nonMaint])
  all_goals (try split at hs)
  all_goals (try split at hs)
  all_goals (try simp [State.finishOp, afterPush] at hs)
  all_goals (try (obtain ⟨_, hs⟩ := hs))
  all_goals (try subst hs)
  all_goals (try simp_all [State.working, Worker.working, CPc.mode, CPc.isLaunch])
  rename_i os _ _ _ _; cases os <;> simp_all

theorem invF_worker {s s' : State} (h : InvF s) (hs : workerStep s = some s') : InvF s' := by
  unfold workerStep at hs
  unfold InvF State.settled at *
  split at hs
  all_goals (try split at hs)
  all_goals simp at hs
  all_goals subst hs
  all_goals simp_all

theorem invF_client {s s' : State} (hw : InvW s) (h : InvF s) (hs : clientStep s = some s') : InvF s' := by
  unfold clientStep at hs
  unfold InvF at *
  unfold InvW at hw
  split at hs
  · split at hs
    · simp at hs
    · rename_i op rest hsc
      cases op <;> simp [beginOp, State.finishOp, afterPush] at hs
      all_goals (try split at hs)
      all_goals (try simp at hs)
      all_goals (try (obtain ⟨_, hs⟩ := hs))
      all_goals (try subst hs)
      all_goals (try simp_all [State.working, Worker.working, State.settled])
  all_goals (try split at hs)
  all_goals (try split at hs)
  all_goals (try simp [State.finishOp, afterPush] at hs)
  all_goals (try (obtain ⟨_, hs⟩ := hs))
  all_goals (try subst hs)
  all_goals (try simp_all [State.working, Worker.working, State.settled])

/-! ### the invariants hold on every reachable state -/

/-- the schedule-independent invariants together -/
def Inv (s : State) : Prop := InvQ s ∧ InvG s ∧ InvW s ∧ InvL s

theorem invF_reach_aux {script : List Op} {s : State} (h : Reach (init script) s)
    (inv : ∀ s, Reach (init script) s → InvW s) : InvF s := by
  induction h with
  | refl => simp [InvF, init, State.settled]
  | step t hr hs ih =>
    cases t with
    | client => exact invF_client (inv _ hr) ih hs
    | worker => exact invF_worker ih hs

theorem inv_init (script : List Op) : Inv (init script) := by
  refine ⟨?_, ?_, ?_, ?_⟩
  · simp [InvQ, init, State.scheduled, State.ran, State.inflight]
  · simp [InvG, init, State.notes]; exact Lang.nil
  · simp [InvW, init, State.settled]
  · simp [InvL, init]

theorem inv_step {s s' : State} {t : Tid} (h : Inv s) (hs : step s t = some s') : Inv s' := by
  obtain ⟨hq, hg, hw, hl⟩ := h
  cases t with
  | client =>
    exact ⟨invQ_client hw hq hs, invG_client hw hg hs, invW_client hw hs, invL_client hw hl hs⟩
  | worker =>
    exact ⟨invQ_worker hq hs, invG_worker hg hs, invW_worker hw hs, invL_worker hw hl hs⟩

theorem inv_reach {script : List Op} {s : State} (h : Reach (init script) s) : Inv s := by
  induction h with
  | refl => exact inv_init script
  | step t _ hs ih => exact inv_step ih hs

theorem invF_reach {script : List Op} {s : State} (h : Reach (init script) s) : InvF s :=
  invF_reach_aux h (fun _ hr => (inv_reach hr).2.2.1)

theorem invM_init {script : List Op} (hm : MaintOnly script) : InvM (init script) := by
  simp [InvM, init, CPc.mode, CPc.isLaunch, State.working, Worker.working]; exact hm

theorem invM_reach {script : List Op} (hm : MaintOnly script) {s : State}
    (h : Reach (init script) s) : InvM s := by
  induction h with
  | refl => exact invM_init hm
  | step t _ hs ih =>
    cases t with
    | client => exact invM_client ih hs
    | worker => exact invM_worker ih hs

/-! ### handler installed throughout: everything sent was heard; service never stopped: it stays started -/

theorem invH_worker {s s' : State} (h : InvH s) (hs : workerStep s = some s') : InvH s' := by
  unfold workerStep at hs
  unfold InvH State.notes State.sent at *
  obtain ⟨hk, hh, hn⟩ := h
  split at hs
  all_goals (try split at hs)
  all_goals simp at hs
  all_goals subst hs
  all_goals simp_all

theorem invH_client {s s' : State} (h : InvH s) (hs : clientStep s = some s') : InvH s' := by
  unfold clientStep at hs
  unfold InvH KeepsHandler State.notes State.sent at *
  obtain ⟨hk, hh, hn⟩ := h
  split at hs
  · split at hs
    · simp at hs
    · rename_i op rest hsc
      cases op <;> simp [beginOp, State.finishOp, afterPush] at hs
      all_goals (try split at hs)
      all_goals (try simp at hs)
      all_goals (try (obtain ⟨_, hs⟩ := hs))
      all_goals (try subst hs)
      all_goals (try simp_all)
  all_goals (try split at hs)
  all_goals (try split at hs)
  all_goals (try simp [State.finishOp, afterPush] at hs)
  all_goals (try (obtain ⟨_, hs⟩ := hs))
  all_goals (try subst hs)
  all_goals (try simp_all)

theorem invS_worker {s s' : State} (h : InvS s) (hs : workerStep s = some s') : InvS s' := by
  unfold workerStep at hs
  unfold InvS at *
  split at hs
  all_goals (try split at hs)
  all_goals simp at hs
  all_goals subst hs
  all_goals simp_all

theorem invS_client {s s' : State} (h : InvS s) (hs : clientStep s = some s') : InvS s' := by
  unfold clientStep at hs
  unfold InvS NoFinalize at *
  obtain ⟨hk, hh⟩ := h
  split at hs
  · split at hs
    · simp at hs
    · rename_i op rest hsc
      cases op <;> simp [beginOp, State.finishOp, afterPush] at hs
      all_goals (try split at hs)
      all_goals (try simp at hs)
      all_goals (try (obtain ⟨_, hs⟩ := hs))
      all_goals (try subst hs)
      all_goals (try simp_all)
  all_goals (try split at hs)
  all_goals (try split at hs)
  all_goals (try simp [State.finishOp, afterPush] at hs)
  all_goals (try (obtain ⟨_, hs⟩ := hs))
  all_goals (try subst hs)
  all_goals (try simp_all)

theorem invH_reach {script : List Op} (hk : KeepsHandler script) {s : State}
    (h : Reach (init script) s) : InvH s := by
  induction h with
  | refl => exact ⟨hk, rfl, rfl⟩
  | step t _ hs ih =>
    cases t with
    | client => exact invH_client ih hs
    | worker => exact invH_worker ih hs

theorem invS_reach {script : List Op} (hk : NoFinalize script) {s : State}
    (h : Reach (init script) s) : InvS s := by
  induction h with
  | refl => exact ⟨hk, rfl⟩
  | step t _ hs ih =>
    cases t with
    | client => exact invS_client ih hs
    | worker => exact invS_worker ih hs

/-- a running worker can always take its next step -/
theorem worker_enabled {s : State} (h : s.working = true) : ∃ s', workerStep s = some s' := by
  unfold State.working Worker.working at h
  unfold workerStep
  rcases hw : s.worker with _ | ⟨pc, f⟩ | _ <;> simp_all
  cases pc <;> simp
  all_goals (cases s.queue <;> simp)

/-- the client can take a step unless its script is finished or it waits for a running worker -/
theorem client_enabled {s : State} (h : s.working = false)
    (hc : s.script ≠ [] ∨ s.cpc ≠ .boundary) : ∃ s', clientStep s = some s' := by
  unfold clientStep
  split
  · split
    · simp_all
    · rename_i op rest _
      have h' : s.worker.working = false := h
      cases op <;> simp [beginOp, State.working, h']
      split <;> simp
  all_goals (try split)
  all_goals (try split)
  all_goals simp_all

theorem reach_of_runStrict {s0 s s' : State} (h : Reach s0 s) {l : List Tid}
    (hr : runStrict s l = some s') : Reach s0 s' := by
  induction l generalizing s with
  | nil => simp [runStrict] at hr; subst hr; exact h
  | cons t ts ih =>
    unfold runStrict at hr
    split at hr
    · simp at hr
    · rename_i s1 hs1
      exact ih (Reach.step t h hs1) hr

end RimeModel.C15
