/-
C15 — two-thread transition system of `Deployer` / `Service` (src/rime/deployer.cc,
src/rime/service.{h,cc}, src/rime_api_impl.h).

Threads: one *client* thread issuing API calls, and the *worker* started by
`std::async(std::launch::async, [this]{ Run(); })` in `Deployer::StartWork`.  At most one worker
exists at a time: `StartWork` launches one only when `working_` is false (tested and set under
`mutex_`) and after joining the previous one.

This is the code after `fix: do not strand deployment tasks scheduled while the work thread is
exiting` (93b9b46): `Run()` loops `do … while (!FinishWork())`, `FinishWork()` clears `working_`
under `mutex_` iff the queue is empty, `StartWork` tests/sets `working_` under `mutex_`, then
`JoinWorkThread()`, then `std::async`.  The code before that fix is modelled in `Old.lean`.

Atomic steps are the code segments between *parking points*; each segment contains at most one
access to state shared between the threads (queue under `mutex_`, the future's ready flag, the
notification handler).  The parking points are the `RIME_VERIF_YIELD` hooks (hooks/C15.patch):

  worker : service.notify ("start") · next_task · run.before_task · service.notify (result)
           · finish_work · run.exit                             (`WPc`)
  client : the boundary before every API call (parked by the harness) · schedule_task
           · start_work.enter · start_work.join · start_work.launch         (`CPc`)

The block `{ lock(mutex_); if (working_) …; maintenance_mode_ = …; if (empty) …; working_ = true; }`
of `StartWork` is one segment: everything it touches is accessed under `mutex_` only (or by the
client thread only), so no finer interleaving exists.

State that only the client thread touches (`maintenance_mode_`, `sessions_`) needs no finer steps.
-/
namespace RimeModel.C15

/-- a deployment task: `id` = order of creation (fresh), `ok` = what `task->Run` returns
(`false` also stands for "throws std::exception": `Run()` counts both as a failure) -/
structure Task where
  id : Nat
  ok : Bool
  deriving DecidableEq, Repr

/-- value of a ("deploy", value) notification -/
inductive Note where
  | start | success | failure
  deriving DecidableEq, Repr

/-- where the worker thread is parked inside `Deployer::Run()` -/
inductive WPc where
  /-- at `Service::Notify` for `message_sink_("deploy", "start")` -/
  | notifyStart
  /-- at the entry of `NextTask()` (before taking `mutex_`) -/
  | next
  /-- task popped, before `task->Run(this)` -/
  | run (t : Task)
  /-- inner `while` left, at `Service::Notify` for the result message -/
  | notifyResult
  /-- at the entry of the `FinishWork()` of `do … while (!FinishWork())` (before taking `mutex_`) -/
  | check
  /-- `FinishWork()` returned true (`working_` cleared); `Run` has not returned, the future is not ready -/
  | exit
  deriving DecidableEq, Repr

/-- `work_` : the future of the worker -/
inductive Worker where
  /-- `!work_.valid()` : never started, or joined by `work_.get()` -/
  | idle
  /-- valid and not ready; `failed` = (`failure != 0`), cumulative over the whole `Run()` -/
  | running (pc : WPc) (failed : Bool)
  /-- valid and ready (the lambda returned), `get()` not called yet -/
  | finished
  deriving DecidableEq, Repr

/-- how the API call turns the result of `StartWork` into its own return value -/
inductive RetKind where
  /-- `RimeStartMaintenance` ignores it and returns True -/
  | always
  /-- `RimeSyncUserData` returns it -/
  | result
  /-- `UserDictionary::Load` discards it and returns false -/
  | never
  deriving DecidableEq, Repr

/-- which API function a return value belongs to -/
inductive OpKind where
  | maint | maintNoChange | sync | recover | isMaint | join | create | find | ctx | setHandler
  | maintQuick | maintNoInst | runTask | runUnknown | deployWs | deploySchema | deployConfig | prebuild
  | startDirect | destroy | cleanupAll | cleanupStale | finalize | initialize | clearHandler | tick
  deriving DecidableEq, Repr

/-- client API calls (the script alphabet) -/
inductive Op where
  /-- `RimeStartMaintenance(True)`: pre-tasks run synchronously and succeed, then
  `ScheduleTask` × |os| (3 in the API), `StartMaintenance()`, return True.  `os` = task outcomes. -/
  | maint (os : List Bool)
  /-- `RimeStartMaintenance(False)` when `detect_modifications` reports no change: returns False -/
  | maintNoChange
  /-- `RimeSyncUserData`: `CleanupAllSessions`, `ScheduleTask` × |os|, `return StartMaintenance()` -/
  | sync (os : List Bool)
  /-- `UserDictionary::Load` on a recoverable db that does not open (user_dictionary.cc):
  `if (task && Is<Recoverable>(db_) && !deployer.IsWorking()) { ScheduleTask(t); StartWork(/*maintenance_mode=*/false); }
  return false;` -/
  | recover (o : Bool)
  /-- `RimeIsMaintenancing` -/
  | isMaint
  /-- `RimeJoinMaintenanceThread` (blocks until the future is ready) -/
  | join
  /-- `RimeCreateSession` -/
  | create
  /-- `RimeFindSession(id)` on the most recently created live session -/
  | find
  /-- `RimeGetContext(id, &ctx)` on the same session -/
  | ctx
  /-- `RimeSetNotificationHandler(h, …)` re-installing the recording handler -/
  | setHandler
  /-- `RimeStartMaintenance(False)` when `detect_modifications` reports a change: the same schedule
  and `StartMaintenance()` as with `full_check`, returns True -/
  | maintQuick (os : List Bool)
  /-- `RimeStartMaintenance(·)` when the synchronous `installation_update` fails: returns False,
  nothing is scheduled -/
  | maintNoInst
  /-- an API call that runs deployment tasks synchronously on the CLIENT thread through
  `Deployer::RunTask` (never through the queue): `RimeRunTask`, `RimeDeployWorkspace` (four tasks
  joined by `&&`), `RimeDeploySchema`, `RimeDeployConfigFile`, `RimePrebuildAllSchemas`, and
  `RimeRunTask` of a name no component is registered for (`os = [false]`).  `os` = outcomes of the
  tasks in order; the call reports their conjunction -/
  | runSync (k : OpKind) (os : List Bool)
  /-- `Deployer::StartMaintenance()` (`mode = true`) / `Deployer::StartWork(false)` called directly:
  nothing is scheduled by the call itself, so the queue may be empty -/
  | startDirect (mode : Bool)
  /-- `RimeDestroySession(id)` on the most recently created live session (not guarded by `disabled()`) -/
  | destroy
  /-- `RimeCleanupAllSessions()` (not guarded) -/
  | cleanupAll
  /-- `RimeCleanupStaleSessions()`: erases the sessions idle for more than `Session::kLifeSpan` (not guarded) -/
  | cleanupStale
  /-- `n` seconds pass on the clock `time(NULL)` that `Session::Activate` and `CleanupStaleSessions` read -/
  | tick (n : Nat)
  /-- `RimeFinalize()`: `JoinMaintenanceThread()` (blocks), `StopService()` (`started_ = false`,
  `CleanupAllSessions()`), registry and modules unloaded -/
  | finalize
  /-- `RimeInitialize(traits)`: `StartService()` (`started_ = true`) -/
  | initialize
  /-- `RimeSetNotificationHandler(NULL, …)` = `Service::ClearNotificationHandler()` -/
  | clearHandler
  deriving DecidableEq, Repr

/-- where the client thread is parked -/
inductive CPc where
  /-- between two API calls -/
  | boundary
  /-- inside `ScheduleTask` (before taking `mutex_`), outcomes still to push; then
  `StartWork(mode)` whose result is reported for `k` as `rk` says -/
  | push (os : List Bool) (mode : Bool) (k : OpKind) (rk : RetKind)
  /-- `StartWork` entered, before the locked block that tests `working_` -/
  | swEnter (mode : Bool) (k : OpKind) (rk : RetKind)
  /-- `working_` was false and is now true, `maintenance_mode_` set, queue non-empty; before
  `JoinWorkThread()` (which blocks until the previous worker's future is ready) -/
  | swJoin (k : OpKind) (rk : RetKind)
  /-- previous worker joined; before `work_ = std::async(...)` -/
  | swLaunch (k : OpKind) (rk : RetKind)
  deriving DecidableEq, Repr

/-- observable events, in real-time order (the harness serialises the threads) -/
inductive Ev where
  /-- an API call returned; `v` : 1/0 for Bool results (create: 1 = a session id, 0 = refused),
  2 = void -/
  | ret (k : OpKind) (v : Nat)
  /-- `ScheduleTask` pushed `t` -/
  | sched (t : Task)
  /-- the worker executed `t` -/
  | run (t : Task)
  /-- `Service::Notify(0, "deploy", n)` was called by the work thread; `heard`: a handler was
  installed and received it (an unheard notification is a ghost event, not part of the observable
  trace) -/
  | note (n : Note) (heard : Bool)
  /-- `Run()` returned and the future became ready -/
  | done
  deriving DecidableEq, Repr

structure State where
  /-- API calls still to be issued -/
  script : List Op
  cpc : CPc
  /-- `pending_tasks_` -/
  queue : List Task
  worker : Worker
  /-- `maintenance_mode_` -/
  flag : Bool
  /-- `working_` (guarded by `mutex_`) -/
  wflag : Bool
  /-- ghost: the `maintenance_mode` argument of the `StartWork` call that launched the current
  (or last) work thread -/
  wmode : Bool
  /-- number of tasks created so far (next fresh id) -/
  nextId : Nat
  /-- the live sessions (`sessions_`), most recently created first; each with the seconds elapsed
  since its `last_active_time_` (set by `Session::Activate()` in `CreateSession` and in every
  accepted `GetSession`) -/
  sessions : List Nat
  /-- `Service::started_` -/
  started : Bool
  /-- `Service::notification_handler_` is non-empty -/
  handler : Bool
  /-- event log -/
  log : List Ev
  deriving DecidableEq, Repr

inductive Tid where
  | client | worker
  deriving DecidableEq, Repr

def init (script : List Op) : State :=
  { script := script, cpc := .boundary, queue := [], worker := .idle, flag := false, wflag := false, wmode := false,
    nextId := 0, sessions := [], started := true, handler := true, log := [] }

/-! ### derived notions -/

/-- `Deployer::IsWorking()` : `work_.valid()` and not ready -/
def Worker.working : Worker → Bool
  | .running _ _ => true
  | _ => false

def State.working (s : State) : Bool := s.worker.working

/-- number of live sessions (`sessions_.size()`) -/
def State.live (s : State) : Nat := s.sessions.length

/-- `Session::kLifeSpan` (seconds): `CleanupStaleSessions` erases a session iff
`last_active_time() < now - kLifeSpan` -/
def lifeSpan : Nat := 300

/-- `Deployer::IsMaintenanceMode()` = `maintenance_mode_ && IsWorking()` -/
def State.maintMode (s : State) : Bool := s.flag && s.working

/-- `Service::disabled()` = `!started_ || deployer_.IsMaintenanceMode()` -/
def State.disabled (s : State) : Bool := !s.started || s.maintMode

def Ev.task? : Ev → Option Task
  | .run t => some t
  | .ret _ _ => none
  | .sched _ => none
  | .note _ _ => none
  | .done => none
def Ev.sched? : Ev → Option Task
  | .sched t => some t
  | .ret _ _ => none
  | .run _ => none
  | .note _ _ => none
  | .done => none
def Ev.note? : Ev → Option Note
  | .note n heard => if heard then some n else none
  | .ret _ _ => none
  | .sched _ => none
  | .run _ => none
  | .done => none
/-- notifications SENT by `Deployer::Run` (`message_sink_`), heard by a handler or not -/
def Ev.sent? : Ev → Option Note
  | .note n _ => some n
  | .ret _ _ => none
  | .sched _ => none
  | .run _ => none
  | .done => none
/-- ghost events are not part of the observable trace -/
def Ev.observable : Ev → Bool
  | .note _ heard => heard
  | .ret _ _ => true
  | .sched _ => true
  | .run _ => true
  | .done => true

/-- tasks executed, in order -/
def State.ran (s : State) : List Task := s.log.filterMap Ev.task?
/-- tasks handed to `ScheduleTask`, in order -/
def State.scheduled (s : State) : List Task := s.log.filterMap Ev.sched?
/-- notification sequence seen by the handler -/
def State.notes (s : State) : List Note := s.log.filterMap Ev.note?
/-- notification sequence sent by the work threads (`Service::Notify` calls), heard or not -/
def State.sent (s : State) : List Note := s.log.filterMap Ev.sent?

/-- `Service::Notify(0, "deploy", n)`: the handler is called iff one is installed -/
def State.noteEv (s : State) (n : Note) : Ev := .note n s.handler

def State.emit (s : State) (e : Ev) : State := { s with log := s.log ++ [e] }

/-- return value of the API call given `StartWork`'s result -/
def retVal (rk : RetKind) (r : Bool) : Nat :=
  match rk with
  | .always => 1
  | .result => if r then 1 else 0
  | .never => 0

/-- the API call `k` returns: log it, client back at the boundary -/
def State.finishOp (s : State) (k : OpKind) (v : Nat) : State :=
  { s with cpc := .boundary, log := s.log ++ [.ret k v] }

/-- after the last `ScheduleTask`, `StartWork(mode)` is entered -/
def afterPush (os : List Bool) (mode : Bool) (k : OpKind) (rk : RetKind) : CPc :=
  match os with
  | [] => .swEnter mode k rk
  | _ :: _ => .push os mode k rk

/-! ### the worker program: `Deployer::Run()` -/

def workerStep (s : State) : Option State :=
  match s.worker with
  | .idle => none
  | .finished => none
  | .running .notifyStart f =>
      some { s with worker := .running .next f, log := s.log ++ [s.noteEv .start] }
  | .running .next f =>
      match s.queue with
      | [] => some { s with worker := .running .notifyResult f }
      | t :: q => some { s with queue := q, worker := .running (.run t) f }
  | .running (.run t) f =>
      some { s with worker := .running .next (f || !t.ok), log := s.log ++ [.run t] }
  | .running .notifyResult f =>
      some { s with worker := .running .check f,
                    log := s.log ++ [s.noteEv (if f then .failure else .success)] }
  | .running .check f =>
      -- FinishWork(): lock; if (!empty) return false; working_ = false; return true
      match s.queue with
      | [] => some { s with worker := .running .exit f, wflag := false }
      | _ :: _ => some { s with worker := .running .next f }
  | .running .exit _ =>
      some { s with worker := .finished, log := s.log ++ [.done] }

/-! ### the client program: API calls decomposed at the parking points -/

/-- a session operation (`CreateSession` / `GetSession`-based, the latter on the most recently
created live session) issued in state `s`; returns the new sessions and the reported value.  A
refused operation does not even refresh the session's activity stamp. -/
def sessionOp (s : State) (o : OpKind) : List Nat × Nat :=
  if s.disabled then (s.sessions, 0)         -- `disabled()` : refused
  else match o with
    | .create => (0 :: s.sessions, 1)
    | _ => match s.sessions with
      | [] => ([], 0)
      | _ :: r => (0 :: r, 1)                -- `session->Activate()`

/-- first segment of an API call, from the boundary -/
def beginOp (s : State) (op : Op) (rest : List Op) : Option State :=
  let s := { s with script := rest }
  match op with
  | .maint os => some { s with cpc := afterPush os true .maint .always }
  | .maintNoChange => some (s.finishOp .maintNoChange 0)
  | .sync os => some { s with sessions := [], cpc := afterPush os true .sync .result }
  | .recover o =>
      if s.working then some (s.finishOp .recover 0)
      else some { s with cpc := .push [o] false .recover .never }
  | .isMaint => some (s.finishOp .isMaint (if s.maintMode then 1 else 0))
  | .join =>
      if s.working then none     -- `work_.get()` blocks
      else some ({ s with worker := .idle }.finishOp .join 2)
  | .create => some ({ s with sessions := (sessionOp s .create).1 }.finishOp .create (sessionOp s .create).2)
  | .find => some ({ s with sessions := (sessionOp s .find).1 }.finishOp .find (sessionOp s .find).2)
  | .ctx => some ({ s with sessions := (sessionOp s .ctx).1 }.finishOp .ctx (sessionOp s .ctx).2)
  | .setHandler => some ({ s with handler := true }.finishOp .setHandler 2)
  | .maintQuick os => some { s with cpc := afterPush os true .maintQuick .always }
  | .maintNoInst => some (s.finishOp .maintNoInst 0)
  | .runSync k os => some (s.finishOp k (if os.all id then 1 else 0))
  | .startDirect mode => some { s with cpc := .swEnter mode .startDirect .result }
  | .destroy =>
      match s.sessions with
      | [] => some (s.finishOp .destroy 0)
      | _ :: r => some ({ s with sessions := r }.finishOp .destroy 1)
  | .cleanupAll => some ({ s with sessions := [] }.finishOp .cleanupAll 2)
  | .cleanupStale =>
      some ({ s with sessions := s.sessions.filter (fun age => age ≤ lifeSpan) }.finishOp .cleanupStale 2)
  | .tick n => some ({ s with sessions := s.sessions.map (· + n) }.finishOp .tick 2)
  | .finalize =>
      if s.working then none     -- `JoinMaintenanceThread()` blocks
      else some ({ s with worker := .idle, started := false, sessions := [] }.finishOp .finalize 2)
  | .initialize => some ({ s with started := true }.finishOp .initialize 2)
  | .clearHandler => some ({ s with handler := false }.finishOp .clearHandler 2)

def clientStep (s : State) : Option State :=
  match s.cpc with
  | .boundary =>
      match s.script with
      | [] => none
      | op :: rest => beginOp s op rest
  | .push [] mode k rk => some { s with cpc := .swEnter mode k rk }
  | .push (o :: os) mode k rk =>
      some { s with queue := s.queue ++ [⟨s.nextId, o⟩], nextId := s.nextId + 1,
                    log := s.log ++ [.sched ⟨s.nextId, o⟩], cpc := afterPush os mode k rk }
  | .swEnter mode k rk =>
      -- { lock(mutex_); if (working_) return false; maintenance_mode_ = mode;
      --   if (pending_tasks_.empty()) return false; working_ = true; }
      if s.wflag then some (s.finishOp k (retVal rk false))
      else if s.queue.isEmpty then some ({ s with flag := mode }.finishOp k (retVal rk false))
      else some { s with flag := mode, wflag := true, cpc := .swJoin k rk }
  | .swJoin k rk =>
      -- JoinWorkThread(): if (work_.valid()) work_.get();  blocks while the future is not ready
      if s.working then none
      else some { s with worker := .idle, cpc := .swLaunch k rk }
  | .swLaunch k rk =>
      some ({ s with worker := .running .notifyStart false, wmode := s.flag }.finishOp k (retVal rk true))

def step (s : State) : Tid → Option State
  | .client => clientStep s
  | .worker => workerStep s

/-- reachability under ANY schedule: reflexive-transitive closure of `step` over any thread choice -/
inductive Reach (s0 : State) : State → Prop where
  | refl : Reach s0 s0
  | step {s s' : State} (t : Tid) : Reach s0 s → step s t = some s' → Reach s0 s'

/-! ### running schedules (executable; used by the driver and the counterexample) -/

/-- strict: every entry must be enabled -/
def runStrict (s : State) : List Tid → Option State
  | [] => some s
  | t :: ts => match step s t with
    | none => none
    | some s' => runStrict s' ts

def Tid.other : Tid → Tid
  | .client => .worker
  | .worker => .client

/-- lenient policy shared with the harness: take the preferred thread if it is enabled, else the
other one, else stop.  Returns the final state and the schedule actually executed. -/
def runLenient (s : State) (acc : List Tid) : List Tid → State × List Tid
  | [] => (s, acc.reverse)
  | t :: ts => match step s t with
    | some s' => runLenient s' (t :: acc) ts
    | none => match step s t.other with
      | some s' => runLenient s' (t.other :: acc) ts
      | none => (s, acc.reverse)

/-- completion policy shared with the harness: client first, else worker, until nothing is enabled -/
def complete (fuel : Nat) (s : State) (acc : List Tid) : State × List Tid :=
  match fuel with
  | 0 => (s, acc.reverse)
  | fuel + 1 => match step s .client with
    | some s' => complete fuel s' (.client :: acc)
    | none => match step s .worker with
      | some s' => complete fuel s' (.worker :: acc)
      | none => (s, acc.reverse)

/-- upper bound on the number of steps of any run of a script (each task costs ≤ 1 client and
≤ 4 worker steps, each call ≤ 4 client steps and ≤ 5 worker steps of a fresh `Run`) -/
def opCost : Op → Nat
  | .maint os => 12 + 6 * os.length
  | .sync os => 12 + 6 * os.length
  | .recover _ => 18
  | .maintQuick os => 12 + 6 * os.length
  | .startDirect _ => 12
  | _ => 2

def fuelFor (script : List Op) : Nat := (script.map opCost).sum + 8

/-- run a (possibly partial, possibly over-long) schedule leniently, then complete -/
def runSchedule (script : List Op) (sched : List Tid) : State × List Tid :=
  let r := runLenient (init script) [] sched
  let c := complete (fuelFor script) r.1 []
  (c.1, r.2 ++ c.2)

/-- both threads have nothing left to do -/
def State.quiescent (s : State) : Bool :=
  (step s .client).isNone && (step s .worker).isNone

/-! ### the property clauses as executable predicates on a state (used by the driver's search) -/

/-- the client is between two API calls -/
def State.atBoundary (s : State) : Bool := s.cpc == .boundary

/-- `is_maintenance_mode` would return false now -/
def State.maintenanceOver (s : State) : Bool := !s.maintMode

/-- T violated in `s`: the service reports that maintenance is over while a scheduled task has not
run (still queued or popped and not executed) -/
def State.lostTask (s : State) : Bool :=
  s.atBoundary && s.maintenanceOver && (s.scheduled != s.ran)

/-- recogniser of `(start (success|failure)+)*` ; state: 0 = accept/no start pending,
1 = start seen, result required -/
def notesOk : Nat → List Note → Bool
  | 0, [] => true
  | 1, [] => false
  | 0, .start :: r => notesOk 1 r
  | 1, .start :: _ => false
  | 1, _ :: r => notesOk 2 r
  | 2, [] => true
  | 2, .start :: r => notesOk 1 r
  | 2, _ :: r => notesOk 2 r
  | _, _ => false

end RimeModel.C15
