/-
C15 — two-thread transition system of `Deployer` / `Service` (src/rime/deployer.cc,
src/rime/service.{h,cc}, src/rime_api_impl.h).

Threads: one *client* thread issuing API calls, and the *worker* started by
`std::async(std::launch::async, [this]{ Run(); })` in `Deployer::StartWork`.  At most one worker
exists at a time: `StartWork` launches one only when `working_` is false (tested and set under
`mutex_`) and after joining the previous one.

This is the code after `fix: do not strand deployment tasks scheduled while the work thread is
exiting` (93b9b46): `Run()` loops `do … while (!FinishWork())`, `FinishWork()` clears `working_`
under `mutex_` iff the queue is empty, `StartWork` tests/sets `working_` under `mutex_`, then
`JoinWorkThread()`, then `std::async`.  The code before that fix is modelled in `Old.lean`.

Atomic steps are the code segments between *parking points*; each segment contains at most one
access to state shared between the threads (queue under `mutex_`, the future's ready flag, the
notification handler).  The parking points are the `RIME_VERIF_YIELD` hooks (hooks/C15.patch):

  worker : service.notify ("start") · next_task · run.before_task · service.notify (result)
           · finish_work · run.exit                             (`WPc`)
  client : the boundary before every API call (parked by the harness) · schedule_task
           · start_work.enter · start_work.join · start_work.launch         (`CPc`)

The block `{ lock(mutex_); if (working_) …; maintenance_mode_ = …; if (empty) …; working_ = true; }`
of `StartWork` is one segment: everything it touches is accessed under `mutex_` only (or by the
client thread only), so no finer interleaving exists.

State that only the client thread touches (`maintenance_mode_`, `sessions_`) needs no finer steps.
-/
namespace RimeModel.C15

/-- a deployment task: `id` = order of creation (fresh), `ok` = what `task->Run` returns
(`false` also stands for "throws std::exception": `Run()` counts both as a failure) -/
structure Task where
  id : Nat
  ok : Bool
  deriving DecidableEq, Repr

/-- value of a ("deploy", value) notification -/
inductive Note where
  | start | success | failure
  deriving DecidableEq, Repr

/-- where the worker thread is parked inside `Deployer::Run()` -/
inductive WPc where
  /-- at `Service::Notify` for `message_sink_("deploy", "start")` -/
  | notifyStart
  /-- at the entry of `NextTask()` (before taking `mutex_`) -/
  | next
  /-- task popped, before `task->Run(this)` -/
  | run (t : Task)
  /-- inner `while` left, at `Service::Notify` for the result message -/
  | notifyResult
  /-- at the entry of the `FinishWork()` of `do … while (!FinishWork())` (before taking `mutex_`) -/
  | check
  /-- `FinishWork()` returned true (`working_` cleared); `Run` has not returned, the future is not ready -/
  | exit
  deriving DecidableEq, Repr

/-- `work_` : the future of the worker -/
inductive Worker where
  /-- `!work_.valid()` : never started, or joined by `work_.get()` -/
  | idle
  /-- valid and not ready; `failed` = (`failure != 0`), cumulative over the whole `Run()` -/
  | running (pc : WPc) (failed : Bool)
  /-- valid and ready (the lambda returned), `get()` not called yet -/
  | finished
  deriving DecidableEq, Repr

/-- how the API call turns the result of `StartWork` into its own return value -/
inductive RetKind where
  /-- `RimeStartMaintenance` ignores it and returns True -/
  | always
  /-- `RimeSyncUserData` returns it -/
  | result
  deriving DecidableEq, Repr

/-- client API calls (the script alphabet) -/
inductive Op where
  /-- `RimeStartMaintenance(True)`: pre-tasks run synchronously and succeed, then
  `ScheduleTask` × |os| (3 in the API), `StartMaintenance()`, return True.  `os` = task outcomes. -/
  | maint (os : List Bool)
  /-- `RimeStartMaintenance(False)` when `detect_modifications` reports no change: returns False -/
  | maintNoChange
  /-- `RimeSyncUserData`: `CleanupAllSessions`, `ScheduleTask` × |os|, `return StartMaintenance()` -/
  | sync (os : List Bool)
  /-- `UserDictionary::Load` recovery path (user_dictionary.cc):
  `if (!deployer.IsWorking()) { ScheduleTask(t); StartWork(/*maintenance_mode=*/false); }` -/
  | recover (o : Bool)
  /-- `RimeIsMaintenancing` -/
  | isMaint
  /-- `RimeJoinMaintenanceThread` (blocks until the future is ready) -/
  | join
  /-- `RimeCreateSession` -/
  | create
  /-- `RimeFindSession(id)` on the most recently created live session -/
  | find
  /-- `RimeGetContext(id, &ctx)` on the same session -/
  | ctx
  /-- `RimeSetNotificationHandler(h, …)` re-installing the recording handler -/
  | setHandler
  deriving DecidableEq, Repr

/-- which API function a return value belongs to -/
inductive OpKind where
  | maint | maintNoChange | sync | recover | isMaint | join | create | find | ctx | setHandler
  deriving DecidableEq, Repr

/-- where the client thread is parked -/
inductive CPc where
  /-- between two API calls -/
  | boundary
  /-- inside `ScheduleTask` (before taking `mutex_`), outcomes still to push; then
  `StartWork(mode)` whose result is reported for `k` as `rk` says -/
  | push (os : List Bool) (mode : Bool) (k : OpKind) (rk : RetKind)
  /-- `StartWork` entered, before the locked block that tests `working_` -/
  | swEnter (mode : Bool) (k : OpKind) (rk : RetKind)
  /-- `working_` was false and is now true, `maintenance_mode_` set, queue non-empty; before
  `JoinWorkThread()` (which blocks until the previous worker's future is ready) -/
  | swJoin (k : OpKind) (rk : RetKind)
  /-- previous worker joined; before `work_ = std::async(...)` -/
  | swLaunch (k : OpKind) (rk : RetKind)
  deriving DecidableEq, Repr

/-- observable events, in real-time order (the harness serialises the threads) -/
inductive Ev where
  /-- an API call returned; `v` : 1/0 for Bool results (create: 1 = a session id, 0 = refused),
  2 = void, 3 = recover skipped because a worker was running -/
  | ret (k : OpKind) (v : Nat)
  /-- `ScheduleTask` pushed `t` -/
  | sched (t : Task)
  /-- the worker executed `t` -/
  | run (t : Task)
  /-- the handler received ("deploy", n) -/
  | note (n : Note)
  /-- `Run()` returned and the future became ready -/
  | done
  deriving DecidableEq, Repr

structure State where
  /-- API calls still to be issued -/
  script : List Op
  cpc : CPc
  /-- `pending_tasks_` -/
  queue : List Task
  worker : Worker
  /-- `maintenance_mode_` -/
  flag : Bool
  /-- `working_` (guarded by `mutex_`) -/
  wflag : Bool
  /-- number of tasks created so far (next fresh id) -/
  nextId : Nat
  /-- number of live sessions (`sessions_.size()`) -/
  live : Nat
  /-- event log -/
  log : List Ev
  deriving DecidableEq, Repr

inductive Tid where
  | client | worker
  deriving DecidableEq, Repr

def init (script : List Op) : State :=
  { script := script, cpc := .boundary, queue := [], worker := .idle, flag := false, wflag := false,
    nextId := 0, live := 0, log := [] }

/-! ### derived notions -/

/-- `Deployer::IsWorking()` : `work_.valid()` and not ready -/
def Worker.working : Worker → Bool
  | .running _ _ => true
  | _ => false

def State.working (s : State) : Bool := s.worker.working

/-- `Deployer::IsMaintenanceMode()` = `maintenance_mode_ && IsWorking()`;
`Service::disabled()` = `!started_ || IsMaintenanceMode()` with the service started -/
def State.maintMode (s : State) : Bool := s.flag && s.working

def Ev.task? : Ev → Option Task
  | .run t => some t
  | .ret _ _ => none
  | .sched _ => none
  | .note _ => none
  | .done => none
def Ev.sched? : Ev → Option Task
  | .sched t => some t
  | .ret _ _ => none
  | .run _ => none
  | .note _ => none
  | .done => none
def Ev.note? : Ev → Option Note
  | .note n => some n
  | .ret _ _ => none
  | .sched _ => none
  | .run _ => none
  | .done => none

/-- tasks executed, in order -/
def State.ran (s : State) : List Task := s.log.filterMap Ev.task?
/-- tasks handed to `ScheduleTask`, in order -/
def State.scheduled (s : State) : List Task := s.log.filterMap Ev.sched?
/-- notification sequence seen by the handler -/
def State.notes (s : State) : List Note := s.log.filterMap Ev.note?

def State.emit (s : State) (e : Ev) : State := { s with log := s.log ++ [e] }

/-- return value of the API call given `StartWork`'s result -/
def retVal (rk : RetKind) (r : Bool) : Nat :=
  match rk with
  | .always => 1
  | .result => if r then 1 else 0

/-- the API call `k` returns: log it, client back at the boundary -/
def State.finishOp (s : State) (k : OpKind) (v : Nat) : State :=
  { s with cpc := .boundary, log := s.log ++ [.ret k v] }

/-- after the last `ScheduleTask`, `StartWork(mode)` is entered -/
def afterPush (os : List Bool) (mode : Bool) (k : OpKind) (rk : RetKind) : CPc :=
  match os with
  | [] => .swEnter mode k rk
  | _ :: _ => .push os mode k rk

/-! ### the worker program: `Deployer::Run()` -/

def workerStep (s : State) : Option State :=
  match s.worker with
  | .idle => none
  | .finished => none
  | .running .notifyStart f =>
      some { s with worker := .running .next f, log := s.log ++ [.note .start] }
  | .running .next f =>
      match s.queue with
      | [] => some { s with worker := .running .notifyResult f }
      | t :: q => some { s with queue := q, worker := .running (.run t) f }
  | .running (.run t) f =>
      some { s with worker := .running .next (f || !t.ok), log := s.log ++ [.run t] }
  | .running .notifyResult f =>
      some { s with worker := .running .check f,
                    log := s.log ++ [.note (if f then .failure else .success)] }
  | .running .check f =>
      -- FinishWork(): lock; if (!empty) return false; working_ = false; return true
      match s.queue with
      | [] => some { s with worker := .running .exit f, wflag := false }
      | _ :: _ => some { s with worker := .running .next f }
  | .running .exit _ =>
      some { s with worker := .finished, log := s.log ++ [.done] }

/-! ### the client program: API calls decomposed at the parking points -/

/-- a session operation (`CreateSession` / `GetSession`-based) issued in state `s`;
returns the new number of live sessions and the reported value -/
def sessionOp (s : State) (o : OpKind) : Nat × Nat :=
  if s.maintMode then (s.live, 0)            -- `disabled()` : refused
  else match o with
    | .create => (s.live + 1, 1)
    | _ => (s.live, if s.live = 0 then 0 else 1)

/-- first segment of an API call, from the boundary -/
def beginOp (s : State) (op : Op) (rest : List Op) : Option State :=
  let s := { s with script := rest }
  match op with
  | .maint os => some { s with cpc := afterPush os true .maint .always }
  | .maintNoChange => some (s.finishOp .maintNoChange 0)
  | .sync os => some { s with live := 0, cpc := afterPush os true .sync .result }
  | .recover o =>
      if s.working then some (s.finishOp .recover 3)
      else some { s with cpc := .push [o] false .recover .result }
  | .isMaint => some (s.finishOp .isMaint (if s.maintMode then 1 else 0))
  | .join =>
      if s.working then none     -- `work_.get()` blocks
      else some ({ s with worker := .idle }.finishOp .join 2)
  | .create => some ({ s with live := (sessionOp s .create).1 }.finishOp .create (sessionOp s .create).2)
  | .find => some (s.finishOp .find (sessionOp s .find).2)
  | .ctx => some (s.finishOp .ctx (sessionOp s .ctx).2)
  | .setHandler => some (s.finishOp .setHandler 2)

def clientStep (s : State) : Option State :=
  match s.cpc with
  | .boundary =>
      match s.script with
      | [] => none
      | op :: rest => beginOp s op rest
  | .push [] mode k rk => some { s with cpc := .swEnter mode k rk }
  | .push (o :: os) mode k rk =>
      some { s with queue := s.queue ++ [⟨s.nextId, o⟩], nextId := s.nextId + 1,
                    log := s.log ++ [.sched ⟨s.nextId, o⟩], cpc := afterPush os mode k rk }
  | .swEnter mode k rk =>
      -- { lock(mutex_); if (working_) return false; maintenance_mode_ = mode;
      --   if (pending_tasks_.empty()) return false; working_ = true; }
      if s.wflag then some (s.finishOp k (retVal rk false))
      else if s.queue.isEmpty then some ({ s with flag := mode }.finishOp k (retVal rk false))
      else some { s with flag := mode, wflag := true, cpc := .swJoin k rk }
  | .swJoin k rk =>
      -- JoinWorkThread(): if (work_.valid()) work_.get();  blocks while the future is not ready
      if s.working then none
      else some { s with worker := .idle, cpc := .swLaunch k rk }
  | .swLaunch k rk =>
      some ({ s with worker := .running .notifyStart false }.finishOp k (retVal rk true))

def step (s : State) : Tid → Option State
  | .client => clientStep s
  | .worker => workerStep s

/-- reachability under ANY schedule: reflexive-transitive closure of `step` over any thread choice -/
inductive Reach (s0 : State) : State → Prop where
  | refl : Reach s0 s0
  | step {s s' : State} (t : Tid) : Reach s0 s → step s t = some s' → Reach s0 s'

/-! ### running schedules (executable; used by the driver and the counterexample) -/

/-- strict: every entry must be enabled -/
def runStrict (s : State) : List Tid → Option State
  | [] => some s
  | t :: ts => match step s t with
    | none => none
    | some s' => runStrict s' ts

def Tid.other : Tid → Tid
  | .client => .worker
  | .worker => .client

/-- lenient policy shared with the harness: take the preferred thread if it is enabled, else the
other one, else stop.  Returns the final state and the schedule actually executed. -/
def runLenient (s : State) (acc : List Tid) : List Tid → State × List Tid
  | [] => (s, acc.reverse)
  | t :: ts => match step s t with
    | some s' => runLenient s' (t :: acc) ts
    | none => match step s t.other with
      | some s' => runLenient s' (t.other :: acc) ts
      | none => (s, acc.reverse)

/-- completion policy shared with the harness: client first, else worker, until nothing is enabled -/
def complete (fuel : Nat) (s : State) (acc : List Tid) : State × List Tid :=
  match fuel with
  | 0 => (s, acc.reverse)
  | fuel + 1 => match step s .client with
    | some s' => complete fuel s' (.client :: acc)
    | none => match step s .worker with
      | some s' => complete fuel s' (.worker :: acc)
      | none => (s, acc.reverse)

/-- upper bound on the number of steps of any run of a script (each task costs ≤ 1 client and
≤ 4 worker steps, each call ≤ 4 client steps and ≤ 5 worker steps of a fresh `Run`) -/
def opCost : Op → Nat
  | .maint os => 12 + 6 * os.length
  | .sync os => 12 + 6 * os.length
  | .recover _ => 18
  | _ => 2

def fuelFor (script : List Op) : Nat := (script.map opCost).sum + 8

/-- run a (possibly partial, possibly over-long) schedule leniently, then complete -/
def runSchedule (script : List Op) (sched : List Tid) : State × List Tid :=
  let r := runLenient (init script) [] sched
  let c := complete (fuelFor script) r.1 []
  (c.1, r.2 ++ c.2)

/-- both threads have nothing left to do -/
def State.quiescent (s : State) : Bool :=
  (step s .client).isNone && (step s .worker).isNone

/-! ### the property clauses as executable predicates on a state (used by the driver's search) -/

/-- the client is between two API calls -/
def State.atBoundary (s : State) : Bool := s.cpc == .boundary

/-- `is_maintenance_mode` would return false now -/
def State.maintenanceOver (s : State) : Bool := !s.maintMode

/-- T violated in `s`: the service reports that maintenance is over while a scheduled task has not
run (still queued or popped and not executed) -/
def State.lostTask (s : State) : Bool :=
  s.atBoundary && s.maintenanceOver && (s.scheduled != s.ran)

/-- recogniser of `(start (success|failure)+)*` ; state: 0 = accept/no start pending,
1 = start seen, result required -/
def notesOk : Nat → List Note → Bool
  | 0, [] => true
  | 1, [] => false
  | 0, .start :: r => notesOk 1 r
  | 1, .start :: _ => false
  | 1, _ :: r => notesOk 2 r
  | 2, [] => true
  | 2, .start :: r => notesOk 1 r
  | 2, _ :: r => notesOk 2 r
  | _, _ => false

end RimeModel.C15
