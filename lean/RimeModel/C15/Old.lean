import RimeModel.C15.Model
/-!
C15 — history: the `Deployer::StartWork` / `Deployer::Run` of librime BEFORE
`fix: do not strand deployment tasks scheduled while the work thread is exiting` (93b9b46).

    bool Deployer::Run() { …  do { … } while (HasPendingTasks());  return !failure; }
    bool Deployer::StartWork(bool maintenance_mode) {
      if (IsWorking()) { LOG(WARNING) << "a work thread is already running."; return false; }
      maintenance_mode_ = maintenance_mode;
      if (pending_tasks_.empty()) return false;
      work_ = std::async(std::launch::async, [this] { Run(); });
      return work_.valid();
    }

`IsWorking()` (future valid and not ready) stays true between the worker's last
`HasPendingTasks()` and the return of `Run()`; a `StartWork` in that window returned false and the
tasks just scheduled stayed queued after maintenance had ended.  This model was compared with
the real code of 0ff38b9 through the same yield hooks (identical traces, including the
counterexample of `Props/C15.lean : old_no_lost_task_counterexample`).  It shares the task, worker
and event vocabulary with `Model.lean`; only the client's `StartWork` decomposition and the
worker's last queue test differ.
-/
namespace RimeModel.C15.Old
open RimeModel.C15

/-- parking points of the client in the old `StartWork` -/
inductive CPc where
  | boundary
  | push (os : List Bool) (mode : Bool) (k : OpKind) (rk : RetKind)
  /-- `StartWork` entered, before the `IsWorking()` test -/
  | swEnter (mode : Bool) (k : OpKind) (rk : RetKind)
  /-- `IsWorking()` returned false; before `maintenance_mode_ = mode; if (pending_tasks_.empty())` -/
  | swChecked (mode : Bool) (k : OpKind) (rk : RetKind)
  /-- queue seen non-empty; before `work_ = std::async(...)` -/
  | swLaunch (k : OpKind) (rk : RetKind)
  deriving DecidableEq, Repr

structure State where
  script : List Op
  cpc : CPc
  queue : List Task
  worker : Worker
  flag : Bool
  nextId : Nat
  live : Nat
  log : List Ev
  deriving DecidableEq, Repr

def init (script : List Op) : State :=
  { script := script, cpc := .boundary, queue := [], worker := .idle, flag := false, nextId := 0,
    live := 0, log := [] }

def State.working (s : State) : Bool := s.worker.working
def State.maintMode (s : State) : Bool := s.flag && s.working
def State.ran (s : State) : List Task := s.log.filterMap Ev.task?
def State.scheduled (s : State) : List Task := s.log.filterMap Ev.sched?

def State.finishOp (s : State) (k : OpKind) (v : Nat) : State :=
  { s with cpc := .boundary, log := s.log ++ [.ret k v] }

def afterPush (os : List Bool) (mode : Bool) (k : OpKind) (rk : RetKind) : CPc :=
  match os with
  | [] => .swEnter mode k rk
  | _ :: _ => .push os mode k rk

/-- old `Run()`: `check` is the entry of `HasPendingTasks()`, which changes nothing -/
def workerStep (s : State) : Option State :=
  match s.worker with
  | .idle => none
  | .finished => none
  | .running .notifyStart f =>
      some { s with worker := .running .next f, log := s.log ++ [.note .start true] }
  | .running .next f =>
      match s.queue with
      | [] => some { s with worker := .running .notifyResult f }
      | t :: q => some { s with queue := q, worker := .running (.run t) f }
  | .running (.run t) f =>
      some { s with worker := .running .next (f || !t.ok), log := s.log ++ [.run t] }
  | .running .notifyResult f =>
      some { s with worker := .running .check f,
                    log := s.log ++ [.note (if f then .failure else .success) true] }
  | .running .check f =>
      match s.queue with
      | [] => some { s with worker := .running .exit f }
      | _ :: _ => some { s with worker := .running .next f }
  | .running .exit _ =>
      some { s with worker := .finished, log := s.log ++ [.done] }

def sessionOp (s : State) (o : OpKind) : Nat × Nat :=
  if s.maintMode then (s.live, 0)
  else match o with
    | .create => (s.live + 1, 1)
    | _ => (s.live, if s.live = 0 then 0 else 1)

def beginOp (s : State) (op : Op) (rest : List Op) : Option State :=
  let s := { s with script := rest }
  match op with
  | .maint os => some { s with cpc := afterPush os true .maint .always }
  | .maintNoChange => some (s.finishOp .maintNoChange 0)
  | .sync os => some { s with live := 0, cpc := afterPush os true .sync .result }
  | .recover o =>
      if s.working then some (s.finishOp .recover 0)
      else some { s with cpc := .push [o] false .recover .never }
  | .isMaint => some (s.finishOp .isMaint (if s.maintMode then 1 else 0))
  | .join =>
      if s.working then none
      else some ({ s with worker := .idle }.finishOp .join 2)
  | .create => some ({ s with live := (sessionOp s .create).1 }.finishOp .create (sessionOp s .create).2)
  | .find => some (s.finishOp .find (sessionOp s .find).2)
  | .ctx => some (s.finishOp .ctx (sessionOp s .ctx).2)
  | .setHandler => some (s.finishOp .setHandler 2)
  | _ => none   -- entry points added to `Model.lean` later are not part of this historic model

def clientStep (s : State) : Option State :=
  match s.cpc with
  | .boundary =>
      match s.script with
      | [] => none
      | op :: rest => beginOp s op rest
  | .push [] mode k rk => some { s with cpc := .swEnter mode k rk }
  | .push (o :: os) mode k rk =>
      some { s with queue := s.queue ++ [⟨s.nextId, o⟩], nextId := s.nextId + 1,
                    log := s.log ++ [.sched ⟨s.nextId, o⟩], cpc := afterPush os mode k rk }
  | .swEnter mode k rk =>
      if s.working then some (s.finishOp k (retVal rk false))   -- "a work thread is already running."
      else some { s with cpc := .swChecked mode k rk }
  | .swChecked mode k rk =>
      if s.queue.isEmpty then some ({ s with flag := mode }.finishOp k (retVal rk false))
      else some { s with flag := mode, cpc := .swLaunch k rk }
  | .swLaunch k rk =>
      some ({ s with worker := .running .notifyStart false }.finishOp k (retVal rk true))

def step (s : State) : Tid → Option State
  | .client => clientStep s
  | .worker => workerStep s

/-- run a schedule strictly (every entry must be enabled) -/
def runStrict (s : State) : List Tid → Option State
  | [] => some s
  | t :: ts => match step s t with
    | none => none
    | some s' => runStrict s' ts

/-- T violated: client between two calls, `is_maintenance_mode` would return false, and a
scheduled task has not run -/
def State.lostTask (s : State) : Bool :=
  (s.cpc == .boundary) && !s.maintMode && (s.scheduled != s.ran)

/-- the client script of the counterexample: `RimeStartMaintenance(True)`, `RimeSyncUserData()`,
`RimeIsMaintenancing()` -/
def oldScript : List Op := [.maint [true, true, true], .sync [true, true, true], .isMaint]

/-- the schedule: the client runs `start_maintenance` (7 segments); the worker runs its three
tasks, notifies, makes its last `HasPendingTasks()` and stops before returning from `Run()`
(10 segments); the client runs `sync_user_data` — three `ScheduleTask`s and a `StartWork` that
sees `IsWorking()` (5 segments); the worker returns (1); the client asks `is_maintenance_mode` -/
def oldSchedule : List Tid :=
  List.replicate 7 .client ++ List.replicate 10 .worker ++ List.replicate 5 .client ++ [.worker, .client]

end RimeModel.C15.Old
