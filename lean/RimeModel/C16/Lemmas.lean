import RimeModel.C16.Model
namespace RimeModel.C16
variable {σ ι ο : Type}

/-- the state of session `id` as a function of the events addressed to `id` alone -/
def track1 (fresh : σ) (step : σ → ι → σ × ο) (id : Nat) (acc : Option σ) : Event ι → Option σ
  | .create i => if i = id then (match acc with | none => some fresh | some a => some a) else acc
  | .destroy i => if i = id then none else acc
  | .call i op => if i = id then acc.map (fun st => (step st op).1) else acc

def track (fresh : σ) (step : σ → ι → σ × ο) (id : Nat) (acc : Option σ) (es : List (Event ι)) : Option σ :=
  es.foldl (track1 fresh step id) acc

theorem lookup_find (l : List (Nat × σ)) (id : Nat) :
    (Svc.mk l).lookup id = (l.find? (·.1 == id)).map (·.2) := by
  unfold Svc.lookup
  cases l.find? (·.1 == id) <;> rfl

theorem lookup_none_iff (s : Svc σ) (id : Nat) : s.lookup id = none ↔ s.live.contains id = false := by
  obtain ⟨l⟩ := s
  rw [lookup_find]
  unfold Svc.live
  induction l with
  | nil => simp
  | cons p ps ih =>
    simp only [List.find?_cons, List.map_cons, List.contains_cons]
    by_cases h : p.1 = id
    · simp [h]
    · have h' : (p.1 == id) = false := by simpa using h
      have h'' : (id == p.1) = false := by simpa using (fun e => h e.symm)
      simp only [h', h'', Bool.false_or]
      exact ih

theorem lookup_append_fresh (l : List (Nat × σ)) (id b : Nat) (v : σ) (hid : (Svc.mk l).live.contains id = false) :
    (Svc.mk (l ++ [(id, v)])).lookup b = if b = id then some v else (Svc.mk l).lookup b := by
  rw [lookup_find, lookup_find]
  by_cases hb : b = id
  · subst hb
    have hn : (Svc.mk l).lookup b = none := (lookup_none_iff _ _).mpr hid
    rw [lookup_find] at hn
    simp only [if_true]
    rw [List.find?_append]
    cases hf : l.find? (·.1 == b) with
    | none => simp
    | some p => rw [hf] at hn; simp at hn
  · simp only [hb, if_false]
    rw [List.find?_append]
    cases hf : l.find? (·.1 == b) with
    | none =>
      have : ((id == b) = false) := by simpa using (fun e => hb e.symm)
      simp [this]
    | some p => simp

theorem lookup_filter (l : List (Nat × σ)) (id b : Nat) :
    (Svc.mk (l.filter (·.1 != id))).lookup b = if b = id then none else (Svc.mk l).lookup b := by
  rw [lookup_find, lookup_find]
  induction l with
  | nil => simp
  | cons p ps ih =>
    by_cases hp : p.1 = id
    · have : (p.1 != id) = false := by simp [hp]
      simp only [List.filter_cons, this, Bool.false_eq_true, if_false]
      rw [ih]
      by_cases hb : b = id
      · simp [hb]
      · have : (p.1 == b) = false := by rw [hp]; simpa using (fun e => hb e.symm)
        simp [hb, List.find?_cons, this]
    · have : (p.1 != id) = true := by simp [hp]
      simp only [List.filter_cons, this, if_true, List.find?_cons]
      by_cases hpb : p.1 = b
      · have hbid : ¬ b = id := fun e => hp (hpb.trans e)
        simp [hpb, hbid]
      · have : (p.1 == b) = false := by simpa using hpb
        simp only [this]
        exact ih

theorem lookup_setAt (l : List (Nat × σ)) (id b : Nat) (v : σ) :
    (Svc.mk (setAt l id v)).lookup b =
      if b = id then ((Svc.mk l).lookup b).map (fun _ => v) else (Svc.mk l).lookup b := by
  rw [lookup_find, lookup_find]
  unfold setAt
  induction l with
  | nil => simp
  | cons p ps ih =>
    simp only [List.map_cons, List.find?_cons]
    by_cases hp : p.1 = id
    · have h1 : (p.1 == id) = true := by simp [hp]
      simp only [h1, if_true]
      by_cases hb : b = id
      · subst hb
        simp [h1]
      · have : (p.1 == b) = false := by rw [hp]; simpa using (fun e => hb e.symm)
        simp only [this, hb, if_false]
        simpa [hb] using ih
    · have h1 : (p.1 == id) = false := by simpa using hp
      simp only [h1, Bool.false_eq_true, if_false]
      by_cases hpb : p.1 = b
      · have hbid : ¬ b = id := fun e => hp (hpb.trans e)
        simp [hpb, hbid]
      · have : (p.1 == b) = false := by simpa using hpb
        simp only [this]
        exact ih

/-- **frame + own-step**: after one event, the state of every session id is what `track1` says: unchanged
unless the event is addressed to it -/
theorem step_lookup (fresh : σ) (step : σ → ι → σ × ο) (s : Svc σ) (e : Event ι) (b : Nat) :
    (Svc.step fresh step s e).1.lookup b = track1 fresh step b (s.lookup b) e := by
  obtain ⟨l⟩ := s
  cases e with
  | create id =>
    unfold Svc.step track1
    by_cases hc : (Svc.mk l).live.contains id = true
    · simp only [hc, if_true]
      by_cases hb : id = b
      · subst hb
        have : (Svc.mk l).lookup id ≠ none := by
          intro hn; rw [lookup_none_iff] at hn; rw [hn] at hc; simp at hc
        cases hl : (Svc.mk l).lookup id with
        | none => exact absurd hl this
        | some a => simp
      · simp [hb]
    · have hc' : (Svc.mk l).live.contains id = false := by simpa using hc
      simp only [hc', Bool.false_eq_true, if_false]
      rw [lookup_append_fresh l id b fresh hc']
      by_cases hb : b = id
      · subst hb
        have hn : (Svc.mk l).lookup b = none := (lookup_none_iff _ _).mpr hc'
        simp [hn]
      · have : ¬ id = b := fun e => hb e.symm
        simp [hb, this]
  | destroy id =>
    unfold Svc.step track1
    by_cases hc : (Svc.mk l).live.contains id = true
    · simp only [hc, if_true]
      rw [lookup_filter]
      by_cases hb : b = id
      · simp [hb]
      · have : ¬ id = b := fun e => hb e.symm
        simp [hb, this]
    · have hc' : (Svc.mk l).live.contains id = false := by simpa using hc
      simp only [hc', Bool.false_eq_true, if_false]
      by_cases hb : id = b
      · subst hb
        have hn : (Svc.mk l).lookup id = none := (lookup_none_iff _ _).mpr hc'
        simp [hn]
      · simp [hb]
  | call id op =>
    unfold Svc.step track1
    cases hl : (Svc.mk l).lookup id with
    | none =>
      simp only [hl]
      by_cases hb : id = b
      · subst hb; simp [hl]
      · simp [hb]
    | some st =>
      simp only [hl]
      rw [lookup_setAt]
      by_cases hb : b = id
      · subst hb; simp [hl]
      · have : ¬ id = b := fun e => hb e.symm
        simp [hb, this]

end RimeModel.C16
