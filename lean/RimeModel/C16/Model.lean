/-!
C16 — the service as a map from session ids to independent session cores (service.cc:85-147,
rime_api_impl.h: every entry point looks the session up first).  Generic in the session state `σ`,
its operations `ι`, observations `ο` and step function; instantiated with the M-session model by the
driver (`σ := Ctx`, `step := apiStep env`).
-/
namespace RimeModel.C16

/-- what the client does: create a session (the allocator hands out `id`), destroy one, call one -/
inductive Event (ι : Type) where
  | create (id : Nat)
  | destroy (id : Nat)
  | call (id : Nat) (op : ι)
  deriving Repr

/-- what the client sees: `refused` = the call was rejected because the id is not live -/
inductive Out (ο : Type) where
  | created (ok : Bool)
  | destroyed (ok : Bool)
  | obs (o : ο)
  | refused
  deriving Repr, DecidableEq

structure Svc (σ : Type) where
  sessions : List (Nat × σ) := []      -- Service::sessions_, keyed by id

variable {σ ι ο : Type}

def Svc.lookup (s : Svc σ) (id : Nat) : Option σ :=
  match s.sessions.find? (·.1 == id) with
  | some p => some p.2
  | none => none

def Svc.live (s : Svc σ) : List Nat := s.sessions.map (·.1)

def setAt (l : List (Nat × σ)) (id : Nat) (v : σ) : List (Nat × σ) :=
  l.map (fun p => if p.1 == id then (p.1, v) else p)

/-- one client event.  `fresh` is the state of a new session; `step` the session's own transition.
`create id` models `CreateSession` returning the address `id`: the allocator never returns an address
that is still in use, which is the event well-formedness condition `WF` below — the model refuses
(returns `created false`) otherwise, so the theorems need no side condition on traces. -/
def Svc.step (fresh : σ) (step : σ → ι → σ × ο) (s : Svc σ) : Event ι → Svc σ × Out ο
  | .create id =>
    if s.live.contains id then (s, .created false)
    else ({ sessions := s.sessions ++ [(id, fresh)] }, .created true)
  | .destroy id =>
    if s.live.contains id then ({ sessions := s.sessions.filter (·.1 != id) }, .destroyed true)
    else (s, .destroyed false)
  | .call id op =>
    match s.lookup id with
    | none => (s, .refused)
    | some st => let r := step st op; ({ sessions := setAt s.sessions id r.1 }, .obs r.2)

/-- run a trace, collecting outputs -/
def Svc.run (fresh : σ) (step : σ → ι → σ × ο) : Svc σ → List (Event ι) → Svc σ × List (Out ο)
  | s, [] => (s, [])
  | s, e :: es =>
    let r := Svc.step fresh step s e
    let rest := Svc.run fresh step r.1 es
    (rest.1, r.2 :: rest.2)

/-- a session run alone: its state after its own ops -/
def solo (fresh : σ) (step : σ → ι → σ × ο) (ops : List ι) : σ := ops.foldl (fun st op => (step st op).1) fresh

/-- the ops addressed to the *current incarnation* of `id` in a trace: everything since its last
successful creation (and `none` if it is not live at the end) -/
def project (id : Nat) : List (Event ι) → Option (List ι) → Option (List ι)
  | [], acc => acc
  | .create i :: es, acc => if i = id then (match acc with | none => project id es (some []) | some a => project id es (some a)) else project id es acc
  | .destroy i :: es, acc => if i = id then project id es none else project id es acc
  | .call i op :: es, acc => if i = id then project id es (acc.map (· ++ [op])) else project id es acc

end RimeModel.C16
