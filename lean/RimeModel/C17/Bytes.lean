/-!
C17 — byte-string toolkit used by the user-db model.

A byte is modelled as a `Nat` (the driver converts from/to `UInt8`); every function is total and
structurally recursive so that it reduces under `decide`.  The functions mirror the C/C++ library
calls the librime code makes:

* `splitOn`      — `boost::split(out, s, is_any_of(<one char>))` (token_compress_off): n separators
                   give n+1 fields, the empty string gives one empty field
* `trimRight`/`trimLeft`/`trim` — `boost::algorithm::trim_right/trim` in the classic locale
* `linesOf`      — repeated `std::getline(fin, line)`
* `showNat`/`showInt` — `operator<<(int / unsigned long)`, `std::to_string`
* `stoi`/`stoul` — `std::stoi`, `std::stoul` (base 10): skip `isspace`, optional sign, at least one
                   digit, trailing garbage ignored, `none` = the call throws
-/
namespace RimeModel.C17

abbrev Bytes := List Nat

/-- `isspace` in the "C" locale: space, \t \n \v \f \r -/
def isSpace (c : Nat) : Bool := c == 32 || (9 ≤ c && c ≤ 13)

def isDigit (c : Nat) : Bool := 48 ≤ c && c ≤ 57

/-- one-separator `boost::split` -/
def splitOn (sep : Nat) : Bytes → List Bytes
  | [] => [[]]
  | c :: cs =>
    if c = sep then [] :: splitOn sep cs
    else match splitOn sep cs with
      | [] => [[c]]
      | f :: fs => (c :: f) :: fs

def joinWith (sep : Nat) : List Bytes → Bytes
  | [] => []
  | [a] => a
  | a :: b :: r => a ++ sep :: joinWith sep (b :: r)

def trimRight : Bytes → Bytes
  | [] => []
  | c :: cs =>
    match trimRight cs with
    | [] => if isSpace c then [] else [c]
    | r :: rs => c :: r :: rs

def trimLeft : Bytes → Bytes
  | [] => []
  | c :: cs => if isSpace c then trimLeft cs else c :: cs

def trim (s : Bytes) : Bytes := trimRight (trimLeft s)

def dropLastEmpty : List Bytes → List Bytes
  | [] => []
  | [l] => if l = [] then [] else [l]
  | l :: m :: r => l :: dropLastEmpty (m :: r)

/-- the sequence of strings successive `getline` calls return on a file with this content -/
def linesOf (file : Bytes) : List Bytes := dropLastEmpty (splitOn 10 file)

/-- every line followed by `std::endl` -/
def unlines : List Bytes → Bytes
  | [] => []
  | l :: r => l ++ 10 :: unlines r

def startsWith (p s : Bytes) : Bool := p.isPrefixOf s

/-! ### decimal output -/

def natDigits : Nat → Nat → Bytes → Bytes
  | 0, _, acc => acc
  | fuel + 1, n, acc =>
    if n / 10 = 0 then (48 + n % 10) :: acc
    else natDigits fuel (n / 10) ((48 + n % 10) :: acc)

def showNat (n : Nat) : Bytes := natDigits (n + 1) n []

def showInt (i : Int) : Bytes :=
  if i < 0 then 45 :: showNat i.natAbs else showNat i.natAbs

/-! ### decimal input with the leniency of strtol / strtoul -/

def skipWs : Bytes → Bytes
  | [] => []
  | c :: cs => if isSpace c then skipWs cs else c :: cs

/-- value of the leading run of decimal digits, starting from `acc` -/
def digitsVal (acc : Nat) : Bytes → Nat
  | [] => acc
  | c :: cs => if isDigit c then digitsVal (acc * 10 + (c - 48)) cs else acc

/-- optional sign: (negative?, rest) -/
def takeSign : Bytes → Bool × Bytes
  | 45 :: r => (true, r)
  | 43 :: r => (false, r)
  | s => (false, s)

def headIsDigit : Bytes → Bool
  | c :: _ => isDigit c
  | [] => false

def intMin : Int := -2147483648
def intMax : Int := 2147483647
def ulongLim : Nat := 18446744073709551616

/-- `std::stoi(s)`; `none` = throws (`invalid_argument` or `out_of_range`) -/
def stoi (s : Bytes) : Option Int :=
  let p := takeSign (skipWs s)
  if headIsDigit p.2 then
    let n : Int := (digitsVal 0 p.2 : Nat)
    let v : Int := if p.1 then -n else n
    if intMin ≤ v ∧ v ≤ intMax then some v else none
  else none

/-- `std::stoul(s)` on LP64; a minus sign negates in `unsigned long` as `strtoul` does -/
def stoul (s : Bytes) : Option Nat :=
  let p := takeSign (skipWs s)
  if headIsDigit p.2 then
    let n := digitsVal 0 p.2
    if n < ulongLim then some (if p.1 then (ulongLim - n) % ulongLim else n) else none
  else none

/-- split at the first `=`: `some (k, v)`; `none` when there is no `=` -/
def splitEq : Bytes → Option (Bytes × Bytes)
  | [] => none
  | c :: cs =>
    if c = 61 then some ([], cs)
    else match splitEq cs with
      | none => none
      | some (k, v) => some (c :: k, v)

/-- unsigned lexicographic order (LevelDB's BytewiseComparator, `std::map<string,…>`) -/
def bytesLt : Bytes → Bytes → Bool
  | _, [] => false
  | [], _ :: _ => true
  | a :: as, b :: bs => if a < b then true else if b < a then false else bytesLt as bs

/-- index of the last occurrence of `pat` in `s` (`boost::find_last`) -/
def findLastFrom (pat : Bytes) : Bytes → Nat → Option Nat → Option Nat
  | [], i, best => if pat.isPrefixOf [] then some i else best
  | c :: cs, i, best =>
    findLastFrom pat cs (i + 1) (if pat.isPrefixOf (c :: cs) then some i else best)

def findLast (pat s : Bytes) : Option Nat := findLastFrom pat s 0 none

end RimeModel.C17
