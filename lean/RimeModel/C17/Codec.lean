import RimeModel.C17.Lemmas
/-! C17 — laws assumed of the abstract dee operations, and the value-codec round trip. -/
namespace RimeModel.C17

/-- What the theorems assume of `ostream << double`, `min(10000, stod)`, `<` and the decay.
`norm d` is the value read back from the text written for `d` (six significant digits, capped).
For IEEE doubles with the codec of the current source these hold on finite non-NaN values; before commit
8bf60d2 `read_render` failed on subnormal numbers — see `C17.old_stod_idempotent_counterexample`. -/
structure LawfulDee {D : Type} (O : DeeOps D) where
  norm : D → D
  lt_irrefl : ∀ a, O.lt a a = false
  lt_trans : ∀ a b c, O.lt a b = true → O.lt b c = true → O.lt a c = true
  lt_connex : ∀ a b, O.lt a b = false → O.lt b a = false → a = b
  /-- the text contains no blank (so it stays one token, one TSV column, one line) -/
  render_clean : ∀ d, ∀ c ∈ O.render d, isSpace c = false
  /-- what is written can be read, and yields the normalised value -/
  read_render : ∀ d, O.read (O.render d) = some (norm d)
  norm_idem : ∀ d, norm (norm d) = norm d
  /-- reading back is monotone -/
  norm_mono : ∀ a b, O.lt b a = false → O.lt (norm b) (norm a) = false
  /-- values that were read, the default, and decayed values print the same before and after a write/read cycle
  (they are within the cap) -/
  stable_read : ∀ s d, O.read s = some d → O.render (norm d) = O.render d
  stable_zero : O.render (norm O.zero) = O.render O.zero
  /-- decaying forward in time (the only way the code calls it: `if (v.tick < tick) …`) stays within the cap -/
  stable_decay : ∀ d a t, a < t → O.render (norm d) = O.render d →
    O.render (norm (O.decay d a t)) = O.render (O.decay d a t)

variable {D : Type} {O : DeeOps D}

/-- a count `std::stoi` can return -/
def IntRange (c : Int) : Prop := intMin ≤ c ∧ c ≤ intMax

theorem stoi_range {s : Bytes} {c : Int} (h : stoi s = some c) : IntRange c := by
  simp only [stoi] at h
  by_cases hd : headIsDigit (takeSign (skipWs s)).2 = true
  · simp only [hd, if_true] at h
    split at h <;> (simp at h; obtain ⟨hr, rfl⟩ := h; exact hr)
  · simp [hd] at h

theorem stoul_range {s : Bytes} {t : Nat} (h : stoul s = some t) : t < ulongLim := by
  simp only [stoul] at h
  by_cases hd : headIsDigit (takeSign (skipWs s)).2 = true
  · simp only [hd, if_true] at h
    by_cases hn : digitsVal 0 (takeSign (skipWs s)).2 < ulongLim
    · simp only [hn, if_true, Option.some.injEq] at h
      subst h
      split
      · exact Nat.mod_lt _ (by decide)
      · exact hn
    · simp [hn] at h
  · simp [hd] at h

theorem splitEq_kv (k : Nat) (hk : k ≠ 61) (x : Bytes) : splitEq (k :: 61 :: x) = some ([k], x) := by
  simp [splitEq, hk]

theorem pack_tokens (L : LawfulDee O) (v : Value D) :
    splitOn 32 (pack O v) =
      [[99, 61] ++ showInt v.commits, [100, 61] ++ O.render v.dee, [116, 61] ++ showNat v.tick] := by
  have h1 : (32 : Nat) ∉ [99, 61] ++ showInt v.commits := by
    simp only [List.mem_append, not_or]
    exact ⟨by decide, showInt_no 32 (by decide) (by decide) _⟩
  have h2 : (32 : Nat) ∉ [100, 61] ++ O.render v.dee := by
    simp only [List.mem_append, not_or]
    refine ⟨by decide, fun hm => ?_⟩
    have := L.render_clean _ _ hm
    simp [isSpace] at this
  have h3 : (32 : Nat) ∉ [116, 61] ++ showNat v.tick := by
    simp only [List.mem_append, not_or]
    exact ⟨by decide, showNat_no 32 (by decide) _⟩
  have e : pack O v = ([99, 61] ++ showInt v.commits) ++ 32 ::
      (([100, 61] ++ O.render v.dee) ++ 32 :: ([116, 61] ++ showNat v.tick)) := by
    simp [pack]
  rw [e, splitOn_append _ _ _ h1, splitOn_append _ _ _ h2, splitOn_nosep _ _ h3]

/-- `Unpack(Pack(v))` on any object: every field is overwritten; dee comes back normalised -/
theorem unpackInto_pack (L : LawfulDee O) (v0 v : Value D) (hc : IntRange v.commits) (ht : v.tick < ulongLim) :
    unpackInto O v0 (pack O v) = (⟨v.commits, L.norm v.dee, v.tick⟩, true) := by
  unfold unpackInto
  rw [pack_tokens L v]
  simp only [unpackToks, unpackTok, List.cons_append, List.nil_append]
  rw [splitEq_kv 99 (by decide), splitEq_kv 100 (by decide), splitEq_kv 116 (by decide)]
  simp [stoi_showInt _ hc.1 hc.2, L.read_render, stoul_showNat _ ht]

theorem unpack_pack_eq (L : LawfulDee O) (v : Value D) (hc : IntRange v.commits) (ht : v.tick < ulongLim) :
    unpack O (pack O v) = ⟨v.commits, L.norm v.dee, v.tick⟩ := by
  unfold unpack
  rw [unpackInto_pack L _ v hc ht]

end RimeModel.C17
