import RimeModel.C17.Model
/-!
C17 — the `DeeOps` instance the *driver* runs: `dee` as an IEEE double (`Float`), with
`render` = `ostream << double` (`%.6g`, computed exactly from the bits of the double) and
`read` = `min(10000.0, strtod(v))` with the leniency of glibc `strtod` (correctly rounded, computed in
exact rational arithmetic); it fails only when nothing can be converted.  Nothing is proved about this instance (Float operations are opaque to the kernel);
the theorems of Props/C17 hold for every lawful `DeeOps`, and this instance is only ever *compared*
with the real code by the correspondence check (dee values numerically, never as text).

Not modelled: hexadecimal floating literals ("0x1p3"); the generator never emits them.
-/
namespace RimeModel.C17.FloatDee

def pow10 (k : Nat) : Nat := 10 ^ k

/-- exact decomposition of a finite double: (negative?, m, e) with |x| = m · 2^e -/
def decode (x : Float) : Bool × Nat × Int :=
  let b := x.toBits.toNat
  let sign := b / 2 ^ 63 == 1
  let ex : Nat := (b / 2 ^ 52) % 2048
  let fr : Nat := b % 2 ^ 52
  if ex == 0 then (sign, fr, -1074) else (sign, fr + 2 ^ 52, (ex : Int) - 1075)

def numDigits (n : Nat) : Nat := (showNat n).length

/-- smallest k ≤ fuel with p·10^k ≥ q -/
def scaleUp : Nat → Nat → Nat → Nat → Nat
  | 0, _, _, k => k
  | fuel + 1, p, q, k => if p ≥ q then k else scaleUp fuel (p * 10) q (k + 1)

def stripZeros (ds : Bytes) : Bytes := (ds.reverse.dropWhile (· == 48)).reverse

def pad2 (n : Nat) : Bytes := if n < 10 then 48 :: showNat n else showNat n

/-- `%.6g` of a positive finite value p/q -/
def fmtPos (p q : Nat) : Bytes :=
  let e10 : Int := if p ≥ q then (numDigits (p / q) : Int) - 1 else -((scaleUp 400 p q 0 : Nat) : Int)
  let num := if e10 ≤ 5 then p * pow10 (5 - e10).toNat else p
  let den := if e10 ≤ 5 then q else q * pow10 (e10 - 5).toNat
  let qd := num / den
  let r := num % den
  let m := if 2 * r > den || (2 * r == den && qd % 2 == 1) then qd + 1 else qd
  let (m, e10) := if m ≥ 1000000 then (m / 10, e10 + 1) else (m, e10)
  let ds := showNat m   -- six digits
  if e10 < -4 || e10 ≥ 6 then
    let frac := stripZeros (ds.drop 1)
    ds.take 1 ++ (if frac.isEmpty then [] else 46 :: frac) ++ [101] ++
      (if e10 < 0 then 45 :: pad2 (-e10).toNat else 43 :: pad2 e10.toNat)
  else if e10 ≥ 0 then
    let k := e10.toNat + 1
    let frac := stripZeros (ds.drop k)
    ds.take k ++ (if frac.isEmpty then [] else 46 :: frac)
  else
    let frac := stripZeros (List.replicate ((-e10).toNat - 1) 48 ++ ds)
    [48, 46] ++ frac

/-- `ostream << double` with the default precision 6 -/
def render (x : Float) : Bytes :=
  let (neg, m, e) := decode x
  let sgn : Bytes := if neg then [45] else []
  if x.isNaN then sgn ++ [110, 97, 110]
  else if x.isInf then sgn ++ [105, 110, 102]
  else if m == 0 then sgn ++ [48]
  else sgn ++ (if e ≥ 0 then fmtPos (m * 2 ^ e.toNat) 1 else fmtPos m (2 ^ (-e).toNat))

def takeDigits : Bytes → Bytes × Bytes
  | [] => ([], [])
  | c :: cs => if isDigit c then let r := takeDigits cs; (c :: r.1, r.2) else ([], c :: cs)

def lower (c : Nat) : Nat := if 65 ≤ c && c ≤ 90 then c + 32 else c

/-- the double nearest to num/den (round half to even), num, den > 0; ±inf on overflow, subnormals and 0 on underflow -/
def ratToFloat (num den : Nat) : Float :=
  -- exponent of the leading bit, within one
  let lb : Int := (num.log2 : Int) - (den.log2 : Int)
  let round (e2 : Int) : Nat :=
    let n := if e2 < 0 then num * 2 ^ (-e2).toNat else num
    let d := if e2 < 0 then den else den * 2 ^ e2.toNat
    let q := n / d
    let r := n % d
    if 2 * r > d || (2 * r == d && q % 2 == 1) then q + 1 else q
  let e2 : Int := max (lb - 53) (-1074)
  let n := round e2
  -- at most two renormalisations bring n below 2^53
  let (n, e2) := if n ≥ 2 ^ 53 && true then (round (e2 + 1), e2 + 1) else (n, e2)
  let (n, e2) := if n ≥ 2 ^ 53 then (round (e2 + 1), e2 + 1) else (n, e2)
  let (n, e2) := if n ≥ 2 ^ 53 then (n / 2, e2 + 1) else (n, e2)
  if e2 > 1100 then 1.0 / 0.0 else (UInt64.ofNat n).toFloat.scaleB e2

/-- `strtod` on the longest valid prefix; `none` = no conversion (`end == begin`).  Overflow gives ±HUGE_VAL,
underflow a subnormal or zero (the code no longer looks at ERANGE). -/
def strtod (s : Bytes) : Option Float :=
  let p := takeSign (skipWs s)
  let neg := p.1
  let body := p.2
  let sg (x : Float) : Float := if neg then -x else x
  let low := (body.take 3).map lower
  if low == [105, 110, 102] then some (sg (1.0 / 0.0))
  else if low == [110, 97, 110] then some (sg (0.0 / 0.0))
  else
    let (ip, r1) := takeDigits body
    let (fp, r2) := match r1 with
      | 46 :: r => takeDigits r
      | _ => ([], r1)
    if ip.isEmpty && fp.isEmpty then none
    else
      let ex : Int := match r2 with
        | c :: r =>
          if c == 101 || c == 69 then
            let q := takeSign r
            if headIsDigit q.2 then
              let n : Int := (digitsVal 0 q.2 : Nat)
              if q.1 then -n else n
            else 0
          else 0
        | [] => 0
      let mant := digitsVal 0 (ip ++ fp)
      let e : Int := ex - fp.length
      if mant == 0 then some (sg 0.0)
      else if e ≥ 0 then
        if e > 400 then some (sg (1.0 / 0.0)) else some (sg (ratToFloat (mant * pow10 e.toNat) 1))
      else
        let k := (-e).toNat
        if k > 420 + numDigits mant then some (sg 0.0) else some (sg (ratToFloat mant (pow10 k)))

/-- `(std::min)(10000.0, d)` = `(d < 10000.0) ? d : 10000.0` with `d` from `strtod`; `none` = nothing converted -/
def read (s : Bytes) : Option Float := (strtod s).map fun x => if x < 10000.0 then x else 10000.0

def natToFloat (n : Nat) : Float := (UInt64.ofNat n).toFloat

def ops : DeeOps Float where
  zero := 0.0
  lt := fun a b => a < b
  decay := fun da ta t => 0.0 + da * Float.exp ((natToFloat ta - natToFloat t) / 200.0)
  render := render
  read := read
  ofCount := fun c => Float.ofInt (c + 1) / 100000000.0

/-- exact, text-free rendering for the line protocol: `<-?><mant>p<exp>` | `nan` | `inf` | `-inf` -/
def exact (x : Float) : String :=
  if x.isNaN then "nan"
  else
    let (neg, m, e) := decode x
    if x.isInf then (if neg then "-inf" else "inf")
    else (if neg then "-" else "") ++ toString m ++ "p" ++ toString e

end RimeModel.C17.FloatDee
