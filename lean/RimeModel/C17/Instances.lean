import RimeModel.C17.MergeFacts
import RimeModel.C17.RestoreLemmas
/-! C17 — two small exact instances of the dee operations.

* `natDee`  : dee as a natural number (think: units of 1e-6), decimal text, cap 10000, decay = halving per
              tick.  Proved lawful (`natLawful`): shows the hypotheses of the theorems are satisfiable, and is
              the instance the non-vacuity examples and the `old_…` counterexamples compute with.
* `oldDee`  : the same except that `read` rejects the texts "1" … "7" — the shape of the defect of the codec
              before commit 8bf60d2, where `std::stod` rejected the subnormal numbers `Pack` could write. -/
namespace RimeModel.C17

def natRead (s : Bytes) : Option Nat := if headIsDigit s then some (min (digitsVal 0 s) 10000) else none

def natDee : DeeOps Nat where
  zero := 0
  lt := fun a b => decide (a < b)
  decay := fun d ta t => d / 2 ^ (t - ta)
  render := showNat
  read := natRead
  ofCount := fun c => (c + 1).toNat

theorem showNat_inj {a b : Nat} (h : showNat a = showNat b) : a = b := by
  have := congrArg (digitsVal 0) h
  simpa [digitsVal_showNat] using this

def natLawful : LawfulDee natDee where
  norm := fun d => min d 10000
  lt_irrefl := by intro a; simp [natDee]
  lt_trans := by intro a b c; simp [natDee]; omega
  lt_connex := by intro a b; simp [natDee]; omega
  render_clean := by
    intro d c hc
    exact isDigit_not_space (showNat_digits d c hc)
  read_render := by
    intro d
    have hh : headIsDigit (showNat d) = true := by simpa using showNat_head d []
    simp [natDee, natRead, hh, digitsVal_showNat]
  norm_idem := by intro d; omega
  norm_mono := by intro a b; simp only [natDee, decide_eq_false_iff_not]; omega
  stable_read := by
    intro s d h
    simp only [natDee, natRead] at h
    split at h
    · simp only [Option.some.injEq] at h
      have : min d 10000 = d := by omega
      simp [natDee, this]
    · simp at h
  stable_zero := by simp [natDee]
  stable_decay := by
    intro d a t _ h
    have hd : min d 10000 = d := showNat_inj h
    have : d / 2 ^ (t - a) ≤ d := Nat.div_le_self _ _
    have h2 : min (d / 2 ^ (t - a)) 10000 = d / 2 ^ (t - a) := by omega
    simp [natDee, h2]

/-- `read` refuses the band 1..7 although `render` can produce it -/
def oldRead (s : Bytes) : Option Nat :=
  match natRead s with
  | some d => if 0 < d ∧ d < 8 then none else some d
  | none => none

def oldDee : DeeOps Nat := { natDee with read := oldRead }

end RimeModel.C17
