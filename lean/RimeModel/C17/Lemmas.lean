import RimeModel.C17.Model
/-! C17 — helper lemmas: byte-string toolkit, decimal codec round trips, store laws. -/
namespace RimeModel.C17

/-! ### splitOn -/

theorem splitOn_ne_nil (sep : Nat) (s : Bytes) : splitOn sep s ≠ [] := by
  induction s with
  | nil => simp [splitOn]
  | cons c cs ih =>
    unfold splitOn
    split
    · simp
    · split <;> simp

theorem splitOn_nosep (sep : Nat) (a : Bytes) (h : sep ∉ a) : splitOn sep a = [a] := by
  induction a with
  | nil => simp [splitOn]
  | cons c cs ih =>
    have hc : c ≠ sep := fun e => h (by simp [e])
    have hcs : sep ∉ cs := fun e => h (by simp [e])
    unfold splitOn
    simp [hc, ih hcs]

theorem splitOn_append (sep : Nat) (a b : Bytes) (h : sep ∉ a) :
    splitOn sep (a ++ sep :: b) = a :: splitOn sep b := by
  induction a with
  | nil => simp [splitOn]
  | cons c cs ih =>
    have hc : c ≠ sep := fun e => h (by simp [e])
    have hcs : sep ∉ cs := fun e => h (by simp [e])
    simp only [List.cons_append, splitOn, hc, if_false, ih hcs]

/-! ### decimal output / input -/

theorem natDigits_head (fuel n : Nat) (acc : Bytes) :
    headIsDigit (natDigits (fuel + 1) n acc) = true := by
  induction fuel generalizing n acc with
  | zero =>
    unfold natDigits
    split
    · simp [headIsDigit, isDigit]; omega
    · simp [natDigits, headIsDigit, isDigit]; omega
  | succ f ih =>
    unfold natDigits
    split
    · simp [headIsDigit, isDigit]; omega
    · exact ih _ _

theorem digitsVal_natDigits (fuel n : Nat) (rest : Bytes) (hf : n < fuel) :
    digitsVal 0 (natDigits fuel n rest) = digitsVal n rest := by
  induction fuel generalizing n rest with
  | zero => omega
  | succ f ih =>
    unfold natDigits
    split
    next h0 =>
      have : isDigit (48 + n % 10) = true := by simp [isDigit]; omega
      simp only [digitsVal, this, if_true]
      congr 1
      omega
    next h0 =>
      have hlt : n / 10 < f := by omega
      rw [ih (n / 10) _ hlt]
      have : isDigit (48 + n % 10) = true := by simp [isDigit]; omega
      simp only [digitsVal, this, if_true]
      congr 1
      omega

theorem natDigits_all_digits (fuel n : Nat) (acc : Bytes) (h : ∀ c ∈ acc, isDigit c = true) :
    ∀ c ∈ natDigits fuel n acc, isDigit c = true := by
  induction fuel generalizing n acc with
  | zero => simpa [natDigits] using h
  | succ f ih =>
    have hd : isDigit (48 + n % 10) = true := by simp [isDigit]; omega
    unfold natDigits
    split
    · intro c hc
      rcases List.mem_cons.mp hc with rfl | hc
      · exact hd
      · exact h c hc
    · apply ih
      intro c hc
      rcases List.mem_cons.mp hc with rfl | hc
      · exact hd
      · exact h c hc

theorem showNat_digits (n : Nat) : ∀ c ∈ showNat n, isDigit c = true :=
  natDigits_all_digits _ _ _ (by simp)

theorem showNat_head (n : Nat) (r : Bytes) : headIsDigit (showNat n ++ r) = true := by
  have h := natDigits_head n n []
  unfold showNat
  cases hd : natDigits (n + 1) n [] with
  | nil => simp [hd, headIsDigit] at h
  | cons c cs => simpa [hd, headIsDigit] using h

theorem showNat_ne_nil (n : Nat) : showNat n ≠ [] := by
  have h := showNat_head n []
  intro e
  simp [e, headIsDigit] at h

theorem digitsVal_append_digits (acc : Nat) (ds rest : Bytes) (h : ∀ c ∈ ds, isDigit c = true) :
    digitsVal acc (ds ++ rest) = digitsVal (digitsVal acc ds) rest := by
  induction ds generalizing acc with
  | nil => simp [digitsVal]
  | cons c cs ih =>
    have hc : isDigit c = true := h c (by simp)
    simp only [List.cons_append, digitsVal, hc, if_true]
    exact ih _ (fun x hx => h x (by simp [hx]))

theorem digitsVal_showNat (n : Nat) : digitsVal 0 (showNat n) = n := by
  have := digitsVal_natDigits (n + 1) n [] (by omega)
  simpa [showNat, digitsVal] using this

theorem isDigit_not_space {c : Nat} (h : isDigit c = true) : isSpace c = false := by
  simp [isDigit] at h
  simp [isSpace]
  omega

theorem skipWs_of_head {s : Bytes} (h : headIsDigit s = true) : skipWs s = s := by
  cases s with
  | nil => rfl
  | cons c cs =>
    simp [headIsDigit] at h
    simp [skipWs, isDigit_not_space h]

theorem takeSign_cons (c : Nat) (cs : Bytes) (h1 : c ≠ 45) (h2 : c ≠ 43) :
    takeSign (c :: cs) = (false, c :: cs) := by
  unfold takeSign
  split
  · simp_all
  · simp_all
  · rfl

theorem takeSign_of_head {s : Bytes} (h : headIsDigit s = true) : takeSign s = (false, s) := by
  cases s with
  | nil => rfl
  | cons c cs =>
    simp [headIsDigit, isDigit] at h
    exact takeSign_cons c cs (by omega) (by omega)

theorem stoul_showNat (t : Nat) (h : t < ulongLim) : stoul (showNat t) = some t := by
  have hh : headIsDigit (showNat t) = true := by simpa using showNat_head t []
  unfold stoul
  simp [skipWs_of_head hh, takeSign_of_head hh, hh, digitsVal_showNat, h]

theorem stoi_showInt (c : Int) (h1 : intMin ≤ c) (h2 : c ≤ intMax) : stoi (showInt c) = some c := by
  unfold showInt
  split
  next hneg =>
    have hh : headIsDigit (showNat c.natAbs) = true := by simpa using showNat_head c.natAbs []
    unfold stoi
    simp only [skipWs, isSpace, takeSign]
    have : ((c.natAbs : Nat) : Int) = -c := by omega
    simp [hh, digitsVal_showNat, this, h1, h2]
  next hpos =>
    have hh : headIsDigit (showNat c.natAbs) = true := by simpa using showNat_head c.natAbs []
    unfold stoi
    have : ((c.natAbs : Nat) : Int) = c := by omega
    simp [skipWs_of_head hh, takeSign_of_head hh, hh, digitsVal_showNat, this, h1, h2]

theorem showInt_no (x : Nat) (hx : isDigit x = false) (h45 : x ≠ 45) (c : Int) : x ∉ showInt c := by
  unfold showInt
  split
  · intro hm
    rcases List.mem_cons.mp hm with e | hm
    · exact h45 e
    · have := showNat_digits _ x hm
      simp [hx] at this
  · intro hm
    have := showNat_digits _ x hm
    simp [hx] at this

theorem showNat_no (x : Nat) (hx : isDigit x = false) (n : Nat) : x ∉ showNat n := by
  intro hm
  have := showNat_digits _ x hm
  simp [hx] at this

/-! ### lines -/

theorem dropLastEmpty_append_nil (ls : List Bytes) : dropLastEmpty (ls ++ [[]]) = ls := by
  induction ls with
  | nil => simp [dropLastEmpty]
  | cons l r ih =>
    cases r with
    | nil => simp [dropLastEmpty]
    | cons m r' =>
      simp only [List.cons_append] at ih ⊢
      simp [dropLastEmpty, ih]

theorem splitOn_unlines (ls : List Bytes) (h : ∀ l ∈ ls, 10 ∉ l) :
    splitOn 10 (unlines ls) = ls ++ [[]] := by
  induction ls with
  | nil => simp [unlines, splitOn]
  | cons l r ih =>
    have hl : 10 ∉ l := h l (by simp)
    have hr : ∀ x ∈ r, 10 ∉ x := fun x hx => h x (by simp [hx])
    simp [unlines, splitOn_append 10 l _ hl, ih hr]

theorem linesOf_unlines (ls : List Bytes) (h : ∀ l ∈ ls, 10 ∉ l) : linesOf (unlines ls) = ls := by
  simp [linesOf, splitOn_unlines ls h, dropLastEmpty_append_nil]

/-! ### trimRight -/

theorem trimRight_append_last (a : Bytes) (c : Nat) (hc : isSpace c = false) :
    trimRight (a ++ [c]) = a ++ [c] := by
  induction a with
  | nil => simp [trimRight, hc]
  | cons x xs ih =>
    simp only [List.cons_append, trimRight, ih]
    cases xs <;> simp

/-! ### the store -/

theorem fetch_update (db : Db) (k v k' : Bytes) :
    (db.update k v).fetch k' = if k' = k then some v else db.fetch k' := by
  induction db with
  | nil =>
    simp only [Db.update, Db.fetch]
    by_cases h : k = k'
    · simp [h]
    · have : ¬ k' = k := fun e => h e.symm
      simp [h, this]
  | cons e r ih =>
    obtain ⟨ke, ve⟩ := e
    simp only [Db.update]
    split
    next hk =>
      subst hk
      simp only [Db.fetch]
      by_cases h : ke = k'
      · simp [h]
      · have : ¬ k' = ke := fun e => h e.symm
        simp [h, this]
    next hk =>
      split
      · simp only [Db.fetch]
        by_cases h : k = k'
        · simp [h]
        · have : ¬ k' = k := fun e => h e.symm
          simp [h, this]
      · simp only [Db.fetch, ih]
        by_cases h : ke = k'
        · have : ¬ k' = k := fun e => hk (by rw [h, e])
          simp [h, this]
        · simp [h]

theorem fetch_update_same (db : Db) (k v : Bytes) : (db.update k v).fetch k = some v := by
  simp [fetch_update]

theorem fetch_update_other (db : Db) (k v k' : Bytes) (h : k' ≠ k) : (db.update k v).fetch k' = db.fetch k' := by
  simp [fetch_update, h]

theorem fetch_mem {db : Db} {k v : Bytes} (h : db.fetch k = some v) : (k, v) ∈ db := by
  induction db with
  | nil => simp [Db.fetch] at h
  | cons e r ih =>
    obtain ⟨ke, ve⟩ := e
    simp only [Db.fetch] at h
    split at h
    next hk => simp at h; subst hk; subst h; simp
    next hk => exact List.mem_cons_of_mem _ (ih h)

theorem fetch_of_mem_nodup {db : Db} (hn : (db.map (·.1)).Nodup) {k v : Bytes} (h : (k, v) ∈ db) :
    db.fetch k = some v := by
  induction db with
  | nil => simp at h
  | cons e r ih =>
    obtain ⟨ke, ve⟩ := e
    simp only [List.map_cons, List.nodup_cons] at hn
    rcases List.mem_cons.mp h with e | hm
    · cases e; simp [Db.fetch]
    · have : ke ≠ k := fun e => hn.1 (by subst e; exact List.mem_map_of_mem (f := (·.1)) hm)
      simp [Db.fetch, this, ih hn.2 hm]

theorem fetch_none_of_not_mem {db : Db} {k : Bytes} (h : k ∉ db.map (·.1)) : db.fetch k = none := by
  induction db with
  | nil => rfl
  | cons e r ih =>
    obtain ⟨ke, ve⟩ := e
    simp only [List.map_cons, List.mem_cons, not_or] at h
    have : ke ≠ k := fun e => h.1 e.symm
    simp [Db.fetch, this, ih h.2]

end RimeModel.C17
