import RimeModel.C17.MergeLemmas
/-! C17 — what a whole merge does to a key (helper facts for Props/C17). -/
namespace RimeModel.C17

variable {D : Type} {O : DeeOps D}

/-- "their" tick of a snapshot dictionary: its `/tick` record if readable, else 0 -/
def theirTick (temp : Db) : Nat :=
  match temp.metaFetch kTick with
  | some s => (stoul s).getD 0
  | none => 0

/-- tick every merged record and the dictionary get -/
def mergedTick (dest temp : Db) : Nat := Nat.max (tickCount dest) (theirTickOf temp.queryMeta)

theorem mergedTick_lt (dest temp : Db) : mergedTick dest temp < ulongLim := by
  unfold mergedTick
  have h1 := tickCount_lt dest
  have h2 := theirTickOf_lt temp.queryMeta
  exact Nat.max_lt.mpr ⟨h1, h2⟩

/-- the record a merge writes for a key of the snapshot -/
def mergedValue (O : DeeOps D) (dest temp : Db) (k v : Bytes) : Value D :=
  mergeValue O (tickCount dest) (theirTickOf temp.queryMeta) (mergedTick dest temp) (dest.fetch k) v

theorem mergeDb_fetch_in (uid : Bytes) (m0 : Int) (dest temp : Db) (hn : (temp.map (·.1)).Nodup) (k v : Bytes)
    (hkv : (k, v) ∈ temp.queryAll) :
    (mergeDb O uid m0 dest temp).fetch k = some (pack O (mergedValue O dest temp k v)) := by
  have hk : isMetaKey k = false := not_meta_of_data (mem_queryAll.mp hkv).2
  have hi := init_metaAll dest m0 temp.queryMeta
  simp only at hi
  rw [mergeDb_eq, close_fetch _ _ _ hk, putAll_fetch_in _ _ (queryAll_nodup hn) k v hkv, hi.1, hi.2.1, hi.2.2.2.1,
    hi.2.2.2.2]
  rfl

theorem mergeDb_fetch_notin (uid : Bytes) (m0 : Int) (dest temp : Db) (k : Bytes) (hk : isMetaKey k = false)
    (hnot : k ∉ temp.queryAll.map (·.1)) :
    (mergeDb O uid m0 dest temp).fetch k = dest.fetch k := by
  have hi := init_metaAll dest m0 temp.queryMeta
  simp only at hi
  rw [mergeDb_eq, close_fetch _ _ _ hk, putAll_fetch_notin _ _ _ hnot, hi.1]

theorem mergeDb_empty (uid : Bytes) (dest temp : Db) (he : temp.queryAll = []) :
    mergeDb O uid 0 dest temp = dest := by
  have hi := init_metaAll dest 0 temp.queryMeta
  simp only at hi
  rw [mergeDb_eq, he]
  simp [Merger.putAll, Merger.close, hi.2.2.1, hi.1]

theorem mergeDb_nonempty (uid : Bytes) (dest temp : Db) (hne : temp.queryAll ≠ []) :
    mergeDb O uid 0 dest temp =
      ((Merger.putAll O (Merger.metaAll (Merger.init dest 0) temp.queryMeta) temp.queryAll).db.metaUpdate kTick
        (showNat (mergedTick dest temp))).metaUpdate kUserId uid := by
  have hi := init_metaAll dest 0 temp.queryMeta
  simp only at hi
  have hp := putAll_fields (O := O) (Merger.metaAll (Merger.init dest 0) temp.queryMeta) temp.queryAll
  have hlen : temp.queryAll.length ≠ 0 := by
    intro h; exact hne (List.length_eq_zero_iff.mp h)
  rw [mergeDb_eq]
  unfold Merger.close
  rw [hp.2.2.2, hi.2.2.1, hp.2.2.1, hi.2.2.2.2]
  have : ¬ ((0 : Int) + (temp.queryAll.length : Int) = 0) := by omega
  simp only [this, if_false]
  rfl

theorem kUserId_ne_kTick : (1 :: kTick : Bytes) ≠ 1 :: kUserId := by decide

theorem mergeDb_tick_record (uid : Bytes) (dest temp : Db) (hne : temp.queryAll ≠ []) :
    (mergeDb O uid 0 dest temp).metaFetch kTick = some (showNat (mergedTick dest temp)) := by
  rw [mergeDb_nonempty uid dest temp hne]
  simp only [Db.metaFetch, Db.metaUpdate]
  rw [fetch_update_other _ _ _ _ kUserId_ne_kTick, fetch_update_same]

theorem mergeDb_tickCount (uid : Bytes) (dest temp : Db) (hne : temp.queryAll ≠ []) :
    tickCount (mergeDb O uid 0 dest temp) = mergedTick dest temp := by
  unfold tickCount
  rw [mergeDb_tick_record uid dest temp hne]
  simp [stoul_showNat _ (mergedTick_lt dest temp)]

theorem mergeDb_userId_record (uid : Bytes) (dest temp : Db) (hne : temp.queryAll ≠ []) :
    (mergeDb O uid 0 dest temp).metaFetch kUserId = some uid := by
  rw [mergeDb_nonempty uid dest temp hne]
  simp only [Db.metaFetch, Db.metaUpdate]
  rw [fetch_update_same]

/-- metadata other than `/tick`, `/user_id`, and every key outside the snapshot, is left alone -/
theorem mergeDb_fetch_other (uid : Bytes) (dest temp : Db) (hne : temp.queryAll ≠ []) (k : Bytes)
    (h1 : k ≠ 1 :: kTick) (h2 : k ≠ 1 :: kUserId) (hnot : k ∉ temp.queryAll.map (·.1)) :
    (mergeDb O uid 0 dest temp).fetch k = dest.fetch k := by
  have hi := init_metaAll dest 0 temp.queryMeta
  simp only at hi
  rw [mergeDb_nonempty uid dest temp hne]
  simp only [Db.metaUpdate]
  rw [fetch_update_other _ _ _ _ h2, fetch_update_other _ _ _ _ h1, putAll_fetch_notin _ _ _ hnot, hi.1]

/-! ### "their" tick from the metadata records -/

theorem foldl_tick_nodup (es : List (Bytes × Bytes)) (hn : (es.map (·.1)).Nodup) (t0 : Nat) :
    es.foldl (fun t e => if e.1 = kTick then (stoul e.2).getD t else t) t0 =
      match es.find? (fun e => e.1 = kTick) with
      | some e => (stoul e.2).getD t0
      | none => t0 := by
  induction es generalizing t0 with
  | nil => rfl
  | cons e r ih =>
    simp only [List.map_cons, List.nodup_cons] at hn
    simp only [List.foldl_cons, List.find?_cons]
    by_cases he : e.1 = kTick
    · simp only [he, if_true, decide_true]
      -- no later record has the key
      have hnone : r.find? (fun e => e.1 = kTick) = none := by
        apply List.find?_eq_none.mpr
        intro x hx hxk
        simp only [decide_eq_true_eq] at hxk
        exact hn.1 (by rw [he, ← hxk]; exact List.mem_map_of_mem (f := (·.1)) hx)
      rw [ih hn.2, hnone]
    · simp only [he, if_false, decide_false]
      exact ih hn.2 _

theorem queryMeta_find (db : Db) (k : Bytes) :
    (db.queryMeta.find? (fun e => e.1 = k)).map (·.2) = db.metaFetch k := by
  induction db with
  | nil => rfl
  | cons e r ih =>
    obtain ⟨ke, ve⟩ := e
    simp only [Db.queryMeta, Db.metaFetch, Db.fetch, List.filter_cons] at ih ⊢
    cases ke with
    | nil =>
      have : ¬ ([] : Bytes) = 1 :: k := by simp
      simp only [isMetaKey, this, if_false]
      exact ih
    | cons c cs =>
      by_cases hc : c = 1
      · subst hc
        simp only [isMetaKey, if_true, List.map_cons, List.find?_cons, List.tail_cons]
        by_cases hk : cs = k
        · simp [hk]
        · have : ¬ (1 :: cs) = 1 :: k := by simp [hk]
          simp only [hk, decide_false, this, if_false]
          exact ih
      · have h1 : isMetaKey (c :: cs) = false := by
          unfold isMetaKey
          split
          next heq => simp at heq; exact absurd heq.1 hc
          · rfl
        have : ¬ (c :: cs) = 1 :: k := by simp [hc]
        simp only [h1, this, if_false]
        exact ih

theorem queryMeta_nodup {db : Db} (hn : (db.map (·.1)).Nodup) : (db.queryMeta.map (·.1)).Nodup := by
  induction db with
  | nil => simp [Db.queryMeta]
  | cons e r ih =>
    obtain ⟨ke, ve⟩ := e
    simp only [List.map_cons, List.nodup_cons] at hn
    simp only [Db.queryMeta, List.filter_cons] at ih ⊢
    split
    next hm =>
      simp only [List.map_cons, List.nodup_cons]
      refine ⟨?_, ih hn.2⟩
      intro hmem
      simp only [List.map_map, List.mem_map, List.mem_filter] at hmem
      obtain ⟨x, ⟨hx, hxm⟩, hxe⟩ := hmem
      apply hn.1
      have : x.1 = ke := by
        cases hxk : x.1 with
        | nil => simp [hxk, isMetaKey] at hxm
        | cons a as =>
          cases ke with
          | nil => simp [isMetaKey] at hm
          | cons b bs =>
            simp only [Function.comp, hxk, List.tail_cons] at hxe
            have ha : a = 1 := by
              unfold isMetaKey at hxm; rw [hxk] at hxm
              split at hxm
              next heq => simp at heq; exact heq.1
              · simp at hxm
            have hb : b = 1 := by
              unfold isMetaKey at hm
              split at hm
              next heq => simp at heq; exact heq.1
              · simp at hm
            rw [ha, hb, hxe]
      rw [← this]
      exact List.mem_map_of_mem (f := (·.1)) hx
    next => exact ih hn.2

theorem theirTickOf_eq (temp : Db) (hn : (temp.map (·.1)).Nodup) : theirTickOf temp.queryMeta = theirTick temp := by
  unfold theirTickOf theirTick
  rw [foldl_tick_nodup _ (queryMeta_nodup hn), ← queryMeta_find]
  cases temp.queryMeta.find? (fun e => e.1 = kTick) <;> rfl

end RimeModel.C17
