import RimeModel.C17.Codec
/-! C17 — lemmas about `UserDbMerger` (Put / MetaPut / CloseMerge folded over a source dictionary). -/
namespace RimeModel.C17

variable {D : Type} {O : DeeOps D}

/-- commit count stored under `k` (0 when absent) -/
def commitsAt (O : DeeOps D) (db : Db) (k : Bytes) : Int :=
  match db.fetch k with
  | some v => (unpack O v).commits
  | none => 0

/-- a value as `Unpack` can produce it: count in `int`, tick in `unsigned long` -/
def Value.Ok (v : Value D) : Prop := IntRange v.commits ∧ v.tick < ulongLim

/-- `render (norm d) = render d`: the text of `d` survives a write/read cycle -/
def Stable (L : LawfulDee O) (d : D) : Prop := O.render (L.norm d) = O.render d

theorem dflt_ok : (Value.dflt O).Ok := by
  refine ⟨⟨?_, ?_⟩, ?_⟩ <;> simp [Value.dflt, intMin, intMax, ulongLim]

theorem unpackTok_ok {v v' : Value D} {tok : Bytes} (h : unpackTok O v tok = some v') (hv : v.Ok) : v'.Ok := by
  unfold unpackTok at h
  split at h
  · simp at h; subst h; exact hv
  · split at h
    · simp at h; obtain ⟨a, ha, rfl⟩ := h; exact ⟨stoi_range ha, hv.2⟩
    · split at h
      · simp at h; obtain ⟨a, ha, rfl⟩ := h; exact hv
      · split at h
        · simp at h; obtain ⟨a, ha, rfl⟩ := h; exact ⟨hv.1, stoul_range ha⟩
        · simp at h; subst h; exact hv

theorem unpackToks_ok (toks : List Bytes) (v : Value D) (hv : v.Ok) : (unpackToks O v toks).1.Ok := by
  induction toks generalizing v with
  | nil => simpa [unpackToks] using hv
  | cons t ts ih =>
    simp only [unpackToks]
    cases h : unpackTok O v t with
    | none => simpa using hv
    | some v' => simpa using ih v' (unpackTok_ok h hv)

theorem unpack_ok (s : Bytes) : (unpack O s).Ok := unpackToks_ok _ _ dflt_ok

theorem unpackTok_stable (L : LawfulDee O) {v v' : Value D} {tok : Bytes} (h : unpackTok O v tok = some v')
    (hv : Stable L v.dee) : Stable L v'.dee := by
  unfold unpackTok at h
  split at h
  · simp at h; subst h; exact hv
  · split at h
    · simp at h; obtain ⟨a, ha, rfl⟩ := h; exact hv
    · split at h
      · simp at h; obtain ⟨a, ha, rfl⟩ := h; exact L.stable_read _ _ ha
      · split at h
        · simp at h; obtain ⟨a, ha, rfl⟩ := h; exact hv
        · simp at h; subst h; exact hv

theorem unpackToks_stable (L : LawfulDee O) (toks : List Bytes) (v : Value D) (hv : Stable L v.dee) :
    Stable L (unpackToks O v toks).1.dee := by
  induction toks generalizing v with
  | nil => simpa [unpackToks] using hv
  | cons t ts ih =>
    simp only [unpackToks]
    cases h : unpackTok O v t with
    | none => simpa using hv
    | some v' => simpa using ih v' (unpackTok_stable L h hv)

theorem unpack_stable (L : LawfulDee O) (s : Bytes) : Stable L (unpack O s).dee :=
  unpackToks_stable L _ _ L.stable_zero

/-! ### the values `Put` combines -/

theorem decayTo_ok (v : Value D) (t : Nat) (h : v.Ok) : (decayTo O v t).Ok := by
  unfold decayTo
  split
  · exact h
  · exact h

theorem decayTo_commits (v : Value D) (t : Nat) : (decayTo O v t).commits = v.commits := by
  unfold decayTo
  split <;> rfl

theorem decayTo_tick (v : Value D) (t : Nat) : (decayTo O v t).tick = v.tick := by
  unfold decayTo
  split <;> rfl

theorem decayTo_stable (L : LawfulDee O) (v : Value D) (t : Nat) (h : Stable L v.dee) : Stable L (decayTo O v t).dee := by
  unfold decayTo
  split
  · next hlt => exact L.stable_decay _ _ _ hlt h
  · exact h

theorem decayTo_of_ge (v : Value D) (t : Nat) (h : ¬ v.tick < t) : decayTo O v t = v := by
  simp [decayTo, h]

theorem oursBase_ok (ours : Option Bytes) : (oursBase O ours).Ok := by
  cases ours with
  | none => exact dflt_ok
  | some s => exact unpack_ok s

theorem oursBase_stable (L : LawfulDee O) (ours : Option Bytes) : Stable L (oursBase O ours).dee := by
  cases ours with
  | none => exact L.stable_zero
  | some s => exact unpack_stable L s

theorem oursBase_commits (ours : Option Bytes) :
    (oursBase O ours).commits = match ours with | some s => (unpack O s).commits | none => 0 := by
  cases ours <;> rfl

theorem theirValue_ok (their : Nat) (value : Bytes) : (theirValue O their value).Ok :=
  decayTo_ok _ _ (unpack_ok value)

theorem theirValue_commits (their : Nat) (value : Bytes) :
    (theirValue O their value).commits = (unpack O value).commits := decayTo_commits _ _

theorem theirValue_stable (L : LawfulDee O) (their : Nat) (value : Bytes) :
    Stable L (theirValue O their value).dee := decayTo_stable L _ _ (unpack_stable L value)

theorem ourValue_ok (our : Nat) (ours : Option Bytes) : (ourValue O our ours).Ok :=
  decayTo_ok _ _ (oursBase_ok ours)

theorem ourValue_commits (our : Nat) (ours : Option Bytes) :
    (ourValue O our ours).commits = match ours with | some s => (unpack O s).commits | none => 0 := by
  rw [ourValue, decayTo_commits, oursBase_commits]

theorem ourValue_stable (L : LawfulDee O) (our : Nat) (ours : Option Bytes) : Stable L (ourValue O our ours).dee :=
  decayTo_stable L _ _ (oursBase_stable L ours)

theorem mergeValue_ok (our their maxT : Nat) (hm : maxT < ulongLim) (ours : Option Bytes) (value : Bytes) :
    (mergeValue O our their maxT ours value).Ok := by
  unfold mergeValue
  refine ⟨?_, hm⟩
  dsimp only
  split
  · exact (theirValue_ok their value).1
  · exact (ourValue_ok our ours).1

/-- commit count of the merged record: the side with the larger magnitude, ours on a tie -/
theorem mergeValue_commits (our their maxT : Nat) (ours : Option Bytes) (value : Bytes) :
    (mergeValue O our their maxT ours value).commits =
      let oc : Int := match ours with | some s => (unpack O s).commits | none => 0
      let vc := (unpack O value).commits
      if oc.natAbs < vc.natAbs then vc else oc := by
  simp only [mergeValue, theirValue_commits, ourValue_commits]

theorem max_stable (L : LawfulDee O) {a b : D} (ha : Stable L a) (hb : Stable L b) : Stable L (O.max a b) := by
  unfold DeeOps.max
  split
  · exact hb
  · exact ha

theorem mergeValue_stable (L : LawfulDee O) (our their maxT : Nat) (ours : Option Bytes) (value : Bytes) :
    Stable L (mergeValue O our their maxT ours value).dee :=
  max_stable L (ourValue_stable L our ours) (theirValue_stable L their value)

/-- the order fact behind idempotence: writing max(a,b), reading it back and taking the max with b again
prints the same text -/
theorem render_max_again (L : LawfulDee O) {a b : D} (ha : Stable L a) (hb : Stable L b) :
    O.render (O.max (L.norm (O.max a b)) b) = O.render (O.max a b) := by
  have hm : Stable L (O.max a b) := max_stable L ha hb
  have hle : O.lt (O.max a b) b = false := by
    unfold DeeOps.max
    split
    · exact L.lt_irrefl b
    · next h => simpa using h
  generalize O.max a b = m at hm hle
  unfold DeeOps.max
  split
  next hlt =>
    -- norm m < b ≤ m: then norm b = norm m
    have h1 : O.lt (L.norm m) (L.norm b) = false := L.norm_mono b m hle
    have hnb : O.lt b (L.norm m) = false := by
      cases hh : O.lt b (L.norm m) with
      | false => rfl
      | true =>
        have := L.lt_trans _ _ _ hlt hh
        rw [L.lt_irrefl] at this
        cases this
    have h2 : O.lt (L.norm b) (L.norm m) = false := by
      have := L.norm_mono (L.norm m) b hnb
      rwa [L.norm_idem] at this
    have e : L.norm b = L.norm m := L.lt_connex _ _ h2 h1
    calc O.render b = O.render (L.norm b) := hb.symm
      _ = O.render (L.norm m) := by rw [e]
      _ = O.render m := hm
  next => exact hm

/-! ### folding Put / MetaPut -/

def Merger.putAll (O : DeeOps D) (m : Merger) (es : List (Bytes × Bytes)) : Merger :=
  es.foldl (fun s e => (Merger.put O s e.1 e.2).1) m

def Merger.metaAll (m : Merger) (es : List (Bytes × Bytes)) : Merger :=
  es.foldl (fun s e => (Merger.metaPut s e.1 e.2).1) m

theorem mergeDb_eq (userId : Bytes) (m0 : Int) (dest temp : Db) :
    mergeDb O userId m0 dest temp =
      Merger.close userId (Merger.putAll O (Merger.metaAll (Merger.init dest m0) temp.queryMeta) temp.queryAll) := rfl

/-- "their" tick as the metadata records determine it: the last readable `/tick`, 0 when none -/
def theirTickOf (metas : List (Bytes × Bytes)) : Nat :=
  metas.foldl (fun t e => if e.1 = kTick then (stoul e.2).getD t else t) 0

theorem metaPut_fields (m : Merger) (k v : Bytes) :
    (m.metaPut k v).1.db = m.db ∧ (m.metaPut k v).1.ourTick = m.ourTick ∧ (m.metaPut k v).1.merged = m.merged := by
  unfold Merger.metaPut
  split
  · split <;> simp
  · simp

theorem metaAll_fields (m : Merger) (es : List (Bytes × Bytes)) :
    (m.metaAll es).db = m.db ∧ (m.metaAll es).ourTick = m.ourTick ∧ (m.metaAll es).merged = m.merged := by
  induction es generalizing m with
  | nil => simp [Merger.metaAll]
  | cons e r ih =>
    have h1 := metaPut_fields m e.1 e.2
    have h2 := ih (m.metaPut e.1 e.2).1
    simp only [Merger.metaAll, List.foldl_cons] at h2 ⊢
    exact ⟨h2.1.trans h1.1, h2.2.1.trans h1.2.1, h2.2.2.trans h1.2.2⟩

theorem metaAll_ticks_aux (m : Merger) (es : List (Bytes × Bytes)) (hmax : m.maxTick = Nat.max m.ourTick m.theirTick) :
    (m.metaAll es).theirTick = es.foldl (fun t e => if e.1 = kTick then (stoul e.2).getD t else t) m.theirTick ∧
    (m.metaAll es).maxTick = Nat.max m.ourTick (m.metaAll es).theirTick := by
  induction es generalizing m with
  | nil => simpa [Merger.metaAll] using hmax
  | cons e r ih =>
    simp only [Merger.metaAll, List.foldl_cons]
    have step : (m.metaPut e.1 e.2).1.theirTick = (if e.1 = kTick then (stoul e.2).getD m.theirTick else m.theirTick) ∧
        (m.metaPut e.1 e.2).1.maxTick = Nat.max (m.metaPut e.1 e.2).1.ourTick (m.metaPut e.1 e.2).1.theirTick := by
      unfold Merger.metaPut
      split
      · split
        next t ht => simp [ht]
        next ht => simp [ht, hmax]
      · simpa using hmax
    have h := ih (m.metaPut e.1 e.2).1 step.2
    simp only [Merger.metaAll] at h
    rw [(metaPut_fields m e.1 e.2).2.1] at h
    rw [step.1] at h
    exact h

theorem init_metaAll (dest : Db) (m0 : Int) (es : List (Bytes × Bytes)) :
    let m := (Merger.init dest m0).metaAll es
    m.db = dest ∧ m.ourTick = tickCount dest ∧ m.merged = m0 ∧ m.theirTick = theirTickOf es ∧
      m.maxTick = Nat.max (tickCount dest) (theirTickOf es) := by
  have h1 := metaAll_fields (Merger.init dest m0) es
  have h2 := metaAll_ticks_aux (Merger.init dest m0) es (by simp [Merger.init])
  simp only [Merger.init] at h1 h2 ⊢
  refine ⟨h1.1, h1.2.1, h1.2.2, ?_, ?_⟩
  · simpa [theirTickOf] using h2.1
  · rw [h2.2, h2.1]; rfl

theorem tickCount_lt (db : Db) : tickCount db < ulongLim := by
  unfold tickCount
  split
  next s _ =>
    cases h : stoul s with
    | none => simp [ulongLim]
    | some t => simpa using stoul_range h
  · simp [ulongLim]

theorem theirTickOf_lt (es : List (Bytes × Bytes)) : theirTickOf es < ulongLim := by
  unfold theirTickOf
  suffices ∀ t0, t0 < ulongLim →
      es.foldl (fun t e => if e.1 = kTick then (stoul e.2).getD t else t) t0 < ulongLim from this 0 (by simp [ulongLim])
  induction es with
  | nil => intro t0 h; simpa using h
  | cons e r ih =>
    intro t0 h
    simp only [List.foldl_cons]
    apply ih
    split
    · cases hs : stoul e.2 with
      | none => simpa using h
      | some t => simpa using stoul_range hs
    · exact h

theorem put_fields (m : Merger) (k v : Bytes) :
    (m.put O k v).1.ourTick = m.ourTick ∧ (m.put O k v).1.theirTick = m.theirTick ∧
    (m.put O k v).1.maxTick = m.maxTick ∧ (m.put O k v).1.merged = m.merged + 1 ∧
    (m.put O k v).1.db = m.db.update k (pack O (mergeValue O m.ourTick m.theirTick m.maxTick (m.db.fetch k) v)) := by
  simp [Merger.put]

theorem putAll_fields (m : Merger) (es : List (Bytes × Bytes)) :
    (m.putAll O es).ourTick = m.ourTick ∧ (m.putAll O es).theirTick = m.theirTick ∧
    (m.putAll O es).maxTick = m.maxTick ∧ (m.putAll O es).merged = m.merged + es.length := by
  induction es generalizing m with
  | nil => simp [Merger.putAll]
  | cons e r ih =>
    have h1 := put_fields (O := O) m e.1 e.2
    have h2 := ih (m.put O e.1 e.2).1
    simp only [Merger.putAll, List.foldl_cons] at h2 ⊢
    refine ⟨h2.1.trans h1.1, h2.2.1.trans h1.2.1, h2.2.2.1.trans h1.2.2.1, ?_⟩
    rw [h2.2.2.2, h1.2.2.2.1]
    simp only [List.length_cons, Int.natCast_add, Int.natCast_one]
    omega

theorem putAll_fetch_notin (m : Merger) (es : List (Bytes × Bytes)) (k : Bytes) (hk : k ∉ es.map (·.1)) :
    (m.putAll O es).db.fetch k = m.db.fetch k := by
  induction es generalizing m with
  | nil => simp [Merger.putAll]
  | cons e r ih =>
    simp only [List.map_cons, List.mem_cons, not_or] at hk
    have h2 := ih (m.put O e.1 e.2).1 hk.2
    simp only [Merger.putAll, List.foldl_cons] at h2 ⊢
    rw [h2, (put_fields m e.1 e.2).2.2.2.2, fetch_update_other _ _ _ _ hk.1]

theorem putAll_fetch_in (m : Merger) (es : List (Bytes × Bytes)) (hn : (es.map (·.1)).Nodup) (k v : Bytes)
    (hkv : (k, v) ∈ es) :
    (m.putAll O es).db.fetch k =
      some (pack O (mergeValue O m.ourTick m.theirTick m.maxTick (m.db.fetch k) v)) := by
  induction es generalizing m with
  | nil => simp at hkv
  | cons e r ih =>
    simp only [List.map_cons, List.nodup_cons] at hn
    have hf := put_fields (O := O) m e.1 e.2
    rcases List.mem_cons.mp hkv with he | hr
    · subst he
      have := putAll_fetch_notin (O := O) (m.put O k v).1 r k hn.1
      simp only [Merger.putAll, List.foldl_cons] at this ⊢
      rw [this, hf.2.2.2.2, fetch_update_same]
    · have hne : k ≠ e.1 := fun e' => hn.1 (by rw [← e']; exact List.mem_map_of_mem (f := (·.1)) hr)
      have := ih (m.put O e.1 e.2).1 hn.2 hr
      simp only [Merger.putAll, List.foldl_cons] at this ⊢
      rw [this, hf.1, hf.2.1, hf.2.2.1, hf.2.2.2.2, fetch_update_other _ _ _ _ hne]

theorem putAll_keeps (m : Merger) (es : List (Bytes × Bytes)) (k : Bytes) (h : (m.db.fetch k).isSome) :
    ((m.putAll O es).db.fetch k).isSome := by
  induction es generalizing m with
  | nil => simpa [Merger.putAll] using h
  | cons e r ih =>
    have h2 := ih (m.put O e.1 e.2).1 (by
      rw [(put_fields m e.1 e.2).2.2.2.2, fetch_update]
      split
      · simp
      · exact h)
    simpa [Merger.putAll] using h2

theorem putAll_adds (m : Merger) (es : List (Bytes × Bytes)) (k : Bytes) (h : k ∈ es.map (·.1)) :
    ((m.putAll O es).db.fetch k).isSome := by
  induction es generalizing m with
  | nil => simp at h
  | cons e r ih =>
    simp only [List.map_cons, List.mem_cons] at h
    simp only [Merger.putAll, List.foldl_cons]
    rcases h with he | hr
    · apply putAll_keeps
      rw [(put_fields m e.1 e.2).2.2.2.2, he, fetch_update_same]
      rfl
    · exact ih _ hr

theorem close_fetch (userId : Bytes) (m : Merger) (k : Bytes) (hk : isMetaKey k = false) :
    (m.close userId).fetch k = m.db.fetch k := by
  unfold Merger.close
  split
  · rfl
  · have h1 : k ≠ 1 :: kUserId := by intro e; simp [e, isMetaKey] at hk
    have h2 : k ≠ 1 :: kTick := by intro e; simp [e, isMetaKey] at hk
    simp [Db.metaUpdate, fetch_update_other _ _ _ _ h1, fetch_update_other _ _ _ _ h2]

theorem close_keeps (userId : Bytes) (m : Merger) (k : Bytes) (h : (m.db.fetch k).isSome) :
    ((m.close userId).fetch k).isSome := by
  unfold Merger.close
  split
  · exact h
  · simp only [Db.metaUpdate, fetch_update]
    split
    · simp
    · split
      · simp
      · exact h

theorem not_meta_of_data {k : Bytes} (h : bytesLt k [32] = false) : isMetaKey k = false := by
  cases k with
  | nil => simp [bytesLt] at h
  | cons c cs =>
    unfold isMetaKey
    split
    next heq =>
      simp at heq
      obtain ⟨rfl, _⟩ := heq
      simp [bytesLt] at h
    · rfl

theorem mem_queryAll {db : Db} {e : Bytes × Bytes} : e ∈ db.queryAll ↔ e ∈ db ∧ bytesLt e.1 [32] = false := by
  simp [Db.queryAll, List.mem_filter]

theorem queryAll_nodup {db : Db} (hn : (db.map (·.1)).Nodup) : (db.queryAll.map (·.1)).Nodup := by
  unfold Db.queryAll
  exact (List.nodup_iff_pairwise_ne.mpr ((List.nodup_iff_pairwise_ne.mp hn).sublist
    (List.Sublist.map _ List.filter_sublist)))

end RimeModel.C17
