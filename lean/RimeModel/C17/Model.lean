import RimeModel.C17.Bytes
/-!
C17 — executable model of the user-dictionary value codec, the key→value store with its `\x01`
metadata namespace, the TSV snapshot writer/reader, the user-db and table-db row
formatters/parsers, `UserDbMerger`, `UserDbImporter` and the `UserDictManager` operations
Backup / Restore (= merge) / Export / Import.

Sources modelled line by line: src/rime/dict/user_db.cc, tsv.cc, db_utils.cc, table_db.cc,
level_db.cc (the Db interface only), src/rime/lever/user_dict_manager.cc, src/rime/algo/dynamics.h.

`dee` (a C++ double) is abstract: the model is parametric in a type `D` with the operations the code
applies to it (`DeeOps`): `<`, the decay `formula_d(0, t, da, ta)`, the text output `ostream << double`
(`render`), the text input `min(10000.0, strtod(v))` (`read`, `none` = no conversion, the code throws) and
`(commits + 1) / 1e8` (`ofCount`).  No theorem depends on what these functions are beyond the laws
collected in `RimeModel.C17.LawfulDee`; the driver instantiates `D` with IEEE doubles.
-/
namespace RimeModel.C17

/-! ### string constants -/
def kTick : Bytes := [47, 116, 105, 99, 107]  -- "/tick"
def kUserId : Bytes := [47, 117, 115, 101, 114, 95, 105, 100]  -- "/user_id"
def kDbName : Bytes := [47, 100, 98, 95, 110, 97, 109, 101]  -- "/db_name"
def kDbType : Bytes := [47, 100, 98, 95, 116, 121, 112, 101]  -- "/db_type"
def kRimeVersion : Bytes := [47, 114, 105, 109, 101, 95, 118, 101, 114, 115, 105, 111, 110]  -- "/rime_version"
def sUserdb : Bytes := [117, 115, 101, 114, 100, 98]  -- "userdb"
def sDotUserdb : Bytes := [46, 117, 115, 101, 114, 100, 98]  -- ".userdb"
def sDotTemp : Bytes := [46, 116, 101, 109, 112]  -- ".temp"
def sUnknown : Bytes := [117, 110, 107, 110, 111, 119, 110]  -- "unknown"
def sNoComment : Bytes := [35, 32, 110, 111, 32, 99, 111, 109, 109, 101, 110, 116]  -- "# no comment"
def descUserDb : Bytes := [82, 105, 109, 101, 32, 117, 115, 101, 114, 32, 100, 105, 99, 116, 105, 111, 110, 97, 114, 121]  -- "Rime user dictionary"
def descExport : Bytes := [82, 105, 109, 101, 32, 117, 115, 101, 114, 32, 100, 105, 99, 116, 105, 111, 110, 97, 114, 121, 32, 101, 120, 112, 111, 114, 116]  -- "Rime user dictionary export"

/-! ### `UserDbValue` -/

/-- what the code does with a `double dee` -/
structure DeeOps (D : Type) where
  zero : D
  /-- `a < b` -/
  lt : D → D → Bool
  /-- `decay da ta t` = `algo::formula_d(0, (double)t, da, (double)ta)` = `da * exp((ta - t) / 200)` -/
  decay : D → Nat → Nat → D
  /-- `ostream << dee` -/
  render : D → Bytes
  /-- `(std::min)(10000.0, d)` with `d = strtod(v)`; `none` = nothing could be converted (the code throws).
  (Until commit 8bf60d2: `std::stod(v)`, which also threw on subnormal and overflowing numbers.) -/
  read : Bytes → Option D
  /-- `(commits + 1) / 1e8` of rime_table_entry_parser -/
  ofCount : Int → D

structure Value (D : Type) where
  commits : Int
  dee : D
  tick : Nat

variable {D : Type} (O : DeeOps D)

/-- `UserDbValue()` : `commits = 0, dee = 0.0, tick = 0` -/
def Value.dflt : Value D := ⟨0, O.zero, 0⟩

/-- `(std::max)(a, b)` = `(a < b) ? b : a` -/
def DeeOps.max (a b : D) : D := if O.lt a b then b else a

/-- `UserDbValue::Pack` : `"c=" << commits << " d=" << dee << " t=" << tick` -/
def pack (v : Value D) : Bytes :=
  [99, 61] ++ showInt v.commits ++ [32, 100, 61] ++ O.render v.dee ++ [32, 116, 61] ++ showNat v.tick

/-- one `k=v` token of `Unpack`; `none` = the conversion throws -/
def unpackTok (v : Value D) (tok : Bytes) : Option (Value D) :=
  match splitEq tok with
  | none => some v
  | some (k, x) =>
    if k = [99] then (stoi x).map fun c => { v with commits := c }
    else if k = [100] then (O.read x).map fun d => { v with dee := d }
    else if k = [116] then (stoul x).map fun t => { v with tick := t }
    else some v

/-- the loop of `Unpack`: fields assigned so far stay assigned when a later token throws -/
def unpackToks (v : Value D) : List Bytes → Value D × Bool
  | [] => (v, true)
  | t :: ts =>
    match unpackTok O v t with
    | none => (v, false)
    | some v' => unpackToks v' ts

/-- `v.Unpack(s)` on an existing object `v`: (object afterwards, return value) -/
def unpackInto (v : Value D) (s : Bytes) : Value D × Bool := unpackToks O v (splitOn 32 s)

/-- `UserDbValue(s)` : default-construct then `Unpack`, result ignored -/
def unpack (s : Bytes) : Value D := (unpackInto O (Value.dflt O) s).1

/-! ### the store: one ordered keyspace, metadata under the `\x01` prefix (level_db.cc) -/

abbrev Db := List (Bytes × Bytes)

def Db.fetch : Db → Bytes → Option Bytes
  | [], _ => none
  | (k', v) :: r, k => if k' = k then some v else Db.fetch r k

/-- insert / overwrite keeping byte order -/
def Db.update : Db → Bytes → Bytes → Db
  | [], k, v => [(k, v)]
  | (k', v') :: r, k, v =>
    if k' = k then (k, v) :: r
    else if bytesLt k k' then (k, v) :: (k', v') :: r
    else (k', v') :: Db.update r k v

def isMetaKey : Bytes → Bool
  | 1 :: _ => true
  | _ => false

def Db.metaFetch (db : Db) (k : Bytes) : Option Bytes := db.fetch (1 :: k)
def Db.metaUpdate (db : Db) (k v : Bytes) : Db := db.update (1 :: k) v

/-- `QueryMetadata()` : records under the `\x01` prefix, prefix removed -/
def Db.queryMeta (db : Db) : List (Bytes × Bytes) :=
  (db.filter fun e => isMetaKey e.1).map fun e => (e.1.tail, e.2)

/-- `QueryAll()` : `Query("")` then `Jump(" ")` — every record whose key is ≥ `" "` -/
def Db.queryAll (db : Db) : List (Bytes × Bytes) :=
  db.filter fun e => !bytesLt e.1 [32]

/-! ### sinks (db_utils.h) -/

structure Sink (σ : Type) where
  metaPut : σ → Bytes → Bytes → σ × Bool
  put : σ → Bytes → Bytes → σ × Bool

/-- `DbSink` on an open writable db -/
def dbSink : Sink Db where
  metaPut := fun db k v => (db.metaUpdate k v, true)
  put := fun db k v => (db.update k v, true)

/-- `Source::Dump(sink)` for a `DbSource` : all metadata, then all records -/
def dumpTo {σ : Type} (S : Sink σ) (st : σ) (src : Db) : σ :=
  src.queryAll.foldl (fun s e => (S.put s e.1 e.2).1)
    (src.queryMeta.foldl (fun s e => (S.metaPut s e.1 e.2).1) st)

/-! ### TSV writer / reader (tsv.cc) -/

abbrev Formatter := Bytes → Bytes → Option (List Bytes)
abbrev Parser := List Bytes → Option (Bytes × Bytes)

/-- one record line: `formatter_(key, value, &row) && !row.empty()`, columns joined by tabs -/
def formatLine (f : Formatter) (e : Bytes × Bytes) : Option Bytes :=
  match f e.1 e.2 with
  | none => none
  | some [] => none
  | some (a :: r) => some (joinWith 9 (a :: r))

def metaLine (e : Bytes × Bytes) : Bytes := [35, 64] ++ e.1 ++ 9 :: e.2

def descLines (desc : Bytes) : List Bytes := if desc = [] then [] else [[35, 32] ++ desc]

/-- the lines `TsvWriter::operator()` writes -/
def tsvLines (desc : Bytes) (f : Formatter) (metas datas : List (Bytes × Bytes)) : List Bytes :=
  descLines desc ++ metas.map metaLine ++ datas.filterMap (formatLine f)

/-- file content and `num_entries` -/
def tsvWrite (desc : Bytes) (f : Formatter) (src : Db) : Bytes × Nat :=
  (unlines (tsvLines desc f src.queryMeta src.queryAll), (src.queryAll.filterMap (formatLine f)).length)

structure RState (σ : Type) where
  st : σ
  enable : Bool
  count : Nat

/-- one iteration of the `while (getline(fin, line))` loop of `TsvReader::operator()` -/
def readLine {σ : Type} (p : Parser) (S : Sink σ) (r : RState σ) (raw : Bytes) : RState σ :=
  let line := trimRight raw
  if line = [] then r
  else if r.enable && line.head? == some 35 then
    if startsWith [35, 64] line then
      match splitOn 9 (line.drop 2) with
      | [k, v] => { r with st := (S.metaPut r.st k v).1 }
      | _ => r
    else if line = sNoComment then { r with enable := false }
    else r
  else
    match p (splitOn 9 line) with
    | none => r
    | some kv =>
      let q := S.put r.st kv.1 kv.2
      { st := q.1, enable := r.enable, count := if q.2 then r.count + 1 else r.count }

def tsvRead {σ : Type} (p : Parser) (S : Sink σ) (st : σ) (file : Bytes) : RState σ :=
  (linesOf file).foldl (readLine p S) ⟨st, true, 0⟩

/-! ### user-db snapshot rows (user_db.cc) and table rows (table_db.cc) -/

/-- `userdb_entry_formatter` : key ::= code <space> <Tab> phrase -/
def userdbFormatter : Formatter := fun key value =>
  match splitOn 9 key with
  | [a, b] => if a = [] ∨ b = [] then none else some [a, b, value]
  | _ => none

/-- the "fix invalid keys" step: append a space unless the code ends with one -/
def fixCode (a : Bytes) : Bytes := if a.getLast? = some 32 then a else a ++ [32]

/-- `userdb_entry_parser` -/
def userdbParser : Parser := fun row =>
  match row with
  | a :: b :: rest =>
    if a = [] ∨ b = [] then none
    else some (fixCode a ++ 9 :: b, match rest with | v :: _ => v | [] => [])
  | _ => none

/-- `rime_table_entry_formatter` : phrase <Tab> code <Tab> commits, deleted entries skipped -/
def tableFormatter : Formatter := fun key value =>
  match splitOn 9 key with
  | [a, b] =>
    if a = [] ∨ b = [] then none
    else
      let v := unpack O value
      if v.commits < 0 then none else some [b, trim a, showInt v.commits]
  | _ => none

/-- the value a table row's weight column denotes -/
def tableValue (rest : List Bytes) : Value D :=
  match rest with
  | w :: _ =>
    if w = [] then Value.dflt O
    else match stoi w with
      | some c => ⟨c, O.ofCount c, 0⟩
      | none => Value.dflt O
  | [] => Value.dflt O

/-- `rime_table_entry_parser` -/
def tableParser : Parser := fun row =>
  match row with
  | text :: code :: rest =>
    if text = [] ∨ code = [] then none
    else some (trim code ++ [32, 9] ++ text, pack O (tableValue O rest))
  | _ => none

/-! ### `UserDbMerger` -/

structure Merger where
  db : Db
  ourTick : Nat
  theirTick : Nat
  maxTick : Nat
  /-- `merged_entries_`.  Until commit 4aee41f the constructor left it uninitialised; `init` therefore takes
  the value it starts with as a parameter (0 for the current source — gen/c17_members.py re-checks that on
  every run), so that the effect of a garbage start value can be stated (`old_merged_entries_uninit_counterexample`). -/
  merged : Int

/-- `get_tick_count(db)` -/
def tickCount (db : Db) : Nat :=
  match db.metaFetch kTick with
  | some s => (stoul s).getD 1
  | none => 1

/-- `UserDbMerger::UserDbMerger(db)`; `m0` = initial content of `merged_entries_` -/
def Merger.init (db : Db) (m0 : Int) : Merger := ⟨db, tickCount db, 0, tickCount db, m0⟩

def Merger.metaPut (m : Merger) (k v : Bytes) : Merger × Bool :=
  if k = kTick then
    match stoul v with
    | some t => ({ m with theirTick := t, maxTick := Nat.max m.ourTick t }, true)
    | none => (m, true)
  else (m, true)

/-- `if (v.tick < t) v.dee = formula_d(0, t, v.dee, v.tick);` -/
def decayTo (v : Value D) (t : Nat) : Value D :=
  if v.tick < t then { v with dee := O.decay v.dee v.tick t } else v

/-- `UserDbValue o; if (db_->Fetch(key, &our_value)) o.Unpack(our_value);` -/
def oursBase (ours : Option Bytes) : Value D :=
  match ours with
  | some s => unpack O s
  | none => Value.dflt O

/-- "their" value decayed to their tick -/
def theirValue (their : Nat) (value : Bytes) : Value D := decayTo O (unpack O value) their

/-- "our" value (default when absent) decayed to our tick -/
def ourValue (our : Nat) (ours : Option Bytes) : Value D := decayTo O (oursBase O ours) our

/-- the merged record `UserDbMerger::Put` writes -/
def mergeValue (our their maxT : Nat) (ours : Option Bytes) (value : Bytes) : Value D :=
  { commits := if (ourValue O our ours).commits.natAbs < (theirValue O their value).commits.natAbs
      then (theirValue O their value).commits else (ourValue O our ours).commits,
    dee := O.max (ourValue O our ours).dee (theirValue O their value).dee,
    tick := maxT }

def Merger.put (m : Merger) (k value : Bytes) : Merger × Bool :=
  ({ m with db := m.db.update k (pack O (mergeValue O m.ourTick m.theirTick m.maxTick (m.db.fetch k) value)),
            merged := m.merged + 1 }, m.merged + 1 != 0)

def mergerSink : Sink Merger where
  metaPut := Merger.metaPut
  put := Merger.put O

/-- `CloseMerge()` (run by the destructor) -/
def Merger.close (userId : Bytes) (m : Merger) : Db :=
  if m.merged = 0 then m.db
  else (m.db.metaUpdate kTick (showNat m.maxTick)).metaUpdate kUserId userId

/-- `DbSource source(temp); UserDbMerger merger(dest); source >> merger;` + destructor -/
def mergeDb (userId : Bytes) (m0 : Int) (dest temp : Db) : Db :=
  Merger.close userId (dumpTo (mergerSink O) (Merger.init dest m0) temp)

/-! ### `UserDbImporter` -/

def importValue (ours : Option Bytes) (value : Bytes) : Value D :=
  if (unpack O value).commits > 0 then
    { oursBase O ours with commits := max (oursBase O ours).commits (unpack O value).commits,
                           dee := O.max (oursBase O ours).dee (unpack O value).dee }
  else if (unpack O value).commits < 0 then
    { oursBase O ours with commits := min (unpack O value).commits (-((oursBase O ours).commits.natAbs : Int)) }
  else oursBase O ours

def importerSink : Sink Db where
  metaPut := fun db _ _ => (db, true)
  put := fun db k value => (db.update k (pack O (importValue O (db.fetch k) value)), true)

/-! ### `Db::Open`, metadata, `UserDbHelper` -/

structure Env where
  /-- `deployer.user_id` -/
  userId : Bytes
  /-- `RIME_VERSION` -/
  version : Bytes

/-- `UserDbWrapper<LevelDb>::CreateMetadata()` -/
def createMetadata (env : Env) (name : Bytes) (db : Db) : Db :=
  (((db.metaUpdate kDbName name).metaUpdate kRimeVersion env.version).metaUpdate kDbType sUserdb).metaUpdate
    kUserId env.userId

/-- `LevelDb::Open()` : creates the store when missing, metadata when `/db_name` is missing -/
def openDb (env : Env) (name : Bytes) (existing : Option Db) : Db :=
  let db := existing.getD []
  if (db.metaFetch kDbName).isSome then db else createMetadata env name db

def isUserDb (db : Db) : Bool := db.metaFetch kDbType == some sUserdb

/-- `UserDbHelper::GetDbName()` : `/db_name` with the last ".userdb" and what follows removed -/
def getDbName (db : Db) : Bytes :=
  match db.metaFetch kDbName with
  | none => []
  | some n => match findLast sDotUserdb n with
    | some i => n.take i
    | none => n

def getUserId (db : Db) : Bytes := (db.metaFetch kUserId).getD sUnknown

/-- `UserDbHelper::UniformBackup` -/
def uniformBackup (db : Db) : Bytes := (tsvWrite descUserDb userdbFormatter db).1

/-- `UserDbHelper::UniformRestore` -/
def uniformRestore (db : Db) (file : Bytes) : Db := (tsvRead userdbParser dbSink db file).st

/-! ### `UserDictManager` -/

/-- `Backup(dict_name)` : `none` = returns false (no such db); else (db afterwards, snapshot content).
When the stored user id differs: `Close`, `Open`, `CreateMetadata`. -/
def managerBackup (env : Env) (name : Bytes) (existing : Option Db) : Option (Db × Bytes) :=
  match existing with
  | none => none
  | some db =>
    let db' := if getUserId db != env.userId then createMetadata env name (openDb env name (some db)) else db
    some (db', uniformBackup db')

/-- `Restore(snapshot_file)` : `none` = returns false, nothing changed; else (name of the target
dictionary, its content afterwards).  `m0` = the indeterminate initial `merged_entries_`. -/
def managerRestore (env : Env) (m0 : Int) (file : Bytes) (lookup : Bytes → Option Db) : Option (Bytes × Db) :=
  let temp := uniformRestore (openDb env sDotTemp none) file
  if !isUserDb temp then none
  else
    let name := getDbName temp
    if name = [] then none
    else if name = sDotTemp then none   -- dest->Open() fails: that store is held open as `temp`
    else some (name, mergeDb O env.userId m0 (openDb env name (lookup name)) temp)

/-- `Export(dict_name, text_file)` : `none` = returns -1; else (file content, number of entries) -/
def managerExport (existing : Option Db) : Option (Bytes × Nat) :=
  match existing with
  | none => none
  | some db => if !isUserDb db then none else some (tsvWrite descExport (tableFormatter O) db)

/-- `Import(dict_name, text_file)` : (db afterwards — `Open` creates it —, `none` = returns -1 | count) -/
def managerImport (env : Env) (name : Bytes) (existing : Option Db) (file : Bytes) : Db × Option Nat :=
  let db := openDb env name existing
  if !isUserDb db then (db, none)
  else
    let r := tsvRead (tableParser O) (importerSink O) db file
    (r.st, some r.count)

end RimeModel.C17
