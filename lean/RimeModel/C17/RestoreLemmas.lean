import RimeModel.C17.MergeLemmas
/-! C17 — snapshot writer followed by snapshot reader (UniformBackup ; UniformRestore). -/
namespace RimeModel.C17

/-- key ::= code <space> <Tab> phrase, nothing that the line/column structure of the snapshot file could
mistake: no tab or newline inside, code ends with the space and does not start a comment -/
structure WFKey (k : Bytes) : Prop where
  ex : ∃ code text : Bytes, k = code ++ 9 :: text ∧ code.getLast? = some 32 ∧ 9 ∉ code ∧ 10 ∉ code ∧
        code.head? ≠ some 35 ∧ text ≠ [] ∧ 9 ∉ text ∧ 10 ∉ text

/-- a stored value as `Pack` writes it: one column, one line, non-empty, not ending in a blank -/
structure CleanValue (v : Bytes) : Prop where
  notab : 9 ∉ v
  nonl : 10 ∉ v
  last : ∃ a c, v = a ++ [c] ∧ isSpace c = false

theorem trimRight_cons_nonspace (c : Nat) (cs : Bytes) (h : isSpace c = false) :
    trimRight (c :: cs) = c :: trimRight cs := by
  simp only [trimRight]
  cases trimRight cs <;> simp [h]

theorem trimRight_noop (a : Bytes) (c : Nat) (hc : isSpace c = false) : trimRight (a ++ [c]) = a ++ [c] :=
  trimRight_append_last a c hc

/-- effect of one snapshot line on the data part of the store, for lines of the three kinds the writer emits -/
def DataSame (a b : Db) : Prop := ∀ k, isMetaKey k = false → a.fetch k = b.fetch k

theorem readLine_comment (r : RState Db) (he : r.enable = true) (line : Bytes) (h1 : trimRight line = line)
    (h2 : line ≠ []) (h5 : line.head? = some 35) (h3 : startsWith [35, 64] line = false) (h4 : line ≠ sNoComment) :
    readLine userdbParser dbSink r line = r := by
  unfold readLine
  simp [h1, he, h2, h3, h4, h5]

theorem readLine_header (r : RState Db) (he : r.enable = true) :
    readLine userdbParser dbSink r ([35, 32] ++ descUserDb) = r :=
  readLine_comment r he _ (by decide) (by decide) (by decide) (by decide) (by decide)

theorem readLine_meta (r : RState Db) (he : r.enable = true) (e : Bytes × Bytes) :
    (readLine userdbParser dbSink r (metaLine e)).enable = true ∧
    DataSame (readLine userdbParser dbSink r (metaLine e)).st r.st := by
  have ht : trimRight (metaLine e) = 35 :: 64 :: trimRight (e.1 ++ 9 :: e.2) := by
    simp only [metaLine, List.cons_append, List.nil_append]
    rw [trimRight_cons_nonspace 35 _ (by decide), trimRight_cons_nonspace 64 _ (by decide)]
  unfold readLine
  simp only [ht, he]
  have h2 : (35 :: 64 :: trimRight (e.1 ++ 9 :: e.2)) ≠ [] := by simp
  have h3 : startsWith [35, 64] (35 :: 64 :: trimRight (e.1 ++ 9 :: e.2)) = true := by
    simp [startsWith, List.isPrefixOf]
  simp only [h2, if_false, List.head?_cons, Bool.true_and, h3, if_true]
  have hb : ((some 35 : Option Nat) == some 35) = true := by decide
  simp only [hb, if_true]
  split
  next k v _ =>
    refine ⟨rfl, ?_⟩
    intro key hkey
    have : key ≠ 1 :: k := by intro e'; simp [e', isMetaKey] at hkey
    simp [dbSink, Db.metaUpdate, fetch_update_other _ _ _ _ this]
  next => exact ⟨he, fun _ _ => rfl⟩

theorem splitOn_key {code text : Bytes} (h1 : 9 ∉ code) (h2 : 9 ∉ text) :
    splitOn 9 (code ++ 9 :: text) = [code, text] := by
  rw [splitOn_append 9 code text h1, splitOn_nosep 9 text h2]

theorem getLast?_ne_nil {a : Bytes} {c : Nat} (h : a.getLast? = some c) : a ≠ [] := by
  intro e; simp [e] at h

theorem formatLine_wf {k v : Bytes} {code text : Bytes} (hk : k = code ++ 9 :: text) (hl : code.getLast? = some 32)
    (h1 : 9 ∉ code) (ht : text ≠ []) (h2 : 9 ∉ text) :
    formatLine userdbFormatter (k, v) = some (code ++ 9 :: (text ++ 9 :: v)) := by
  have hc : code ≠ [] := getLast?_ne_nil hl
  simp [formatLine, userdbFormatter, hk, splitOn_key h1 h2, hc, ht, joinWith]

theorem readLine_data (r : RState Db) {k v : Bytes} (hk : WFKey k) (hv : CleanValue v) :
    ∃ line, formatLine userdbFormatter (k, v) = some line ∧ 10 ∉ line ∧
      readLine userdbParser dbSink r line = ⟨r.st.update k v, r.enable, r.count + 1⟩ := by
  obtain ⟨code, text, hkk, hl, h9c, h10c, hh, ht, h9t, h10t⟩ := hk.ex
  obtain ⟨a, c, hva, hcs⟩ := hv.last
  refine ⟨code ++ 9 :: (text ++ 9 :: v), formatLine_wf hkk hl h9c ht h9t, ?_, ?_⟩
  · simp only [List.mem_append, List.mem_cons, not_or]
    exact ⟨h10c, by decide, h10t, by decide, hv.nonl⟩
  · have hline : code ++ 9 :: (text ++ 9 :: v) = (code ++ 9 :: (text ++ 9 :: a)) ++ [c] := by
      simp [hva]
    have htrim : trimRight (code ++ 9 :: (text ++ 9 :: v)) = code ++ 9 :: (text ++ 9 :: v) := by
      rw [hline, trimRight_noop _ _ hcs]
    have hc : code ≠ [] := getLast?_ne_nil hl
    have hne : code ++ 9 :: (text ++ 9 :: v) ≠ [] := by
      cases code with
      | nil => exact absurd rfl hc
      | cons x xs => simp
    have hhead : (code ++ 9 :: (text ++ 9 :: v)).head? = code.head? := by
      cases code with
      | nil => exact absurd rfl hc
      | cons x xs => simp
    have hsplit : splitOn 9 (code ++ 9 :: (text ++ 9 :: v)) = [code, text, v] := by
      rw [splitOn_append 9 code _ h9c, splitOn_append 9 text _ h9t, splitOn_nosep 9 v hv.notab]
    have hnot : ¬ ((r.enable && (code.head? == some 35)) = true) := by
      intro hb
      simp only [Bool.and_eq_true, beq_iff_eq] at hb
      exact hh hb.2
    unfold readLine
    simp only [htrim, hne, if_false, hhead, hnot, hsplit]
    simp [userdbParser, hc, ht, fixCode, hl, dbSink, hkk]

/-- folding the data lines of a snapshot into a store = updating with every record in order -/
theorem foldl_data_lines (es : List (Bytes × Bytes)) (hes : ∀ e ∈ es, WFKey e.1 ∧ CleanValue e.2) (r : RState Db) :
    ((es.filterMap (formatLine userdbFormatter)).foldl (readLine userdbParser dbSink) r).st =
      es.foldl (fun db e => db.update e.1 e.2) r.st ∧
    ∀ l ∈ es.filterMap (formatLine userdbFormatter), 10 ∉ l := by
  induction es generalizing r with
  | nil => simp
  | cons e rest ih =>
    obtain ⟨k, v⟩ := e
    have he := hes (k, v) (by simp)
    obtain ⟨line, hf, hnl, hr⟩ := readLine_data r he.1 he.2
    have hrest : ∀ e ∈ rest, WFKey e.1 ∧ CleanValue e.2 := fun e h => hes e (by simp [h])
    have := ih hrest ⟨r.st.update k v, r.enable, r.count + 1⟩
    simp only [List.filterMap_cons, hf, List.foldl_cons, hr]
    refine ⟨this.1, ?_⟩
    intro l hl
    rcases List.mem_cons.mp hl with rfl | hl
    · exact hnl
    · exact this.2 l hl

theorem foldl_meta_lines (es : List (Bytes × Bytes)) (r : RState Db) (he : r.enable = true) :
    ((es.map metaLine).foldl (readLine userdbParser dbSink) r).enable = true ∧
    DataSame ((es.map metaLine).foldl (readLine userdbParser dbSink) r).st r.st := by
  induction es generalizing r with
  | nil => exact ⟨he, fun _ _ => rfl⟩
  | cons e rest ih =>
    have h1 := readLine_meta r he e
    have h2 := ih (readLine userdbParser dbSink r (metaLine e)) h1.1
    simp only [List.map_cons, List.foldl_cons]
    exact ⟨h2.1, fun k hk => (h2.2 k hk).trans (h1.2 k hk)⟩

theorem foldl_update_fetch_notin (es : List (Bytes × Bytes)) (db : Db) (k : Bytes) (hk : k ∉ es.map (·.1)) :
    (es.foldl (fun db e => db.update e.1 e.2) db).fetch k = db.fetch k := by
  induction es generalizing db with
  | nil => rfl
  | cons e r ih =>
    simp only [List.map_cons, List.mem_cons, not_or] at hk
    simp only [List.foldl_cons]
    rw [ih _ hk.2, fetch_update_other _ _ _ _ hk.1]

theorem foldl_update_fetch_in (es : List (Bytes × Bytes)) (hn : (es.map (·.1)).Nodup) (db : Db) (k v : Bytes)
    (hkv : (k, v) ∈ es) : (es.foldl (fun db e => db.update e.1 e.2) db).fetch k = some v := by
  induction es generalizing db with
  | nil => simp at hkv
  | cons e r ih =>
    simp only [List.map_cons, List.nodup_cons] at hn
    simp only [List.foldl_cons]
    rcases List.mem_cons.mp hkv with he | hr
    · subst he
      rw [foldl_update_fetch_notin _ _ _ hn.1, fetch_update_same]
    · exact ih hn.2 _ hr

theorem metaLine_nonl (e : Bytes × Bytes) (h : 10 ∉ e.1 ∧ 10 ∉ e.2) : 10 ∉ metaLine e := by
  simp [metaLine, h.1, h.2]

/-- the store after `UniformRestore(UniformBackup(src))` into `db0`, on data keys -/
theorem restore_backup_fetch (src db0 : Db) (hn : (src.map (·.1)).Nodup)
    (hd : ∀ e ∈ src.queryAll, WFKey e.1 ∧ CleanValue e.2)
    (hm : ∀ e ∈ src.queryMeta, 10 ∉ e.1 ∧ 10 ∉ e.2)
    (k : Bytes) (hk : bytesLt k [32] = false) :
    (uniformRestore db0 (uniformBackup src)).fetch k =
      match src.fetch k with
      | some v => some v
      | none => db0.fetch k := by
  have hfold := foldl_data_lines src.queryAll hd
  have hlines : ∀ l ∈ tsvLines descUserDb userdbFormatter src.queryMeta src.queryAll, 10 ∉ l := by
    intro l hl
    simp only [tsvLines, List.mem_append] at hl
    rcases hl with (hl | hl) | hl
    · have : descLines descUserDb = [[35, 32] ++ descUserDb] := by decide
      rw [this] at hl
      simp only [List.mem_singleton] at hl
      subst hl
      decide
    · obtain ⟨e, he, rfl⟩ := List.mem_map.mp hl
      exact metaLine_nonl e (hm e he)
    · exact (hfold ⟨db0, true, 0⟩).2 l hl
  unfold uniformRestore uniformBackup tsvRead tsvWrite
  simp only
  rw [linesOf_unlines _ hlines]
  have hdesc : descLines descUserDb = [[35, 32] ++ descUserDb] := by decide
  simp only [tsvLines, hdesc, List.foldl_append, List.foldl_cons, List.foldl_nil]
  rw [readLine_header ⟨db0, true, 0⟩ rfl]
  have hmeta := foldl_meta_lines src.queryMeta ⟨db0, true, 0⟩ rfl
  generalize (src.queryMeta.map metaLine).foldl (readLine userdbParser dbSink) ⟨db0, true, 0⟩ = r1 at hmeta
  rw [(hfold r1).1]
  have hkm : isMetaKey k = false := not_meta_of_data hk
  cases hs : src.fetch k with
  | some v =>
    have hmem : (k, v) ∈ src.queryAll := mem_queryAll.mpr ⟨fetch_mem hs, hk⟩
    simp only
    exact foldl_update_fetch_in _ (queryAll_nodup hn) _ k v hmem
  | none =>
    have hnot : k ∉ src.queryAll.map (·.1) := by
      intro hmem
      obtain ⟨e, he, hek⟩ := List.mem_map.mp hmem
      have := fetch_of_mem_nodup hn (k := e.1) (v := e.2) (mem_queryAll.mp he).1
      rw [hek, hs] at this
      cases this
    simp only
    rw [foldl_update_fetch_notin _ _ _ hnot]
    exact hmeta.2 k hkm

/-- what `Pack` writes is a clean value -/
theorem pack_clean {D : Type} {O : DeeOps D} (L : LawfulDee O) (v : Value D) : CleanValue (pack O v) := by
  have hr9 : (9 : Nat) ∉ O.render v.dee := fun hm => by
    have := L.render_clean _ _ hm; simp [isSpace] at this
  have hr10 : (10 : Nat) ∉ O.render v.dee := fun hm => by
    have := L.render_clean _ _ hm; simp [isSpace] at this
  refine ⟨?_, ?_, ?_⟩
  · simp only [pack, List.mem_append, not_or]
    exact ⟨⟨⟨⟨⟨by decide, showInt_no 9 (by decide) (by decide) _⟩, by decide⟩, hr9⟩, by decide⟩,
      showNat_no 9 (by decide) _⟩
  · simp only [pack, List.mem_append, not_or]
    exact ⟨⟨⟨⟨⟨by decide, showInt_no 10 (by decide) (by decide) _⟩, by decide⟩, hr10⟩, by decide⟩,
      showNat_no 10 (by decide) _⟩
  · have hne := showNat_ne_nil v.tick
    obtain ⟨a, c, hac⟩ : ∃ a c, showNat v.tick = a ++ [c] := by
      rcases List.eq_nil_or_concat (showNat v.tick) with h | ⟨a, c, h⟩
      · exact absurd h hne
      · exact ⟨a, c, by simpa using h⟩
    refine ⟨[99, 61] ++ showInt v.commits ++ [32, 100, 61] ++ O.render v.dee ++ [32, 116, 61] ++ a, c, ?_, ?_⟩
    · simp [pack, hac]
    · have : isDigit c = true := showNat_digits v.tick c (by rw [hac]; simp)
      exact isDigit_not_space this

end RimeModel.C17
