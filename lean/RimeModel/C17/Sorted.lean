import RimeModel.C17.Lemmas
/-! C17 — the store stays strictly ordered by key (hence a map with unique keys) under `update`. -/
namespace RimeModel.C17

theorem bytesLt_irrefl (a : Bytes) : bytesLt a a = false := by
  induction a with
  | nil => rfl
  | cons x xs ih => simp [bytesLt, ih]

theorem bytesLt_trans : ∀ a b c : Bytes, bytesLt a b = true → bytesLt b c = true → bytesLt a c = true := by
  intro a
  induction a with
  | nil =>
    intro b c h1 h2
    cases c with
    | nil => cases b <;> simp [bytesLt] at h2
    | cons z zs => rfl
  | cons x xs ih =>
    intro b c h1 h2
    cases b with
    | nil => simp [bytesLt] at h1
    | cons y ys =>
      cases c with
      | nil => simp [bytesLt] at h2
      | cons z zs =>
        simp only [bytesLt] at h1 h2 ⊢
        by_cases hxy : x < y
        · by_cases hyz : y < z
          · have : x < z := by omega
            simp [this]
          · simp only [hyz, if_false] at h2
            by_cases hzy : z < y
            · simp [hzy] at h2
            · have : x < z := by omega
              simp [this]
        · simp only [hxy, if_false] at h1
          by_cases hyx : y < x
          · simp [hyx] at h1
          · simp only [hyx, if_false] at h1
            have hxy' : x = y := by omega
            subst hxy'
            by_cases hxz : x < z
            · simp [hxz]
            · simp only [hxz, if_false] at h2 ⊢
              by_cases hzx : z < x
              · simp [hzx] at h2
              · simp only [hzx, if_false] at h2 ⊢
                exact ih ys zs h1 h2

theorem bytesLt_connex : ∀ a b : Bytes, bytesLt a b = false → a ≠ b → bytesLt b a = true := by
  intro a
  induction a with
  | nil =>
    intro b h hne
    cases b with
    | nil => exact absurd rfl hne
    | cons y ys => simp [bytesLt] at h
  | cons x xs ih =>
    intro b h hne
    cases b with
    | nil => rfl
    | cons y ys =>
      simp only [bytesLt] at h ⊢
      by_cases hxy : x < y
      · simp [hxy] at h
      · simp only [hxy, if_false] at h
        by_cases hyx : y < x
        · simp [hyx]
        · simp only [hyx, if_false] at h ⊢
          have : x = y := by omega
          subst this
          simp only [Nat.lt_irrefl, if_false]
          exact ih ys h (fun e => hne (by rw [e]))

/-- keys strictly increasing -/
def Db.Sorted (db : Db) : Prop := db.Pairwise (fun a b => bytesLt a.1 b.1 = true)

theorem Db.sorted_nil : Db.Sorted [] := List.Pairwise.nil

theorem update_keys_mem (db : Db) (k v : Bytes) (e : Bytes × Bytes) (he : e ∈ db.update k v) :
    e.1 = k ∨ e ∈ db := by
  induction db with
  | nil => simp [Db.update] at he; exact Or.inl (by rw [he])
  | cons d r ih =>
    obtain ⟨kd, vd⟩ := d
    simp only [Db.update] at he
    split at he
    · rcases List.mem_cons.mp he with h | h
      · exact Or.inl (by rw [h])
      · exact Or.inr (List.mem_cons_of_mem _ h)
    · split at he
      · rcases List.mem_cons.mp he with h | h
        · exact Or.inl (by rw [h])
        · exact Or.inr h
      · rcases List.mem_cons.mp he with h | h
        · exact Or.inr (by rw [h]; exact List.mem_cons_self)
        · rcases ih h with h | h
          · exact Or.inl h
          · exact Or.inr (List.mem_cons_of_mem _ h)

theorem update_sorted (db : Db) (k v : Bytes) (h : db.Sorted) : (db.update k v).Sorted := by
  induction db with
  | nil => simp [Db.update, Db.Sorted]
  | cons d r ih =>
    obtain ⟨kd, vd⟩ := d
    have hd := List.pairwise_cons.mp h
    simp only [Db.update]
    split
    next hk =>
      subst hk
      exact List.pairwise_cons.mpr ⟨hd.1, hd.2⟩
    next hk =>
      split
      next hlt =>
        refine List.pairwise_cons.mpr ⟨?_, h⟩
        intro e he
        rcases List.mem_cons.mp he with rfl | he
        · exact hlt
        · exact bytesLt_trans _ _ _ hlt (hd.1 e he)
      next hlt =>
        have hgt : bytesLt kd k = true := bytesLt_connex k kd (by simpa using hlt) (fun e => hk e.symm)
        refine List.pairwise_cons.mpr ⟨?_, ih hd.2⟩
        intro e he
        rcases update_keys_mem r k v e he with h1 | h1
        · rw [h1]; exact hgt
        · exact hd.1 e h1

theorem sorted_nodup {db : Db} (h : db.Sorted) : (db.map (·.1)).Nodup := by
  induction db with
  | nil => simp
  | cons d r ih =>
    have hd := List.pairwise_cons.mp h
    simp only [List.map_cons, List.nodup_cons]
    refine ⟨?_, ih hd.2⟩
    intro hm
    obtain ⟨e, he, hek⟩ := List.mem_map.mp hm
    have := hd.1 e he
    rw [hek, bytesLt_irrefl] at this
    cases this

end RimeModel.C17
