import RimeModel.C17.Model
/-!
C17 — the op-level world of the correspondence check: installations (one user data directory and
user id each) holding named user dictionaries, and named files (snapshots, text exports).
Each op is one call of the real `UserDictManager` / `Db` API in the harness.
-/
namespace RimeModel.C17

structure World where
  version : Bytes := []
  /-- (installation, dictionary name) ↦ content; absent = the store does not exist -/
  dbs : List ((Bytes × Bytes) × Db) := []
  files : List (Bytes × Bytes) := []
  /-- snapshots in the sync directories: (installation, dictionary name) ↦ `sync/<scope>/<installation>/<name>.userdb.txt` -/
  syncs : List ((Bytes × Bytes) × Bytes) := []
  /-- old-format dictionaries: (installation, dictionary name) ↦ content of `<name>.userdb.txt` in the user data directory -/
  legacy : List ((Bytes × Bytes) × Bytes) := []

variable {D : Type} (O : DeeOps D)

def World.db (w : World) (i n : Bytes) : Option Db := (w.dbs.find? fun e => e.1 == (i, n)).map (·.2)

def World.setDb (w : World) (i n : Bytes) (db : Db) : World :=
  { w with dbs := ((i, n), db) :: w.dbs.filter fun e => e.1 != (i, n) }

def World.file (w : World) (f : Bytes) : Option Bytes := (w.files.find? fun e => e.1 == f).map (·.2)

def World.setFile (w : World) (f c : Bytes) : World :=
  { w with files := (f, c) :: w.files.filter fun e => e.1 != f }

def World.env (w : World) (i : Bytes) : Env := ⟨i, w.version⟩

/-- installations whose names differ only in the last character share one sync directory -/
def scope (i : Bytes) : Bytes := i.dropLast

def World.syncFile (w : World) (i n : Bytes) : Option Bytes := (w.syncs.find? fun e => e.1 == (i, n)).map (·.2)

def World.setSync (w : World) (i n c : Bytes) : World :=
  { w with syncs := ((i, n), c) :: w.syncs.filter fun e => e.1 != (i, n) }

/-- `Create(n)->Open(); Update(k, v); Close()` -/
def World.put (w : World) (i n k v : Bytes) : World :=
  w.setDb i n ((openDb (w.env i) n (w.db i n)).update k v)

/-- `Create(n)->Open(); MetaUpdate(k, v); Close()` -/
def World.metaPut (w : World) (i n k v : Bytes) : World :=
  w.setDb i n ((openDb (w.env i) n (w.db i n)).metaUpdate k v)

/-- `Create(n)->Remove()`: the dictionary is lost; the snapshots in the sync directory stay -/
def World.drop (w : World) (i n : Bytes) : World :=
  { w with dbs := w.dbs.filter fun e => e.1 != (i, n) }

/-- `UserDictManager(i).Backup(n)`, snapshot stored as file `f` -/
def World.backup (w : World) (i n f : Bytes) : World × Bool :=
  match managerBackup (w.env i) n (w.db i n) with
  | none => (w, false)
  | some (db, c) => (((w.setDb i n db).setSync i n c).setFile f c, true)

/-- `Create(n)->Open(); Restore(file); Close()` — the plain (non-merging) restore; a missing file reads as empty -/
def World.restore (w : World) (f i n : Bytes) : World :=
  w.setDb i n (uniformRestore (openDb (w.env i) n (w.db i n)) ((w.file f).getD []))

/-- `UserDictManager(i).Restore(file)` = merge; `m0` = initial content of `merged_entries_`.
The scratch dictionary `.temp` is removed before use (whatever an interrupted earlier run left in it) and when done. -/
def World.merge (w : World) (m0 : Int) (f i : Bytes) : World × Option Bytes :=
  let w := w.drop i sDotTemp
  match managerRestore O (w.env i) m0 ((w.file f).getD []) (fun n => w.db i n) with
  | none => (w, none)
  | some (n, db) => (w.setDb i n db, some n)

/-- `UserDictManager(i).Synchronize(n)`: merge the snapshot of `n` found in each peer directory — in the order
`order` the directory iterator yields them (an input: it is the file system's) — then back up; the new
snapshot is also kept as file `f`. -/
def World.synchronize (w : World) (i n f : Bytes) (order : List Bytes) : World × Bool :=
  let r := order.foldl (fun (acc : World × Bool) (p : Bytes) =>
    match acc.1.syncFile p n with
    | none => acc
    | some c =>
      let w1 := acc.1.drop i sDotTemp
      match managerRestore O (w1.env i) 0 c (fun m => w1.db i m) with
      | none => (w1, false)
      | some (m, db) => (w1.setDb i m db, acc.2)) (w, true)
  match managerBackup (r.1.env i) n (r.1.db i n) with
  | none => (r.1, false)
  | some (db, c) => (((r.1.setDb i n db).setSync i n c).setFile f c, r.2)

/-- `UserDictManager(i).SynchronizeAll()`: `Synchronize` for every user dictionary of the installation, in the order
`names` the directory iterator yields them (an input, like `order`); true iff none failed.  The snapshots are kept in the
sync directory only. -/
def World.synchronizeAll (w : World) (i : Bytes) (names order : List Bytes) : World × Bool :=
  names.foldl (fun (acc : World × Bool) (n : Bytes) =>
    let keep := acc.1.files
    let r := acc.1.synchronize O i n [] order
    ({ r.1 with files := keep }, acc.2 && r.2)) (w, true)

/-- a snapshot file appears in the sync directory as installation `p`'s snapshot of `n` -/
def World.plant (w : World) (f p n : Bytes) : World × Bool :=
  match w.file f with
  | none => (w, false)
  | some c => (w.setSync p n c, true)

def World.legacyFile (w : World) (i n : Bytes) : Option Bytes := (w.legacy.find? fun e => e.1 == (i, n)).map (·.2)

/-- an old-format dictionary file appears in the user data directory -/
def World.setLegacy (w : World) (f i n : Bytes) : World × Bool :=
  match w.file f with
  | none => (w, false)
  | some c => ({ w with legacy := ((i, n), c) :: w.legacy.filter fun e => e.1 != (i, n) }, true)

/-- `UserDictManager(i).UpgradeUserDict(n)` with the plain-text user db registered as `legacy_userdb`:
no old file → true.  Else the file is loaded read-only (`TextDb::OpenReadOnly`: an empty store filled by the TSV reader, no
metadata created); not a user db → false, the file stays.  Else it is backed up in the uniform format (to `trash/`),
closed, removed, and the snapshot is merged by `Restore` — into the dictionary the snapshot names. -/
def World.upgrade (w : World) (i n : Bytes) : World × Bool :=
  match w.legacyFile i n with
  | none => (w, true)
  | some c =>
    let ldb := uniformRestore [] c
    if !isUserDb ldb then (w, false)
    else
      let snap := uniformBackup ldb
      let w1 := ({ w with legacy := w.legacy.filter fun e => e.1 != (i, n) } : World).drop i sDotTemp
      match managerRestore O (w1.env i) 0 snap (fun m => w1.db i m) with
      | none => (w1, false)
      | some (m, db) => (w1.setDb i m db, true)

def World.export (w : World) (i n f : Bytes) : World × Option Nat :=
  match managerExport O (w.db i n) with
  | none => (w, none)
  | some (c, k) => (w.setFile f c, some k)

def World.import (w : World) (i n f : Bytes) : World × Option Nat :=
  let r := managerImport O (w.env i) n (w.db i n) ((w.file f).getD [])
  (w.setDb i n r.1, r.2)

end RimeModel.C17
