import RimeModel.C18.FlowThms
/-! block-style round trip of C18 proved here, restated in Props/C18.lean -/
namespace RimeModel.C18

set_option linter.unusedSimpArgs false

/-! ### entries -/

def flattenEntries : List Entry → List Bytes
  | [] => []
  | (h, body) :: es => h :: (body ++ flattenEntries es)

theorem foldr_body (body : List Bytes) (st : List Bytes × List Entry) (hb : ∀ l ∈ body, isHeader l = false) :
    body.foldr groupStep st = (body ++ st.1, st.2) := by
  induction body with
  | nil => rfl
  | cons l ls ih =>
    rw [List.foldr_cons, ih (fun x hx => hb x (List.mem_cons_of_mem _ hx))]
    unfold groupStep
    simp [hb l (List.mem_cons_self ..)]

theorem foldr_flatten (es : List Entry)
    (h : ∀ e ∈ es, isHeader e.1 = true ∧ ∀ l ∈ e.2, isHeader l = false) :
    (flattenEntries es).foldr groupStep ([], []) = ([], es) := by
  induction es with
  | nil => rfl
  | cons e es ih =>
    obtain ⟨hd, body⟩ := e
    have he := h (hd, body) (List.mem_cons_self ..)
    rw [flattenEntries, List.foldr_cons, List.foldr_append, ih (fun x hx => h x (List.mem_cons_of_mem _ hx)),
      foldr_body body _ he.2]
    unfold groupStep
    simp [he.1]

theorem groupEntries_flatten (es : List Entry)
    (h : ∀ e ∈ es, isHeader e.1 = true ∧ ∀ l ∈ e.2, isHeader l = false) :
    groupEntries (flattenEntries es) = some es := by
  unfold groupEntries
  rw [foldr_flatten es h]
  simp

theorem isHeader_indentLine (l : Bytes) : isHeader (indentLine 2 l) = false := by
  cases l with
  | nil => rfl
  | cons b p => rw [indentLine_cons]; simp [isHeader]

theorem isHeader_indentLines (ls : List Bytes) : ∀ l ∈ indentLines 2 ls, isHeader l = false := by
  intro l hl
  obtain ⟨p, _, rfl⟩ := List.mem_map.mp hl
  exact isHeader_indentLine p

theorem unindent2_indentLines (ls : List Bytes) : unindent2 (indentLines 2 ls) = some ls := by
  induction ls with
  | nil => rfl
  | cons l ls ih =>
    cases l with
    | nil =>
      show unindent2 ([] :: indentLines 2 ls) = _
      rw [unindent2, ih]; rfl
    | cons b p =>
      show unindent2 (indentLine 2 (b :: p) :: indentLines 2 ls) = _
      rw [indentLine_cons, unindent2, ih]; rfl

/-- the entries a block sequence is written as -/
def seqEntriesOf (pol : LitPolicy) (depth : Nat) : List Cfg → List Entry
  | [] => []
  | x :: xs =>
    if x.isNull then seqEntriesOf pol depth xs
    else
      (45 :: (emitChild pol (depth + 1) true (2 * depth + 2) x).first,
        indentLines 2 (emitChild pol (depth + 1) true (2 * depth + 2) x).rest) :: seqEntriesOf pol depth xs

theorem emitSeq_flatten (pol : LitPolicy) (depth : Nat) (xs : List Cfg) :
    emitSeq pol depth xs = flattenEntries (seqEntriesOf pol depth xs) := by
  induction xs with
  | nil => rfl
  | cons x xs ih =>
    rw [emitSeq, seqEntriesOf]
    by_cases hx : x.isNull = true
    · simp [hx, ih]
    · simp [hx, ih, flattenEntries]

/-- the key text and the entries a block map is written as -/
def mapEntriesOf (pol : LitPolicy) (depth : Nat) : List (Bytes × Cfg) → List Entry
  | [] => []
  | (k, v) :: rest =>
    if v.isNull then mapEntriesOf pol depth rest
    else
      (inlineScalar pol false k ++
          58 :: (emitChild pol (depth + 1) false (2 * depth + (inlineScalar pol false k).length + 2) v).first,
        indentLines 2 (emitChild pol (depth + 1) false (2 * depth + (inlineScalar pol false k).length + 2) v).rest) ::
      mapEntriesOf pol depth rest

theorem emitMap_flatten (pol : LitPolicy) (depth : Nat) (kvs : List (Bytes × Cfg)) :
    emitMap pol depth kvs = flattenEntries (mapEntriesOf pol depth kvs) := by
  induction kvs with
  | nil => rfl
  | cons kv rest ih =>
    obtain ⟨k, v⟩ := kv
    rw [emitMap, mapEntriesOf]
    by_cases hx : v.isNull = true
    · simp [hx, ih]
    · simp [hx, ih, flattenEntries]

theorem seqEntriesOf_wf (pol : LitPolicy) (depth : Nat) (xs : List Cfg) :
    ∀ e ∈ seqEntriesOf pol depth xs, isHeader e.1 = true ∧ ∀ l ∈ e.2, isHeader l = false := by
  induction xs with
  | nil => intro e he; simp [seqEntriesOf] at he
  | cons x xs ih =>
    intro e he
    rw [seqEntriesOf] at he
    by_cases hx : x.isNull = true
    · simp only [hx, if_true] at he; exact ih e he
    · simp only [hx, Bool.false_eq_true, if_false] at he
      rcases List.mem_cons.mp he with e1 | he
      · subst e1
        exact ⟨by simp [isHeader], isHeader_indentLines _⟩
      · exact ih e he

theorem mapEntriesOf_wf (pol : LitPolicy) (depth : Nat) (kvs : List (Bytes × Cfg)) :
    ∀ e ∈ mapEntriesOf pol depth kvs, isHeader e.1 = true ∧ ∀ l ∈ e.2, isHeader l = false := by
  induction kvs with
  | nil => intro e he; simp [mapEntriesOf] at he
  | cons kv rest ih =>
    obtain ⟨k, v⟩ := kv
    intro e he
    rw [mapEntriesOf] at he
    by_cases hx : v.isNull = true
    · simp only [hx, if_true] at he; exact ih e he
    · simp only [hx, Bool.false_eq_true, if_false] at he
      rcases List.mem_cons.mp he with e1 | he
      · subst e1
        refine ⟨?_, isHeader_indentLines _⟩
        obtain ⟨b, r, e, hb⟩ := inlineScalar_head pol false k
        simp only
        rw [e, List.cons_append]
        simp only [isHeader, bne_iff_ne, ne_eq, decide_eq_true_eq]
        exact inlineStart_ne b hb 32 (by decide)
      · exact ih e he

theorem seqEntriesOf_nil_iff (pol : LitPolicy) (depth : Nat) (xs : List Cfg) :
    seqEntriesOf pol depth xs = [] ↔ hasItemL xs = false := by
  induction xs with
  | nil => simp [seqEntriesOf, hasItemL]
  | cons x xs ih =>
    rw [seqEntriesOf, hasItemL]
    by_cases hx : x.isNull = true
    · simp [hx, ih]
    · simp [hx]

theorem mapEntriesOf_nil_iff (pol : LitPolicy) (depth : Nat) (kvs : List (Bytes × Cfg)) :
    mapEntriesOf pol depth kvs = [] ↔ hasItemM kvs = false := by
  induction kvs with
  | nil => simp [mapEntriesOf, hasItemM]
  | cons kv rest ih =>
    obtain ⟨k, v⟩ := kv
    rw [mapEntriesOf, hasItemM]
    by_cases hx : v.isNull = true
    · simp [hx, ih]
    · simp [hx]

theorem flattenEntries_nil_iff (es : List Entry) : flattenEntries es = [] ↔ es = [] := by
  cases es with
  | nil => simp [flattenEntries]
  | cons e es => obtain ⟨h, b⟩ := e; simp [flattenEntries]

/-! ### unfolding -/

theorem parseChildWith_nil (blk : List Bytes → Bool → Option Cfg) (inSeq : Bool) (body : List Bytes) (atEnd : Bool) :
    parseChildWith blk inSeq [] body atEnd =
      if body.isEmpty then some .null
      else match unindent2 body with
        | some ls => blk ls atEnd
        | none => none := rfl

theorem parseChildWith_cons (blk : List Bytes → Bool → Option Cfg) (inSeq : Bool) (b : UInt8) (x : Bytes)
    (body : List Bytes) (atEnd : Bool) :
    parseChildWith blk inSeq (b :: x) body atEnd =
      if b ≠ 32 then none
      else if x = [124] then (readLiteral body atEnd).map .scalar
      else if startsFlow x then (if body.isEmpty then parseFlowLine x else none)
      else
        match parseInline x with
        | some (s, plain, r) =>
          if r.isEmpty then (if body.isEmpty then some (scalarNode s plain) else none)
          else if headIs r 58 && inSeq then
            match unindent2 body with
            | some ls => blk (x :: ls) atEnd
            | none => none
          else none
        | none => none := rfl

theorem parseBlock_succ (fuel : Nat) (l : Bytes) (rest : List Bytes) (atEnd : Bool) :
    parseBlock (fuel + 1) (l :: rest) atEnd =
      if startsFlow l then (if rest.isEmpty then parseFlowLine l else none)
      else if headIs l 45 then
        match groupEntries (l :: rest) with
        | some es => (seqEntries (parseChildWith (parseBlock fuel)) atEnd es).map .list
        | none => none
      else
        match groupEntries (l :: rest) with
        | some es => (mapEntries (parseChildWith (parseBlock fuel)) atEnd es).map (fun kvs => .map (buildMap kvs))
        | none => none := by
  rw [parseBlock]; rfl

/-- a whole-line flow collection of the domain -/
theorem parseFlowLine_emitFlow (pol : LitPolicy) (t : Cfg) (d c : Nat) (hn : t.isNull = false) (hok : TreeOK pol t) :
    parseFlowLine (emitFlow pol d c t) = some t.norm := by
  unfold parseFlowLine
  have := flow_rt pol t.size t (Nat.le_refl _) hok hn d c [] ((emitFlow pol d c t).length + 1) restOK_nil (by omega)
  rw [List.append_nil] at this
  rw [this]
  simp

/-! ### the element hypothesis and the two collection lemmas -/

/-- a non-null node written as a child of a block collection (at depth `d`, text starting at column
`col ≥ 2d`) is read back as its normal form by `parseChildWith` over `parseBlock f`, provided the fuel
covers the block levels that can still follow (`flowDepth ≤ d + f`) -/
def BlockElemOK (pol : LitPolicy) (f : Nat) (x : Cfg) : Prop :=
  x.isNull = false → ∀ d inSeq col atEnd, flowDepth ≤ d + f → 2 * d ≤ col →
    parseChildWith (parseBlock f) inSeq (emitChild pol d inSeq col x).first
      (indentLines 2 (emitChild pol d inSeq col x).rest) atEnd = some x.norm

theorem seqEntries_ok (pol : LitPolicy) (f d : Nat) (atEnd : Bool) (xs : List Cfg)
    (hP : ∀ x ∈ xs, BlockElemOK pol f x) (hfd : flowDepth ≤ d + 1 + f) :
    seqEntries (parseChildWith (parseBlock f)) atEnd (seqEntriesOf pol d xs) = some (Cfg.normL xs) := by
  induction xs with
  | nil => rfl
  | cons x xs ih =>
    have ih' := ih (fun y hy => hP y (List.mem_cons_of_mem _ hy))
    rw [seqEntriesOf, Cfg.normL]
    by_cases hx : x.isNull = true
    · simp only [hx, if_true]; exact ih'
    · have hx' : x.isNull = false := by simpa using hx
      simp only [hx', Bool.false_eq_true, if_false]
      rw [seqEntries]
      simp only [headIs, decide_true, if_true, List.drop_succ_cons, List.drop_zero]
      rw [hP x (List.mem_cons_self ..) hx' (d + 1) true (2 * d + 2) _ hfd (by omega), ih']

theorem mapEntries_ok (pol : LitPolicy) (f d : Nat) (atEnd : Bool) (kvs : List (Bytes × Cfg))
    (hP : ∀ kv ∈ kvs, KeyOK pol kv.1 ∧ BlockElemOK pol f kv.2) (hfd : flowDepth ≤ d + 1 + f) :
    mapEntries (parseChildWith (parseBlock f)) atEnd (mapEntriesOf pol d kvs) = some (Cfg.normM kvs) := by
  induction kvs with
  | nil => rfl
  | cons kv kvs ih =>
    obtain ⟨k, v⟩ := kv
    have ih' := ih (fun y hy => hP y (List.mem_cons_of_mem _ hy))
    have hkv := hP (k, v) (List.mem_cons_self ..)
    rw [mapEntriesOf, Cfg.normM]
    by_cases hx : v.isNull = true
    · simp only [hx, if_true]; exact ih'
    · have hx' : v.isNull = false := by simpa using hx
      simp only [hx', Bool.false_eq_true, if_false]
      rw [mapEntries]
      obtain ⟨plain, hp, hnw, _⟩ := parseInline_inlineScalar pol false k
        (58 :: (emitChild pol (d + 1) false (2 * d + (inlineScalar pol false k).length + 2) v).first) hkv.1.1
        (restOK_cons _ _ (by decide))
      rw [hp]
      simp only [headIs, decide_true, if_true, hnw, Bool.false_eq_true, if_false, List.drop_succ_cons, List.drop_zero]
      rw [hkv.2 hx' (d + 1) false _ _ hfd (by omega), ih']

theorem block_seq (pol : LitPolicy) (f d : Nat) (atEnd : Bool) (xs : List Cfg)
    (hP : ∀ x ∈ xs, BlockElemOK pol f x) (hfd : flowDepth ≤ d + 1 + f) (hi : hasItemL xs = true) :
    parseBlock (f + 1) (emitSeq pol d xs) atEnd = some (.list (Cfg.normL xs)) := by
  rw [emitSeq_flatten]
  cases hes : seqEntriesOf pol d xs with
  | nil => rw [(seqEntriesOf_nil_iff pol d xs).mp hes] at hi; exact absurd hi (by simp)
  | cons e es =>
    obtain ⟨h, body⟩ := e
    have hwf := seqEntriesOf_wf pol d xs
    have hg := groupEntries_flatten _ hwf
    rw [hes] at hg
    -- the first header starts with `-`
    have hh : ∃ r, h = 45 :: r := by
      clear hg hP hfd hi
      induction xs with
      | nil => simp [seqEntriesOf] at hes
      | cons x xs ih =>
        rw [seqEntriesOf] at hes
        by_cases hx : x.isNull = true
        · simp only [hx, if_true] at hes
          exact ih hes (seqEntriesOf_wf pol d xs)
        · simp only [hx, Bool.false_eq_true, if_false, List.cons.injEq, Prod.mk.injEq] at hes
          exact ⟨_, hes.1.1.symm⟩
    obtain ⟨r, rfl⟩ := hh
    rw [flattenEntries, parseBlock_succ]
    simp only [startsFlow, headIs, show ((45 : UInt8) = 91) = False from by decide,
      show ((45 : UInt8) = 123) = False from by decide, decide_false, Bool.or_self, Bool.false_eq_true, if_false,
      decide_true, if_true]
    rw [flattenEntries] at hg
    rw [hg]
    simp only
    rw [← hes, seqEntries_ok pol f d atEnd xs hP hfd]
    rfl

theorem block_map (pol : LitPolicy) (f d : Nat) (atEnd : Bool) (kvs : List (Bytes × Cfg))
    (hP : ∀ kv ∈ kvs, KeyOK pol kv.1 ∧ BlockElemOK pol f kv.2) (hfd : flowDepth ≤ d + 1 + f)
    (hs : keysSorted kvs = true) (hi : hasItemM kvs = true) :
    parseBlock (f + 1) (emitMap pol d kvs) atEnd = some (.map (Cfg.normM kvs)) := by
  rw [emitMap_flatten]
  cases hes : mapEntriesOf pol d kvs with
  | nil => rw [(mapEntriesOf_nil_iff pol d kvs).mp hes] at hi; exact absurd hi (by simp)
  | cons e es =>
    obtain ⟨h, body⟩ := e
    have hwf := mapEntriesOf_wf pol d kvs
    have hg := groupEntries_flatten _ hwf
    rw [hes] at hg
    -- the first header starts with a key
    have hh : ∃ b r, h = b :: r ∧ InlineStart b := by
      clear hg hP hfd hi hs
      induction kvs with
      | nil => simp [mapEntriesOf] at hes
      | cons kv kvs ih =>
        obtain ⟨k, v⟩ := kv
        rw [mapEntriesOf] at hes
        by_cases hx : v.isNull = true
        · simp only [hx, if_true] at hes
          exact ih hes (mapEntriesOf_wf pol d kvs)
        · simp only [hx, Bool.false_eq_true, if_false, List.cons.injEq, Prod.mk.injEq] at hes
          obtain ⟨b, r, e, hb⟩ := inlineScalar_head pol false k
          refine ⟨b, r ++ 58 :: (emitChild pol (d + 1) false (2 * d + (inlineScalar pol false k).length + 2) v).first, ?_, hb⟩
          rw [← hes.1.1, e]; rfl
    obtain ⟨b, r, rfl, hb⟩ := hh
    rw [flattenEntries, parseBlock_succ]
    have h91 : b ≠ 91 := inlineStart_ne b hb 91 (by decide)
    have h123 : b ≠ 123 := inlineStart_ne b hb 123 (by decide)
    have h45 : b ≠ 45 := inlineStart_ne b hb 45 (by decide)
    simp only [startsFlow, headIs, h91, h123, h45, decide_false, Bool.or_self, Bool.false_eq_true, if_false]
    rw [flattenEntries] at hg
    rw [hg]
    simp only
    rw [← hes, mapEntries_ok pol f d atEnd kvs hP hfd]
    simp only [Option.map_some]
    rw [buildMap_sorted _ (keysSorted_normM kvs hs)]

/-! ### a node as a child of a block collection -/

theorem scalarChunk_nonliteral (pol : LitPolicy) (s : Bytes) (h : styleOf pol false s ≠ .literal) :
    scalarChunk pol s = ⟨32 :: inlineScalar pol false s, []⟩ := by
  unfold scalarChunk inlineScalar
  cases hst : styleOf pol false s with
  | plain => rfl
  | dq => rfl
  | literal => exact absurd hst h

theorem scalarChunk_literal (pol : LitPolicy) (s : Bytes) (h : styleOf pol false s = .literal) :
    scalarChunk pol s = ⟨[32, 124], literalPieces s⟩ := by
  unfold scalarChunk
  rw [h]

/-- a scalar as a block child -/
theorem child_scalar (pol : LitPolicy) (blk : List Bytes → Bool → Option Cfg) (inSeq : Bool) (s : Bytes) (atEnd : Bool)
    (hok : ScalarOK pol s) :
    parseChildWith blk inSeq (scalarChunk pol s).first (indentLines 2 (scalarChunk pol s).rest) atEnd =
      some (.scalar s) := by
  by_cases hst : styleOf pol false s = .literal
  · rw [scalarChunk_literal pol s hst, parseChildWith_cons]
    simp only [ne_eq, not_true_eq_false, if_false, if_true]
    rw [readLiteral_literalPieces s atEnd hok.1 (hok.2 (styleOf_block_literal pol s hst))]
    rfl
  · rw [scalarChunk_nonliteral pol s hst, parseChildWith_cons]
    obtain ⟨plain, hp, hnw, _⟩ := parseInline_inlineScalar pol false s [] hok.1 restOK_nil
    rw [List.append_nil] at hp
    obtain ⟨b, r, e, hb⟩ := inlineScalar_head pol false s
    have h124 : inlineScalar pol false s ≠ [124] := by
      rw [e]; intro h; simp only [List.cons.injEq] at h
      exact inlineStart_ne b hb 124 (by decide) h.1
    have hsf : startsFlow (inlineScalar pol false s) = false := by
      rw [e]
      simp only [startsFlow, headIs, Bool.or_eq_false_iff, decide_eq_false_iff_not]
      exact ⟨inlineStart_ne b hb 91 (by decide), inlineStart_ne b hb 123 (by decide)⟩
    simp only [ne_eq, not_true_eq_false, if_false, h124, hsf, Bool.false_eq_true, hp]
    simp only [List.isEmpty_nil, if_true, indentLines, List.map_nil, scalarNode]
    cases plain <;> simp_all

theorem spaces_zero : spaces 0 = [] := rfl

/-- a flow collection as a block child starts right at its bracket (no padding when `2d ≤ col`) -/
theorem emitFlow_list_head (pol : LitPolicy) (d col : Nat) (xs : List Cfg) (h : 2 * d ≤ col) :
    ∃ r, emitFlow pol d col (.list xs) = 91 :: r := by
  rw [emitFlow]
  have e1 : 2 * d - 2 - col = 0 := by omega
  have e2 : 2 * d - col = 0 := by omega
  by_cases hi : hasItemL xs = true
  · simp only [hi, if_true, e1, spaces_zero, List.nil_append]; exact ⟨_, rfl⟩
  · simp only [hi, Bool.false_eq_true, if_false, e2, spaces_zero, List.nil_append, emptySeqText]; exact ⟨_, rfl⟩

theorem emitFlow_map_head (pol : LitPolicy) (d col : Nat) (kvs : List (Bytes × Cfg)) (h : 2 * d ≤ col) :
    ∃ r, emitFlow pol d col (.map kvs) = 123 :: r := by
  rw [emitFlow]
  have e1 : 2 * d - 2 - col = 0 := by omega
  have e2 : 2 * d - col = 0 := by omega
  by_cases hi : hasItemM kvs = true
  · simp only [hi, if_true, e1, spaces_zero, List.nil_append]; exact ⟨_, rfl⟩
  · simp only [hi, Bool.false_eq_true, if_false, e2, spaces_zero, List.nil_append, emptyMapText]; exact ⟨_, rfl⟩

/-- a flow collection as a block child -/
theorem child_flow (pol : LitPolicy) (blk : List Bytes → Bool → Option Cfg) (inSeq : Bool) (t : Cfg) (d col : Nat)
    (atEnd : Bool) (hn : t.isNull = false) (hok : TreeOK pol t)
    (hh : ∃ b r, emitFlow pol d col t = b :: r ∧ (b = 91 ∨ b = 123)) :
    parseChildWith blk inSeq (32 :: emitFlow pol d col t) (indentLines 2 []) atEnd = some t.norm := by
  obtain ⟨b, r, e, hb⟩ := hh
  rw [parseChildWith_cons]
  have h124 : emitFlow pol d col t ≠ [124] := by
    rw [e]; intro h; simp only [List.cons.injEq] at h
    rcases hb with hb | hb <;> (rw [hb] at h; exact absurd h.1 (by decide))
  have hsf : startsFlow (emitFlow pol d col t) = true := by
    rw [e]; rcases hb with hb | hb <;> (subst hb; rfl)
  simp only [ne_eq, not_true_eq_false, if_false, h124, hsf, if_true, indentLines, List.map_nil, List.isEmpty_nil]
  exact parseFlowLine_emitFlow pol t d col hn hok

theorem emptySeq_line : parseFlowLine emptySeqText = some (.list []) := by rfl
theorem emptyMap_line : parseFlowLine emptyMapText = some (.map []) := by rfl

/-- **block round trip, child form.** Every non-null tree of the domain, written as a child of a block
collection, is read back as its normal form. -/
theorem block_rt (pol : LitPolicy) : ∀ n (t : Cfg), t.size ≤ n → TreeOK pol t → ∀ f, BlockElemOK pol f t := by
  intro n
  induction n with
  | zero =>
    intro t hs
    cases t <;> simp [Cfg.size] at hs
  | succ n ih =>
    intro t hs hok f hnn d inSeq col atEnd hfd hcol
    cases t with
    | null => simp [Cfg.isNull] at hnn
    | scalar s =>
      rw [TreeOK] at hok
      rw [emitChild]
      exact child_scalar pol _ inSeq s atEnd hok
    | list xs =>
      have hokL : TreeOKL pol xs := by rw [TreeOK] at hok; exact hok
      rw [emitChild]
      by_cases hd : d ≥ flowDepth
      · simp only [hd, if_true]
        obtain ⟨r, e⟩ := emitFlow_list_head pol d col xs hcol
        exact child_flow pol _ inSeq (.list xs) d col atEnd hnn hok ⟨91, r, e, Or.inl rfl⟩
      · simp only [hd, if_false]
        obtain ⟨f', rfl⟩ : ∃ f', f = f' + 1 := ⟨f - 1, by omega⟩
        have hP : ∀ x ∈ xs, BlockElemOK pol f' x := fun x hx =>
          ih x (by have := size_mem_lt xs x hx; simp [Cfg.size] at hs; omega) (treeOKL_mem pol xs hokL x hx) f'
        by_cases hi : hasItemL xs = true
        · have hb := block_seq pol f' d atEnd xs hP (by omega) hi
          cases hes : emitSeq pol d xs with
          | nil =>
            rw [emitSeq_flatten, flattenEntries_nil_iff, seqEntriesOf_nil_iff] at hes
            rw [hes] at hi; exact absurd hi (by simp)
          | cons l ls =>
            simp only
            rw [parseChildWith_nil]
            have hne : (indentLines 2 (l :: ls)).isEmpty = false := by simp [indentLines]
            simp only [hne, Bool.false_eq_true, if_false]
            rw [unindent2_indentLines]
            simp only
            rw [← hes, hb]
            rfl
        · have hi' : hasItemL xs = false := by simpa using hi
          have hes : emitSeq pol d xs = [] := by
            rw [emitSeq_flatten, flattenEntries_nil_iff, seqEntriesOf_nil_iff]; exact hi'
          rw [hes]
          simp only
          rw [parseChildWith_nil]
          have hne : (indentLines 2 [emptySeqText]).isEmpty = false := by simp [indentLines]
          simp only [hne, Bool.false_eq_true, if_false]
          rw [unindent2_indentLines]
          simp only
          have : parseBlock (f' + 1) [emptySeqText] atEnd = parseFlowLine emptySeqText := by
            rw [parseBlock_succ]; rfl
          rw [this, emptySeq_line]
          simp [Cfg.norm, normL_of_no_item xs hi']
    | map kvs =>
      have hokM : keysSorted kvs = true ∧ TreeOKM pol kvs := by rw [TreeOK] at hok; exact hok
      rw [emitChild]
      by_cases hd : d ≥ flowDepth
      · simp only [hd, if_true]
        obtain ⟨r, e⟩ := emitFlow_map_head pol d col kvs hcol
        exact child_flow pol _ inSeq (.map kvs) d col atEnd hnn hok ⟨123, r, e, Or.inr rfl⟩
      · simp only [hd, if_false]
        obtain ⟨f', rfl⟩ : ∃ f', f = f' + 1 := ⟨f - 1, by omega⟩
        have hP : ∀ kv ∈ kvs, KeyOK pol kv.1 ∧ BlockElemOK pol f' kv.2 := fun kv hkv =>
          ⟨(treeOKM_mem pol kvs hokM.2 kv hkv).1,
           ih kv.2 (by have := sizeM_mem_lt kvs kv hkv; simp [Cfg.size] at hs; omega)
             (treeOKM_mem pol kvs hokM.2 kv hkv).2 f'⟩
        by_cases hi : hasItemM kvs = true
        · have hb := block_map pol f' d atEnd kvs hP (by omega) hokM.1 hi
          cases hes : emitMap pol d kvs with
          | nil =>
            rw [emitMap_flatten, flattenEntries_nil_iff, mapEntriesOf_nil_iff] at hes
            rw [hes] at hi; exact absurd hi (by simp)
          | cons l ls =>
            simp only
            -- the first line starts with a key and holds its colon
            have hl : ∃ (k : Bytes) (c : Chunk), l = inlineScalar pol false k ++ 58 :: c.first ∧ KeyOK pol k := by
              rw [emitMap_flatten] at hes
              clear hb hi ih hs hok hnn
              induction kvs with
              | nil => simp [mapEntriesOf, flattenEntries] at hes
              | cons kv kvs ihk =>
                obtain ⟨k, v⟩ := kv
                rw [mapEntriesOf] at hes
                by_cases hx : v.isNull = true
                · simp only [hx, if_true] at hes
                  exact ihk ⟨keysSorted_tail _ _ hokM.1, (by have := hokM.2; rw [TreeOKM] at this; exact this.2.2)⟩
                    (fun kv hkv => hP kv (List.mem_cons_of_mem _ hkv)) hes
                · simp only [hx, Bool.false_eq_true, if_false, flattenEntries, List.cons.injEq] at hes
                  exact ⟨k, _, hes.1.symm, (hP (k, v) (List.mem_cons_self ..)).1⟩
            obtain ⟨k, c, hl, hk⟩ := hl
            cases inSeq with
            | false =>
              simp only [Bool.false_eq_true, if_false]
              rw [parseChildWith_nil]
              have hne : (indentLines 2 (l :: ls)).isEmpty = false := by simp [indentLines]
              simp only [hne, Bool.false_eq_true, if_false]
              rw [unindent2_indentLines]
              simp only
              rw [← hes, hb]
              rfl
            | true =>
              simp only [if_true]
              rw [parseChildWith_cons]
              obtain ⟨plain, hp, hnw, _⟩ := parseInline_inlineScalar pol false k (58 :: c.first) hk.1
                (restOK_cons _ _ (by decide))
              obtain ⟨b, r, e, hbb⟩ := inlineScalar_head pol false k
              have h124 : l ≠ [124] := by
                rw [hl, e]; intro h; simp only [List.cons_append, List.cons.injEq] at h
                exact inlineStart_ne b hbb 124 (by decide) h.1
              have hsf : startsFlow l = false := by
                rw [hl, e]
                simp only [List.cons_append, startsFlow, headIs, Bool.or_eq_false_iff, decide_eq_false_iff_not]
                exact ⟨inlineStart_ne b hbb 91 (by decide), inlineStart_ne b hbb 123 (by decide)⟩
              simp only [ne_eq, not_true_eq_false, if_false, h124, hsf, Bool.false_eq_true]
              rw [hl, hp]
              simp only [List.isEmpty_cons, Bool.false_eq_true, if_false, headIs, decide_true, Bool.and_self, if_true]
              rw [unindent2_indentLines]
              simp only
              rw [← hl, ← hes, hb]
              rfl
        · have hi' : hasItemM kvs = false := by simpa using hi
          have hes : emitMap pol d kvs = [] := by
            rw [emitMap_flatten, flattenEntries_nil_iff, mapEntriesOf_nil_iff]; exact hi'
          rw [hes]
          simp only
          cases inSeq with
          | false =>
            simp only [Bool.false_eq_true, if_false]
            rw [parseChildWith_nil]
            have hne : (indentLines 2 [emptyMapText]).isEmpty = false := by simp [indentLines]
            simp only [hne, Bool.false_eq_true, if_false]
            rw [unindent2_indentLines]
            simp only
            have : parseBlock (f' + 1) [emptyMapText] atEnd = parseFlowLine emptyMapText := by
              rw [parseBlock_succ]; rfl
            rw [this, emptyMap_line]
            simp [Cfg.norm, normM_of_no_item kvs hi']
          | true =>
            simp only [if_true]
            rw [parseChildWith_cons]
            have h1 : emptyMapText ≠ [124] := by decide
            have h2 : startsFlow emptyMapText = true := by decide
            simp only [ne_eq, not_true_eq_false, if_false, h1, h2, if_true, indentLines, List.map_nil, List.isEmpty_nil]
            rw [emptyMap_line]
            simp [Cfg.norm, normM_of_no_item kvs hi']

end RimeModel.C18
