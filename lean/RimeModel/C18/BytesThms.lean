import RimeModel.C18.DocThms
/-! from lines to bytes: the emitted lines contain no line break, so splitting the document gives them back -/
namespace RimeModel.C18

def NoLF (l : Bytes) : Prop := c_lf ∉ l

theorem noLF_nil : NoLF [] := by simp [NoLF]

theorem noLF_append (a b : Bytes) (ha : NoLF a) (hb : NoLF b) : NoLF (a ++ b) := by
  unfold NoLF at *
  simp [ha, hb]

theorem noLF_cons (x : UInt8) (a : Bytes) (hx : x ≠ c_lf) (ha : NoLF a) : NoLF (x :: a) := by
  unfold NoLF at *
  simp only [List.mem_cons, not_or]
  exact ⟨fun e => hx e.symm, ha⟩

theorem noLF_spaces (n : Nat) : NoLF (spaces n) := by
  unfold NoLF spaces
  intro h
  have := (List.mem_replicate.mp h).2
  simp [c_lf] at this

/-! ### splitting the joined lines -/

theorem splitOn_noSep (sep : UInt8) (x : Bytes) (h : sep ∉ x) : splitOn sep x = [x] := by
  have := splitOn_prefix sep x [] [] [] (fun b hb e => h (e ▸ hb)) rfl
  simpa using this

theorem splitOn_joinWith (ls : List Bytes) (hne : ls ≠ []) (h : ∀ l ∈ ls, NoLF l) :
    splitOn c_lf (joinWith [c_lf] ls) = ls := by
  induction ls with
  | nil => exact absurd rfl hne
  | cons x rest ih =>
    cases rest with
    | nil =>
      rw [joinWith]
      exact splitOn_noSep c_lf x (h x (List.mem_cons_self ..))
    | cons y rest' =>
      rw [joinWith]
      have ih' := ih (by simp) (fun l hl => h l (List.mem_cons_of_mem _ hl))
      have hx := h x (List.mem_cons_self ..)
      have : splitOn c_lf ([c_lf] ++ joinWith [c_lf] (y :: rest')) = [] :: (y :: rest') := by
        rw [List.singleton_append, splitOn_cons_sep, ih']
      rw [List.append_assoc, splitOn_prefix c_lf x _ [] (y :: rest') (fun b hb e => hx (e ▸ hb)) this]
      simp

/-! ### no line break in what is written -/

theorem hexDigitLower_ne_lf : ∀ d, d < 16 → hexDigitLower d ≠ c_lf := by decide

theorem noLF_escapeSeq (cp : Nat) : NoLF (escapeSeq cp) := by
  unfold escapeSeq NoLF
  have h := fun d (hd : d < 16) => hexDigitLower_ne_lf d hd
  have m : ∀ x : Nat, x % 16 < 16 := fun x => Nat.mod_lt _ (by omega)
  split
  · simp only [List.mem_cons, List.not_mem_nil, or_false, not_or]
    exact ⟨by decide, by decide, (h _ (m _)).symm, (h _ (m _)).symm⟩
  · split
    · simp only [List.mem_cons, List.not_mem_nil, or_false, not_or]
      exact ⟨by decide, by decide, (h _ (m _)).symm, (h _ (m _)).symm, (h _ (m _)).symm, (h _ (m _)).symm⟩
    · simp only [List.mem_cons, List.not_mem_nil, or_false, not_or]
      exact ⟨by decide, by decide, (h _ (m _)).symm, (h _ (m _)).symm, (h _ (m _)).symm, (h _ (m _)).symm,
        (h _ (m _)).symm, (h _ (m _)).symm, (h _ (m _)).symm, (h _ (m _)).symm⟩

theorem noLF_escapeCp (cp : Nat) : NoLF (escapeCp cp) := by
  unfold escapeCp
  repeat' split
  all_goals first
    | exact noLF_escapeSeq cp
    | (unfold NoLF; decide)
    | skip
  -- the raw branch: `cp ≠ 10` there
  rename_i h34 h92 h10 h9 h13 h8 h12 hctl hfeff
  exact fun hm => encodeCp_no_lf cp h10 _ hm rfl

theorem noLF_escapeAll (cps : List Nat) : NoLF (escapeAll cps) := by
  induction cps with
  | nil => exact noLF_nil
  | cons cp cps ih => rw [escapeAll]; exact noLF_append _ _ (noLF_escapeCp cp) ih

theorem noLF_emitDQ (s : Bytes) : NoLF (emitDQ s) := by
  unfold emitDQ
  exact noLF_cons _ _ (by decide) (noLF_append _ _ (noLF_escapeAll _) (noLF_cons _ _ (by decide) noLF_nil))

theorem noLF_plain (s : Bytes) (h : s.all isPlainSafe = true) : NoLF s := by
  intro hm
  have := List.all_eq_true.mp h _ hm
  simp [isPlainSafe, isAlnum, isDigit, isUpper, isLower, c_lf] at this

theorem noLF_inline (pol : LitPolicy) (inFlow : Bool) (s : Bytes) : NoLF (inlineScalar pol inFlow s) := by
  unfold inlineScalar
  cases hst : styleOf pol inFlow s with
  | plain => exact noLF_plain s (styleOf_plain_facts pol inFlow s hst).2.1
  | dq => exact noLF_emitDQ s
  | literal => exact noLF_emitDQ s

theorem splitOn_pieces_noSep (sep : UInt8) (xs : Bytes) : ∀ p ∈ splitOn sep xs, sep ∉ p := by
  induction xs with
  | nil => intro p hp; simp [splitOn] at hp; subst hp; simp
  | cons c cs ih =>
    obtain ⟨cur, rest, h⟩ := splitOn_cons_exists sep cs
    intro p hp
    by_cases hc : c = sep
    · subst hc
      rw [splitOn_cons_sep] at hp
      rcases List.mem_cons.mp hp with e | hp
      · subst e; simp
      · exact ih p hp
    · rw [splitOn_cons_other sep c cs cur rest hc h] at hp
      rw [h] at ih
      rcases List.mem_cons.mp hp with e | hp
      · subst e
        simp only [List.mem_cons, not_or]
        exact ⟨fun e => hc e.symm, ih cur (List.mem_cons_self ..)⟩
      · exact ih p (List.mem_cons_of_mem _ hp)

theorem noLF_literalPieces (s : Bytes) (ht : IsText s) : ∀ p ∈ literalPieces s, NoLF p := by
  rw [literalPieces_text s ht]
  exact splitOn_pieces_noSep c_lf s

theorem noLF_indentLine (n : Nat) (l : Bytes) (h : NoLF l) : NoLF (indentLine n l) := by
  unfold indentLine
  split
  · exact noLF_nil
  · exact noLF_append _ _ (noLF_spaces n) h

theorem noLF_indentLines (n : Nat) (ls : List Bytes) (h : ∀ l ∈ ls, NoLF l) : ∀ l ∈ indentLines n ls, NoLF l := by
  intro l hl
  obtain ⟨p, hp, rfl⟩ := List.mem_map.mp hl
  exact noLF_indentLine n p (h p hp)

/-- flow text has no line break -/
theorem noLF_flowL (pol : LitPolicy) (xs : List Cfg) (hP : ∀ x ∈ xs, ∀ d c, NoLF (emitFlow pol d c x)) :
    ∀ d c first, NoLF (emitFlowL pol d c first xs) := by
  induction xs with
  | nil => intro d c first; rw [emitFlowL]; exact noLF_nil
  | cons x xs ih =>
    intro d c first
    have ih' := ih (fun y hy => hP y (List.mem_cons_of_mem _ hy))
    rw [emitFlowL]
    by_cases hx : x.isNull = true
    · simp only [hx, if_true]; exact ih' d c first
    · simp only [hx, Bool.false_eq_true, if_false]
      refine noLF_append _ _ (noLF_append _ _ ?_ (hP x (List.mem_cons_self ..) _ _)) (ih' _ _ _)
      cases first
      · unfold NoLF commaSpace; decide
      · exact noLF_nil

theorem noLF_flowM (pol : LitPolicy) (kvs : List (Bytes × Cfg)) (hP : ∀ kv ∈ kvs, ∀ d c, NoLF (emitFlow pol d c kv.2)) :
    ∀ d c first, NoLF (emitFlowM pol d c first kvs) := by
  induction kvs with
  | nil => intro d c first; rw [emitFlowM]; exact noLF_nil
  | cons kv kvs ih =>
    obtain ⟨k, v⟩ := kv
    intro d c first
    have ih' := ih (fun y hy => hP y (List.mem_cons_of_mem _ hy))
    rw [emitFlowM]
    by_cases hx : v.isNull = true
    · simp only [hx, if_true]; exact ih' d c first
    · simp only [hx, Bool.false_eq_true, if_false]
      refine noLF_append _ _ (noLF_append _ _ (noLF_append _ _ ?_ ?_) (hP (k, v) (List.mem_cons_self ..) _ _)) (ih' _ _ _)
      · cases first
        · unfold NoLF commaSpace; decide
        · exact noLF_nil
      · exact noLF_append _ _ (noLF_inline pol true k) (by unfold NoLF colonSpace; decide)

theorem noLF_flow (pol : LitPolicy) : ∀ n (t : Cfg), t.size ≤ n → ∀ d c, NoLF (emitFlow pol d c t) := by
  intro n
  induction n with
  | zero => intro t hs; cases t <;> simp [Cfg.size] at hs
  | succ n ih =>
    intro t hs d c
    cases t with
    | null => rw [emitFlow]; exact noLF_nil
    | scalar s => rw [emitFlow]; exact noLF_inline pol true s
    | list xs =>
      rw [emitFlow]
      have hP : ∀ x ∈ xs, ∀ d c, NoLF (emitFlow pol d c x) := fun x hx =>
        ih x (by have := size_mem_lt xs x hx; simp [Cfg.size] at hs; omega)
      split
      · exact noLF_append _ _ (noLF_spaces _) (noLF_cons _ _ (by decide)
          (noLF_append _ _ (noLF_flowL pol xs hP _ _ _) (noLF_cons _ _ (by decide) noLF_nil)))
      · exact noLF_append _ _ (noLF_spaces _) (by unfold NoLF emptySeqText; decide)
    | map kvs =>
      rw [emitFlow]
      have hP : ∀ kv ∈ kvs, ∀ d c, NoLF (emitFlow pol d c kv.2) := fun kv hkv =>
        ih kv.2 (by have := sizeM_mem_lt kvs kv hkv; simp [Cfg.size] at hs; omega)
      split
      · exact noLF_append _ _ (noLF_spaces _) (noLF_cons _ _ (by decide)
          (noLF_append _ _ (noLF_flowM pol kvs hP _ _ _) (noLF_cons _ _ (by decide) noLF_nil)))
      · exact noLF_append _ _ (noLF_spaces _) (by unfold NoLF emptyMapText; decide)

theorem noLF_emptySeq : NoLF emptySeqText := by unfold NoLF emptySeqText; decide
theorem noLF_emptyMap : NoLF emptyMapText := by unfold NoLF emptyMapText; decide

/-- the lines of a chunk have no line break -/
def ChunkNoLF (c : Chunk) : Prop := NoLF c.first ∧ ∀ l ∈ c.rest, NoLF l

theorem noLF_seqLines (pol : LitPolicy) (d : Nat) (xs : List Cfg)
    (hP : ∀ x ∈ xs, ∀ d inSeq col, ChunkNoLF (emitChild pol d inSeq col x)) : ∀ l ∈ emitSeq pol d xs, NoLF l := by
  induction xs with
  | nil => intro l hl; simp [emitSeq] at hl
  | cons x xs ih =>
    have ih' := ih (fun y hy => hP y (List.mem_cons_of_mem _ hy))
    intro l hl
    rw [emitSeq] at hl
    by_cases hx : x.isNull = true
    · simp only [hx, if_true] at hl; exact ih' l hl
    · simp only [hx, Bool.false_eq_true, if_false] at hl
      have hc := hP x (List.mem_cons_self ..) (d + 1) true (2 * d + 2)
      rcases List.mem_append.mp hl with hl | hl
      · rcases List.mem_cons.mp hl with e | hl
        · rw [e]; exact noLF_cons _ _ (by decide) hc.1
        · exact noLF_indentLines 2 _ hc.2 l hl
      · exact ih' l hl

theorem noLF_mapLines (pol : LitPolicy) (d : Nat) (kvs : List (Bytes × Cfg))
    (hP : ∀ kv ∈ kvs, ∀ d inSeq col, ChunkNoLF (emitChild pol d inSeq col kv.2)) : ∀ l ∈ emitMap pol d kvs, NoLF l := by
  induction kvs with
  | nil => intro l hl; simp [emitMap] at hl
  | cons kv kvs ih =>
    obtain ⟨k, v⟩ := kv
    have ih' := ih (fun y hy => hP y (List.mem_cons_of_mem _ hy))
    intro l hl
    rw [emitMap] at hl
    by_cases hx : v.isNull = true
    · simp only [hx, if_true] at hl; exact ih' l hl
    · simp only [hx, Bool.false_eq_true, if_false] at hl
      have hc := hP (k, v) (List.mem_cons_self ..) (d + 1) false (2 * d + (inlineScalar pol false k).length + 2)
      rcases List.mem_append.mp hl with hl | hl
      · rcases List.mem_cons.mp hl with e | hl
        · rw [e]; exact noLF_append _ _ (noLF_inline pol false k) (noLF_cons _ _ (by decide) hc.1)
        · exact noLF_indentLines 2 _ hc.2 l hl
      · exact ih' l hl

theorem noLF_child (pol : LitPolicy) : ∀ n (t : Cfg), t.size ≤ n → TreeOK pol t →
    ∀ d inSeq col, ChunkNoLF (emitChild pol d inSeq col t) := by
  intro n
  induction n with
  | zero => intro t hs; cases t <;> simp [Cfg.size] at hs
  | succ n ih =>
    intro t hs hok d inSeq col
    cases t with
    | null => rw [emitChild]; exact ⟨noLF_nil, by simp⟩
    | scalar s =>
      rw [TreeOK] at hok
      rw [emitChild]
      by_cases hst : styleOf pol false s = .literal
      · rw [scalarChunk_literal pol s hst]
        exact ⟨noLF_cons _ _ (by decide) (noLF_cons _ _ (by decide) noLF_nil), noLF_literalPieces s hok.1⟩
      · rw [scalarChunk_nonliteral pol s hst]
        exact ⟨noLF_cons _ _ (by decide) (noLF_inline pol false s), by simp⟩
    | list xs =>
      have hokL : TreeOKL pol xs := by rw [TreeOK] at hok; exact hok
      rw [emitChild]
      split
      · exact ⟨noLF_cons _ _ (by decide) (noLF_flow pol _ _ (Nat.le_refl _) _ _), by simp⟩
      · have hP : ∀ x ∈ xs, ∀ d inSeq col, ChunkNoLF (emitChild pol d inSeq col x) := fun x hx =>
          ih x (by have := size_mem_lt xs x hx; simp [Cfg.size] at hs; omega) (treeOKL_mem pol xs hokL x hx)
        have hl := noLF_seqLines pol d xs hP
        split
        · exact ⟨noLF_nil, by intro l hl; simp at hl; rw [hl]; exact noLF_emptySeq⟩
        · rename_i l ls heq
          rw [heq] at hl
          exact ⟨noLF_nil, hl⟩
    | map kvs =>
      have hokM : keysSorted kvs = true ∧ TreeOKM pol kvs := by rw [TreeOK] at hok; exact hok
      rw [emitChild]
      split
      · exact ⟨noLF_cons _ _ (by decide) (noLF_flow pol _ _ (Nat.le_refl _) _ _), by simp⟩
      · have hP : ∀ kv ∈ kvs, ∀ d inSeq col, ChunkNoLF (emitChild pol d inSeq col kv.2) := fun kv hkv =>
          ih kv.2 (by have := sizeM_mem_lt kvs kv hkv; simp [Cfg.size] at hs; omega) (treeOKM_mem pol kvs hokM.2 kv hkv).2
        have hl := noLF_mapLines pol d kvs hP
        split
        · split
          · exact ⟨noLF_cons _ _ (by decide) noLF_emptyMap, by simp⟩
          · exact ⟨noLF_nil, by intro l hl; simp at hl; rw [hl]; exact noLF_emptyMap⟩
        · rename_i l ls heq
          rw [heq] at hl
          split
          · exact ⟨noLF_cons _ _ (by decide) (hl l (List.mem_cons_self ..)), fun x hx => hl x (List.mem_cons_of_mem _ hx)⟩
          · exact ⟨noLF_nil, hl⟩

/-- a chunk that continues no header line has following lines -/
theorem chunk_rest_ne (pol : LitPolicy) (t : Cfg) (d col : Nat) (inSeq : Bool) (hn : t.isNull = false)
    (hfe : (emitChild pol d inSeq col t).first.isEmpty = true) : (emitChild pol d inSeq col t).rest ≠ [] := by
  cases t with
  | null => simp [Cfg.isNull] at hn
  | scalar s =>
    rw [emitChild] at hfe
    unfold scalarChunk at hfe
    split at hfe <;> simp at hfe
  | list xs =>
    rw [emitChild] at hfe ⊢
    by_cases hd : d ≥ flowDepth
    · simp [hd] at hfe
    · simp only [hd, if_false]
      split <;> simp
  | map kvs =>
    rw [emitChild] at hfe ⊢
    by_cases hd : d ≥ flowDepth
    · simp [hd] at hfe
    · simp only [hd, if_false] at hfe ⊢
      split
      · cases inSeq
        · simp
        · simp at hfe
          rename_i heq
          rw [heq] at hfe
          simp at hfe
      · cases inSeq
        · simp
        · rename_i l ls heq
          rw [heq] at hfe
          simp at hfe

theorem emitDocLines_noLF (pol : LitPolicy) (t : Cfg) (hok : TreeOK pol t) :
    emitDocLines pol t ≠ [] ∧ ∀ l ∈ emitDocLines pol t, NoLF l := by
  unfold emitDocLines
  by_cases hn : t.isNull = true
  · simp only [hn, if_true]
    exact ⟨by simp, by intro l hl; simp at hl; rw [hl]; exact noLF_nil⟩
  · simp only [hn, Bool.false_eq_true, if_false]
    have hc := noLF_child pol t.size t (Nat.le_refl _) hok 0 false 0
    split
    · rename_i hfe
      exact ⟨chunk_rest_ne pol t 0 0 false (by simpa using hn) hfe, hc.2⟩
    · refine ⟨by simp, ?_⟩
      intro l hl
      rcases List.mem_cons.mp hl with e | hl
      · rw [e]
        intro hm
        exact hc.1 (List.mem_of_mem_drop hm)
      · exact noLF_indentLines 2 _ hc.2 l hl

/-- the document splits back into the lines it was joined from -/
theorem docLines_emitDoc (pol : LitPolicy) (t : Cfg) (hok : TreeOK pol t) :
    docLines (emitDoc pol t) = emitDocLines pol t := by
  unfold docLines emitDoc
  have := emitDocLines_noLF pol t hok
  exact splitOn_joinWith _ this.1 this.2

/-- **parse_emit**: `LoadFromStream (SaveToStream t) = norm t` for every tree of the domain -/
theorem parseDoc_emitDoc (pol : LitPolicy) (t : Cfg) (hok : TreeOK pol t) (hroot : RootOK pol t) :
    parseDoc (emitDoc pol t) = some t.norm := by
  unfold parseDoc
  rw [docLines_emitDoc pol t hok]
  exact lines_rt pol t hok hroot

end RimeModel.C18
